import Mamba.Model.IterBase
/-! Basic facts about `get` / `set` on slices split as `pre ++ a :: suf`. -/
namespace Iter

theorem get_natCast (a : Sl) (i : Nat) :
    get a (i : Int) = if h : i < a.length then .ok a[i] else .panic := by
  unfold get
  have : ¬ ((i : Int) < 0) := by omega
  simp only [this, if_false, Int.toNat_natCast]
  split
  · next h =>
    obtain ⟨hl, rfl⟩ := List.getElem?_eq_some_iff.mp h
    simp [hl]
  · next h =>
    have hl := List.getElem?_eq_none_iff.mp h
    simp [Nat.not_lt.mpr hl]

theorem set_natCast (a : Sl) (i : Nat) (v : Int) :
    set a (i : Int) v = if i < a.length then .ok (a.set i v) else .panic := by
  unfold set
  have : ¬ ((i : Int) < 0) := by omega
  simp [this]

@[simp] theorem get_append_length (pre suf : Sl) (a : Int) :
    get (pre ++ a :: suf) (pre.length : Int) = .ok a := by
  simp [get_natCast]

@[simp] theorem set_append_length (pre suf : Sl) (a v : Int) :
    set (pre ++ a :: suf) (pre.length : Int) v = .ok (pre ++ v :: suf) := by
  simp [set_natCast]

theorem get_neg (a : Sl) (i : Int) (h : i < 0) : get a i = .panic := by
  simp [get, h]

end Iter
