import Mamba.Lemmas.CanonIso
namespace Search
open Disjoint GSearch GraphSpec

variable {O : Oracle} {n : Nat}

theorem perm_eq_map {p : Array Nat} {nv : Nat} (hp : p.toList.Perm (List.range nv)) :
    p.toList = (List.range nv).map fun i => p.getD i 0 := by
  have hlen : p.toList.length = nv := by simpa using hp.length_eq
  apply List.ext_getElem
  · simp [hlen]
  · intro i h1 h2
    simp only [List.getElem_map, List.getElem_range, Array.getElem_toList]
    have : i < p.size := by simpa using h1
    simp [Array.getD_eq_getD_getElem?, Array.getElem?_eq_getElem this]

theorem isBij_of_arrayPerm {p : Array Nat} {nv : Nat} (hp : p.toList.Perm (List.range nv)) :
    IsBij nv (fun i => p.getD i 0) := by
  have := isBij_of_perm hp
  refine ⟨fun u hu => ?_, fun u v hu hv h => ?_, fun w hw => ?_⟩
  · have := this.maps u hu; simpa [Array.getD_eq_getD_getElem?, List.getD_eq_getElem?_getD] using this
  · apply this.inj u v hu hv
    simpa [Array.getD_eq_getD_getElem?, List.getD_eq_getElem?_getD] using h
  · obtain ⟨u, hu, he⟩ := this.surj w hw
    exact ⟨u, hu, by simpa [Array.getD_eq_getD_getElem?, List.getD_eq_getElem?_getD] using he⟩

/-- **the canonical labellings of isomorphic graphs differ by an isomorphism** that maps the first best vertex to the first
best vertex -/
theorem canon_transport (hO : OracleSpec O n) {g h : DG} (hg : Built g) (hh : Built h) (i : IsoD g h) {a b : Ans}
    (ha : getAut O n g none = .ok (some a)) (hb : getAut O n h none = .ok (some b)) :
    ∃ θ, IsIso g h θ ∧ ∀ w, firstBest g a.perm.toList = some w → firstBest h b.perm.toList = some (θ w) := by
  have hnv : g.nv = h.nv := i.1
  have hpa := hO.perm hg ha
  have hpb := hO.perm hh hb
  have ba := isBij_of_arrayPerm hpa
  have bb := isBij_of_arrayPerm hpb
  rw [← hnv] at hpb bb
  let pa : Nat → Nat := fun i => a.perm.getD i 0
  let pb : Nat → Nat := fun i => b.perm.getD i 0
  let θ : Nat → Nat := fun v => pb (ba.inv v)
  have hθ : IsIso g h θ := by
    refine ⟨hnv, ba.inv_isBij.comp bb, ?_⟩
    intro u v hu hv
    have e1 := (ba.inv_spec hu)
    have e2 := (ba.inv_spec hv)
    have := hO.canon hg hh i ha hb (ba.inv u) (ba.inv v) e1.1 e2.1
    show g.toG.adj u v = h.toG.adj (pb (ba.inv u)) (pb (ba.inv v))
    rw [← this]
    show g.toG.adj u v = g.toG.adj (a.perm.getD (ba.inv u) 0) (a.perm.getD (ba.inv v) 0)
    rw [e1.2, e2.2]
  refine ⟨θ, hθ, ?_⟩
  intro w hw
  have hθpa : ∀ i, i < g.nv → θ (pa i) = pb i := by
    intro i hi
    show pb (ba.inv (pa i)) = pb i
    rw [ba.inv_left hi]
  unfold firstBest at hw ⊢
  rw [perm_eq_map hpa] at hw
  rw [perm_eq_map hpb]
  rw [List.find?_map] at hw ⊢
  have hcongr : ∀ (l : List Nat), (∀ i ∈ l, i < g.nv) →
      l.find? ((fun u => decide (Best h u)) ∘ fun i => b.perm.getD i 0) =
      l.find? ((fun u => decide (Best g u)) ∘ fun i => a.perm.getD i 0) := by
    intro l hl
    induction l with
    | nil => rfl
    | cons x xs ih =>
      have hx := hl x List.mem_cons_self
      have hbest : Best h (pb x) ↔ Best g (pa x) := by
        rw [← hθpa x hx]; exact hθ.best (ba.maps x hx)
      simp only [List.find?_cons, Function.comp]
      have : decide (Best h (b.perm.getD x 0)) = decide (Best g (a.perm.getD x 0)) := by
        simp only [decide_eq_decide]; exact hbest
      rw [this, ih (fun i hi => hl i (List.mem_cons_of_mem _ hi))]
  rw [hcongr _ (fun i hi => List.mem_range.1 hi)]
  cases hf : (List.range g.nv).find? ((fun u => decide (Best g u)) ∘ fun i => a.perm.getD i 0) with
  | none => rw [hf] at hw; simp at hw
  | some i0 =>
    rw [hf] at hw
    simp only [Option.map_some, Option.some.injEq] at hw ⊢
    subst hw
    have hi0 : i0 < g.nv := List.mem_range.1 (List.mem_of_find?_eq_some hf)
    exact (hθpa i0 hi0).symm

end Search
