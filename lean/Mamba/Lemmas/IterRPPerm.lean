import Mathlib.Data.List.Lex
import Mamba.Model.IterPerm
import Mamba.Lemmas.IterGeneric
import Mamba.Lemmas.IterRPProd

namespace Iter.Spec

/-- a choice of one element `q` of a list: the elements before it, `q`, the elements after it -/
structure Fr where
  b : List Int
  q : Int
  a : List Int

/-- what is left after the choice -/
def Fr.rest (fr : Fr) : List Int := fr.b ++ fr.a

/-- all ways of choosing one element of the second list, in order (`b` is put in front of the before-parts) -/
def splits : List Int → List Int → List Fr
  | _, [] => []
  | b, x :: xs => ⟨b, x, xs⟩ :: splits (b ++ [x]) xs

/-- all arrangements of `m` elements of `av`, in the order induced by the order of `av` -/
def permsOf : Nat → List Int → List (List Int)
  | 0, _ => [[]]
  | m+1, av => (splits [] av).flatMap (fun fr => (permsOf m fr.rest).map (fr.q :: ·))

def iotaL (n : Nat) : List Int := (List.range n).map Int.ofNat

/-- all permutations of `0..n-1` in lexicographic order -/
def permList (n : Int) : List (List Int) := permsOf n.toNat (iotaL n.toNat)

/-- the advertised family of `RestrictedPrefixPermutations(n, f)` -/
def rppermList (f : List Int → Bool) (n : Int) : List (List Int) := (permList n).filter (accept f)

end Iter.Spec

namespace Iter
open Spec

theorem mem_splits (fr : Fr) : ∀ (a0 b0 : List Int),
    fr ∈ splits b0 a0 ↔ ∃ a1, fr.b = b0 ++ a1 ∧ a0 = a1 ++ fr.q :: fr.a := by
  intro a0
  induction a0 with
  | nil => intro b0; simp [splits]
  | cons x xs ih =>
    intro b0
    simp only [splits, List.mem_cons, ih]
    constructor
    · rintro (rfl | ⟨a1, h1, h2⟩)
      · exact ⟨[], by simp, by simp⟩
      · exact ⟨x :: a1, by simp [h1], by simp [h2]⟩
    · rintro ⟨a1, h1, h2⟩
      cases a1 with
      | nil =>
        left
        simp at h1 h2
        cases fr; simp_all
      | cons y a1 =>
        right
        simp at h2
        exact ⟨a1, by simp [h1, h2.1], h2.2⟩

theorem mem_permsOf : ∀ (m : Nat) (av x : List Int), av.length = m → (x ∈ permsOf m av ↔ x.Perm av) := by
  intro m
  induction m with
  | zero =>
    intro av x h
    have : av = [] := List.length_eq_zero_iff.mp h
    subst this
    simp [permsOf]
  | succ m ih =>
    intro av x h
    simp only [permsOf, List.mem_flatMap, List.mem_map, mem_splits, List.nil_append]
    constructor
    · rintro ⟨fr, ⟨a1, h1, h2⟩, y, hy, rfl⟩
      have hl : fr.rest.length = m := by
        have := congrArg List.length h2
        simp [Fr.rest, h1] at this ⊢; omega
      have := (ih fr.rest y hl).mp hy
      rw [h2, ← h1]
      exact (this.cons fr.q).trans (List.perm_middle.symm)
    · intro hp
      cases x with
      | nil => have := hp.length_eq; simp at this; omega
      | cons q y =>
        have hq : q ∈ av := hp.subset (by simp)
        obtain ⟨b, a, rfl⟩ := List.append_of_mem hq
        refine ⟨⟨b, q, a⟩, ⟨b, rfl, rfl⟩, y, ?_, rfl⟩
        have hl : (b ++ a).length = m := by simp at h ⊢; omega
        apply (ih (b ++ a) y hl).mpr
        exact (List.perm_cons q).mp (hp.trans List.perm_middle)

theorem mem_permList (n : Int) (x : List Int) :
    x ∈ permList n ↔ x.Perm ((List.range n.toNat).map Int.ofNat) :=
  mem_permsOf n.toNat (iotaL n.toNat) x (by simp [iotaL])

theorem splits_q_mem (fr : Fr) (a0 b0 : List Int) (h : fr ∈ splits b0 a0) : fr.q ∈ a0 := by
  obtain ⟨a1, _, h2⟩ := (mem_splits fr a0 b0).mp h
  simp [h2]

theorem splits_pairwise : ∀ (a0 b0 : List Int), a0.Pairwise (· < ·) →
    (splits b0 a0).Pairwise (fun f1 f2 => f1.q < f2.q) := by
  intro a0
  induction a0 with
  | nil => intro b0 _; simp [splits]
  | cons x xs ih =>
    intro b0 h
    rw [List.pairwise_cons] at h
    simp only [splits, List.pairwise_cons]
    exact ⟨fun fr hfr => h.1 _ (splits_q_mem fr _ _ hfr), ih _ h.2⟩

theorem splits_rest_sorted (fr : Fr) (a0 : List Int) (h : a0.Pairwise (· < ·)) (hfr : fr ∈ splits [] a0) :
    fr.rest.Pairwise (· < ·) := by
  obtain ⟨a1, h1, h2⟩ := (mem_splits fr a0 []).mp hfr
  simp at h1
  subst h2
  rw [Fr.rest, h1]
  exact h.sublist (by simp)

theorem permsOf_sorted : ∀ (m : Nat) (av : List Int), av.Pairwise (· < ·) →
    (permsOf m av).Pairwise (· < ·) := by
  intro m
  induction m with
  | zero => intro av _; simp [permsOf]
  | succ m ih =>
    intro av h
    simp only [permsOf, List.pairwise_flatMap]
    refine ⟨?_, ?_⟩
    · intro fr hfr
      rw [List.pairwise_map]
      exact (ih fr.rest (splits_rest_sorted fr av h hfr)).imp (fun hxy => List.cons_lt_cons_iff.mpr (Or.inr ⟨rfl, hxy⟩))
    · refine (splits_pairwise av [] h).imp ?_
      intro f1 f2 hq x hx y hy
      simp only [List.mem_map] at hx hy
      obtain ⟨x', _, rfl⟩ := hx
      obtain ⟨y', _, rfl⟩ := hy
      exact List.cons_lt_cons_iff.mpr (Or.inl hq)

theorem iotaL_sorted (n : Nat) : (iotaL n).Pairwise (· < ·) := by
  simp only [iotaL, List.pairwise_map]
  exact (List.pairwise_lt_range (n := n)).imp (fun h => by simpa using h)

theorem permList_sorted (n : Int) : (permList n).Pairwise (· < ·) :=
  permsOf_sorted _ _ (iotaL_sorted _)

theorem rppermList_sorted (f : List Int → Bool) (n : Int) : (rppermList f n).Pairwise (· < ·) :=
  (permList_sorted n).filter _

theorem mem_rppermList (f : List Int → Bool) (n : Int) (x : List Int) :
    x ∈ rppermList f n ↔ x.Perm ((List.range n.toNat).map Int.ofNat) ∧
      ∀ l, 0 < l → l ≤ x.length → f (x.take l) = true := by
  simp [rppermList, mem_permList, accept_iff]

end Iter

namespace Iter.Spec

/-- accepted arrangements below the (already accepted) prefix `p`, `m` positions still to fill from `av` -/
def subP (f : List Int → Bool) : Nat → List Int → List Int → List (List Int)
  | 0, p, _ => [p]
  | m+1, p, av => (splits [] av).flatMap
      (fun fr => if f (p ++ [fr.q]) then subP f m (p ++ [fr.q]) fr.rest else [])

/-- the block of accepted arrangements below the child `p ++ [fr.q]` -/
def blkP (f : List Int → Bool) (m : Nat) (p : List Int) (fr : Fr) : List (List Int) :=
  if f (p ++ [fr.q]) then subP f m (p ++ [fr.q]) fr.rest else []

/-- the prefix chosen by a stack of choices (top of the stack = last position) -/
def pref : List Fr → List Int
  | [] => []
  | fr :: st => pref st ++ [fr.q]

/-- what the search still has to produce after the subtree of the top choice is finished -/
def afterP (f : List Int → Bool) : Nat → List Fr → List (List Int)
  | _, [] => []
  | m, fr :: st => (splits (fr.b ++ [fr.q]) fr.a).flatMap (blkP f m (pref st)) ++ afterP f (m+1) st

/-- label visits below an `x2` configuration with `m` levels to go -/
def V : Nat → Nat
  | 0 => 0
  | m+1 => 1 + (m+1) * (3 + V m)

/-- label visits still to come at an `x6` configuration -/
def phi6 : Nat → List Fr → Nat
  | _, [] => 1
  | m, fr :: st => 2 + fr.a.length * (3 + V m) + phi6 (m+1) st

end Iter.Spec

namespace Iter
open Spec

theorem subP_succ (f : List Int → Bool) (m : Nat) (p av : List Int) :
    subP f (m+1) p av = (splits [] av).flatMap (blkP f m p) := rfl

theorem subP_eq (f : List Int → Bool) : ∀ (m : Nat) (p av : List Int),
    subP f m p av = ((permsOf m av).filter (acceptAbove f p)).map (p ++ ·) := by
  intro m
  induction m with
  | zero => intro p av; simp [subP, permsOf, acceptAbove]
  | succ m ih =>
    intro p av
    simp only [subP, permsOf, List.filter_flatMap, List.map_flatMap]
    congr 1
    funext fr
    rw [List.filter_map, List.map_map]
    have : (acceptAbove f p ∘ fun x => fr.q :: x) =
        fun c => (f (p ++ [fr.q]) && acceptAbove f (p ++ [fr.q]) c) := by
      funext c; simp [acceptAbove_cons]
    rw [this]
    by_cases h : f (p ++ [fr.q])
    · simp [h, ih, Function.comp_def]
    · simp [h]

theorem subP_nil (f : List Int → Bool) (n : Int) :
    subP f n.toNat [] (iotaL n.toNat) = rppermList f n := by
  rw [subP_eq]
  have : accept f = acceptAbove f [] := rfl
  simp [rppermList, permList, this]

theorem pref_length (st : List Fr) : (pref st).length = st.length := by
  induction st with
  | nil => rfl
  | cons fr st ih => simp [pref, ih]

theorem V_succ (m : Nat) : V (m+1) = 4 + V m + m * (3 + V m) := by
  simp only [V, Nat.succ_mul]; omega

/-- `(m+1)!` -/
def fact1 : Nat → Nat
  | 0 => 1
  | m+1 => (m+2) * fact1 m

theorem fact1_pos (m : Nat) : 1 ≤ fact1 m := by
  induction m with
  | zero => simp [fact1]
  | succ m ih => simp only [fact1]; exact Nat.mul_pos (by omega) ih

theorem V_le (m : Nat) : V m + 4 ≤ 4 * fact1 m := by
  induction m with
  | zero => simp [V, fact1]
  | succ m ih =>
    have hp := fact1_pos m
    have h1 : (m+1) * (3 + V m + 1) ≤ (m+1) * (4 * fact1 m) := Nat.mul_le_mul_left _ (by omega)
    have h2 : (m+1) * (3 + V m + 1) = (m+1) * (3 + V m) + (m+1) := by rw [Nat.mul_add, Nat.mul_one]
    have h3 : (m+2) * fact1 m = (m+1) * fact1 m + fact1 m := by
      rw [show m + 2 = (m+1) + 1 by omega, Nat.succ_mul]
    have h4 : (m+1) * (4 * fact1 m) = 4 * ((m+1) * fact1 m) := by rw [Nat.mul_left_comm]
    simp only [V, fact1]
    omega

theorem foldl_fact (m : Nat) :
    (List.range (m + 1)).foldl (fun acc i => acc * (i + 1)) 1 = fact1 m := by
  induction m with
  | zero => simp [fact1]
  | succ m ih =>
    rw [List.range_succ, List.foldl_append, ih]
    simp [fact1, Nat.mul_comm]

theorem V_fuel (n : Nat) : V n + 1 ≤ RPP.fuel (n : Int) := by
  have := V_le n
  simp only [RPP.fuel, Int.toNat_natCast, foldl_fact]
  omega

end Iter

namespace Iter
open Spec

/-! ### slices with `Int` indices -/

theorem set_ok (l : Sl) (x v : Int) (h0 : 0 ≤ x) (h : x.toNat < l.length) :
    set l x v = .ok (l.set x.toNat v) := by
  have : ¬ x < 0 := by omega
  simp [set, this, h]

theorem get_set_eq (l : Sl) (x v : Int) (h0 : 0 ≤ x) (h : x.toNat < l.length) :
    get (l.set x.toNat v) x = .ok v := by
  have : ¬ x < 0 := by omega
  simp [get, this, h]

theorem get_set_ne (l : Sl) (x y v : Int) (h0 : 0 ≤ x) (hne : y ≠ x) :
    get (l.set x.toNat v) y = get l y := by
  unfold get
  by_cases hy : y < 0
  · simp [hy]
  · have : x.toNat ≠ y.toNat := by omega
    simp [hy, List.getElem?_set_ne this]

theorem get_lt_length (l : Sl) (x v : Int) (h : get l x = .ok v) : 0 ≤ x ∧ x.toNat < l.length := by
  unfold get at h
  by_cases hx : x < 0
  · simp [hx] at h
  · simp only [hx, if_false] at h
    refine ⟨by omega, ?_⟩
    cases hh : l[x.toNat]? with
    | none => simp [hh] at h
    | some w => exact (List.getElem?_eq_some_iff.mp hh).1

theorem set_get_self (l : Sl) (x v : Int) (h : get l x = .ok v) : l.set x.toNat v = l := by
  unfold get at h
  by_cases hx : x < 0
  · simp [hx] at h
  · simp only [hx, if_false] at h
    cases hh : l[x.toNat]? with
    | none => simp [hh] at h
    | some w =>
      simp [hh] at h
      subst h
      obtain ⟨hl, he⟩ := List.getElem?_eq_some_iff.mp hh
      rw [← he]; exact List.set_getElem_self hl

/-! ### the linked list -/

/-- consecutive entries are linked by `l` -/
def Links (l : Sl) : List Int → Prop
  | x :: y :: r => get l x = .ok y ∧ Links l (y :: r)
  | _ => True

theorem links_append (l : Sl) : ∀ (xs : List Int) (y : Int) (ys : List Int),
    Links l (xs ++ y :: ys) ↔ Links l (xs ++ [y]) ∧ Links l (y :: ys) := by
  intro xs
  induction xs with
  | nil => intro y ys; simp [Links]
  | cons x xs ih =>
    intro y ys
    cases xs with
    | nil => simp [Links]
    | cons x' xs' =>
      have := ih y ys
      simp only [List.cons_append, Links] at this ⊢
      rw [this, and_assoc]

theorem links_congr (l l' : Sl) : ∀ (xs : List Int) (e : Int), Links l (xs ++ [e]) →
    (∀ x ∈ xs, get l' x = get l x) → Links l' (xs ++ [e]) := by
  intro xs
  induction xs with
  | nil => intro e _ _; simp [Links]
  | cons x xs ih =>
    intro e h hc
    cases xs with
    | nil =>
      simp only [List.cons_append, List.nil_append, Links, and_true] at h ⊢
      rw [hc x (by simp)]; exact h
    | cons x' xs' =>
      simp only [List.cons_append, Links] at h ⊢
      refine ⟨by rw [hc x (by simp)]; exact h.1, ?_⟩
      exact ih e h.2 (fun z hz => hc z (by simp [hz]))

/-- the predecessor pointer of a choice: the last element before it, or the list head `n` -/
def lastP (n : Int) (b : List Int) : Int := (n :: b).getLast (List.cons_ne_nil _ _)

@[simp] theorem lastP_nil (n : Int) : lastP n [] = n := rfl

@[simp] theorem lastP_concat (n : Int) (b : List Int) (q : Int) : lastP n (b ++ [q]) = q := by
  simp [lastP, List.getLast_cons]

theorem lastP_split (n : Int) (b : List Int) : ∃ B, n :: b = B ++ [lastP n b] :=
  ⟨(n :: b).dropLast, (List.dropLast_append_getLast _).symm⟩

/-- values of a level: distinct, in `0..n-1` -/
def Good (N : Nat) (av : List Int) : Prop := av.Nodup ∧ ∀ v ∈ av, 0 ≤ v ∧ v < (N : Int)

theorem good_iotaL (N : Nat) : Good N (iotaL N) := by
  refine ⟨?_, ?_⟩
  · exact (iotaL_sorted N).imp (fun h => by omega)
  · intro v hv
    simp only [iotaL, List.mem_map, List.mem_range] at hv
    obtain ⟨i, hi, rfl⟩ := hv
    simp only [Int.ofNat_eq_natCast]; omega

theorem Good.rest {N : Nat} {b a : List Int} {q : Int} (h : Good N (b ++ q :: a)) : Good N (b ++ a) :=
  ⟨List.Nodup.sublist (by simp) h.1, fun v hv => h.2 v (by simp at hv ⊢; tauto)⟩

/-- unlinking `q` -/
theorem links_unlink (N : Nat) (l : Sl) (b a : List Int) (q lq : Int)
    (hg : Good N (b ++ q :: a)) (hl : Links l ((N : Int) :: (b ++ q :: a) ++ [(N : Int)]))
    (hq : get l q = .ok lq) :
    Links (l.set (lastP N b).toNat lq) ((N : Int) :: (b ++ a) ++ [(N : Int)]) := by
  obtain ⟨B, hB⟩ := lastP_split N b
  have e1 : (N : Int) :: (b ++ q :: a) ++ [(N : Int)] = B ++ lastP N b :: (q :: (a ++ [(N : Int)])) := by
    rw [← List.cons_append, ← List.cons_append, hB]; simp
  have e2 : (N : Int) :: (b ++ a) ++ [(N : Int)] = B ++ lastP N b :: (a ++ [(N : Int)]) := by
    rw [← List.cons_append, ← List.cons_append, hB]; simp
  -- distinctness
  have hnd : ((N : Int) :: (b ++ q :: a)).Nodup := by
    rw [List.nodup_cons]
    exact ⟨fun hm => by have := (hg.2 _ hm).2; omega, hg.1⟩
  rw [← List.cons_append, hB, List.append_assoc] at hnd
  have hnd' := List.nodup_append.mp hnd
  have hpB : lastP N b ∉ B := fun hm => hnd'.2.2 _ hm _ (by simp) rfl
  have hpa : lastP N b ∉ a := by
    have := hnd'.2.1
    simp only [List.cons_append, List.nil_append, List.nodup_cons, List.mem_cons, not_or] at this
    exact this.1.2
  have hp0 : 0 ≤ lastP N b := by
    have hm : lastP N b ∈ (N : Int) :: b := List.getLast_mem _
    rcases List.mem_cons.mp hm with h | h
    · omega
    · exact (hg.2 _ (by simp [h])).1
  rw [e1, links_append] at hl
  obtain ⟨h1, h2⟩ := hl
  have h2' : get l (lastP N b) = .ok q ∧ Links l (q :: (a ++ [(N : Int)])) := h2
  have hplen := (get_lt_length l _ _ h2'.1).2
  rw [e2, links_append]
  refine ⟨links_congr l _ B _ h1 (fun x hx => get_set_ne l _ x _ hp0 (fun hc => hpB (hc ▸ hx))), ?_⟩
  have h3 : Links l (a ++ [(N : Int)]) ∧ (a ++ [(N : Int)]).head? = some lq := by
    cases a with
    | nil =>
      have := h2'.2
      simp only [List.nil_append, Links, and_true] at this
      rw [hq] at this
      simp [Links]; injection this with h; exact h.symm
    | cons y a' =>
      have := h2'.2
      simp only [List.cons_append, Links] at this
      rw [hq] at this
      refine ⟨this.2, ?_⟩
      simp; injection this.1 with h; exact h.symm
  have h4 : Links (l.set (lastP N b).toNat lq) (a ++ [(N : Int)]) :=
    links_congr l _ a _ h3.1 (fun x hx => get_set_ne l _ x _ hp0 (fun hc => hpa (hc ▸ hx)))
  cases hh : a ++ [(N : Int)] with
  | nil => simp at hh
  | cons z r =>
    rw [hh] at h3 h4
    simp only [List.head?_cons, Option.some.injEq] at h3
    show get _ _ = .ok z ∧ _
    exact ⟨by rw [h3.2]; exact get_set_eq l _ _ hp0 hplen, h4⟩

end Iter

namespace Iter
open Spec

/-- the predecessor pointers recorded in `u` -/
def ppref (N : Nat) : List Fr → List Int
  | [] => []
  | fr :: st => ppref N st ++ [lastP N fr.b]

theorem ppref_length (N : Nat) (st : List Fr) : (ppref N st).length = st.length := by
  induction st with
  | nil => rfl
  | cons fr st ih => simp [ppref, ih]

/-- the dancing-links invariant: `l` lists the unused values `av` of the current level, and undoing the
unlink of the top choice gives a state satisfying the invariant one level up -/
def LInv (N : Nat) : List Fr → List Int → Sl → Prop
  | [], av, l => av = iotaL N ∧ Links l ((N : Int) :: av ++ [(N : Int)])
  | fr :: st, av, l => av = fr.rest ∧ Links l ((N : Int) :: av ++ [(N : Int)]) ∧
      LInv N st (fr.b ++ fr.q :: fr.a) (l.set (lastP N fr.b).toNat fr.q)

theorem LInv.links {N : Nat} {st : List Fr} {av : List Int} {l : Sl} (h : LInv N st av l) :
    Links l ((N : Int) :: av ++ [(N : Int)]) := by
  cases st with
  | nil => exact h.2
  | cons fr st => exact h.2.1

theorem LInv.good {N : Nat} : ∀ {st : List Fr} {av : List Int} {l : Sl}, LInv N st av l → Good N av := by
  intro st
  induction st with
  | nil => intro av l h; rw [h.1]; exact good_iotaL N
  | cons fr st ih =>
    intro av l h
    rw [h.1]
    exact (ih h.2.2).rest

theorem LInv.len {N : Nat} : ∀ {st : List Fr} {av : List Int} {l : Sl}, LInv N st av l →
    av.length + st.length = N := by
  intro st
  induction st with
  | nil => intro av l h; rw [h.1]; simp [iotaL]
  | cons fr st ih =>
    intro av l h
    have := ih h.2.2
    rw [h.1]
    simp [Fr.rest] at this ⊢
    omega

/-- the arrays `a` and `u` hold the prefix and the predecessor pointers of the stack -/
def Arr (N : Nat) (st : List Fr) (a u : Sl) : Prop :=
  ∃ ga gu, a = pref st ++ ga ∧ u = ppref N st ++ gu ∧ a.length = N ∧ u.length = N

/-- the state in which `Next` returns true: `a` is a full arrangement, the rest of the output is `rest` -/
def Leaf (f : List Int → Bool) (N : Nat) (rest : List (List Int)) (a l u : Sl) : Prop :=
  ∃ st av, LInv N st av l ∧ Arr N st a u ∧ l.length = N + 1 ∧ st.length + 1 = N ∧ afterP f 1 st = rest

/-- result of one run of the machine, as determined by the remaining output -/
def Res (f : List Int → Bool) (N : Nat) (rem : List (List Int)) (r : Sl × Sl × Sl × Bool) : Prop :=
  match rem with
  | [] => r.2.2.2 = false
  | y :: rest => r.2.2.2 = true ∧ r.1 = y ∧ Leaf f N rest r.1 r.2.1 r.2.2.1

def S2 (f : List Int → Bool) (N fuel : Nat) : Prop :=
  ∀ (m : Nat) (st : List Fr) (av : List Int) (a l u : Sl) (p q : Int),
    LInv N st av l → Arr N st a u → l.length = N + 1 → st.length + (m + 1) = N →
    V (m + 1) + phi6 (m + 1) st ≤ fuel →
    ∃ r, RPP.run f (N : Int) fuel .x2 (st.length : Int) p q a l u = .ok r ∧
      Res f N (subP f (m + 1) (pref st) av ++ afterP f (m + 1) st) r

def S3 (f : List Int → Bool) (N fuel : Nat) : Prop :=
  ∀ (m : Nat) (st : List Fr) (fr : Fr) (av : List Int) (a l u : Sl),
    av = fr.b ++ fr.q :: fr.a →
    LInv N st av l → Arr N st a u → l.length = N + 1 → st.length + 1 + m = N →
    1 + V m + phi6 m (fr :: st) ≤ fuel →
    ∃ r, RPP.run f (N : Int) fuel .x3 (st.length : Int) (lastP N fr.b) fr.q a l u = .ok r ∧
      Res f N (blkP f m (pref st) fr ++ afterP f m (fr :: st)) r

def S5 (f : List Int → Bool) (N fuel : Nat) : Prop :=
  ∀ (m : Nat) (st : List Fr) (fr : Fr) (av : List Int) (a l u : Sl) (p : Int),
    av = fr.b ++ fr.q :: fr.a →
    LInv N st av l → Arr N st a u → l.length = N + 1 → st.length + 1 + m = N →
    1 + fr.a.length * (3 + V m) + phi6 (m + 1) st ≤ fuel →
    ∃ r, RPP.run f (N : Int) fuel .x5 (st.length : Int) p fr.q a l u = .ok r ∧
      Res f N (afterP f m (fr :: st)) r

def S6 (f : List Int → Bool) (N fuel : Nat) : Prop :=
  ∀ (m : Nat) (st : List Fr) (av : List Int) (a l u : Sl) (p q : Int),
    LInv N st av l → Arr N st a u → l.length = N + 1 → st.length + m = N →
    phi6 m st ≤ fuel →
    ∃ r, RPP.run f (N : Int) fuel .x6 (st.length : Int) p q a l u = .ok r ∧
      Res f N (afterP f m st) r

theorem step_x2 (f : List Int → Bool) (N fuel : Nat) (ih3 : S3 f N fuel) : S2 f N (fuel + 1) := by
  intro m st av a l u p q hL hA hlen hk hphi
  have hlen' := hL.len
  obtain ⟨x, xs, rfl⟩ : ∃ x xs, av = x :: xs := by
    cases av with
    | nil => simp at hlen'; omega
    | cons x xs => exact ⟨x, xs, rfl⟩
  have hg : get l (N : Int) = .ok x := by
    have := hL.links
    exact this.1
  have hxs : xs.length = m := by simp at hlen'; omega
  have hphi' : 1 + V m + phi6 m (⟨[], x, xs⟩ :: st) ≤ fuel := by
    rw [V_succ] at hphi
    simp only [phi6, hxs]
    omega
  obtain ⟨r, h1, h2⟩ := ih3 m st ⟨[], x, xs⟩ (x :: xs) a l u rfl hL hA hlen (by omega) hphi'
  refine ⟨r, ?_, ?_⟩
  · simp only [RPP.run, hg, Outcome.bind_ok]
    simpa using h1
  · have e : subP f (m + 1) (pref st) (x :: xs) ++ afterP f (m + 1) st =
        blkP f m (pref st) ⟨[], x, xs⟩ ++ afterP f m (⟨[], x, xs⟩ :: st) := by
      simp [subP_succ, splits, afterP]
    rw [e]; exact h2

end Iter

namespace Iter
open Spec

theorem links_pred (N : Nat) (l : Sl) (b a : List Int) (q : Int)
    (hl : Links l ((N : Int) :: (b ++ q :: a) ++ [(N : Int)])) : get l (lastP N b) = .ok q := by
  obtain ⟨B, hB⟩ := lastP_split N b
  have e1 : (N : Int) :: (b ++ q :: a) ++ [(N : Int)] = B ++ lastP N b :: (q :: (a ++ [(N : Int)])) := by
    rw [← List.cons_append, ← List.cons_append, hB]; simp
  rw [e1, links_append] at hl
  exact hl.2.1

theorem links_next (N : Nat) (l : Sl) (b a : List Int) (q : Int)
    (hl : Links l ((N : Int) :: (b ++ q :: a) ++ [(N : Int)])) :
    get l q = .ok ((a ++ [(N : Int)]).headD 0) := by
  have e1 : (N : Int) :: (b ++ q :: a) ++ [(N : Int)] = ((N : Int) :: b) ++ q :: (a ++ [(N : Int)]) := by simp
  rw [e1, links_append] at hl
  cases a with
  | nil => exact hl.2.1
  | cons y a' => exact hl.2.1

theorem lastP_range (N : Nat) (b a : List Int) (q : Int) (hg : Good N (b ++ q :: a)) :
    0 ≤ lastP N b ∧ lastP N b ≤ N := by
  have hm : lastP N b ∈ (N : Int) :: b := List.getLast_mem _
  rcases List.mem_cons.mp hm with h | h
  · omega
  · have := hg.2 _ (by simp [h] : lastP N b ∈ b ++ q :: a); omega

theorem Arr.tail {N : Nat} {fr : Fr} {st : List Fr} {a u : Sl} (h : Arr N (fr :: st) a u) : Arr N st a u := by
  obtain ⟨ga, gu, ha, hu, hal, hul⟩ := h
  exact ⟨fr.q :: ga, lastP N fr.b :: gu, by simp [ha, pref], by simp [hu, ppref], hal, hul⟩

theorem step_x5 (f : List Int → Bool) (N fuel : Nat) (ih3 : S3 f N fuel) (ih6 : S6 f N fuel) :
    S5 f N (fuel + 1) := by
  intro m st fr av a l u p hav hL hA hlen hk hphi
  obtain ⟨b, q, aa⟩ := fr
  simp only at hav hphi
  have hlk := hL.links
  rw [hav] at hlk
  have hnx := links_next N l b aa q hlk
  cases aa with
  | nil =>
    simp only [List.nil_append, List.headD_cons] at hnx
    have hphi' : phi6 (m + 1) st ≤ fuel := by simp at hphi; omega
    obtain ⟨r, h1, h2⟩ := ih6 (m + 1) st av a l u q (N : Int) hL hA hlen (by omega) hphi'
    refine ⟨r, ?_, ?_⟩
    · simp only [RPP.run, hnx, Outcome.bind_ok]
      simpa using h1
    · simpa [afterP, splits] using h2
  | cons x xs =>
    simp only [List.cons_append, List.headD_cons] at hnx
    have hx : x ≠ (N : Int) := by
      have := (hL.good).2 x (by rw [hav]; simp)
      omega
    have hphi' : 1 + V m + phi6 m (⟨b ++ [q], x, xs⟩ :: st) ≤ fuel := by
      simp only [List.length_cons, Nat.succ_mul] at hphi
      simp only [phi6]
      omega
    obtain ⟨r, h1, h2⟩ := ih3 m st ⟨b ++ [q], x, xs⟩ av a l u (by simp [hav]) hL hA hlen hk hphi'
    refine ⟨r, ?_, ?_⟩
    · simp only [RPP.run, hnx, Outcome.bind_ok]
      simpa [hx] using h1
    · simpa [afterP, splits] using h2

theorem step_x6 (f : List Int → Bool) (N fuel : Nat) (ih5 : S5 f N fuel) : S6 f N (fuel + 1) := by
  intro m st av a l u p q hL hA hlen hk hphi
  cases st with
  | nil =>
    refine ⟨(a, l, u, false), ?_, ?_⟩
    · simp [RPP.run]
    · simp [afterP, Res]
  | cons fr st =>
    obtain ⟨ga, gu, ha, hu, hal, hul⟩ := hA
    have hk1 : (((fr :: st).length : Nat) : Int) - 1 = (st.length : Int) := by simp
    have hk0 : ¬ ((st.length : Int) < 0) := by omega
    have gu' : get u (st.length : Int) = .ok (lastP N fr.b) := by
      rw [hu, ← ppref_length N st]
      simp only [ppref, List.append_assoc, List.cons_append, List.nil_append]
      exact get_append_length _ _ _
    have ga' : get a (st.length : Int) = .ok fr.q := by
      rw [ha, ← pref_length st]
      simp only [pref, List.append_assoc, List.cons_append, List.nil_append]
      exact get_append_length _ _ _
    have hg := hL.2.2.good
    have hr := lastP_range N fr.b fr.a fr.q hg
    have hs : set l (lastP N fr.b) fr.q = .ok (l.set (lastP N fr.b).toNat fr.q) :=
      set_ok l _ _ hr.1 (by omega)
    have hphi' : 1 + fr.a.length * (3 + V m) + phi6 (m + 1) st ≤ fuel := by
      simp only [phi6] at hphi; omega
    obtain ⟨r, h1, h2⟩ := ih5 m st fr _ a _ u (lastP N fr.b) rfl hL.2.2
      (Arr.tail ⟨ga, gu, ha, hu, hal, hul⟩) (by simpa using hlen) (by simp at hk; omega) hphi'
    refine ⟨r, ?_, h2⟩
    simp only [RPP.run, hk1, hk0, if_false, gu', ga', hs, Outcome.bind_ok]
    exact h1

end Iter

namespace Iter
open Spec

theorem step_x3 (f : List Int → Bool) (N fuel : Nat) (ih2 : S2 f N fuel) (ih5 : S5 f N fuel) :
    S3 f N (fuel + 1) := by
  intro m st fr av a l u hav hL hA hlen hk hphi
  obtain ⟨ga, gu, ha, hu, hal, hul⟩ := hA
  have hpl := pref_length st
  have hppl := ppref_length N st
  obtain ⟨g, ga', rfl⟩ : ∃ g ga', ga = g :: ga' := by
    cases ga with
    | nil => simp [ha, hpl] at hal; omega
    | cons g ga' => exact ⟨g, ga', rfl⟩
  have hsa : set a (st.length : Int) fr.q = .ok (pref st ++ fr.q :: ga') := by
    rw [ha, ← hpl]; exact set_append_length _ _ _ _
  have hal' : (pref st ++ fr.q :: ga').length = N := by
    rw [ha] at hal; simpa using hal
  have hc : ¬ ((st.length : Int) + 1 < 0 ∨ ((st.length : Int) + 1).toNat > (pref st ++ fr.q :: ga').length) := by
    rw [hal']; omega
  have ht : (pref st ++ fr.q :: ga').take ((st.length : Int) + 1).toNat = pref st ++ [fr.q] := by
    have : ((st.length : Int) + 1).toNat = (pref st).length + 1 := by rw [hpl]; omega
    rw [this]
    simp [List.take_append, List.take_of_length_le]
  have hA' : Arr N st (pref st ++ fr.q :: ga') u := ⟨fr.q :: ga', gu, rfl, hu, hal', hul⟩
  simp only [RPP.run, hsa, Outcome.bind_ok, hc, if_false, ht]
  by_cases hf : f (pref st ++ [fr.q]) = true
  · simp only [hf, Bool.not_true, Bool.false_eq_true, if_false]
    cases m with
    | zero =>
      have hkn : ((st.length : Int) == (N : Int) - 1) = true := by
        simp only [beq_iff_eq]; omega
      simp only [hkn, if_true]
      refine ⟨_, rfl, ?_⟩
      have hlen' := hL.len
      have hav1 : av.length = 1 := by omega
      have hb : fr.b = [] ∧ fr.a = [] := by
        rw [hav] at hav1
        simp at hav1
        have : fr.b.length = 0 ∧ fr.a.length = 0 := by omega
        exact ⟨List.length_eq_zero_iff.mp this.1, List.length_eq_zero_iff.mp this.2⟩
      have hga : ga' = [] := by
        simp [hpl] at hal'
        exact List.length_eq_zero_iff.mp (by omega)
      subst hga
      have e : blkP f 0 (pref st) fr ++ afterP f 0 (fr :: st) = (pref st ++ [fr.q]) :: afterP f 1 st := by
        simp [blkP, hf, subP, afterP, hb.2, splits]
      rw [e]
      exact ⟨rfl, rfl, st, av, hL, hA', hlen, by omega, rfl⟩
    | succ m' =>
      have hkn : ((st.length : Int) == (N : Int) - 1) = false := by
        simp only [beq_eq_false_iff_ne, ne_eq]; omega
      simp only [hkn, Bool.false_eq_true, if_false]
      obtain ⟨g2, gu', rfl⟩ : ∃ g2 gu', gu = g2 :: gu' := by
        cases gu with
        | nil => simp [hu, hppl] at hul; omega
        | cons g2 gu' => exact ⟨g2, gu', rfl⟩
      have hsu : set u (st.length : Int) (lastP N fr.b) = .ok (ppref N st ++ lastP N fr.b :: gu') := by
        rw [hu, ← hppl]; exact set_append_length _ _ _ _
      have hlk := hL.links
      rw [hav] at hlk
      have hnx := links_next N l fr.b fr.a fr.q hlk
      have hpd := links_pred N l fr.b fr.a fr.q hlk
      have hg := hL.good
      rw [hav] at hg
      have hr := lastP_range N fr.b fr.a fr.q hg
      have hsl : set l (lastP N fr.b) ((fr.a ++ [(N : Int)]).headD 0) =
          .ok (l.set (lastP N fr.b).toNat ((fr.a ++ [(N : Int)]).headD 0)) :=
        set_ok l _ _ hr.1 (by omega)
      have hun := links_unlink N l fr.b fr.a fr.q _ hg hlk hnx
      have hL' : LInv N (fr :: st) fr.rest (l.set (lastP N fr.b).toNat ((fr.a ++ [(N : Int)]).headD 0)) := by
        refine ⟨rfl, hun, ?_⟩
        rw [List.set_set, set_get_self l _ _ hpd, ← hav]
        exact hL
      have hA2 : Arr N (fr :: st) (pref st ++ fr.q :: ga') (ppref N st ++ lastP N fr.b :: gu') := by
        refine ⟨ga', gu', by simp [pref], by simp [ppref], hal', ?_⟩
        rw [hu] at hul; simpa using hul
      have hphi' : V (m' + 1) + phi6 (m' + 1) (fr :: st) ≤ fuel := by omega
      obtain ⟨r, h1, h2⟩ := ih2 m' (fr :: st) fr.rest _ _ _ (lastP N fr.b) fr.q hL' hA2
        (by simpa using hlen) (by simp; omega) hphi'
      have hk1 : (st.length : Int) + 1 = (((fr :: st).length : Nat) : Int) := by simp
      refine ⟨r, ?_, ?_⟩
      · simp only [hsu, hnx, hsl, Outcome.bind_ok, hk1]
        exact h1
      · have e : blkP f (m' + 1) (pref st) fr = subP f (m' + 1) (pref (fr :: st)) fr.rest := by
          simp [blkP, hf, pref]
        rw [e]; exact h2
  · have hf' : f (pref st ++ [fr.q]) = false := by simpa using hf
    simp only [hf', Bool.not_false, if_true]
    have hphi' : 1 + fr.a.length * (3 + V m) + phi6 (m + 1) st ≤ fuel := by
      simp only [phi6] at hphi; omega
    obtain ⟨r, h1, h2⟩ := ih5 m st fr av _ l u (lastP N fr.b) hav hL hA' hlen hk hphi'
    refine ⟨r, h1, ?_⟩
    simpa [blkP, hf'] using h2

end Iter

namespace Iter
open Spec

theorem V_pos (m : Nat) : 1 ≤ V (m + 1) := by rw [V_succ]; omega

theorem phi6_pos (m : Nat) (st : List Fr) : 1 ≤ phi6 m st := by
  cases st with
  | nil => simp [phi6]
  | cons fr st => simp only [phi6]; omega

/-- the goto machine produces, from every configuration, the head of the remaining output -/
theorem rpp_run (f : List Int → Bool) (N : Nat) :
    ∀ fuel, S2 f N fuel ∧ S3 f N fuel ∧ S5 f N fuel ∧ S6 f N fuel := by
  intro fuel
  induction fuel with
  | zero =>
    refine ⟨?_, ?_, ?_, ?_⟩
    · intro m st av a l u p q _ _ _ _ h
      have := V_pos m; omega
    · intro m st fr av a l u _ _ _ _ _ h; omega
    · intro m st fr av a l u p _ _ _ _ _ h; omega
    · intro m st av a l u p q _ _ _ _ h
      have := phi6_pos m st; omega
  | succ fuel ih =>
    obtain ⟨ih2, ih3, ih5, ih6⟩ := ih
    exact ⟨step_x2 f N fuel ih3, step_x3 f N fuel ih2 ih5, step_x5 f N fuel ih3 ih6, step_x6 f N fuel ih5⟩

theorem phi6_bound (N : Nat) : ∀ (st : List Fr) (m : Nat) (av : List Int) (l : Sl),
    LInv N st av l → st.length + m = N → phi6 m st + V m ≤ V N + 1 := by
  intro st
  induction st with
  | nil =>
    intro m av l _ hk
    simp at hk; subst hk
    simp [phi6]; omega
  | cons fr st ih =>
    intro m av l h hk
    have h1 := ih (m + 1) _ _ h.2.2 (by simp at hk; omega)
    have h2 := h.len
    rw [h.1] at h2
    simp [Fr.rest] at h2 hk
    have h3 : fr.a.length * (3 + V m) ≤ m * (3 + V m) := Nat.mul_le_mul_right _ (by omega)
    rw [V_succ] at h1
    simp only [phi6]
    omega

/-! ### driving the iterator -/

theorem collect_rem {σ α : Type} (it : It σ α) (P : σ → List α → Prop)
    (hnil : ∀ s, P s [] → ∃ s', it.next s = .ok (s', false) ∧ P s' [])
    (hcons : ∀ s x l, P s (x :: l) → ∃ s1 s2, it.next s = .ok (s1, true) ∧ it.value s1 = .ok (s2, x) ∧ P s2 l) :
    ∀ (l : List α) (s : σ) (acc : List α) (fuel : Nat), P s l → l.length < fuel →
      ∃ s', collect it fuel s acc = (l.reverse ++ acc, s', .exhausted) ∧ P s' [] := by
  intro l
  induction l with
  | nil =>
    intro s acc fuel hP hf
    obtain ⟨k, rfl⟩ : ∃ k, fuel = k + 1 := ⟨fuel - 1, by simp at hf; omega⟩
    obtain ⟨s', h1, h2⟩ := hnil s hP
    exact ⟨s', by simp [collect, h1], h2⟩
  | cons x l ih =>
    intro s acc fuel hP hf
    obtain ⟨k, rfl⟩ : ∃ k, fuel = k + 1 := ⟨fuel - 1, by simp at hf; omega⟩
    obtain ⟨s1, s2, h1, h2, h3⟩ := hcons s x l hP
    obtain ⟨s', h4, h5⟩ := ih s2 (x :: acc) k h3 (by simp at hf; omega)
    exact ⟨s', by simp [collect, h1, h2, h4], h5⟩

theorem links_iota (l : Sl) : ∀ (k s : Nat),
    (∀ i : Nat, s ≤ i → i < s + k → get l (i : Int) = .ok ((i : Int) + 1)) →
    Links l ((List.range' s k).map Int.ofNat ++ [((s + k : Nat) : Int)]) := by
  intro k
  induction k with
  | zero => intro s _; simp [Links]
  | succ k ih =>
    intro s h
    have h1 := ih (s + 1) (fun i h1 h2 => h i (by omega) (by omega))
    have h0 := h s (by omega) (by omega)
    rw [List.range'_succ]
    cases k with
    | zero =>
      simp only [List.range'_zero, List.map_nil, List.nil_append, List.map_cons, List.cons_append, Links, and_true]
      rw [show Int.ofNat s = (s : Int) from rfl, h0]; congr 1
    | succ k' =>
      rw [List.range'_succ] at h1 ⊢
      simp only [List.map_cons, List.cons_append, Links] at h1 ⊢
      refine ⟨?_, ?_⟩
      · rw [show Int.ofNat s = (s : Int) from rfl, h0]; congr 1
      · have e : s + 1 + (k' + 1) = s + (k' + 1 + 1) := by omega
        rw [e] at h1; exact h1

/-- the initial list -/
def l0 (N : Nat) : Sl := (List.range N).map (fun (i : Nat) => (i : Int) + 1) ++ [0]

theorem linv_init (N : Nat) : LInv N [] (iotaL N) (l0 N) := by
  refine ⟨rfl, ?_⟩
  have hN : get (l0 N) (N : Int) = .ok 0 := by
    have : (N : Int) = (((List.range N).map (fun (i : Nat) => (i : Int) + 1)).length : Int) := by simp
    rw [l0, this]; exact get_append_length _ _ _
  have hi : ∀ i : Nat, 0 ≤ i → i < 0 + N → get (l0 N) (i : Int) = .ok ((i : Int) + 1) := by
    intro i _ hi
    rw [get_natCast]
    have : i < (l0 N).length := by simp [l0]; omega
    simp only [this, dite_true]
    congr 1
    simp [l0, (by omega : i < N)]
  have h := links_iota (l0 N) N 0 hi
  rw [← List.range_eq_range', Nat.zero_add] at h
  show Links (l0 N) ((N : Int) :: (iotaL N ++ [(N : Int)]))
  cases N with
  | zero => simpa [iotaL, Links] using hN
  | succ M =>
    have e : iotaL (M + 1) ++ [((M + 1 : Nat) : Int)] = 0 :: ((List.range' 1 M).map Int.ofNat ++ [((M + 1 : Nat) : Int)]) := by
      simp [iotaL, List.range_eq_range', List.range'_succ]
    rw [e] at ⊢
    refine ⟨hN, ?_⟩
    rw [← e]; exact h

end Iter

namespace Iter
open Spec

/-- the states of the iterator, with the output still to come -/
def RPP.St (f : List Int → Bool) (N : Nat) (s : RPP) (rem : List (List Int)) : Prop :=
  s.n = (N : Int) ∧
  ((s.a = none ∧ s.done = false ∧ s.l = l0 N ∧ s.u = List.replicate N 0 ∧ rem = rppermList f (N : Int)) ∨
   (∃ a, s.a = some a ∧ s.done = false ∧ Leaf f N rem a s.l s.u) ∨
   (s.a ≠ none ∧ s.done = true ∧ rem = []))

theorem RPP.first_run (f : List Int → Bool) (N : Nat) (hN : 1 ≤ N) :
    ∃ r, RPP.run f (N : Int) (RPP.fuel (N : Int)) .x2 0 0 0 (List.replicate N 0) (l0 N) (List.replicate N 0) = .ok r ∧
      Res f N (rppermList f (N : Int)) r := by
  obtain ⟨m, rfl⟩ : ∃ m, N = m + 1 := ⟨N - 1, by omega⟩
  have hA : Arr (m + 1) [] (List.replicate (m + 1) 0) (List.replicate (m + 1) 0) :=
    ⟨List.replicate (m + 1) 0, List.replicate (m + 1) 0, by simp [pref], by simp [ppref], by simp, by simp⟩
  have hphi : V (m + 1) + phi6 (m + 1) [] ≤ RPP.fuel ((m + 1 : Nat) : Int) := by
    have := V_fuel (m + 1); simp only [phi6]; omega
  obtain ⟨r, h1, h2⟩ := (rpp_run f (m + 1) (RPP.fuel ((m + 1 : Nat) : Int))).1 m [] (iotaL (m + 1)) _ _ _ 0 0
    (linv_init (m + 1)) hA (by simp [l0]) (by simp) hphi
  refine ⟨r, by simpa using h1, ?_⟩
  have e : subP f (m + 1) (pref []) (iotaL (m + 1)) ++ afterP f (m + 1) [] = rppermList f ((m + 1 : Nat) : Int) := by
    have := subP_nil f ((m + 1 : Nat) : Int)
    simp only [Int.toNat_natCast] at this
    simp [afterP, pref, this]
  rw [e] at h2; exact h2

theorem RPP.leaf_run (f : List Int → Bool) (N : Nat) (rem : List (List Int)) (a l u : Sl)
    (h : Leaf f N rem a l u) :
    ∃ r, RPP.run f (N : Int) (RPP.fuel (N : Int)) .x6 ((N : Int) - 1) 0 0 a l u = .ok r ∧ Res f N rem r := by
  obtain ⟨st, av, hL, hA, hlen, hk, hrem⟩ := h
  have hphi : phi6 1 st ≤ RPP.fuel (N : Int) := by
    have h1 := phi6_bound N st 1 av l hL hk
    have h2 := V_fuel N
    omega
  obtain ⟨r, h1, h2⟩ := (rpp_run f N (RPP.fuel (N : Int))).2.2.2 1 st av a l u 0 0 hL hA hlen hk hphi
  have e : (st.length : Int) = (N : Int) - 1 := by omega
  rw [e] at h1
  rw [hrem] at h2
  exact ⟨r, h1, h2⟩

theorem RPP.next_run (f : List Int → Bool) (N : Nat) (hN : 1 ≤ N) (s : RPP) (rem : List (List Int))
    (h : RPP.St f N s rem) (hnd : s.done = false) :
    ∃ a l u b, Res f N rem (a, l, u, b) ∧ RPP.next f s = .ok (⟨(N : Int), some a, l, u, !b⟩, b) := by
  obtain ⟨hn, h⟩ := h
  have hN0 : ((N : Int) == 0) = false := by simp only [beq_eq_false_iff_ne, ne_eq]; omega
  have hmk : make (N : Int) = .ok (List.replicate N 0) := by simp [make]
  rcases h with ⟨ha, _, hl, hu, hrem⟩ | ⟨a, ha, _, hleaf⟩ | ⟨_, hd, _⟩
  · obtain ⟨⟨a', l', u', b'⟩, h1, h2⟩ := RPP.first_run f N hN
    rw [← hrem] at h2
    refine ⟨a', l', u', b', h2, ?_⟩
    cases s
    simp only at hn ha hl hu
    subst hn ha hl hu
    simp [RPP.next, hmk, hN0, h1]
  · obtain ⟨⟨a', l', u', b'⟩, h1, h2⟩ := RPP.leaf_run f N rem a s.l s.u hleaf
    refine ⟨a', l', u', b', h2, ?_⟩
    cases s
    simp only at hn ha hnd h1
    subst hn ha hnd
    simp [RPP.next, h1]
  · rw [hd] at hnd; cases hnd

theorem RPP.st_nil (f : List Int → Bool) (N : Nat) (hN : 1 ≤ N) (s : RPP) (h : RPP.St f N s []) :
    ∃ s', (RPP.it f).next s = .ok (s', false) ∧ RPP.St f N s' [] := by
  by_cases hd : s.done = true
  · have ha : s.a ≠ none := by
      rcases h.2 with ⟨_, h2, _⟩ | ⟨_, _, h2, _⟩ | ⟨h2, _⟩
      · rw [hd] at h2; cases h2
      · rw [hd] at h2; cases h2
      · exact h2
    refine ⟨s, ?_, h.1, Or.inr (Or.inr ⟨ha, hd, rfl⟩)⟩
    cases hsa : s.a with
    | none => exact absurd hsa ha
    | some a => simp [RPP.it, RPP.next, hsa, hd]
  · have hd' : s.done = false := by simpa using hd
    obtain ⟨a, l, u, b, h1, h2⟩ := RPP.next_run f N hN s [] h hd'
    have hb : b = false := h1
    subst hb
    exact ⟨_, h2, rfl, Or.inr (Or.inr ⟨by simp, rfl, rfl⟩)⟩

theorem RPP.st_cons (f : List Int → Bool) (N : Nat) (hN : 1 ≤ N) (s : RPP) (x : List Int)
    (rest : List (List Int)) (h : RPP.St f N s (x :: rest)) :
    ∃ s1 s2, (RPP.it f).next s = .ok (s1, true) ∧ (RPP.it f).value s1 = .ok (s2, x) ∧ RPP.St f N s2 rest := by
  have hd' : s.done = false := by
    rcases h.2 with ⟨_, h2, _⟩ | ⟨_, _, h2, _⟩ | ⟨_, _, h2⟩
    · exact h2
    · exact h2
    · cases h2
  obtain ⟨a, l, u, b, h1, h2⟩ := RPP.next_run f N hN s (x :: rest) h hd'
  obtain ⟨hb, hax, hleaf⟩ := h1
  simp only at hb hax hleaf
  subst hb hax
  refine ⟨_, _, h2, rfl, rfl, Or.inr (Or.inl ⟨a, rfl, rfl, hleaf⟩)⟩

theorem rppermList_zero (f : List Int → Bool) : rppermList f 0 = [[]] := by
  simp [rppermList, permList, permsOf, accept, acceptAbove]

theorem RPP.enumerates_lemma (f : List Int → Bool) (n : Int) (hn : 0 ≤ n) :
    ∃ s0, RPP.init n = .ok s0 ∧ ∀ bound, (rppermList f n).length < bound →
      ∃ s', outputs (RPP.it f) bound s0 = (rppermList f n, s', .exhausted) ∧
        ∀ k, extras (RPP.it f) k s' = .ok (List.replicate k none) := by
  obtain ⟨N, rfl⟩ := Int.eq_ofNat_of_zero_le hn
  have hinit : RPP.init (N : Int) = .ok ⟨(N : Int), none, l0 N, List.replicate N 0, false⟩ := by
    have : ¬ ((N : Int) < 0) := by omega
    simp [RPP.init, make, l0, this]
  refine ⟨_, hinit, ?_⟩
  intro bound hb
  by_cases hN : N = 0
  · subst hN
    have e0 : ((0 : Nat) : Int) = 0 := rfl
    rw [e0] at hb ⊢
    rw [rppermList_zero] at hb ⊢
    obtain ⟨c, rfl⟩ : ∃ c, bound = c + 2 := ⟨bound - 2, by simp at hb; omega⟩
    have hf : RPP.fuel 0 = 31 + 1 := by decide
    refine ⟨⟨0, some [], [0], [], true⟩, ?_, ?_⟩
    · simp [outputs, collect, RPP.it, RPP.next, make, l0, hf, RPP.run]
    · intro k
      apply extras_dead (RPP.it f) (fun s => s = ⟨0, some [], [0], [], true⟩)
      · rintro s rfl
        exact ⟨_, by simp [RPP.it, RPP.next], rfl⟩
      · rfl
  · have hN1 : 1 ≤ N := by omega
    have h0 : RPP.St f N ⟨(N : Int), none, l0 N, List.replicate N 0, false⟩ (rppermList f (N : Int)) :=
      ⟨rfl, Or.inl ⟨rfl, rfl, rfl, rfl, rfl⟩⟩
    obtain ⟨s', h1, h2⟩ := collect_rem (RPP.it f) (RPP.St f N) (RPP.st_nil f N hN1) (RPP.st_cons f N hN1)
      (rppermList f (N : Int)) _ [] bound h0 hb
    refine ⟨s', by simp [outputs, h1], ?_⟩
    intro k
    exact extras_dead (RPP.it f) (fun s => RPP.St f N s []) (RPP.st_nil f N hN1) k s' h2

end Iter
