import Mamba.Lemmas.DenseRep
/-!
# DenseGraph.AddVertex refines `addVertexG` (property C05)
-/
namespace GraphRep
open GraphSpec

/-- both branches of `AddVertex` produce the same backing array when `len(Edges) = oldSize`,
whatever the spare capacity held -/
theorem Dense.growInPlace_eq_growRealloc (edges stale : Array Nat) (oldSize n : Nat)
    (hs : edges.size = oldSize) :
    Dense.growInPlace edges stale oldSize (oldSize + n) = Dense.growRealloc edges (oldSize + n) := by
  unfold Dense.growInPlace Dense.growRealloc
  congr 1
  funext k
  by_cases h : oldSize ≤ k.val
  · have : ¬ k.val < edges.size := by omega
    simp [h, this]
  · have : k.val < edges.size := by omega
    simp [h, this]

theorem Dense.growRealloc_size (edges : Array Nat) (k : Nat) : (Dense.growRealloc edges k).size = k := by
  simp [Dense.growRealloc]

theorem Dense.growRealloc_get (edges : Array Nat) (sz k : Nat) :
    (Dense.growRealloc edges sz)[k]? = if k < sz then some (edges.getD k 0) else none := by
  unfold Dense.growRealloc
  by_cases h : k < sz
  · rw [if_pos h, Array.getElem?_eq_getElem (by simpa using h), Array.getElem_ofFn]
    simp [Array.getD]
  · rw [if_neg h, Array.getElem?_eq_none (by simp; omega)]

/-- the neighbour loop of `AddVertex` -/
theorem Dense.av_loop (oldSize n : Nat) :
    ∀ (S : List Nat) (e : Array Nat) (d : Array Int), (∀ s ∈ S, s < n) → e.size = oldSize + n → d.size = n →
    ∃ e' d', loopM (Dense.avStep oldSize) S (e, d) = .ok (e', d') ∧ e'.size = oldSize + n ∧ d'.size = n ∧
      (∀ k, e'[k]? = if oldSize ≤ k ∧ k < oldSize + n ∧ (k - oldSize) ∈ S then some 1 else e[k]?) ∧
      (∀ v, d'[v]? = (d[v]?).map (· + (S.count v : Int))) := by
  intro S
  induction S with
  | nil =>
    intro e d _ he hd
    exact ⟨e, d, rfl, he, hd, by simp, by simp⟩
  | cons s S ih =>
    intro e d hS he hd
    have hs : s < n := hS s (by simp)
    have hx : d[s]? = some d[s] := Array.getElem?_eq_getElem (by omega)
    obtain ⟨e', d', hrun, he', hd', hE, hD⟩ :=
      ih (e.setIfInBounds (oldSize + s) 1) (d.setIfInBounds s (d[s] + 1)) (fun t ht => hS t (by simp [ht]))
        (by simp [he]) (by simp [hd])
    refine ⟨e', d', ?_, he', hd', ?_, ?_⟩
    · rw [loopM, Dense.avStep, setA_ok 1 (by show oldSize + s < e.size; omega)]
      simp only
      rw [addA_ok 1 hx]
      exact hrun
    · intro k
      rw [hE k, Array.getElem?_setIfInBounds]
      by_cases hk : oldSize ≤ k ∧ k < oldSize + n
      · by_cases hks : k - oldSize = s
        · have : oldSize + s = k := by omega
          simp [hk, hks, this, he]
        · have : ¬ oldSize + s = k := by omega
          simp [hk, hks, this]
      · have : ¬ oldSize + s = k := by omega
        have h1 : ¬ (oldSize ≤ k ∧ k < oldSize + n ∧ (k - oldSize) ∈ S) := fun c => hk ⟨c.1, c.2.1⟩
        have h2 : ¬ (oldSize ≤ k ∧ k < oldSize + n ∧ (k - oldSize) ∈ s :: S) := fun c => hk ⟨c.1, c.2.1⟩
        rw [if_neg h1, if_neg h2, if_neg this]
    · intro v
      rw [hD v, get?_set_add 1 hx, List.count_cons]
      by_cases hv : v = s
      · subst hv; simp [hx]; omega
      · have : ¬ s = v := fun c => hv c.symm
        simp [hv, this]

theorem Dense.addVertex_spec {g : Dense} (h : g.WF) {S : List Nat} (hn : S.Nodup) (hS : ∀ s ∈ S, s < g.n) :
    ∃ g', g.addVertex S = .ok g' ∧ g'.WF ∧ g'.abs = addVertexG g.abs S := by
  obtain ⟨e', d', hrun, he', hd', hE, hD⟩ :=
    Dense.av_loop (tri g.n) g.n S (Dense.growRealloc g.edges (tri g.n + g.n)) g.deg hS
      (Dense.growRealloc_size _ _) h.deg_size
  unfold Dense.addVertex
  simp only
  rw [hrun]
  simp only
  refine ⟨_, rfl, ?_⟩
  -- the bits of the new value
  have hbit : ∀ u v, u < v → v < g.n + 1 →
      Dense.bit ⟨g.n + 1, g.m + S.length, d'.push S.length, e'⟩ u v =
        if v = g.n then S.contains u else g.bit u v := by
    intro u v huv hv
    unfold Dense.bit
    simp only
    rw [Array.getD_eq_getD_getElem?, hE, Dense.growRealloc_get]
    by_cases hvn : v = g.n
    · subst hvn
      have h1 : tri g.n ≤ tri g.n + u ∧ tri g.n + u < tri g.n + g.n := by omega
      have h2 : tri g.n + u - tri g.n = u := by omega
      have h3 : g.edges.getD (tri g.n + u) 0 = 0 := by
        simp [Array.getD, h.edges_size]
      by_cases hu : u ∈ S
      · simp [h1, h2, hu]
      · simp [h1, h2, hu, h3]
    · have hv' : v < g.n := by omega
      have hlt := tri_add_lt huv hv'
      have h1 : ¬ (tri g.n ≤ tri v + u ∧ tri v + u < tri g.n + g.n ∧ tri v + u - tri g.n ∈ S) := by omega
      have h2 : tri v + u < tri g.n + g.n := by omega
      rw [if_neg h1, if_pos h2, if_neg hvn, Array.getD_eq_getD_getElem?]
      simp
  have hwfG := addVertexG_wf g.abs_wf (S := S) hS
  have habs : Dense.abs ⟨g.n + 1, g.m + S.length, d'.push S.length, e'⟩ = addVertexG g.abs S := by
    refine G_ext_lt (Dense.abs_wf _) hwfG rfl ?_
    intro u v huv
    rw [Dense.abs_adj_lt _ huv]
    simp only
    by_cases hv : v < g.n + 1
    · rw [hbit u v huv hv]
      by_cases hvn : v = g.n
      · subst hvn
        show _ = (addVertexG g.abs S).adj u g.abs.n
        rw [addVertexG_adj_new g.abs_wf S (show u < g.abs.n from huv)]
        simp
      · have hv' : v < g.n := by omega
        rw [addVertexG_adj_old S (show u < g.abs.n by show u < g.n; omega) (show v < g.abs.n from hv'),
          g.abs_adj_lt huv]
        simp [hv, hvn, hv']
    · have : (addVertexG g.abs S).adj u v = false := by
        cases hc : (addVertexG g.abs S).adj u v
        · rfl
        · have := (hwfG.supp _ _ hc).2
          simp only [addVertexG, Dense.abs] at this; omega
      rw [this]; simp [hv]
  refine ⟨⟨?_, ?_, ?_, ?_⟩, habs⟩
  · simp [hd']
  · show e'.size = tri (g.n + 1)
    rw [he', tri_succ]
  · rw [habs, m_addVertexG g.abs_wf hn hS, h.m_eq]; simp
  · intro v hv
    rw [habs]
    show (d'.push _)[v]? = _
    rw [Array.getElem?_push, hd']
    by_cases hvn : v = g.n
    · subst hvn
      rw [if_pos rfl]
      have := deg_addVertexG_new g.abs_wf hn hS
      simp only [Dense.abs] at this ⊢
      rw [this]
    · have hv' : v < g.n := by simp only at hv; omega
      rw [if_neg hvn, hD v, h.deg_eq v hv', deg_addVertexG_old g.abs_wf S (show v < g.abs.n from hv')]
      by_cases hvs : v ∈ S
      · simp [List.count_eq_one_of_mem hn hvs, hvs]
      · simp [List.count_eq_zero_of_not_mem hvs, hvs]

end GraphRep
