import Mamba.Lemmas.TermRun
namespace Search
open Disjoint GSearch GraphSpec

variable {O : Oracle} {n : Nat}

/-- explicit fuel (per call of `Next`) and call bound for the search on `n` vertices -/
def fuelBound (n : Nat) : Nat := (2 ^ n + 5) ^ n + 1

theorem fuelBound_eq (n : Nat) : fuelBound n = Wt n 0 + 1 := rfl

theorem next_later (pre pr : DG → Bool) (fuel : Nat) {s : State} (hf : s.first = false) (h2 : 2 ≤ s.n) :
    next O pre pr fuel s = run O pre pr fuel (.outer true false) s := by
  unfold next
  have h0 : ¬ s.n = 0 := by omega
  have h1 : ¬ s.n = 1 := by omega
  simp [h0, h1, hf]

theorem exhaust_total (hO : OracleSpec O n) (pre pr : DG → Bool) (fuel : Nat) (h2 : 2 ≤ n) :
    ∀ (lim : Nat) (s : State), s.first = false → TInv O n (.outer true false) s →
      Phi n (.outer true false) s < lim → Phi n (.outer true false) s < fuel →
      ∃ outs t, exhaust O pre pr fuel lim s = .ok (outs, t)
  | 0, _, _, _, h, _ => absurd h (Nat.not_lt_zero _)
  | lim + 1, s, hf, hi, hl, hfu => by
    obtain ⟨s', b, h1, hpost, -⟩ := run_total hO pre pr fuel (.outer true false) s hi hfu
    have hsp := (run_inv O pre pr fuel _ s s' b h1).1
    simp only [exhaust]
    rw [next_later pre pr fuel hf (by rw [hi.hn]; exact h2), h1]
    cases b with
    | false => exact ⟨_, _, rfl⟩
    | true =>
      obtain ⟨hi', hlt⟩ := hpost rfl
      obtain ⟨outs, t, h⟩ := exhaust_total hO pre pr fuel h2 lim s' (hsp.2.2.2.trans hf) hi' (by omega) (by omega)
      simp only [h]
      exact ⟨_, _, rfl⟩

/-- **the search terminates**: with fuel and call limit at least `fuelBound n`, the whole run returns normally -/
theorem exhaust_init_total (hO : OracleSpec O n) (pre pr : DG → Bool) (a m : Nat) (hm : 0 < m) {fuel lim : Nat}
    (hfu : fuelBound n ≤ fuel) (hl : fuelBound n ≤ lim) :
    ∃ outs t, exhaust O pre pr fuel lim (init n a m) = .ok (outs, t) := by
  have hW : 1 ≤ Wt n 0 := Nat.pow_pos (Nat.succ_pos _)
  rw [fuelBound_eq] at hfu hl
  by_cases h2 : 2 ≤ n
  · obtain ⟨k, rfl⟩ : ∃ k, lim = k + 1 := ⟨lim - 1, by omega⟩
    simp only [exhaust]
    have h0 : ¬ n = 0 := by omega
    have h1 : ¬ n = 1 := by omega
    have hnext : next O pre pr fuel (init n a m) =
        (if pre K1 || pr K1 then .ok ({ init n a m with g := K1, first := false }, false)
         else run O pre pr fuel (.outer false false) { init n a m with g := K1, first := false }) := by
      unfold next
      simp [init, h0, h1, K1]
    rw [hnext]
    by_cases hpr : (pre K1 || pr K1) = true
    · simp only [hpr, if_true]; exact ⟨_, _, rfl⟩
    · simp only [hpr, Bool.false_eq_true, if_false]
      set s1 : State := { init n a m with g := K1, first := false } with hs1
      have hi : TInv O n (.outer false false) s1 :=
        ⟨rfl, hm, by show 0 + 1 ≤ n; omega, Built.one, rfl, rfl, fun _ => Or.inl rfl, (fun h => by cases h)⟩
      have hphi : Phi n (.outer false false) s1 = Wt n 0 - 1 := by
        simp [Phi, hs1, init, topList, SumW]
      obtain ⟨s', b, hr, hpost, -⟩ := run_total hO pre pr fuel (.outer false false) s1 hi (by omega)
      have hsp := (run_inv O pre pr fuel _ s1 s' b hr).1
      rw [hr]
      cases b with
      | false => exact ⟨_, _, rfl⟩
      | true =>
        obtain ⟨hi', hlt⟩ := hpost rfl
        obtain ⟨outs, t, h⟩ := exhaust_total hO pre pr fuel h2 k s' (hsp.2.2.2.trans rfl) hi' (by omega) (by omega)
        simp only [h]
        exact ⟨_, _, rfl⟩
  · have hcases : n = 0 ∨ n = 1 := by omega
    obtain ⟨k, rfl⟩ : ∃ k, lim = k + 2 := ⟨lim - 2, by omega⟩
    rcases hcases with rfl | rfl
    · by_cases hc : (a == 0 && !pre DG.empty && !pr DG.empty) = true
      · simp [exhaust, next, init, hc]
      · simp [exhaust, next, init, hc]
    · by_cases hc : (a == 0 && !pre DG.empty.single && !pr DG.empty.single) = true
      · simp [exhaust, next, init, hc]
      · simp [exhaust, next, init, hc]

end Search
