import Mamba.Lemmas.BridgeIR
namespace Search
open GraphSpec GSearch Relation

/-- the answer of `irOracle` for a graph `g` -/
def irAns (g : DG) : Ans :=
  { perm := IR.tab g.nv (IR.invFn g.nv (maxLeaf (irOf g)))
    orbits := orbitDS g.nv (IR.autGroupFrom (irOf g) (IR.init (irOf g)))
    gens := IR.autGroupFrom (irOf g) (IR.init (irOf g)) }

theorem getAut_irOracle {n : Nat} {g : DG} (hb : Built g) (hle : g.nv ≤ n) (vb : Option Nat) :
    getAut irOracle n g vb = .ok (some (irAns g)) := by
  rw [getAut_eq irOracle hb hle vb]
  rfl

theorem getAut_irOracle_inv {n : Nat} {g : DG} (hb : Built g) {vb : Option Nat} {r : Option Ans}
    (h : getAut irOracle n g vb = .ok r) : g.nv ≤ n ∧ r = some (irAns g) := by
  by_cases hle : g.nv ≤ n
  · rw [getAut_irOracle hb hle vb] at h
    exact ⟨hle, (Outcome.ok.inj h).symm⟩
  · unfold getAut at h
    rw [if_pos (by omega)] at h
    cases h

/-! ### the maximal leaf -/

theorem maxLeaf_spec (g : DG) :
    maxLeaf (irOf g) ∈ IR.allLeaves (irOf g) (IR.init (irOf g)) ∧
      IR.cert (irOf g) (maxLeaf (irOf g)) = IR.canonCert (irOf g) := by
  obtain ⟨l, hl, he⟩ := IR.canonCertFrom_is_leaf (irOf g) (IR.init (irOf g))
  unfold maxLeaf
  cases hf : (IR.allLeaves (irOf g) (IR.init (irOf g))).find? fun l => IR.cert (irOf g) l == IR.canonCert (irOf g) with
  | none =>
    have := List.find?_eq_none.1 hf l hl
    have he' : IR.cert (irOf g) l = IR.canonCert (irOf g) := he.symm
    simp [he'] at this
  | some l' =>
    simp only [Option.getD_some]
    exact ⟨List.mem_of_find?_eq_some hf, by simpa using List.find?_some hf⟩

theorem maxLeaf_perm (g : DG) : IR.IsPerm g.nv (maxLeaf (irOf g)) :=
  IR.allLeaves_perm (irOf_wf g) (IR.init_work _) _ (maxLeaf_spec g).1

theorem invFn_bij {nv : Nat} {l : Array Nat} (hl : IR.IsPerm nv l) : IsBij nv (IR.invFn nv l) := by
  refine ⟨fun u hu => (IR.inv_right hl hu).1, ?_, ?_⟩
  · intro u v hu hv h
    have h1 := (IR.inv_right hl hu).2
    have h2 := (IR.inv_right hl hv).2
    rw [h] at h1
    exact h1.symm.trans h2
  · intro w hw
    exact ⟨IR.col l w, hl.1 w hw, IR.inv_left hl hw⟩

theorem tab_getD {nv : Nat} (f : Nat → Nat) {i : Nat} (hi : i < nv) : (IR.tab nv f).getD i 0 = f i :=
  IR.col_tab f hi

theorem tab_toList (nv : Nat) (f : Nat → Nat) : (IR.tab nv f).toList = (List.range nv).map f := by
  simp [IR.tab]

theorem irAns_perm (g : DG) : (irAns g).perm.toList.Perm (List.range g.nv) := by
  show (IR.tab g.nv _).toList.Perm _
  rw [tab_toList]
  exact perm_of_isBij (invFn_bij (maxLeaf_perm g))

/-! ### the canonical graph -/

/-- adjacency of the canonical positions `i`, `j`, read in the canonical graph of the `IR` model -/
theorem canon_adj (g : DG) {i j : Nat} (hi : i < g.nv) (hj : j < g.nv) :
    j ∈ (IR.canonGraph (irOf g)).nbrs i ↔
      g.toG.adj (IR.invFn g.nv (maxLeaf (irOf g)) i) (IR.invFn g.nv (maxLeaf (irOf g)) j) = true := by
  have hp := maxLeaf_perm g
  have R := IR.leaf_relabel (irOf_wf g) hp
  rw [(maxLeaf_spec g).2] at R
  have hi' := IR.inv_right hp hi
  have hj' := IR.inv_right hp hj
  have := R.nbrs _ hi'.1
  rw [hi'.2] at this
  show j ∈ (IR.ofCodes (irOf g).n (IR.canonCert (irOf g))).nbrs i ↔ _
  rw [this.mem_iff, List.mem_map]
  constructor
  · rintro ⟨w, hw, he⟩
    have hw' := (mem_irOf_nbrs hi'.1).1 hw
    have : w = IR.invFn g.nv (maxLeaf (irOf g)) j := by
      rw [← he]; exact (IR.inv_left hp hw'.1).symm
    rw [← this]; exact hw'.2
  · intro h
    exact ⟨_, (mem_irOf_nbrs hi'.1).2 ⟨hj'.1, h⟩, hj'.2⟩

theorem irAns_canon {g h : DG} (i : IsoD g h) {a b : Nat} (ha : a < g.nv) (hb : b < g.nv) :
    g.toG.adj ((irAns g).perm.getD a 0) ((irAns g).perm.getD b 0) =
      h.toG.adj ((irAns h).perm.getD a 0) ((irAns h).perm.getD b 0) := by
  obtain ⟨hn, σ, hσ, hadj⟩ := i
  have hnv : g.nv = h.nv := hn
  have iso : IsIso g h σ := ⟨hnv, hσ, hadj⟩
  have hcan : IR.canonGraph (irOf h) = IR.canonGraph (irOf g) := IR.canonGraph_invariant (relabel_of_isIso iso)
  show g.toG.adj ((IR.tab g.nv _).getD a 0) ((IR.tab g.nv _).getD b 0) =
    h.toG.adj ((IR.tab h.nv _).getD a 0) ((IR.tab h.nv _).getD b 0)
  rw [tab_getD _ ha, tab_getD _ hb, tab_getD _ (hnv ▸ ha), tab_getD _ (hnv ▸ hb)]
  have k1 := canon_adj g ha hb
  have k2 := canon_adj h (hnv ▸ ha) (hnv ▸ hb)
  rw [hcan] at k2
  cases h1 : g.toG.adj (IR.invFn g.nv (maxLeaf (irOf g)) a) (IR.invFn g.nv (maxLeaf (irOf g)) b) <;>
    cases h2 : h.toG.adj (IR.invFn h.nv (maxLeaf (irOf h)) a) (IR.invFn h.nv (maxLeaf (irOf h)) b)
  · rfl
  · exact absurd (k1.1 (k2.2 h2)) (by simp [h1])
  · exact absurd (k2.1 (k1.2 h1)) (by simp [h2])
  · rfl

end Search
