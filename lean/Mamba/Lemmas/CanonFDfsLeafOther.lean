import Mamba.Lemmas.CanonFDfsPop
import Mamba.Lemmas.CanonFDfsSkip
/-!
# The complete DFS invariant at a leaf that is neither better than, nor equal to the best leaf, nor equal to the first leaf

`leafNode` only increments `count`. The leaf (the child of the top frame that was being explored) is complete because its
certificate is not larger than `currentBest`; the vertex path loses its last entry (`gh' := { gh with vs := vs.dropLast }`),
the frames stay (`lv1 = lv`).
-/
namespace CanonF

/-- the state after `leafNode` in the "other" case -/
theorem lo_leafNode_eq {n m : Nat} {s s1 : LS}
    (hc1 : (compare s.op.value.toList s.currentBest.toList == 1 || s.count + 1 == 1) = false)
    (hc0 : (compare s.op.value.toList s.currentBest.toList == 0) = false)
    (hcf : (compare s.op.value.toList s.firstLeaf.toList == 0) = false)
    (h : leafNode n m s = .ok s1) : s1 = { s with count := s.count + 1 } := by
  unfold leafNode at h
  dsimp only at h
  rw [if_neg (by rw [hc1]; exact Bool.false_ne_true), if_neg (by rw [hc0]; exact Bool.false_ne_true),
    if_neg (by rw [hcf]; exact Bool.false_ne_true)] at h
  cases h
  rfl

/-- `GlobalInv` when `count` changes between two positive values and the ghost vertex path `vs` changes -/
theorem lo_globalInv_congr_pos {n : Nat} {nb : Nbrs} {rf : Nat} {r : IR.St} {gh gh' : Gh} {s s' : LS}
    (h : GlobalInv n nb rf r gh s) (hp : 0 < s.count) (hp' : 0 < s'.count)
    (e2 : s'.firstLeaf = s.firstLeaf) (e3 : s'.flPermInv = s.flPermInv)
    (e4 : s'.flPath = s.flPath) (e5 : s'.bestPerm = s.bestPerm) (e6 : s'.currentBest = s.currentBest)
    (e7 : s'.bestPermInv = s.bestPermInv) (e8 : s'.bestPath = s.bestPath) (e9 : s'.bestOrbits = s.bestOrbits)
    (g1 : gh'.vsF = gh.vsF) (g2 : gh'.oF = gh.oF) (g3 : gh'.vsB = gh.vsB) (g4 : gh'.bgs = gh.bgs) :
    GlobalInv n nb rf r gh' s' := by
  constructor
  · intro _; rw [e2, e3, e4, g1, g2]; exact h.first hp
  · intro _; rw [e5, e6, e7, e8, g3]; exact h.best hp
  · rw [g4]; exact h.bgsAut
  · intro h0; omega
  · intro _; rw [e9, g4]; exact h.bestOrb hp
  · rw [e8]; exact h.bpLen
  · rw [e4]; exact h.fpLen

/-- the frames at a leaf whose certificate is not larger than `currentBest`: the top frame turns to "between two
children", the leaf being complete -/
theorem lo_frameAux_finish {n : Nat} {nb : Nbrs} {rf : Nat} {r : IR.St} (hnb : NbOK nb n) {gh : Gh} {s : LS}
    {lv : List (Nat × Nat)} (hc : Core n s) (hl : LevelsOK s.op s.path s.choices lv)
    (hw : WalkNodev n nb rf r gh.vs lv s) (hleaf : s.op.binDividers.len = n) (hvc : VClean nb s.op)
    (hspl : s.op.spl = n) (hle : compare s.op.value.toList s.currentBest.toList ≠ 1) (hcnt : 0 < s.count)
    (haux : FrameAux n nb rf r gh s gh.vs false s.path s.choices lv) :
    FrameAux n nb rf r gh s gh.vs true s.path s.choices lv := by
  obtain ⟨h1, h2, h3, h4, h5, h6, h7⟩ := hw
  cases hpth : s.path with
  | nil => rw [hpth] at haux; cases hcc : s.choices <;> cases lv <;> simp_all [FrameAux]
  | cons p ps =>
    rw [hpth] at haux hl h5 h3
    cases hch : s.choices with
    | nil => rw [hch] at haux; simp [FrameAux] at haux
    | cons c cs =>
      cases lv with
      | nil => rw [hch] at haux; simp [FrameAux] at haux
      | cons x ls =>
        obtain ⟨st, sz⟩ := x
        rw [hch] at haux hl h5
        simp only [LevelsOK] at hl
        obtain ⟨_, _, tc, _, _⟩ := hl
        simp only [FramesOK] at h5
        obtain ⟨g1, _, g3, _⟩ := h5
        simp only [List.length_cons] at h3
        obtain ⟨g3a, _⟩ := g3 (by omega)
        have hm : Match n s.op (nodeL n nb rf r gh.vs gh.vs.length) :=
          (h4 gh.vs.length (Nat.le_refl _)).toMatch hc.part hc.age (by omega) h7
        have hcomp := complete_leaf (rf := rf) hnb hc.part hleaf hm hvc hspl hle
        refine FrameAux.mk ((FrameAux.head haux).finish_child hcnt (fun w hw' _ => ?_)) (FrameAux.tail haux)
        rw [show c - st = p by omega, ← g3a] at hw'
        have hn := nodeL_succ h1 hw' g1
        rw [h3, hn] at hcomp
        exact hcomp

section
variable {n m : Nat} {nb : Nbrs} {rf : Nat} {r : IR.St}
  (hnb : NbOK nb n)

set_option linter.unusedVariables false in
include hnb in
/-- any other leaf -/
theorem dfs_leaf_other_v (lv : List (Nat × Nat)) (s s1 : LS) (gh : Gh) (hI : MInv n m nb s)
    (hlv : LevelsOK s.op s.path s.choices lv) (hleaf : s.op.binDividers.len = n)
    (hJ : CertM n m nb lv false s) (h : DNodev n nb rf r gh lv s) (hs1 : leafNode n m s = .ok s1)
    (hJ1 : CertA n m nb lv s1)
    (hc1 : (compare s.op.value.toList s.currentBest.toList == 1 || s.count + 1 == 1) = false)
    (hc0 : (compare s.op.value.toList s.currentBest.toList == 0) = false)
    (hcf : (compare s.op.value.toList s.firstLeaf.toList == 0) = false) :
    s1 = { s with count := s.count + 1 } ∧ LevelsOK s1.op s1.path s1.choices lv ∧
      DAv n nb rf r { gh with vs := gh.vs.dropLast } lv s1 := by
  obtain ⟨hw, hG, hcov, haux, hoff⟩ := h
  have hc := hI.core
  obtain ⟨hvc, hspl⟩ := leaf_clean hc.part hleaf (hJ.2.2.1 rfl)
  have hc1' := hc1
  simp only [Bool.or_eq_false_iff, beq_eq_false_iff_ne, ne_eq] at hc1'
  obtain ⟨hle, hcn⟩ := hc1'
  have hcnt : 0 < s.count := by omega
  obtain ⟨_, _, _, hcov1⟩ := cov_leaf_other hnb hc hlv hw hleaf hvc hspl hc1 hc0 hcf hs1 hcov
  have es := lo_leafNode_eq hc1 hc0 hcf hs1
  subst es
  have hw' := hw
  obtain ⟨h1, h2, h3, h4, h5, h6, h7⟩ := hw'
  have hdl : gh.vs.dropLast = gh.vs.take (s.path.length - 0 - 1) := by
    rw [List.dropLast_eq_take, h3]; rfl
  have htake : ∀ L, L < s.path.length → gh.vs.dropLast.take L = gh.vs.take L :=
    fun L hL => take_dropLast gh.vs (by omega)
  refine ⟨rfl, hlv, ?_, ?_, ?_, ?_, ?_⟩
  · have := walk_truncate (s' := { s with count := s.count + 1 }) 0 hc.part hc.age (Nat.zero_le _)
      (fun hne => List.length_pos_iff.2 hne) rfl rfl rfl hw
    rw [← hdl] at this
    simpa using this
  · exact lo_globalInv_congr_pos (gh := gh) (gh' := { gh with vs := gh.vs.dropLast }) (s := s)
      (s' := { s with count := s.count + 1 }) hG hcnt (Nat.succ_pos _) rfl rfl rfl rfl rfl rfl rfl rfl rfl rfl rfl rfl
  · exact CovFrames.congr (s := { s with count := s.count + 1 }) (s' := { s with count := s.count + 1 })
      (vs := gh.vs) (vs' := gh.vs.dropLast) rfl (fun _ => rfl) rfl true s.path s.choices lv htake hcov1
  · have hfin := lo_frameAux_finish hnb hc hlv hw hleaf hvc hspl hle hcnt haux
    exact FrameAux.congr_gh (gh := gh) (gh' := { gh with vs := gh.vs.dropLast }) rfl rfl rfl true s.path s.choices lv
      (FrameAux.congr_pos (s := s) (s' := { s with count := s.count + 1 }) (us := gh.vs) (us' := gh.vs.dropLast)
        hcnt (Nat.succ_pos _) rfl rfl rfl true s.path s.choices lv htake hfin)
  · intro hp
    exfalso
    have hp' : s.path = [] := hp
    rw [hp'] at h3
    have hvs : gh.vs = [] := List.length_eq_zero_iff.1 h3
    have := (hoff hcnt).1
    rw [hvs] at this
    exact this (by simp)


set_option linter.unusedVariables false in
include hnb in
/-- any other leaf -/
theorem dfs_leaf_other (lv : List (Nat × Nat)) (s s1 : LS) (gh : Gh) (hI : MInv n m nb s)
    (hlv : LevelsOK s.op s.path s.choices lv) (hleaf : s.op.binDividers.len = n)
    (hJ : CertM n m nb lv false s) (h : DNodev n nb rf r gh lv s) (hs1 : leafNode n m s = .ok s1)
    (hJ1 : CertA n m nb lv s1)
    (hc1 : (compare s.op.value.toList s.currentBest.toList == 1 || s.count + 1 == 1) = false)
    (hc0 : (compare s.op.value.toList s.currentBest.toList == 0) = false)
    (hcf : (compare s.op.value.toList s.firstLeaf.toList == 0) = false) :
    ∃ lv1, LevelsOK s1.op s1.path s1.choices lv1 ∧ DA n nb rf r lv1 s1 := by
  obtain ⟨_, h1, h2⟩ := dfs_leaf_other_v hnb lv s s1 gh hI hlv hleaf hJ h hs1 hJ1 hc1 hc0 hcf
  exact ⟨lv, h1, _, h2⟩

end
end CanonF
