import Mamba.Lemmas.CanonFPhase
/-!
# The certificate invariant of the faithful model `Model/CanonF.lean`

`op.value` is the certificate of the singleton prefix: for every prefix position `j < spl` (in order) the sorted list of
the codes `tri j + q` of the neighbours of `order[j]` that sit at an earlier position `q < j`.

* `certPos nb o s` — this list, computed from the order `o` alone (positions via `List.idxOf`);
* `VClean nb op`   — `CleanPrefix`, `value` well formed and `value.toList = certPos nb order spl`;
* `VStale nb cb fl op` — the state after `expandValue` has reported "worse" (since fix 0bfbb07 it records how far it
  got: `spl := j + 1`): `value.toList = certPos nb order spl` for a singleton prefix that need not end at a non-singleton bin;
* `VAny` = clean, or `VStale` with a prefix divider of the current age (`StaleAge`); `VN` = clean.

The `deage` that undoes the split of a prefix bin truncates `value` after its last entry `< tri j` and makes the state
clean again.
-/
namespace CanonF

def tri (j : Nat) : Nat := j * (j - 1) / 2

/-- codes of position `j` in neighbour order: `tri j + q` for the neighbours at positions `q < j` -/
def rawCodes (nb : Nbrs) (o : List Nat) (j : Nat) : List Nat :=
  (nb.getD (o.getD j 0) []).filterMap (fun v => if o.idxOf v < j then some (tri j + o.idxOf v) else none)

/-- the block of position `j` of the certificate -/
def blockCodes (nb : Nbrs) (o : List Nat) (j : Nat) : List Nat := sortNat (rawCodes nb o j)

/-- the certificate of the prefix of length `s` -/
def certPos (nb : Nbrs) (o : List Nat) (s : Nat) : List Nat := (List.range s).flatMap (blockCodes nb o)

structure VClean (nb : Nbrs) (op : OP) : Prop where
  pre : CleanPrefix op
  wf : op.value.WF
  val : op.value.toList = certPos nb op.order.toList op.spl

/-- the state after `expandValue` has reported "worse": it now records how far it got (`spl := j + 1`), so `value` is
again the certificate of the singleton prefix, but the prefix need not end at a non-singleton bin (`cb`, `fl` are unused;
kept for uniform signatures) -/
structure VStale (nb : Nbrs) (cb fl : Sl Nat) (op : OP) : Prop where
  pre : PrefixSingle op
  wf : op.value.WF
  val : op.value.toList = certPos nb op.order.toList op.spl

/-- some divider inside the singleton prefix was created at the current age, so that the next `deage` merges a prefix
bin and truncates the certificate -/
def StaleAge (op : OP) : Prop := ∃ k d, k < op.spl ∧ (divs op)[k]? = some (d, op.age)

/-- clean, or (after a "worse") a prefix certificate that the next `deage` will cut back -/
def VAny (nb : Nbrs) (cb fl : Sl Nat) (op : OP) : Prop := VClean nb op ∨ (VStale nb cb fl op ∧ StaleAge op)

/-- the state after a `deage` / before a `splitBin`: clean -/
def VN (nb : Nbrs) (_cb _fl : Sl Nat) (op : OP) : Prop := VClean nb op

theorem VN.any {nb : Nbrs} {cb fl : Sl Nat} {op : OP} (h : VN nb cb fl op) : VAny nb cb fl op := Or.inl h

/-- what `expandValue` does to a certificate of a singleton prefix (proved in `CanonFCertExpand.lean` as
`expandValue_cert`) -/
def ExpandCert : Prop :=
  ∀ (n : Nat) (nb : Nbrs) (cb fl : Sl Nat) (op op' : OP) (w : Bool), PartInv n op → PrefixSingle op → op.value.WF →
    op.value.toList = certPos nb op.order.toList op.spl → expandValue nb cb fl op = .ok (w, op') →
    (w = false → VClean nb op') ∧ (w = true → VStale nb cb fl op' ∧ op.spl < op'.spl)

/-! ### `certPos` depends only on the positions below `s` -/

theorem idxOf_char (l : List Nat) (v : Nat) : ∀ i, (l.idxOf v = i ∧ i < l.length) ↔
    (l[i]? = some v ∧ ∀ k, k < i → l[k]? ≠ some v) := by
  induction l with
  | nil => intro i; simp
  | cons x xs ih =>
    intro i
    rw [List.idxOf_cons]
    by_cases hx : x = v
    · subst hx
      simp only [beq_self_eq_true, cond_true, List.length_cons]
      constructor
      · rintro ⟨rfl, _⟩; simp
      · rintro ⟨h1, h2⟩
        cases i with
        | zero => simp
        | succ i => exact absurd (by simp) (h2 0 (by omega))
    · have hb : (x == v) = false := by simpa using hx
      simp only [hb, cond_false, List.length_cons]
      cases i with
      | zero =>
        constructor
        · rintro ⟨h, _⟩; omega
        · rintro ⟨h1, _⟩; simp at h1; exact absurd h1 hx
      | succ i =>
        have := ih i
        constructor
        · rintro ⟨h1, h2⟩
          obtain ⟨a1, a2⟩ := this.1 ⟨by omega, by omega⟩
          refine ⟨by simpa using a1, ?_⟩
          intro k hk
          cases k with
          | zero => simpa using hx
          | succ k => simpa using a2 k (by omega)
        · rintro ⟨h1, h2⟩
          obtain ⟨a1, a2⟩ := this.2 ⟨by simpa using h1, fun k hk => by simpa using h2 (k + 1) (by omega)⟩
          exact ⟨by omega, by omega⟩

/-- lists that agree on their first `s` positions give the same positions below `s` -/
theorem idxOf_agree (o o' : List Nat) (s : Nat) (hs : s ≤ o.length) (_hs' : s ≤ o'.length)
    (hagree : ∀ p, p < s → o'[p]? = o[p]?) (v : Nat) (h : o.idxOf v < s) : o'.idxOf v = o.idxOf v := by
  obtain ⟨a1, a2⟩ := (idxOf_char o v (o.idxOf v)).1 ⟨rfl, by omega⟩
  exact ((idxOf_char o' v (o.idxOf v)).2 ⟨by rw [hagree _ h]; exact a1,
    fun k hk => by rw [hagree _ (by omega)]; exact a2 k hk⟩).1

theorem certPos_frame (nb : Nbrs) (o o' : List Nat) (s : Nat) (hs : s ≤ o.length) (hs' : s ≤ o'.length)
    (hagree : ∀ p, p < s → o'[p]? = o[p]?) : certPos nb o' s = certPos nb o s := by
  unfold certPos
  rw [List.flatMap_def, List.flatMap_def]
  congr 1
  apply List.map_congr_left
  intro j hj
  have hj' : j < s := List.mem_range.1 hj
  unfold blockCodes rawCodes
  have hgj : o'.getD j 0 = o.getD j 0 := by
    rw [List.getD_eq_getElem?_getD, List.getD_eq_getElem?_getD, hagree j hj']
  rw [hgj]
  congr 2
  funext v
  by_cases h1 : o.idxOf v < j
  · have e := idxOf_agree o o' s hs hs' hagree v (by omega)
    rw [e]
  · have h2 : ¬ (o'.idxOf v < j) := by
      intro h2
      have e := idxOf_agree o' o s hs' hs (fun p hp => (hagree p hp).symm) v (by omega)
      omega
    rw [if_neg h1, if_neg h2]



/-! ### graphs given by neighbour lists; automorphisms as lists -/

/-- the neighbour lists describe a loop-free undirected graph on `0..n-1` without repeated neighbours -/
structure NbOK (nb : Nbrs) (n : Nat) : Prop where
  lt : ∀ u v, v ∈ nb.getD u [] → u < n ∧ v < n
  symm : ∀ u v, v ∈ nb.getD u [] → u ∈ nb.getD v []
  irrefl : ∀ u, u ∉ nb.getD u []
  nodup : ∀ u, (nb.getD u []).Nodup

/-- `γ` (as the list `[γ 0, …, γ (n-1)]`) is an automorphism -/
def IsAutL (nb : Nbrs) (n : Nat) (γ : List Nat) : Prop :=
  γ.Perm (List.range n) ∧ ∀ x y, x < n → y < n → (y ∈ nb.getD x [] ↔ γ.getD y 0 ∈ nb.getD (γ.getD x 0) [])

/-- the map "vertex at position `p` of `o1` ↦ vertex at position `p` of `o2`" as a list (`order[permInv[i]]` in the Go code) -/
def transport (n : Nat) (o1 o2 : List Nat) : List Nat := (List.range n).map (fun x => o2.getD (o1.idxOf x) 0)

end CanonF
