import Mamba.Lemmas.CanonFOrbTree
import Mamba.Lemmas.CanonFOrbRel
/-!
# Orbit completeness (A-layer) through the Heuristic-2 skips of `jLoop`
-/
namespace CanonF
open Relation

section
variable {n : Nat} {nb : Nbrs} {rf : Nat} {r : IR.St}

/-- `GlobalA` only reads `count`, `firstLeaf`, `currentBest`, `bestPerm`, `flOrbits`, `gens`, `ngens` -/
theorem os_globalA_congr {gh : Gh} {s s' : LS} (h : GlobalA n gh s) (e1 : s'.count = s.count)
    (e2 : s'.firstLeaf = s.firstLeaf) (e3 : s'.currentBest = s.currentBest) (e4 : s'.bestPerm = s.bestPerm)
    (e5 : s'.flOrbits = s.flOrbits) (e6 : s'.gens = s.gens) (e7 : s'.ngens = s.ngens) : GlobalA n gh s' := by
  have eR : ORel s' = ORel s := by funext a b; unfold ORel; rw [e5]
  constructor
  · rw [e1, e2, e3]; exact h.bgf
  · rw [e1, e2, e3, e4, eR]; exact h.bestA
  · rw [eR]; exact h.bgsM
  · rw [e6, e7, eR]; exact h.gensM

theorem os_acovChild_congr {gh : Gh} {s s' : LS} {vs ps : List Nat} {st w : Nat}
    (h : ACovChild n nb rf r gh s vs ps st w) (e1 : s'.firstLeaf = s.firstLeaf)
    (e2 : ∀ qs, onFirstB s' qs = onFirstB s qs) (e4 : s'.flOrbits = s.flOrbits) :
    ACovChild n nb rf r gh s' vs ps st w := by
  have eR : ORel s' = ORel s := by funext a b; unfold ORel; rw [e4]
  unfold ACovChild at *
  rw [e1, e2, e4, eR]
  exact h

/-- `ACovFrames` only looks at `firstLeaf`, the Heuristic-2 test and `firstLeafOrbits` of the state -/
theorem os_acovFrames_congr {gh : Gh} {s s' : LS} {vs : List Nat} (e1 : s'.firstLeaf = s.firstLeaf)
    (e2 : ∀ qs, onFirstB s' qs = onFirstB s qs) (e4 : s'.flOrbits = s.flOrbits) :
    ∀ (incl : Bool) (path choices : List Nat) (lv : List (Nat × Nat)),
      ACovFrames n nb rf r gh s vs incl path choices lv → ACovFrames n nb rf r gh s' vs incl path choices lv := by
  intro incl path
  induction path generalizing incl with
  | nil => intro choices lv h; cases choices <;> cases lv <;> simp_all [ACovFrames]
  | cons p ps ih =>
    intro choices lv h
    cases choices with
    | nil => simp [ACovFrames] at h
    | cons c cs =>
      cases lv with
      | nil => simp [ACovFrames] at h
      | cons x ls =>
        obtain ⟨st, sz⟩ := x
        simp only [ACovFrames] at h ⊢
        exact ⟨fun i w hi hw => os_acovChild_congr (h.1 i w hi hw) e1 e2 e4, ih false cs ls h.2⟩

/-- changing the top of `choices` from `c` to `c - 1` with the new member covered -/
theorem os_acovFrames_step_head {gh : Gh} {s : LS} {vs : List Nat} {p c : Nat}
    {ps cs : List Nat} {st sz : Nat} {ls : List (Nat × Nat)}
    (h : ACovFrames n nb rf r gh s vs true (p :: ps) (c :: cs) ((st, sz) :: ls)) (hc : st < c)
    (hnew : ∀ w, (cellL n nb rf r vs ps.length st)[c - 1 - st]? = some w → ACovChild n nb rf r gh s vs ps st w)
    (p' : Nat) : ACovFrames n nb rf r gh s vs true (p' :: ps) ((c - 1) :: cs) ((st, sz) :: ls) := by
  simp only [ACovFrames] at h ⊢
  refine ⟨fun i w hi hw => ?_, h.2⟩
  simp only [if_true] at hi
  rcases Nat.lt_or_ge i (c - st) with hlt | hge
  · have : i = c - 1 - st := by omega
    subst this
    exact hnew w hw
  · exact h.1 i w (by simp only [if_true]; exact hge) hw

theorem os_frameAuxA1_congr {gh : Gh} {s s' : LS} {us : List Nat} {incl : Bool} {ps : List Nat} {c st : Nat}
    (h : FrameAuxA1 n nb rf r gh s us incl ps c st) (e1 : s'.count = s.count) (e2 : s'.firstLeaf = s.firstLeaf)
    (e4 : s'.flOrbits = s.flOrbits) : FrameAuxA1 n nb rf r gh s' us incl ps c st := by
  have eR : ORel s' = ORel s := by funext a b; unfold ORel; rw [e4]
  constructor
  · rw [e1, e2, eR]; exact h.abF
  · rw [e1, e2, eR]; exact h.abB

theorem os_frameAuxA_congr {gh : Gh} {s s' : LS} {us : List Nat} (e1 : s'.count = s.count)
    (e2 : s'.firstLeaf = s.firstLeaf) (e4 : s'.flOrbits = s.flOrbits) :
    ∀ (incl : Bool) (path choices : List Nat) (lv : List (Nat × Nat)),
      FrameAuxA n nb rf r gh s us incl path choices lv → FrameAuxA n nb rf r gh s' us incl path choices lv := by
  intro incl path
  induction path generalizing incl with
  | nil => intro choices lv h; cases choices <;> cases lv <;> simp_all [FrameAuxA]
  | cons p ps ih =>
    intro choices lv h
    cases choices with
    | nil => simp [FrameAuxA] at h
    | cons c cs =>
      cases lv with
      | nil => simp [FrameAuxA] at h
      | cons x ls =>
        obtain ⟨st, sz⟩ := x
        simp only [FrameAuxA] at h ⊢
        exact ⟨os_frameAuxA1_congr h.1 e1 e2 e4, ih false cs ls h.2⟩

/-- the top frame: the member with index `c - 1 - st` becomes processed; it does not lie on a stored path because it was
unprocessed (`futF`/`futB` of the D-layer) -/
theorem os_frameAuxA1_step_head {gh : Gh} {s : LS} {us : List Nat} {ps : List Nat} {c st sz : Nat}
    (h : FrameAuxA1 n nb rf r gh s us true ps c st) (hd : FrameAux1 n nb rf r gh s us true ps c st sz) :
    FrameAuxA1 n nb rf r gh s us true ps (c - 1) st := by
  constructor
  · intro h0 hpre i w hi hw hx
    simp only [if_true] at hi
    rcases Nat.lt_or_ge i (c - st) with hlt | hge
    · exact absurd ⟨hpre, hx⟩ (hd.futF h0 i w hlt hw)
    · exact h.abF h0 hpre i w (by simp only [if_true]; exact hge) hw hx
  · intro h0 hpre i w hi hw hx
    simp only [if_true] at hi
    rcases Nat.lt_or_ge i (c - st) with hlt | hge
    · exact absurd ⟨hpre, hx⟩ (hd.futB h0 i w hlt hw)
    · exact h.abB h0 hpre i w (by simp only [if_true]; exact hge) hw hx

/-- the `FrameAuxA` part of a Heuristic-2 skip -/
theorem os_frameAuxA_skip {gh : Gh} {s s' : LS} {us : List Nat} {p c st sz : Nat} {ps cs : List Nat}
    {ls : List (Nat × Nat)}
    (haux : FrameAuxA n nb rf r gh s us true (p :: ps) (c :: cs) ((st, sz) :: ls))
    (hd : FrameAux n nb rf r gh s us true (p :: ps) (c :: cs) ((st, sz) :: ls))
    (e1 : s'.count = s.count) (e2 : s'.firstLeaf = s.firstLeaf) (e4 : s'.flOrbits = s.flOrbits) :
    FrameAuxA n nb rf r gh s' us true (p :: ps) ((c - 1) :: cs) ((st, sz) :: ls) := by
  apply os_frameAuxA_congr (s := s) e1 e2 e4
  simp only [FrameAuxA] at haux ⊢
  exact ⟨os_frameAuxA1_step_head haux.1 hd.head, haux.2⟩

theorem os_acovFrames_path_eq {gh : Gh} {s : LS} {vs : List Nat} {incl : Bool}
    {path path' choices : List Nat} {lv : List (Nat × Nat)} (e : path' = path)
    (h : ACovFrames n nb rf r gh s vs incl path choices lv) : ACovFrames n nb rf r gh s vs incl path' choices lv := by
  subst e; exact h

theorem os_frameAuxA_path_eq {gh : Gh} {s : LS} {vs : List Nat} {incl : Bool}
    {path path' choices : List Nat} {lv : List (Nat × Nat)} (e : path' = path)
    (h : FrameAuxA n nb rf r gh s vs incl path choices lv) : FrameAuxA n nb rf r gh s vs incl path' choices lv := by
  subst e; exact h
end

section
variable {n m : Nat} {nb : Nbrs} {rf : Nat} {r : IR.St}

set_option linter.unusedVariables false in
theorem orb_skipA (gh : Gh) (st sz : Nat) (ls : List (Nat × Nat)) (s : LS) (c : Nat) (cs : List Nat) (p : Nat) (ps : List Nat)
    (ce : Nat) (x : Int) (k : Nat) (hc : Core n s) (ht : TopOK s.op (k + 1) s.path s.choices ((st, sz) :: ls))
    (hsk : s.skipDeage = false) (hage : s.op.age + 1 = s.path.length) (hch : s.choices = c :: cs)
    (hpth : s.path = p :: ps) (hget : s.op.order.get (c - 1) = .ok ce)
    (hon : (decide (s.count > 0) && hasPrefix s.flPath.toList ps.reverse) = true)
    (hx : s.flOrbits[ce]? = some x) (hx0 : x ≥ 0)
    (hJ : CertN n m nb ((st, sz) :: ls) s) (hDv : DNv n nb rf r gh ((st, sz) :: ls) s)
    (hAv : ANv n nb rf r gh ((st, sz) :: ls) s) :
    ANv n nb rf r gh ((st, sz) :: ls) { s with choices := (c - 1) :: cs, skipDeage := true } := by
  obtain ⟨hw, hG, hcov, haux⟩ := hDv
  obtain ⟨hGA, hcovA, hauxA⟩ := hAv
  obtain ⟨m1, m2, m3, m4, m5⟩ := top_member hc ht hage hch hpth hget hw
  rw [hpth, hch] at hcovA hauxA haux
  refine ⟨os_globalA_congr hGA rfl rfl rfl rfl rfl rfl rfl, ?_, ?_⟩
  · have h' := os_acovFrames_step_head hcovA m3 (fun w hw' => by
      rw [m2, m1] at hw'
      cases hw'
      exact Or.inr ⟨hon, x, hx, hx0⟩) p
    exact os_acovFrames_path_eq hpth
      (os_acovFrames_congr (s := s) (s' := { s with choices := (c - 1) :: cs, skipDeage := true }) rfl (fun _ => rfl) rfl
        true _ _ _ h')
  · exact os_frameAuxA_path_eq hpth (os_frameAuxA_skip hauxA haux rfl rfl rfl)

set_option linter.unusedVariables false in
/-- Heuristic 2 on the best-leaf path: the skipped child has an orbit mate at a later position of the bin, which is
already `ACov` -/
theorem os_skipB_child (hnb : NbOK nb n) (gh : Gh)
    (st sz : Nat) (ls : List (Nat × Nat)) (s : LS) (c : Nat) (cs : List Nat) (p : Nat) (ps : List Nat) (ce : Nat)
    (bo : Disjoint.DS) (k : Nat) (hc : Core n s) (ht : TopOK s.op (k + 1) s.path s.choices ((st, sz) :: ls))
    (hage : s.op.age + 1 = s.path.length) (hch : s.choices = c :: cs) (hpth : s.path = p :: ps)
    (hget : s.op.order.get (c - 1) = .ok ce) (hnf : onFirstB s ps = false)
    (hh : h2Best s.op s.bestOrbits (c - 1) ce = .ok (true, bo))
    {vs : List Nat} (hw : WalkNv n nb rf r vs ((st, sz) :: ls) s)
    (hcov : ACovFrames n nb rf r gh s vs true s.path s.choices ((st, sz) :: ls))
    (S : List Nat → Prop)
    (hS : ∀ γ, S γ → IsAutL nb n γ ∧ (∀ u, u < n →
      IR.col (nodeL n nb rf r vs vs.length).c (γ.getD u 0) = IR.col (nodeL n nb rf r vs vs.length).c u) ∧
      ∀ x, x < n → ORel s x (γ.getD x 0))
    (hds : Disjoint.Inv s.bestOrbits) (hdsz : s.bestOrbits.size = n)
    (horb : ∀ a b, a < n → b < n → Disjoint.rep s.bestOrbits a = Disjoint.rep s.bestOrbits b →
      EqvGen (fun x y => ∃ γ, S γ ∧ γ[x]? = some y) a b) :
    ACov n nb rf (lFof n gh) s.firstLeaf.toList (ORel s)
      (IR.childSt (irG n nb) rf (nodeL n nb rf r vs vs.length) st ce) := by
  obtain ⟨h1, h2, h3, h4, h5, h6, h7⟩ := hw
  rw [hpth, hch] at ht hcov
  simp only [TopOK] at ht
  obtain ⟨tb, tsz, tc, tk, _⟩ := ht
  rw [hpth] at h3 hage
  simp only [List.length_cons] at h3 hage
  have hvl : vs.length = ps.length := by omega
  have hm : Match n s.op (nodeL n nb rf r vs vs.length) :=
    (h4 vs.length (Nat.le_refl _)).toMatch hc.part hc.age (by omega) h7
  have hb : IsBinAt (s.op.age + 1) s.op st sz := by
    have : s.op.age + 1 = (ps.length : Int) + 1 := by omega
    rw [this]; exact tb
  obtain ⟨hi, _, _, _, _, f6, _, _, _, f10⟩ := frame_facts (nb := nb) hc.part hc.age hm hb tsz
    (show st ≤ c - 1 by omega) (show c - 1 < st + sz by omega)
  have hce : ce < n := perm_range_lt hc.part.perm (Sl.get_eq_toList.1 hget)
  obtain ⟨_, _, _, hsp⟩ := h2Best_spec hc.part hds hdsz hce hi hh
  obtain ⟨q, w', hq, hord, hrep, hnodiv⟩ := hsp rfl
  have hqlt : q < st + sz := by
    have := hnodiv (st + sz) (List.mem_of_getElem? f6)
    omega
  have hw'n : w' < n := perm_range_lt hc.part.perm hord
  have hCq : (cellL n nb rf r vs ps.length st)[q - st]? = some w' := by
    have := f10 h6 (q - st) (by omega)
    rw [show st + (q - st) = q by omega, hord] at this
    rw [← hvl]
    exact this.symm
  simp only [ACovFrames] at hcov
  have hcc : ACovChild n nb rf r gh s vs ps st w' := hcov.1 (q - st) w' (by simp only [if_true]; omega) hCq
  have hcomp : ACov n nb rf (lFof n gh) s.firstLeaf.toList (ORel s)
      (IR.childSt (irG n nb) rf (nodeL n nb rf r vs vs.length) st w') := by
    rcases hcc with hcomp | ⟨hof, _⟩
    · rw [hvl]; exact hcomp
    · rw [hnf] at hof; cases hof
  obtain ⟨_, hiff⟩ := acov_eqvGen (rf := rf) (lF := lFof n gh) (certF := s.firstLeaf.toList) (R := ORel s)
    (ν := nodeL n nb rf r vs vs.length) (t := st) hnb
    (fun u _ => ORel.refl s u) (fun _ _ _ _ h => ORel.symm h) (fun _ _ _ _ _ _ h h' => ORel.trans h h') hS hw'n
    (horb w' ce hw'n hce hrep)
  exact hiff.1 hcomp

set_option linter.unusedVariables false in
theorem orb_skipB (hnb : NbOK nb n) (gh : Gh) (st sz : Nat) (ls : List (Nat × Nat)) (s : LS) (c : Nat) (cs : List Nat)
    (p : Nat) (ps : List Nat)
    (ce : Nat) (bo : Disjoint.DS) (k : Nat) (hc : Core n s) (ht : TopOK s.op (k + 1) s.path s.choices ((st, sz) :: ls))
    (hsk : s.skipDeage = false) (hage : s.op.age + 1 = s.path.length) (hch : s.choices = c :: cs)
    (hpth : s.path = p :: ps) (hget : s.op.order.get (c - 1) = .ok ce)
    (hon : (decide (s.count > 0) && !hasPrefix s.flPath.toList ps.reverse && hasPrefix s.bestPath.toList ps.reverse) = true)
    (hh : h2Best s.op s.bestOrbits (c - 1) ce = .ok (true, bo))
    (hJ : CertN n m nb ((st, sz) :: ls) s) (hDv : DNv n nb rf r gh ((st, sz) :: ls) s)
    (hAv : ANv n nb rf r gh ((st, sz) :: ls) s) :
    ANv n nb rf r gh ((st, sz) :: ls) { s with choices := (c - 1) :: cs, bestOrbits := bo, skipDeage := true } := by
  obtain ⟨hw, hG, hcov, haux⟩ := hDv
  obtain ⟨hGA, hcovA, hauxA⟩ := hAv
  obtain ⟨m1, m2, m3, m4, m5⟩ := top_member hc ht hage hch hpth hget hw
  simp only [Bool.and_eq_true, decide_eq_true_eq, Bool.not_eq_true'] at hon
  obtain ⟨⟨hcnt, hnfp⟩, hbp⟩ := hon
  have hnf : onFirstB s ps = false := by unfold onFirstB; rw [hnfp]; simp
  have honB : onBestB s ps = true := by
    unfold onBestB; rw [hbp]; simpa using hcnt
  obtain ⟨hds, hdsz, horb⟩ := hG.bestOrb hcnt
  have haux' := haux
  rw [hpth, hch] at haux'
  have hpreB : gh.vs.take ps.length = gh.vsB.take ps.length := by
    obtain ⟨h1, _, _, _, h5, _, _⟩ := hw
    rw [hpth, hch] at h5
    exact prefixB_of_onBest (frames_idxPath ps cs ls h5.tail (by omega)) h1 (by omega) hG honB
  have hS : ∀ γ, γ ∈ gh.bgs → IsAutL nb n γ ∧ (∀ u, u < n →
      IR.col (nodeL n nb rf r gh.vs gh.vs.length).c (γ.getD u 0) = IR.col (nodeL n nb rf r gh.vs gh.vs.length).c u) ∧
      ∀ x, x < n → ORel s x (γ.getD x 0) := by
    intro γ hγ
    refine ⟨hG.bgsAut γ hγ, fun u hu => ?_, hGA.bgsM γ hγ⟩
    rw [m4]
    exact haux'.head.e2 hcnt hpreB γ hγ u hu
  have hchild := os_skipB_child hnb gh st sz ls s c cs p ps ce bo k hc ht hage hch hpth hget hnf hh hw hcovA
    (fun γ => γ ∈ gh.bgs) hS hds hdsz horb
  rw [hpth, hch] at hcovA hauxA
  refine ⟨os_globalA_congr hGA rfl rfl rfl rfl rfl rfl rfl, ?_, ?_⟩
  · have h' := os_acovFrames_step_head hcovA m3 (fun w hw' => by
      rw [m2, m1] at hw'
      cases hw'
      rw [m4] at hchild
      exact Or.inl hchild) p
    exact os_acovFrames_path_eq hpth
      (os_acovFrames_congr (s := s) (s' := { s with choices := (c - 1) :: cs, bestOrbits := bo, skipDeage := true })
        rfl (fun _ => rfl) rfl true _ _ _ h')
  · exact os_frameAuxA_path_eq hpth (os_frameAuxA_skip hauxA haux' rfl rfl rfl)
end
end CanonF
