import Mathlib.Data.List.Perm.Basic
import Mamba.Lemmas.SearchOut
import Mamba.Lemmas.SearchAddRem
/-! The recursive traversal that the explicit-stack loop of `Next` performs, and the shard partition on it. -/
namespace Search

/-- the shard test of `Next` for child index `i` in the frame at `level` -/
def skipAM (n a m : Nat) (i level : Nat) : Bool := i % m != a && (level : Int) == splitLevel n

/-- the `i` pending children of `P`, listed in `xs` (top of the stack first); the child at the head has index `i - 1` -/
def subKids (O : Oracle) (pre pr : DG → Bool) (n : Nat) (K : Nat → Nat → Bool)
    (node : DG → Option Ans → Outcome (List DG)) (P : DG) : List Nat → Nat → Outcome (List DG)
  | [], _ => .ok []
  | _ :: _, 0 => .ok []
  | x :: xs, i + 1 =>
    if K i P.nv then subKids O pre pr n K node P xs i
    else
      match P.addVertex (bitsOf x) with
      | .panic => .panic
      | .outOfFuel => .outOfFuel
      | .ok g2 =>
        if pre g2 then subKids O pre pr n K node P xs i
        else
          match isCanonical O n g2 (bitsOf x) none with
          | .panic => .panic
          | .outOfFuel => .outOfFuel
          | .ok (cache, canon) =>
            if canon && !pr g2 then
              match node g2 cache with
              | .panic => .panic
              | .outOfFuel => .outOfFuel
              | .ok o1 =>
                match subKids O pre pr n K node P xs i with
                | .ok o2 => .ok (o1 ++ o2)
                | .panic => .panic
                | .outOfFuel => .outOfFuel
            else subKids O pre pr n K node P xs i

/-- the subtree below an accepted node `g` (with cached automorphism data `c`); `d` bounds the depth -/
def subNode (O : Oracle) (pre pr : DG → Bool) (n : Nat) (K : Nat → Nat → Bool) :
    Nat → DG → Option Ans → Outcome (List DG)
  | d, g, c =>
    if g.nv = n then .ok [g]
    else
      match d with
      | 0 => .outOfFuel
      | d' + 1 =>
        match addAugmentations O n g #[] c with
        | .ok (new, _, _) => subKids O pre pr n K (subNode O pre pr n K d') g new.toList.reverse new.size
        | .panic => .panic
        | .outOfFuel => .outOfFuel

theorem addVertex_nv {g g' : DG} {l : List Nat} (h : g.addVertex l = .ok g') : g'.nv = g.nv + 1 := by
  unfold DG.addVertex at h
  simp only at h
  split at h
  · cases h
  · split at h
    · cases h; rfl
    · cases h
    · cases h

variable (O : Oracle) (pre pr : DG → Bool) (n : Nat)

/-- below the split level no shard skips anything: a shard's traversal coincides with the unsharded one -/
theorem subKids_deep (a m : Nat) (node : DG → Option Ans → Outcome (List DG)) (P : DG)
    (hP : (P.nv : Int) ≠ splitLevel n) :
    ∀ xs i, subKids O pre pr n (skipAM n a m) node P xs i = subKids O pre pr n (skipAM n 0 1) node P xs i
  | [], _ => rfl
  | _ :: _, 0 => rfl
  | x :: xs, i + 1 => by
    have h1 : skipAM n a m i P.nv = false := by
      simp only [skipAM, Bool.and_eq_false_imp]; intro _; simpa using hP
    have h2 : skipAM n 0 1 i P.nv = false := by
      simp only [skipAM, Bool.and_eq_false_imp]; intro _; simpa using hP
    simp only [subKids, h1, h2, Bool.false_eq_true, if_false, subKids_deep a m node P hP xs i]

/-- `subKids` only applies `node` to graphs with one more vertex than `P` -/
theorem subKids_congr (K : Nat → Nat → Bool) (node1 node2 : DG → Option Ans → Outcome (List DG)) (P : DG)
    (h : ∀ g2 c, g2.nv = P.nv + 1 → node1 g2 c = node2 g2 c) :
    ∀ xs i, subKids O pre pr n K node1 P xs i = subKids O pre pr n K node2 P xs i
  | [], _ => rfl
  | _ :: _, 0 => rfl
  | x :: xs, i + 1 => by
    simp only [subKids, subKids_congr K node1 node2 P h xs i]
    split
    · rfl
    · split
      · rfl
      · rfl
      · rename_i g2 hg2
        have hh : ∀ c, node1 g2 c = node2 g2 c := fun c => h g2 c (addVertex_nv hg2)
        simp only [hh]

theorem subNode_deep (a m : Nat) :
    ∀ (d : Nat) (g : DG) (c : Option Ans), splitLevel n < (g.nv : Int) →
      subNode O pre pr n (skipAM n a m) d g c = subNode O pre pr n (skipAM n 0 1) d g c
  | 0, g, c, _ => by simp [subNode]
  | d + 1, g, c, hg => by
    simp only [subNode]
    split
    · rfl
    · split
      · rename_i new _ _ _
        rw [subKids_congr O pre pr n _ (subNode O pre pr n (skipAM n a m) d) (subNode O pre pr n (skipAM n 0 1) d) g
          (fun g2 c2 h2 => subNode_deep a m d g2 c2 (by rw [h2]; push_cast; omega)) _ _]
        exact subKids_deep O pre pr n a m _ g (by omega) _ _
      · rfl
      · rfl

/-! ### multiset union over the shards -/

theorem flatMap_single (x : List DG) (a0 : Nat) :
    ∀ l : List Nat, l.Nodup → a0 ∈ l → (l.flatMap fun a => if a = a0 then x else []) = x
  | [], _, h => by simp at h
  | b :: l, hnd, hm => by
    have hnd' := List.nodup_cons.1 hnd
    simp only [List.flatMap_cons]
    by_cases hb : b = a0
    · subst hb
      have : (l.flatMap fun a => if a = b then x else []) = [] := by
        rw [List.flatMap_eq_nil_iff]
        intro a ha
        have : a ≠ b := fun e => hnd'.1 (e ▸ ha)
        simp [this]
      simp [this]
    · have hm' : a0 ∈ l := by
        rcases List.mem_cons.1 hm with h | h
        · exact absurd h.symm hb
        · exact h
      simp [hb, flatMap_single x a0 l hnd'.2 hm']

/-- one shard `a0` contributes `x` in addition -/
theorem flatMap_shards_single (m a0 : Nat) (h0 : a0 < m) (x : List DG) (r : Nat → List DG) :
    ((List.range m).flatMap fun a => if a = a0 then x ++ r a else r a).Perm (x ++ (List.range m).flatMap r) := by
  have e : (fun a => if a = a0 then x ++ r a else r a) = fun a => (if a = a0 then x else []) ++ r a := by
    funext a; by_cases h : a = a0 <;> simp [h]
  rw [e]
  refine (List.flatMap_append_perm _ _ _).symm.trans ?_
  rw [flatMap_single x a0 _ List.nodup_range (List.mem_range.2 h0)]

/-- value of an `Outcome (List DG)`, `[]` if it is not `ok` -/
def outs (r : Outcome (List DG)) : List DG := match r with | .ok l => l | _ => []

theorem outs_ok {r : Outcome (List DG)} {l : List DG} (h : r = .ok l) : outs r = l := by subst h; rfl

theorem skip_one (i L : Nat) : skipAM n 0 1 i L = false := by simp [skipAM, Nat.mod_one]

/-- the frame at the split level: every child is explored by exactly one shard -/
theorem subKids_split (m : Nat) (hm : 0 < m) (node : DG → Option Ans → Outcome (List DG)) (P : DG)
    (hP : (P.nv : Int) = splitLevel n) :
    ∀ (xs : List Nat) (i : Nat) (o1 : List DG) (o : Nat → List DG),
      subKids O pre pr n (skipAM n 0 1) node P xs i = .ok o1 →
      (∀ a, a < m → subKids O pre pr n (skipAM n a m) node P xs i = .ok (o a)) →
      ((List.range m).flatMap o).Perm o1
  | [], _, o1, o, h1, ha => by
    simp only [subKids] at h1 ha
    cases h1
    have : (List.range m).flatMap o = [] := by
      rw [List.flatMap_eq_nil_iff]; intro a hmem
      exact (Outcome.ok.inj (ha a (List.mem_range.1 hmem))).symm
    rw [this]
  | _ :: _, 0, o1, o, h1, ha => by
    simp only [subKids] at h1 ha
    cases h1
    have : (List.range m).flatMap o = [] := by
      rw [List.flatMap_eq_nil_iff]; intro a hmem
      exact (Outcome.ok.inj (ha a (List.mem_range.1 hmem))).symm
    rw [this]
  | x :: xs, i + 1, o1, o, h1, ha => by
    have hk : ∀ a, skipAM n a m i P.nv = (i % m != a) := by
      intro a; simp [skipAM, hP]
    simp only [subKids, skip_one, Bool.false_eq_true, if_false] at h1
    simp only [subKids, hk] at ha
    -- the remainder of the frame, per shard
    let r : Nat → List DG := fun a => outs (subKids O pre pr n (skipAM n a m) node P xs i)
    have a0 := i % m
    have ha0 : i % m < m := Nat.mod_lt _ hm
    cases hadd : P.addVertex (bitsOf x) with
    | panic => simp [hadd] at h1
    | outOfFuel => simp [hadd] at h1
    | ok g2 =>
      simp only [hadd] at h1 ha
      by_cases hpre : pre g2 = true
      · -- prepruned: nobody lists anything for this child
        simp only [hpre, if_true] at h1 ha
        refine subKids_split m hm node P hP xs i o1 o h1 ?_
        intro a hlt
        have := ha a hlt
        by_cases hs : (i % m != a) = true
        · simpa [hs] using this
        · simpa [hs] using this
      · have hpre' : pre g2 = false := by simpa using hpre
        simp only [hpre', Bool.false_eq_true, if_false] at h1 ha
        cases hcan : isCanonical O n g2 (bitsOf x) none with
        | panic => simp [hcan] at h1
        | outOfFuel => simp [hcan] at h1
        | ok p =>
          obtain ⟨cache, canon⟩ := p
          simp only [hcan] at h1 ha
          by_cases hacc : (canon && !pr g2) = true
          · simp only [hacc, if_true] at h1 ha
            cases hnode : node g2 cache with
            | panic => simp [hnode] at h1
            | outOfFuel => simp [hnode] at h1
            | ok out =>
              simp only [hnode] at h1 ha
              cases hrest : subKids O pre pr n (skipAM n 0 1) node P xs i with
              | panic => simp [hrest] at h1
              | outOfFuel => simp [hrest] at h1
              | ok r1 =>
                simp only [hrest, Outcome.ok.injEq] at h1
                subst h1
                -- every shard's remainder is ok
                have hr : ∀ a, a < m → subKids O pre pr n (skipAM n a m) node P xs i = .ok (r a) := by
                  intro a hlt
                  have := ha a hlt
                  by_cases hs : (i % m != a) = true
                  · simp only [hs, if_true] at this
                    simp only [r, outs_ok this]; exact this
                  · simp only [hs, Bool.false_eq_true, if_false] at this
                    cases hq : subKids O pre pr n (skipAM n a m) node P xs i with
                    | ok l => simp [r, outs, hq]
                    | panic => simp [hq] at this
                    | outOfFuel => simp [hq] at this
                have ih := subKids_split m hm node P hP xs i r1 r hrest hr
                have ho : ∀ a ∈ List.range m, o a = if a = i % m then out ++ r a else r a := by
                  intro a hmem
                  have hlt := List.mem_range.1 hmem
                  have := ha a hlt
                  have hra := hr a hlt
                  by_cases hs : (i % m != a) = true
                  · simp only [hs, if_true, hra, Outcome.ok.injEq] at this
                    have hne : a ≠ i % m := by
                      intro e; simp [e] at hs
                    simp [hne, this]
                  · simp only [hs, Bool.false_eq_true, if_false, hra, Outcome.ok.injEq] at this
                    have he : a = i % m := by
                      have : ¬ (i % m ≠ a) := by simpa using hs
                      exact (not_not.1 this).symm
                    rw [if_pos he]
                    exact this.symm
                have e1 : (List.range m).flatMap o =
                    (List.range m).flatMap fun a => if a = i % m then out ++ r a else r a :=
                  List.flatMap_congr ho
                rw [e1]
                exact (flatMap_shards_single m _ ha0 out r).trans (ih.append_left out)
          · have hacc' : (canon && !pr g2) = false := by simpa using hacc
            simp only [hacc', Bool.false_eq_true, if_false] at h1 ha
            refine subKids_split m hm node P hP xs i o1 o h1 ?_
            intro a hlt
            have := ha a hlt
            by_cases hs : (i % m != a) = true
            · simpa [hs] using this
            · simpa [hs] using this

/-- a frame above the split level: nobody skips, every child's subtree is itself split among the shards -/
theorem subKids_upper (m : Nat) (node1 : DG → Option Ans → Outcome (List DG))
    (nodeA : Nat → DG → Option Ans → Outcome (List DG)) (P : DG) (hP : (P.nv : Int) ≠ splitLevel n)
    (hK : ∀ (g2 : DG) (c : Option Ans) (out1 : List DG) (outA : Nat → List DG), g2.nv = P.nv + 1 →
      node1 g2 c = .ok out1 → (∀ a, a < m → nodeA a g2 c = .ok (outA a)) →
      ((List.range m).flatMap outA).Perm out1) :
    ∀ (xs : List Nat) (i : Nat) (o1 : List DG) (o : Nat → List DG),
      subKids O pre pr n (skipAM n 0 1) node1 P xs i = .ok o1 →
      (∀ a, a < m → subKids O pre pr n (skipAM n a m) (nodeA a) P xs i = .ok (o a)) →
      ((List.range m).flatMap o).Perm o1
  | [], _, o1, o, h1, ha => by
    simp only [subKids] at h1 ha
    cases h1
    have : (List.range m).flatMap o = [] := by
      rw [List.flatMap_eq_nil_iff]; intro a hmem
      exact (Outcome.ok.inj (ha a (List.mem_range.1 hmem))).symm
    rw [this]
  | _ :: _, 0, o1, o, h1, ha => by
    simp only [subKids] at h1 ha
    cases h1
    have : (List.range m).flatMap o = [] := by
      rw [List.flatMap_eq_nil_iff]; intro a hmem
      exact (Outcome.ok.inj (ha a (List.mem_range.1 hmem))).symm
    rw [this]
  | x :: xs, i + 1, o1, o, h1, ha => by
    have hk : ∀ a, skipAM n a m i P.nv = false := by
      intro a; simp only [skipAM, Bool.and_eq_false_imp]; intro _; simpa using hP
    simp only [subKids, skip_one, Bool.false_eq_true, if_false] at h1
    simp only [subKids, hk, Bool.false_eq_true, if_false] at ha
    let r : Nat → List DG := fun a => outs (subKids O pre pr n (skipAM n a m) (nodeA a) P xs i)
    cases hadd : P.addVertex (bitsOf x) with
    | panic => simp [hadd] at h1
    | outOfFuel => simp [hadd] at h1
    | ok g2 =>
      simp only [hadd] at h1 ha
      by_cases hpre : pre g2 = true
      · simp only [hpre, if_true] at h1 ha
        exact subKids_upper m node1 nodeA P hP hK xs i o1 o h1 ha
      · have hpre' : pre g2 = false := by simpa using hpre
        simp only [hpre', Bool.false_eq_true, if_false] at h1 ha
        cases hcan : isCanonical O n g2 (bitsOf x) none with
        | panic => simp [hcan] at h1
        | outOfFuel => simp [hcan] at h1
        | ok p =>
          obtain ⟨cache, canon⟩ := p
          simp only [hcan] at h1 ha
          by_cases hacc : (canon && !pr g2) = true
          · simp only [hacc, if_true] at h1 ha
            cases hnode : node1 g2 cache with
            | panic => simp [hnode] at h1
            | outOfFuel => simp [hnode] at h1
            | ok out1 =>
              simp only [hnode] at h1
              cases hrest : subKids O pre pr n (skipAM n 0 1) node1 P xs i with
              | panic => simp [hrest] at h1
              | outOfFuel => simp [hrest] at h1
              | ok r1 =>
                simp only [hrest, Outcome.ok.injEq] at h1
                subst h1
                let outA : Nat → List DG := fun a => outs (nodeA a g2 cache)
                have hboth : ∀ a, a < m → nodeA a g2 cache = .ok (outA a) ∧
                    subKids O pre pr n (skipAM n a m) (nodeA a) P xs i = .ok (r a) ∧ o a = outA a ++ r a := by
                  intro a hlt
                  have := ha a hlt
                  cases hq : nodeA a g2 cache with
                  | panic => simp [hq] at this
                  | outOfFuel => simp [hq] at this
                  | ok l =>
                    simp only [hq] at this
                    cases hq2 : subKids O pre pr n (skipAM n a m) (nodeA a) P xs i with
                    | panic => simp [hq2] at this
                    | outOfFuel => simp [hq2] at this
                    | ok l2 =>
                      simp only [hq2, Outcome.ok.injEq] at this
                      exact ⟨by simp [outA, outs, hq], by simp [r, outs, hq2], by simp [outA, r, outs, hq, hq2, this]⟩
                have ih := subKids_upper m node1 nodeA P hP hK xs i r1 r hrest (fun a hlt => (hboth a hlt).2.1)
                have hk1 := hK g2 cache out1 outA (addVertex_nv hadd) hnode (fun a hlt => (hboth a hlt).1)
                have e1 : (List.range m).flatMap o = (List.range m).flatMap fun a => outA a ++ r a :=
                  List.flatMap_congr (fun a hmem => (hboth a (List.mem_range.1 hmem)).2.2)
                rw [e1]
                exact (List.flatMap_append_perm _ _ _).symm.trans (hk1.append ih)
          · have hacc' : (canon && !pr g2) = false := by simpa using hacc
            simp only [hacc', Bool.false_eq_true, if_false] at h1 ha
            exact subKids_upper m node1 nodeA P hP hK xs i o1 o h1 ha

/-- **the shards partition the traversal**: for a node at or above the split level, the lists of the `m` shards
together are a permutation of the unsharded list -/
theorem subNode_shards (m : Nat) (hm : 0 < m) (hn : 2 ≤ n) :
    ∀ (d : Nat) (g : DG) (c : Option Ans) (o1 : List DG) (o : Nat → List DG), (g.nv : Int) ≤ splitLevel n →
      subNode O pre pr n (skipAM n 0 1) d g c = .ok o1 →
      (∀ a, a < m → subNode O pre pr n (skipAM n a m) d g c = .ok (o a)) →
      ((List.range m).flatMap o).Perm o1
  | 0, g, c, o1, o, hg, h1, _ => by
    have hlt : g.nv ≠ n := by
      have := (splitLevel_range hn).2; omega
    simp [subNode, hlt] at h1
  | d + 1, g, c, o1, o, hg, h1, ha => by
    have hlt : g.nv ≠ n := by
      have := (splitLevel_range hn).2; omega
    simp only [subNode, hlt, if_false] at h1 ha
    cases haug : addAugmentations O n g #[] c with
    | panic => simp [haug] at h1
    | outOfFuel => simp [haug] at h1
    | ok p =>
      obtain ⟨new, c', num⟩ := p
      simp only [haug] at h1 ha
      by_cases hsplit : (g.nv : Int) = splitLevel n
      · -- the children of g form the split frame; below it the shards agree with the unsharded traversal
        refine subKids_split O pre pr n m hm (subNode O pre pr n (skipAM n 0 1) d) g hsplit _ _ o1 o h1 ?_
        intro a hlt'
        rw [← ha a hlt']
        exact (subKids_congr O pre pr n _ _ _ g
          (fun g2 c2 h2 => subNode_deep O pre pr n a m d g2 c2 (by rw [h2]; push_cast; omega)) _ _).symm
      · refine subKids_upper O pre pr n m (subNode O pre pr n (skipAM n 0 1) d)
          (fun a => subNode O pre pr n (skipAM n a m) d) g hsplit ?_ _ _ o1 o h1 ha
        intro g2 c2 out1 outA h2 hn1 hnA
        exact subNode_shards m hm hn d g2 c2 out1 outA (by rw [h2]; push_cast; omega) hn1 hnA

end Search
