import Mamba.Lemmas.CanonFCov
/-!
# Coverage: popping a frame, and the Heuristic-2 skip on the best-leaf path
-/
namespace CanonF
open Relation

/-- all children of the top frame are covered ⇒ the node of the top frame is complete -/
theorem cov_pop {n m : Nat} {nb : Nbrs} {rf : Nat} {r : IR.St} (hnb : NbOK nb n)
    (st sz : Nat) (ls : List (Nat × Nat)) (s : LS) (c : Nat) (cs : List Nat) (p : Nat) (ps : List Nat)
    (hch : s.choices = c :: cs) (hpth : s.path = p :: ps) (hcst : c = st)
    {vs : List Nat} (hw : WalkNv n nb rf r vs ((st, sz) :: ls) s) (hg : GInv n m nb s)
    (hcov : CovFrames n nb rf r s vs true s.path s.choices ((st, sz) :: ls))
    (hE1 : onFirstB s ps = true → ∀ k, k < s.ngens → ∀ γ, s.gens[k]? = some γ →
      ∀ u, u < n → IR.col (nodeL n nb rf r vs ps.length).c (γ.toList.getD u 0) = IR.col (nodeL n nb rf r vs ps.length).c u) :
    Complete n nb rf s.currentBest.toList (nodeL n nb rf r vs ps.length) := by
  have h5 := hw.2.2.2.2.1
  rw [hpth, hch] at h5 hcov
  simp only [FramesOK] at h5
  simp only [CovFrames] at hcov
  obtain ⟨htar, _, _, _⟩ := h5
  have hcov1 : ∀ w, w ∈ IR.cellMembers (irG n nb) (nodeL n nb rf r vs ps.length).c st →
      CovChild n nb rf r s vs ps st w := by
    intro w hwm
    obtain ⟨i, hi⟩ := List.getElem?_of_mem hwm
    exact hcov.1 i w (by simp only [if_true]; omega) hi
  intro x hx
  obtain ⟨w, hwm, hcb⟩ := (IR.certBelow_of_target_some htar).1 hx
  rcases hcov1 w hwm with hcomp | ⟨hof, y, hy, hy0⟩
  · exact hcomp x hcb
  · have hcnt : 0 < s.count := by
      unfold onFirstB at hof
      simp only [Bool.and_eq_true, decide_eq_true_eq] at hof
      exact hof.1
    obtain ⟨hinv, horb⟩ := hg.orb hcnt
    have hsz := hg.orbSz.1
    obtain ⟨hwn, hwc⟩ := IR.mem_cellMembers.1 hwm
    have hwn' : w < n := hwn
    obtain ⟨hρ, y', hy', hneg⟩ := rep_is_root hinv (v := w) (by rw [hsz]; exact hwn')
    rw [hsz] at hρ
    have hself := rep_self_of_root hinv hy' hneg
    have hgens : ∀ k, k < s.ngens → ∃ γ, s.gens[k]? = some γ ∧ IsAutL nb n γ.toList ∧
        ∀ v, v < n → IR.col (nodeL n nb rf r vs ps.length).c (γ.toList.getD v 0) =
          IR.col (nodeL n nb rf r vs ps.length).c v := by
      intro k hk
      obtain ⟨γ, e, haut⟩ := hg.gens k hk
      exact ⟨γ, e, haut, hE1 hof k hk γ e⟩
    obtain ⟨hcol, hiff⟩ := deferred_root_sound hnb rf hgens horb hwn' hρ hself
    have hρm : Disjoint.rep s.flOrbits w ∈ IR.cellMembers (irG n nb) (nodeL n nb rf r vs ps.length).c st :=
      IR.mem_cellMembers.2 ⟨hρ, by rw [hcol]; exact hwc⟩
    rcases hcov1 _ hρm with hcomp | ⟨_, z, hz, hz0⟩
    · exact hcomp x ((hiff st x).2 hcb)
    · rw [hy'] at hz
      cases hz
      omega

set_option linter.unusedVariables false in
/-- Heuristic 2 on the best-leaf path: the skipped child has an orbit mate at a later position of the bin, which is
already covered -/
theorem cov_skipB {n m : Nat} {nb : Nbrs} {rf : Nat} {r : IR.St} (hnb : NbOK nb n)
    (st sz : Nat) (ls : List (Nat × Nat)) (s : LS) (c : Nat) (cs : List Nat) (p : Nat) (ps : List Nat) (ce : Nat)
    (bo : Disjoint.DS) (k : Nat) (hc : Core n s) (ht : TopOK s.op (k + 1) s.path s.choices ((st, sz) :: ls))
    (hage : s.op.age + 1 = s.path.length) (hch : s.choices = c :: cs) (hpth : s.path = p :: ps)
    (hget : s.op.order.get (c - 1) = .ok ce) (hnf : onFirstB s ps = false)
    (hh : h2Best s.op s.bestOrbits (c - 1) ce = .ok (true, bo))
    {vs : List Nat} (hw : WalkNv n nb rf r vs ((st, sz) :: ls) s)
    (hcov : CovFrames n nb rf r s vs true s.path s.choices ((st, sz) :: ls))
    (S : List Nat → Prop)
    (hS : ∀ γ, S γ → IsAutL nb n γ ∧ ∀ u, u < n →
      IR.col (nodeL n nb rf r vs vs.length).c (γ.getD u 0) = IR.col (nodeL n nb rf r vs vs.length).c u)
    (hds : Disjoint.Inv s.bestOrbits) (hdsz : s.bestOrbits.size = n)
    (horb : ∀ a b, a < n → b < n → Disjoint.rep s.bestOrbits a = Disjoint.rep s.bestOrbits b →
      EqvGen (fun x y => ∃ γ, S γ ∧ γ[x]? = some y) a b) :
    Complete n nb rf s.currentBest.toList (IR.childSt (irG n nb) rf (nodeL n nb rf r vs vs.length) st ce) := by
  obtain ⟨h1, h2, h3, h4, h5, h6, h7⟩ := hw
  rw [hpth, hch] at ht hcov
  simp only [TopOK] at ht
  obtain ⟨tb, tsz, tc, tk, _⟩ := ht
  rw [hpth] at h3 hage
  simp only [List.length_cons] at h3 hage
  have hvl : vs.length = ps.length := by omega
  have hm : Match n s.op (nodeL n nb rf r vs vs.length) :=
    (h4 vs.length (Nat.le_refl _)).toMatch hc.part hc.age (by omega) h7
  have hb : IsBinAt (s.op.age + 1) s.op st sz := by
    have : s.op.age + 1 = (ps.length : Int) + 1 := by omega
    rw [this]; exact tb
  obtain ⟨hi, _, _, _, _, f6, _, _, _, f10⟩ := frame_facts (nb := nb) hc.part hc.age hm hb tsz
    (show st ≤ c - 1 by omega) (show c - 1 < st + sz by omega)
  have hce : ce < n := perm_range_lt hc.part.perm (Sl.get_eq_toList.1 hget)
  obtain ⟨_, _, _, hsp⟩ := h2Best_spec hc.part hds hdsz hce hi hh
  obtain ⟨q, w', hq, hord, hrep, hnodiv⟩ := hsp rfl
  have hqlt : q < st + sz := by
    have := hnodiv (st + sz) (List.mem_of_getElem? f6)
    omega
  have hw'n : w' < n := perm_range_lt hc.part.perm hord
  have hCq : (cellL n nb rf r vs ps.length st)[q - st]? = some w' := by
    have := f10 h6 (q - st) (by omega)
    rw [show st + (q - st) = q by omega, hord] at this
    rw [← hvl]
    exact this.symm
  simp only [CovFrames] at hcov
  have hcc : CovChild n nb rf r s vs ps st w' := hcov.1 (q - st) w' (by simp only [if_true]; omega) hCq
  have hcomp : Complete n nb rf s.currentBest.toList
      (IR.childSt (irG n nb) rf (nodeL n nb rf r vs vs.length) st w') := by
    rcases hcc with hcomp | ⟨hof, _⟩
    · rw [hvl]; exact hcomp
    · rw [hnf] at hof; cases hof
  obtain ⟨_, _, hiff⟩ := eqvGen_subtree hnb rf hS hw'n (horb w' ce hw'n hce hrep)
  intro x hx
  exact hcomp x ((hiff st x).1 hx)

end CanonF
