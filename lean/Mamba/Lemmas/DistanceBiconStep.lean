import Mamba.Model.Bicon
/-!
# One iteration of the `for len(toCheck) > 0` loop of the `BiconnectedComponents` model
-/
namespace GDist
open GraphSpec Model

/-- the part of an iteration after the neighbour loop finished: `lowpoints[v] = tmpLowPoint`, pop, merge, append -/
def bicPop (v : Nat) (restStack : List Nat) (st' : BicSt) (tmpLow : Int) : Outcome BicSt :=
  if hv' : v < st'.low.size then
    let st1 := { st' with low := st'.low.set v tmpLow, toCheck := restStack }
    if hdv : v < st1.depths.size then
      let merged : Outcome (List (List Nat)) :=
        if v ≠ 0 then
          match st1.bicoms.getLast? with
          | none => .panic
          | some cur => bicMerge st1.depths st1.depths[v] st1.bicoms.dropLast.reverse cur
        else .ok st1.bicoms
      match merged with
      | .ok bs =>
        match bs.getLast? with
        | none => .panic
        | some cur => .ok { st1 with bicoms := setLast bs (cur ++ [v]) }
      | .panic => .panic
      | .outOfFuel => .outOfFuel
    else .panic
  else .panic

/-- one iteration: `none` when the stack is empty -/
def bicStep (h : G) (com : List Nat) (st : BicSt) : Outcome (Option BicSt) :=
  match st.toCheck with
  | [] => .ok none
  | v :: restStack =>
    if hv : v < st.low.size then
      match bicScan com h.n v (h.nbrs v) st st.low[v] with
      | .ok (.descend st') => .ok (some st')
      | .ok (.done st' tmpLow) =>
        match bicPop v restStack st' tmpLow with
        | .ok s => .ok (some s)
        | .panic => .panic
        | .outOfFuel => .outOfFuel
      | .panic => .panic
      | .outOfFuel => .outOfFuel
    else .panic

theorem bicLoop_succ (h : G) (com : List Nat) (f : Nat) (st : BicSt) :
    bicLoop h com (f + 1) st =
      match bicStep h com st with
      | .ok none => .ok st
      | .ok (some s) => bicLoop h com f s
      | .panic => .panic
      | .outOfFuel => .outOfFuel := by
  unfold bicStep
  rw [bicLoop]
  cases hT : st.toCheck with
  | nil => rfl
  | cons v rest =>
    simp only
    by_cases hv : v < st.low.size
    · simp only [hv, dif_pos]
      cases hs : bicScan com h.n v (h.nbrs v) st st.low[v] with
      | panic => rfl
      | outOfFuel => rfl
      | ok res =>
        cases res with
        | descend st' => rfl
        | done st' t =>
          simp only [bicPop]
          by_cases hv' : v < st'.low.size
          · simp only [hv', dif_pos]
            by_cases hdv : v < st'.depths.size
            · simp only [hdv, dif_pos]
              by_cases hv0 : v ≠ 0
              · simp only [hv0, ne_eq, not_false_eq_true, if_true]
                cases hl : st'.bicoms.getLast? with
                | none => rfl
                | some cur =>
                  simp only
                  cases hm : bicMerge st'.depths st'.depths[v] st'.bicoms.dropLast.reverse cur with
                  | panic => rfl
                  | outOfFuel => rfl
                  | ok bs =>
                    simp only
                    cases hb : bs.getLast? with
                    | none => rfl
                    | some c2 => rfl
              · simp only [hv0, if_false]
                cases hb : st'.bicoms.getLast? with
                | none => rfl
                | some c2 => rfl
            · simp only [hdv, dif_neg, not_false_eq_true]
          · simp only [hv', dif_neg, not_false_eq_true]
    · simp only [hv, dif_neg, not_false_eq_true]

/-- lifting a one-step invariant to the loop -/
theorem bicLoop_invariant (h : G) (com : List Nat) (I : BicSt → Prop)
    (hstep : ∀ st s, I st → bicStep h com st = .ok (some s) → I s) :
    ∀ (fuel : Nat) (st st' : BicSt), I st → bicLoop h com fuel st = .ok st' → I st' ∧ st'.toCheck = [] := by
  intro fuel
  induction fuel with
  | zero => intro st st' _ hres; simp [bicLoop] at hres
  | succ f ih =>
    intro st st' hI hres
    rw [bicLoop_succ] at hres
    cases hs : bicStep h com st with
    | panic => rw [hs] at hres; simp at hres
    | outOfFuel => rw [hs] at hres; simp at hres
    | ok o =>
      rw [hs] at hres
      cases o with
      | none =>
        simp only at hres
        cases hres
        refine ⟨hI, ?_⟩
        unfold bicStep at hs
        cases hT : st.toCheck with
        | nil => rfl
        | cons v rest =>
          rw [hT] at hs
          simp only at hs
          split at hs
          · split at hs <;> try simp at hs
            split at hs <;> simp at hs
          · simp at hs
      | some s =>
        simp only at hres
        exact ih s st' (hstep st s hI hs) hres

end GDist
