import Mamba.Lemmas.DistanceBiconBlk2
/-!
# The invariant on `bicoms` / `out` is kept when a block is emitted
-/
namespace GDist
open GraphSpec Model

variable {h : G} {com : List Nat} {out0 : List (List Nat)} {st : BicSt} {tp : Nat → Nat} {cs : List Nat}

theorem sortInts_strict {l : List Nat} (hnd : l.Nodup) : (sortInts l).Pairwise (· < ·) := by
  have h1 := sortInts_sorted l
  have h2 : (sortInts l).Nodup := by
    unfold sortInts
    exact (List.mergeSort_perm l _).nodup_iff.2 hnd
  refine (h1.and h2).imp ?_
  intro a b hab
  have := hab.1
  simp at this
  have := hab.2
  omega

/-- the list `b ++ [p]` mapped to global labels and sorted is the block of `c` -/
theorem isBlk_of_list (hinj : ∀ a b, a < h.n → b < h.n → com.getD a 0 = com.getD b 0 → a = b)
    {b : List Nat} {c p : Nat} (hfin : c < h.n ∧ bvis st c ∧ c ∉ st.toCheck ∧ c ≠ 0) (hp : p = tp c)
    (hpn : p < h.n) (hpv : bvis st p) (hbn : b.Nodup) (hpb : p ∉ b)
    (hmem : ∀ y, y ∈ b ↔ (y < h.n ∧ bvis st y ∧ NL st tp c y)) :
    IsBlk h com st tp (sortInts ((b ++ [p]).map fun x => com.getD x 0)) c := by
  refine ⟨hfin, sortInts_strict ?_, fun w => ?_⟩
  · apply List.Nodup.map_on
    · intro x hx y hy hxy
      have hx' : x < h.n := by
        rcases List.mem_append.1 hx with h0 | h0
        · exact ((hmem x).1 h0).1
        · simp at h0; rw [h0]; exact hpn
      have hy' : y < h.n := by
        rcases List.mem_append.1 hy with h0 | h0
        · exact ((hmem y).1 h0).1
        · simp at h0; rw [h0]; exact hpn
      exact hinj x y hx' hy' hxy
    · rw [List.nodup_append]
      refine ⟨hbn, by simp, ?_⟩
      intro a ha b' hb' hab
      simp at hb'
      subst hb'; subst hab
      exact hpb ha
  · rw [mem_sortInts, List.mem_map]
    constructor
    · rintro ⟨y, hy, hyw⟩
      rcases List.mem_append.1 hy with h0 | h0
      · obtain ⟨h1, h2, h3⟩ := (hmem y).1 h0
        exact ⟨y, h1, h2, hyw, .inr h3⟩
      · simp at h0
        subst h0
        exact ⟨y, hpn, hpv, hyw, .inl hp⟩
    · rintro ⟨y, hy, hyv, hyw, hor⟩
      refine ⟨y, List.mem_append.2 ?_, hyw⟩
      rcases hor with h0 | h0
      · right; simp [h0, hp]
      · left; exact (hmem y).2 ⟨hy, hyv, h0⟩

theorem bicoms_split {l : List (List Nat)} {cur : List Nat} (hcur : l.getLast? = some cur) :
    l = l.dropLast ++ [cur] := by
  have hne : l ≠ [] := by
    intro h0; subst h0; cases hcur
  conv_lhs => rw [← List.dropLast_append_getLast hne]
  congr 2
  rw [List.getLast?_eq_some_getLast hne] at hcur
  cases hcur; rfl

theorem bk_emit (hinj : ∀ a b, a < h.n → b < h.n → com.getD a 0 = com.getD b 0 → a = b)
    (dt : DT h st tp) (la : LA h st tp) (bk : BK h com out0 st tp cs) {v u : Nat}
    {rest cur : List Nat} (hstk : st.toCheck = v :: rest) (hun : u < h.n) (huv : bvis st u) (hu0 : u ≠ 0)
    (hunot : u ∉ st.toCheck) (hpu : pa st u = (v : Int)) (hv0 : v ≠ 0) (hlu : lo st u ≥ dI st v)
    (hcur : st.bicoms.getLast? = some cur) :
    BK h com out0 (emitSt com st v u cur) tp (cs ++ [u]) := by
  have hvs : v ∈ st.toCheck := by rw [hstk]; exact List.mem_cons_self
  obtain ⟨hvn, hvv⟩ := dt.svis v hvs
  have huP : u < st.parents.size := by rw [dt.ok.psz]; exact hun
  have hp : ∀ x, pa (emitSt com st v u cur) x = if x = u then -1 else pa st x := pa_emitSt com huP
  have htu : tp u = v := by
    rcases la.ar1 u hun huv hu0 with h0 | h0
    · rw [hpu] at h0; omega
    · rw [hpu] at h0; omega
  have hsplit := bicoms_split hcur
  have hbic : (emitSt com st v u cur).bicoms = st.bicoms.dropLast ++ [[]] := rfl
  have hcurm : cur ∈ st.bicoms := List.mem_of_getLast? hcur
  -- the pending block is the current one
  have hcu : cur.getLast? = some u := by
    obtain ⟨cur', h1, h2⟩ := bk.bpend u hun huv hunot hu0 (by rw [hpu, htu]) (by rw [htu]; exact hv0)
      (by rw [htu]; exact hlu)
    rw [hcur] at h1; cases h1; exact h2
  have hucur : u ∈ cur := List.mem_of_getLast? hcu
  have hnd := bk.bnd
  rw [hsplit, List.flatten_append, List.nodup_append] at hnd
  obtain ⟨hnd1, hnd2, hnd3⟩ := hnd
  simp only [List.flatten_cons, List.flatten_nil, List.append_nil] at hnd2 hnd3
  have hdl : ∀ b, b ∈ st.bicoms.dropLast → b ∈ st.bicoms := fun b hb => (List.dropLast_sublist _).subset hb
  have htopne : ∀ b ∈ st.bicoms.dropLast, ∀ x, b.getLast? = some x → x ≠ u := by
    intro b hb x hx hxu
    subst hxu
    exact hnd3 x (List.mem_flatten.2 ⟨b, hb, List.mem_of_getLast? hx⟩) x hucur rfl
  have hmemb : ∀ b, b ∈ (emitSt com st v u cur).bicoms → b ∈ st.bicoms.dropLast ∨ b = [] := by
    intro b hb
    rw [hbic] at hb
    rcases List.mem_append.1 hb with h0 | h0
    · exact .inl h0
    · simp at h0; exact .inr h0
  have hblk : ∀ S c, IsBlk h com st tp S c → IsBlk h com (emitSt com st v u cur) tp S c := fun S c hb => hb
  refine { btop := ?_, bmem := ?_, bnd := ?_, bord := ?_, bcur := ?_, bcov := ?_, bpend := ?_, broot := ?_,
           out := ?_, csmem := ?_, csnd := ?_ }
  · intro b hb x hx
    rcases hmemb b hb with hb' | hb'
    · obtain ⟨h1, h2, h3, h4, h5, h6⟩ := bk.btop b (hdl b hb') x hx
      refine ⟨h1, h2, h3, h4, h5, ?_⟩
      rw [hp]; simp [htopne b hb' x hx, h6]
    · subst hb'; cases hx
  · intro b hb x hx y
    rcases hmemb b hb with hb' | hb'
    · exact bk.bmem b (hdl b hb') x hx y
    · subst hb'; cases hx
  · rw [hbic]; simpa using hnd1
  · rw [hbic, List.pairwise_append]
    have hold := bk.bord
    rw [hsplit, List.pairwise_append] at hold
    refine ⟨hold.1, by simp, ?_⟩
    intro b _ b' hb' x x' _ hx'
    simp at hb'; subst hb'; cases hx'
  · intro cur' x v' rest' hc' hx' _
    rw [hbic, List.getLast?_concat] at hc'
    cases hc'; cases hx'
  · intro x hx hxv hxs hx0 htx hpx
    have hxu : x ≠ u := by
      rintro rfl
      rw [hp] at hpx; simp at hpx
    rw [hp] at hpx
    simp only [hxu, if_false] at hpx
    obtain ⟨b, hb, hbx⟩ := bk.bcov x hx hxv hxs hx0 htx hpx
    rw [hsplit] at hb
    rcases List.mem_append.1 hb with h0 | h0
    · exact ⟨b, by rw [hbic]; exact List.mem_append.2 (.inl h0), hbx⟩
    · simp at h0; subst h0
      rw [hcu] at hbx; cases hbx; exact absurd rfl hxu
  · intro c hc hcv hcs hc0 hpc htc hlc
    exfalso
    have hcu' : c ≠ u := by
      rintro rfl
      rw [hp] at hpc; simp at hpc
    rw [hp] at hpc
    simp only [hcu', if_false] at hpc
    obtain ⟨cur', h1, h2⟩ := bk.bpend c hc hcv hcs hc0 hpc htc hlc
    rw [hcur] at h1; cases h1
    rw [hcu] at h2; cases h2
    exact hcu' rfl
  · intro h0
    have : (emitSt com st v u cur).toCheck = st.toCheck := rfl
    rw [this, hstk] at h0
    cases h0; exact absurd rfl hv0
  · obtain ⟨E, hE, hF⟩ := bk.out
    refine ⟨E ++ [sortInts ((cur ++ [v]).map fun x => com.getD x 0)], ?_, ?_⟩
    · show st.out ++ _ = _
      rw [hE, List.append_assoc]
    · refine List.rel_append (hF.imp hblk) (List.Forall₂.cons ?_ List.Forall₂.nil)
      apply hblk
      refine isBlk_of_list hinj ⟨hun, huv, hunot, hu0⟩ htu.symm hvn hvv ?_ ?_ (bk.bmem cur hcurm u hcu)
      · exact hnd2
      · intro hm
        exact (bk.mem_fin dt hcurm hm).2.2 hvs
  · intro c
    rw [List.mem_append, bk.csmem c, hp]
    by_cases hcu' : c = u
    · subst hcu'
      simp only [if_true, List.mem_singleton, or_true, true_iff]
      exact ⟨hun, huv, hu0, trivial⟩
    · simp only [hcu', if_false, List.mem_singleton, or_false]
      exact Iff.rfl
  · rw [List.nodup_append]
    refine ⟨bk.csnd, by simp, ?_⟩
    intro a ha b hb hab
    simp at hb
    subst hb; subst hab
    have := ((bk.csmem a).1 ha).2.2.2
    rw [hpu] at this; omega

end GDist
