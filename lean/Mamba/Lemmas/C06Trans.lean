import Mamba.Lemmas.C06Sparse2
/-! C06: `SplitEdge`, `Contract`. -/
namespace Construct
open GraphSpec


/-! ### SplitEdge, Contract in terms of the elementary edits -/

theorem splitEdge_key (g : G) (hg : g.WF) (i j : Nat) (hij : i ≠ j) (hi : i < g.n) (hj : j < g.n)
    (hadj : Nat → Nat → Bool) (hh : ∀ u v, hadj u v = (g.adj u v && !((u == i && v == j) || (u == j && v == i)))) :
    Families.addVertex ⟨g.n, hadj⟩ [i, j] = Families.splitEdge g i j := by
  refine G_ext (show _ = _ from rfl) ?_
  intro u v
  simp only [Families.addVertex, Families.splitEdge, Families.symm, hh]
  have hsym := hg.symm v u
  have hsupp := hg.supp u v
  have hirr := hg.irrefl u
  have hne : g.adj u v = true → u ≠ v := by
    intro ha e; subst e; rw [ha] at hirr; cases hirr
  rw [hsym, Bool.eq_iff_iff]
  by_cases ha : g.adj u v = true
  · have h1 := hsupp ha
    have h2 := hne ha
    simp [ha]
    omega
  · have ha' : g.adj u v = false := by simpa using ha
    simp [ha']
    omega

theorem splitEdge_ok (g : G) (hg : g.WF) (i j : Nat) (hij : i ≠ j) (hi : i < g.n) (hj : j < g.n) :
    splitEdge g i j = .ok (Families.splitEdge g i j) := by
  have hij' : (i == j) = false := by simp [hij]
  simp only [splitEdge, hij', Bool.false_eq_true, ↓reduceIte, Outcome.ok.injEq]
  exact splitEdge_key g hg i j hij hi hj _ (fun u v => rfl)

theorem splitEdge_rejects (g : G) (i : Nat) : splitEdge g i i = .panic := by simp [splitEdge]



theorem up_inj (j x y : Nat) : Families.up j x = Families.up j y ↔ x = y := by
  unfold Families.up; split <;> split <;> omega

theorem contract_any (g : G) (hg : g.WF) (i j u v : Nat) :
    ((g.nbrs j).any fun w => i != w && isPair i w u v) =
      ((u == i && g.adj j v && i != v) || (v == i && g.adj j u && i != u)) := by
  rw [Bool.eq_iff_iff]
  simp only [List.any_eq_true, G.nbrs, List.mem_filter, List.mem_range, Bool.and_eq_true, bne_iff_ne, ne_eq, isPair_iff,
    Bool.or_eq_true, beq_iff_eq]
  constructor
  · rintro ⟨w, ⟨_, hw⟩, hne, h⟩
    rcases h with ⟨rfl, rfl⟩ | ⟨rfl, rfl⟩
    · exact Or.inl ⟨⟨rfl, hw⟩, hne⟩
    · exact Or.inr ⟨⟨rfl, hw⟩, hne⟩
  · rintro (⟨⟨rfl, hw⟩, hne⟩ | ⟨⟨rfl, hw⟩, hne⟩)
    · exact ⟨v, ⟨(hg.supp j v hw).2, hw⟩, hne, Or.inl ⟨rfl, rfl⟩⟩
    · exact ⟨u, ⟨(hg.supp j u hw).2, hw⟩, hne, Or.inr ⟨rfl, rfl⟩⟩

theorem contract_key (g : G) (hg : g.WF) (i j : Nat)
    (hadj : Nat → Nat → Bool)
    (hh : ∀ u v, hadj u v = (g.adj u v || (g.nbrs j).any fun w => i != w && isPair i w u v)) :
    Families.removeVertex ⟨g.n, hadj⟩ j = Families.contract g i j := by
  refine G_ext (show _ = _ from rfl) ?_
  intro x y
  simp only [Families.removeVertex, Families.contract, Families.symm, hh, contract_any g hg]
  have hinj := up_inj j x y
  generalize Families.up j x = u at *
  generalize Families.up j y = v at *
  have hsym := hg.symm v u
  have hirr := hg.irrefl u
  have hne : g.adj u v = true → u ≠ v := by
    intro ha e; subst e; rw [ha] at hirr; cases hirr
  rw [hsym, Bool.eq_iff_iff]
  clear hsym hirr
  generalize g.adj u v = A at *
  generalize g.adj j v = B at *
  generalize g.adj j u = C at *
  cases A <;> cases B <;> cases C <;> simp at hne ⊢ <;> omega

theorem contract_ok (g : G) (hg : g.WF) (i j : Nat) (hi : i < g.n) :
    contract g i j = Families.contract g i j := by
  unfold contract
  have h1 : (g.nbrs j).foldl (fun h v => Families.addEdge h i v) g =
      ((g.nbrs j).map fun v => (i, v)).foldl (fun g p => Families.addEdge g p.1 p.2) g := by
    rw [List.foldl_map]
  rw [h1, foldl_addEdge _ g (by
    intro p hp
    simp only [List.mem_map, G.nbrs, List.mem_filter, List.mem_range] at hp
    obtain ⟨w, ⟨hw, _⟩, rfl⟩ := hp
    exact ⟨hi, hw⟩)]
  apply contract_key g hg i j
  intro u v
  simp only [List.any_map]
  rfl


/-- every family given as `symm n rel` is a well-formed abstract graph -/
theorem symm_wf (n : Nat) (rel : Nat → Nat → Bool) : (Families.symm n rel).WF where
  symm := by
    intro u v
    simp only [Families.symm]
    rw [Bool.or_comm (rel u v), bne_comm]
    cases (v != u) <;> cases decide (u < n) <;> cases decide (v < n) <;> simp
  irrefl := by intro v; simp [Families.symm]
  supp := by
    intro u v h
    simp only [Families.symm, Bool.and_eq_true, decide_eq_true_eq] at h
    exact ⟨h.1.1.2, h.1.2⟩

theorem bind_eq_ok' {α β : Type} {x : Outcome α} {f : α → Outcome β} {b : β} (h : (x >>= f) = .ok b) :
    ∃ a, x = .ok a ∧ f a = .ok b := by
  cases x with
  | ok a => exact ⟨a, rfl, h⟩
  | panic => cases h
  | outOfFuel => cases h

end Construct
