import Mamba.Lemmas.CanonSpecs2
/-! The exactness theorem for all `n`, from the oracle specification. -/
namespace Search
open GraphSpec GSearch

variable {O : Oracle} {n : Nat}

theorem iso_of_small {Y : G} (hY : Y.WF) {g : DG} (hn : Y.n = g.nv) (h1 : g.nv ≤ 1) : Iso Y g.toG := by
  refine ⟨hn, fun u => u, IsBij.id _, ?_⟩
  intro u v hu hv
  have hu0 : u = 0 := by omega
  have hv0 : v = 0 := by omega
  subst hu0; subst hv0
  rw [hY.irrefl, (toG_wf g).irrefl]

/-- `n ≤ 1`: the search yields the unique graph iff it has the property -/
theorem exact_small {P : G → Bool} (hP : Hereditary P) (hn : n < 2) (fuel lim : Nat) {outs : List DG} {t : State}
    (h : exhaust O (pruneOf P) noPrune fuel lim (init n 0 1) = .ok (outs, t)) :
    Transversal P n (outs.map DG.toG) := by
  have e := exhaust_small n 0 1 hn fuel lim h
  have hsn : (smallGraph n).nv = n := by
    unfold smallGraph
    rcases (by omega : n = 0 ∨ n = 1) with rfl | rfl <;> simp [DG.empty, K1, DG.single]
  simp only [beq_self_eq_true, Bool.true_and, noPrune, Bool.not_false, Bool.and_true] at e
  by_cases hp : pruneOf P (smallGraph n) = true
  · simp only [hp, Bool.not_true, Bool.false_eq_true, if_false] at e
    subst e
    refine ⟨by simp, by simp, by simp, ?_⟩
    intro Y hY hYn hPY
    exfalso
    have i := iso_of_small hY (hYn.trans hsn.symm) (by omega)
    have := hP.iso Y _ hY (toG_wf _) i hPY
    simp [pruneOf, this] at hp
  · have hp' : pruneOf P (smallGraph n) = false := by simpa using hp
    simp only [hp', Bool.not_false, if_true] at e
    subst e
    refine ⟨?_, ?_, ?_, ?_⟩
    · intro g hg; simp only [List.map_cons, List.map_nil, List.mem_singleton] at hg; subst hg; exact hsn
    · intro g hg; simp only [List.map_cons, List.map_nil, List.mem_singleton] at hg; subst hg
      simpa [pruneOf] using hp'
    · simp
    · intro Y hY hYn _
      exact ⟨_, by simp, iso_of_small hY (hYn.trans hsn.symm) (by omega)⟩

/-- **Canonical augmentation is exact** (model level): for every `n`, every oracle satisfying `OracleSpec` and every
hereditary, isomorphism-invariant property `P` supplied as `preprune` -/
theorem exact_of_oracle {P : G → Bool} (hO : OracleSpec O n) (hP : Hereditary P) (fuel lim : Nat) {outs : List DG}
    {t : State} (h : exhaust O (pruneOf P) noPrune fuel lim (init n 0 1) = .ok (outs, t)) :
    Transversal P n (outs.map DG.toG) := by
  by_cases hn : 2 ≤ n
  · exact exact_of_specs hP (specs_of_oracle hO hP (canonSpecs_of_oracle hO)) hn fuel lim h
  · exact exact_small hP (by omega) fuel lim h

/-- the oracle specification is consistent: for `n = 0` (nothing is ever asked) an oracle that never answers has it -/
theorem oracleSpec_zero : OracleSpec (fun _ _ _ _ => .panic) 0 := by
  have hpanic : ∀ (g : DG) (vb : Option Nat), getAut (fun _ _ _ _ => .panic) 0 g vb ≠ .ok none ∧
      ∀ a, getAut (fun _ _ _ _ => .panic) 0 g vb ≠ .ok (some a) := by
    intro g vb
    unfold getAut
    split
    · exact ⟨by simp, by simp⟩
    · split <;> exact ⟨by simp, by simp⟩
  have heq : ∀ (g : DG) (vb : Nat), Built g → getAut (fun _ _ _ _ => .panic) 0 g (some vb) =
      getAut (fun _ _ _ _ => .panic) 0 g none := by
    intro g vb hb
    have := hb.pos
    unfold getAut
    have : g.nv > 0 := by omega
    simp [this]
  refine ⟨?_, ?_, ?_, ?_, ?_, ?_, ?_, ?_, ?_⟩
  · intro g hb hle; have := hb.pos; omega
  · intro g a _ h; exact absurd h ((hpanic g none).2 a)
  · intro g h a b _ _ _ h1; exact absurd h1 ((hpanic g none).2 a)
  · intro g a _ h; exact absurd h ((hpanic g none).2 a)
  · intro g a _ h; exact absurd h ((hpanic g none).2 a)
  · intro g a _ h; exact absurd h ((hpanic g none).2 a)
  · intro g a _ h; exact absurd h ((hpanic g none).2 a)
  · intro g vb hb; exact Or.inr (heq g vb hb)
  · intro g a vb ds1 ds2 correct b _ h; exact absurd h (hpanic g (some vb)).1

end Search
