import Mamba.Lemmas.DistanceBiconStatic4
/-!
# Static theory: every connected vertex set without articulation vertex lies inside one block; blocks are not nested
-/
namespace GDist
open GraphSpec Model

variable {h : G} {st : BicSt} {tp : Nat → Nat}

/-- a vertex set that qualifies as (part of) a block: non-empty, connected, without articulation vertex -/
def BSet (h : G) (T : List Nat) : Prop :=
  T ≠ [] ∧ T.Nodup ∧ (∀ x ∈ T, x < h.n) ∧ (∀ x ∈ T, ∀ y ∈ T, ReachIn h T x y) ∧ ∀ v ∈ T, ¬ SepIn h T v

theorem exists_min_depth (st : BicSt) : ∀ (T : List Nat), T ≠ [] → ∃ r ∈ T, ∀ x ∈ T, dI st r ≤ dI st x
  | [], h0 => absurd rfl h0
  | [a], _ => ⟨a, List.mem_cons_self, fun x hx => by simp at hx; subst hx; exact Int.le_refl _⟩
  | a :: b :: t, _ => by
    obtain ⟨r, hr, hmin⟩ := exists_min_depth st (b :: t) (by simp)
    by_cases hle : dI st a ≤ dI st r
    · refine ⟨a, List.mem_cons_self, fun x hx => ?_⟩
      rcases List.mem_cons.1 hx with rfl | hx
      · exact Int.le_refl _
      · exact Int.le_trans hle (hmin x hx)
    · refine ⟨r, List.mem_cons_of_mem _ hr, fun x hx => ?_⟩
      rcases List.mem_cons.1 hx with rfl | hx
      · omega
      · exact hmin x hx

namespace DFinal
variable (df : DFinal h st tp)
include df

/-- walks avoiding `q` that start in the subtree of `w` stay there, when every edge leaving the subtree ends in `q` -/
theorem stay_below {q w : Nat} (V : List Nat) (hV : ∀ y ∈ V, y < h.n ∧ y ≠ q)
    (hexit : ∀ z u, z < h.n → Anc tp w z → h.adj z u = true → u < h.n → u ≠ q → Anc tp w u) {x : Nat}
    (hx : Anc tp w x) : ∀ u k, WalkIn h V x u k → Anc tp w u := by
  intro u k hw
  induction hw with
  | base _ => exact hx
  | @step a u k hwa hadj huV ih =>
    exact hexit a u (hV a hwa.mem_V).1 ih hadj (hV u huV).1 (hV u huV).2

/-- the subtree of a block-closing vertex `w` is left only through `tp w` -/
theorem ldr_exit {w : Nat} (hw : Ldr h st tp w) :
    ∀ z u, z < h.n → Anc tp w z → h.adj z u = true → u < h.n → u ≠ tp w → Anc tp w u := by
  intro z u hz hwz hadj hu huq
  have hwn := hw.1
  rcases df.exit_cases hwn hz hu hwz hadj with h1 | ⟨h1, h2⟩
  · exact h1
  · exfalso
    have hutz : u ≠ tp z := by
      intro h0
      by_cases hzw : z = w
      · subst hzw; exact huq h0
      · have := anc_parent_of_ne hwz hzw
        rw [← h0] at this
        exact h2 (df.dt.anc_antisymm hwn (df.hall w hwn) h1 this)
    have l1 := df.lob' hwn hz hu hwz hadj hutz
    have hp := df.parent_lt hwn hw.2.1
    have h3 : Anc tp u (tp w) := anc_parent_of_ne h1 (Ne.symm h2)
    have l2 := df.dt.anc_depth hp (df.hall _ hp) h3
    have := hw.2.2
    exact huq (df.anc_eq_of_depth hwn h1 (anc_of_parent rfl) (by omega))

/-- **every connected vertex set without articulation vertex lies inside one block** -/
theorem bset_in_block (hsym : ∀ u v, h.adj u v = h.adj v u) (hn2 : 1 < h.n) (T : List Nat) (hT : BSet h T) :
    ∃ l, Ldr h st tp l ∧ ∀ x ∈ T, InBlk st tp l x := by
  obtain ⟨hne, hnd, hTn, hconn, hnosep⟩ := hT
  obtain ⟨r, hrT, hmin⟩ := exists_min_depth st T hne
  have hrn := hTn r hrT
  -- every vertex of `T` is below `r`
  have hbelow : ∀ x ∈ T, Anc tp r x := by
    intro x hx
    obtain ⟨k, hk⟩ := hconn r hrT x hx
    have : ∀ u k, WalkIn h T r u k → Anc tp r u := by
      intro u k hw
      induction hw with
      | base _ => exact Anc.refl _ _
      | @step a u k hwa hadj huT ih =>
        have han := hTn a hwa.mem_V
        have hun := hTn u huT
        rcases df.dt.nocross a u han hun (df.hall a han) (df.hall u hun) hadj with h1 | h1
        · exact ih.trans h1
        · rcases anc_linear ih h1 with h2 | h2
          · exact h2
          · have l1 := df.dt.anc_depth hrn (df.hall r hrn) h2
            have l2 := hmin u huT
            have : u = r := df.anc_eq_of_depth han h1 ih (by omega)
            rw [this]; exact Anc.refl _ _
    exact this x k hk
  by_cases hall : ∀ x ∈ T, x = r
  · -- a single vertex
    by_cases hr0 : r = 0
    · subst hr0
      obtain ⟨c, hc1, hc2, hc3⟩ := anc_child (df.anc_root 1 hn2) (by omega : (1 : Nat) ≠ 0)
      have hcn := df.anc_n hn2 hc3
      refine ⟨c, df.child_root_ldr hcn hc2 hc1, fun x hx => ?_⟩
      rw [hall x hx]; exact .inl hc1.symm
    · obtain ⟨l, hl1, hl2⟩ := df.leader_of hrn hr0
      exact ⟨l, hl1, fun x hx => by rw [hall x hx]; exact .inr hl2⟩
  · have ⟨t, htT, htr⟩ : ∃ t ∈ T, t ≠ r := by
      by_contra hno
      apply hall
      intro x hx
      by_contra hxr
      exact hno ⟨x, hx, hxr⟩
    have htn := hTn t htT
    obtain ⟨c1, hc1, hc2, hc3⟩ := anc_child (hbelow t htT) htr
    have hc1n := df.anc_n htn hc3
    have hrc1 : Anc tp r c1 := anc_of_parent hc1
    have hc10 : c1 ≠ 0 := df.ne_zero_of_proper hrc1 hc2
    have hdc1 := df.depth_child hc1n hc10
    rw [hc1] at hdc1
    -- all the other vertices are below `c1`
    have hsub : ∀ x ∈ T, x ≠ r → Anc tp c1 x := by
      intro x hx hxr
      have hreach : ReachIn h (T.erase r) t x := by
        by_contra hnr
        exact hnosep r hrT ⟨t, x, (mem_erase_nodup hnd).2 ⟨htT, htr⟩, (mem_erase_nodup hnd).2 ⟨hx, hxr⟩,
          hconn t htT x hx, hnr⟩
      obtain ⟨k, hk⟩ := hreach
      have : ∀ u k, WalkIn h (T.erase r) t u k → Anc tp c1 u := by
        intro u k hw
        induction hw with
        | base _ => exact hc3
        | @step a u k hwa hadj huE ih =>
          obtain ⟨huT, hur⟩ := (mem_erase_nodup hnd).1 huE
          have han := hTn a (List.mem_of_mem_erase hwa.mem_V)
          have hun := hTn u huT
          rcases df.dt.nocross a u han hun (df.hall a han) (df.hall u hun) hadj with h1 | h1
          · exact ih.trans h1
          · rcases anc_linear ih h1 with h2 | h2
            · exact h2
            · by_cases huc : u = c1
              · rw [huc]; exact Anc.refl _ _
              · exfalso
                have l1 := df.anc_lt hc1n h2 huc
                have l2 := df.anc_lt hun (hbelow u huT) (Ne.symm hur)
                omega
      exact this x k hk
    obtain ⟨l, hl1, hl2⟩ := df.leader_of hc1n hc10
    have hlr : InBlk st tp l r := by
      by_cases hlc : l = c1
      · subst hlc; exact .inl hc1.symm
      · right
        have := anc_parent_of_ne hl2.1 (Ne.symm hlc)
        rw [hc1] at this
        exact hl2.pre this hrc1
    refine ⟨l, hl1, fun x hx => ?_⟩
    by_cases hxr : x = r
    · rw [hxr]; exact hlr
    · right
      have hxn := hTn x hx
      have hc1x := hsub x hx hxr
      refine ⟨hl2.1.trans hc1x, ?_⟩
      intro w hw1 hw2 hwl
      rcases anc_linear hw2 hc1x with h1 | h1
      · exact hl2.2 w hw1 h1 hwl
      · by_cases hwc : w = c1
        · subst hwc; exact hl2.2 w hw1 (Anc.refl _ _) hwl
        · by_contra hge
          have hwn := df.anc_n hxn hw2
          have hw0 : w ≠ 0 := df.ne_zero_of_proper h1 hwc
          have hwL : Ldr h st tp w := ⟨hwn, hw0, by omega⟩
          have hq := df.parent_lt hwn hw0
          have hc1q : Anc tp c1 (tp w) := anc_parent_of_ne h1 hwc
          have hdq := df.dt.anc_depth hq (df.hall _ hq) hc1q
          have hdw := df.depth_child hwn hw0
          have hqr : r ≠ tp w := by
            intro h0; rw [← h0] at hdq; omega
          have hxq : x ≠ tp w := by
            intro h0
            have := df.dt.anc_depth hxn (df.hall x hxn) hw2
            rw [h0] at this; omega
          -- a walk from `x` to `r` avoiding `tp w`
          have hwalk : ∃ V : List Nat, (∀ y ∈ V, y < h.n ∧ y ≠ tp w) ∧ ReachIn h V x r := by
            by_cases hqT : tp w ∈ T
            · refine ⟨T.erase (tp w), fun y hy => ?_, ?_⟩
              · obtain ⟨h1', h2'⟩ := (mem_erase_nodup hnd).1 hy
                exact ⟨hTn y h1', h2'⟩
              · by_contra hnr
                exact hnosep (tp w) hqT ⟨x, r, (mem_erase_nodup hnd).2 ⟨hx, hxq⟩,
                  (mem_erase_nodup hnd).2 ⟨hrT, hqr⟩, hconn x hx r hrT, hnr⟩
            · exact ⟨T, fun y hy => ⟨hTn y hy, fun h0 => hqT (h0 ▸ hy)⟩, hconn x hx r hrT⟩
          obtain ⟨V, hV, k, hk⟩ := hwalk
          have hwr := df.stay_below V hV (df.ldr_exit hwL) hw2 r k hk
          have := df.dt.anc_depth hrn (df.hall r hrn) hwr
          have := df.dt.anc_depth hwn (df.hall w hwn) h1
          have := df.anc_lt hwn h1 (Ne.symm hwc)
          omega

/-- **blocks are not nested** -/
theorem block_not_nested {l l' : Nat} (hl : Ldr h st tp l) (hl' : Ldr h st tp l')
    (hsub : ∀ x, x < h.n → InBlk st tp l x → InBlk st tp l' x) : l = l' := by
  have hln := hl.1
  have hp := df.parent_lt hln hl.2.1
  rcases hsub l hln (.inr (NL.refl df.dt hln (df.hall l hln))) with h0 | h0
  · exfalso
    rcases hsub (tp l) hp (.inl rfl) with h1 | h1
    · have := df.depth_child hln hl.2.1
      rw [h1, ← h0] at this; omega
    · have h2 : Anc tp l l' := by rw [h0]; exact anc_of_parent rfl
      have h3 := h2.trans h1.1
      have := df.dt.anc_depth hp (df.hall _ hp) h3
      have := df.depth_child hln hl.2.1
      omega
  · exact df.leader_unique hln hl hl' (NL.refl df.dt hln (df.hall l hln)) h0

end DFinal
end GDist
