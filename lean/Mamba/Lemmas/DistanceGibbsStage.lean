import Mamba.Lemmas.DistanceEvenSpan
/-!
# Gibbs' selection: one stage
-/
namespace GDist
open GraphSpec Model

variable {a : G}

theorem sXor_length {s t : List Nat} (hs : s.Pairwise (· < ·)) (ht : t.Pairwise (· < ·)) :
    (sXor s t).length + 2 * (s.filter fun x => decide (x ∈ t)).length = s.length + t.length := by
  obtain ⟨h1, h2⟩ := sXor_spec s t hs ht
  have n1 : (sXor s t).Nodup := h1.imp (fun h => Nat.ne_of_lt h)
  have ns : s.Nodup := hs.imp (fun h => Nat.ne_of_lt h)
  have nt : t.Nodup := ht.imp (fun h => Nat.ne_of_lt h)
  have e1 : s.length = (s.filter fun x => decide (x ∈ t)).length + (s.filter fun x => !decide (x ∈ t)).length :=
    (List.filter_append_perm (fun x => decide (x ∈ t)) s).length_eq.symm.trans (by simp)
  have e2 : t.length = (t.filter fun x => decide (x ∈ s)).length + (t.filter fun x => !decide (x ∈ s)).length :=
    (List.filter_append_perm (fun x => decide (x ∈ s)) t).length_eq.symm.trans (by simp)
  have e3 : (s.filter fun x => decide (x ∈ t)).length = (t.filter fun x => decide (x ∈ s)).length := by
    apply List.Perm.length_eq
    rw [List.perm_ext_iff_of_nodup (ns.filter _) (nt.filter _)]
    intro x; simp [List.mem_filter, and_comm]
  have e4 : (sXor s t).length
      = (s.filter fun x => !decide (x ∈ t)).length + (t.filter fun x => !decide (x ∈ s)).length := by
    have n2 : ((s.filter fun x => !decide (x ∈ t)) ++ (t.filter fun x => !decide (x ∈ s))).Nodup := by
      rw [List.nodup_append]
      refine ⟨ns.filter _, nt.filter _, ?_⟩
      intro a ha b hb hab
      subst hab
      have h1' := (List.mem_filter.1 ha)
      have h2' := (List.mem_filter.1 hb)
      simp at h1' h2'
      exact h1'.2 h2'.1
    have := ((List.perm_ext_iff_of_nodup n1 n2).2 (fun x => by
      rw [h2 x, List.mem_append, List.mem_filter, List.mem_filter]
      simp only [Bool.not_eq_true', decide_eq_false_iff_not]
      exact ⟨fun h => h.elim .inl (fun h => .inr ⟨h.2, h.1⟩), fun h => h.elim .inl (fun h => .inr ⟨h.2, h.1⟩)⟩)).length_eq
    simpa using this
  omega

theorem gibbs_stage {st : PatonSt} {nt : List (Nat × Nat)} (F : PFinal a st nt)
    (hsym : ∀ u v, a.adj u v = a.adj v u) (hirr : ∀ v, a.adj v v = false)
    {Fp rest : List (List Nat)} {fc : List Nat} (hfund : st.fund = Fp ++ fc :: rest)
    {Q : List (List Nat)} (hq : QInv Fp Q) (hqe : ∀ t ∈ Q, EvenSet a.n t) {R0 : List (List Nat)}
    (hR0 : ∀ V, V ∈ R0 ↔ ∃ t ∈ Q, V = sXor t fc ∧ (sXor t fc).length ≠ t.length + fc.length) :
    (∀ V ∈ R0, V.Pairwise (· < ·)) ∧ ∀ V ∈ R0, ∃ W ∈ R0, IsCycCode a W ∧ ∀ x ∈ W, x ∈ V := by
  obtain ⟨hlen, hZ1, hZ2, hleft, hright, hfnd⟩ := zip_facts F hsym hirr
  have hfcm : fc ∈ st.fund := by rw [hfund]; simp
  have hFpsub : ∀ f ∈ Fp, f ∈ st.fund := fun f hf => by rw [hfund]; exact List.mem_append.2 (.inl hf)
  have hfcc : IsCycCode a fc := F.o.fund fc hfcm
  have hfcs := isCycCode_strict hfcc
  have hfce := isCycCode_even hfcc
  rw [hfund] at hfnd
  have hfcFp : fc ∉ Fp := fun h => (List.nodup_append.1 hfnd).2.2 fc h fc (by simp) rfl
  have hrestFp : ∀ f ∈ rest, f ∉ Fp ∧ f ≠ fc := by
    intro f hf
    refine ⟨fun h => (List.nodup_append.1 hfnd).2.2 f h f (List.mem_cons_of_mem _ hf) rfl, ?_⟩
    have := (List.nodup_cons.1 (List.nodup_append.1 hfnd).2.1).1
    intro h; exact this (h ▸ hf)
  -- the private non-tree edge of `fc`
  have hpair : ∀ f ∈ st.fund, ∃ ε, (f, ε) ∈ st.fund.zip nt := by
    intro f hf
    rw [← hZ1] at hf
    obtain ⟨p, hp, rfl⟩ := List.mem_map.1 hf
    exact ⟨p.2, hp⟩
  obtain ⟨ε, hε⟩ := hpair fc hfcm
  have hεnt : ε ∈ nt := (List.of_mem_zip hε).2
  have hRfc : FundOf a st.T fc ε := (List.forall₂_iff_zip.1 F.pi.fnt).2 hε
  obtain ⟨hp, hq', hadjε, _, _⟩ := F.pc.rin ε (F.pi.ntrm ε hεnt)
  have hpq : ε.1 ≠ ε.2 := by
    intro h0; rw [h0, hirr] at hadjε; cases hadjε
  -- a private code lying in a fundamental cycle identifies it
  have hpriv : ∀ f ε', (f, ε') ∈ st.fund.zip nt → ∀ f2 ∈ st.fund, edgeCode ε'.1 ε'.2 ∈ f2 → f2 = f := by
    intro f ε' hfε' f2 hf2 hin
    obtain ⟨ε2, hε2⟩ := hpair f2 hf2
    have := (fund_private F hsym hirr hε2 (List.of_mem_zip hfε').2).1 hin
    subst this
    exact hleft f2 ε' f hε2 hfε'
  constructor
  · intro V hV
    obtain ⟨t, ht, rfl, _⟩ := (hR0 V).1 hV
    obtain ⟨I, _, _, hIt⟩ := hq.sound t ht
    exact (sXor_spec t fc hIt.1 hfcs).1
  · intro V hV
    obtain ⟨t, ht, rfl, hcond⟩ := (hR0 V).1 hV
    obtain ⟨I, hI0, hIsub, hIt⟩ := hq.sound t ht
    obtain ⟨hVs, hVm⟩ := sXor_spec t fc hIt.1 hfcs
    have hVe : EvenSet a.n (sXor t fc) := even_sXor (hqe t ht) hfce
    -- codes of `t` come from the cycles of `I`
    have htI : ∀ x ∈ t, ∃ f ∈ I, x ∈ f := by
      intro x hx
      have hodd := (hIt.2 x).1 hx
      have hpos : 0 < occ I x := by omega
      unfold occ at hpos
      rw [List.countP_pos_iff] at hpos
      obtain ⟨f, hf, hxf⟩ := hpos
      exact ⟨f, hf, by simpa using hxf⟩
    -- the private edge of `fc` is not in `t`, hence it is in `V`
    have heV : edgeCode ε.1 ε.2 ∈ sXor t fc := by
      rw [hVm]
      right
      refine ⟨fun hx => ?_, hRfc.1⟩
      obtain ⟨f, hf, hxf⟩ := htI _ hx
      have := hpriv fc ε hε f (hFpsub f (hIsub.subset hf)) hxf
      exact hfcFp (this ▸ hIsub.subset hf)
    -- a cycle through it inside `V`
    obtain ⟨c, hclen, hcnd, hcn, _, _, hcsub, hcin⟩ :=
      even_edge_on_cycle (hVs.imp (fun h => Nat.ne_of_lt h)) hVe hp hq' hpq heV
    -- the codes of `V` are codes of edges of the block
    have hVedge : ∀ z ∈ sXor t fc, ∃ p q, p < a.n ∧ q < a.n ∧ a.adj p q = true ∧ z = edgeCode p q := by
      intro z hz
      rcases sXor_subset t fc z hz with h | h
      · obtain ⟨f, hf, hzf⟩ := htI z h
        exact cycCode_edges hsym (F.o.fund f (hFpsub f (hIsub.subset hf))) z hzf
      · exact cycCode_edges hsym hfcc z h
    have hadjV : ∀ x y, (codeG a.n (sXor t fc)).adj x y = true → a.adj x y = true := by
      intro x y hxy
      obtain ⟨hne, _, _, hin⟩ := codeG_adj.1 hxy
      obtain ⟨p, q, _, _, hpqa, hz⟩ := hVedge _ hin
      have hpq' : p ≠ q := by intro h0; rw [h0, hirr] at hpqa; cases hpqa
      rcases normE_eq (edgeCode_inj (e := (x, y)) (e' := (p, q)) hne hpq' hz) with h | h
      · rw [h.1, h.2]; exact hpqa
      · rw [h.1, h.2, hsym]; exact hpqa
    obtain ⟨_, _, _, hch, hcl⟩ := isCycleSeq_of_codes hclen hcnd hcn hcsub
    have hcyc : IsCycleSeq a c := ⟨hclen, hcnd, hcn, chainAdj_graph_mono hadjV c hch, hadjV _ _ hcl⟩
    have hW : IsCycCode a (sortInts (cycCodes c)) := ⟨c, hcyc, rfl⟩
    have hWsub : ∀ x ∈ sortInts (cycCodes c), x ∈ sXor t fc := fun x hx => hcsub x (mem_sortInts.1 hx)
    have heW : edgeCode ε.1 ε.2 ∈ sortInts (cycCodes c) := mem_sortInts.2 hcin
    refine ⟨_, ?_, hW, hWsub⟩
    -- `W` is an element of `R0`
    have hWne : sortInts (cycCodes c) ≠ [] := List.ne_nil_of_mem heW
    obtain ⟨IW, hIW0, hIWsub, hIWx, hIWm⟩ := even_span F hsym hirr (isCycCode_strict hW) (isCycCode_even hW) hWne
      (fun x hx => by
        obtain ⟨p, q, hp', hq'', hadj, hz⟩ := cycCode_edges hsym hW x hx
        rw [hz]; exact edge_class F hsym hirr hp' hq'' hadj)
    have hfcIW : fc ∈ IW := (hIWm fc ε hε).2 heW
    have hIWin : ∀ f ∈ IW, f ∈ Fp ∨ f = fc := by
      intro f hf
      obtain ⟨ε', hε'⟩ := hpair f (hIWsub.subset hf)
      have hin := hWsub _ ((hIWm f ε' hε').1 hf)
      rcases sXor_subset t fc _ hin with h | h
      · obtain ⟨f2, hf2, hzf2⟩ := htI _ h
        have := hpriv f ε' hε' f2 (hFpsub f2 (hIsub.subset hf2)) hzf2
        exact .inl (this ▸ hIsub.subset hf2)
      · exact .inr (hpriv f ε' hε' fc hfcm h).symm
    -- split `IW` into its part in `Fp` and `[fc]`
    rw [hfund] at hIWsub
    obtain ⟨I1, I2, rfl, hI1, hI2⟩ := List.sublist_append_iff.1 hIWsub
    have hI2eq : I2 = [fc] := by
      have hall : ∀ f ∈ I2, f = fc := by
        intro f hf
        rcases hIWin f (List.mem_append.2 (.inr hf)) with h | h
        · exfalso
          rcases List.mem_cons.1 (hI2.subset hf) with h0 | h0
          · exact hfcFp (h0 ▸ h)
          · exact (hrestFp f h0).1 h
        · exact h
      have hnd2 : I2.Nodup := (List.nodup_append.1 hfnd).2.1.sublist hI2
      have hmem : fc ∈ I2 := by
        rcases List.mem_append.1 hfcIW with h | h
        · exact absurd (hI1.subset h) hfcFp
        · exact h
      match I2, hall, hnd2, hmem with
      | [x], hall, _, _ => rw [hall x (by simp)]
      | x :: y :: r, hall, hnd2, _ =>
        exfalso
        have h1 := hall x (by simp)
        have h2 := hall y (by simp)
        rw [List.nodup_cons] at hnd2
        exact hnd2.1 (by rw [h1, ← h2]; simp)
    subst hI2eq
    -- `fc ⊆ V` is impossible
    have hnotsub : ∀ s, s.Pairwise (· < ·) → (sXor s fc).length ≠ s.length + fc.length →
        ¬ ∀ x ∈ fc, x ∈ sXor s fc := by
      intro s hs hc hsubfc
      exact hc (sXor_length_disjoint hs hfcs (disjoint_of_sub_sXor hs hfcs hsubfc))
    have hI10 : I1 ≠ [] := by
      intro h0; subst h0
      have : sortInts (cycCodes c) = fc := isXorOf_ext hIWx (by simpa using isXorOf_single hfcs)
      exact hnotsub t hIt.1 hcond (fun x hx => hWsub x (this ▸ hx))
    obtain ⟨t', ht'Q, ht'x⟩ := hq.complete I1 hI10 hI1
    have hWeq : sortInts (cycCodes c) = sXor t' fc := isXorOf_ext hIWx (isXorOf_snoc ht'x hfcs)
    rw [hR0]
    refine ⟨t', ht'Q, hWeq, ?_⟩
    intro hlen'
    have hdisj : ∀ x ∈ fc, x ∈ sXor t' fc := by
      intro x hx
      have hl := sXor_length ht'x.1 hfcs
      have hz : (t'.filter fun y => decide (y ∈ fc)).length = 0 := by omega
      have hxt' : x ∉ t' := fun h => by
        have : x ∈ t'.filter fun y => decide (y ∈ fc) := List.mem_filter.2 ⟨h, by simpa using hx⟩
        rw [List.length_eq_zero_iff.1 hz] at this; cases this
      exact ((sXor_spec t' fc ht'x.1 hfcs).2 x).2 (.inr ⟨hxt', hx⟩)
    exact hnotsub t hIt.1 hcond (fun x hx => hWsub x (hWeq ▸ hdisj x hx))

end GDist
