import Mamba.Lemmas.DistanceICycles2
/-!
# Lemmas for C10: rooted directed induced cycle sequences = induced paths + closing vertices
-/
namespace GDist
open GraphSpec

/-- the vertices that close the (reversed) induced path `p` to an induced cycle: adjacent to both ends, not on the
path, not adjacent to an interior vertex -/
def closers (g : G) (p : List Nat) : List Nat :=
  (List.range g.n).filter fun w =>
    g.adj (p.headD 0) w && g.adj (p.getLastD 0) w && !p.contains w && p.tail.dropLast.all fun y => !g.adj y w

theorem mem_closers {g : G} {p : List Nat} {w : Nat} :
    w ∈ closers g p ↔ (w < g.n ∧ g.adj (p.headD 0) w = true ∧ g.adj (p.getLastD 0) w = true ∧ w ∉ p ∧
      ∀ y ∈ p.tail.dropLast, g.adj y w = false) := by
  simp [closers, List.mem_filter, and_assoc]

/-- all rooted directed induced cycle sequences with `c` vertices -/
def allIndCycleSeqs (g : G) (c : Nat) : List (List Nat) :=
  (allInducedPaths g (c - 2)).flatMap fun p => (closers g p).map (· :: p)

variable {g : G}

theorem mem_allIndCycleSeqs (hsym : ∀ u v, g.adj u v = g.adj v u) {c : Nat} (hc : 3 ≤ c) {q : List Nat} :
    q ∈ allIndCycleSeqs g c ↔ IsIndCycleSeq g c q := by
  simp only [allIndCycleSeqs, List.mem_flatMap, List.mem_map]
  constructor
  · rintro ⟨p, hp, w, hw, rfl⟩
    obtain ⟨hlen, hnd, hrng, hchain, hch⟩ := mem_allInducedPaths.1 hp
    obtain ⟨hwn, h1, h2, h3, h4⟩ := mem_closers.1 hw
    have hne : p ≠ [] := by intro h; rw [h] at hlen; simp at hlen
    obtain ⟨a, t, rfl⟩ := List.exists_cons_of_ne_nil hne
    refine ⟨⟨by simp at hlen ⊢; omega, List.nodup_cons.2 ⟨h3, hnd⟩, ?_, ⟨h1, hchain⟩, ?_⟩, ?_, by simp at hlen ⊢; omega⟩
    · intro x hx
      rcases List.mem_cons.1 hx with rfl | hx
      · exact hwn
      · exact hrng x hx
    · have : (w :: a :: t).getLastD 0 = (a :: t).getLastD 0 := by
        rw [List.getLastD_eq_getLast?, List.getLastD_eq_getLast?, List.getLast?_cons_cons]
      rw [this, List.headD_cons, hsym]; exact h2
    · simp only [chordlessCyc, Bool.and_eq_true, List.all_eq_true, Bool.not_eq_true']
      exact ⟨fun y hy => by rw [hsym]; exact h4 y hy, hch⟩
  · rintro ⟨⟨h1, h2, h3, h4, h5⟩, hch, hlen⟩
    have hne : q ≠ [] := by intro h; rw [h] at h1; simp at h1
    obtain ⟨w, p, rfl⟩ := List.exists_cons_of_ne_nil hne
    have hpne : p ≠ [] := by intro h; rw [h] at h1; simp at h1
    obtain ⟨a, t, rfl⟩ := List.exists_cons_of_ne_nil hpne
    simp only [chordlessCyc, Bool.and_eq_true, List.all_eq_true, Bool.not_eq_true'] at hch
    obtain ⟨hnd1, hnd2⟩ := List.nodup_cons.1 h2
    refine ⟨a :: t, mem_allInducedPaths.2 ⟨by simp at hlen ⊢; omega, hnd2,
      fun x hx => h3 x (List.mem_cons_of_mem _ hx), h4.2, hch.2⟩, w, mem_closers.2 ⟨h3 w List.mem_cons_self, h4.1, ?_, hnd1, ?_⟩, rfl⟩
    · have : (w :: a :: t).getLastD 0 = (a :: t).getLastD 0 := by
        rw [List.getLastD_eq_getLast?, List.getLastD_eq_getLast?, List.getLast?_cons_cons]
      rw [this, List.headD_cons] at h5
      rw [hsym]; exact h5
    · intro y hy
      rw [hsym]; exact hch.1 y hy

theorem nodup_allIndCycleSeqs (c : Nat) : (allIndCycleSeqs g c).Nodup := by
  unfold allIndCycleSeqs
  rw [List.nodup_flatMap]
  constructor
  · intro p _
    apply List.Nodup.map
    · intro a b hab; simpa using hab
    · exact List.nodup_range.filter _
  · refine List.Pairwise.imp ?_ (nodup_allInducedPaths (c - 2))
    intro p p' hne
    simp only [Function.onFun]
    rw [List.disjoint_left]
    intro q hq hq'
    obtain ⟨w, _, rfl⟩ := List.mem_map.1 hq
    obtain ⟨w', _, h⟩ := List.mem_map.1 hq'
    simp at h
    exact hne h.2.symm

/-- `Σ_p |closers p|` over the directed induced paths with `c-1` vertices is `2c` times the number of induced
cycles with `c` vertices -/
theorem closers_sum (hsym : ∀ u v, g.adj u v = g.adj v u) {c : Nat} (hc : 3 ≤ c) :
    ((allInducedPaths g (c - 2)).map fun p => (closers g p).length).sum = 2 * c * numInducedCycles g c := by
  rw [← indCycleSeq_count hsym c (nodup_allIndCycleSeqs c) (fun q => mem_allIndCycleSeqs hsym hc)]
  unfold allIndCycleSeqs
  rw [length_flatMap_sum]
  congr 1
  apply List.map_congr_left
  intro p _
  simp

end GDist
