import Mamba.Lemmas.DistanceComp
import Mamba.Model.Components
/-!
# Lemmas for C10: the flood fill of `ConnectedComponent(s)` (unseen array with swap-remove, toCheck stack)
-/
namespace GDist
open GraphSpec

/-- the array has no repeated entry -/
def InjA (U : Array Nat) : Prop := ∀ a b (ha : a < U.size) (hb : b < U.size), U[a] = U[b] → a = b

open Model (swapRemove)

theorem swapRemove_size (U : Array Nat) (i : Nat) (h : i < U.size) : (swapRemove U i h).size = U.size - 1 := by
  simp [swapRemove]

theorem swapRemove_getElem (U : Array Nat) (i : Nat) (h : i < U.size) (idx : Nat) (hidx : idx < U.size - 1) :
    (swapRemove U i h)[idx]'(by rw [swapRemove_size]; exact hidx) =
      if idx = i then U[U.size - 1]'(by omega) else U[idx]'(by omega) := by
  simp only [Model.swapRemove, Array.getElem_pop]
  rw [Array.getElem_set]
  by_cases hc : i = idx
  · simp [hc]
  · have : ¬ idx = i := fun h => hc h.symm
    simp [hc, this]

theorem mem_swapRemove {U : Array Nat} (hinj : InjA U) (i : Nat) (h : i < U.size) (x : Nat) :
    x ∈ swapRemove U i h ↔ (x ∈ U ∧ x ≠ U[i]) := by
  rw [Array.mem_iff_getElem, Array.mem_iff_getElem]
  constructor
  · rintro ⟨idx, hidx, rfl⟩
    have hidx' : idx < U.size - 1 := by rw [swapRemove_size] at hidx; exact hidx
    rw [swapRemove_getElem U i h idx hidx']
    by_cases hc : idx = i
    · simp only [hc, if_true]
      refine ⟨⟨U.size - 1, by omega, rfl⟩, ?_⟩
      intro heq
      have := hinj _ _ (by omega) h heq
      omega
    · simp only [hc, if_false]
      refine ⟨⟨idx, by omega, rfl⟩, ?_⟩
      intro heq
      exact hc (hinj _ _ (by omega) h heq)
  · rintro ⟨⟨a, ha, rfl⟩, hne⟩
    have hai : a ≠ i := by rintro rfl; exact hne rfl
    by_cases hlast : a = U.size - 1
    · refine ⟨i, by rw [swapRemove_size]; omega, ?_⟩
      rw [swapRemove_getElem U i h i (by omega)]
      simp [hlast]
    · refine ⟨a, by rw [swapRemove_size]; omega, ?_⟩
      rw [swapRemove_getElem U i h a (by omega)]
      simp [hai]

theorem injA_swapRemove {U : Array Nat} (hinj : InjA U) (i : Nat) (h : i < U.size) : InjA (swapRemove U i h) := by
  intro a b ha hb heq
  have ha' : a < U.size - 1 := by rw [swapRemove_size] at ha; exact ha
  have hb' : b < U.size - 1 := by rw [swapRemove_size] at hb; exact hb
  rw [swapRemove_getElem U i h a ha', swapRemove_getElem U i h b hb'] at heq
  by_cases h1 : a = i <;> by_cases h2 : b = i
  · omega
  · simp only [h1, if_true, h2, if_false] at heq
    have := hinj _ _ (by omega) (by omega) heq
    omega
  · simp only [h1, if_false, h2, if_true] at heq
    have := hinj _ _ (by omega) (by omega) heq
    omega
  · simp only [h1, if_false, h2] at heq
    exact hinj _ _ (by omega) (by omega) heq

theorem injA_range (n : Nat) : InjA (Array.range n) := by
  intro a b ha hb h
  simpa using h

theorem mem_pop_iff {U : Array Nat} (hinj : InjA U) (h : 0 < U.size) (x : Nat) :
    x ∈ U.pop ↔ (x ∈ U ∧ x ≠ U[U.size - 1]) := by
  rw [Array.mem_iff_getElem, Array.mem_iff_getElem]
  constructor
  · rintro ⟨idx, hidx, rfl⟩
    have hidx' : idx < U.size - 1 := by simpa using hidx
    rw [Array.getElem_pop]
    refine ⟨⟨idx, by omega, rfl⟩, ?_⟩
    intro heq
    have := hinj _ _ (by omega) (by omega) heq
    omega
  · rintro ⟨⟨a, ha, rfl⟩, hne⟩
    have : a ≠ U.size - 1 := by rintro rfl; exact hne rfl
    exact ⟨a, by simp; omega, by rw [Array.getElem_pop]⟩

theorem injA_pop {U : Array Nat} (hinj : InjA U) : InjA U.pop := by
  intro a b ha hb heq
  have ha' : a < U.size - 1 := by simpa using ha
  have hb' : b < U.size - 1 := by simpa using hb
  rw [Array.getElem_pop, Array.getElem_pop] at heq
  exact hinj _ _ (by omega) (by omega) heq

/-- invariant of the flood fill inside a vertex set `C` that is closed under adjacency -/
structure FF (g : G) (C : Nat → Prop) (v : Nat) (U : Array Nat) (T S : List Nat) : Prop where
  injU : InjA U
  ndS : S.Nodup
  disj : ∀ x, x ∈ S → x ∉ U
  cover : ∀ x, (x ∈ S ∨ x ∈ U) ↔ C x
  tsub : ∀ x ∈ T, x ∈ S
  reach : ∀ s ∈ S, Reach g v s
  vS : v ∈ S
  done : ∀ s ∈ S, s ∉ T → ∀ w, g.adj s w = true → w < g.n → w ∈ S

variable {g : G} {C : Nat → Prop} {v : Nat}

theorem ccScan_spec (hCn : ∀ x, C x → x < g.n) {u : Nat} :
    ∀ (i : Nat) (U : Array Nat) (T S : List Nat), i ≤ U.size → FF g C v U (u :: T) S →
      (∀ idx (h : idx < U.size), i ≤ idx → g.adj u U[idx] = false) →
      ∃ U' T' S', Model.ccScan g u i U T S = .ok (U', T', S') ∧ FF g C v U' (u :: T') S' ∧
        (∀ idx (h : idx < U'.size), g.adj u U'[idx] = false) ∧
        T'.length + U'.size = T.length + U.size := by
  intro i
  induction i with
  | zero =>
    intro U T S _ ff hP
    exact ⟨U, T, S, rfl, ff, fun idx h => hP idx h (Nat.zero_le _), rfl⟩
  | succ i ih =>
    intro U T S hi ff hP
    have hiU : i < U.size := by omega
    unfold Model.ccScan
    simp only [hiU, dif_pos]
    by_cases hadj : g.adj u U[i] = true
    · simp only [hadj, if_true]
      have hwU : U[i] ∈ U := Array.getElem_mem hiU
      have hwC : C U[i] := (ff.cover _).1 (.inr hwU)
      have hwS : U[i] ∉ S := fun h => ff.disj _ h hwU
      have huS : u ∈ S := ff.tsub u List.mem_cons_self
      have ff' : FF g C v (swapRemove U i hiU) (u :: U[i] :: T) (S ++ [U[i]]) := by
        refine { injU := injA_swapRemove ff.injU i hiU, ndS := ?_, disj := ?_, cover := ?_, tsub := ?_,
                 reach := ?_, vS := List.mem_append.2 (.inl ff.vS), done := ?_ }
        · rw [List.nodup_append]
          refine ⟨ff.ndS, by simp, ?_⟩
          intro a ha b hb
          simp at hb; subst hb
          rintro rfl; exact hwS ha
        · intro x hx hxU
          rw [mem_swapRemove ff.injU] at hxU
          rcases List.mem_append.1 hx with hx | hx
          · exact ff.disj x hx hxU.1
          · simp at hx; exact hxU.2 hx
        · intro x
          rw [mem_swapRemove ff.injU, ← ff.cover x, List.mem_append]
          constructor
          · rintro ((h | h) | ⟨h, _⟩)
            · exact .inl h
            · simp at h; subst h; exact .inr hwU
            · exact .inr h
          · rintro (h | h)
            · exact .inl (.inl h)
            · by_cases hx : x = U[i]
              · exact .inl (.inr (by simp [hx]))
              · exact .inr ⟨h, hx⟩
        · intro x hx
          rcases List.mem_cons.1 hx with rfl | hx
          · exact List.mem_append.2 (.inl huS)
          · rcases List.mem_cons.1 hx with rfl | hx
            · exact List.mem_append.2 (.inr (by simp))
            · exact List.mem_append.2 (.inl (ff.tsub x (List.mem_cons_of_mem _ hx)))
        · intro s hs
          rcases List.mem_append.1 hs with hs | hs
          · exact ff.reach s hs
          · simp at hs; subst hs
            obtain ⟨k, hk⟩ := ff.reach u huS
            exact ⟨k + 1, .step hk hadj (List.mem_range.2 (hCn _ hwC))⟩
        · intro s hs hsT w hadj' hw
          have hsne : s ≠ U[i] := fun h => hsT (by simp [h])
          have hs' : s ∈ S := by
            rcases List.mem_append.1 hs with hs | hs
            · exact hs
            · simp at hs; exact absurd hs hsne
          have hsT' : s ∉ u :: T := by
            intro h
            rcases List.mem_cons.1 h with h | h
            · exact hsT (by simp [h])
            · exact hsT (by simp [h])
          exact List.mem_append.2 (.inl (ff.done s hs' hsT' w hadj' hw))
      have hP' : ∀ idx (h : idx < (swapRemove U i hiU).size), i ≤ idx →
          g.adj u (swapRemove U i hiU)[idx] = false := by
        intro idx h hle
        have hidx : idx < U.size - 1 := by rw [swapRemove_size] at h; exact h
        rw [swapRemove_getElem U i hiU idx hidx]
        by_cases hc : idx = i
        · simp only [hc, if_true]
          exact hP _ (by omega) (by omega)
        · simp only [hc, if_false]
          exact hP _ (by omega) (by omega)
      obtain ⟨U', T', S', e, ff'', hP'', hlen⟩ := ih (swapRemove U i hiU) (U[i] :: T) (S ++ [U[i]])
        (by rw [swapRemove_size]; omega) ff' hP'
      refine ⟨U', T', S', e, ff'', hP'', ?_⟩
      rw [hlen, swapRemove_size]
      simp only [List.length_cons]
      omega
    · simp only [hadj, Bool.false_eq_true, if_false]
      have hadj' : g.adj u U[i] = false := by simpa using hadj
      refine ih U T S (by omega) ff ?_
      intro idx h hle
      by_cases hc : idx = i
      · subst hc; exact hadj'
      · exact hP idx h (by omega)

theorem ccLoop_spec (hCn : ∀ x, C x → x < g.n) (hCcl : ∀ a b, C a → g.adj a b = true → b < g.n → C b) :
    ∀ (fuel : Nat) (U : Array Nat) (T S : List Nat), FF g C v U T S → T.length + U.size + 1 ≤ fuel →
      ∃ U' S', Model.ccLoop g fuel U T S = .ok (U', S') ∧ FF g C v U' [] S' := by
  intro fuel
  induction fuel with
  | zero => intro U T S _ h; omega
  | succ f ih =>
    intro U T S ff hf
    cases T with
    | nil => exact ⟨U, S, rfl, ff⟩
    | cons u T =>
      obtain ⟨U', T', S', e, ff', hP, hlen⟩ := ccScan_spec hCn U.size U T S (Nat.le_refl _) ff
        (fun idx h hle => by omega)
      simp only [Model.ccLoop, e]
      have huS : u ∈ S' := ff'.tsub u List.mem_cons_self
      have ff'' : FF g C v U' T' S' :=
        { injU := ff'.injU, ndS := ff'.ndS, disj := ff'.disj, cover := ff'.cover,
          tsub := fun x hx => ff'.tsub x (List.mem_cons_of_mem _ hx), reach := ff'.reach, vS := ff'.vS,
          done := by
            intro s hs hsT w hadj hw
            by_cases hsu : s = u
            · subst hsu
              have hCs : C s := (ff'.cover s).1 (.inl hs)
              by_contra hwS
              rcases (ff'.cover w).2 (hCcl s w hCs hadj hw) with h | h
              · exact hwS h
              · obtain ⟨idx, hidx, rfl⟩ := Array.mem_iff_getElem.1 h
                rw [hP idx hidx] at hadj
                cases hadj
            · exact ff'.done s hs (by simp [hsu, hsT]) w hadj hw }
      exact ih U' T' S' ff'' (by simp only [List.length_cons] at hf; omega)

/-- what the flood fill returns: the reachability class of `v`, and the rest of `C` stays unseen -/
theorem ff_final {U : Array Nat} {S : List Nat} (ff : FF g C v U [] S) :
    (∀ x, x ∈ S ↔ Reach g v x) ∧ (∀ x, x ∈ U ↔ (C x ∧ ¬ Reach g v x)) := by
  have hS : ∀ x, x ∈ S ↔ Reach g v x := by
    intro x
    constructor
    · exact ff.reach x
    · rintro ⟨k, hk⟩
      induction hk with
      | base _ => exact ff.vS
      | step _ hadj hx ih => exact ff.done _ ih (by simp) _ hadj (List.mem_range.1 hx)
  refine ⟨hS, ?_⟩
  intro x
  constructor
  · intro hx
    refine ⟨(ff.cover x).1 (.inr hx), ?_⟩
    intro hr
    exact ff.disj x ((hS x).2 hr) hx
  · rintro ⟨hc, hr⟩
    rcases (ff.cover x).2 hc with h | h
    · exact absurd ((hS x).1 h) hr
    · exact h

end GDist
