import Mamba.Lemmas.CliqueColourCert
/-! Helper lemmas for C09: the faithful model of `GreedyColor` is proper and first-fit for every vertex order. -/
namespace CliqueColour
open GraphSpec

theorem getD_set {α : Type} (l : List α) (k j : Nat) (a d : α) :
    (l.set k a).getD j d = if k = j ∧ k < l.length then a else l.getD j d := by
  simp only [List.getD_eq_getElem?_getD, List.getElem?_set]
  by_cases h : k = j
  · subst h
    by_cases h2 : k < l.length
    · simp [h2]
    · simp [h2]
  · simp [h]

theorem getElem?_eq_some_getD {α : Type} {l : List α} {u : Nat} (h : u < l.length) (d : α) :
    l[u]? = some (l.getD u d) := by
  simp [List.getD_eq_getElem?_getD, List.getElem?_eq_getElem h]

theorem count_set_true_le (l : List Bool) (k : Nat) : (l.set k true).count true ≤ l.count true + 1 := by
  by_cases h : k < l.length
  · rw [List.count_set h]
    simp
  · rw [List.set_eq_of_length_le (by omega)]; omega

theorem exists_false_of_count_lt {l : List Bool} (h : l.count true < l.length) :
    ∃ j, j < l.length ∧ l.getD j false = false := by
  have : ¬ ∀ b ∈ l, true = b := fun hall => by
    have := List.count_eq_length.2 hall
    omega
  push Not at this
  obtain ⟨b, hb, hne⟩ := this
  obtain ⟨j, hj, he⟩ := List.getElem_of_mem hb
  refine ⟨j, hj, ?_⟩
  rw [List.getD_eq_getElem?_getD, List.getElem?_eq_getElem hj, Option.getD_some, he]
  cases b <;> simp_all

theorem count_true_eq_zero {l : List Bool} (h : ∀ j, l.getD j false = false) : l.count true = 0 := by
  rw [List.count_eq_zero]
  intro hm
  obtain ⟨j, hj, he⟩ := List.getElem_of_mem hm
  have := h j
  rw [List.getD_eq_getElem?_getD, List.getElem?_eq_getElem hj, Option.getD_some, he] at this
  cases this

/-! ### the three inner loops -/

/-- colours are `-1` (none) or in `[0, B)` -/
def ColsOK (c : List Int) (B : Nat) : Prop := ∀ u, c.getD u (-1) = -1 ∨ (0 ≤ c.getD u (-1) ∧ c.getD u (-1) < B)

theorem greedyMark_spec {c : List Int} {B : Nat} (hc : ColsOK c B) :
    ∀ (us : List Nat) (seen : List Bool) (mx : Nat), (∀ u ∈ us, u < c.length) → seen.length = B →
      ∃ seen' mx', greedyMark c us (seen, mx) = .ok (seen', mx') ∧ seen'.length = B ∧
        (∀ j, seen'.getD j false = true ↔ (seen.getD j false = true ∨ ∃ u ∈ us, c.getD u (-1) = (j : Int))) ∧
        mx ≤ mx' ∧ (∀ u ∈ us, c.getD u (-1) ≤ (mx' : Int)) ∧
        (mx' = mx ∨ ∃ u ∈ us, c.getD u (-1) = (mx' : Int)) ∧
        seen'.count true ≤ seen.count true + us.length := by
  intro us
  induction us with
  | nil =>
    intro seen mx _ hl
    exact ⟨seen, mx, rfl, hl, by simp, Nat.le_refl _, by simp, Or.inl rfl, by simp⟩
  | cons u us ih =>
    intro seen mx hus hl
    have hu : u < c.length := hus u List.mem_cons_self
    have hus' : ∀ w ∈ us, w < c.length := fun w hw => hus w (List.mem_cons_of_mem _ hw)
    simp only [greedyMark, getElem?_eq_some_getD hu (-1)]
    rcases hc u with hneg | ⟨h0, hB⟩
    · -- uncoloured neighbour
      rw [if_neg (by omega)]
      obtain ⟨s', m', he, hl', hs, hmono, hm1, hm2, hcnt⟩ := ih seen mx hus' hl
      refine ⟨s', m', he, hl', fun j => ?_, hmono, fun w hw => ?_, ?_, by
        have h2 : (u :: us).length = us.length + 1 := rfl
        omega⟩
      · rw [hs j]
        constructor
        · rintro (h | ⟨w, hw, hwj⟩)
          · exact Or.inl h
          · exact Or.inr ⟨w, List.mem_cons_of_mem _ hw, hwj⟩
        · rintro (h | ⟨w, hw, hwj⟩)
          · exact Or.inl h
          · rcases List.mem_cons.1 hw with rfl | hw
            · omega
            · exact Or.inr ⟨w, hw, hwj⟩
      · rcases List.mem_cons.1 hw with rfl | hw
        · omega
        · exact hm1 w hw
      · rcases hm2 with h | ⟨w, hw, hwj⟩
        · exact Or.inl h
        · exact Or.inr ⟨w, List.mem_cons_of_mem _ hw, hwj⟩
    · -- coloured neighbour with colour k
      rw [if_pos (by omega)]
      have hk : ((c.getD u (-1)).toNat : Int) = c.getD u (-1) := Int.toNat_of_nonneg h0
      have hklt : (c.getD u (-1)).toNat < seen.length := by omega
      simp only [hklt, if_true]
      obtain ⟨s', m', he, hl', hs, hmono, hm1, hm2, hcnt⟩ :=
        ih (seen.set (c.getD u (-1)).toNat true)
          (if (c.getD u (-1)).toNat > mx then (c.getD u (-1)).toNat else mx) hus' (by simpa using hl)
      refine ⟨s', m', he, hl', fun j => ?_, by split at hmono <;> omega, fun w hw => ?_, ?_, ?_⟩
      · rw [hs j, getD_set]
        constructor
        · rintro (h | ⟨w, hw, hwj⟩)
          · by_cases hkj : (c.getD u (-1)).toNat = j ∧ (c.getD u (-1)).toNat < seen.length
            · exact Or.inr ⟨u, List.mem_cons_self, by omega⟩
            · rw [if_neg hkj] at h; exact Or.inl h
          · exact Or.inr ⟨w, List.mem_cons_of_mem _ hw, hwj⟩
        · rintro (h | ⟨w, hw, hwj⟩)
          · left
            split
            · rfl
            · exact h
          · rcases List.mem_cons.1 hw with rfl | hw
            · left
              rw [if_pos ⟨by omega, hklt⟩]
            · exact Or.inr ⟨w, hw, hwj⟩
      · rcases List.mem_cons.1 hw with rfl | hw
        · split at hmono <;> omega
        · exact hm1 w hw
      · rcases hm2 with h | ⟨w, hw, hwj⟩
        · by_cases hgt : (c.getD u (-1)).toNat > mx
          · rw [if_pos hgt] at h
            exact Or.inr ⟨u, List.mem_cons_self, by omega⟩
          · rw [if_neg hgt] at h
            exact Or.inl h
        · exact Or.inr ⟨w, List.mem_cons_of_mem _ hw, hwj⟩
      · have := count_set_true_le seen (c.getD u (-1)).toNat
        have h2 : (u :: us).length = us.length + 1 := rfl
        omega

theorem greedyFind_spec (n : Nat) : ∀ (fuel i : Nat) (seen : List Bool), seen.length = n → n ≤ i + fuel →
    (∃ j, i ≤ j ∧ j < n ∧ seen.getD j false = false) →
    ∃ s2 i2, greedyFind n fuel i seen = (s2, i2, true) ∧ s2.length = n ∧ i ≤ i2 ∧ i2 < n ∧
      seen.getD i2 false = false ∧ (∀ j, i ≤ j → j < i2 → seen.getD j false = true) ∧
      ∀ j, s2.getD j false = if i ≤ j ∧ j < i2 then false else seen.getD j false := by
  intro fuel
  induction fuel with
  | zero =>
    intro i seen _ hf ⟨j, h1, h2, _⟩
    omega
  | succ fuel ih =>
    intro i seen hl hf ⟨j, h1, h2, h3⟩
    have hi : i < n := by omega
    simp only [greedyFind, hi, if_true]
    cases hsi : seen.getD i false
    · simp only [Bool.false_eq_true, if_false]
      exact ⟨seen, i, rfl, hl, Nat.le_refl _, hi, hsi, fun j h1 h2 => by omega, fun j => by
        rw [if_neg (by omega)]⟩
    · simp only [if_true]
      have hji : j ≠ i := by
        intro h; subst h; rw [hsi] at h3; cases h3
      obtain ⟨s2, i2, he, hl2, hle, hlt, hf2, hall, hpt⟩ :=
        ih (i + 1) (seen.set i false) (by simpa using hl) (by omega)
          ⟨j, by omega, h2, by rw [getD_set, if_neg (by omega)]; exact h3⟩
      refine ⟨s2, i2, he, hl2, by omega, hlt, ?_, fun j' h1' h2' => ?_, fun j' => ?_⟩
      · rw [getD_set, if_neg (by omega)] at hf2; exact hf2
      · by_cases hj' : j' = i
        · subst hj'; exact hsi
        · have := hall j' (by omega) h2'
          rw [getD_set, if_neg (by omega)] at this; exact this
      · rw [hpt j', getD_set]
        by_cases hj' : j' = i
        · subst hj'
          rw [if_neg (by omega), if_pos ⟨rfl, by omega⟩, if_pos ⟨Nat.le_refl _, by omega⟩]
        · by_cases hr : i + 1 ≤ j' ∧ j' < i2
          · rw [if_pos hr, if_pos ⟨by omega, hr.2⟩]
          · rw [if_neg hr, if_neg (by omega), if_neg (by omega)]

theorem greedyClear_spec : ∀ (fuel i mx : Nat) (seen : List Bool), mx < seen.length → mx + 1 ≤ i + fuel →
    ∃ s3, greedyClear fuel i mx seen = .ok s3 ∧ s3.length = seen.length ∧
      ∀ j, s3.getD j false = if i ≤ j ∧ j ≤ mx then false else seen.getD j false := by
  intro fuel
  induction fuel with
  | zero =>
    intro i mx seen _ hf
    refine ⟨seen, by simp only [greedyClear]; rw [if_neg (by omega)], rfl, fun j => by rw [if_neg (by omega)]⟩
  | succ fuel ih =>
    intro i mx seen hm hf
    simp only [greedyClear]
    by_cases hi : i ≤ mx
    · rw [if_pos hi, if_pos (by omega)]
      obtain ⟨s3, he, hl, hpt⟩ := ih (i + 1) mx (seen.set i false) (by simpa using hm) (by omega)
      refine ⟨s3, he, by simpa using hl, fun j => ?_⟩
      rw [hpt j, getD_set]
      by_cases hj : j = i
      · subst hj
        rw [if_neg (by omega), if_pos ⟨rfl, by omega⟩, if_pos ⟨Nat.le_refl _, hi⟩]
      · by_cases hr : i + 1 ≤ j ∧ j ≤ mx
        · rw [if_pos hr, if_pos ⟨by omega, hr.2⟩]
        · rw [if_neg hr, if_neg (by omega), if_neg (by omega)]
    · rw [if_neg hi]
      exact ⟨seen, rfl, rfl, fun j => by rw [if_neg (by omega)]⟩

/-! ### the loop invariant -/

/-- `x` is the first-fit colour of `v` with respect to the vertices `pre` coloured by `col` -/
def FirstFit (g : G) (col : Nat → Int) (pre : List Nat) (v : Nat) : Prop :=
  (∀ x : Nat, (x : Int) < col v → ∃ u ∈ pre, g.adj v u = true ∧ col u = x) ∧
  (∀ u ∈ pre, g.adj v u = true → col u ≠ col v)

structure GInv (g : G) (done : List Nat) (st : Greedy) : Prop where
  clen : st.c.length = g.n
  slen : st.seen.length = g.n
  sfalse : ∀ j, st.seen.getD j false = false
  undone : ∀ v, v ∉ done → st.c.getD v (-1) = -1
  range : ∀ v ∈ done, 0 ≤ st.c.getD v (-1) ∧ st.c.getD v (-1) < g.n
  proper : ∀ u ∈ done, ∀ v ∈ done, g.adj u v = true → st.c.getD u (-1) ≠ st.c.getD v (-1)
  ff : ∀ pre v post, done = pre ++ v :: post → FirstFit g (fun w => st.c.getD w (-1)) pre v
  maxub : ∀ v ∈ done, st.c.getD v (-1) ≤ st.maxColour
  maxat : (done = [] ∧ st.maxColour = -1) ∨ ∃ v ∈ done, st.c.getD v (-1) = st.maxColour

theorem nbrs_length_lt {g : G} (hw : g.WF) {v : Nat} (hv : v < g.n) : (g.nbrs v).length < g.n := by
  have hnd : (v :: g.nbrs v).Nodup := by
    refine List.nodup_cons.2 ⟨fun hm => ?_, (List.nodup_range).sublist List.filter_sublist⟩
    have := (mem_nbrs.1 hm).2
    rw [hw.irrefl] at this; cases this
  have hsub : (v :: g.nbrs v).Subperm (List.range g.n) := by
    apply List.subperm_of_subset hnd
    intro u hu
    rcases List.mem_cons.1 hu with rfl | hu
    · exact List.mem_range.2 hv
    · exact List.mem_range.2 (mem_nbrs.1 hu).1
  have := hsub.length_le
  simp at this
  omega

theorem snoc_eq_append_cons {α : Type} {done pre post : List α} {v w : α}
    (h : done ++ [v] = pre ++ w :: post) :
    (post = [] ∧ pre = done ∧ w = v) ∨ ∃ post', post = post' ++ [v] ∧ done = pre ++ w :: post' := by
  rcases List.eq_nil_or_concat post with rfl | ⟨post', x, rfl⟩
  · left
    have := List.append_inj' h rfl
    exact ⟨rfl, this.1.symm, by simpa using this.2.symm⟩
  · right
    have h' : done ++ [v] = (pre ++ w :: post') ++ [x] := by simpa using h
    have := List.append_inj' h' rfl
    exact ⟨post', by simpa using this.2.symm, this.1⟩

theorem greedyStep_inv {g : G} (hw : g.WF) {done : List Nat} {st : Greedy} (hinv : GInv g done st)
    {v : Nat} (hv : v < g.n) (hvd : v ∉ done) :
    ∃ st', greedyStep g st v = .ok st' ∧ GInv g (done ++ [v]) st' := by
  have hcols : ColsOK st.c g.n := by
    intro u
    by_cases hu : u ∈ done
    · exact Or.inr (hinv.range u hu)
    · exact Or.inl (hinv.undone u hu)
  obtain ⟨seen1, mx1, hmark, hl1, hs1, _, hmx1, hmx1', hcnt⟩ :=
    greedyMark_spec hcols (g.nbrs v) st.seen 0
      (fun u hu => by rw [hinv.clen]; exact (mem_nbrs.1 hu).1) hinv.slen
  -- meaning of the marks (the array was clear before)
  have hs1' : ∀ j, seen1.getD j false = true ↔ ∃ u ∈ g.nbrs v, st.c.getD u (-1) = (j : Int) := by
    intro j
    rw [hs1 j, hinv.sfalse j]
    simp
  have hfree : ∃ j, 0 ≤ j ∧ j < g.n ∧ seen1.getD j false = false := by
    have h0 := count_true_eq_zero hinv.sfalse
    have := nbrs_length_lt hw hv
    obtain ⟨j, hj, hjf⟩ := exists_false_of_count_lt (l := seen1) (by omega)
    exact ⟨j, Nat.zero_le _, by omega, hjf⟩
  obtain ⟨s2, i2, hfind, hl2, _, hi2, hf2, hall2, hpt2⟩ := greedyFind_spec g.n g.n 0 seen1 hl1 (by omega) hfree
  have hmx1n : mx1 < g.n := by
    rcases hmx1' with h | ⟨u, hu, hue⟩
    · omega
    · have := hcols u
      omega
  obtain ⟨s3, hclear, hl3, hpt3⟩ := greedyClear_spec (g.n + 1) i2 mx1 s2 (by omega) (by omega)
  -- facts about the chosen colour
  have hnot : ∀ u ∈ g.nbrs v, st.c.getD u (-1) ≠ (i2 : Int) := by
    intro u hu he
    have := (hs1' i2).2 ⟨u, hu, he⟩
    rw [hf2] at this; cases this
  have hbelow : ∀ x : Nat, x < i2 → ∃ u ∈ done, g.adj v u = true ∧ st.c.getD u (-1) = (x : Int) := by
    intro x hx
    obtain ⟨u, hu, hue⟩ := (hs1' x).1 (hall2 x (Nat.zero_le _) hx)
    refine ⟨u, ?_, (mem_nbrs.1 hu).2, hue⟩
    by_contra hnd
    have := hinv.undone u hnd
    omega
  have hvc : v < st.c.length := by rw [hinv.clen]; exact hv
  have hset_v : (st.c.set v (i2 : Int)).getD v (-1) = (i2 : Int) := by
    rw [getD_set, if_pos ⟨rfl, hvc⟩]
  have hset_ne : ∀ u, u ≠ v → (st.c.set v (i2 : Int)).getD u (-1) = st.c.getD u (-1) := by
    intro u hu
    rw [getD_set, if_neg (by intro h; exact hu h.1.symm)]
  have hset_done : ∀ u ∈ done, (st.c.set v (i2 : Int)).getD u (-1) = st.c.getD u (-1) :=
    fun u hu => hset_ne u (fun h => hvd (h ▸ hu))
  refine ⟨{ c := st.c.set v (i2 : Int), seen := s3,
            maxColour := if (i2 : Int) > st.maxColour then (i2 : Int) else st.maxColour }, ?_, ?_⟩
  · simp only [greedyStep, hv, if_true, hmark, hfind, hclear, Bool.true_and, decide_eq_true_eq]
  · constructor
    · simpa using hinv.clen
    · simpa [hl3] using hl2
    · intro j
      show s3.getD j false = false
      rw [hpt3 j]
      by_cases hr : i2 ≤ j ∧ j ≤ mx1
      · rw [if_pos hr]
      · rw [if_neg hr, hpt2 j]
        by_cases hr2 : 0 ≤ j ∧ j < i2
        · rw [if_pos hr2]
        · rw [if_neg hr2]
          cases hsj : seen1.getD j false
          · rfl
          · obtain ⟨u, hu, hue⟩ := (hs1' j).1 hsj
            have := hmx1 u hu
            omega
    · intro w hwn
      show (st.c.set v (i2 : Int)).getD w (-1) = -1
      have h1 : w ≠ v := fun h => hwn (by simp [h])
      have h2 : w ∉ done := fun h => hwn (List.mem_append_left _ h)
      rw [hset_ne w h1]; exact hinv.undone w h2
    · intro w hwm
      show 0 ≤ (st.c.set v (i2 : Int)).getD w (-1) ∧ (st.c.set v (i2 : Int)).getD w (-1) < g.n
      rcases List.mem_append.1 hwm with h | h
      · rw [hset_done w h]; exact hinv.range w h
      · have : w = v := by simpa using h
        subst this; rw [hset_v]; omega
    · intro u hum w hwm ha
      show (st.c.set v (i2 : Int)).getD u (-1) ≠ (st.c.set v (i2 : Int)).getD w (-1)
      rcases List.mem_append.1 hum with hu | hu <;> rcases List.mem_append.1 hwm with hw' | hw'
      · rw [hset_done u hu, hset_done w hw']; exact hinv.proper u hu w hw' ha
      · have : w = v := by simpa using hw'
        subst this
        rw [hset_done u hu, hset_v]
        refine hnot u (mem_nbrs.2 ⟨(hw.supp _ _ ha).1, ?_⟩)
        rw [hw.symm]; exact ha
      · have : u = v := by simpa using hu
        subst this
        rw [hset_done w hw', hset_v]
        exact fun h => hnot w (mem_nbrs.2 ⟨(hw.supp _ _ ha).2, ha⟩) h.symm
      · have h1 : u = v := by simpa using hu
        have h2 : w = v := by simpa using hw'
        subst h1; subst h2
        rw [hw.irrefl] at ha; cases ha
    · intro pre w post hsplit
      show FirstFit g (fun x => (st.c.set v (i2 : Int)).getD x (-1)) pre w
      rcases snoc_eq_append_cons hsplit with ⟨_, rfl, rfl⟩ | ⟨post', _, hd⟩
      · constructor
        · intro x hx
          simp only [hset_v] at hx
          obtain ⟨u, hu, hau, hue⟩ := hbelow x (by omega)
          exact ⟨u, hu, hau, by simp only; rw [hset_done u hu]; exact hue⟩
        · intro u hu hau
          simp only [hset_v]
          rw [hset_done u hu]
          exact hnot u (mem_nbrs.2 ⟨(hw.supp _ _ hau).2, hau⟩)
      · have hold := hinv.ff pre w post' hd
        have hwd : w ∈ done := by rw [hd]; simp
        have hpre : ∀ u ∈ pre, u ∈ done := fun u hu => by rw [hd]; simp [hu]
        constructor
        · intro x hx
          simp only [hset_done w hwd] at hx
          obtain ⟨u, hu, hau, hue⟩ := hold.1 x hx
          exact ⟨u, hu, hau, by simp only; rw [hset_done u (hpre u hu)]; exact hue⟩
        · intro u hu hau
          simp only [hset_done w hwd, hset_done u (hpre u hu)]
          exact hold.2 u hu hau
    · intro w hwm
      show (st.c.set v (i2 : Int)).getD w (-1) ≤ (if (i2 : Int) > st.maxColour then (i2 : Int) else st.maxColour)
      rcases List.mem_append.1 hwm with h | h
      · rw [hset_done w h]
        have := hinv.maxub w h
        split <;> omega
      · have : w = v := by simpa using h
        subst this; rw [hset_v]
        split <;> omega
    · right
      show ∃ w ∈ done ++ [v], (st.c.set v (i2 : Int)).getD w (-1) =
        (if (i2 : Int) > st.maxColour then (i2 : Int) else st.maxColour)
      by_cases hgt : (i2 : Int) > st.maxColour
      · exact ⟨v, by simp, by rw [hset_v, if_pos hgt]⟩
      · rw [if_neg hgt]
        rcases hinv.maxat with ⟨_, hm⟩ | ⟨w, hwd, hwe⟩
        · omega
        · exact ⟨w, List.mem_append_left _ hwd, by rw [hset_done w hwd]; exact hwe⟩

theorem greedyLoop_inv {g : G} (hw : g.WF) : ∀ (vs done : List Nat) (st : Greedy), GInv g done st →
    (∀ v ∈ vs, v < g.n) → (done ++ vs).Nodup →
    ∃ st', greedyLoop g vs st = .ok st' ∧ GInv g (done ++ vs) st' := by
  intro vs
  induction vs with
  | nil => intro done st hinv _ _; exact ⟨st, rfl, by simpa using hinv⟩
  | cons v vs ih =>
    intro done st hinv hlt hnd
    have hvd : v ∉ done := by
      intro h
      have := List.nodup_append.1 hnd
      exact this.2.2 v h v List.mem_cons_self rfl
    obtain ⟨st1, he1, hinv1⟩ := greedyStep_inv hw hinv (hlt v List.mem_cons_self) hvd
    obtain ⟨st2, he2, hinv2⟩ := ih (done ++ [v]) st1 hinv1 (fun u hu => hlt u (List.mem_cons_of_mem _ hu))
      (by simpa using hnd)
    refine ⟨st2, ?_, by simpa using hinv2⟩
    simp only [greedyLoop, he1, he2]

theorem greedy_init_inv (g : G) :
    GInv g [] { c := List.replicate g.n (-1), seen := List.replicate g.n false, maxColour := -1 } where
  clen := by simp
  slen := by simp
  sfalse := fun j => by
    simp only [List.getD_eq_getElem?_getD, List.getElem?_replicate]
    split <;> rfl
  undone := fun v _ => by
    simp only [List.getD_eq_getElem?_getD, List.getElem?_replicate]
    split <;> rfl
  range := fun v hv => by cases hv
  proper := fun u hu => by cases hu
  ff := fun pre v post h => by simp at h
  maxub := fun v hv => by cases hv
  maxat := Or.inl ⟨rfl, rfl⟩

theorem greedyColor_spec {g : G} (hw : g.WF) {order : List Nat} (hperm : order.Perm (List.range g.n)) :
    ∃ st, greedyColor g order = .ok (st.maxColour, st.c) ∧ GInv g order st := by
  have hl : order.length = g.n := by simpa using hperm.length_eq
  have hnd : order.Nodup := hperm.nodup_iff.2 List.nodup_range
  have hlt : ∀ v ∈ order, v < g.n := fun v hv => List.mem_range.1 (hperm.subset hv)
  obtain ⟨st, he, hinv⟩ := greedyLoop_inv hw order [] _ (greedy_init_inv g) hlt (by simpa using hnd)
  refine ⟨st, ?_, by simpa using hinv⟩
  simp only [greedyColor, hl, bne_self_eq_false, Bool.false_eq_true, if_false, he]

end CliqueColour
