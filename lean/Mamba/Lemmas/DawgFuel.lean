import Mamba.Model.DawgGob
/-! The fuel of the explicit-stack traversal only decides *whether* a result is produced, never *which*. -/
namespace Dawg

theorem dfsLoop_mono (emit : Option (Nat → Nat)) (h : Heap) :
    ∀ (f : Nat) (st r : DfsSt), dfsLoop emit h f st = .ok r → ∀ k, dfsLoop emit h (f + k) st = .ok r := by
  intro f
  induction f with
  | zero => intro st r hres; simp [dfsLoop] at hres
  | succ f ih =>
    intro st r hres k
    rw [show f + 1 + k = (f + k) + 1 by omega]
    simp only [dfsLoop] at hres ⊢
    cases hst : st.stack with
    | nil => rw [hst] at hres; cases hres
    | cons top rest =>
      obtain ⟨p, nxt⟩ := top
      rw [hst] at hres
      simp only at hres ⊢
      cases hg : getNode h p with
      | panic => rw [hg] at hres; cases hres
      | outOfFuel => rw [hg] at hres; cases hres
      | ok T =>
        rw [hg] at hres
        simp only at hres ⊢
        cases hin : dfsInner emit h T (List.drop nxt T.labels) nxt st with
        | panic => rw [hin] at hres; cases hres
        | outOfFuel => rw [hin] at hres; cases hres
        | ok res =>
          obtain ⟨st1, b⟩ := res
          rw [hin] at hres
          cases b with
          | true => simp only at hres ⊢; exact ih st1 r hres k
          | false =>
            simp only at hres ⊢
            cases hst1 : st1.stack with
            | nil => rw [hst1] at hres; cases hres
            | cons t1 r1 =>
              rw [hst1] at hres
              cases r1 with
              | nil => exact hres
              | cons t2 r2 => simp only at hres ⊢; exact ih _ r hres k

theorem listNodes_mono (d : Dawg) (f : Nat) (L : List Nat) (hres : listNodes f d = .ok L) (k : Nat) :
    listNodes (f + k) d = .ok L := by
  unfold listNodes at hres ⊢
  cases hg : getNode d.heap d.root with
  | panic => rw [hg] at hres; cases hres
  | outOfFuel => rw [hg] at hres; cases hres
  | ok rn =>
    rw [hg] at hres
    simp only at hres ⊢
    cases hl : dfsLoop none d.heap f { nodes := [rn.id], stack := [(d.root, 0)], out := #[] } with
    | panic => rw [hl] at hres; cases hres
    | outOfFuel => rw [hl] at hres; cases hres
    | ok st =>
      rw [hl] at hres
      rw [dfsLoop_mono none d.heap f _ st hl k]
      exact hres

theorem gobEncode_mono (d : Dawg) (f : Nat) (bs : List Nat) (hres : gobEncode f d = .ok bs) (k : Nat) :
    gobEncode (f + k) d = .ok bs := by
  unfold gobEncode at hres ⊢
  cases hL : listNodes f d with
  | panic => rw [hL] at hres; cases hres
  | outOfFuel => rw [hL] at hres; cases hres
  | ok L =>
    rw [hL] at hres
    rw [listNodes_mono d f L hL k]
    simp only at hres ⊢
    cases hg : getNode d.heap d.root with
    | panic => rw [hg] at hres; cases hres
    | outOfFuel => rw [hg] at hres; cases hres
    | ok rn =>
      rw [hg] at hres
      simp only at hres ⊢
      cases hr : encRecord d.heap (searchGE L) rn with
      | panic => rw [hr] at hres; cases hres
      | outOfFuel => rw [hr] at hres; cases hres
      | ok r =>
        rw [hr] at hres
        simp only at hres ⊢
        cases hl : dfsLoop (some (searchGE L)) d.heap f
            ⟨List.replicate L.length 0, [(d.root, 0)], (encodeUint64 L.length ++ List.flatMap encodeUint64 L ++ r).toArray⟩ with
        | panic => rw [hl] at hres; cases hres
        | outOfFuel => rw [hl] at hres; cases hres
        | ok st =>
          rw [hl] at hres
          rw [dfsLoop_mono _ d.heap f _ st hl k]
          exact hres

end Dawg
