import Mamba.Lemmas.DistancePatonScan
/-!
# Paton's phase: every fundamental cycle is a simple cycle of the block
-/
namespace GDist
open GraphSpec Model

variable {a : G}

/-- invariant between two iterations of `for len(X) > 0` -/
structure PO (a : G) (st : PatonSt) : Prop where
  tsz : st.T.size = a.n
  dsz : st.depth.size = a.n
  root : st.T.getD 0 (-1) = 0
  ptree : ∀ x, x < a.n → inTree st.T x → 0 ≤ st.T.getD x (-1) ∧ par st.T x < a.n ∧ inTree st.T (par st.T x)
  pdep : ∀ x, x < a.n → inTree st.T x → x ≠ 0 →
    dep st.depth x = dep st.depth (par st.T x) + 1 ∧ a.adj x (par st.T x) = true
  xin : ∀ x ∈ st.X, x < a.n ∧ inTree st.T x ∧ (x ≠ 0 ∨ st.X = [0])
  xnd : st.X.Nodup
  leaf : ∀ x, x < a.n → inTree st.T x → x ≠ 0 → par st.T x ∉ st.X
  xpair : st.X.Pairwise fun up lo => AncD st.T st.depth (par st.T lo) (par st.T up)
  exam : ∀ x, x < a.n → inTree st.T x → x ∉ st.X → ∀ w, a.adj x w = true → w < a.n →
    edgeRemoved st.removed w x = true
  fund : ∀ f ∈ st.fund, IsCycCode a f

end GDist

namespace GDist
open GraphSpec Model

variable {a : G}

theorem patonLoop_sound (hsym : ∀ u v, a.adj u v = a.adj v u) (hirr : ∀ v, a.adj v v = false) :
    ∀ (fuel : Nat) (st : PatonSt), PO a st → ∀ st', patonLoop a fuel st = .ok st' → PO a st' ∧ st'.X = [] := by
  intro fuel
  induction fuel with
  | zero => intro st _ st' hres; simp [patonLoop] at hres
  | succ f ih =>
    intro st o st' hres
    unfold patonLoop at hres
    match hX : st.X with
    | [] =>
      rw [hX] at hres
      simp only [Outcome.ok.injEq] at hres
      subst hres
      exact ⟨o, hX⟩
    | v :: X' =>
      rw [hX] at hres
      simp only at hres
      have hvX : v ∈ st.X := by rw [hX]; exact List.mem_cons_self
      obtain ⟨hvn, hvt, hv0⟩ := o.xin v hvX
      have hnd := o.xnd
      rw [hX, List.nodup_cons] at hnd
      have hpair := o.xpair
      rw [hX, List.pairwise_cons] at hpair
      have hX'0 : ∀ x ∈ X', x ≠ 0 := by
        intro x hx
        have hxX : x ∈ st.X := by rw [hX]; exact List.mem_cons_of_mem _ hx
        rcases (o.xin x hxX).2.2 with h | h
        · exact h
        · rw [hX] at h
          have : X' = [] := (List.cons.inj h).2
          rw [this] at hx; cases hx
      have inv : PS a { st with X := X' } v :=
        { tsz := o.tsz, dsz := o.dsz, root := o.root, ptree := o.ptree, pdep := o.pdep,
          xin := fun x hx => by
            have hxX : x ∈ st.X := by rw [hX]; exact List.mem_cons_of_mem _ hx
            exact ⟨(o.xin x hxX).1, (o.xin x hxX).2.1, hX'0 x hx⟩,
          xnd := hnd.2, vnx := hnd.1, cur := ⟨hvn, hvt⟩,
          leaf := fun x hx ht hm => by
            by_cases hx0 : x = 0
            · subst hx0
              rw [par_root o.root] at hm
              exact hX'0 0 hm rfl
            · exact o.leaf x hx ht hx0 (by rw [hX]; exact List.mem_cons_of_mem _ hm),
          xanc := fun x hx => by
            obtain ⟨k, h1, h2⟩ := hpair.1 x hx
            have hv0' : v ≠ 0 := by
              rcases hv0 with h | h
              · exact h
              · rw [hX] at h
                have : X' = [] := (List.cons.inj h).2
                rw [this] at hx; cases hx
            have hd := (o.pdep v hvn hvt hv0').1
            exact ⟨k + 1, by rw [Function.iterate_succ_apply]; exact h1, by
              show dep st.depth (par st.T x) + (k + 1) = dep st.depth v
              omega⟩,
          xpair := hpair.2,
          exam := fun x hx ht hxX hxv => o.exam x hx ht (by
            rw [hX]; intro hm
            rcases List.mem_cons.1 hm with h | h
            · exact hxv h
            · exact hxX h),
          fund := o.fund }
      have hnbnd : ((a.nbrs v).filter fun u => !edgeRemoved st.removed u v).Nodup :=
        (List.nodup_range.filter _).filter _
      cases hscan : patonScan v ((a.nbrs v).filter fun u => !edgeRemoved st.removed u v) { st with X := X' } with
      | panic => rw [hscan] at hres; simp at hres
      | outOfFuel => rw [hscan] at hres; simp at hres
      | ok st1 =>
        rw [hscan] at hres
        simp only at hres
        obtain ⟨inv1, hrm⟩ := patonScan_sound hsym hirr False _ _ inv hnbnd
          (fun u hu => by
            obtain ⟨h1, h2⟩ := List.mem_filter.1 hu
            obtain ⟨h3, h4⟩ := mem_nbrs.1 h1
            exact ⟨h3, h4, by simpa using h2⟩)
          (fun w hw hwn => by
            cases hh : edgeRemoved st.removed w v with
            | true => exact .inr (.inr rfl)
            | false => exact .inr (.inl (List.mem_filter.2 ⟨mem_nbrs.2 ⟨hwn, hw⟩, by simp [hh]⟩)))
          (fun x hx hp _ => by
            have hxX : x ∈ st.X := by rw [hX]; exact List.mem_cons_of_mem _ hx
            obtain ⟨h1, h2, _⟩ := o.xin x hxX
            exact o.leaf x h1 h2 (hX'0 x hx) (by
              show par st.T x ∈ st.X
              rw [hp]; exact hvX))
          st1 hscan
        apply ih st1 _ st' hres
        exact { tsz := inv1.tsz, dsz := inv1.dsz, root := inv1.root, ptree := inv1.ptree, pdep := inv1.pdep,
                xin := fun x hx => ⟨(inv1.xin x hx).1, (inv1.xin x hx).2.1, .inl (inv1.xin x hx).2.2⟩,
                xnd := inv1.xnd, leaf := fun x hx ht _ => inv1.leaf x hx ht, xpair := inv1.xpair,
                exam := fun x hx ht hxX w hw hwn => by
                  by_cases hxv : x = v
                  · subst hxv; exact (hrm w hw hwn).resolve_left id
                  · exact inv1.exam x hx ht hxX hxv w hw hwn,
                fund := inv1.fund }

theorem po_init (hn : 0 < a.n) : PO a (patonInit a.n) := by
  have hset : (Array.replicate a.n (-1 : Int)).setIfInBounds 0 0
      = (Array.replicate a.n (-1 : Int)).set 0 0 (by simpa using hn) := by
    simp [Array.setIfInBounds, hn]
  have hT : ∀ w, ((Array.replicate a.n (-1 : Int)).setIfInBounds 0 0).getD w (-1) = if w = 0 then 0 else -1 := by
    intro w
    rw [hset, getD_set_int]
    by_cases hw : w = 0
    · simp [hw]
    · simp only [hw, if_false]
      by_cases hwn : w < a.n <;> simp [Array.getD, hwn]
  have hin : ∀ x, inTree (patonInit a.n).T x ↔ x = 0 := by
    intro x; unfold inTree patonInit; simp only; rw [hT]
    by_cases hx : x = 0 <;> simp [hx]
  have hpar0 : par (patonInit a.n).T 0 = 0 := by
    unfold par patonInit; simp only; rw [hT]; simp
  refine { tsz := by simp [patonInit], dsz := by simp [patonInit], root := ?_, ptree := ?_, pdep := ?_, xin := ?_,
           xnd := by simp [patonInit], leaf := ?_, xpair := by simp [patonInit], exam := ?_,
           fund := fun f hf => by simp [patonInit] at hf }
  · unfold patonInit; simp only; rw [hT]; simp
  · intro x _ ht
    have hx := (hin x).1 ht
    subst hx
    refine ⟨by unfold patonInit; simp only; rw [hT]; simp, by rw [hpar0]; exact hn, ?_⟩
    rw [hpar0]; exact (hin 0).2 rfl
  · intro x _ ht hx0
    exact absurd ((hin x).1 ht) hx0
  · intro x hx
    have : x = 0 := by simpa [patonInit] using hx
    subst this
    exact ⟨hn, (hin 0).2 rfl, .inr rfl⟩
  · intro x _ ht hx0
    exact absurd ((hin x).1 ht) hx0
  · intro x _ ht hxX
    have hx := (hin x).1 ht
    subst hx
    exact absurd (by simp [patonInit]) hxX

/-- **every fundamental cycle produced by Paton's phase is the sorted edge-code list of a simple cycle** -/
theorem paton_fund_sound (a : G) (hsym : ∀ u v, a.adj u v = a.adj v u) (hirr : ∀ v, a.adj v v = false)
    (hn : 0 < a.n) (fuel : Nat) (st : PatonSt) (hres : patonLoop a fuel (patonInit a.n) = .ok st) :
    ∀ f ∈ st.fund, IsCycCode a f :=
  (patonLoop_sound hsym hirr fuel _ (po_init hn) st hres).1.fund

end GDist
