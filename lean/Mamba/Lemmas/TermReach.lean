import Mamba.Lemmas.TermExhaust
namespace Search
open Disjoint GSearch GraphSpec

variable {O : Oracle} {n : Nat}

/-- the postcondition of `run_total` holds for every fuel with which `run` returns -/
theorem run_post (hO : OracleSpec O n) (pre pr : DG → Bool) {fuel : Nat} {mode : Mode} {s s' : State} {b : Bool}
    (hi : TInv O n mode s) (h : run O pre pr fuel mode s = .ok (s', b)) :
    (b = true → TInv O n (.outer true false) s' ∧ Phi n (.outer true false) s' < Phi n mode s) ∧
    (b = false → s'.choices.size = 0) := by
  obtain ⟨s'', b'', h1, h2⟩ := run_total hO pre pr (Phi n mode s + 1) mode s hi (Nat.lt_succ_self _)
  have e : (s'', b'') = (s', b) := by
    rcases Nat.le_total fuel (Phi n mode s + 1) with hle | hle
    · have := run_mono_le O pre pr hle h
      rw [h1] at this; exact Outcome.ok.inj this
    · have := run_mono_le O pre pr hle h1
      rw [h] at this; exact (Outcome.ok.inj this).symm
  cases e
  exact h2

theorem next_params (pre pr : DG → Bool) {fuel : Nat} {s s' : State} {b : Bool}
    (h : next O pre pr fuel s = .ok (s', b)) : s'.n = s.n ∧ s'.m = s.m := by
  unfold next at h
  split at h
  · split at h <;> cases h <;> exact ⟨rfl, rfl⟩
  · split at h
    · simp only at h
      split at h <;> cases h <;> exact ⟨rfl, rfl⟩
    · split at h
      · simp only at h
        split at h
        · cases h; exact ⟨rfl, rfl⟩
        · have := (run_inv O pre pr fuel _ _ s' b h).1
          exact ⟨this.1, this.2.2.1⟩
      · have := (run_inv O pre pr fuel _ _ s' b h).1
        exact ⟨this.1, this.2.2.1⟩

/-- what holds between two calls of `Next` in every reachable state (for `n ≥ 2`): before the first call the iterator is
fresh; afterwards either the stack of choices is empty (the search is over) or the termination invariant holds with a
potential below the bound -/
def RT (O : Oracle) (n : Nat) (s : State) : Prop :=
  (s.first = true → s.g = DG.empty ∧ s.choices = #[] ∧ s.currentPath = #[] ∧ s.cache = none) ∧
  (s.first = false → s.choices.size = 0 ∨
    (TInv O n (.outer true false) s ∧ Phi n (.outer true false) s + 1 < fuelBound n))

theorem run_done (pre pr : DG → Bool) {fuel : Nat} {s s' : State} {b : Bool} (hz : s.choices.size = 0)
    (h : run O pre pr fuel (.outer true false) s = .ok (s', b)) : s' = s ∧ b = false := by
  match fuel, h with
  | 0, h => simp [run] at h
  | 1, h => simp [run] at h
  | f + 2, h =>
    simp only [run, Bool.not_true, Bool.false_eq_true, if_false, hz, if_true] at h
    cases h; exact ⟨rfl, rfl⟩

theorem next_RT (hO : OracleSpec O n) (pre pr : DG → Bool) (h2 : 2 ≤ n) {fuel : Nat} {s s' : State} {b : Bool}
    (hn : s.n = n) (hm : 0 < s.m) (hr : RT O n s) (h : next O pre pr fuel s = .ok (s', b)) : RT O n s' := by
  have h0 : ¬ s.n = 0 := by omega
  have h1 : ¬ s.n = 1 := by omega
  have hW : 1 ≤ Wt n 0 := Nat.pow_pos (Nat.succ_pos _)
  unfold next at h
  simp only [h0, h1, if_false] at h
  cases hf : s.first with
  | true =>
    obtain ⟨hg, hc, hp, hca⟩ := hr.1 hf
    simp only [hf, if_true] at h
    split at h
    · cases h
      exact ⟨(fun hh => by cases hh), fun _ => Or.inl (by simp [hc])⟩
    · have hi : TInv O n (.outer false false) { s with g := s.g.single, first := false } := by
        refine ⟨hn, hm, ?_, ?_, ?_, ?_, fun _ => Or.inl hca, (fun hh => by cases hh)⟩
        · simp only [hp]; show 0 + 1 ≤ n; omega
        · simp only [hg]; exact Built.one
        · simp only [hg, hp]; rfl
        · simp only [cpsOf, hp, hc]; rfl
      have hphi : Phi n (.outer false false) { s with g := s.g.single, first := false } = Wt n 0 - 1 := by
        simp [Phi, hp, topList, SumW]
      have hsp := (run_inv O pre pr fuel _ _ s' b h).1
      obtain ⟨p1, p2⟩ := run_post hO pre pr hi h
      refine ⟨fun hh => ?_, fun _ => ?_⟩
      · have := hsp.2.2.2; simp only at this; rw [this] at hh; cases hh
      · cases b with
        | false => exact Or.inl (p2 rfl)
        | true =>
          obtain ⟨q1, q2⟩ := p1 rfl
          exact Or.inr ⟨q1, by rw [fuelBound_eq]; omega⟩
  | false =>
    simp only [hf, Bool.false_eq_true, if_false] at h
    have hsp := (run_inv O pre pr fuel _ _ s' b h).1
    refine ⟨fun hh => ?_, fun _ => ?_⟩
    · rw [hsp.2.2.2, hf] at hh; cases hh
    · rcases hr.2 hf with hz | ⟨hi, hphi⟩
      · obtain ⟨rfl, -⟩ := run_done pre pr hz h
        exact Or.inl hz
      · obtain ⟨p1, p2⟩ := run_post hO pre pr hi h
        cases b with
        | false => exact Or.inl (p2 rfl)
        | true =>
          obtain ⟨q1, q2⟩ := p1 rfl
          exact Or.inr ⟨q1, by omega⟩

theorem core_RT {s : State} (hr : RT O n s) : RT O n s.core := by
  refine ⟨fun hf => ?_, fun hf => ?_⟩
  · obtain ⟨a, b, c, -⟩ := hr.1 hf
    exact ⟨a, b, c, rfl⟩
  · rcases hr.2 hf with hz | ⟨hi, hphi⟩
    · exact Or.inl hz
    · exact Or.inr ⟨⟨hi.hn, hi.hm, hi.hL, hi.built, hi.nv, hi.seg, (fun h => by cases h), (fun h => by cases h)⟩, hphi⟩

theorem reachable_inv_aux {pre pr : DG → Bool} {s : State} (h : Reachable O pre pr s) : Inv s := by
  induction h with
  | init n a m => exact init_inv n a m
  | next fuel _ hn ih => exact next_inv O pre pr fuel hn ih
  | load _ hl ih =>
    rw [load_save_core ih] at hl
    cases hl
    exact core_inv ih

theorem reachable_RT (pre pr : DG → Bool) {s : State} (h : Reachable O pre pr s) :
    OracleSpec O s.n → 0 < s.m → 2 ≤ s.n → RT O s.n s := by
  induction h with
  | init n a m =>
    intro _ _ _
    exact ⟨fun _ => ⟨rfl, rfl, rfl, rfl⟩, fun hf => by cases hf⟩
  | @next s s' b fuel _ hn ih =>
    intro hO hm h2
    obtain ⟨e1, e2⟩ := next_params pre pr hn
    rw [e1] at hO h2 ⊢
    rw [e2] at hm
    exact next_RT hO pre pr h2 rfl hm (ih hO hm h2) hn
  | @load s s' hs hl ih =>
    intro hO hm h2
    rw [load_save_core (reachable_inv_aux hs)] at hl
    cases hl
    exact core_RT (ih hO hm h2)

theorem exhaust_small_total (pre pr : DG → Bool) (fuel : Nat) {lim : Nat} {s : State} (hn : s.n < 2) (hl : 2 ≤ lim) :
    ∃ outs t, exhaust O pre pr fuel lim s = .ok (outs, t) := by
  obtain ⟨k, rfl⟩ : ∃ k, lim = k + 2 := ⟨lim - 2, by omega⟩
  have hcases : s.n = 0 ∨ s.n = 1 := by omega
  rcases hcases with h0 | h1
  · by_cases hc : (s.first && s.a == 0 && !pre s.g && !pr s.g) = true
    · simp [exhaust, next, h0, hc]
    · simp [exhaust, next, h0, hc]
  · by_cases hc : (s.first && s.a == 0 && !pre s.g.single && !pr s.g.single) = true
    · simp [exhaust, next, h1, hc]
    · simp [exhaust, next, h1, hc]

/-- **from every reachable state the search runs to its end**: fuel and call limit `fuelBound n` suffice -/
theorem exhaust_reachable_total (pre pr : DG → Bool) {s : State} (h : Reachable O pre pr s) (hO : OracleSpec O s.n)
    (hm : 0 < s.m) {fuel lim : Nat} (hfu : fuelBound s.n ≤ fuel) (hl : fuelBound s.n ≤ lim) :
    ∃ outs t, exhaust O pre pr fuel lim s = .ok (outs, t) := by
  have hW : 1 ≤ Wt s.n 0 := Nat.pow_pos (Nat.succ_pos _)
  have hfb := fuelBound_eq s.n
  by_cases h2 : 2 ≤ s.n
  · have hr := reachable_RT pre pr h hO hm h2
    cases hf : s.first with
    | true =>
      obtain ⟨hg, hc, hp, hca⟩ := hr.1 hf
      have : s = init s.n s.a s.m := by
        cases s; simp only [init] at *; simp [hf, hg, hc, hp, hca]
      rw [this]
      exact exhaust_init_total hO pre pr s.a s.m hm hfu hl
    | false =>
      rcases hr.2 hf with hz | ⟨hi, hphi⟩
      · obtain ⟨k, rfl⟩ : ∃ k, lim = k + 1 := ⟨lim - 1, by omega⟩
        obtain ⟨f, rfl⟩ : ∃ f, fuel = f + 2 := ⟨fuel - 2, by omega⟩
        simp only [exhaust]
        rw [next_later pre pr _ hf h2]
        simp only [run, Bool.not_true, Bool.false_eq_true, if_false, hz, if_true]
        exact ⟨_, _, rfl⟩
      · exact exhaust_total hO pre pr fuel h2 lim s hf hi (by omega) (by omega)
  · exact exhaust_small_total pre pr fuel (by omega) (by omega)

end Search
