import Mamba.Lemmas.DsaturS6
/-! DSATUR model: `dsBacktrackTo` preserves the state invariant. -/
namespace CliqueColour
open GraphSpec

theorem getD_set_take {α : Type} (l : List α) (i k : Nat) (x d : α) (hi : i < l.length) (hk : k ≤ i) :
    ((l.take (i + 1)).set i x).getD k d = if k = i then x else l.getD k d := by
  rw [getD_set]
  by_cases hki : k = i
  · subst hki
    rw [if_pos ⟨rfl, by simp; omega⟩, if_pos rfl]
  · rw [if_neg (fun e => hki e.1.symm), if_neg hki, getD_take_lt d (by omega)]

theorem dsBacktrackTo_inv {g : G} {U0 : Nat} {s : Dsat} (h : DSInv g U0 s) {i : Nat} (hi : i < s.chosen.length)
    (hadv : s.cur.getD i 0 + 1 < (s.choices.getD i []).length) :
    DSInv g U0 (dsBacktrackTo g s i) ∧
      (dsBacktrackTo g s i).chosen = s.chosen.take (i + 1) ∧
      (dsBacktrackTo g s i).upper = s.upper ∧ (dsBacktrackTo g s i).best = s.best ∧
      (dsBacktrackTo g s i).choices = s.choices.take (i + 1) ∧
      (dsBacktrackTo g s i).cur = (s.cur.take (i + 1)).set i (s.cur.getD i 0 + 1) ∧
      (∀ w ∈ s.chosen.take i, colOf (dsBacktrackTo g s i) w = colOf s w) := by
  obtain ⟨t, r, oc, nc, hr, hu, hoc, hnc, hperm, hokr, hch, hcur, hcho, hcolr, hmax, hupp, hbest, hsl, hrl, hseen⟩ :=
    dsBacktrackTo_facts g h hi hadv
  rw [hr]
  generalize hcvdef : s.chosen.getD i 0 = cv at *
  obtain ⟨hcurI, hcolI⟩ := h.colch i hi
  rw [hcvdef, ← hoc] at hcolI
  have hcvch : cv ∈ s.chosen := by rw [← hcvdef]; exact getD_mem' hi
  have hcvn : cv < g.n := h.chlt cv hcvch
  have hCsplit : s.chosen.take (i + 1) = s.chosen.take i ++ [cv] := by rw [take_succ_getD hi, hcvdef]
  have hCnd : (s.chosen.take i ++ [cv]).Nodup := by rw [← hCsplit]; exact h.chn.sublist (List.take_sublist _ _)
  have hcvpre : cv ∉ s.chosen.take i := fun hm => (List.nodup_append.1 hCnd).2.2 cv hm cv (by simp) rfl
  have hncmem : nc ∈ s.choices.getD i [] := by rw [hnc]; exact getD_mem' hadv
  obtain ⟨hnc1, hncU, hnc0⟩ := h.optF i hi nc hncmem
  rw [hcvdef] at hnc0
  have hocmem : oc ∈ s.choices.getD i [] := by rw [hoc]; exact getD_mem' hcurI
  have hocU := (h.optF i hi oc hocmem).2.1
  -- colours
  have hcol : ∀ w, colOf r w = if w = cv then (nc : Int) else colOf t w := by
    intro w
    unfold colOf
    rw [hcolr, getD_set]
    by_cases hwc : w = cv
    · subst hwc; rw [if_pos ⟨rfl, by rw [hu.lcol]; exact hcvn⟩, if_pos rfl]
    · rw [if_neg (fun e => hwc e.1.symm), if_neg hwc]
  have hcolv : colOf r cv = (nc : Int) := by rw [hcol cv, if_pos rfl]
  have hcolpre : ∀ w ∈ s.chosen.take i, colOf r w = colOf s w := by
    intro w hw
    have hne : w ≠ cv := fun e => hcvpre (by rw [← e]; exact hw)
    rw [hcol w, if_neg hne]
    exact hu.colpre w (by rw [hCsplit]; exact List.mem_append_left _ hw)
  have hcolt_cv : colOf t cv = (oc : Int) := by
    rw [hu.colpre cv (by rw [hCsplit]; simp)]; exact hcolI
  -- access
  have hlen : r.chosen.length = i + 1 := by rw [hch, List.length_take]; omega
  have hget_ch : ∀ k, k ≤ i → r.chosen.getD k 0 = s.chosen.getD k 0 := by
    intro k hk; rw [hch, getD_take_lt 0 (by omega)]
  have hget_cho : ∀ k, k ≤ i → r.choices.getD k [] = s.choices.getD k [] := by
    intro k hk; rw [hcho, getD_take_lt [] (by omega)]
  have hget_cur : ∀ k, k ≤ i → r.cur.getD k 0 = if k = i then s.cur.getD i 0 + 1 else s.cur.getD k 0 := by
    intro k hk
    rw [hcur]
    exact getD_set_take s.cur i k _ 0 (by rw [h.lcur]; exact hi) hk
  have htake : ∀ k, k ≤ i + 1 → r.chosen.take k = s.chosen.take k := by
    intro k hk; rw [hch, take_take_le hk]
  have hmemtake : ∀ k, k ≤ i → ∀ w ∈ s.chosen.take k, w ∈ s.chosen.take i := by
    intro k hk w hw
    rw [← take_take_le hk] at hw
    exact List.mem_of_mem_take hw
  have hmaxtake : ∀ k, k ≤ i → maxCol (colOf r) (r.chosen.take k) = maxCol (colOf s) (s.chosen.take k) := by
    intro k hk
    rw [htake k (by omega)]
    exact maxCol_congr fun w hw => hcolpre w (hmemtake k hk w hw)
  have hcnttake : ∀ k, k ≤ i → ∀ u c,
      cntCol g (colOf r) (r.chosen.take k) u c = cntCol g (colOf s) (s.chosen.take k) u c := by
    intro k hk u c
    rw [htake k (by omega)]
    exact cntCol_congr (fun w hw => hcolpre w (hmemtake k hk w hw)) u c
  have hmaxC : maxCol (colOf r) (s.chosen.take (i + 1)) = max (maxCol (colOf s) (s.chosen.take i)) (nc : Int) := by
    rw [hCsplit, maxCol_snoc, hcolv, maxCol_congr hcolpre]
  -- counters of path vertices
  have hCheap : ∀ w ∈ s.chosen.take (i + 1), w ∉ t.heap := fun w hw hm => ((hu.hmem w).1 hm).2 hw
  have hseenC : ∀ w ∈ s.chosen.take (i + 1), ∀ c, seenAt r w c = seenAt s w c := by
    intro w hw c
    rw [hseen w c, if_neg (hCheap w hw), Int.add_zero]
    exact hu.seenP w hw c
  have hkC : ∀ k, k ≤ i → s.chosen.getD k 0 ∈ s.chosen.take (i + 1) :=
    fun k hk => (mem_take_iff_getD (by omega)).2 ⟨k, by omega, rfl⟩
  refine ⟨?_, hch, hupp, hbest, hcho, hcur, hcolpre⟩
  exact
    { npos := h.npos
      lcol := by rw [hcolr, List.length_set]; exact hu.lcol
      lseen := hsl
      lrow := hrl
      chn := by rw [hch]; exact h.chn.sublist (List.take_sublist _ _)
      chlt := fun w hw => h.chlt w (by rw [hch] at hw; exact List.mem_of_mem_take hw)
      lcur := by rw [hcur, hch]; simp [h.lcur]
      lcho := by rw [hcho, hch]; simp [h.lcho]
      hnd := hperm.nodup_iff.2 hu.hnd
      hmem := by
        intro w
        rw [hperm.mem_iff, hu.hmem w, hch]
      colun := by
        intro w hw hwn
        rw [hch] at hwn
        have hne : w ≠ cv := fun e => hwn (by rw [hCsplit, e]; simp)
        rw [hcol w, if_neg hne]
        exact hu.colrest w hw hwn
      colch := by
        intro k hk
        rw [hlen] at hk
        rw [hget_cur k (by omega), hget_cho k (by omega), hget_ch k (by omega)]
        by_cases hki : k = i
        · subst hki
          rw [if_pos rfl, hcvdef, hcolv, hnc]
          exact ⟨hadv, rfl⟩
        · rw [if_neg hki]
          have hkpre : s.chosen.getD k 0 ∈ s.chosen.take i := (mem_take_iff_getD (by omega)).2 ⟨k, by omega, rfl⟩
          rw [hcolpre _ hkpre]
          exact h.colch k (by omega)
      hok := hokr
      seenH := by
        intro u hum c hc
        have hut : u ∈ t.heap := hperm.subset hum
        rw [hseen u c, if_pos hut, hu.seenH u hut c hc, hch, hCsplit, cntCol_snoc, cntCol_snoc, hcolv, hcolI,
          cntCol_congr hcolpre u c]
        generalize cntCol g (colOf s) (s.chosen.take i) u c = X
        by_cases hadj : g.adj u cv = true
        · simp only [hadj, true_and, if_true, Int.natCast_inj]
          split_ifs <;> omega
        · simp only [hadj, false_and, if_false, Bool.false_eq_true]
          omega
      seenC := by
        intro k hk c hc
        rw [hlen] at hk
        rw [hget_ch k (by omega), hcnttake k (by omega), hseenC _ (hkC k (by omega))]
        exact h.seenC k (by omega) c hc
      optS := by
        intro k hk
        rw [hlen] at hk
        rw [hget_cho k (by omega)]; exact h.optS k (by omega)
      optF := by
        intro k hk c hc
        rw [hlen] at hk
        rw [hget_cho k (by omega)] at hc
        rw [hget_ch k (by omega), hmaxtake k (by omega), hseenC _ (hkC k (by omega))]
        exact h.optF k (by omega) c hc
      optC := by
        intro k hk c hc1 hc2 hc3
        rw [hlen] at hk
        rw [hget_cho k (by omega)]
        rw [hget_ch k (by omega), hseenC _ (hkC k (by omega))] at hc3
        rw [hmaxtake k (by omega)] at hc1
        rw [hupp] at hc2
        exact h.optC k (by omega) c hc1 hc2 hc3
      mused := by
        rw [hmax]
        have hfold := foldl_max (colOf r) (s.chosen.take (i + 1)) 0 (by omega)
        have hcr : (fun (m : Int) (u : Nat) => if (t.colouring.set cv (nc : Int)).getD u 0 > m
            then (t.colouring.set cv (nc : Int)).getD u 0 else m) =
            (fun m u => if colOf r u > m then colOf r u else m) := by
          funext m u; unfold colOf; rw [hcolr]
        rw [hcr, hfold, hch, hmaxC]
        have := Int.natCast_nonneg nc
        omega
      seg := by
        intro k hk c hc
        rw [hlen] at hk
        by_cases hki : k ≤ i
        · rw [hmaxtake k hki] at hc
          obtain ⟨w, hw, hwc⟩ := h.seg k (by omega) c hc
          exact ⟨w, by rw [htake k (by omega)]; exact hw, by rw [hcolpre w (hmemtake k hki w hw)]; exact hwc⟩
        · have hke : k = i + 1 := by omega
          subst hke
          rw [htake _ (Nat.le_refl _), hmaxC] at hc
          rw [htake _ (Nat.le_refl _)]
          by_cases hle : (c : Int) ≤ maxCol (colOf s) (s.chosen.take i)
          · obtain ⟨w, hw, hwc⟩ := h.seg i (by omega) c hle
            exact ⟨w, by rw [hCsplit]; exact List.mem_append_left _ hw, by rw [hcolpre w hw]; exact hwc⟩
          · have : c = nc := by omega
            subst this
            exact ⟨cv, by rw [hCsplit]; simp, hcolv⟩
      uple := by rw [hupp]; exact h.uple
      up1 := by rw [hupp]; exact h.up1
      best := by rw [hbest, hupp]; exact h.best }

end CliqueColour
