import Mamba.Lemmas.IRAut
import Mamba.Lemmas.IRClasses
/-!
# The order list of a leaf; leaves keep the leading singleton cells of a node in place

`invOrder n l` is the leaf `l` (vertex ↦ position) read as the list position ↦ vertex. `cert` only depends on the
colouring on `0..n-1` (`cert_congr`). A leaf that refines a colouring `c0` monotonically (`Mono`) keeps the vertices of
the leading singleton cells `0..s-1` of `c0` at the positions `0..s-1` (`mono_singleton_prefix`, `invOrder_prefix`).
-/
namespace IR
open Finset

/-- position ↦ vertex -/
def invOrder (n : Nat) (l : Array Nat) : List Nat := (List.range n).map (invFn n l)

theorem invOrder_length (n : Nat) (l : Array Nat) : (invOrder n l).length = n := by
  simp [invOrder]

theorem invOrder_perm {n : Nat} {l : Array Nat} (hl : IsPerm n l) : (invOrder n l).Perm (List.range n) :=
  range_map_perm (σ := col l) (τ := invFn n l) (fun _ hv => inv_left hl hv) (fun _ hp => (inv_right hl hp).2)
    hl.1 (fun _ hp => (inv_right hl hp).1)

theorem invOrder_nodup {n : Nat} {l : Array Nat} (hl : IsPerm n l) : (invOrder n l).Nodup :=
  (invOrder_perm hl).nodup_iff.2 List.nodup_range

theorem invOrder_getElem? {n : Nat} {l : Array Nat} (_hl : IsPerm n l) {p : Nat} (hp : p < n) :
    (invOrder n l)[p]? = some (invFn n l p) := by
  simp [invOrder, hp]

theorem invOrder_idxOf {n : Nat} {l : Array Nat} (hl : IsPerm n l) {v : Nat} (hv : v < n) :
    (invOrder n l).idxOf v = col l v := by
  have hlt : col l v < (invOrder n l).length := by rw [invOrder_length]; exact hl.1 v hv
  have e : (invOrder n l)[col l v] = v := by
    simp only [invOrder, List.getElem_map, List.getElem_range]
    exact inv_left hl hv
  have := (invOrder_nodup hl).idxOf_getElem (col l v) hlt
  rwa [e] at this

/-! ### the certificate only reads the colouring on `0..n-1` -/

theorem codes_congr {g : G} (hg : WF g) {l l' : Array Nat} (h : ∀ v, v < g.n → col l v = col l' v) :
    codes g l = codes g l' := by
  unfold codes
  apply List.flatMap_congr
  intro u hu
  have hu' := List.mem_range.1 hu
  apply List.filterMap_congr
  intro v hv
  rw [h u hu', h v (hg.lt u hu' v hv)]

theorem cert_congr {g : G} (hg : WF g) {l l' : Array Nat} (h : ∀ v, v < g.n → col l v = col l' v) :
    cert g l = cert g l' := by
  unfold cert
  rw [codes_congr hg h]

theorem cert_tab_invOrder {g : G} (hg : WF g) {l : Array Nat} (hl : IsPerm g.n l) :
    cert g (tab g.n (fun v => (invOrder g.n l).idxOf v)) = cert g l := by
  apply cert_congr hg
  intro v hv
  rw [col_tab _ hv, invOrder_idxOf hl hv]

/-! ### the singleton prefix -/

theorem mono_singleton_prefix {n : Nat} {c0 l : Array Nat} (hp : IsPerm n l) (hm : Mono n c0 l) {s : Nat}
    {f : Nat → Nat}
    (hf : ∀ p, p < s → f p < n ∧ col c0 (f p) = p)
    (hrest : ∀ v, v < n → (∀ p, p < s → v ≠ f p) → s ≤ col c0 v)
    (hinj : ∀ p q, p < s → q < s → f p = f q → p = q) :
    ∀ p, p < s → col l (f p) = p := by
  intro p hps
  obtain ⟨hvn, hvc⟩ := hf p hps
  -- lower bound: `f 0 … f (p-1)` have a smaller colour
  have hlow : p ≤ col l (f p) := by
    refine Nat.le_trans ?_ (mono_lower hp hm hvn)
    have hsub : (Finset.range p).image f ⊆ (Finset.range n).filter (fun u => col c0 u < col c0 (f p)) := by
      intro u hu
      obtain ⟨q, hq, rfl⟩ := Finset.mem_image.1 hu
      have hq' : q < p := Finset.mem_range.1 hq
      obtain ⟨h1, h2⟩ := hf q (by omega)
      exact Finset.mem_filter.2 ⟨Finset.mem_range.2 h1, by rw [h2, hvc]; exact hq'⟩
    have hcard : ((Finset.range p).image f).card = p := by
      rw [Finset.card_image_of_injOn, Finset.card_range]
      intro a ha b hb e
      have ha' : a < p := by simpa using ha
      have hb' : b < p := by simpa using hb
      exact hinj a b (by omega) (by omega) e
    have := Finset.card_le_card hsub
    omega
  -- upper bound: everything outside `f 0 … f p` has a larger colour
  have hup := mono_upper hp hm hvn
  have hsub : Finset.range n \ (Finset.range (p + 1)).image f ⊆
      (Finset.range n).filter (fun u => col c0 (f p) < col c0 u) := by
    intro u hu
    obtain ⟨hun, hnot⟩ := Finset.mem_sdiff.1 hu
    have hun' : u < n := Finset.mem_range.1 hun
    refine Finset.mem_filter.2 ⟨hun, ?_⟩
    rw [hvc]
    by_cases hex : ∃ q, q < s ∧ u = f q
    · obtain ⟨q, hq, rfl⟩ := hex
      rw [(hf q hq).2]
      by_contra hle
      exact hnot (Finset.mem_image.2 ⟨q, Finset.mem_range.2 (by omega), rfl⟩)
    · have := hrest u hun' (fun q hq e => hex ⟨q, hq, e⟩)
      omega
  have h1 := Finset.card_le_card hsub
  have h2 := Finset.le_card_sdiff ((Finset.range (p + 1)).image f) (Finset.range n)
  have h3 : ((Finset.range (p + 1)).image f).card ≤ p + 1 := by
    simpa using Finset.card_image_le (s := Finset.range (p + 1)) (f := f)
  have h4 := hp.1 (f p) hvn
  simp only [Finset.card_range] at h2
  omega

theorem invOrder_prefix {n : Nat} {c0 l : Array Nat} (hp : IsPerm n l) (hm : Mono n c0 l) {s : Nat}
    {f : Nat → Nat}
    (hf : ∀ p, p < s → f p < n ∧ col c0 (f p) = p)
    (hrest : ∀ v, v < n → (∀ p, p < s → v ≠ f p) → s ≤ col c0 v)
    (hinj : ∀ p q, p < s → q < s → f p = f q → p = q) :
    ∀ p, p < s → (invOrder n l)[p]? = some (f p) := by
  intro p hps
  have e := mono_singleton_prefix hp hm hf hrest hinj p hps
  have hvn := (hf p hps).1
  have hpn : p < n := by have := hp.1 (f p) hvn; omega
  rw [invOrder_getElem? hp hpn]
  have := inv_left hp hvn
  rw [e] at this
  rw [this]

end IR
