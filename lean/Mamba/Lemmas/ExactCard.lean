import Mamba.Lemmas.ExactOrbits
namespace Search
open GSearch

/-- number of vertices of `0..nv-1` in the set `S` -/
def cardIn (nv : Nat) (S : List Nat) : Nat := ((List.range nv).filter fun v => decide (v ∈ S)).length

theorem cardIn_equiv {g h : DG} {S T : List Nat} (e : ExtEquiv g S h T) : cardIn g.nv S = cardIn h.nv T := by
  obtain ⟨hn, σ, hσ, -, hS⟩ := e
  unfold cardIn
  rw [← hn]
  have hp : (((List.range g.nv).filter fun v => decide (v ∈ S)).map σ).Perm
      ((List.range g.nv).filter fun v => decide (v ∈ T)) := by
    refine (List.perm_ext_iff_of_nodup ?_ (List.Nodup.filter _ List.nodup_range)).2 ?_
    · refine List.Nodup.map_on ?_ (List.Nodup.filter _ List.nodup_range)
      intro x hx y hy h
      simp only [List.mem_filter, List.mem_range] at hx hy
      exact hσ.inj x y hx.1 hy.1 h
    · intro w
      simp only [List.mem_map, List.mem_filter, List.mem_range, decide_eq_true_eq]
      constructor
      · rintro ⟨v, ⟨hv, hvS⟩, rfl⟩
        exact ⟨hσ.maps v hv, (hS v hv).1 hvS⟩
      · rintro ⟨hw, hwT⟩
        obtain ⟨v, hv, rfl⟩ := hσ.surj w hw
        exact ⟨v, ⟨hv, (hS v hv).2 hwT⟩, rfl⟩
  rw [← hp.length_eq, List.length_map]

theorem cardIn_sub {nv k : Nat} {c : List Nat} (hc : IsSub nv k c) : cardIn nv c = k := by
  unfold cardIn
  rw [← hc.1]
  apply List.Perm.length_eq
  refine (List.perm_ext_iff_of_nodup (List.Nodup.filter _ List.nodup_range) (hc.2.1.imp fun h => Nat.ne_of_lt h)).2 ?_
  intro a
  simp only [List.mem_filter, List.mem_range, decide_eq_true_eq]
  exact ⟨fun h => h.2, fun h => ⟨hc.2.2 a h, h⟩⟩

theorem cardIn_congr {nv : Nat} {S T : List Nat} (h : ∀ v, v ∈ S ↔ v ∈ T) : cardIn nv S = cardIn nv T := by
  unfold cardIn
  congr 1
  apply List.filter_congr
  intro v _
  simp [h v]

theorem cardIn_mask {nv k : Nat} {c : List Nat} (hc : IsSub nv k c) : cardIn nv (bitsOf (maskOf c)) = k := by
  rw [cardIn_congr (fun v => mem_bitsOf_maskOf), cardIn_sub hc]

theorem cardIn_zero (nv : Nat) : cardIn nv (bitsOf 0) = 0 := by
  rw [bitsOf_zero]; simp [cardIn]

theorem cardIn_shift {nv j : Nat} (hj : j < nv) : cardIn nv (bitsOf (1 <<< j)) = 1 := by
  have : IsSub nv 1 [j] := ⟨rfl, List.pairwise_singleton _ _, by simpa using hj⟩
  rw [cardIn_congr (T := [j]) (fun v => by rw [mem_bitsOf_shift]; simp), cardIn_sub this]

end Search
