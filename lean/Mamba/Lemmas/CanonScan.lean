import Mamba.Lemmas.CanonSums
namespace Search
open Disjoint GSearch GraphSpec

theorem testBit_xor_shift (vb i v : Nat) : (vb ^^^ (1 <<< i)).testBit v = (vb.testBit v != decide (v = i)) := by
  rw [Nat.testBit_xor, Nat.testBit_shiftLeft]
  by_cases h : v = i
  · subst h; simp
  · have : (decide (v ≥ i) && (1 : Nat).testBit (v - i)) = false := by
      by_cases hge : v ≥ i
      · have hne : v - i ≠ 0 := by omega
        have : (1 : Nat).testBit (v - i) = false := by
          cases hb : (1 : Nat).testBit (v - i)
          · rfl
          · exact absurd (Nat.testBit_one_eq_true_iff_self_eq_zero.1 hb) hne
        simp [this]
      · simp [hge]
    simp [this, h]

/-- `(a, b)` is lexicographically larger than `(s, q)` -/
def keyGt (k : Int × Int) (s q : Int) : Prop := k.1 > s ∨ (k.1 = s ∧ k.2 > q)

instance (k : Int × Int) (s q : Int) : Decidable (keyGt k s q) := by unfold keyGt; infer_instance

/-- second loop of `isCanonical` -/
theorem sumScan_spec {g : DG} (hb : Built g) (sum square : Int) :
    ∀ (l : List Nat) (vb : Nat) (r : Option Nat), l.Nodup → (∀ v ∈ l, v < g.nv ∧ vb.testBit v = true) →
      sumScan g sum square l vb = .ok r →
      (r = none → ∃ v ∈ l, keyGt (nkey g v) sum square) ∧
      (∀ vb', r = some vb' → (∀ v ∈ l, ¬ keyGt (nkey g v) sum square) ∧
        ∀ u, vb'.testBit u = (vb.testBit u && !decide (u ∈ l ∧ nkey g u ≠ (sum, square))))
  | [], vb, r, _, _, h => by
    simp only [sumScan, Outcome.ok.injEq] at h
    subst h
    simp
  | v :: vs, vb, r, hnd, hl, h => by
    have hnd' := List.nodup_cons.1 hnd
    have hv := hl v List.mem_cons_self
    simp only [sumScan, sumSqNbrs_range hb hv.1] at h
    have hrest : ∀ vb2 : Nat, (∀ u, u ≠ v → vb2.testBit u = vb.testBit u) → ∀ w ∈ vs, w < g.nv ∧ vb2.testBit w = true := by
      intro vb2 h2 w hw
      have hwv : w ≠ v := fun e => hnd'.1 (e ▸ hw)
      exact ⟨(hl w (List.mem_cons_of_mem _ hw)).1, by rw [h2 w hwv]; exact (hl w (List.mem_cons_of_mem _ hw)).2⟩
    by_cases h1 : (nkey g v).1 > sum
    · simp only [h1, if_true, Outcome.ok.injEq] at h
      subst h
      exact ⟨fun _ => ⟨v, List.mem_cons_self, Or.inl h1⟩, fun vb' h => by cases h⟩
    · simp only [h1, if_false] at h
      by_cases h2 : (nkey g v).1 < sum
      · simp only [h2, if_true] at h
        have hx : ∀ u, u ≠ v → (vb ^^^ (1 <<< v)).testBit u = vb.testBit u := by
          intro u hu; rw [testBit_xor_shift]; simp [hu]
        obtain ⟨a1, a2⟩ := sumScan_spec hb sum square vs _ r hnd'.2 (hrest _ hx) h
        refine ⟨fun hr => ?_, fun vb' hr => ?_⟩
        · obtain ⟨w, hw, hg⟩ := a1 hr
          exact ⟨w, List.mem_cons_of_mem _ hw, hg⟩
        · obtain ⟨b1, b2⟩ := a2 vb' hr
          refine ⟨?_, ?_⟩
          · intro w hw
            rcases List.mem_cons.1 hw with rfl | hw
            · rintro (hg | ⟨hg, -⟩) <;> omega
            · exact b1 w hw
          · intro u
            rw [b2 u, testBit_xor_shift]
            by_cases huv : u = v
            · subst huv
              have hne : nkey g u ≠ (sum, square) := by
                intro e; rw [e] at h2; simp at h2
              simp [hv.2, hnd'.1, hne]
            · simp [huv]
      · simp only [h2, if_false] at h
        have heq : (nkey g v).1 = sum := by omega
        by_cases h3 : (nkey g v).2 > square
        · simp only [h3, if_true, Outcome.ok.injEq] at h
          subst h
          exact ⟨fun _ => ⟨v, List.mem_cons_self, Or.inr ⟨heq, h3⟩⟩, fun vb' h => by cases h⟩
        · simp only [h3, if_false] at h
          by_cases h4 : (nkey g v).2 < square
          · simp only [h4, if_true] at h
            have hx : ∀ u, u ≠ v → (vb ^^^ (1 <<< v)).testBit u = vb.testBit u := by
              intro u hu; rw [testBit_xor_shift]; simp [hu]
            obtain ⟨a1, a2⟩ := sumScan_spec hb sum square vs _ r hnd'.2 (hrest _ hx) h
            refine ⟨fun hr => ?_, fun vb' hr => ?_⟩
            · obtain ⟨w, hw, hg⟩ := a1 hr
              exact ⟨w, List.mem_cons_of_mem _ hw, hg⟩
            · obtain ⟨b1, b2⟩ := a2 vb' hr
              refine ⟨?_, ?_⟩
              · intro w hw
                rcases List.mem_cons.1 hw with rfl | hw
                · rintro (hg | ⟨-, hg⟩) <;> omega
                · exact b1 w hw
              · intro u
                rw [b2 u, testBit_xor_shift]
                by_cases huv : u = v
                · subst huv
                  have hne : nkey g u ≠ (sum, square) := by
                    intro e; rw [e] at h4; simp at h4
                  simp [hv.2, hnd'.1, hne]
                · simp [huv]
          · simp only [h4, if_false] at h
            have heq2 : (nkey g v).2 = square := by omega
            obtain ⟨a1, a2⟩ := sumScan_spec hb sum square vs vb r hnd'.2 (hrest vb (fun _ _ => rfl)) h
            refine ⟨fun hr => ?_, fun vb' hr => ?_⟩
            · obtain ⟨w, hw, hg⟩ := a1 hr
              exact ⟨w, List.mem_cons_of_mem _ hw, hg⟩
            · obtain ⟨b1, b2⟩ := a2 vb' hr
              refine ⟨?_, ?_⟩
              · intro w hw
                rcases List.mem_cons.1 hw with rfl | hw
                · rintro (hg | ⟨-, hg⟩) <;> omega
                · exact b1 w hw
              · intro u
                rw [b2 u]
                by_cases huv : u = v
                · subst huv
                  have he : nkey g u = (sum, square) := Prod.ext heq heq2
                  simp [hnd'.1, he]
                · simp [huv]

end Search
