import Mamba.Lemmas.CanonFDfsBase
/-!
# The complete DFS invariant through `splitBin` (`dfs_split`) and through the refinement (`dfs_refine`)
-/
namespace CanonF
open Relation

/-- `FrameAux1` reads only `vsF`, `vsB`, `bgs` of the ghost data -/
theorem FrameAux1.congr_ghvs {n : Nat} {nb : Nbrs} {rf : Nat} {r : IR.St} {gh : Gh} {s : LS} {us : List Nat}
    {incl : Bool} {ps : List Nat} {c st sz : Nat} (h : FrameAux1 n nb rf r gh s us incl ps c st sz) (vs' : List Nat) :
    FrameAux1 n nb rf r { gh with vs := vs' } s us incl ps c st sz :=
  ⟨h.futF, h.futB, h.bpF, h.bpB, h.e1, h.e2, h.fb, h.ph1⟩

theorem FrameAux.congr_ghvs {n : Nat} {nb : Nbrs} {rf : Nat} {r : IR.St} {gh : Gh} {s : LS} {us : List Nat}
    (vs' : List Nat) :
    ∀ (incl : Bool) (path choices : List Nat) (lv : List (Nat × Nat)),
      FrameAux n nb rf r gh s us incl path choices lv →
      FrameAux n nb rf r { gh with vs := vs' } s us incl path choices lv := by
  intro incl path
  induction path generalizing incl with
  | nil => intro choices lv h; cases choices <;> cases lv <;> simp_all [FrameAux]
  | cons p ps ih =>
    intro choices lv h
    cases choices with
    | nil => simp [FrameAux] at h
    | cons c cs =>
      cases lv with
      | nil => simp [FrameAux] at h
      | cons x ls =>
        obtain ⟨st, sz⟩ := x
        simp only [FrameAux] at h ⊢
        exact ⟨h.1.congr_ghvs vs', ih false cs ls h.2⟩

theorem snoc_eq_take {l x : List Nat} {v : Nat} (h : l ++ [v] = x.take (l.length + 1)) :
    l.take l.length = x.take l.length ∧ x[l.length]? = some v := by
  constructor
  · have := congrArg (List.take l.length) h
    rw [List.take_take, Nat.min_eq_left (Nat.le_succ _), List.take_append_of_le_length (Nat.le_refl _)] at this
    exact this
  · have := congrArg (fun y => y[l.length]?) h
    simp only [List.getElem?_take] at this
    rw [if_pos (Nat.lt_succ_self _)] at this
    rw [← this]
    simp

theorem covFrames_eq {n : Nat} {nb : Nbrs} {rf : Nat} {r : IR.St} {s : LS} {vs : List Nat} {incl : Bool}
    {path path' choices choices' : List Nat} {lv : List (Nat × Nat)} (e : path' = path) (e' : choices' = choices)
    (h : CovFrames n nb rf r s vs incl path choices lv) : CovFrames n nb rf r s vs incl path' choices' lv := by
  subst e; subst e'; exact h

theorem frameAux_eq {n : Nat} {nb : Nbrs} {rf : Nat} {r : IR.St} {gh : Gh} {s : LS} {vs : List Nat} {incl : Bool}
    {path path' choices choices' : List Nat} {lv : List (Nat × Nat)} (e : path' = path) (e' : choices' = choices)
    (h : FrameAux n nb rf r gh s vs incl path choices lv) : FrameAux n nb rf r gh s vs incl path' choices' lv := by
  subst e; subst e'; exact h

theorem levelsOK_path_ne {op : OP} {p : Nat} {ps choices : List Nat} {lv : List (Nat × Nat)}
    (h : LevelsOK op (p :: ps) choices lv) : ∃ c cs st sz ls, choices = c :: cs ∧ lv = (st, sz) :: ls ∧ c = st + p := by
  match choices, lv, h with
  | c :: cs, (st, sz) :: ls, h =>
    simp only [LevelsOK] at h
    exact ⟨c, cs, st, sz, ls, rfl, rfl, h.2.2.1⟩

/-- the position `c - 1` that `jLoop` splits at is inside a non-singleton bin -/
theorem top_split_facts {n : Nat} {nb : Nbrs} {rf : Nat} {r : IR.St} {st sz : Nat} {ls : List (Nat × Nat)} {s : LS}
    {c : Nat} {cs : List Nat} {p : Nat} {ps : List Nat} {k : Nat} (hc : Core n s)
    (ht : TopOK s.op (k + 1) s.path s.choices ((st, sz) :: ls)) (hage : s.op.age + 1 = s.path.length)
    (hch : s.choices = c :: cs) (hpth : s.path = p :: ps)
    {vs : List Nat} (h : WalkNv n nb rf r vs ((st, sz) :: ls) s) :
    c - 1 < n ∧ NonSingleton s.op.binDividers.toList (c - 1) ∧ c = st + (k + 1) := by
  obtain ⟨h1, h2, h3, h4, h5, h6, h7⟩ := h
  rw [hpth, hch] at ht
  simp only [TopOK] at ht
  obtain ⟨tb, tsz, tc, tk, _⟩ := ht
  rw [hpth] at h3 hage
  simp only [List.length_cons] at h3 hage
  have hm : Match n s.op (nodeL n nb rf r vs vs.length) :=
    (h4 vs.length (Nat.le_refl _)).toMatch hc.part hc.age (by omega) h7
  have hb : IsBinAt (s.op.age + 1) s.op st sz := by
    have : s.op.age + 1 = (ps.length : Int) + 1 := by omega
    rw [this]; exact tb
  obtain ⟨hi, hns, _⟩ := frame_facts (nb := nb) hc.part hc.age hm hb tsz
    (show st ≤ c - 1 by omega) (show c - 1 < st + sz by omega)
  exact ⟨hi, hns, tc⟩

section
variable {n m : Nat} {nb : Nbrs} {rf : Nat} {r : IR.St}
  (hnb : NbOK nb n) (hsz : nb.size = n) (hm : m = ((nb.toList.map List.length).sum) / 2) (hrf : 3 * n + 3 ≤ rf)
  (hA : IR.InvA (irG n nb) r) (hD : IR.InvD (irG n nb) r)
include hnb hsz hm hrf hA hD

set_option linter.unusedVariables false in
set_option maxHeartbeats 1000000 in
theorem dfs_split_v (st sz : Nat) (ls : List (Nat × Nat)) (s : LS) (c : Nat) (cs : List Nat) (p : Nat) (ps : List Nat)
    (ce : Nat) (bo : Disjoint.DS) (w : Bool) (op' : OP) (k : Nat) (hc : Core n s)
    (ht : TopOK s.op (k + 1) s.path s.choices ((st, sz) :: ls))
    (hsk : s.skipDeage = false) (hage : s.op.age + 1 = s.path.length) (hch : s.choices = c :: cs)
    (hpth : s.path = p :: ps) (hget : s.op.order.get (c - 1) = .ok ce)
    (hh : (if (decide (s.count > 0) && !hasPrefix s.flPath.toList ps.reverse && hasPrefix s.bestPath.toList ps.reverse) = true
      then h2Best s.op s.bestOrbits (c - 1) ce else Outcome.ok (false, s.bestOrbits)) = .ok (false, bo))
    (hs : splitBin nb s.currentBest s.firstLeaf s.op (c - 1) = .ok (w, op'))
    (hJ : CertN n m nb ((st, sz) :: ls) s) (gh : Gh) (h : DNv n nb rf r gh ((st, sz) :: ls) s) :
    (w = false → ∃ t v, DSv n nb rf r gh t v ((st, sz) :: ls)
      { s with choices := (c - 1) :: cs, bestOrbits := bo, op := op', path := k :: ps }) ∧
    (w = true → DAv n nb rf r gh ((st, sz) :: ls)
      { s with choices := (c - 1) :: cs, bestOrbits := bo, op := op', path := k :: ps }) := by
  obtain ⟨hw, hG, hcov, haux⟩ := h
  obtain ⟨m1, m2, m3, m4, m5⟩ := top_member hc ht hage hch hpth hget hw
  obtain ⟨hi, hns, tc⟩ := top_split_facts hc ht hage hch hpth hw
  obtain ⟨v, hv, hCk, hvl, q1, q2⟩ := walk_split st sz ls s c cs p ps ce bo w op' k hc ht hage hch hpth hget hs hw
  -- the global invariant
  have hG' : GlobalInv n nb rf r gh
      { s with choices := (c - 1) :: cs, bestOrbits := bo, op := op', path := k :: ps } := by
    refine ⟨hG.first, hG.best, hG.bgsAut, hG.ngens0, ?_, hG.bpLen, hG.fpLen⟩
    intro hpos
    obtain ⟨b1, b2, b3⟩ := hG.bestOrb hpos
    show Disjoint.Inv bo ∧ bo.size = n ∧ _
    split at hh
    · obtain ⟨a1, a2, a3, _⟩ := h2Best_spec hc.part b1 b2 m5 hi hh
      refine ⟨a1, a2, fun a b ha hb hab => b3 a b ha hb ?_⟩
      show Disjoint.rep s.bestOrbits a = Disjoint.rep s.bestOrbits b
      rw [← a3 a ha, ← a3 b hb]; exact hab
    · cases hh
      exact ⟨b1, b2, b3⟩
  rw [hpth, hch] at haux
  have hhead := haux.head
  have htail := haux.tail
  constructor
  · intro hwf
    refine ⟨st, v, q1 hwf, hG', ?_, ?_, ?_⟩
    · have h1 := cov_split_ok st sz ls s c cs p ps bo op' k hch hpth m3 hcov
      exact CovFrames.congr (s := { s with choices := (c - 1) :: cs, bestOrbits := bo, op := op', path := k :: ps })
        (s' := { s with choices := (c - 1) :: cs, bestOrbits := bo, op := op', path := k :: ps })
        rfl (fun _ => rfl) rfl false _ _ _
        (fun L hL => take_append_le gh.vs v (by simp only [List.length_cons] at hL; omega)) h1
    · have h1 : FrameAux n nb rf r gh s gh.vs false (k :: ps) ((c - 1) :: cs) ((st, sz) :: ls) :=
        FrameAux.mk (hhead.start_child m3) htail
      exact FrameAux.congr (s := s)
        (s' := { s with choices := (c - 1) :: cs, bestOrbits := bo, op := op', path := k :: ps })
        rfl rfl rfl rfl false _ _ _
        (fun L hL => take_append_le gh.vs v (by simp only [List.length_cons] at hL; omega)) h1
    · intro hpos
      have hpos' : 0 < s.count := hpos
      have hcell : (cellL n nb rf r gh.vs ps.length st)[k]? = some v := by rw [← hvl]; exact hCk
      have hlen : (gh.vs ++ [v]).length = gh.vs.length + 1 := by simp
      rw [hlen]
      constructor
      · intro e
        obtain ⟨e1, e2⟩ := snoc_eq_take e
        rw [hvl] at e1 e2
        exact hhead.futF hpos' k v (by omega) hcell ⟨e1, e2⟩
      · intro e
        obtain ⟨e1, e2⟩ := snoc_eq_take e
        rw [hvl] at e1 e2
        exact hhead.futB hpos' k v (by omega) hcell ⟨e1, e2⟩
  · intro hwt
    subst hwt
    have hcnt : 0 < s.count := by
      by_contra hn
      have h0 := hJ.2.2.zero (by omega)
      have := splitBin_not_worse h0 hc.part hc.age hi hns hs
      cases this
    refine ⟨q2 rfl, hG', ?_, ?_, ?_⟩
    · exact cov_split_worse_step hnb hsz hm hrf hA hD st sz ls s c cs p ps ce bo op' k hc ht hage hch hpth hget hs hw hJ
        hcov
    · have h1 : FrameAux n nb rf r gh s gh.vs true (k :: ps) ((c - 1) :: cs) ((st, sz) :: ls) :=
        FrameAux.mk (hhead.step_head m3 hcnt) htail
      exact FrameAux.congr (s := s)
        (s' := { s with choices := (c - 1) :: cs, bestOrbits := bo, op := op', path := k :: ps })
        rfl rfl rfl rfl true _ _ _ (fun _ _ => rfl) h1
    · intro hp
      cases hp

set_option linter.unusedVariables false in
theorem dfs_split (st sz : Nat) (ls : List (Nat × Nat)) (s : LS) (c : Nat) (cs : List Nat) (p : Nat) (ps : List Nat)
    (ce : Nat) (bo : Disjoint.DS) (w : Bool) (op' : OP) (k : Nat) (hc : Core n s)
    (ht : TopOK s.op (k + 1) s.path s.choices ((st, sz) :: ls))
    (hsk : s.skipDeage = false) (hage : s.op.age + 1 = s.path.length) (hch : s.choices = c :: cs)
    (hpth : s.path = p :: ps) (hget : s.op.order.get (c - 1) = .ok ce)
    (hh : (if (decide (s.count > 0) && !hasPrefix s.flPath.toList ps.reverse && hasPrefix s.bestPath.toList ps.reverse) = true
      then h2Best s.op s.bestOrbits (c - 1) ce else Outcome.ok (false, s.bestOrbits)) = .ok (false, bo))
    (hs : splitBin nb s.currentBest s.firstLeaf s.op (c - 1) = .ok (w, op'))
    (hJ : CertN n m nb ((st, sz) :: ls) s) (h : DN n nb rf r ((st, sz) :: ls) s) :
    (w = false → DS n nb rf r ((st, sz) :: ls)
      { s with choices := (c - 1) :: cs, bestOrbits := bo, op := op', path := k :: ps }) ∧
    (w = true → DA n nb rf r ((st, sz) :: ls)
      { s with choices := (c - 1) :: cs, bestOrbits := bo, op := op', path := k :: ps }) := by
  obtain ⟨gh, h⟩ := h
  obtain ⟨a, b⟩ := dfs_split_v hnb hsz hm hrf hA hD st sz ls s c cs p ps ce bo w op' k hc ht hsk hage hch hpth hget hh hs hJ
    gh h
  refine ⟨fun hw => ?_, fun hw => ⟨gh, b hw⟩⟩
  obtain ⟨t, v, q⟩ := a hw
  exact ⟨gh, t, v, q⟩

set_option linter.unusedVariables false in
set_option maxHeartbeats 1000000 in
theorem dfs_refine_v (lv : List (Nat × Nat)) (s : LS) (w : Bool) (op' : OP) (sc' sc2 : Scratch) (hc : Core n s)
    (hl : LevelsOK s.op s.path s.choices lv) (hage : s.op.age = s.path.length) (hsk : s.skipDeage = false)
    (htl : s.sc.timesSeen.len = n) (hJ : CertN n m nb lv s) (gh : Gh) (t v : Nat) (h : DSv n nb rf r gh t v lv s)
    (hr : refine nb s.currentBest s.firstLeaf {} s.op s.sc = .ok (w, op', sc')) :
    (w = true → DAv n nb rf r gh lv { s with op := op', sc := sc2 }) ∧
    (w = false → DNodev n nb rf r { gh with vs := gh.vs ++ [v] } lv { s with op := op', sc := sc2 }) := by
  obtain ⟨hw, hG, hcov, haux, hoff⟩ := h
  obtain ⟨q1, q2⟩ := walk_refine hnb hrf lv s w op' sc' hc htl hw hr sc2
  cases w with
  | false =>
    refine ⟨fun hx => (by cases hx), fun _ => ?_⟩
    refine ⟨q2 rfl, ⟨hG.first, hG.best, hG.bgsAut, hG.ngens0, hG.bestOrb, hG.bpLen, hG.fpLen⟩, ?_, ?_, hoff⟩
    · exact CovFrames.congr (s := s) (s' := { s with op := op', sc := sc2 }) rfl (fun _ => rfl) rfl false _ _ _
        (fun _ _ => rfl) hcov
    · exact FrameAux.congr_ghvs _ false _ _ _
        (FrameAux.congr (s := s) (s' := { s with op := op', sc := sc2 }) rfl rfl rfl rfl false _ _ _
          (fun _ _ => rfl) haux)
  | true =>
    refine ⟨fun _ => ?_, fun hx => (by cases hx)⟩
    have hcnt : 0 < s.count := by
      by_contra hn
      have h0 := hJ.2.2.zero (by omega)
      have := refine_not_worse h0 rfl hr
      cases this
    have hw' := hw
    obtain ⟨h1, h2, _, _, h5, _, _, _, h9, _⟩ := hw'
    obtain ⟨p, ps, hpth⟩ : ∃ p ps, s.path = p :: ps := by
      cases hp : s.path with
      | nil => rw [hp] at h2; simp at h2
      | cons p ps => exact ⟨p, ps, rfl⟩
    rw [hpth] at hl
    obtain ⟨c, cs, st, sz, ls, hch, rfl, hcp⟩ := levelsOK_path_ne hl
    have hcov' := cov_refine_worse_step hnb hsz hm hrf hA hD st sz ls s c cs p ps op' sc' sc2 hc htl hch hpth hcp hw hJ hr
      (CovFrames.congr (s := s) (s' := s) rfl (fun _ => rfl) rfl false _ _ _
        (fun L hL => (take_append_le gh.vs v (by omega)).symm) hcov)
    have hcomp := cov_refine_worse hnb hsz hm hrf hA hD ((st, sz) :: ls) s op' sc' hc htl hw hJ hr
    rw [hpth] at h9 h2
    rw [hch] at h9
    simp only [FramesOK, List.length_cons] at h9 h2
    have hvl : gh.vs.length = ps.length := by omega
    obtain ⟨g1, _, g3, _⟩ := h9
    obtain ⟨g3a, _⟩ := g3 (by simp; omega)
    rw [hpth, hch] at haux
    have hhead : FrameAux1 n nb rf r gh s gh.vs false ps c st sz :=
      haux.head.congr rfl rfl rfl rfl (take_append_le gh.vs v (by omega)).symm
    have htail := haux.tail
    have hhead' : FrameAux1 n nb rf r gh s gh.vs true ps c st sz := by
      apply hhead.finish_child hcnt
      intro w hw' _
      have hv : v = w := by
        have e1 : (gh.vs ++ [v])[ps.length]? = some v := by
          rw [← hvl]; simp
        have ec : cellL n nb rf r (gh.vs ++ [v]) ps.length st = cellL n nb rf r gh.vs ps.length st := by
          unfold cellL
          rw [nodeL_congr (take_append_le gh.vs v (by omega))]
        rw [e1, ec, show p = c - st by omega] at g3a
        rw [hw'] at g3a
        exact Option.some.inj g3a
      subst hv
      have et : t = st := by
        have en : nodeL n nb rf r (gh.vs ++ [v]) ps.length = nodeL n nb rf r gh.vs gh.vs.length := by
          rw [← hvl]; exact nodeL_congr (take_append_le gh.vs v (Nat.le_refl _))
        rw [en, h5] at g1
        exact Option.some.inj g1
      have hcomp' := hcomp
      rw [hvl, et] at hcomp'
      exact hcomp'
    refine ⟨q1 rfl, ⟨hG.first, hG.best, hG.bgsAut, hG.ngens0, hG.bestOrb, hG.bpLen, hG.fpLen⟩, ?_, ?_, ?_⟩
    · exact covFrames_eq hpth hch hcov'
    · apply frameAux_eq hpth hch
      have h3 : FrameAux n nb rf r gh s gh.vs true (p :: ps) (c :: cs) ((st, sz) :: ls) :=
        FrameAux.mk hhead' (FrameAux.congr (s := s) (s' := s) rfl rfl rfl rfl false _ _ _
          (fun L hL => (take_append_le gh.vs v (by omega)).symm) htail)
      exact FrameAux.congr (s := s) (s' := { s with op := op', sc := sc2 }) rfl rfl rfl rfl true _ _ _
        (fun _ _ => rfl) h3
    · intro hp
      have : s.path = [] := hp
      rw [hpth] at this
      cases this

set_option linter.unusedVariables false in
theorem dfs_refine (lv : List (Nat × Nat)) (s : LS) (w : Bool) (op' : OP) (sc' sc2 : Scratch) (hc : Core n s)
    (hl : LevelsOK s.op s.path s.choices lv) (hage : s.op.age = s.path.length) (hsk : s.skipDeage = false)
    (htl : s.sc.timesSeen.len = n) (hJ : CertN n m nb lv s) (h : DS n nb rf r lv s)
    (hr : refine nb s.currentBest s.firstLeaf {} s.op s.sc = .ok (w, op', sc')) :
    DM n nb rf r lv w { s with op := op', sc := sc2 } := by
  obtain ⟨gh, t, v, h⟩ := h
  obtain ⟨a, b⟩ := dfs_refine_v hnb hsz hm hrf hA hD lv s w op' sc' sc2 hc hl hage hsk htl hJ gh t v h hr
  unfold DM
  cases w with
  | false => rw [if_neg (by simp)]; exact ⟨_, b rfl⟩
  | true => rw [if_pos rfl]; exact ⟨gh, a rfl⟩

end
end CanonF
