import Mamba.Spec.Distance
import Mathlib.Data.List.Nodup
/-!
# Lemmas for C10: the path enumeration `pathsFrom` lists every path of the given kind exactly once
-/
namespace GDist
open GraphSpec

variable {g : G} {good : List Nat → Nat → Bool} {s : Nat}

theorem mem_extend {p q : List Nat} :
    q ∈ extend g good p ↔ ∃ h t w, p = h :: t ∧ w < g.n ∧ g.adj h w = true ∧ good p w = true ∧ q = w :: p := by
  cases p with
  | nil => simp [extend]
  | cons h t =>
    simp only [extend, List.mem_map, List.mem_filter, List.mem_range, Bool.and_eq_true]
    constructor
    · rintro ⟨w, ⟨hw, hadj, hgood⟩, rfl⟩
      exact ⟨h, t, w, rfl, hw, hadj, hgood, rfl⟩
    · rintro ⟨h', t', w, heq, hw, hadj, hgood, rfl⟩
      cases heq
      exact ⟨w, ⟨hw, hadj, hgood⟩, rfl⟩

theorem builtFrom_nil : ¬ BuiltFrom g good s [] := by
  intro h; cases h

theorem builtFrom_singleton {x : Nat} : BuiltFrom g good s [x] ↔ x = s ∧ s < g.n := by
  constructor
  · intro h; cases h with
    | base h => exact ⟨rfl, h⟩
  · rintro ⟨rfl, h⟩; exact .base h

theorem builtFrom_cons_cons {w h : Nat} {t : List Nat} :
    BuiltFrom g good s (w :: h :: t) ↔
      BuiltFrom g good s (h :: t) ∧ w < g.n ∧ g.adj h w = true ∧ good (h :: t) w = true := by
  constructor
  · intro hb; cases hb with
    | ext h1 h2 h3 h4 => exact ⟨h1, h2, h3, h4⟩
  · rintro ⟨h1, h2, h3, h4⟩; exact .ext h1 h2 h3 h4

theorem mem_pathsFrom {k : Nat} {p : List Nat} :
    p ∈ pathsFrom g good s k ↔ BuiltFrom g good s p ∧ p.length = k + 1 := by
  induction k generalizing p with
  | zero =>
    simp only [pathsFrom]
    by_cases hs : s < g.n
    · simp only [hs, if_true, List.mem_singleton]
      constructor
      · rintro rfl; exact ⟨.base hs, rfl⟩
      · rintro ⟨hb, hl⟩
        match p, hl with
        | [x], _ => rw [(builtFrom_singleton.1 hb).1]
    · simp only [hs, if_false, List.not_mem_nil, false_iff]
      rintro ⟨hb, hl⟩
      match p, hl with
      | [x], _ => exact hs (builtFrom_singleton.1 hb).2
  | succ k ih =>
    simp only [pathsFrom, List.mem_flatMap]
    constructor
    · rintro ⟨q, hq, hp⟩
      obtain ⟨hbq, hlq⟩ := ih.1 hq
      obtain ⟨h, t, w, rfl, hw, hadj, hgood, rfl⟩ := mem_extend.1 hp
      exact ⟨.ext hbq hw hadj hgood, by simp at hlq ⊢; omega⟩
    · rintro ⟨hb, hl⟩
      match p, hl with
      | w :: h :: t, hl =>
        obtain ⟨h1, h2, h3, h4⟩ := builtFrom_cons_cons.1 hb
        refine ⟨h :: t, ih.2 ⟨h1, by simp at hl ⊢; omega⟩, mem_extend.2 ⟨h, t, w, rfl, h2, h3, h4, rfl⟩⟩

theorem nodup_extend (p : List Nat) : (extend g good p).Nodup := by
  cases p with
  | nil => simp [extend]
  | cons h t =>
    simp only [extend]
    apply List.Nodup.map
    · intro a b hab; simpa using hab
    · exact List.nodup_range.filter _

theorem nodup_pathsFrom (k : Nat) : (pathsFrom g good s k).Nodup := by
  induction k with
  | zero => simp only [pathsFrom]; split <;> simp
  | succ k ih =>
    simp only [pathsFrom]
    rw [List.nodup_flatMap]
    refine ⟨fun p _ => nodup_extend p, ?_⟩
    refine List.Pairwise.imp ?_ ih
    intro p q hpq
    simp only [Function.onFun]
    rw [List.disjoint_left]
    intro x hxp hxq
    obtain ⟨_, _, _, _, _, _, _, rfl⟩ := mem_extend.1 hxp
    obtain ⟨_, _, _, _, _, _, _, h⟩ := mem_extend.1 hxq
    simp at h
    exact hpq h.2

/-! ### the three extension rules -/

theorem isRPath_singleton {x : Nat} : IsRPath g s [x] ↔ x = s ∧ s < g.n := by
  simp only [IsRPath, List.getLast?_singleton, Option.some.injEq, List.nodup_cons, List.not_mem_nil,
    not_false_eq_true, List.nodup_nil, and_self, List.mem_singleton, forall_eq, chainAdj, and_true, true_and]
  constructor
  · rintro ⟨rfl, h⟩; exact ⟨rfl, h⟩
  · rintro ⟨rfl, h⟩; exact ⟨rfl, h⟩

theorem isRPath_cons_cons {w h : Nat} {t : List Nat} :
    IsRPath g s (w :: h :: t) ↔ IsRPath g s (h :: t) ∧ w < g.n ∧ g.adj h w = true ∧ w ∉ h :: t := by
  simp only [IsRPath, List.getLast?_cons_cons, chainAdj]
  constructor
  · rintro ⟨h1, h2, h3, h4, h5⟩
    obtain ⟨h2a, h2b⟩ := List.nodup_cons.1 h2
    exact ⟨⟨h1, h2b, fun x hx => h3 x (List.mem_cons_of_mem _ hx), h5⟩, h3 w List.mem_cons_self, h4, h2a⟩
  · rintro ⟨⟨h1, h2, h3, h4⟩, h5, h6, h7⟩
    refine ⟨h1, List.nodup_cons.2 ⟨h7, h2⟩, ?_, h6, h4⟩
    intro x hx
    rcases List.mem_cons.1 hx with rfl | hx
    · exact h5
    · exact h3 x hx

theorem isRPath_nil : ¬ IsRPath g s [] := by
  intro h; simp [IsRPath] at h

theorem builtFrom_simple_iff {p : List Nat} : BuiltFrom g goodSimple s p ↔ IsRPath g s p := by
  induction p with
  | nil => exact ⟨fun h => absurd h builtFrom_nil, fun h => absurd h isRPath_nil⟩
  | cons w t ih =>
    cases t with
    | nil => rw [builtFrom_singleton, isRPath_singleton]
    | cons h t =>
      rw [builtFrom_cons_cons, isRPath_cons_cons, ih]
      simp [goodSimple]

theorem builtFrom_above_iff {p : List Nat} :
    BuiltFrom g (goodAbove s) s p ↔ IsRPath g s p ∧ ∀ x ∈ p.dropLast, s < x := by
  induction p with
  | nil => exact ⟨fun h => absurd h builtFrom_nil, fun h => absurd h.1 isRPath_nil⟩
  | cons w t ih =>
    cases t with
    | nil => rw [builtFrom_singleton, isRPath_singleton]; simp
    | cons h t =>
      rw [builtFrom_cons_cons, isRPath_cons_cons, ih]
      simp only [goodAbove, Bool.and_eq_true, decide_eq_true_eq, Bool.not_eq_true', List.dropLast_cons_cons,
        List.mem_cons, forall_eq_or_imp]
      constructor
      · rintro ⟨⟨h1, h2⟩, h3, h4, h5, h6⟩
        exact ⟨⟨h1, h3, h4, by simpa using h6⟩, h5, h2⟩
      · rintro ⟨⟨h1, h3, h4, h6⟩, h5, h2⟩
        exact ⟨⟨h1, h2⟩, h3, h4, h5, by simpa using h6⟩

theorem builtFrom_induced_iff {p : List Nat} :
    BuiltFrom g (goodInduced g) s p ↔ IsRPath g s p ∧ chordlessPath g p = true := by
  induction p with
  | nil => exact ⟨fun h => absurd h builtFrom_nil, fun h => absurd h.1 isRPath_nil⟩
  | cons w t ih =>
    cases t with
    | nil => rw [builtFrom_singleton, isRPath_singleton]; simp [chordlessPath]
    | cons h t =>
      rw [builtFrom_cons_cons, isRPath_cons_cons, ih]
      simp only [goodInduced, Bool.and_eq_true, Bool.not_eq_true', List.tail_cons, chordlessPath]
      constructor
      · rintro ⟨⟨h1, h2⟩, h3, h4, h5, h6⟩
        exact ⟨⟨h1, h3, h4, by simpa using h5⟩, h6, h2⟩
      · rintro ⟨⟨h1, h3, h4, h5⟩, h6, h2⟩
        exact ⟨⟨h1, h2⟩, h3, h4, by simpa using h5, h6⟩

end GDist
