import Mamba.Lemmas.CanonFCertRefine
/-!
# The refinement only rearranges `order` inside the bins of the input partition: `refine_rearr`
-/
namespace CanonF

/-! ## the refinement only rearranges `order` inside the bins of the input partition and keeps the old dividers -/

/-- `bs`, `dj` are consecutive entries of `0 :: bd`: no divider lies strictly between them -/
theorem rf_div_not_between {bd : List Nat} (hs : (0 :: bd).Pairwise (· < ·)) {j bs dj : Nat}
    (hbs : (0 :: bd)[j]? = some bs) (hdj : bd[j]? = some dj) {d : Nat} (hd : d ∈ bd) : d ≤ bs ∨ dj ≤ d := by
  obtain ⟨i, hi⟩ := List.mem_iff_getElem?.1 hd
  have hi' : (0 :: bd)[i + 1]? = some d := by rw [List.getElem?_cons_succ]; exact hi
  have hdj' : (0 :: bd)[j + 1]? = some dj := by rw [List.getElem?_cons_succ]; exact hdj
  obtain ⟨k1, e1⟩ := List.getElem?_eq_some_iff.1 hi'
  obtain ⟨k2, e2⟩ := List.getElem?_eq_some_iff.1 hbs
  obtain ⟨k3, e3⟩ := List.getElem?_eq_some_iff.1 hdj'
  have hpw := List.pairwise_iff_getElem.1 hs
  rcases Nat.lt_trichotomy i j with hlt | heq | hgt
  · left
    by_cases hij : i + 1 = j
    · subst hij; exact Nat.le_of_eq (by rw [← e1, e2])
    · have := hpw (i + 1) j k1 k2 (by omega)
      rw [e1, e2] at this; omega
  · right; subst heq; exact Nat.le_of_eq (by rw [← e1, e3])
  · right
    have := hpw (j + 1) (i + 1) k3 k1 (by omega)
    rw [e1, e3] at this; omega

/-- inserting a block of new (divider, age) pairs keeps the old pairs -/
theorem rf_mem_zip_insert {bd nbs : List Nat} {ag : List Int} {j m : Nat} {a : Int} (hl : bd.length = ag.length)
    (hm : nbs.length = m) {x : Nat × Int} (hx : x ∈ bd.zip ag) :
    x ∈ (bd.take j ++ nbs ++ bd.drop j).zip (ag.take j ++ List.replicate m a ++ ag.drop j) := by
  have h1 : (bd.take j).length = (ag.take j).length := by simp [hl]
  have h2 : (bd.take j ++ nbs).length = (ag.take j ++ List.replicate m a).length := by simp [hl, hm]
  rw [List.zip_append h2, List.zip_append h1]
  rw [← List.take_append_drop j bd, ← List.take_append_drop j ag, List.zip_append h1] at hx
  rcases List.mem_append.1 hx with hx | hx
  · exact List.mem_append_left _ (List.mem_append_left _ hx)
  · exact List.mem_append_right _ hx

theorem rf_mem_divs_of_mem_bd {n : Nat} {op : OP} (hp : PartInv n op) {d : Nat} (hd : d ∈ op.binDividers.toList) :
    ∃ a, (d, a) ∈ divs op := by
  obtain ⟨i, hi⟩ := List.mem_iff_getElem?.1 hd
  have hil := (List.getElem?_eq_some_iff.1 hi).1
  have hal : i < op.binAges.toList.length := by
    rw [Sl.length_toList _ hp.wfAges, hp.lenAges, ← Sl.length_toList _ hp.wfBd]; exact hil
  refine ⟨op.binAges.toList[i], ?_⟩
  apply List.mem_iff_getElem?.2
  refine ⟨i, ?_⟩
  unfold divs
  rw [List.getElem?_zip_eq_some]
  exact ⟨hi, List.getElem?_eq_getElem hal⟩

/-- one split moves a vertex only inside its bin -/
theorem SplitRel.rearr {n j bs dj : Nat} {K nbsL : List Nat} {op op2 : OP} (h : SplitRel n j bs dj K nbsL op op2)
    (hp : PartInv n op) {p v : Nat} (hv : op2.order.toList[p]? = some v) :
    ∃ q, op.order.toList[q]? = some v ∧ ∀ d ∈ op.binDividers.toList, (d ≤ q ↔ d ≤ p) := by
  have hlt : bs < dj := rf_sorted_start_lt hp.sorted h.hbs h.hdj
  have hs : op.binDividers.toList.Pairwise (· < ·) := (List.pairwise_cons.1 hp.sorted).2
  have hdn : dj ≤ n := rf_bd_le_last hs hp.last dj (List.mem_of_getElem? h.hdj)
  have holen : op.order.toList.length = n := by rw [Sl.length_toList _ hp.wfOrder, hp.lenOrder]
  have hKl : K.length = dj - bs := by
    rw [h.kperm.length_eq, length_rfSeg _ _ _ (by omega) (by omega)]
  have htk : (op.order.toList.take bs).length = bs := by rw [List.length_take]; omega
  rw [h.order] at hv
  by_cases h1 : p < bs
  · rw [List.append_assoc, List.getElem?_append_left (by omega), List.getElem?_take, if_pos h1] at hv
    exact ⟨p, hv, fun _ _ => Iff.rfl⟩
  · by_cases h2 : p < dj
    · rw [List.append_assoc, List.getElem?_append_right (by omega), htk,
        List.getElem?_append_left (by omega)] at hv
      have hvK : v ∈ K := List.mem_of_getElem? hv
      obtain ⟨q, q1, q2, q3⟩ := mem_rfSeg.1 (h.kperm.mem_iff.1 hvK)
      refine ⟨q, q3, ?_⟩
      intro d hd
      rcases rf_div_not_between hp.sorted h.hbs h.hdj hd with hle | hge
      · constructor <;> intro _ <;> omega
      · constructor <;> intro _ <;> omega
    · rw [List.getElem?_append_right (by rw [List.length_append]; omega), List.length_append, htk, hKl,
        List.getElem?_drop, show dj + (p - (bs + (dj - bs))) = p by omega] at hv
      exact ⟨p, hv, fun _ _ => Iff.rfl⟩

theorem SplitRel.divs_mem {n j bs dj : Nat} {K nbsL : List Nat} {op op2 : OP} (h : SplitRel n j bs dj K nbsL op op2)
    (hp : PartInv n op) {x : Nat × Int} (hx : x ∈ divs op) : x ∈ divs op2 := by
  obtain ⟨_, l2⟩ := h.lens hp
  unfold divs at hx ⊢
  rw [h.bd, h.ages]
  exact rf_mem_zip_insert l2 rfl hx

/-- the predicate carried through the refinement (for the fixed input `op`) -/
def RefineRearr (op op1 : OP) : Prop :=
  (∀ p v, op1.order.toList[p]? = some v →
    ∃ q, op.order.toList[q]? = some v ∧ ∀ d ∈ op.binDividers.toList, (d ≤ q ↔ d ≤ p)) ∧
  (∀ x ∈ divs op, x ∈ divs op1)

theorem carried_rearr (hst : StablePerm) (nb : Nbrs) {n : Nat} (cb fl : Sl Nat) (opts : Options) {op : OP}
    (h0 : PartInv n op) : Carried nb n cb fl opts (RefineRearr op) := by
  constructor
  · intro j op1 op' sc sc' r hp hcc hq hsplit
    obtain ⟨qa, qb⟩ := hq
    rcases splitCell_split hst hp hcc hsplit with ⟨_, rfl, rfl⟩ | ⟨bs, dj, K, nbsL, op2, sc2, hrel, _, ht⟩
    · exact ⟨qa, qb⟩
    · obtain ⟨_, e1, e2, e3, _, _, _⟩ := scTail_frame ht
      have hd : divs op' = divs op2 := by unfold divs; rw [e2, e3]
      refine ⟨?_, fun x hx => by rw [hd]; exact hrel.divs_mem hp (qb x hx)⟩
      intro p v hv
      rw [e1] at hv
      obtain ⟨p1, a1, a2⟩ := hrel.rearr hp hv
      obtain ⟨q, b1, b2⟩ := qa p1 v a1
      refine ⟨q, b1, ?_⟩
      intro d hd0
      obtain ⟨a, ha⟩ := rf_mem_divs_of_mem_bd h0 hd0
      have hd1 : d ∈ op1.binDividers.toList := (List.of_mem_zip (qb _ ha)).1
      exact (b2 d hd0).trans (a2 d hd1)
  · intro op1 b hq
    exact hq

/-- the refinement only rearranges `order` inside the bins of the input partition, and keeps every old divider with
its age -/
theorem refine_rearr (hst : StablePerm) {n : Nat} {nb : Nbrs} {cb fl : Sl Nat} {opts : Options} {op op' : OP}
    {sc sc' : Scratch} {w : Bool}
    (h : PartInv n op) (ha : AgeInv op) (hsc : ScratchOK n sc)
    (hr : refine nb cb fl opts op sc = .ok (w, op', sc')) :
    (∀ p v, op'.order.toList[p]? = some v →
      ∃ q, op.order.toList[q]? = some v ∧ ∀ d ∈ op.binDividers.toList, (d ≤ q ↔ d ≤ p)) ∧
    (∀ x ∈ divs op, x ∈ divs op') := by
  unfold refine at hr
  rw [h.lenOrder] at hr
  exact (refineLoop_inv hst (carried_rearr hst nb cb fl opts h) _ op op' sc sc' w h ha
    ⟨fun p v hv => ⟨p, hv, fun _ _ => Iff.rfl⟩, fun _ hx => hx⟩ hsc.scrInv hr).2.1

end CanonF
