import Mamba.Model.IterComb
/-! Specification of `MultisetCombinations` (family, known-bad shapes of finding F1) and an executable check used by
the bounded tests in `Props/C15.lean`. -/
namespace Iter.Spec

/-- the family of `MultisetCombinations(m, k)` as count vectors: `0 ≤ v[i] ≤ m[i]`, `∑ v = k` -/
def msFamily : List Int → Int → List (List Int)
  | [], k => if k = 0 then [[]] else []
  | m :: ms, k => (List.range (m.toNat + 1)).flatMap (fun (c : Nat) => (msFamily ms (k - c)).map (fun v => (c : Int) :: v))

/-- the shapes of `m` on which the current Go code is known to be wrong (finding F1): a zero multiplicity at index
0, or `m[0] = 1 ∧ m[1] = 0`, followed by a positive multiplicity -/
def msKnownBad : List Int → Bool
  | 0 :: rest => rest.any (· > 0)
  | 1 :: 0 :: rest => rest.any (· > 0)
  | _ => false

/-- executable check used by the bounded tests: the run ends by exhaustion, yields no vector twice, as many vectors as
the family has, and every member of the family -/
def msCheck (m : List Int) (k : Int) : Bool :=
  let r := outputs MSComb.it 100000 (MSComb.init m k)
  let outs : List (List Int) := r.1.map (fun p => p.1)
  decide (r.2.2 = .exhausted) && decide outs.Nodup && decide (outs.length = (msFamily m k).length) &&
    (msFamily m k).all (fun v => outs.contains v) &&
    r.1.all (fun p => p.2 == (p.1.zipIdx.flatMap (fun (c, i) => List.replicate c.toNat (i : Int))))

def vectors (mx : Nat) : Nat → List (List Int)
  | 0 => [[]]
  | l + 1 => (List.range (mx + 1)).flatMap (fun (c : Nat) => (vectors mx l).map (fun v => (c : Int) :: v))

end Iter.Spec
