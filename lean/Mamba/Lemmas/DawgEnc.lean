import Mamba.Lemmas.DawgDfs
/-! What `listNodes` and `gobEncode` return for a well-formed automaton (partial correctness). -/
namespace Dawg

theorem IdsOf.length {h : Heap} {ps ids : List Nat} (hi : IdsOf h ps ids) : ids.length = ps.length := by
  induction hi with
  | nil => rfl
  | cons _ _ ih => simp [ih]

theorem IdsOf.mem {h : Heap} {ps ids : List Nat} (hi : IdsOf h ps ids) (i : Nat) :
    i ∈ ids ↔ ∃ p n, p ∈ ps ∧ h[p]? = some n ∧ n.id = i := by
  induction hi with
  | nil => simp
  | @cons c cn ps ids hc _ ih =>
    rw [List.mem_cons, ih]
    constructor
    · rintro (h1 | ⟨p, n, hp, hn, hi⟩)
      · exact ⟨c, cn, List.mem_cons_self, hc, h1.symm⟩
      · exact ⟨p, n, List.mem_cons_of_mem _ hp, hn, hi⟩
    · rintro ⟨p, n, hp, hn, hi⟩
      rw [List.mem_cons] at hp
      rcases hp with rfl | hp
      · rw [hc] at hn; cases hn; exact Or.inl hi.symm
      · exact Or.inr ⟨p, n, hp, hn, hi⟩

theorem IdsOf.nodup (d : Dawg) (wf : WF d) {ps ids : List Nat} (hi : IdsOf d.heap ps ids)
    (hr : ∀ p ∈ ps, Reach d.heap d.root p) (hn : ps.Nodup) : ids.Nodup := by
  induction hi with
  | nil => exact List.nodup_nil
  | @cons c cn ps ids hc hi' ih =>
    rw [List.nodup_cons] at hn ⊢
    refine ⟨?_, ih (fun p hp => hr p (List.mem_cons_of_mem _ hp)) hn.2⟩
    intro hmem
    obtain ⟨p, n, hp, hpn, hid⟩ := (hi'.mem _).1 hmem
    have := wf.idInj p c n cn (hr p (List.mem_cons_of_mem _ hp)) (hr c List.mem_cons_self) hpn hc hid
    subst this
    exact hn.1 hp

theorem IdsOf.exists (d : Dawg) (wf : WF d) (ps : List Nat) (hr : ∀ p ∈ ps, Reach d.heap d.root p) :
    ∃ ids, IdsOf d.heap ps ids := by
  induction ps with
  | nil => exact ⟨[], IdsOf.nil⟩
  | cons c ps ih =>
    obtain ⟨ids, hi⟩ := ih (fun p hp => hr p (List.mem_cons_of_mem _ hp))
    obtain ⟨cn, hc⟩ := wf.closed c (hr c List.mem_cons_self)
    exact ⟨cn.id :: ids, IdsOf.cons hc hi⟩

/-- result of `listNodes`: the strictly sorted list of the ids of the reachable nodes -/
structure ListNodesPost (d : Dawg) (L : List Nat) : Prop where
  sorted : L.Pairwise (· < ·)
  mem : ∀ i, i ∈ L ↔ ∃ p n, Reach d.heap d.root p ∧ d.heap[p]? = some n ∧ n.id = i
  count : ∀ ps : List Nat, ps.Nodup → (∀ p, Reach d.heap d.root p ↔ p ∈ ps) → L.length = ps.length

theorem sorted_lt_of_nodup {l : List Nat} (hs : l.Pairwise (· ≤ ·)) (hn : l.Nodup) : l.Pairwise (· < ·) := by
  induction l with
  | nil => exact List.Pairwise.nil
  | cons a l ih =>
    rw [List.pairwise_cons] at hs ⊢
    rw [List.nodup_cons] at hn
    refine ⟨?_, ih hs.2 hn.2⟩
    intro b hb
    have h1 := hs.1 b hb
    have h2 : a ≠ b := fun h => hn.1 (h ▸ hb)
    omega

theorem listNodes_spec (d : Dawg) (wf : WF d) (fuel : Nat) (L : List Nat) (hres : listNodes fuel d = .ok L) :
    ListNodesPost d L := by
  unfold listNodes at hres
  obtain ⟨rn, hrn⟩ := wf.closed d.root Reach.root
  rw [getNode_of_some hrn] at hres
  simp only at hres
  cases hl : dfsLoop none d.heap fuel { nodes := [rn.id], stack := [(d.root, 0)], out := #[] } with
  | panic => rw [hl] at hres; cases hres
  | outOfFuel => rw [hl] at hres; cases hres
  | ok st =>
    rw [hl] at hres
    simp only [Outcome.ok.injEq] at hres
    subst hres
    have hinit : InvLoop d none [rn.id] [] [] { nodes := [rn.id], stack := [(d.root, 0)], out := #[] } := by
      refine ⟨⟨by simp, ?_, by simp, ?_, by simp⟩, ?_, by simp, ⟨[], IdsOf.nil, by simp⟩, trivial⟩
      · intro p hp; simp at hp; subst hp; exact Reach.root
      · intro c n hc hcr hn
        simp only [List.mem_singleton]
        constructor
        · intro h; exact absurd (wf.idInj c d.root n rn hc Reach.root hn hrn h) hcr
        · intro h; exact absurd h hcr
      · intro X n k q hX hn hk
        simp at hX; subst hX
        exact Or.inr (Or.inl ⟨0, by simp, Nat.zero_le _⟩)
    obtain ⟨tl, hpost⟩ := dfsLoop_spec d wf none [rn.id] [] fuel _ [] st hinit hl
    obtain ⟨I, hI, hperm⟩ := hpost.ids
    have hallr : ∀ p ∈ d.root :: tl, Reach d.heap d.root p := fun p hp => (hpost.all p).2 hp
    have hI' : IdsOf d.heap (d.root :: tl) (rn.id :: I) := IdsOf.cons hrn hI
    have hperm' : st.nodes.Perm (rn.id :: I) := by simpa using hperm
    have hnd : (rn.id :: I).Nodup := hI'.nodup d wf hallr hpost.nodup
    refine ⟨sorted_lt_of_nodup hpost.sorted (hperm'.nodup_iff.2 hnd), ?_, ?_⟩
    · intro i
      rw [hperm'.mem_iff, hI'.mem]
      constructor
      · rintro ⟨p, n, hp, hn, hi⟩; exact ⟨p, n, hallr p hp, hn, hi⟩
      · rintro ⟨p, n, hp, hn, hi⟩; exact ⟨p, n, (hpost.all p).1 hp, hn, hi⟩
    · intro ps hps hall
      rw [hperm'.length_eq, hI'.length]
      apply List.Perm.length_eq
      rw [List.perm_ext_iff_of_nodup hpost.nodup hps]
      intro a
      rw [← hpost.all a, hall a]

/-- shape of the output of `gobEncode` -/
def EncodePost (d : Dawg) (bs : List Nat) : Prop :=
  ∃ L tl recs, ListNodesPost d L ∧ (d.root :: tl).Nodup ∧ (∀ p, Reach d.heap d.root p ↔ p ∈ d.root :: tl) ∧
    Emitted d.heap (searchGE L) (d.root :: tl) recs ∧
    bs = encodeUint64 L.length ++ L.flatMap encodeUint64 ++ recs

theorem gobEncode_spec (d : Dawg) (wf : WF d) (fuel : Nat) (bs : List Nat) (hres : gobEncode fuel d = .ok bs) :
    EncodePost d bs := by
  unfold gobEncode at hres
  cases hL : listNodes fuel d with
  | panic => rw [hL] at hres; cases hres
  | outOfFuel => rw [hL] at hres; cases hres
  | ok L =>
    rw [hL] at hres
    simp only at hres
    have hLp := listNodes_spec d wf fuel L hL
    obtain ⟨rn, hrn⟩ := wf.closed d.root Reach.root
    rw [getNode_of_some hrn] at hres
    simp only at hres
    cases hr : encRecord d.heap (searchGE L) rn with
    | panic => rw [hr] at hres; cases hres
    | outOfFuel => rw [hr] at hres; cases hres
    | ok r =>
      rw [hr] at hres
      simp only at hres
      generalize hst0 : (⟨List.replicate L.length 0, [(d.root, 0)],
          (encodeUint64 L.length ++ List.flatMap encodeUint64 L ++ r).toArray⟩ : DfsSt) = st0 at hres
      cases hl : dfsLoop (some (searchGE L)) d.heap fuel st0 with
      | panic => rw [hl] at hres; cases hres
      | outOfFuel => rw [hl] at hres; cases hres
      | ok st =>
        rw [hl] at hres
        simp only [Outcome.ok.injEq] at hres
        subst hres
        have hinit : InvLoop d (some (searchGE L)) (List.replicate L.length 0)
            (encodeUint64 L.length ++ List.flatMap encodeUint64 L ++ r) [] st0 := by
          subst hst0
          refine ⟨⟨?_, ?_, by simp, ?_, by simp⟩, ?_, by simp, ⟨[], IdsOf.nil, by simp⟩, ?_⟩
          · simp only
            rw [List.pairwise_replicate]
            right; omega
          · intro p hp; simp at hp; subst hp; exact Reach.root
          · intro c n hc hcr hn
            simp only [List.mem_singleton, List.mem_replicate]
            constructor
            · rintro ⟨_, h⟩
              have := wf.rootMin c n rn hc hcr hn hrn
              omega
            · intro h; exact absurd h hcr
          · intro X n k q hX hn hk
            simp at hX; subst hX
            exact Or.inr (Or.inl ⟨0, by simp, Nat.zero_le _⟩)
          · exact ⟨[], Emitted.nil, by simp⟩
        obtain ⟨tl, hpost⟩ := dfsLoop_spec d wf _ _ _ fuel st0 [] st hinit hl
        have ho := hpost.out
        unfold OutRel at ho
        simp only at ho
        obtain ⟨bs', hem, hout⟩ := ho
        refine ⟨L, tl, r ++ bs', hLp, hpost.nodup, hpost.all, Emitted.cons hrn hr hem, ?_⟩
        rw [hout]; simp

end Dawg
