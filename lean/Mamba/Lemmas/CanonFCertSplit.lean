import Mamba.Lemmas.CanonFSplit
import Mamba.Lemmas.CanonFCert
/-!
# The certificate invariant (`VN` / `VAny` of `CanonFCert.lean`) across `splitBin`

* `splitBin_decomp_ages` — `splitBin_decomp` in terms of `binStartOf` / `moveFront`, with the explicit ages of the dividers
  (the new divider carries the new age);
* `spl_le_binIdx`, `spl_le_binStartOf`, `binStartOf_of_eq_spl` — a position in a non-singleton bin lies behind the
  singleton prefix;
* `splitBin_cert` — the interface theorem (`ExpandCert` is a hypothesis).
-/
namespace CanonF

/-! ## `splitBin` with the age of the new divider -/

/-- `splitBin_decomp` in terms of `binStartOf`/`moveFront`, with the ages of the dividers -/
theorem splitBin_decomp_ages {n : Nat} {nb : Nbrs} {cb fl : Sl Nat} {op op' : OP} {i : Nat} {w : Bool}
    (h : PartInv n op) (ha : AgeInv op) (hi : i < n) (hns : NonSingleton op.binDividers.toList i)
    (hs : splitBin nb cb fl op i = .ok (w, op')) :
    ∃ op1 : OP,
      PartInv n op1 ∧ AgeInv op1 ∧ op1.age = op.age + 1 ∧ op1.value = op.value ∧ op1.spl = op.spl ∧
      op1.binDividers.toList = op.binDividers.toList.take (binIdx op.binDividers.toList i) ++
        (binStartOf op.binDividers.toList i + 1) :: op.binDividers.toList.drop (binIdx op.binDividers.toList i) ∧
      op1.binAges.toList = op.binAges.toList.take (binIdx op.binDividers.toList i) ++
        (op.age + 1) :: op.binAges.toList.drop (binIdx op.binDividers.toList i) ∧
      op1.order.toList = moveFront op.order.toList (binStartOf op.binDividers.toList i) i ∧
      (if binIdx op.binDividers.toList i = op.spl then expandValue nb cb fl op1 = .ok (w, op')
        else (w = false ∧ op' = op1)) := by
  obtain ⟨order, ic, hfront, wo, lo, zo, eo, wi, li, zi, hic⟩ := splitBin_front (nb := nb) (cb := cb) (fl := fl) h hi
  rw [hfront] at hs
  unfold splitTail at hs
  cases hbd : insertAt op.binDividers (binIdx op.binDividers.toList i) (binStartOf op.binDividers.toList i + 1) with
  | ok bd' =>
    cases hag : insertAt op.binAges (binIdx op.binDividers.toList i) (op.age + 1) with
    | ok ages' =>
      rw [hbd, hag] at hs
      simp only at hs
      cases hbt : unionSl op.binsToCheck [(binIdx op.binDividers.toList i : Int), (binIdx op.binDividers.toList i : Int) + 1] with
      | ok btc =>
        rw [hbt] at hs
        simp only at hs
        obtain ⟨_, cb1, lb, zb, eb, _⟩ := Sl.insertAt_spec h.wfBd hbd
        obtain ⟨_, ca1, la, za, ea, _⟩ := Sl.insertAt_spec h.wfAges hag
        have hlen := h.lenAges
        obtain ⟨hP, hA, _⟩ := partStep_inv
          (op1 := { op with age := op.age + 1, order := order, inCell := ic, binDividers := bd', binAges := ages',
                            binsToCheck := btc })
          h ha hi hns wo lo eo wi li hic (by show bd'.len ≤ bd'.data.size; omega)
          (by show ages'.len ≤ ages'.data.size; omega) (by show ages'.len = bd'.len; omega) eb ea rfl
        refine ⟨_, hP, hA, rfl, rfl, rfl, eb, ea, eo, ?_⟩
        by_cases hsp : binIdx op.binDividers.toList i = op.spl
        · rw [if_pos hsp] at hs ⊢
          exact hs
        · rw [if_neg hsp] at hs ⊢
          simp only [Outcome.ok.injEq, Prod.mk.injEq] at hs
          exact ⟨hs.1.symm, hs.2.symm⟩
      | panic => rw [hbt] at hs; simp at hs
      | outOfFuel => rw [hbt] at hs; simp at hs
    | panic => rw [hbd, hag] at hs; simp at hs
    | outOfFuel => rw [hbd, hag] at hs; simp at hs
  | panic => rw [hbd] at hs; simp at hs
  | outOfFuel => rw [hbd] at hs; simp at hs

/-- a position in a non-singleton bin lies behind the singleton prefix -/
theorem spl_le_binIdx {n : Nat} {op : OP} {i : Nat} (h : PartInv n op) (hp : PrefixSingle op)
    (hns : NonSingleton op.binDividers.toList i) : op.spl ≤ binIdx op.binDividers.toList i := by
  apply Nat.le_of_not_lt
  intro hlt
  have hi : i < op.spl := (binIdx_lt_iff_of_single _ h.sorted op.spl hp.single i).1 hlt
  apply hns
  constructor
  · by_cases h0 : i = 0
    · rw [h0]; exact List.mem_cons_self ..
    · have := List.mem_of_getElem? (hp.single (i - 1) (by omega))
      rw [show i - 1 + 1 = i by omega] at this
      exact List.mem_cons_of_mem _ this
  · exact List.mem_of_getElem? (hp.single i hi)

/-- the bin of such a position starts behind the singleton prefix -/
theorem spl_le_binStartOf {n : Nat} {op : OP} {i : Nat} (h : PartInv n op) (hi : i < n) (hp : PrefixSingle op)
    (hns : NonSingleton op.binDividers.toList i) : op.spl ≤ binStartOf op.binDividers.toList i := by
  have hb := spl_le_binIdx h hp hns
  have hbl := binIdx_lt _ n i h.last hi
  unfold binStartOf
  by_cases h0 : binIdx op.binDividers.toList i = 0
  · rw [if_pos h0]; omega
  · rw [if_neg h0]
    have hk : binIdx op.binDividers.toList i - 1 < op.binDividers.toList.length := by omega
    rw [getD_eq_getElem_split _ _ _ hk]
    have := h.bd_ge (binIdx op.binDividers.toList i - 1) _ (List.getElem?_eq_getElem hk)
    omega

theorem binStartOf_of_eq_spl {op : OP} {i : Nat} (hp : PrefixSingle op)
    (hbi : binIdx op.binDividers.toList i = op.spl) : binStartOf op.binDividers.toList i = op.spl := by
  unfold binStartOf
  rw [hbi]
  by_cases h0 : op.spl = 0
  · rw [if_pos h0, h0]
  · rw [if_neg h0]
    have := hp.single (op.spl - 1) (by omega)
    rw [List.getD_eq_getElem?_getD, this]; simp; omega


/-! ## the certificate invariant across `splitBin` -/

theorem splitBin_cert (hx : ExpandCert) {n : Nat} {nb : Nbrs} {cb fl : Sl Nat} {op op' : OP} {i : Nat} {w : Bool}
    (h : PartInv n op) (ha : AgeInv op) (hi : i < n) (hns : NonSingleton op.binDividers.toList i)
    (hv : VN nb cb fl op) (hs : splitBin nb cb fl op i = .ok (w, op')) :
    (w = false → VN nb cb fl op') ∧ (w = true → VAny nb cb fl op') := by
  obtain ⟨op1, p1, a1, age1, v1, s1, hbd, hag, hord, hif⟩ := splitBin_decomp_ages h ha hi hns hs
  have hvc : VClean nb op := hv
  have hp : PrefixSingle op := hvc.pre.toPrefixSingle
  have hnext : op.binDividers.toList[op.spl]? ≠ some (op.spl + 1) := hvc.pre.next
  have hb := spl_le_binIdx h hp hns
  have hst := spl_le_binStartOf h hi hp hns
  have hbs : op.binDividers.toList.Pairwise (· < ·) := (List.pairwise_cons.1 h.sorted).2
  have hbl := binIdx_lt _ n i h.last hi
  have hsi := binStartOf_le _ hbs i hbl
  have hol : op.order.toList.length = n := by rw [Sl.length_toList _ h.wfOrder]; exact h.lenOrder
  have hol1 : op1.order.toList.length = n := by rw [Sl.length_toList _ p1.wfOrder]; exact p1.lenOrder
  have hal : op.binAges.toList.length = op.binDividers.toList.length := by
    rw [Sl.length_toList _ h.wfAges, Sl.length_toList _ h.wfBd]; exact h.lenAges
  have htk : (List.take (binIdx op.binDividers.toList i) op.binDividers.toList).length =
      binIdx op.binDividers.toList i := by rw [List.length_take]; omega
  have htka : (List.take (binIdx op.binDividers.toList i) op.binAges.toList).length =
      binIdx op.binDividers.toList i := by rw [List.length_take]; omega
  -- dividers in front of the bin of `i` are untouched
  have hlow : ∀ j, j < binIdx op.binDividers.toList i → op1.binDividers.toList[j]? = op.binDividers.toList[j]? := by
    intro j hj
    rw [hbd, List.getElem?_append_left (by omega), List.getElem?_take, if_pos hj]
  have hpre1 : PrefixSingle op1 := by
    constructor
    · rw [s1, ← Sl.length_toList _ p1.wfBd, hbd]
      simp only [List.length_append, List.length_cons, List.length_take, List.length_drop]
      have := hp.le; rw [← Sl.length_toList _ h.wfBd] at this; omega
    · intro j hj
      rw [s1] at hj
      rw [hlow j (by omega)]
      exact hp.single j hj
  -- the certificate of the prefix does not see the rearrangement
  have hcert : certPos nb op1.order.toList op1.spl = certPos nb op.order.toList op.spl := by
    rw [s1]
    have hsn : op.spl ≤ n := by omega
    apply certPos_frame nb _ _ _ (by omega) (by omega)
    intro p hpp
    rw [hord]
    exact moveFront_lt _ _ _ hsi (by omega) p (by omega)
  by_cases hsp : binIdx op.binDividers.toList i = op.spl
  · -- bin `spl` is split: it becomes a singleton of the new age and `expandValue` runs
    rw [if_pos hsp] at hif
    have hd1 : (divs op1)[op1.spl]? = some (binStartOf op.binDividers.toList i + 1, op1.age) := by
      unfold divs
      rw [List.getElem?_zip_eq_some]
      constructor
      · show op1.binDividers.toList[op1.spl]? = _
        rw [s1, hbd, List.getElem?_append_right (by omega), htk, hsp]
        simp
      · show op1.binAges.toList[op1.spl]? = _
        rw [s1, hag, List.getElem?_append_right (by omega), htka, hsp, age1]
        simp
    obtain ⟨_, f2, f3, _, f5, _⟩ := expandValue_frame hif
    obtain ⟨r1, r2⟩ := hx n nb cb fl op1 op' w p1 hpre1 (by rw [v1]; exact hvc.wf)
      (by rw [v1, hcert]; exact hvc.val) hif
    refine ⟨fun hw => r1 hw, fun hw => ?_⟩
    obtain ⟨q1, q2⟩ := r2 hw
    refine Or.inr ⟨q1, op1.spl, binStartOf op.binDividers.toList i + 1, q2, ?_⟩
    unfold divs at hd1 ⊢
    rw [f2, f3, f5]; exact hd1
  · -- a later bin is split: nothing the certificate depends on changes
    rw [if_neg hsp] at hif
    obtain ⟨rfl, rfl⟩ := hif
    have hnext1 : op'.binDividers.toList[op'.spl]? ≠ some (op'.spl + 1) := by
      rw [s1, hlow op.spl (by omega)]; exact hnext
    have hvn : VN nb cb fl op' :=
      ⟨⟨hpre1, hnext1⟩, by rw [v1]; exact hvc.wf, by rw [v1, hcert]; exact hvc.val⟩
    exact ⟨fun _ => hvn, fun hw => by cases hw⟩

end CanonF
