import Mamba.Lemmas.C06Compl2
import Mathlib.Data.List.Nodup
/-! C06: `CompletePartiteGraph` — the written positions. -/
namespace Construct
open GraphSpec


/-! ### CompletePartiteGraph: the index lists -/

/-- byte positions written for the part `[s, s+p)` : all `(j, k)` with `s ≤ j < s+p ≤ k < n` -/
def cpBlock (s p n : Nat) : List Nat :=
  (List.range' (s + p) (n - (s + p))).flatMap fun k => (List.range' s (s + p - s)).map fun j => (k * (k - 1)) / 2 + j

/-- all positions written by the loop over the parts `nums`, the first of which starts at vertex `s` -/
def cpIdxs (n : Nat) : Nat → List Nat → List Nat
  | _, [] => []
  | s, p :: rest => cpBlock s p n ++ cpIdxs n (s + p) rest

theorem mem_cpBlock {s p n x : Nat} : x ∈ cpBlock s p n ↔ ∃ j k, s ≤ j ∧ j < s + p ∧ s + p ≤ k ∧ k < n ∧ x = tri k + j := by
  simp only [cpBlock, List.mem_flatMap, List.mem_range'_1, List.mem_map, tri_def]
  constructor
  · rintro ⟨k, hk, j, hj, rfl⟩; exact ⟨j, k, by omega, by omega, by omega, by omega, rfl⟩
  · rintro ⟨j, k, h1, h2, h3, h4, rfl⟩; exact ⟨k, by omega, j, by omega, rfl⟩

theorem mem_cpIdxs {n : Nat} (nums : List Nat) (s x : Nat) (hx : x ∈ cpIdxs n s nums) :
    ∃ j k, s ≤ j ∧ j < k ∧ k < n ∧ x = tri k + j := by
  induction nums generalizing s with
  | nil => simp [cpIdxs] at hx
  | cons p rest ih =>
    simp only [cpIdxs, List.mem_append] at hx
    rcases hx with hx | hx
    · obtain ⟨j, k, h1, h2, h3, h4, rfl⟩ := mem_cpBlock.mp hx
      exact ⟨j, k, h1, by omega, h4, rfl⟩
    · obtain ⟨j, k, h1, h2, h3, rfl⟩ := ih (s + p) hx
      exact ⟨j, k, by omega, h2, h3, rfl⟩

theorem cpIdxs_lt {n : Nat} (nums : List Nat) (s : Nat) : ∀ x ∈ cpIdxs n s nums, x < tri n := by
  intro x hx
  obtain ⟨j, k, _, h2, h3, rfl⟩ := mem_cpIdxs nums s x hx
  exact tri_add_lt h2 h3

theorem nodup_cpBlock (s p n : Nat) : (cpBlock s p n).Nodup := by
  unfold cpBlock
  rw [List.nodup_flatMap]
  constructor
  · intro k _
    exact (List.nodup_range').map (fun a b h => by simpa using h)
  · refine List.Pairwise.imp_of_mem ?_ (List.nodup_range' (s := s + p) (n := n - (s + p)))
    intro a b ha hb hab
    rw [List.mem_range'_1] at ha hb
    simp only [Function.onFun, tri_def]
    rw [List.disjoint_left]
    intro x hx1 hx2
    simp only [List.mem_map, List.mem_range'_1] at hx1 hx2
    obtain ⟨j, hj, rfl⟩ := hx1
    obtain ⟨j', hj', e⟩ := hx2
    have := tri_inj (show j' < b by omega) (show j < a by omega) e
    omega

theorem nodup_cpIdxs (n : Nat) (nums : List Nat) (s : Nat) : (cpIdxs n s nums).Nodup := by
  induction nums generalizing s with
  | nil => simp [cpIdxs]
  | cons p rest ih =>
    simp only [cpIdxs]
    rw [List.nodup_append]
    refine ⟨nodup_cpBlock s p n, ih (s + p), ?_⟩
    intro a ha b hb hab
    subst hab
    obtain ⟨j, k, h1, h2, h3, h4, rfl⟩ := mem_cpBlock.mp ha
    obtain ⟨j', k', g1, g2, g3, e⟩ := mem_cpIdxs rest (s + p) _ hb
    have := tri_inj (show j < k by omega) g2 e
    omega

/-- membership in the written positions = the two end points lie in different parts -/
theorem mem_cpIdxs_iff (nums : List Nat) (s n u v : Nat) (hn : n = s + nums.sum) (hsu : s ≤ u) (huv : u < v) (hv : v < n) :
    tri v + u ∈ cpIdxs n s nums ↔ Families.partOf nums (u - s) ≠ Families.partOf nums (v - s) := by
  induction nums generalizing s with
  | nil => simp at hn; omega
  | cons p rest ih =>
    simp only [cpIdxs, List.mem_append, Families.partOf]
    have hn' : n = s + p + rest.sum := by simp at hn; omega
    by_cases hu : u < s + p
    · have h1 : u - s < p := by omega
      have hnot : tri v + u ∉ cpIdxs n (s + p) rest := by
        intro hx
        obtain ⟨j, k, g1, g2, g3, e⟩ := mem_cpIdxs rest (s + p) _ hx
        have := tri_inj huv g2 e; omega
      by_cases hv' : v < s + p
      · have h2 : v - s < p := by omega
        simp only [h1, h2, ↓reduceIte, ne_eq, not_true_eq_false, iff_false, not_or]
        refine ⟨?_, hnot⟩
        intro hx
        obtain ⟨j, k, g1, g2, g3, g4, e⟩ := mem_cpBlock.mp hx
        have := tri_inj huv (show j < k by omega) e; omega
      · have h2 : ¬ v - s < p := by omega
        simp only [h1, h2, ↓reduceIte]
        constructor
        · intro _; omega
        · intro _; exact Or.inl (mem_cpBlock.mpr ⟨u, v, hsu, hu, by omega, hv, rfl⟩)
    · have h1 : ¬ u - s < p := by omega
      have h2 : ¬ v - s < p := by omega
      have hnot : tri v + u ∉ cpBlock s p n := by
        intro hx
        obtain ⟨j, k, g1, g2, g3, g4, e⟩ := mem_cpBlock.mp hx
        have := tri_inj huv (show j < k by omega) e; omega
      have := ih (s + p) hn' (by omega)
      simp only [h1, h2, ↓reduceIte, hnot, false_or]
      rw [this, show u - (s + p) = u - s - p by omega, show v - (s + p) = v - s - p by omega]
      omega




theorem writeOnes_ok (a : Array Nat) (idxs : List Nat) (h : ∀ k ∈ idxs, k < a.size) :
    ∃ e, writeOnes a idxs = .ok e ∧ e.size = a.size ∧ ∀ k, bitAt e k = (bitAt a k || decide (k ∈ idxs)) := by
  obtain ⟨e, h1, h2, h3⟩ := foldlM_setAt 1 idxs a h
  refine ⟨e, h1, h2, ?_⟩
  intro k
  unfold bitAt
  rw [Array.getD_eq_getD_getElem?, Array.getD_eq_getD_getElem?, h3 k]
  by_cases hk : k ∈ idxs
  · simp [hk, h k hk]
  · simp [hk]

/-- size of the part containing vertex `x` (vertices numbered from the start of `nums`) -/
def partSize (nums : List Nat) (x : Nat) : Nat := nums.getD (Families.partOf nums x) 0

theorem partSize_cons_lt (p : Nat) (rest : List Nat) (x : Nat) (h : x < p) : partSize (p :: rest) x = p := by
  simp [partSize, Families.partOf, h]

theorem partSize_cons_ge (p : Nat) (rest : List Nat) (x : Nat) (h : ¬ x < p) :
    partSize (p :: rest) x = partSize rest (x - p) := by
  simp [partSize, Families.partOf, h]

/-- one round of the loop over the parts -/
def cpStep (n : Nat) (st : PartSt) (v : Nat) : Outcome PartSt := do
  let stop := st.stop + v
  let degree : Int := (n : Int) - (v : Int)
  let deg ← writeAll st.deg (List.range' st.start (stop - st.start)) degree
  let idxs := (List.range' stop (n - stop)).flatMap fun k =>
    (List.range' st.start (stop - st.start)).map fun j => (k * (k - 1)) / 2 + j
  let edges ← writeOnes st.edges idxs
  pure { edges := edges, deg := deg, m := st.m + (idxs.length : Int), start := stop, stop := stop }

theorem cpFold (n : Nat) (nums : List Nat) (s : Nat) (st : PartSt) (h1 : st.start = s) (h2 : st.stop = s)
    (hn : s + nums.sum ≤ n) (he : st.edges.size = tri n) (hd : st.deg.size = n) :
    ∃ st', nums.foldlM (cpStep n) st = .ok st' ∧ st'.m = st.m + ((cpIdxs n s nums).length : Int) ∧
      st'.edges.size = tri n ∧ st'.deg.size = n ∧
      (∀ k, bitAt st'.edges k = (bitAt st.edges k || decide (k ∈ cpIdxs n s nums))) ∧
      (∀ x, st'.deg[x]? = if s ≤ x ∧ x < s + nums.sum then some ((n : Int) - (partSize nums (x - s) : Int)) else st.deg[x]?) := by
  induction nums generalizing s st with
  | nil => exact ⟨st, rfl, by simp [cpIdxs], he, hd, by simp [cpIdxs], by intro x; simp⟩
  | cons p rest ih =>
    have hsum : s + p + rest.sum ≤ n := by simp at hn; omega
    obtain ⟨dg, g1, g2, g3⟩ := foldlM_setAt ((n : Int) - (p : Int)) (List.range' s (s + p - s)) st.deg (by
      intro k hk; rw [List.mem_range'_1] at hk; omega)
    obtain ⟨e, e1, e2, e3⟩ := writeOnes_ok st.edges (cpBlock s p n) (by
      intro k hk
      obtain ⟨j, k', a1, a2, a3, a4, rfl⟩ := mem_cpBlock.mp hk
      rw [he]; exact tri_add_lt (by omega) a4)
    obtain ⟨st', f1, f2, f3, f4, f5, f6⟩ := ih (s + p)
      { edges := e, deg := dg, m := st.m + ((cpBlock s p n).length : Int), start := s + p, stop := s + p }
      rfl rfl hsum (by rw [e2, he]) (by rw [g2, hd])
    refine ⟨st', ?_, ?_, f3, f4, ?_, ?_⟩
    · simp only [List.foldlM_cons, cpStep, h1, h2, writeAll]
      rw [g1]; simp only [Outcome.bind_ok]
      have : writeOnes st.edges ((List.range' (s + p) (n - (s + p))).flatMap fun k =>
          (List.range' s (s + p - s)).map fun j => (k * (k - 1)) / 2 + j) = .ok e := e1
      rw [this]; simp only [Outcome.bind_ok, Outcome.pure_eq]
      exact f1
    · rw [f2]; simp only [cpIdxs, List.length_append]; push_cast; ring
    · intro k; rw [f5 k, e3 k]; simp only [cpIdxs, List.mem_append, Bool.decide_or, Bool.or_assoc]
    · intro x
      rw [f6 x, g3 x]
      simp only [List.mem_range'_1, List.sum_cons]
      by_cases c1 : s + p ≤ x ∧ x < s + p + rest.sum
      · have c2 : s ≤ x ∧ x < s + (p + rest.sum) := by omega
        have c3 : ¬ x - s < p := by omega
        simp only [c1, c2, and_self, ↓reduceIte, partSize_cons_ge p rest _ c3]
        rw [show x - (s + p) = x - s - p by omega]
      · by_cases c2 : s ≤ x ∧ x < s + (s + p - s)
        · have c3 : s ≤ x ∧ x < s + (p + rest.sum) := by omega
          have c4 : x - s < p := by omega
          have c5 : x < st.deg.size := by omega
          simp only [c1, c2, c3, c5, and_self, ↓reduceIte, partSize_cons_lt p rest _ c4]
        · have c3 : ¬ (s ≤ x ∧ x < s + (p + rest.sum)) := by omega
          simp only [c1, c3, ↓reduceIte]
          have : ¬ ((s ≤ x ∧ x < s + (s + p - s)) ∧ x < st.deg.size) := fun h => c2 h.1
          simp only [this, ↓reduceIte]


end Construct
