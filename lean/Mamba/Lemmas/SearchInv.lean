import Mamba.Lemmas.SearchCache
/-! Invariants of the search iterator model: sizes of the current graph, parameters never change. -/
namespace Search

/-! ### `tri` -/

theorem tri_succ (n : Nat) : tri (n + 1) = tri n + n := by
  unfold tri
  cases n with
  | zero => rfl
  | succ k =>
    have : (k + 1 + 1) * (k + 1 + 1 - 1) = (k + 1) * (k + 1 - 1) + 2 * (k + 1) := by
      simp only [Nat.add_sub_cancel]
      rw [Nat.mul_comm (k + 1 + 1) (k + 1), Nat.mul_add (k + 1) (k + 1) 1, Nat.mul_add (k+1) k 1]
      omega
    rw [this, Nat.add_mul_div_left _ _ (by decide : 0 < 2)]

theorem tri_mono {a b : Nat} (h : a ≤ b) : tri a ≤ tri b := by
  unfold tri
  exact Nat.div_le_div_right (Nat.mul_le_mul h (Nat.sub_le_sub_right h 1))

/-! ### sizes of a DenseGraph value -/

structure DG.Sized (g : DG) : Prop where
  degs : g.degs.size = g.nv
  edges : g.edges.size = tri g.nv

theorem addVertex_fold_sizes (oldSize : Nat) :
    ∀ (nbrs : List Nat) (p q : Array Nat × Array Int),
      nbrs.foldlM (m := Outcome) (fun (p : Array Nat × Array Int) v =>
        if oldSize + v < p.1.size ∧ v < p.2.size then
          Outcome.ok (p.1.setIfInBounds (oldSize + v) 1, p.2.modify v (· + 1))
        else Outcome.panic) p = .ok q → q.1.size = p.1.size ∧ q.2.size = p.2.size
  | [], p, q, h => by
    simp only [List.foldlM_nil] at h
    cases h; exact ⟨rfl, rfl⟩
  | v :: vs, p, q, h => by
    simp only [List.foldlM_cons] at h
    by_cases hc : oldSize + v < p.1.size ∧ v < p.2.size
    · simp only [hc, and_self, if_true] at h
      have := addVertex_fold_sizes oldSize vs _ q h
      simpa using this
    · simp only [hc, if_false] at h
      cases h

theorem addVertex_sized {g g' : DG} {nbrs : List Nat} (h : g.addVertex nbrs = .ok g') (hs : g.Sized) :
    g'.Sized ∧ g'.nv = g.nv + 1 := by
  unfold DG.addVertex at h
  try simp only at h
  split at h
  · cases h
  · split at h
    · rename_i e d heq
      cases h
      have := addVertex_fold_sizes _ _ _ _ heq
      simp only [Array.size_append, Array.size_replicate] at this
      refine ⟨⟨?_, ?_⟩, rfl⟩
      · simp [this.2, hs.degs]
      · simp [this.1, hs.edges, tri_succ]
    · cases h
    · cases h

theorem decNbrs_size (edges : Array Nat) (base : Nat) :
    ∀ (l : List Nat) (d d' : Array Int), decNbrs edges base l d = .ok d' → d'.size = d.size
  | [], d, d', h => by simp only [decNbrs] at h; cases h; rfl
  | i :: is, d, d', h => by
    simp only [decNbrs] at h
    split at h
    · cases h
    · split at h
      · split at h
        · have := decNbrs_size edges base is _ d' h
          simpa using this
        · cases h
      · exact decNbrs_size edges base is d d' h

theorem removeLast_sized {g g' : DG} (h : g.removeLast = .ok g') : g'.Sized ∧ g'.nv + 1 = g.nv := by
  unfold DG.removeLast at h
  split at h
  · cases h
  · rename_i hnv
    try simp only at h
    split at h
    · cases h
    · rename_i hsz
      split at h
      · cases h
      · split at h
        · rename_i d hd
          cases h
          have hds := decNbrs_size _ _ _ _ _ hd
          have hsz' : g.edges.size = tri g.nv ∧ g.degs.size = g.nv := by
            constructor
            · exact Classical.byContradiction fun hh => hsz (Or.inl hh)
            · exact Classical.byContradiction fun hh => hsz (Or.inr hh)
          refine ⟨⟨?_, ?_⟩, by simp only; omega⟩
          · simp only [Array.size_pop, hds, hsz'.2]
          · simp only [Array.size_extract, hsz'.1]
            have := tri_mono (Nat.sub_le g.nv 1)
            omega
        · cases h
        · cases h

/-! ### the parameters never change -/

def SameParams (s s' : State) : Prop := s'.n = s.n ∧ s'.a = s.a ∧ s'.m = s.m ∧ s'.first = s.first

theorem SameParams.refl (s : State) : SameParams s s := ⟨rfl, rfl, rfl, rfl⟩

theorem SameParams.trans {s t u : State} (h1 : SameParams s t) (h2 : SameParams t u) : SameParams s u :=
  ⟨h2.1.trans h1.1, h2.2.1.trans h1.2.1, h2.2.2.1.trans h1.2.2.1, h2.2.2.2.trans h1.2.2.2⟩

theorem removeClear_ok {s s1 : State} (h : removeClear s = .ok s1) :
    ∃ g, s.g.removeLast = .ok g ∧ s1 = { s with g := g, cache := none } := by
  unfold removeClear at h
  split at h
  · rename_i g hg; cases h; exact ⟨g, hg, rfl⟩
  · cases h
  · cases h

def Mode.sf : Mode → Bool
  | .outer _ sf => sf
  | .step sf => sf
  | .inner sf _ => sf

/-- what `run` needs of the state it is started in -/
structure ModeInv (mode : Mode) (s : State) : Prop where
  sized : s.g.Sized
  le : s.g.nv ≤ s.n
  lt : mode.sf = true → s.g.nv < s.n

/-- `run` keeps the parameters, and (started in a state satisfying `ModeInv`) returns a state whose graph has
consistent sizes and at most `n` vertices -/
theorem run_inv (O : Oracle) (pre pr : DG → Bool) :
    ∀ (fuel : Nat) (mode : Mode) (s s' : State) (b : Bool),
      run O pre pr fuel mode s = .ok (s', b) →
      SameParams s s' ∧ (ModeInv mode s → s'.g.Sized ∧ s'.g.nv ≤ s'.n)
  | 0, _, _, _, _, h => by simp [run] at h
  | f + 1, .outer cont sf, s, s', b, h => by
    simp only [run] at h
    split at h
    · split at h
      · cases h; exact ⟨SameParams.refl _, fun hi => ⟨hi.sized, hi.le⟩⟩
      · rename_i hne
        split at h
        · rename_i ch cache num _
          have ih := run_inv O pre pr f _ _ _ _ h
          refine ⟨ih.1, fun hi => ?_⟩
          have := ih.2 ⟨hi.sized, hi.le, fun _ => Nat.lt_of_le_of_ne hi.le hne⟩
          exact this
        · cases h
        · cases h
    · have ih := run_inv O pre pr f _ _ _ _ h
      exact ⟨ih.1, fun hi => ih.2 ⟨hi.sized, hi.le, hi.lt⟩⟩
  | f + 1, .step sf, s, s', b, h => by
    simp only [run] at h
    split at h
    · cases h; exact ⟨SameParams.refl _, fun hi => ⟨hi.sized, hi.le⟩⟩
    · split at h
      · cases h
      · have ih := run_inv O pre pr f _ _ _ _ h
        exact ⟨ih.1, fun hi => ih.2 ⟨hi.sized, hi.le, hi.lt⟩⟩
  | f + 1, .inner sf 0, s, s', b, h => by
    simp only [run] at h
    split at h
    · rename_i s1 hs1
      split at h
      · cases h
      · have ih := run_inv O pre pr f _ _ _ _ h
        cases sf with
        | false =>
          simp only [Bool.not_false, if_true] at hs1
          obtain ⟨g, hg, rfl⟩ := removeClear_ok hs1
          refine ⟨ih.1, fun hi => ih.2 ⟨?_, ?_, fun hh => by simp [Mode.sf] at hh⟩⟩
          · exact (removeLast_sized hg).1
          · have := (removeLast_sized hg).2; have := hi.le; simp only; omega
        | true =>
          simp only [Bool.not_true, Bool.false_eq_true, if_false] at hs1
          cases hs1
          exact ⟨ih.1, fun hi => ih.2 ⟨hi.sized, hi.le, fun hh => by simp [Mode.sf] at hh⟩⟩
    · cases h
    · cases h
  | f + 1, .inner sf (i + 1), s, s', b, h => by
    simp only [run] at h
    split at h
    · cases h
    · rename_i x _
      try simp only at h
      split at h
      · cases h
      · split at h
        · have ih := run_inv O pre pr f _ _ _ _ h
          exact ⟨ih.1, fun hi => ih.2 ⟨hi.sized, hi.le, hi.lt⟩⟩
        · split at h
          · cases h
          · cases h
          · rename_i s1 hs1
            -- facts about s1 : parameters of s, graph either s.g (stepForward) or s.g minus its last vertex
            have hs1p : SameParams s s1 ∧ (ModeInv (.inner sf (i + 1)) s → s1.g.Sized ∧ s1.g.nv < s1.n) := by
              cases sf with
              | false =>
                simp only [Bool.not_false, if_true] at hs1
                obtain ⟨g, hg, rfl⟩ := removeClear_ok hs1
                refine ⟨⟨rfl, rfl, rfl, rfl⟩, fun hi => ⟨(removeLast_sized hg).1, ?_⟩⟩
                have := (removeLast_sized hg).2; have := hi.le
                simp only at *; omega
              | true =>
                simp only [Bool.not_true, Bool.false_eq_true, if_false] at hs1
                cases hs1
                exact ⟨⟨rfl, rfl, rfl, rfl⟩, fun hi => ⟨hi.sized, hi.lt rfl⟩⟩
            split at h
            · cases h
            · cases h
            · rename_i g2 hg2
              have hg2s : ModeInv (.inner sf (i + 1)) s → g2.Sized ∧ g2.nv ≤ s1.n := fun hi => by
                have := addVertex_sized hg2 (hs1p.2 hi).1
                exact ⟨this.1, by have := (hs1p.2 hi).2; omega⟩
              try simp only at h
              split at h
              · have ih := run_inv O pre pr f _ _ _ _ h
                refine ⟨hs1p.1.trans ih.1, fun hi => ih.2 ⟨(hg2s hi).1, (hg2s hi).2, fun hh => by simp [Mode.sf] at hh⟩⟩
              · split at h
                · cases h
                · cases h
                · split at h
                  · split at h
                    · cases h
                    · have ih := run_inv O pre pr f _ _ _ _ h
                      refine ⟨hs1p.1.trans ih.1, fun hi => ih.2 ⟨(hg2s hi).1, (hg2s hi).2, fun hh => by simp [Mode.sf] at hh⟩⟩
                  · have ih := run_inv O pre pr f _ _ _ _ h
                    refine ⟨hs1p.1.trans ih.1, fun hi => ih.2 ⟨(hg2s hi).1, (hg2s hi).2, fun hh => by simp [Mode.sf] at hh⟩⟩

end Search
