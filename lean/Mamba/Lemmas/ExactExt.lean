import Mamba.Lemmas.ExactIso
namespace Search
open GraphSpec GSearch

theorem tri_add_lt {u v n : Nat} (huv : u < v) (hv : v < n) : tri v + u < tri n := by
  have h1 : tri v + u < tri (v + 1) := by rw [tri_succ]; omega
  exact Nat.lt_of_lt_of_le h1 (tri_mono hv)

/-- `AddVertex` builds the one-vertex extension -/
theorem addVertex_toG {P g2 : DG} {l : List Nat} (hs : P.Sized) (hnd : l.Nodup) (hl : ∀ v ∈ l, v < P.nv)
    (h : P.addVertex l = .ok g2) : g2.toG = ext P.toG l := by
  have hsz := addVertex_sized h hs
  unfold DG.addVertex at h
  simp only at h
  split at h
  · cases h
  · split at h
    · rename_i e d heq
      cases h
      obtain ⟨f1, f2, f3, -, -⟩ := addVertex_fold_spec (tri P.nv) l _ _ hnd heq
      simp only at f2 f3
      have hold : ∀ j, j < tri P.nv → e.getD j 0 = P.edges.getD j 0 := by
        intro j hj
        have := f3 j (fun v _ => by omega)
        rw [Array.getElem?_append_left (by rw [hs.edges]; exact hj)] at this
        simp [Array.getD_eq_getD_getElem?, this]
      have hnew : ∀ u, u < P.nv → (e.getD (tri P.nv + u) 0 > 0 ↔ u ∈ l) := by
        intro u hu
        by_cases hm : u ∈ l
        · have := f2 u hm
          simp [Array.getD_eq_getD_getElem?, this, hm]
        · have := f3 (tri P.nv + u) (fun v hv he => hm ((by omega : u = v) ▸ hv))
          have hz : (P.edges ++ Array.replicate P.nv 0)[tri P.nv + u]? = some 0 := by
            rw [Array.getElem?_append_right (by rw [hs.edges]; omega)]
            simp [hs.edges, hu]
          simp [Array.getD_eq_getD_getElem?, this, hz, hm]
      -- the edge bit of the pair u < v in the new graph
      have key : ∀ u v, u < v → v < P.nv + 1 →
          decide (e.getD (tri v + u) 0 > 0) = if v < P.nv then decide (P.edges.getD (tri v + u) 0 > 0) else l.contains u := by
        intro u v huv hv
        by_cases hv1 : v < P.nv
        · rw [if_pos hv1, hold _ (tri_add_lt huv hv1)]
        · have hv2 : v = P.nv := by omega
          subst hv2
          rw [if_neg hv1]
          cases hc : l.contains u
          · have hm : ¬ u ∈ l := by simpa [List.contains_iff_mem] using hc
            exact decide_eq_false (fun hp => hm ((hnew u huv).1 hp))
          · exact decide_eq_true ((hnew u huv).2 (List.contains_iff_mem.1 hc))
      have half : ∀ u v, u < v →
          (decide (u < P.nv + 1) && decide (v < P.nv + 1) && decide (e.getD (tri v + u) 0 > 0)) =
            ((decide (u < P.nv) && decide (v < P.nv) && decide (P.edges.getD (tri v + u) 0 > 0)) ||
              (v == P.nv && decide (u < P.nv) && l.contains u)) := by
        intro u v huv
        by_cases hv : v < P.nv + 1
        · rw [key u v huv hv]
          by_cases hv1 : v < P.nv
          · have hu1 : u < P.nv := Nat.lt_trans huv hv1
            have e4 : (v == P.nv) = false := by simp [Nat.ne_of_lt hv1]
            simp [hv1, hu1, Nat.lt_succ_of_lt hu1, hv, e4]
          · have hv2 : v = P.nv := by omega
            subst hv2
            simp [huv, Nat.lt_succ_of_lt huv]
        · have h1 : ¬ v < P.nv := by omega
          have e4 : (v == P.nv) = false := by simp; omega
          simp [hv, h1, e4]
      have hPn : P.toG.n = P.nv := rfl
      apply G.ext_eq
      · simp [DG.toG, ext]
      · intro u v
        rcases Nat.lt_trichotomy u v with huv | huv | huv
        · have hne : (u != v) = true := by simp [Nat.ne_of_lt huv]
          have hq : (u == P.nv && decide (v < P.nv) && l.contains v) = false := by
            by_cases hh : u = P.nv
            · have : ¬ v < P.nv := by omega
              simp [this]
            · simp [hh]
          have hadjP : P.toG.adj u v = (decide (u < P.nv) && decide (v < P.nv) && decide (P.edges.getD (tri v + u) 0 > 0)) := by
            simp [DG.toG, hne, huv]
          show (u != v && decide (u < P.nv + 1) && decide (v < P.nv + 1) &&
              (if u < v then decide (e.getD (tri v + u) 0 > 0) else decide (e.getD (tri u + v) 0 > 0))) = _
          simp only [ext, hPn, hne, Bool.true_and, if_pos huv, half u v huv, hq, Bool.or_false, hadjP]
          cases decide (u < P.nv) <;> cases decide (v < P.nv) <;> simp
        · subst huv
          simp [DG.toG, ext]
          intro h1 h2; omega
        · have hne : (u != v) = true := by simp [Nat.ne_of_gt huv]
          have hnl : ¬ u < v := by omega
          have hq : (v == P.nv && decide (u < P.nv) && l.contains u) = false := by
            by_cases hh : v = P.nv
            · have : ¬ u < P.nv := by omega
              simp [this]
            · simp [hh]
          have hadjP : P.toG.adj u v = (decide (v < P.nv) && decide (u < P.nv) && decide (P.edges.getD (tri u + v) 0 > 0)) := by
            simp only [DG.toG, hne, Bool.true_and, if_neg hnl]
            cases decide (u < P.nv) <;> cases decide (v < P.nv) <;> simp
          show (u != v && decide (u < P.nv + 1) && decide (v < P.nv + 1) &&
              (if u < v then decide (e.getD (tri v + u) 0 > 0) else decide (e.getD (tri u + v) 0 > 0))) = _
          have hswap : (decide (u < P.nv + 1) && decide (v < P.nv + 1) && decide (e.getD (tri u + v) 0 > 0)) =
              (decide (v < P.nv + 1) && decide (u < P.nv + 1) && decide (e.getD (tri u + v) 0 > 0)) := by
            cases decide (u < P.nv + 1) <;> cases decide (v < P.nv + 1) <;> rfl
          simp only [ext, hPn, hne, Bool.true_and, if_neg hnl, hswap, half v u huv, hq, Bool.or_false, hadjP]
          cases decide (u < P.nv) <;> cases decide (v < P.nv) <;> simp
    · cases h
    · cases h

end Search
