import Mamba.Lemmas.CanonFCertSplit
import Mamba.Lemmas.CanonFClassDef
/-!
# `splitBin` only moves vertices inside the bin it splits (faithful model `Model/CanonF.lean`)
-/
namespace CanonF

/-- two positions with the same bin index are not separated by a divider -/
theorem binIdx_sep (bd : List Nat) {p q : Nat} (hpq : p ≤ q) (h : binIdx bd p = binIdx bd q) :
    ∀ d ∈ bd, (d ≤ q ↔ d ≤ p) := by
  induction bd with
  | nil => intro d hd; cases hd
  | cons d0 l ih =>
    have hm := binIdx_mono l hpq
    unfold binIdx at h hm ih
    simp only [List.countP_cons, decide_eq_true_eq] at h
    intro d hd
    rcases List.mem_cons.1 hd with rfl | hd
    · constructor
      · intro hq
        by_cases hp : d ≤ p
        · exact hp
        · rw [if_neg hp, if_pos hq] at h; omega
      · intro hp; omega
    · apply ih _ d hd
      by_cases hp : d0 ≤ p
      · rw [if_pos hp, if_pos (by omega : d0 ≤ q)] at h; omega
      · rw [if_neg hp] at h
        by_cases hq : d0 ≤ q
        · rw [if_pos hq] at h; omega
        · rw [if_neg hq] at h; omega

theorem binIdx_sep' (bd : List Nat) {p q : Nat} (h : binIdx bd p = binIdx bd q) :
    ∀ d ∈ bd, (d ≤ q ↔ d ≤ p) := by
  rcases Nat.le_total p q with hpq | hqp
  · exact binIdx_sep bd hpq h
  · intro d hd; exact (binIdx_sep bd hqp h.symm d hd).symm

/-- `splitBin` moves vertices only inside the bin of `i`, and keeps every divider with its age -/
theorem splitBin_rearr {n : Nat} {nb : Nbrs} {cb fl : Sl Nat} {op op' : OP} {i : Nat} {w : Bool}
    (h : PartInv n op) (ha : AgeInv op) (hi : i < n) (hns : NonSingleton op.binDividers.toList i)
    (hs : splitBin nb cb fl op i = .ok (w, op')) :
    (∀ p v, op'.order.toList[p]? = some v →
      ∃ q, op.order.toList[q]? = some v ∧ ∀ d ∈ op.binDividers.toList, (d ≤ q ↔ d ≤ p)) ∧
    (∀ x ∈ divs op, x ∈ divs op') := by
  constructor
  · obtain ⟨op1, _, _, _, _, _, _, _, ho, hex⟩ := splitBin_decomp_ages h ha hi hns hs
    have hord : op'.order = op1.order := by
      split at hex
      · exact (expandValue_frame hex).1
      · rw [hex.2]
    have hsd : op.binDividers.toList.Pairwise (· < ·) := (List.pairwise_cons.1 h.sorted).2
    have hb : binIdx op.binDividers.toList i < op.binDividers.toList.length := binIdx_lt _ n i h.last hi
    have hsi := binStartOf_le _ hsd i hb
    have holen : op.order.toList.length = n := by rw [Sl.length_toList _ h.wfOrder, h.lenOrder]
    intro p v hv
    rw [hord, ho] at hv
    obtain ⟨q, hq, hcase⟩ := moveFront_src _ _ _ hsi (by omega) p v hv
    refine ⟨q, hq, ?_⟩
    rcases hcase with rfl | ⟨a1, a2, a3, a4⟩
    · intro d _; exact Iff.rfl
    · apply binIdx_sep'
      rw [binIdx_eq_of_mem_bin _ hsd i p hb a3 a4, binIdx_eq_of_mem_bin _ hsd i q hb a1 a2]
  · obtain ⟨_, _, _, hf, _⟩ := splitBin_inv h ha hi hns hs
    intro x hx
    rw [← hf] at hx
    exact (List.mem_filter.1 hx).1

end CanonF
