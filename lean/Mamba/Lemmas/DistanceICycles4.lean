import Mamba.Lemmas.DistanceICycles3
import Mamba.Lemmas.DistanceIPaths2
/-!
# Lemmas for C10: the stack DFS of `NumberOfInducedCycles` accumulates the numbers of closing vertices
-/
namespace GDist
open GraphSpec Model

/-- weight of a node of the DFS tree: the number of closing vertices (counted only for paths with ≥ 2 vertices) -/
def clW (g : G) (q : List Nat) : Nat := if 2 ≤ q.length then (closers g q).length else 0

/-- contribution of the subtree below `q` to entry `l`, for the effective bound `M` -/
def contribC (g : G) (M : Nat) (q : List Nat) (l : Nat) : Nat :=
  if l = q.length + 1 ∨ (q.length + 2 ≤ l ∧ l ≤ M) then
    ((ext g (goodInduced g) (l - 1 - q.length) q).map (clW g)).sum else 0

theorem sum_map_flatMap {α β : Type} (l : List α) (F : α → List β) (W : β → Nat) :
    ((l.flatMap F).map W).sum = (l.map fun a => ((F a).map W).sum).sum := by
  induction l with
  | nil => rfl
  | cons a t ih => simp [List.flatMap_cons, ih]

theorem contribC_step (g : G) (M : Nat) (q : List Nat) (l : Nat) :
    contribC g M q l =
      (if l = q.length + 1 then clW g q else 0) +
      (if q.length + 1 < M then ((extend g (goodInduced g) q).map fun c => contribC g M c l).sum else 0) := by
  have hchild : ∀ c ∈ extend g (goodInduced g) q, c.length = q.length + 1 := by
    intro c hc
    obtain ⟨_, _, _, _, _, _, _, rfl⟩ := mem_extend.1 hc
    simp
  unfold contribC
  by_cases h1 : l = q.length + 1
  · subst h1
    have e1 : q.length + 1 - 1 - q.length = 0 := by omega
    simp only [true_or, if_true, e1, ext, List.map_cons, List.map_nil, List.sum_cons, List.sum_nil, Nat.add_zero]
    have hz : ((extend g (goodInduced g) q).map fun c =>
        if q.length + 1 = c.length + 1 ∨ (c.length + 2 ≤ q.length + 1 ∧ q.length + 1 ≤ M) then
          ((ext g (goodInduced g) (q.length + 1 - 1 - c.length) c).map (clW g)).sum else 0).sum = 0 := by
      apply List.sum_eq_zero
      intro x hx
      obtain ⟨c, hc, rfl⟩ := List.mem_map.1 hx
      have := hchild c hc
      have : ¬ (q.length + 1 = c.length + 1 ∨ (c.length + 2 ≤ q.length + 1 ∧ q.length + 1 ≤ M)) := by omega
      rw [if_neg this]
    rw [hz]
    split <;> simp
  · simp only [h1, false_or, if_false, Nat.zero_add]
    by_cases h2 : q.length + 2 ≤ l ∧ l ≤ M
    · have hlt : q.length + 1 < M := by omega
      rw [if_pos h2, if_pos hlt]
      have e : l - 1 - q.length = (l - 2 - q.length) + 1 := by omega
      rw [e, ext_succ', sum_map_flatMap]
      congr 1
      apply List.map_congr_left
      intro c hc
      have hcl := hchild c hc
      have hcond : l = c.length + 1 ∨ (c.length + 2 ≤ l ∧ l ≤ M) := by omega
      have e2 : l - 1 - c.length = l - 2 - q.length := by omega
      rw [if_pos hcond, e2]
    · rw [if_neg h2]
      by_cases hlt : q.length + 1 < M
      · rw [if_pos hlt]
        symm
        apply List.sum_eq_zero
        intro x hx
        obtain ⟨c, hc, rfl⟩ := List.mem_map.1 hx
        have hcl := hchild c hc
        have : ¬ (l = c.length + 1 ∨ (c.length + 2 ≤ l ∧ l ≤ M)) := by omega
        rw [if_neg this]
      · rw [if_neg hlt]

/-- the records of the cycle DFS -/
structure RecOKc (h : G) (M : Nat) (P : ICyc) : Prop where
  ne : P.p ≠ []
  len : P.length + 1 = P.p.length
  nd : P.p.Nodup
  rng : ∀ x ∈ P.p, x < h.n
  ban : ∀ x, x ∈ P.banned ↔ (x ∈ P.p ∨ (x < h.n ∧ ∃ y ∈ P.p.tail, h.adj y x = true))
  lenM : P.length = 0 ∨ P.length + 2 ≤ M
  ae0 : P.length = 0 → ∀ x, x ∈ P.allowedEnds ↔ (x < h.n ∧ h.adj (P.p.getLastD 0) x = true)
  ae1 : 1 ≤ P.length → ∀ x, x ∈ P.allowedEnds ↔
    (x < h.n ∧ h.adj (P.p.getLastD 0) x = true ∧ x ∉ P.p ∧ ∀ y ∈ P.p.tail.dropLast, h.adj y x = false)

def toIPath (P : ICyc) : IPath := { p := P.p, length := P.length, banned := P.banned }

theorem RecOKc.toRecOK {h : G} {M : Nat} {P : ICyc} (ok : RecOKc h M P) : RecOK h (toIPath P) :=
  { ne := ok.ne, len := ok.len, nd := ok.nd, rng := ok.rng, ban := ok.ban }

variable {h : G}

theorem mem_sInter {a b : List Nat} {x : Nat} : x ∈ sInter a b ↔ (x ∈ a ∧ x ∈ b) := by
  simp [sInter, List.mem_filter]

theorem mem_sRemove {a : List Nat} {v x : Nat} : x ∈ sRemove a v ↔ (x ∈ a ∧ x ≠ v) := by
  simp [sRemove, List.mem_filter]

/-- the closing count of the Go code -/
theorem numCycles_eq {M : Nat} {P : ICyc} (ok : RecOKc h M P) (hL : 1 ≤ P.length) {last : Nat} {t : List Nat}
    (hp : P.p = last :: t) :
    (sInter (h.nbrs last) P.allowedEnds).length = (closers h P.p).length := by
  congr 1
  unfold sInter G.nbrs closers
  rw [List.filter_filter]
  apply List.filter_congr
  intro w hw
  have hwn := List.mem_range.1 hw
  have hae := ok.ae1 hL w
  rw [Bool.eq_iff_iff]
  simp only [Bool.and_eq_true, List.contains_iff_mem, Bool.not_eq_true', List.all_eq_true, hp,
    List.headD_cons]
  rw [← hp, hae]
  constructor
  · rintro ⟨⟨_, h1, h2, h3⟩, h0⟩
    refine ⟨⟨⟨h0, h1⟩, ?_⟩, h3⟩
    simpa using h2
  · rintro ⟨⟨⟨h0, h1⟩, h2⟩, h3⟩
    exact ⟨⟨hwn, h1, by simpa using h2, h3⟩, h0⟩

theorem getLastD_cons_of_ne_nil {a : Nat} {l : List Nat} (hl : l ≠ []) : (a :: l).getLastD 0 = l.getLastD 0 := by
  obtain ⟨b, t, rfl⟩ := List.exists_cons_of_ne_nil hl
  rw [List.getLastD_eq_getLast?, List.getLastD_eq_getLast?, List.getLast?_cons_cons]

theorem child_okc (hsym : ∀ u v, h.adj u v = h.adj v u) (hirr : ∀ v, h.adj v v = false) {M : Nat} {P : ICyc}
    (ok : RecOKc h M P) {last : Nat} {t : List Nat} (hp : P.p = last :: t) {v : Nat}
    (hv : v ∈ sMinus (h.nbrs last) P.banned) (hnc : P.length + 2 < M) :
    RecOKc h M { p := v :: P.p, length := P.length + 1,
                 allowedEnds := if P.length > 0 then sMinus P.allowedEnds (h.nbrs last)
                                else sRemove P.allowedEnds v,
                 banned := sAdd (sUnion P.banned (h.nbrs last)) v } := by
  have base := child_ok hsym ok.toRecOK (P := toIPath P) hp hv
  obtain ⟨hvn, hvb⟩ := mem_sMinus.1 hv
  have hvn' : v < h.n ∧ h.adj last v = true := by simpa [G.nbrs, List.mem_filter] using hvn
  have hlastD : (v :: P.p).getLastD 0 = P.p.getLastD 0 := getLastD_cons_of_ne_nil ok.ne
  refine { ne := base.ne, len := base.len, nd := base.nd, rng := base.rng, ban := base.ban,
           lenM := .inr (by show P.length + 1 + 2 ≤ M; omega), ae0 := fun h0 => by simp at h0, ae1 := ?_ }
  intro _ x
  show x ∈ (if P.length > 0 then sMinus P.allowedEnds (h.nbrs last) else sRemove P.allowedEnds v) ↔
    (x < h.n ∧ h.adj ((v :: P.p).getLastD 0) x = true ∧ x ∉ v :: P.p ∧
      ∀ y ∈ (v :: P.p).tail.dropLast, h.adj y x = false)
  rw [hlastD]
  simp only [List.tail_cons]
  by_cases hL : P.length > 0
  · simp only [hL, if_true]
    have htne : t ≠ [] := by
      intro ht
      have := ok.len; rw [hp, ht] at this; simp at this; omega
    have hdl : P.p.dropLast = last :: t.dropLast := by rw [hp, List.dropLast_cons_of_ne_nil htne]
    have htl : P.p.tail.dropLast = t.dropLast := by rw [hp]; rfl
    rw [mem_sMinus, ok.ae1 (by omega) x, hdl, htl]
    simp only [G.nbrs, List.mem_filter, List.mem_range, List.mem_cons, not_and, not_or, forall_eq_or_imp]
    constructor
    · rintro ⟨⟨h1, h2, h3, h4⟩, h5⟩
      have hlx : h.adj last x = false := by
        cases hh : h.adj last x with
        | false => rfl
        | true => exact absurd hh (h5 h1)
      refine ⟨h1, h2, ⟨?_, h3⟩, hlx, h4⟩
      rintro rfl
      rw [hvn'.2] at hlx; cases hlx
    · rintro ⟨h1, h2, ⟨_, h3⟩, hlx, h4⟩
      exact ⟨⟨h1, h2, h3, h4⟩, fun _ => by rw [hlx]; simp⟩
  · have hL0 : P.length = 0 := by omega
    simp only [hL, if_false]
    have hpl : P.p = [last] := by
      have := ok.len; rw [hp, hL0] at this
      have : t = [] := by
        cases t with
        | nil => rfl
        | cons a b => simp at this
      rw [hp, this]
    rw [mem_sRemove, ok.ae0 hL0 x, hpl]
    have hd : [last].dropLast = ([] : List Nat) := rfl
    have hg : [last].getLastD 0 = last := rfl
    rw [hd, hg]
    constructor
    · rintro ⟨⟨h1, h2⟩, h3⟩
      refine ⟨h1, h2, ?_, fun y hy => by cases hy⟩
      intro hm
      rcases List.mem_cons.1 hm with rfl | hm
      · exact h3 rfl
      · simp at hm; subst hm
        rw [hirr] at h2; cases h2
    · rintro ⟨h1, h2, h3, _⟩
      exact ⟨⟨h1, h2⟩, fun hxv => h3 (by simp [hxv])⟩

theorem contribC_of_no_ext {M : Nat} {q : List Nat} (he : extend h (goodInduced h) q = []) (l : Nat) :
    contribC h M q l = if l = q.length + 1 then clW h q else 0 := by
  rw [contribC_step h M q l, he]
  simp

/-- the stack loop of `NumberOfInducedCycles` adds, for every record on the stack, the contribution of its subtree -/
theorem icLoop_spec (hsym : ∀ u v, h.adj u v = h.adj v u) (hirr : ∀ v, h.adj v v = false) (M : Nat) :
    ∀ (fuel : Nat) (st : List ICyc) (r : Array Nat), (∀ P ∈ st, RecOKc h M P) → M + 1 ≤ r.size →
      (st.map fun P => wtP h (toIPath P)).sum + 1 ≤ fuel →
      ∃ r', icLoop h (M : Int) fuel st r = .ok r' ∧ r'.size = r.size ∧
        ∀ l, lbl r' l = lbl r l + (st.map fun P => contribC h M P.p l).sum := by
  intro fuel
  induction fuel with
  | zero => intro st r _ _ hf; omega
  | succ f ih =>
    intro st r hok hsize hf
    cases st with
    | nil => exact ⟨r, rfl, rfl, fun l => by simp⟩
    | cons P st =>
      have okP := hok P List.mem_cons_self
      have hok' : ∀ P' ∈ st, RecOKc h M P' := fun P' hP' => hok P' (List.mem_cons_of_mem _ hP')
      obtain ⟨last, t, hp⟩ := List.exists_cons_of_ne_nil okP.ne
      have hext := extend_eq_options hsym okP.toRecOK (P := toIPath P) hp
      simp only [List.map_cons, List.sum_cons] at hf ⊢
      have hwpos : 1 ≤ wtP h (toIPath P) := wtN_pos h.n (h.n - P.p.length)
      -- the counting step
      obtain ⟨r1, er1, hs1, hr1⟩ : ∃ r1 : Array Nat,
          (if P.length > 0 then
            (if hi : P.length + 2 < r.size then
              Outcome.ok (r.set (P.length + 2) (r[P.length + 2] + (sInter (h.nbrs last) P.allowedEnds).length))
             else Outcome.panic)
           else Outcome.ok r) = Outcome.ok r1 ∧ r1.size = r.size ∧
          ∀ l, lbl r1 l = lbl r l + (if l = P.p.length + 1 then clW h P.p else 0) := by
        by_cases hL : P.length > 0
        · have hidx : P.length + 2 < r.size := by
            rcases okP.lenM with h0 | h0 <;> omega
          refine ⟨r.set (P.length + 2) (r[P.length + 2] + (sInter (h.nbrs last) P.allowedEnds).length) hidx,
            by simp only [hL, if_true, hidx, dif_pos], by simp, fun l => ?_⟩
          rw [lbl_set hidx, numCycles_eq okP (by omega) hp]
          have hlen2 : 2 ≤ P.p.length := by have := okP.len; omega
          have hidx2 : P.p.length + 1 = P.length + 2 := by have := okP.len; omega
          simp only [clW, hlen2, if_true, hidx2]
          by_cases hl : l = P.length + 2
          · simp [hl, lbl_of_lt hidx]
          · simp [hl]
        · refine ⟨r, by simp only [hL, if_false], rfl, fun l => ?_⟩
          have hlen1 : ¬ 2 ≤ P.p.length := by have := okP.len; omega
          simp [clW, hlen1]
      unfold icLoop
      simp only [hp]
      rw [← hp, er1]
      simp only
      have hsize1 : M + 1 ≤ r1.size := by omega
      by_cases hcut : (P.length : Int) ≥ (M : Int) - 2
      · simp only [hcut, if_true]
        have hnlt : ¬ P.p.length + 1 < M := by have := okP.len; omega
        obtain ⟨r', e, hs, hr⟩ := ih st r1 hok' hsize1 (by omega)
        refine ⟨r', e, by omega, fun l => ?_⟩
        rw [hr l, hr1 l, contribC_step h M P.p l]
        simp only [hnlt, if_false]
        omega
      · simp only [hcut, if_false]
        have hlt : P.p.length + 1 < M := by have := okP.len; omega
        have hnc : P.length + 2 < M := by have := okP.len; omega
        let mk : Nat → ICyc := fun v =>
          { p := v :: P.p, length := P.length + 1,
            allowedEnds := if P.length > 0 then sMinus P.allowedEnds (h.nbrs last) else sRemove P.allowedEnds v,
            banned := sAdd (sUnion P.banned (h.nbrs last)) v }
        have hchildren_ok : ∀ P' ∈ ((sMinus (h.nbrs last) P.banned).map mk).reverse ++ st, RecOKc h M P' := by
          intro P' hP'
          rcases List.mem_append.1 hP' with hP' | hP'
          · obtain ⟨v', hv', rfl⟩ := List.mem_map.1 (List.mem_reverse.1 hP')
            exact child_okc hsym hirr okP hp hv' hnc
          · exact hok' P' hP'
        by_cases hopt : (sMinus (h.nbrs last) P.banned).length = 0
        · -- no children
          have hnil : sMinus (h.nbrs last) P.banned = [] := List.length_eq_zero_iff.1 hopt
          have hextnil : extend h (goodInduced h) P.p = [] := by
            have := hext; simp only [toIPath] at this; rw [this, hnil]; rfl
          simp only [hnil, List.map_nil, List.reverse_nil, List.nil_append]
          obtain ⟨r', e, hs, hr⟩ := ih st r1 hok' hsize1 (by omega)
          refine ⟨r', e, by omega, fun l => ?_⟩
          rw [hr l, hr1 l, contribC_of_no_ext hextnil]
          omega
        · obtain ⟨v, hv⟩ := List.exists_mem_of_length_pos (Nat.pos_of_ne_zero hopt)
          have cok := child_okc hsym hirr okP hp hv hnc
          have hplen : P.p.length + 1 ≤ h.n := by
            have hsub : ∀ x ∈ v :: P.p, x ∈ List.range h.n := fun x hx => List.mem_range.2 (cok.rng x hx)
            have := (List.subperm_of_subset cok.nd hsub).length_le
            simpa using this
          have hwchild : ∀ v', wtP h (toIPath (mk v')) = wtN h.n (h.n - P.p.length - 1) := by
            intro v'; simp [wtP, mk, toIPath]; congr 1
          have hwP : wtP h (toIPath P) = 1 + h.n * wtN h.n (h.n - P.p.length - 1) := by
            unfold wtP toIPath
            have : h.n - P.p.length = (h.n - P.p.length - 1) + 1 := by omega
            simp only
            rw [this, wtN]
            simp
          have hoptle : (sMinus (h.nbrs last) P.banned).length ≤ h.n := by
            have : (sMinus (h.nbrs last) P.banned).length ≤ (List.range h.n).length := by
              have := options_eq hsym okP.toRecOK (P := toIPath P) hp
              simp only [toIPath] at this
              rw [this]; exact List.length_filter_le _ _
            simpa using this
          have hfuel : ((((sMinus (h.nbrs last) P.banned).map mk).reverse ++ st).map
              fun P' => wtP h (toIPath P')).sum + 1 ≤ f := by
            rw [List.map_append, List.sum_append, sum_map_reverse, List.map_map]
            have hc : (sMinus (h.nbrs last) P.banned).map ((fun P' => wtP h (toIPath P')) ∘ mk)
                = (sMinus (h.nbrs last) P.banned).map (fun _ => wtN h.n (h.n - P.p.length - 1)) :=
              List.map_congr_left (fun a _ => hwchild a)
            rw [hc]
            have := Nat.mul_le_mul_right (wtN h.n (h.n - P.p.length - 1)) hoptle
            rw [hwP] at hf
            simp
            omega
          obtain ⟨r', e, hs, hr⟩ := ih _ r1 hchildren_ok hsize1 hfuel
          refine ⟨r', e, by omega, fun l => ?_⟩
          rw [hr l, hr1 l, contribC_step h M P.p l]
          simp only [hlt, if_true]
          have hext' : extend h (goodInduced h) P.p = (sMinus (h.nbrs last) P.banned).map (· :: P.p) := hext
          rw [List.map_append, List.sum_append, sum_map_reverse, List.map_map, hext', List.map_map]
          have : (fun P' : ICyc => contribC h M P'.p l) ∘ mk
              = (fun c => contribC h M c l) ∘ (fun v' => v' :: P.p) := rfl
          rw [this]
          omega

end GDist
