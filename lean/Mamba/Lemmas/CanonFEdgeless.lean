import Mamba.Lemmas.CanonFInv
import Mathlib.Logic.Relation
/-!
# The `m == 0` shortcut of `CanonicalIsomorphAllocated` (`edgeless`): identity permutation, one orbit, and generators of
the full symmetric group (`n`-cycle and a transposition)
-/

namespace CanonF

/-- the fill loop `for i := 0; i < k; i++ { t[i] = f i }` -/
theorem edg_fill (f : Nat → Nat) (k : Nat) (t t' : Sl Nat)
    (h : forRange (fun i (t : Sl Nat) => t.set i (f i)) k 0 t = .ok t') :
    t'.len = t.len ∧ ∀ p, t'.data[p]? = if p < k then some (f p) else t.data[p]? := by
  have := forRange_inv (fun i (t : Sl Nat) => t.set i (f i))
    (fun i s => s.len = t.len ∧ ∀ p, s.data[p]? = if p < i then some (f p) else t.data[p]?)
    k 0 t t' ⟨rfl, fun p => by simp⟩ ?_ h
  · simpa using this
  · intro i s s' _ _ ⟨hl, hd⟩ hs
    refine ⟨by rw [Sl.set_len hs, hl], fun p => ?_⟩
    rw [Sl.set_data hs, hd]
    by_cases hp : p = i
    · subst hp; simp
    · by_cases hp2 : p < i
      · have : p < i + 1 := by omega
        simp [hp, hp2, this]
      · have : ¬ p < i + 1 := by omega
        simp [hp, hp2, this]

theorem edg_toList_of_data (s : Sl Nat) (n : Nat) (g : Nat → Nat) (hl : s.len = n)
    (hd : ∀ p, p < n → s.data[p]? = some (g p)) : s.toList = (List.range n).map g := by
  apply List.ext_getElem?
  intro i
  rw [Sl.getElem?_toList, hl]
  by_cases hi : i < n
  · simp [hi, hd i hi]
  · simp [hi]

/-- the `n`-cycle is a permutation -/
theorem edg_cycle_perm (n : Nat) (hn : n ≠ 0) :
    ((List.range n).map (fun i => if i = n - 1 then 0 else i + 1)).Perm (List.range n) := by
  have h1 : (List.range n).map (fun i => if i = n - 1 then 0 else i + 1) = List.range' 1 (n - 1) ++ [0] := by
    apply List.ext_getElem?
    intro i
    by_cases hi : i < n - 1
    · rw [List.getElem?_append_left (by simpa using hi)]
      have : i < n := by omega
      have h2 : i ≠ n - 1 := by omega
      simp [this, hi, h2]
      omega
    · by_cases hi2 : i = n - 1
      · subst hi2
        rw [List.getElem?_append_right (by simp)]
        have : n - 1 < n := by omega
        simp [this]
      · have : ¬ i < n := by omega
        rw [List.getElem?_eq_none (by simp; omega), List.getElem?_eq_none (by simp; omega)]
  have h2 : List.range n = [0] ++ List.range' 1 (n - 1) := by
    obtain ⟨m, rfl⟩ : ∃ m, n = m + 1 := ⟨n - 1, by omega⟩
    rw [List.range_eq_range', List.range'_succ]
    simp
  rw [h1, h2]
  exact List.perm_append_comm

/-- the transposition `(0 1)` is a permutation -/
theorem edg_swap_perm (n : Nat) (hn : 2 ≤ n) :
    ((List.range n).map (fun i => if i = 0 then 1 else if i = 1 then 0 else i)).Perm (List.range n) := by
  obtain ⟨m, rfl⟩ : ∃ m, n = m + 2 := ⟨n - 2, by omega⟩
  have h2 : List.range (m + 2) = 0 :: 1 :: List.range' 2 m := by
    rw [List.range_eq_range', List.range'_succ, List.range'_succ]
  rw [h2]
  simp only [List.map_cons, if_true]
  have h3 : (List.range' 2 m).map (fun i => if i = 0 then 1 else if i = 1 then 0 else i) = List.range' 2 m := by
    conv => rhs; rw [← List.map_id (List.range' 2 m)]
    apply List.map_congr_left
    intro a ha
    rw [List.mem_range'] at ha
    obtain ⟨j, _, rfl⟩ := ha
    simp; omega
  rw [h3]
  exact List.Perm.swap _ _ _

/-- the temporary slice `tmp` of length `n` (a re-used slot or a fresh array) -/
theorem edg_gen {n : Nat} (f : Nat → Nat) (j v : Nat) (t0 t1 t2 : Sl Nat) (hl : t0.len = n)
    (h1 : forRange (fun i (t : Sl Nat) => t.set i (f i)) t0.len 0 t0 = .ok t1)
    (h2 : t1.set j v = .ok t2) :
    t2.len = n ∧ t2.toList = (List.range n).map (fun i => if i = j then v else f i) := by
  obtain ⟨l1, d1⟩ := edg_fill f _ _ _ h1
  have l2 : t2.len = n := by rw [Sl.set_len h2, l1, hl]
  refine ⟨l2, edg_toList_of_data _ _ _ l2 ?_⟩
  intro p hp
  rw [Sl.set_data h2, d1, hl]
  by_cases hj : p = j <;> simp [hj, hp]

theorem edg_gen' {n : Nat} (f : Nat → Nat) (j v j' v' : Nat) (t0 t1 t2 t3 : Sl Nat) (hl : t0.len = n)
    (h1 : forRange (fun i (t : Sl Nat) => t.set i (f i)) t0.len 0 t0 = .ok t1)
    (h2 : t1.set j v = .ok t2) (h3 : t2.set j' v' = .ok t3) :
    t3.len = n ∧ t3.toList = (List.range n).map (fun i => if i = j' then v' else if i = j then v else f i) := by
  obtain ⟨l1, d1⟩ := edg_fill f _ _ _ h1
  have l3 : t3.len = n := by rw [Sl.set_len h3, Sl.set_len h2, l1, hl]
  refine ⟨l3, edg_toList_of_data _ _ _ l3 ?_⟩
  intro p hp
  rw [Sl.set_data h3, Sl.set_data h2, d1, hl]
  simp only [hp, if_true]
  split
  · rfl
  · split <;> rfl

theorem edg_edgeless_full {n : Nat} {st st' : Storage} {r : Res} (hn : n ≠ 0) (h : edgeless n st = .ok (r, st')) :
    r.perm = some (List.range n) ∧
    r.gens = some (if n = 1 then [] else if n = 2 then [[1, 0]] else
      [(List.range n).map (fun i => if i = n - 1 then 0 else i + 1),
       (List.range n).map (fun i => if i = 0 then 1 else if i = 1 then 0 else i)]) ∧
    ∃ ds, r.orbits = some ds ∧ ds.length = n := by
  unfold edgeless at h
  split at h
  · rename_i perm ds dsRest hperm hds
    split at h
    · rename_i perm' hid
      have key : perm'.toList = List.range n := by
        obtain ⟨_, rfl⟩ := Sl.reslice_eq_ok.1 hperm
        obtain ⟨l1, d1⟩ := edg_fill (fun i => i) _ _ _ hid
        have := edg_toList_of_data perm' n (fun i => i) l1 (fun p hp => by rw [d1, if_pos hp])
        rw [this]; simp
      have hdl : ((ds.setIfInBounds 0 (-2)).mapIdx (fun i v => if 0 < i then 0 else v)).toList.length = n := by
        unfold dsSlice at hds
        split at hds
        · simp only [Outcome.ok.injEq, Prod.mk.injEq] at hds
          rw [← hds.1]; simp; omega
        · cases hds
      have hlen : ∀ (c : Prop) [Decidable c] (d : Array Nat),
          (if c then Sl.mk' n n 0 else (⟨d, n⟩ : Sl Nat)).len = n := by
        intro c _ d; split <;> rfl
      osplit h
      · rename_i h1
        simp only [Outcome.ok.injEq, Prod.mk.injEq] at h
        rw [← h.1]
        exact ⟨by simp only [key], by simp [h1], _, rfl, hdl⟩
      · rename_i h1 h2 _ _ t1 hf _ t2 hs
        simp only [Outcome.ok.injEq, Prod.mk.injEq] at h
        rw [← h.1]
        obtain ⟨_, e⟩ := edg_gen (fun i => i + 1) _ _ _ _ _ (hlen _ _) hf hs
        refine ⟨by simp only [key], ?_, _, rfl, hdl⟩
        simp only [e, if_neg h1, if_pos h2]
        subst h2
        rfl
      · rename_i h1 h2 _ _ t1 hf _ t2 hs _ _ u1 hg _ u2 hs1 _ u3 hs2
        simp only [Outcome.ok.injEq, Prod.mk.injEq] at h
        rw [← h.1]
        obtain ⟨_, e⟩ := edg_gen (fun i => i + 1) _ _ _ _ _ (hlen _ _) hf hs
        obtain ⟨_, e'⟩ := edg_gen' (fun i => i) _ _ _ _ _ _ _ _ (hlen _ _) hg hs1 hs2
        refine ⟨by simp only [key], ?_, _, rfl, hdl⟩
        have hfun : (fun i : Nat => if i = 1 then 0 else if i = 0 then 1 else i) =
            (fun i : Nat => if i = 0 then 1 else if i = 1 then 0 else i) := by
          funext i
          by_cases h0 : i = 0
          · subst h0; simp
          · by_cases h1 : i = 1
            · subst h1; simp
            · simp [h0, h1]
        simp only [e, e', if_neg h1, if_neg h2, hfun]
    · cases h
    · cases h
  · cases h


theorem edgeless_gens {n : Nat} {st st' : Storage} {r : Res} (hn : n ≠ 0) (h : edgeless n st = .ok (r, st')) :
    r.perm = some (List.range n) ∧
    r.gens = some (if n = 1 then [] else if n = 2 then [[1, 0]] else
      [(List.range n).map (fun i => if i = n - 1 then 0 else i + 1),
       (List.range n).map (fun i => if i = 0 then 1 else if i = 1 then 0 else i)]) :=
  ⟨(edg_edgeless_full hn h).1, (edg_edgeless_full hn h).2.1⟩

/-- connectivity through a generator that maps `x` to `x + 1` -/
theorem edg_connected {n : Nat} (gs : List (List Nat)) (c : List Nat) (hc : c ∈ gs)
    (hstep : ∀ x, x + 1 < n → c[x]? = some (x + 1)) :
    ∀ a b, a < n → b < n → Relation.EqvGen (fun x y => ∃ γ ∈ gs, γ[x]? = some y) a b := by
  have h0 : ∀ a, a < n → Relation.EqvGen (fun x y => ∃ γ ∈ gs, γ[x]? = some y) 0 a := by
    intro a
    induction a with
    | zero => intro _; exact Relation.EqvGen.refl _
    | succ a ih =>
      intro ha
      exact Relation.EqvGen.trans _ _ _ (ih (by omega)) (Relation.EqvGen.rel _ _ ⟨c, hc, hstep a ha⟩)
  intro a b ha hb
  exact Relation.EqvGen.trans _ _ _ (Relation.EqvGen.symm _ _ (h0 a ha)) (h0 b hb)

theorem edg_cycle_step (n x : Nat) (hx : x + 1 < n) :
    ((List.range n).map (fun i => if i = n - 1 then 0 else i + 1))[x]? = some (x + 1) := by
  have h1 : x < n := by omega
  have h2 : x ≠ n - 1 := by omega
  simp [h1, h2]

theorem edgeless_cert {n : Nat} {st st' : Storage} {r : Res} (hn : n ≠ 0) (h : edgeless n st = .ok (r, st')) :
    ∃ gs ds, r.gens = some gs ∧ r.orbits = some ds ∧ ds.length = n ∧
      (∀ γ ∈ gs, γ.Perm (List.range n)) ∧
      ∀ a b, a < n → b < n → Relation.EqvGen (fun x y => ∃ γ ∈ gs, γ[x]? = some y) a b := by
  obtain ⟨_, hg, ds, hds, hdl⟩ := edg_edgeless_full hn h
  refine ⟨_, ds, hg, hds, hdl, ?_, ?_⟩
  · by_cases h1 : n = 1
    · simp [h1]
    · by_cases h2 : n = 2
      · subst h2
        simp only [if_neg h1, if_true, List.mem_singleton]
        rintro γ rfl
        exact edg_cycle_perm 2 (by omega)
      · simp only [if_neg h1, if_neg h2, List.mem_cons, List.not_mem_nil, or_false]
        rintro γ (rfl | rfl)
        · exact edg_cycle_perm n hn
        · exact edg_swap_perm n (by omega)
  · by_cases h1 : n = 1
    · intro a b ha hb
      have : a = b := by omega
      subst this
      exact Relation.EqvGen.refl _
    · by_cases h2 : n = 2
      · subst h2
        simp only [if_neg h1, if_true]
        exact edg_connected _ [1, 0] (by simp) (fun x hx => edg_cycle_step 2 x hx)
      · simp only [if_neg h1, if_neg h2]
        exact edg_connected _ _ (List.mem_cons_self ..) (fun x hx => edg_cycle_step n x hx)

end CanonF
