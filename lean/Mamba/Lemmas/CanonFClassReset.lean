import Mamba.Lemmas.CanonFReset
/-!
# `inCell` of the initial partition is the index of the class that lists the vertex
-/
namespace CanonF

/-- a vertex listed in class `k` occupies, in the flattened sorted classes, a position of bin `k` -/
theorem class_position (cs : List (List Nat)) : ∀ (off k : Nat) (c : List Nat) (v : Nat), cs[k]? = some c → v ∈ c →
    ∃ q, (cs.map sortNat).flatten[q]? = some v ∧ binIdx (psums off (cs.map List.length)) (off + q) = k := by
  induction cs with
  | nil => intro off k c v h; simp at h
  | cons c0 cs ih =>
    intro off k c v hk hv
    have hlc : (sortNat c0).length = c0.length := length_sortNat c0
    cases k with
    | zero =>
      simp only [List.getElem?_cons_zero, Option.some.injEq] at hk
      subst hk
      obtain ⟨q, hq⟩ := List.mem_iff_getElem?.1 (mem_sortNat.2 hv)
      have hql : q < c0.length := by
        rw [← hlc]; exact (List.getElem?_eq_some_iff.1 hq).1
      refine ⟨q, ?_, ?_⟩
      · rw [List.map_cons, List.flatten_cons, List.getElem?_append, if_pos (by omega), hq]
      · rw [List.map_cons, psums, binIdx_cons, if_neg (by omega),
          binIdx_eq_zero _ _ (fun d hd => by have := psums_ge _ _ d hd; omega)]
    | succ k =>
      rw [List.getElem?_cons_succ] at hk
      obtain ⟨q, hq, hb⟩ := ih (off + c0.length) k c v hk hv
      refine ⟨c0.length + q, ?_, ?_⟩
      · rw [List.map_cons, List.flatten_cons, List.getElem?_append, if_neg (by omega), hlc,
          show c0.length + q - c0.length = q by omega, hq]
      · rw [List.map_cons, psums, binIdx_cons, if_pos (by omega),
          show off + (c0.length + q) = off + c0.length + q by omega, hb]

theorem new_inCell_classes {n m : Nat} {vc : Classes} {op : OP} (hn : 0 < n) (hc : ClassesOK n vc)
    (h : newOrderedPartition n m vc = .ok (some op)) :
    match vc with
    | none => ∀ v, v < n → op.inCell.toList[v]? = some 0
    | some cls => ∀ (k : Nat) (c : List Nat), cls[k]? = some c → ∀ v ∈ c, op.inCell.toList[v]? = some k := by
  obtain ⟨op', h', hs, _⟩ := new_spec (m := m) hn hc
  rw [h] at h'
  obtain rfl : op = op' := Option.some.inj (Outcome.ok.inj h')
  cases vc with
  | none =>
    intro v hv
    have := hs.inCell v v (by simp only [ordL]; exact List.getElem?_range hv)
    rw [this]
    simp [bdL, binIdx, hv]
  | some cls =>
    intro k c hk v hv
    obtain ⟨q, hq, hb⟩ := class_position cls 0 k c v hk hv
    have := hs.inCell q v (by simpa only [ordL] using hq)
    rw [this]
    simp only [bdL]
    rw [show q = 0 + q by omega, hb]

/-- the initial work list has as many entries as there are bins -/
theorem new_btc_len {n m : Nat} {vc : Classes} {op : OP} (h : newOrderedPartition n m vc = .ok (some op)) :
    op.binsToCheck.len = op.binDividers.len := by
  unfold newOrderedPartition at h
  osplit h
  all_goals
    simp only [Outcome.ok.injEq, Option.some.injEq] at h
    subst h
    rfl

theorem new_btc_wf {n m : Nat} {vc : Classes} {op : OP} (hn : 0 < n) (hc : ClassesOK n vc)
    (h : newOrderedPartition n m vc = .ok (some op)) :
    op.binsToCheck.WF ∧ op.binsToCheck.len = op.binDividers.len := by
  have hl := new_btc_len h
  obtain ⟨op', h', hs, _, _, z3, _, z5, _⟩ := new_spec (m := m) hn hc
  rw [h] at h'
  obtain rfl : op = op' := Option.some.inj (Outcome.ok.inj h')
  have hw : op.binDividers.len ≤ op.binDividers.data.size := hs.wfBd
  refine ⟨?_, hl⟩
  show op.binsToCheck.len ≤ op.binsToCheck.data.size
  omega

end CanonF
