import Mamba.Lemmas.SparseRep
import Mamba.Lemmas.DenseRemove
/-!
# SparseGraph.AddVertex refines `addVertexG` (property C05)
-/
namespace GraphRep
open GraphSpec

theorem setIfInBounds_self {a : Array Int} {i : Nat} (h : i < a.size) : a.setIfInBounds i a[i] = a := by
  apply Array.ext_getElem?
  intro k
  rw [Array.getElem?_setIfInBounds]
  by_cases hk : i = k
  · subst hk; simp [h]
  · simp [hk]

/-- `NewSortedInts` of a duplicate-free argument is its sorted permutation -/
theorem newSortedInts_nodup {x : List Int} (hn : x.Nodup) :
    ∃ L, newSortedInts x = .ok L ∧ SInc L ∧ (∀ z, z ∈ L ↔ z ∈ x) ∧ L.length = x.length := by
  have hperm := List.mergeSort_perm x (fun a b => decide (a ≤ b))
  have hle := List.pairwise_mergeSort (le := fun (a b : Int) => decide (a ≤ b))
    (by intro a b c; simp only [decide_eq_true_eq]; omega)
    (by intro a b; simp only [Bool.or_eq_true, decide_eq_true_eq]; omega) x
  generalize hS0 : x.mergeSort (fun a b => decide (a ≤ b)) = S at hperm hle
  have hnd : S.Nodup := hperm.nodup_iff.mpr hn
  have hS : SInc S := (hle.and hnd).imp (fun ⟨h1, h2⟩ => by
    simp only [decide_eq_true_eq] at h1; omega)
  refine ⟨S, ?_, hS, fun z => hperm.mem_iff, hperm.length_eq⟩
  unfold newSortedInts
  have hloop : ∃ s, loopM dedupStep (List.range' (1 + 0) (S.toArray.size - 1)) (S.toArray, 0) = .ok s ∧
      s = (S.toArray, 0) := by
    apply loopM_range' dedupStep (fun _ s => s = (S.toArray, 0)) 1 (S.toArray.size - 1) 0 _ rfl
    intro t s _ ht hs
    subst hs
    have hsz : S.toArray.size = S.length := by simp
    have h1 : 1 + t < S.length := by omega
    refine ⟨(S.toArray, 0), ?_, rfl⟩
    unfold dedupStep
    simp only
    have e1 : S.toArray[1 + t - 1]? = some S[t] := by
      have : 1 + t - 1 = t := by omega
      rw [this]; simp [show t < S.length by omega]
    have e2 : S.toArray[1 + t]? = some S[1 + t] := by simp [h1]
    rw [e1, e2]
    simp only
    have hlt : S[t] < S[1 + t] := (List.pairwise_iff_getElem.mp hS) t (1 + t) (by omega) h1 (by omega)
    rw [if_neg (by omega)]
    rw [setA_ok _ (by simp; omega)]
    simp only [Nat.sub_zero]
    have : S.toArray.setIfInBounds (1 + t) S[1 + t] = S.toArray := by
      have := setIfInBounds_self (a := S.toArray) (i := 1 + t) (by simp; omega)
      simpa using this
    rw [this]
  obtain ⟨s, hrun, hs⟩ := hloop
  subst hs
  simp only [Nat.add_zero] at hrun
  simp only [hS0]
  rw [hrun]
  simp

theorem modifyI_okI {α : Type} {a : Array α} {x : Int} {r : α} (f : α → α) (hx : 0 ≤ x)
    (h : a[x.toNat]? = some r) : modifyI a x f = .ok (a.setIfInBounds x.toNat (f r)) := by
  unfold modifyI
  rw [if_neg (by omega)]
  simp [h]

/-- the loops `for _, v := range l { Neighbourhoods[v] = f(..); DegreeSequence[v] = h(..) }` -/
theorem Sparse.pairStep_loop (f : List Int → List Int) (hf : Int → Int) (n : Nat) :
    ∀ (l : List Int) (nb : Array (List Int)) (d : Array Int), l.Nodup → (∀ x ∈ l, 0 ≤ x ∧ x < n) →
      nb.size = n → d.size = n →
    ∃ nb' d', loopM (Sparse.pairStep f hf) l (nb, d) = .ok (nb', d') ∧ nb'.size = n ∧ d'.size = n ∧
      (∀ k : Nat, nb'[k]? = (nb[k]?).map (fun r => if (k : Int) ∈ l then f r else r)) ∧
      (∀ k : Nat, d'[k]? = (d[k]?).map (fun r => if (k : Int) ∈ l then hf r else r)) := by
  intro l
  induction l with
  | nil => intro nb d _ _ h1 h2; exact ⟨nb, d, rfl, h1, h2, by simp, by simp⟩
  | cons x l ih =>
    intro nb d hnd hr h1 h2
    obtain ⟨hx0, hxn⟩ := hr x (by simp)
    obtain ⟨hxl, hnd'⟩ := List.nodup_cons.mp hnd
    have hxt : ((x.toNat : Nat) : Int) = x := by omega
    have hlt : x.toNat < n := by omega
    have e1 : nb[x.toNat]? = some nb[x.toNat] := Array.getElem?_eq_getElem (by omega)
    have e2 : d[x.toNat]? = some d[x.toNat] := Array.getElem?_eq_getElem (by omega)
    obtain ⟨nb', d', hrun, s1, s2, g1, g2⟩ := ih (nb.setIfInBounds x.toNat (f nb[x.toNat]))
      (d.setIfInBounds x.toNat (hf d[x.toNat])) hnd' (fun y hy => hr y (by simp [hy])) (by simp [h1])
      (by simp [h2])
    refine ⟨nb', d', ?_, s1, s2, ?_, ?_⟩
    · have hstep : Sparse.pairStep f hf (nb, d) x =
          .ok (nb.setIfInBounds x.toNat (f nb[x.toNat]), d.setIfInBounds x.toNat (hf d[x.toNat])) := by
        unfold Sparse.pairStep
        simp only
        rw [modifyI_okI f hx0 e1]
        simp only
        rw [modifyI_okI hf hx0 e2]
      rw [loopM, hstep]
      exact hrun
    · intro k
      rw [g1 k, Array.getElem?_setIfInBounds]
      by_cases hk : x.toNat = k
      · subst hk
        have : ((x.toNat : Nat) : Int) ∉ l := by rw [hxt]; exact hxl
        have hm : ((x.toNat : Nat) : Int) ∈ x :: l := by rw [hxt]; exact List.mem_cons_self ..
        rw [if_pos rfl, if_pos (by omega), e1, Option.map_some, Option.map_some, if_neg this, if_pos hm]
      · have hne : ¬ (k : Int) = x := by omega
        simp [hk, hne]
    · intro k
      rw [g2 k, Array.getElem?_setIfInBounds]
      by_cases hk : x.toNat = k
      · subst hk
        have : ((x.toNat : Nat) : Int) ∉ l := by rw [hxt]; exact hxl
        have hm : ((x.toNat : Nat) : Int) ∈ x :: l := by rw [hxt]; exact List.mem_cons_self ..
        rw [if_pos rfl, if_pos (by omega), e2, Option.map_some, Option.map_some, if_neg this, if_pos hm]
      · have hne : ¬ (k : Int) = x := by omega
        simp [hk, hne]

theorem addVertexG_adj_true (g : G) (S : List Nat) (u v : Nat) :
    (addVertexG g S).adj u v = true ↔ (u = g.n ∧ v ∈ S) ∨ (v = g.n ∧ u ∈ S) ∨ g.adj u v = true := by
  simp [addVertexG, or_assoc]

theorem Sparse.addVertex_spec {g : Sparse} (h : g.WF) {S : List Nat} (hn : S.Nodup) (hS : ∀ s ∈ S, s < g.n) :
    ∃ g', g.addVertex S = .ok g' ∧ g'.WF ∧ g'.abs = addVertexG g.abs S := by
  have hw := Sparse.abs_wf h
  have hnd : (S.map Int.ofNat).Nodup := hn.map (fun a b hab => by simpa using hab)
  obtain ⟨L, hL, hLs, hLm, hLl⟩ := newSortedInts_nodup hnd
  have hLmem : ∀ z : Int, z ∈ L ↔ ∃ s, s ∈ S ∧ (s : Int) = z := by
    intro z; rw [hLm, List.mem_map]; rfl
  have hLnd : L.Nodup := hLs.imp (fun hab => Int.ne_of_lt hab)
  have hLr : ∀ x ∈ L, 0 ≤ x ∧ x < (g.n : Int) := by
    intro x hx
    obtain ⟨s, hs, rfl⟩ := (hLmem x).mp hx
    have := hS s hs
    omega
  have hlast : (((g.n + 1 : Nat) : Int) - 1) = (g.n : Int) := by omega
  obtain ⟨nb', d', hrun, s1, s2, g1, g2⟩ := Sparse.pairStep_loop
    (fun l => l ++ [((g.n + 1 : Nat) : Int) - 1]) (· + 1) g.n L g.nbrs g.deg hLnd hLr h.nbrs_size h.deg_size
  unfold Sparse.addVertex
  simp only
  rw [hL]
  simp only
  rw [hrun]
  simp only
  refine ⟨_, rfl, ?_⟩
  have hrow : ∀ u, Sparse.row ⟨g.n + 1, g.m + L.length, nb'.push L, d'.push L.length⟩ u =
      if u = g.n then L else if u < g.n then
        (if (u : Int) ∈ L then g.row u ++ [(g.n : Int)] else g.row u) else [] := by
    intro u
    unfold Sparse.row
    simp only
    rw [Array.getD_eq_getD_getElem?, Array.getElem?_push, s1]
    by_cases hu : u = g.n
    · rw [if_pos hu, if_pos hu]; rfl
    · rw [if_neg hu, if_neg hu, g1 u]
      by_cases hlt : u < g.n
      · rw [if_pos hlt, Sparse.row_get h hlt, hlast]
        simp only [Option.map_some, Option.getD_some]
        rfl
      · rw [if_neg hlt, Array.getElem?_eq_none (by rw [h.nbrs_size]; omega)]
        rfl
  have hwG := addVertexG_wf hw (S := S) hS
  apply Sparse.wf_of hwG
  · rfl
  · simp [s1]
  · simp [s2]
  · intro u hu
    rw [hrow u]
    by_cases hun : u = g.n
    · rw [if_pos hun]; exact hLs
    · have hlt : u < g.n := by simp only at hu; omega
      rw [if_neg hun, if_pos hlt]
      split
      · rw [SInc, List.pairwise_append]
        refine ⟨h.sorted u hlt, by simp, ?_⟩
        intro a ha b hb
        have := (h.inrange u hlt a ha).2
        simp only [List.mem_singleton] at hb
        omega
      · exact h.sorted u hlt
  · intro u hu x
    rw [hrow u]
    by_cases hun : u = g.n
    · subst hun
      rw [if_pos rfl, hLmem]
      constructor
      · rintro ⟨s, hs, rfl⟩
        exact ⟨s, rfl, (addVertexG_adj_true _ _ _ _).mpr (Or.inl ⟨rfl, hs⟩)⟩
      · rintro ⟨v, rfl, hv⟩
        rcases (addVertexG_adj_true _ _ _ _).mp hv with ⟨_, hs⟩ | ⟨_, hs⟩ | hadj
        · exact ⟨v, hs, rfl⟩
        · have := hS _ hs; omega
        · have := (hw.supp _ _ hadj).1; simp only [Sparse.abs] at this; omega
    · have hlt : u < g.n := by simp only at hu; omega
      rw [if_neg hun, if_pos hlt]
      have hmemL : (u : Int) ∈ L ↔ u ∈ S := by
        rw [hLmem]
        constructor
        · rintro ⟨s, hs, he⟩
          have : s = u := by omega
          subst this; exact hs
        · intro hs; exact ⟨u, hs, rfl⟩
      constructor
      · intro hx
        have hx' : x ∈ g.row u ∨ ((u : Int) ∈ L ∧ x = (g.n : Int)) := by
          split at hx
          · rename_i hm
            rcases List.mem_append.mp hx with hx | hx
            · exact Or.inl hx
            · exact Or.inr ⟨hm, by simpa using hx⟩
          · exact Or.inl hx
        rcases hx' with hx | ⟨hm, rfl⟩
        · obtain ⟨v, rfl, hv⟩ := (Sparse.mem_row h hlt x).mp hx
          exact ⟨v, rfl, (addVertexG_adj_true _ _ _ _).mpr (Or.inr (Or.inr hv))⟩
        · exact ⟨g.n, rfl, (addVertexG_adj_true _ _ _ _).mpr (Or.inr (Or.inl ⟨rfl, hmemL.mp hm⟩))⟩
      · rintro ⟨v, rfl, hv⟩
        rcases (addVertexG_adj_true _ _ _ _).mp hv with ⟨hc, _⟩ | ⟨hvn, hs⟩ | hadj
        · exact absurd hc hun
        · have hvn' : v = g.n := hvn
          subst hvn'
          rw [if_pos (hmemL.mpr hs)]
          exact List.mem_append.mpr (Or.inr (by simp))
        · have : (v : Int) ∈ g.row u := (Sparse.mem_row h hlt _).mpr ⟨v, rfl, hadj⟩
          split
          · exact List.mem_append.mpr (Or.inl this)
          · exact this
  · intro u hu
    rw [hrow u]
    show (d'.push _)[u]? = _
    rw [Array.getElem?_push, s2]
    by_cases hun : u = g.n
    · rw [if_pos hun, if_pos hun]
    · have hlt : u < g.n := by simp only at hu; omega
      rw [if_neg hun, if_neg hun, if_pos hlt, g2 u, h.deg_len u hlt]
      simp only [Option.map_some]
      split <;> simp
  · show g.m + (L.length : Int) = _
    rw [m_addVertexG hw hn hS, h.m_eq, hLl, List.length_map]
    simp

end GraphRep
