import Mamba.Model.Footprint
/-! Lemmas for property C19: independent steps commute; a schedule can be permuted. -/
namespace Footprint

section
variable {ι σ ρ : Type} [DecidableEq ι] [Inhabited σ]

theorem view_congr {rs : List ι} {w w' : ι → σ} (h : ∀ i, i ∈ rs → w i = w' i) : view rs w = view rs w' := by
  funext i
  unfold view
  by_cases hi : i ∈ rs
  · simp [hi, h i hi]
  · simp [hi]

/-- After `a`, an operation `b` whose reads `a` does not write sees what it saw before. -/
theorem view_after_exec (a b : Op ι σ ρ) (h : a.noWriteInto b) (w : ι → σ) :
    view b.reads (a.exec w).2 = view b.reads w := by
  apply view_congr
  intro i hi
  have : i ∉ a.writes := fun hw => (h i hw).1 hi
  simp [Op.exec, this]

/-- Two independent operations commute: same results, same final world. -/
theorem exec_comm (a b : Op ι σ ρ) (hab : a.noWriteInto b) (hba : b.noWriteInto a) (w : ι → σ) :
    (b.exec (a.exec w).2).1 = (b.exec w).1 ∧ (a.exec (b.exec w).2).1 = (a.exec w).1 ∧
    (b.exec (a.exec w).2).2 = (a.exec (b.exec w).2).2 := by
  have hb := view_after_exec a b hab w
  have ha := view_after_exec b a hba w
  refine ⟨?_, ?_, ?_⟩
  · show (b.act (view b.reads (a.exec w).2)).1 = (b.act (view b.reads w)).1
    rw [hb]
  · show (a.act (view a.reads (b.exec w).2)).1 = (a.act (view a.reads w)).1
    rw [ha]
  · funext i
    show (if i ∈ b.writes then (b.act (view b.reads (a.exec w).2)).2 i else (a.exec w).2 i) =
         (if i ∈ a.writes then (a.act (view a.reads (b.exec w).2)).2 i else (b.exec w).2 i)
    rw [hb, ha]
    by_cases hib : i ∈ b.writes
    · have hia : i ∉ a.writes := fun h => (hab i h).2 hib
      simp [Op.exec, hib, hia]
    · by_cases hia : i ∈ a.writes
      · simp [Op.exec, hib, hia]
      · simp [Op.exec, hib, hia]

theorem upd_same {α : Type} (f : Nat → α) (t : Nat) (v : α) : upd f t v t = v := by simp [upd]
theorem upd_other {α : Type} (f : Nat → α) {t u : Nat} (v : α) (h : u ≠ t) : upd f t v u = f u := by simp [upd, h]

theorem upd_comm {α : Type} (f : Nat → α) {t u : Nat} (a b : α) (h : t ≠ u) :
    upd (upd f t a) u b = upd (upd f u b) t a := by
  funext x
  unfold upd
  by_cases hx : x = u
  · subst hx
    have : x ≠ t := fun e => h e.symm
    simp [this]
  · simp [hx]

theorem step_nil (c : Cfg ι σ ρ) (t : Nat) (h : c.rest t = []) : step c t = c := by
  unfold step; rw [h]

theorem step_cons (c : Cfg ι σ ρ) (t : Nat) {o : Op ι σ ρ} {os : List (Op ι σ ρ)} (h : c.rest t = o :: os) :
    step c t = { world := (o.exec c.world).2, rest := upd c.rest t os,
                 log := upd c.log t (c.log t ++ [(o.exec c.world).1]) } := by
  unfold step; rw [h]

/-- Steps of different goroutines whose next operations are independent commute. -/
theorem step_comm (c : Cfg ι σ ρ) {t u : Nat} (htu : t ≠ u)
    (h : ∀ a, a ∈ c.rest t → ∀ b, b ∈ c.rest u → a.noWriteInto b ∧ b.noWriteInto a) :
    step (step c t) u = step (step c u) t := by
  have hut : u ≠ t := fun e => htu e.symm
  cases ht : c.rest t with
  | nil =>
    cases hu : c.rest u with
    | nil => rw [step_nil c t ht, step_nil c u hu, step_nil c t ht]
    | cons b bs =>
      rw [step_nil c t ht]
      have h2 : (step c u).rest t = [] := by rw [step_cons c u hu]; simp [upd_other _ _ htu, ht]
      rw [step_nil _ t h2]
  | cons a as =>
    cases hu : c.rest u with
    | nil =>
      rw [step_nil c u hu]
      have h2 : (step c t).rest u = [] := by rw [step_cons c t ht]; simp [upd_other _ _ hut, hu]
      rw [step_nil _ u h2]
    | cons b bs =>
      have hab := h a (by simp [ht]) b (by simp [hu])
      obtain ⟨e1, e2, e3⟩ := exec_comm a b hab.1 hab.2 c.world
      have r1 : (step c t).rest u = b :: bs := by rw [step_cons c t ht]; simp [upd_other _ _ hut, hu]
      have r2 : (step c u).rest t = a :: as := by rw [step_cons c u hu]; simp [upd_other _ _ htu, ht]
      rw [step_cons _ u r1, step_cons _ t r2, step_cons c t ht, step_cons c u hu]
      simp only [upd_other _ _ hut, upd_other _ _ htu]
      rw [e1, e2, e3, upd_comm c.rest as bs htu, upd_comm c.log _ _ htu]

/-- What a goroutine still has to do only shrinks. -/
theorem mem_rest_step (c : Cfg ι σ ρ) (t u : Nat) (a : Op ι σ ρ) (h : a ∈ (step c t).rest u) : a ∈ c.rest u := by
  cases ht : c.rest t with
  | nil => rwa [step_nil c t ht] at h
  | cons o os =>
    rw [step_cons c t ht] at h
    by_cases hu : u = t
    · subst hu
      simp only [upd_same] at h
      rw [ht]; exact List.mem_cons_of_mem _ h
    · simpa [upd_other _ _ hu] using h

theorem independent_step (c : Cfg ι σ ρ) (t : Nat) (h : Independent c.rest) : Independent (step c t).rest := by
  intro x y hxy a ha b hb
  exact h x y hxy a (mem_rest_step c t x a ha) b (mem_rest_step c t y b hb)

@[simp] theorem run_nil (c : Cfg ι σ ρ) : run [] c = c := rfl
@[simp] theorem run_cons (t : Nat) (s : List Nat) (c : Cfg ι σ ρ) : run (t :: s) c = run s (step c t) := rfl
theorem run_append (s₁ s₂ : List Nat) (c : Cfg ι σ ρ) : run (s₁ ++ s₂) c = run s₂ (run s₁ c) := by
  simp [run, List.foldl_append]

theorem independent_run (s : List Nat) : ∀ (c : Cfg ι σ ρ), Independent c.rest → Independent (run s c).rest := by
  induction s with
  | nil => intro c h; exact h
  | cons t s ih => intro c h; exact ih _ (independent_step c t h)

/-- Permuting a schedule does not change the outcome when the goroutines are independent. -/
theorem run_perm {s₁ s₂ : List Nat} (p : s₁.Perm s₂) :
    ∀ (c : Cfg ι σ ρ), Independent c.rest → run s₁ c = run s₂ c := by
  induction p with
  | nil => intro c _; rfl
  | cons x _ ih => intro c h; exact ih _ (independent_step c x h)
  | swap x y l =>
    intro c h
    simp only [run_cons]
    by_cases hxy : y = x
    · subst hxy; rfl
    · rw [step_comm c hxy (fun a ha b hb => ⟨h y x hxy a ha b hb, h x y (fun e => hxy e.symm) b hb a ha⟩)]
  | trans _ _ ih₁ ih₂ => intro c h; rw [ih₁ c h, ih₂ c h]

/-- A step of another goroutine does not touch goroutine `t`'s log or remaining operations. -/
theorem step_other (c : Cfg ι σ ρ) {t u : Nat} (h : t ≠ u) :
    (step c u).log t = c.log t ∧ (step c u).rest t = c.rest t := by
  cases hu : c.rest u with
  | nil => rw [step_nil c u hu]; exact ⟨rfl, rfl⟩
  | cons o os => rw [step_cons c u hu]; simp [upd_other _ _ h]

theorem run_others (s : List Nat) (t : Nat) (hs : ∀ u, u ∈ s → u ≠ t) :
    ∀ (c : Cfg ι σ ρ), (run s c).log t = c.log t ∧ (run s c).rest t = c.rest t := by
  induction s with
  | nil => intro c; exact ⟨rfl, rfl⟩
  | cons u s ih =>
    intro c
    have hu : t ≠ u := fun e => hs u (by simp) e.symm
    have := ih (fun v hv => hs v (List.mem_cons_of_mem _ hv)) (step c u)
    rw [run_cons, this.1, this.2]
    exact step_other c hu

/-- `k` consecutive steps of goroutine `t` are goroutine `t` running its next `k` operations alone. -/
theorem run_replicate (t : Nat) : ∀ (k : Nat) (c : Cfg ι σ ρ),
    (run (List.replicate k t) c).log t = c.log t ++ (runOps ((c.rest t).take k) c.world).1 ∧
    (run (List.replicate k t) c).world = (runOps ((c.rest t).take k) c.world).2 ∧
    (run (List.replicate k t) c).rest t = (c.rest t).drop k ∧
    (∀ u, u ≠ t → (run (List.replicate k t) c).log u = c.log u ∧ (run (List.replicate k t) c).rest u = c.rest u) := by
  intro k
  induction k with
  | zero => intro c; simp [runOps]
  | succ k ih =>
    intro c
    rw [List.replicate_succ, run_cons]
    cases ht : c.rest t with
    | nil =>
      have := ih c
      rw [step_nil c t ht]
      rw [ht] at this
      simpa [runOps] using this
    | cons o os =>
      have := ih (step c t)
      rw [step_cons c t ht] at this ⊢
      simp only [upd_same] at this
      obtain ⟨h1, h2, h3, h4⟩ := this
      refine ⟨?_, ?_, ?_, ?_⟩
      · rw [h1]; simp [runOps, List.append_assoc]
      · rw [h2]; simp [runOps]
      · rw [h3]; simp
      · intro u hu
        have := h4 u hu
        simpa [upd_other _ _ hu] using this

theorem count_seqSched (progs : Nat → List (Op ι σ ρ)) (t : Nat) : ∀ n,
    (seqSched n progs).count t = if t < n then (progs t).length else 0 := by
  intro n
  induction n with
  | zero => simp [seqSched]
  | succ n ih =>
    simp only [seqSched, List.count_append, ih, List.count_replicate]
    by_cases h1 : t < n
    · have : ¬ (n = t) := by omega
      have h2 : t < n + 1 := by omega
      simp [h1, h2, this]
    · by_cases h2 : n = t
      · subst h2; simp
      · have : ¬ t < n + 1 := by omega
        simp [h1, h2, this]

theorem sched_split (s : List Nat) (t : Nat) :
    s.Perm (List.replicate (s.count t) t ++ s.filter (fun u => !(u == t))) := by
  have h := List.filter_append_perm (fun u => u == t) s
  rw [List.filter_beq] at h
  exact h.symm

theorem runOps_append (xs ys : List (Op ι σ ρ)) (w : ι → σ) :
    runOps (xs ++ ys) w = ((runOps xs w).1 ++ (runOps ys (runOps xs w).2).1, (runOps ys (runOps xs w).2).2) := by
  induction xs generalizing w with
  | nil => simp [runOps]
  | cons x xs ih => simp [runOps, ih]

theorem log_alone (progs : Nat → List (Op ι σ ρ)) (w : ι → σ) (h : Independent progs) (s : List Nat) (t : Nat) :
    (run s (Cfg.init progs w)).log t = (runOps ((progs t).take (s.count t)) w).1 := by
  rw [run_perm (sched_split s t) _ h, run_append]
  have h1 := run_replicate (ι := ι) (σ := σ) (ρ := ρ) t (s.count t) (Cfg.init progs w)
  have h2 := run_others (s.filter (fun u => !(u == t))) t (by intro u hu; simpa using (List.mem_filter.mp hu).2)
    (run (List.replicate (s.count t) t) (Cfg.init progs w))
  rw [h2.1, h1.1]
  simp [Cfg.init]

theorem run_seqSched (progs : Nat → List (Op ι σ ρ)) (w : ι → σ) : ∀ n,
    (run (seqSched n progs) (Cfg.init progs w)).world = (runOps (seqOps n progs) w).2 ∧
    ∀ u, n ≤ u → (run (seqSched n progs) (Cfg.init progs w)).rest u = progs u := by
  intro n
  induction n with
  | zero => simp [seqSched, seqOps, runOps, Cfg.init]
  | succ n ih =>
    obtain ⟨hw, hr⟩ := ih
    simp only [seqSched, seqOps, run_append]
    have h1 := run_replicate (ι := ι) (σ := σ) (ρ := ρ) n (progs n).length (run (seqSched n progs) (Cfg.init progs w))
    rw [hr n (Nat.le_refl _)] at h1
    refine ⟨?_, ?_⟩
    · rw [h1.2.1, hw, runOps_append]; simp
    · intro u hu
      have hne : u ≠ n := by omega
      rw [(h1.2.2.2 u hne).2]
      exact hr u (by omega)

end

/-! ## Calls of library functions -/

/-- Everything a call by goroutine `u` touches is a package-level variable, a shared value or a value owned by `u`. -/
def Loc.notOwnedByOther (u : Nat) : Loc → Prop
  | .own t _ => t = u
  | _ => True

theorem bind_loc_notOther (u : Nat) (b : Bind) (l : Loc) (h : b.loc u = some l) : l.notOwnedByOther u := by
  cases b <;> simp [Bind.loc] at h <;> subst h <;> simp [Loc.notOwnedByOther]

theorem reads_notOther (c : Call) (u : Nat) (l : Loc) (h : l ∈ c.reads u) : l.notOwnedByOther u := by
  simp only [Call.reads, List.mem_append, List.mem_filterMap, List.mem_map] at h
  rcases h with ⟨b, _, hb⟩ | ⟨g, _, hg⟩
  · exact bind_loc_notOther u b l hb
  · subst hg; simp [Loc.notOwnedByOther]

theorem writes_notOther (c : Call) (u : Nat) (l : Loc) (h : l ∈ c.writes u) : l.notOwnedByOther u := by
  simp only [Call.writes, List.mem_append, List.mem_filterMap, List.mem_map] at h
  rcases h with ⟨i, _, hb⟩ | ⟨g, _, hg⟩
  · cases hi : c.binds[i]? with
    | none => simp [hi] at hb
    | some b => simp [hi] at hb; exact bind_loc_notOther u b l hb
  · subst hg; simp [Loc.notOwnedByOther]

/-- An admissible call writes only values owned by the calling goroutine. -/
theorem admissible_writes_own (c : Call) (hc : c.admissible = true) (t : Nat) (l : Loc) (h : l ∈ c.writes t) :
    ∃ k, l = .own t k := by
  simp only [Call.admissible, Bool.and_eq_true, List.all_eq_true, List.isEmpty_iff] at hc
  obtain ⟨⟨⟨⟨⟨⟨hg, _⟩, _⟩, _⟩, _⟩, hp⟩, _⟩ := hc
  simp only [Call.writes, hg, List.map_nil, List.append_nil, List.mem_filterMap] at h
  obtain ⟨i, hi, hb⟩ := h
  have := hp i hi
  cases hbi : c.binds[i]? with
  | none => simp [hbi] at this
  | some b =>
    cases b with
    | own k => simp [hbi, Bind.loc] at hb; exact ⟨k, hb.symm⟩
    | shared k => simp [hbi] at this
    | scalar => simp [hbi] at this

/-- Programs made of admissible calls are independent, whatever the semantics of the calls, for any number
of goroutines. -/
theorem admissible_independent {σ ρ : Type} (calls : Nat → List (Call × ((Loc → σ) → ρ × (Loc → σ))))
    (h : ∀ t p, p ∈ calls t → p.1.admissible = true) :
    Independent (fun t => (calls t).map (fun p => p.1.toOp t p.2)) := by
  intro t u htu a ha b hb l hl
  simp only [List.mem_map] at ha hb
  obtain ⟨p, hp, rfl⟩ := ha
  obtain ⟨q, hq, rfl⟩ := hb
  obtain ⟨k, rfl⟩ := admissible_writes_own p.1 (h t p hp) t l hl
  constructor
  · intro hr
    have := reads_notOther q.1 u _ hr
    exact htu this
  · intro hw
    have := writes_notOther q.1 u _ hw
    exact htu this

/-! ## A concrete independent program (used for the non-vacuity examples of `Props/C19.lean`) -/

/-- goroutine `t` adds the shared constant (identity 0) to its own counter (identity `t+1`) and reports it -/
def exAdd (t : Nat) : Op Nat Nat Nat :=
  { reads := [0, t + 1], writes := [t + 1],
    act := fun v => (v (t + 1) + v 0, fun i => if i = t + 1 then v (t + 1) + v 0 else v i) }

def exProgs : Nat → List (Op Nat Nat Nat)
  | 0 => [exAdd 0, exAdd 0]
  | 1 => [exAdd 1]
  | _ => []

theorem exProgs_independent : Independent exProgs := by
  intro t u htu a ha b hb i hi
  match t, u with
  | 0, 0 => exact absurd rfl htu
  | 1, 1 => exact absurd rfl htu
  | 0, 1 =>
    simp only [exProgs, List.mem_cons, List.not_mem_nil, or_false, or_self] at ha hb
    subst ha hb
    simp only [exAdd, List.mem_cons, List.not_mem_nil, or_false] at hi ⊢
    omega
  | 1, 0 =>
    simp only [exProgs, List.mem_cons, List.not_mem_nil, or_false, or_self] at ha hb
    subst ha hb
    simp only [exAdd, List.mem_cons, List.not_mem_nil, or_false] at hi ⊢
    omega
  | _ + 2, _ => simp [exProgs] at ha
  | 0, _ + 2 => simp [exProgs] at hb
  | 1, _ + 2 => simp [exProgs] at hb

end Footprint
