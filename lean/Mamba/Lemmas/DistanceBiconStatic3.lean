import Mamba.Lemmas.DistanceBiconStatic2
/-!
# From the components to the whole graph
-/
namespace GDist
open GraphSpec Model

/-- the hypotheses on a component used everywhere -/
def GoodC (g : G) (c : List Nat) : Prop := GoodCom g c ∧ c ≠ [] ∧ ∀ x ∈ c, Reach g (c.getD 0 0) x

theorem bicAll_fold (g : G) (P : List Nat → List (List Nat) → Prop)
    (hP : ∀ com acc acc', GoodC g com → (∀ b ∈ acc.1, b.Pairwise (fun a b => decide (a ≤ b) = true)) →
      bicComponent g com acc = .ok acc' → ∃ new, acc'.1 = acc.1 ++ new ∧ P com new) :
    ∀ (coms : List (List Nat)) (acc acc' : List (List Nat) × List Nat),
      (∀ c ∈ coms, GoodC g c) → (∀ b ∈ acc.1, b.Pairwise (fun a b => decide (a ≤ b) = true)) →
      bicAll g coms acc = .ok acc' →
      ∃ news, acc'.1 = acc.1 ++ news.flatten ∧ List.Forall₂ P coms news := by
  intro coms
  induction coms with
  | nil =>
    intro acc acc' _ _ hres
    simp only [bicAll] at hres
    cases hres
    exact ⟨[], by simp, .nil⟩
  | cons com coms ih =>
    intro acc acc' hcoms hacc hres
    have hgc := hcoms com List.mem_cons_self
    obtain ⟨acc1, e1, hs1⟩ := bicComponent_total g com hgc.2.1 acc hacc
    simp only [bicAll, e1] at hres
    obtain ⟨new, hnew, hPn⟩ := hP com acc acc1 hgc hacc e1
    obtain ⟨news, hnews, hF⟩ := ih acc1 acc' (fun c hc => hcoms c (List.mem_cons_of_mem _ hc)) hs1 hres
    exact ⟨new :: news, by rw [hnews, hnew]; simp, .cons hPn hF⟩

theorem forall₂_flatten_mem {α : Type} {P : α → List (List Nat) → Prop} :
    ∀ {coms : List α} {news : List (List (List Nat))}, List.Forall₂ P coms news →
      ∀ b ∈ news.flatten, ∃ i, ∃ (h1 : i < coms.length) (h2 : i < news.length), b ∈ news[i] ∧ P coms[i] news[i]
  | _, _, .nil, b, hb => by simp at hb
  | _, _, .cons hr ht, b, hb => by
    rw [List.flatten_cons] at hb
    rcases List.mem_append.1 hb with hb | hb
    · exact ⟨0, by simp, by simp, by simpa using hb, by simpa using hr⟩
    · obtain ⟨i, h1, h2, h3, h4⟩ := forall₂_flatten_mem ht b hb
      exact ⟨i + 1, by simp; omega, by simp; omega, by simpa using h3, by simpa using h4⟩

theorem forall₂_index {α β : Type} {P : α → β → Prop} :
    ∀ {l1 : List α} {l2 : List β}, List.Forall₂ P l1 l2 → ∀ i (h1 : i < l1.length), ∃ h2 : i < l2.length,
      P l1[i] l2[i]
  | _, _, .nil, i, h1 => by simp at h1
  | _, _, .cons hr ht, i, h1 => by
    cases i with
    | zero => exact ⟨by simp, by simpa using hr⟩
    | succ i =>
      obtain ⟨h2, h3⟩ := forall₂_index ht i (by simpa using h1)
      exact ⟨by simp; omega, by simpa using h3⟩

theorem disjoint_index {coms : List (List Nat)} (hnd : coms.flatten.Nodup) {i j : Nat} (hi : i < coms.length)
    (hj : j < coms.length) {x : Nat} (hxi : x ∈ coms[i]) (hxj : x ∈ coms[j]) : i = j := by
  have hp := (List.nodup_flatten.1 hnd).2
  rw [List.pairwise_iff_getElem] at hp
  by_contra hne
  rcases Nat.lt_or_gt_of_ne hne with hlt | hlt
  · exact hp i j hi hj hlt hxi hxj
  · exact hp j i hj hi hlt hxj hxi

/-- the components computed by the model -/
theorem model_components (g : G) (hsym : ∀ u v, g.adj u v = g.adj v u) :
    ∃ cs, Model.connectedComponents g (g.n + 1) = .ok cs ∧ (∀ c ∈ cs, GoodC g c) ∧
      cs.flatten.Perm (List.range g.n) := by
  obtain ⟨cs, ecs, hperm⟩ := connectedComponents_perm g hsym (g.n + 1) (Nat.le_refl _)
  obtain ⟨hgood, hflat⟩ := components_good g hsym
  have hV : ∀ r ∈ List.range g.n, r ∈ List.range g.n := fun _ h => h
  have hcl : ∀ x ∈ ([] : List Nat), ∀ y, ReachIn g (List.range g.n) x y → y ∈ ([] : List Nat) :=
    fun x hx => by cases hx
  obtain ⟨h1, h2, _, _⟩ := componentsFrom_spec hsym (List.range g.n) [] hV hcl
  refine ⟨cs, ecs, ?_, (List.Perm.flatten hperm).trans hflat⟩
  intro c hc
  have hc' := hperm.mem_iff.1 hc
  obtain ⟨s, hs, _, rfl⟩ := h1 c hc'
  have hsmem : s ∈ componentIn g (List.range g.n) s := mem_componentIn.2 (ReachIn.refl hs)
  have hne : componentIn g (List.range g.n) s ≠ [] := List.ne_nil_of_mem hsmem
  refine ⟨hgood _ hc', hne, ?_⟩
  intro x hx
  have h0 : (componentIn g (List.range g.n) s).getD 0 0 ∈ componentIn g (List.range g.n) s := by
    obtain ⟨a, t, hat⟩ := List.exists_cons_of_ne_nil hne
    rw [hat]; simp
  exact ((mem_componentIn.1 h0).symm hsym).trans (mem_componentIn.1 hx)

/-- the blocks returned by the model, component by component -/
theorem model_blocks_fold (g : G) (hsym : ∀ u v, g.adj u v = g.adj v u) (hirr : ∀ v, g.adj v v = false)
    (P : List Nat → List (List Nat) → Prop)
    (hP : ∀ com st tp new, GoodC g com → DFinal (g.induced com) st tp → BlocksOf (g.induced com) com st tp new →
      P com new)
    (bs : List (List Nat)) (arts : List Nat) (hres : Model.biconnectedComponents g = .ok (bs, arts)) :
    ∃ cs news, (∀ c ∈ cs, GoodC g c) ∧ cs.flatten.Perm (List.range g.n) ∧ bs = news.flatten ∧
      List.Forall₂ P cs news := by
  unfold Model.biconnectedComponents at hres
  obtain ⟨cs, ecs, hgood, hperm⟩ := model_components g hsym
  rw [ecs] at hres
  simp only at hres
  obtain ⟨news, h1, h2⟩ := bicAll_fold g P (fun com acc acc' hgc hacc hr => by
    obtain ⟨st, tp, new, df, e, hB⟩ := bicComponent_blocks hgc.1 hgc.2.1 hgc.2.2 hsym hirr acc acc' hacc hr
    exact ⟨new, e, hP com st tp new hgc df hB⟩) cs ([], []) (bs, arts) hgood (fun b hb => by cases hb) hres
  exact ⟨cs, news, hgood, hperm, by simpa using h1, h2⟩

/-- **(5) every edge of `g` lies in exactly one returned block; every returned block is connected** -/
theorem bicon_blocks_edges_connected (g : G) (hsym : ∀ u v, g.adj u v = g.adj v u)
    (hirr : ∀ v, g.adj v v = false) (bs : List (List Nat)) (arts : List Nat)
    (hres : Model.biconnectedComponents g = .ok (bs, arts)) :
    (∀ x y, x < g.n → y < g.n → g.adj x y = true →
      ∃ b ∈ bs, x ∈ b ∧ y ∈ b ∧ ∀ b' ∈ bs, x ∈ b' → y ∈ b' → b' = b) ∧
    (∀ b ∈ bs, ∀ x ∈ b, ∀ y ∈ b, ReachIn g b x y) := by
  obtain ⟨cs, news, hgood, hperm, rfl, hF⟩ := model_blocks_fold g hsym hirr (CompBlocks5 g)
    (fun com st tp new hgc df hB => compBlocks5 hgc.1 hsym hirr df hB) bs arts hres
  have hnd : cs.flatten.Nodup := hperm.nodup_iff.2 List.nodup_range
  constructor
  · intro x y hx hy hadj
    have hxf : x ∈ cs.flatten := hperm.mem_iff.2 (List.mem_range.2 hx)
    obtain ⟨c, hc, hxc⟩ := List.mem_flatten.1 hxf
    obtain ⟨i, hi, hci⟩ := List.getElem_of_mem hc
    obtain ⟨hi2, hPi⟩ := forall₂_index hF i hi
    rw [hci] at hPi
    obtain ⟨b, hb, hxb, hyb, huniq⟩ := hPi.edge x y hxc hy hadj
    refine ⟨b, List.mem_flatten.2 ⟨_, List.getElem_mem hi2, hb⟩, hxb, hyb, ?_⟩
    intro b' hb' hxb' hyb'
    obtain ⟨j, hj1, hj2, hbj, hPj⟩ := forall₂_flatten_mem hF b' hb'
    have hxj : x ∈ cs[j] := hPj.sub b' hbj x hxb'
    have : i = j := disjoint_index hnd hi hj1 (by rw [hci]; exact hxc) hxj
    subst this
    exact huniq b' hbj hxb' hyb'
  · intro b hb
    obtain ⟨j, hj1, hj2, hbj, hPj⟩ := forall₂_flatten_mem hF b hb
    exact hPj.conn b hbj

end GDist
