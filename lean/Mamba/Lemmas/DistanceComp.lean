import Mamba.Lemmas.DistanceBfs
/-!
# Lemmas for C10: connected components are the classes of the reachability relation
-/
namespace GDist
open GraphSpec

variable {g : G} {V : List Nat}

theorem WalkIn.trans {s u x j k : Nat} (h1 : WalkIn g V s u j) (h2 : WalkIn g V u x k) : WalkIn g V s x (j + k) := by
  induction h2 with
  | base _ => exact h1
  | step _ hadj hx ih => exact .step ih hadj hx

theorem WalkIn.symm (hsym : ∀ u v, g.adj u v = g.adj v u) {s x k : Nat} (h : WalkIn g V s x k) :
    WalkIn g V x s k := by
  induction h with
  | base h => exact .base h
  | @step u x k hw hadj hx ih =>
    have h1 : WalkIn g V x u 1 := .step (.base hx) (by rw [hsym]; exact hadj) hw.mem_V
    have := h1.trans ih
    rwa [Nat.add_comm] at this

theorem ReachIn.refl {s : Nat} (h : s ∈ V) : ReachIn g V s s := ⟨0, .base h⟩
theorem ReachIn.trans {s u x : Nat} (h1 : ReachIn g V s u) (h2 : ReachIn g V u x) : ReachIn g V s x := by
  obtain ⟨j, h1⟩ := h1; obtain ⟨k, h2⟩ := h2; exact ⟨j + k, h1.trans h2⟩
theorem ReachIn.symm (hsym : ∀ u v, g.adj u v = g.adj v u) {s x : Nat} (h : ReachIn g V s x) : ReachIn g V x s := by
  obtain ⟨k, h⟩ := h; exact ⟨k, h.symm hsym⟩
theorem ReachIn.mem_V {s x : Nat} (h : ReachIn g V s x) : x ∈ V := by
  obtain ⟨k, h⟩ := h; exact h.mem_V
theorem ReachIn.start_mem {s x : Nat} (h : ReachIn g V s x) : s ∈ V := by
  obtain ⟨k, h⟩ := h; exact h.start_mem

theorem componentIn_eq (g : G) (V : List Nat) (s : Nat) :
    componentIn g V s = V.filter fun x => (distIn g V s x).isSome := rfl

theorem mem_componentIn {s x : Nat} : x ∈ componentIn g V s ↔ ReachIn g V s x := by
  rw [componentIn_eq, List.mem_filter, distIn_isSome_iff]
  exact ⟨fun h => h.2, fun h => ⟨h.mem_V, h⟩⟩

theorem componentIn_sublist (g : G) (V : List Nat) (s : Nat) : (componentIn g V s).Sublist V := by
  rw [componentIn_eq]; exact List.filter_sublist

/-- two vertices in the same class have the same component list -/
theorem componentIn_congr (hsym : ∀ u v, g.adj u v = g.adj v u) {s t : Nat} (h : ReachIn g V s t) :
    componentIn g V s = componentIn g V t := by
  rw [componentIn_eq, componentIn_eq]
  apply List.filter_congr
  intro x _
  have : (distIn g V s x).isSome = true ↔ (distIn g V t x).isSome = true := by
    rw [distIn_isSome_iff, distIn_isSome_iff]
    exact ⟨fun hx => (h.symm hsym).trans hx, fun hx => h.trans hx⟩
  cases h1 : (distIn g V s x).isSome <;> cases h2 : (distIn g V t x).isSome <;> simp_all

/-- what `componentsFrom` produces -/
theorem componentsFrom_spec (hsym : ∀ u v, g.adj u v = g.adj v u) :
    ∀ (rest cov : List Nat), (∀ r ∈ rest, r ∈ V) →
      (∀ x ∈ cov, ∀ y, ReachIn g V x y → y ∈ cov) →
      let out := componentsFrom g V rest cov
      (∀ c ∈ out, ∃ s ∈ rest, s ∉ cov ∧ c = componentIn g V s) ∧
      (∀ s ∈ rest, s ∈ cov ∨ ∃ c ∈ out, s ∈ c) ∧
      (∀ c ∈ out, ∀ x ∈ c, x ∉ cov) ∧
      out.Pairwise (fun c c' => ∀ x ∈ c, x ∉ c') := by
  intro rest
  induction rest with
  | nil => intro cov _ _; simp [componentsFrom]
  | cons s rest ih =>
    intro cov hV hclosed
    have hV' : ∀ r ∈ rest, r ∈ V := fun r hr => hV r (List.mem_cons_of_mem _ hr)
    simp only [componentsFrom]
    by_cases hs : cov.contains s = true
    · simp only [hs, if_true]
      obtain ⟨h1, h2, h3, h4⟩ := ih cov hV' hclosed
      refine ⟨?_, ?_, h3, h4⟩
      · intro c hc
        obtain ⟨t, ht, htc, hct⟩ := h1 c hc
        exact ⟨t, List.mem_cons_of_mem _ ht, htc, hct⟩
      · intro t ht
        rcases List.mem_cons.1 ht with rfl | ht
        · exact .inl (by simpa using hs)
        · exact h2 t ht
    · simp only [hs, Bool.false_eq_true, if_false]
      have hs' : s ∉ cov := by simpa using hs
      have hsV : s ∈ V := hV s List.mem_cons_self
      have hclosed' : ∀ x ∈ componentIn g V s ++ cov, ∀ y, ReachIn g V x y → y ∈ componentIn g V s ++ cov := by
        intro x hx y hxy
        rcases List.mem_append.1 hx with hx | hx
        · exact List.mem_append.2 (.inl (mem_componentIn.2 ((mem_componentIn.1 hx).trans hxy)))
        · exact List.mem_append.2 (.inr (hclosed x hx y hxy))
      obtain ⟨h1, h2, h3, h4⟩ := ih (componentIn g V s ++ cov) hV' hclosed'
      refine ⟨?_, ?_, ?_, ?_⟩
      · intro c hc
        rcases List.mem_cons.1 hc with rfl | hc
        · exact ⟨s, List.mem_cons_self, hs', rfl⟩
        · obtain ⟨t, ht, htc, hct⟩ := h1 c hc
          exact ⟨t, List.mem_cons_of_mem _ ht, fun h => htc (List.mem_append.2 (.inr h)), hct⟩
      · intro t ht
        rcases List.mem_cons.1 ht with rfl | ht
        · exact .inr ⟨_, List.mem_cons_self, mem_componentIn.2 (ReachIn.refl hsV)⟩
        · rcases h2 t ht with h | ⟨c, hc, htc⟩
          · rcases List.mem_append.1 h with h | h
            · exact .inr ⟨_, List.mem_cons_self, h⟩
            · exact .inl h
          · exact .inr ⟨c, List.mem_cons_of_mem _ hc, htc⟩
      · intro c hc x hx
        rcases List.mem_cons.1 hc with rfl | hc
        · intro hxc
          exact hs' (hclosed x hxc s ((mem_componentIn.1 hx).symm hsym))
        · exact fun h => h3 c hc x hx (List.mem_append.2 (.inr h))
      · refine List.pairwise_cons.2 ⟨?_, h4⟩
        intro c' hc' x hx hxc'
        exact h3 c' hc' x hxc' (List.mem_append.2 (.inl hx))

/-- order of the components when the vertex list is increasing -/
theorem componentsFrom_order (hsym : ∀ u v, g.adj u v = g.adj v u) :
    ∀ (rest cov : List Nat), (∀ r ∈ rest, r ∈ V) →
      (∀ x ∈ cov, ∀ y, ReachIn g V x y → y ∈ cov) →
      (∀ v ∈ V, v ∈ cov ∨ v ∈ rest) → rest.Pairwise (· < ·) →
      (∀ c ∈ componentsFrom g V rest cov, ∀ b ∈ c, b ∈ rest) ∧
      (componentsFrom g V rest cov).Pairwise (fun c c' => ∃ a ∈ c, ∀ b ∈ c', a < b) := by
  intro rest
  induction rest with
  | nil => intro cov _ _ _ _; simp [componentsFrom]
  | cons s rest ih =>
    intro cov hV hclosed hcover hsorted
    have hV' : ∀ r ∈ rest, r ∈ V := fun r hr => hV r (List.mem_cons_of_mem _ hr)
    obtain ⟨hslt, hsorted'⟩ := List.pairwise_cons.1 hsorted
    simp only [componentsFrom]
    by_cases hs : cov.contains s = true
    · simp only [hs, if_true]
      have hs' : s ∈ cov := by simpa using hs
      have hcover' : ∀ v ∈ V, v ∈ cov ∨ v ∈ rest := by
        intro v hv
        rcases hcover v hv with h | h
        · exact .inl h
        · rcases List.mem_cons.1 h with rfl | h
          · exact .inl hs'
          · exact .inr h
      obtain ⟨h1, h2⟩ := ih cov hV' hclosed hcover' hsorted'
      exact ⟨fun c hc b hb => List.mem_cons_of_mem _ (h1 c hc b hb), h2⟩
    · simp only [hs, Bool.false_eq_true, if_false]
      have hs' : s ∉ cov := by simpa using hs
      have hsV : s ∈ V := hV s List.mem_cons_self
      have hclosed' : ∀ x ∈ componentIn g V s ++ cov, ∀ y, ReachIn g V x y → y ∈ componentIn g V s ++ cov := by
        intro x hx y hxy
        rcases List.mem_append.1 hx with hx | hx
        · exact List.mem_append.2 (.inl (mem_componentIn.2 ((mem_componentIn.1 hx).trans hxy)))
        · exact List.mem_append.2 (.inr (hclosed x hx y hxy))
      have hcover' : ∀ v ∈ V, v ∈ componentIn g V s ++ cov ∨ v ∈ rest := by
        intro v hv
        rcases hcover v hv with h | h
        · exact .inl (List.mem_append.2 (.inr h))
        · rcases List.mem_cons.1 h with rfl | h
          · exact .inl (List.mem_append.2 (.inl (mem_componentIn.2 (ReachIn.refl hsV))))
          · exact .inr h
      obtain ⟨h1, h2⟩ := ih (componentIn g V s ++ cov) hV' hclosed' hcover' hsorted'
      constructor
      · intro c hc b hb
        rcases List.mem_cons.1 hc with rfl | hc
        · have hr := mem_componentIn.1 hb
          rcases hcover b hr.mem_V with h | h
          · exact absurd (hclosed b h s (hr.symm hsym)) hs'
          · exact h
        · exact List.mem_cons_of_mem _ (h1 c hc b hb)
      · refine List.pairwise_cons.2 ⟨?_, h2⟩
        intro c' hc'
        refine ⟨s, mem_componentIn.2 (ReachIn.refl hsV), ?_⟩
        intro b hb
        exact hslt b (h1 c' hc' b hb)

end GDist
