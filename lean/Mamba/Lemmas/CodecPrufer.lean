import Mamba.Lemmas.CodecBase
import Mamba.Lemmas.CodecCount
import Mamba.Lemmas.CodecDense
import Mathlib.Logic.Relation
import Mathlib.Data.List.Basic
import Mathlib.Data.List.Nodup
/-!
# Prüfer codes (C07/C08): `pruferEncode` / `pruferDecode` are mutually inverse bijections between codes and labelled trees

Architecture.  `pr_Run adj S q` is the abstract leaf-removal run on a present set `S` (an ascending list of vertices)
that produces the code `q`.  It is linked
* to the model's encoder (`pr_encode_run`: a run on `0..n-1` is what `pruferEncode` computes),
* to the abstract decoder `pr_edges S q` (`pr_Run.spec` / `pr_run_of_spec`: the run exists iff the adjacency relation on `S`
  is the edge list the decoder builds), which the model's `pruferDecode` implements (`pr_decode_run`),
* to trees (`pr_run_of_tree`: every tree has a run; `pr_Run.conn`, `pr_Run.deg`: a run certifies a tree).
-/
namespace Codec
open GraphSpec

/-! ## Part 1: the abstract leaf-removal run -/

/-- degree of `w` inside the present set `S` -/
def pr_deg (adj : Nat → Nat → Bool) (S : List Nat) (w : Nat) : Nat := S.countP (adj w)

/-- symmetric, loop-free adjacency -/
structure pr_Adj (adj : Nat → Nat → Bool) : Prop where
  symm : ∀ u v, adj u v = adj v u
  irrefl : ∀ v, adj v v = false

/-- `pr_Run adj S q`: leaf removal on the present set `S` (ascending) produces the code `q`:
each round removes the first vertex `v` of `S` of degree one (inside `S`), which is not the last vertex of `S`,
and emits its neighbour `u`; two adjacent vertices remain. -/
inductive pr_Run (adj : Nat → Nat → Bool) : List Nat → List Nat → Prop
  | base (a b : Nat) : a < b → adj a b = true → pr_Run adj [a, b] []
  | step (A B : List Nat) (v u : Nat) (q : List Nat) :
      (A ++ v :: B).Pairwise (· < ·) →
      (∀ a ∈ A, pr_deg adj (A ++ v :: B) a ≠ 1) →
      pr_deg adj (A ++ v :: B) v = 1 →
      B ≠ [] → u ∈ A ++ B → adj u v = true →
      pr_Run adj (A ++ B) q → pr_Run adj (A ++ v :: B) (u :: q)

theorem pr_sorted_drop {A B : List Nat} {v : Nat} (h : (A ++ v :: B).Pairwise (· < ·)) :
    (A ++ B).Pairwise (· < ·) := by
  rw [List.pairwise_append] at h ⊢
  obtain ⟨h1, h2, h3⟩ := h
  rw [List.pairwise_cons] at h2
  exact ⟨h1, h2.2, fun a ha b hb => h3 a ha b (List.mem_cons_of_mem _ hb)⟩

theorem pr_sorted_nodup {S : List Nat} (h : S.Pairwise (· < ·)) : S.Nodup :=
  h.imp (fun hab => Nat.ne_of_lt hab)

theorem pr_split_notmem {A B : List Nat} {v : Nat} (h : (A ++ v :: B).Pairwise (· < ·)) : v ∉ A ++ B := by
  rw [List.pairwise_append] at h
  obtain ⟨_, h2, h3⟩ := h
  rw [List.pairwise_cons] at h2
  intro hm
  rcases List.mem_append.1 hm with hm | hm
  · exact Nat.lt_irrefl _ (h3 v hm v (List.mem_cons_self))
  · exact Nat.lt_irrefl _ (h2.1 v hm)

theorem pr_mem_split {A B : List Nat} {v w : Nat} : w ∈ A ++ v :: B ↔ w = v ∨ w ∈ A ++ B := by
  simp only [List.mem_append, List.mem_cons]; tauto

theorem pr_Run.sorted {adj S q} (h : pr_Run adj S q) : S.Pairwise (· < ·) := by
  cases h with
  | base a b hab _ => simp [hab]
  | step A B v u q h1 => exact h1

theorem pr_Run.length {adj S q} (h : pr_Run adj S q) : S.length = q.length + 2 := by
  induction h with
  | base a b _ _ => rfl
  | step A B v u q _ _ _ _ _ _ _ ih => simp only [List.length_append, List.length_cons] at ih ⊢; omega

theorem pr_Run.sub {adj S q} (h : pr_Run adj S q) : ∀ x ∈ q, x ∈ S := by
  induction h with
  | base a b _ _ => intro x hx; cases hx
  | step A B v u q _ _ _ _ hu _ _ ih =>
    intro x hx
    rcases List.mem_cons.1 hx with rfl | hx
    · exact pr_mem_split.2 (Or.inr hu)
    · exact pr_mem_split.2 (Or.inr (ih x hx))

/-- a predicate holding exactly once on a list: all witnesses coincide -/
theorem pr_countP_one_unique {L : List Nat} {p : Nat → Bool} (h : L.countP p = 1) {a b : Nat}
    (ha : a ∈ L) (hb : b ∈ L) (pa : p a = true) (pb : p b = true) : a = b := by
  rw [List.countP_eq_length_filter, List.length_eq_one_iff] at h
  obtain ⟨c, hc⟩ := h
  have h1 : a ∈ L.filter p := List.mem_filter.2 ⟨ha, pa⟩
  have h2 : b ∈ L.filter p := List.mem_filter.2 ⟨hb, pb⟩
  rw [hc, List.mem_singleton] at h1 h2
  rw [h1, h2]

theorem pr_deg_split (adj : Nat → Nat → Bool) (A B : List Nat) (v w : Nat) :
    pr_deg adj (A ++ v :: B) w = pr_deg adj (A ++ B) w + if adj w v then 1 else 0 := by
  unfold pr_deg
  simp only [List.countP_append, List.countP_cons]
  omega

/-- the leaf's only neighbour inside `S` is `u` -/
theorem pr_leaf_nbr {adj : Nat → Nat → Bool} (ha : pr_Adj adj) {S : List Nat} {v u w : Nat}
    (hd : pr_deg adj S v = 1) (hu : u ∈ S) (huv : adj u v = true) (hw : w ∈ S) :
    adj w v = true ↔ w = u := by
  constructor
  · intro h
    exact pr_countP_one_unique hd hw hu (by rw [ha.symm]; exact h) (by rw [ha.symm]; exact huv)
  · rintro rfl; exact huv

theorem pr_Run.deg {adj S q} (ha : pr_Adj adj) (h : pr_Run adj S q) :
    ∀ w ∈ S, pr_deg adj S w = 1 + q.count w := by
  induction h with
  | base a b hab hadj =>
    intro w hw
    have hne : a ≠ b := Nat.ne_of_lt hab
    have hba : adj b a = true := by rw [ha.symm]; exact hadj
    simp only [List.mem_cons, List.not_mem_nil, or_false] at hw
    rcases hw with rfl | rfl
    · simp [pr_deg, ha.irrefl, hadj]
    · simp [pr_deg, ha.irrefl, hba]
  | step A B v u q hs hA hv hB hu huv hr ih =>
    intro w hw
    have huS : u ∈ A ++ v :: B := pr_mem_split.2 (Or.inr hu)
    have hvn : v ∉ A ++ B := pr_split_notmem hs
    rcases pr_mem_split.1 hw with rfl | hw'
    · rw [hv]
      have h1 : w ≠ u := fun e => hvn (e ▸ hu)
      have h2 : w ∉ q := fun hm => hvn (hr.sub _ hm)
      rw [List.count_cons, List.count_eq_zero_of_not_mem h2]
      simp [Ne.symm h1]
    · rw [pr_deg_split, ih w hw', List.count_cons]
      have := pr_leaf_nbr ha hv huS huv hw
      by_cases e : w = u
      · subst e; simp [huv]; omega
      · have h3 : adj w v = false := by
          cases h4 : adj w v with
          | false => rfl
          | true => exact absurd (this.1 h4) e
        have : ¬ u = w := fun e' => e e'.symm
        simp [h3, this]

theorem pr_Run.conn {adj S q} (ha : pr_Adj adj) (h : pr_Run adj S q) :
    ∀ a ∈ S, ∀ b ∈ S, Relation.ReflTransGen (fun x y => adj x y = true) a b := by
  induction h with
  | base a b hab hadj =>
    have hba : adj b a = true := by rw [ha.symm]; exact hadj
    intro x hx y hy
    simp only [List.mem_cons, List.not_mem_nil, or_false] at hx hy
    rcases hx with rfl | rfl <;> rcases hy with rfl | rfl
    · exact Relation.ReflTransGen.refl
    · exact Relation.ReflTransGen.single hadj
    · exact Relation.ReflTransGen.single hba
    · exact Relation.ReflTransGen.refl
  | step A B v u q hs hA hv hB hu huv hr ih =>
    have hvu : adj v u = true := by rw [ha.symm]; exact huv
    intro x hx y hy
    rcases pr_mem_split.1 hx with rfl | hx' <;> rcases pr_mem_split.1 hy with rfl | hy'
    · exact Relation.ReflTransGen.refl
    · exact Relation.ReflTransGen.head hvu (ih u hu y hy')
    · exact Relation.ReflTransGen.tail (ih x hx' u hu) huv
    · exact ih x hx' y hy'

/-! ## Part 2: the abstract decoder -/

/-- abstract decoder relative to the present set `S`: the edge list `pruferDecode` builds -/
def pr_edges : List Nat → List Nat → List (Nat × Nat)
  | S, [] =>
    match S with
    | [a, b] => [(a, b)]
    | _ => []
  | S, v :: q =>
    match S.find? (fun x => !(v :: q).contains x) with
    | some j => (j, v) :: pr_edges (S.erase j) q
    | none => pr_edges S q

/-- `{a, b}` is an edge of the list -/
def pr_Sym (E : List (Nat × Nat)) (a b : Nat) : Prop := (a, b) ∈ E ∨ (b, a) ∈ E

theorem pr_Sym_cons {E : List (Nat × Nat)} {j v a b : Nat} :
    pr_Sym ((j, v) :: E) a b ↔ (a = j ∧ b = v) ∨ (a = v ∧ b = j) ∨ pr_Sym E a b := by
  unfold pr_Sym
  simp only [List.mem_cons, Prod.mk.injEq]
  tauto

theorem pr_find_split {A B : List Nat} {j : Nat} {q : List Nat} (hA : ∀ a ∈ A, a ∈ q) (hj : j ∉ q) :
    (A ++ j :: B).find? (fun x => !q.contains x) = some j := by
  rw [List.find?_eq_some_iff_append]
  refine ⟨by simpa using hj, A, B, rfl, ?_⟩
  intro a ha
  simpa using hA a ha

theorem pr_erase_split {A B : List Nat} {j : Nat} (hj : j ∉ A) : (A ++ j :: B).erase j = A ++ B := by
  rw [List.erase_append_right _ hj, List.erase_cons_head]

theorem pr_edges_step {A B : List Nat} {j v : Nat} {q : List Nat} (hs : (A ++ j :: B).Pairwise (· < ·))
    (hA : ∀ a ∈ A, a ∈ v :: q) (hj : j ∉ v :: q) :
    pr_edges (A ++ j :: B) (v :: q) = (j, v) :: pr_edges (A ++ B) q := by
  have hjA : j ∉ A := fun h => pr_split_notmem hs (List.mem_append_left _ h)
  rw [pr_edges, pr_find_split hA hj]
  simp only [pr_erase_split hjA]

theorem pr_edges_sub : ∀ (q S : List Nat), (∀ x ∈ q, x ∈ S) → ∀ p ∈ pr_edges S q, p.1 ∈ S ∧ p.2 ∈ S := by
  intro q
  induction q with
  | nil =>
    intro S _ p hp
    unfold pr_edges at hp
    split at hp
    · simp only [List.mem_singleton] at hp; subst hp; simp
    · cases hp
  | cons v q ih =>
    intro S hq p hp
    rw [pr_edges] at hp
    split at hp
    · rename_i j hj
      have hjS : j ∈ S := List.mem_of_find?_eq_some hj
      have hjq : j ∉ v :: q := by simpa using List.find?_some hj
      rcases List.mem_cons.1 hp with rfl | hp
      · exact ⟨hjS, hq v (List.mem_cons_self)⟩
      · have := ih (S.erase j) (by
          intro x hx
          have hne : x ≠ j := fun e => hjq (e ▸ List.mem_cons_of_mem _ hx)
          exact (List.mem_erase_of_ne hne).2 (hq x (List.mem_cons_of_mem _ hx))) p hp
        exact ⟨List.mem_of_mem_erase this.1, List.mem_of_mem_erase this.2⟩
    · exact ih S (fun x hx => hq x (List.mem_cons_of_mem _ hx)) p hp

theorem pr_edges_irrefl : ∀ (q S : List Nat), S.Nodup → ∀ a, (a, a) ∉ pr_edges S q := by
  intro q
  induction q with
  | nil =>
    intro S hS a hp
    unfold pr_edges at hp
    split at hp
    · simp only [List.mem_singleton, Prod.mk.injEq] at hp
      obtain ⟨rfl, rfl⟩ := hp
      simp at hS
    · cases hp
  | cons v q ih =>
    intro S hS a hp
    rw [pr_edges] at hp
    split at hp
    · rename_i j hj
      have hjq : j ∉ v :: q := by simpa using List.find?_some hj
      rcases List.mem_cons.1 hp with h | hp
      · simp only [Prod.mk.injEq] at h
        obtain ⟨rfl, rfl⟩ := h
        exact hjq (List.mem_cons_self)
      · exact ih _ (hS.erase j) a hp
    · exact ih S hS a hp

/-- a run decodes to its own adjacency relation (on the present set) -/
theorem pr_Run.spec {adj S q} (ha : pr_Adj adj) (h : pr_Run adj S q) :
    ∀ a ∈ S, ∀ b ∈ S, (adj a b = true ↔ pr_Sym (pr_edges S q) a b) := by
  induction h with
  | base a b hab hadj =>
    have hne : a ≠ b := Nat.ne_of_lt hab
    have hba : adj b a = true := by rw [ha.symm]; exact hadj
    intro x hx y hy
    simp only [List.mem_cons, List.not_mem_nil, or_false] at hx hy
    simp only [pr_edges, pr_Sym, List.mem_singleton, Prod.mk.injEq]
    rcases hx with rfl | rfl <;> rcases hy with rfl | rfl
    · simp [ha.irrefl, hne]
    · simp [hadj]
    · simp [hba]
    · simp [ha.irrefl, Ne.symm hne]
  | step A B v u q hs hA hv hB hu huv hr ih =>
    have huS : u ∈ A ++ v :: B := pr_mem_split.2 (Or.inr hu)
    have hvn : v ∉ A ++ B := pr_split_notmem hs
    have hvS : v ∈ A ++ v :: B := pr_mem_split.2 (Or.inl rfl)
    have hdeg := pr_Run.deg ha (pr_Run.step A B v u q hs hA hv hB hu huv hr)
    have hvq : v ∉ u :: q := by
      intro hm
      have := hdeg v hvS
      rw [hv] at this
      have : 0 < List.count v (u :: q) := List.count_pos_iff.2 hm
      omega
    have hAq : ∀ a ∈ A, a ∈ u :: q := by
      intro a haA
      have h1 := hdeg a (List.mem_append_left _ haA)
      have h2 := hA a haA
      apply List.count_pos_iff.1
      omega
    rw [pr_edges_step hs hAq hvq]
    have hE : ∀ x, ¬ pr_Sym (pr_edges (A ++ B) q) v x := by
      intro x hx
      rcases hx with hx | hx
      · exact hvn (pr_edges_sub q _ hr.sub _ hx).1
      · exact hvn (pr_edges_sub q _ hr.sub _ hx).2
    have hE' : ∀ x, ¬ pr_Sym (pr_edges (A ++ B) q) x v := fun x hx => hE x (Or.symm hx)
    have hvu : v ≠ u := fun e => hvn (e ▸ hu)
    intro x hx y hy
    rw [pr_Sym_cons]
    rcases pr_mem_split.1 hx with rfl | hx' <;> rcases pr_mem_split.1 hy with rfl | hy'
    · rw [ha.irrefl]
      constructor
      · intro h; cases h
      · rintro (⟨_, h⟩ | ⟨h, _⟩ | h)
        · exact absurd h hvu
        · exact absurd h hvu
        · exact absurd h (hE _)
    · rw [ha.symm, pr_leaf_nbr ha hv huS huv hy]
      constructor
      · intro h; exact Or.inl ⟨rfl, h⟩
      · rintro (⟨_, h⟩ | ⟨_, h⟩ | h)
        · exact h
        · exact absurd h.symm (fun e => hvn (e ▸ hy'))
        · exact absurd h (hE _)
    · rw [pr_leaf_nbr ha hv huS huv hx]
      constructor
      · intro h; exact Or.inr (Or.inl ⟨h, rfl⟩)
      · rintro (⟨h, _⟩ | ⟨h, _⟩ | h)
        · exact absurd h.symm (fun e => hvn (e ▸ hx'))
        · exact h
        · exact absurd h (hE' _)
    · rw [ih x hx' y hy']
      constructor
      · intro h; exact Or.inr (Or.inr h)
      · rintro (⟨h, _⟩ | ⟨_, h⟩ | h)
        · exact absurd h.symm (fun e => hvn (e ▸ hx'))
        · exact absurd h.symm (fun e => hvn (e ▸ hy'))
        · exact h

theorem pr_exists_notmem {L q : List Nat} (hL : L.Nodup) (h : q.length < L.length) : ∃ x ∈ L, x ∉ q := by
  by_contra hc
  have hsub : L ⊆ q := by
    intro x hx
    by_contra hn
    exact hc ⟨x, hx, hn⟩
  exact absurd (hL.length_le_of_subset hsub) (by omega)

theorem pr_countP_eq_one {L : List Nat} (hL : L.Nodup) {p : Nat → Bool} {u : Nat} (hu : u ∈ L)
    (hp : ∀ x ∈ L, (p x = true ↔ x = u)) : L.countP p = 1 := by
  have : L.countP p = L.countP (· == u) := by
    apply List.countP_congr
    intro x hx
    rw [hp x hx]; simp
  rw [this]
  exact List.count_eq_one_of_mem hL hu

/-- if the adjacency relation on `S` is what the decoder builds from `q`, then leaf removal on `S` produces `q` -/
theorem pr_run_of_spec {adj : Nat → Nat → Bool} (ha : pr_Adj adj) :
    ∀ (q S : List Nat), S.Pairwise (· < ·) → (∀ x ∈ q, x ∈ S) → S.length = q.length + 2 →
      (∀ a ∈ S, ∀ b ∈ S, (adj a b = true ↔ pr_Sym (pr_edges S q) a b)) → pr_Run adj S q := by
  intro q
  induction q with
  | nil =>
    intro S hs _ hl hspec
    rcases S with _ | ⟨a, _ | ⟨b, _ | ⟨c, S⟩⟩⟩ <;> simp only [List.length_cons, List.length_nil] at hl <;> try omega
    have hab : a < b := by simpa using hs
    refine pr_Run.base a b hab ?_
    rw [hspec a (by simp) b (by simp)]
    exact Or.inl (by simp [pr_edges])
  | cons u q ih =>
    intro S hs hq hl hspec
    have hnd := pr_sorted_nodup hs
    obtain ⟨x, hxS, hxq⟩ := pr_exists_notmem (q := u :: q) hnd (by rw [hl]; omega)
    cases hf : S.find? (fun x => !(u :: q).contains x) with
    | none =>
      rw [List.find?_eq_none] at hf
      have := hf x hxS
      simp only [Bool.not_eq_true, Bool.not_eq_false', List.contains_eq_mem, decide_eq_true_eq] at this
      exact absurd this hxq
    | some j =>
      obtain ⟨hj, A, B, rfl, hA⟩ := List.find?_eq_some_iff_append.1 hf
      have hjq : j ∉ u :: q := by simpa using hj
      have hAq : ∀ a ∈ A, a ∈ u :: q := by intro a haA; simpa using hA a haA
      rw [pr_edges_step hs hAq hjq] at hspec
      have hjn : j ∉ A ++ B := pr_split_notmem hs
      have hs' := pr_sorted_drop hs
      have huS : u ∈ A ++ j :: B := hq u (List.mem_cons_self)
      have huj : u ≠ j := fun e => hjq (e ▸ List.mem_cons_self)
      have hu : u ∈ A ++ B := by
        rcases pr_mem_split.1 huS with h | h
        · exact absurd h huj
        · exact h
      have hq' : ∀ x ∈ q, x ∈ A ++ B := by
        intro x hx
        rcases pr_mem_split.1 (hq x (List.mem_cons_of_mem _ hx)) with h | h
        · exact absurd (h ▸ List.mem_cons_of_mem _ hx) hjq
        · exact h
      have hl' : (A ++ B).length = q.length + 2 := by
        simp only [List.length_append, List.length_cons] at hl ⊢; omega
      have hE : ∀ x, ¬ pr_Sym (pr_edges (A ++ B) q) j x := by
        intro x hx
        rcases hx with hx | hx
        · exact hjn (pr_edges_sub q _ hq' _ hx).1
        · exact hjn (pr_edges_sub q _ hq' _ hx).2
      -- the run on the rest
      have hr : pr_Run adj (A ++ B) q := by
        apply ih (A ++ B) hs' hq' hl'
        intro a ha' b hb'
        rw [hspec a (pr_mem_split.2 (Or.inr ha')) b (pr_mem_split.2 (Or.inr hb')), pr_Sym_cons]
        constructor
        · rintro (⟨h, _⟩ | ⟨_, h⟩ | h)
          · exact absurd h (fun e => hjn (e ▸ ha'))
          · exact absurd h (fun e => hjn (e ▸ hb'))
          · exact h
        · intro h; exact Or.inr (Or.inr h)
      -- neighbours of j
      have hjS : j ∈ A ++ j :: B := pr_mem_split.2 (Or.inl rfl)
      have hnb : ∀ b ∈ A ++ j :: B, (adj j b = true ↔ b = u) := by
        intro b hb
        rw [hspec j hjS b hb, pr_Sym_cons]
        constructor
        · rintro (⟨_, h⟩ | ⟨h, _⟩ | h)
          · exact h
          · exact absurd h.symm huj
          · exact absurd h (hE _)
        · intro h; exact Or.inl ⟨rfl, h⟩
      have hdj : pr_deg adj (A ++ j :: B) j = 1 := pr_countP_eq_one hnd huS hnb
      have huv : adj u j = true := by rw [ha.symm]; exact (hnb u huS).2 rfl
      -- B is not empty
      have hB : B ≠ [] := by
        obtain ⟨y, hy, hyq⟩ := pr_exists_notmem (L := A ++ B) (q := u :: q) (pr_sorted_nodup hs')
          (by rw [hl']; simp)
        rcases List.mem_append.1 hy with h | h
        · exact absurd (hAq y h) hyq
        · exact List.ne_nil_of_mem h
      refine pr_Run.step A B j u q hs ?_ hdj hB hu huv hr
      intro a haA
      have haS' : a ∈ A ++ B := List.mem_append_left _ haA
      have haS : a ∈ A ++ j :: B := List.mem_append_left _ haA
      rw [pr_deg_split, pr_Run.deg ha hr a haS']
      have h1 : adj a j = true ↔ a = u := by rw [ha.symm]; exact hnb a haS
      rcases List.mem_cons.1 (hAq a haA) with rfl | h
      · rw [if_pos (h1.2 rfl)]; omega
      · have : 0 < List.count a q := List.count_pos_iff.2 h
        omega

/-! ## Part 3: the model's `pruferDecode` implements `pr_edges` -/

/-- the part of `pruferDecode` after the degree count, from an arbitrary loop state and remaining code -/
def pr_decRest (n : Nat) (q : List Nat) (st : Array Nat × Array Nat) : Outcome Dense :=
  match q.foldlM (pruferDecStep n) st with
  | .ok (deg2, edges) =>
    match firstDegOne deg2 (List.range n) with
    | .ok none => newDense n edges
    | .ok (some i) =>
      match firstDegOne deg2 (List.range' (i + 1) (n - (i + 1))) with
      | .ok none => newDense n edges
      | .ok (some j) =>
        match setAt edges (j * (j - 1) / 2 + i) 1 with
        | .ok e => newDense n e
        | .panic => .panic
        | .outOfFuel => .outOfFuel
      | .panic => .panic
      | .outOfFuel => .outOfFuel
    | .panic => .panic
    | .outOfFuel => .outOfFuel
  | .panic => .panic
  | .outOfFuel => .outOfFuel

theorem pr_decode_unfold (p : List Nat) :
    pruferDecode p =
      match p.foldlM incr (Array.replicate (p.length + 2) 1) with
      | .ok degrees =>
        pr_decRest (p.length + 2) p (degrees, Array.replicate ((p.length + 2) * (p.length + 2 - 1) / 2) 0)
      | .panic => .panic
      | .outOfFuel => .outOfFuel := rfl

theorem pr_decRest_cons (n v : Nat) (q : List Nat) (st st' : Array Nat × Array Nat)
    (h : pruferDecStep n st v = .ok st') : pr_decRest n (v :: q) st = pr_decRest n q st' := by
  unfold pr_decRest
  simp only [List.foldlM_cons]
  show (match (pruferDecStep n st v >>= fun s => List.foldlM (pruferDecStep n) s q) with
    | .ok (deg2, edges) => _ | .panic => _ | .outOfFuel => _) = _
  rw [h]
  rfl

/-- the byte array `edg` has a 1 exactly at the pairs of `E` (and is 0 elsewhere) -/
def pr_Rep (n : Nat) (E : List (Nat × Nat)) (edg : Array Nat) : Prop :=
  edg.size = tri n ∧ ∀ a b, a < b → b < n →
    (pr_Sym E a b → edg.getD (tri b + a) 0 = 1) ∧ (¬ pr_Sym E a b → edg.getD (tri b + a) 0 = 0)

theorem pr_Rep_congr {n : Nat} {E E' : List (Nat × Nat)} {edg : Array Nat}
    (h : ∀ a b, pr_Sym E a b ↔ pr_Sym E' a b) (hr : pr_Rep n E edg) : pr_Rep n E' edg := by
  refine ⟨hr.1, ?_⟩
  intro a b hab hb
  rw [← h a b]
  exact hr.2 a b hab hb

theorem pr_Rep_nil (n : Nat) : pr_Rep n [] (Array.replicate (n * (n - 1) / 2) 0) := by
  refine ⟨by rw [Array.size_replicate]; rfl, ?_⟩
  intro a b _ _
  constructor
  · intro h; rcases h with h | h <;> cases h
  · intro _
    rw [Array.getD_eq_getD_getElem?, Array.getElem?_replicate]
    split <;> rfl

theorem pr_tri_inj {a b a' b' : Nat} (h : a < b) (h' : a' < b') (e : tri b + a = tri b' + a') :
    a = a' ∧ b = b' := by
  rcases Nat.lt_trichotomy b b' with c | c | c
  · have := tri_mono (show b + 1 ≤ b' from c)
    rw [tri_succ] at this
    omega
  · subst c; exact ⟨by omega, rfl⟩
  · have := tri_mono (show b' + 1 ≤ b from c)
    rw [tri_succ] at this
    omega

theorem pr_edgeIdx_lt {j v : Nat} (h : j < v) : edgeIdx j v = tri v + j := by
  unfold edgeIdx tri
  rw [if_neg (by omega)]

theorem pr_edgeIdx_gt {j v : Nat} (h : v < j) : edgeIdx j v = tri j + v := by
  unfold edgeIdx tri
  rw [if_pos h]

/-- setting the byte of the pair `lo < hi` -/
theorem pr_Rep_set_lt {n : Nat} {E : List (Nat × Nat)} {edg : Array Nat} (hr : pr_Rep n E edg)
    {lo hi : Nat} (hlt : lo < hi) (hhi : hi < n) :
    setAt edg (tri hi + lo) 1 = .ok (edg.setIfInBounds (tri hi + lo) 1) ∧
      pr_Rep n ((lo, hi) :: E) (edg.setIfInBounds (tri hi + lo) 1) := by
  have hidx : tri hi + lo < edg.size := by rw [hr.1]; exact tri_idx_lt hlt hhi
  refine ⟨setAt_ok hidx, by rw [Array.size_setIfInBounds]; exact hr.1, ?_⟩
  intro a b hab hb
  rw [Array.getD_eq_getD_getElem?, Array.getElem?_setIfInBounds, pr_Sym_cons]
  by_cases e : tri hi + lo = tri b + a
  · obtain ⟨rfl, rfl⟩ := pr_tri_inj hlt hab e
    rw [if_pos e, if_pos hidx]
    exact ⟨fun _ => rfl, fun h => absurd (Or.inl ⟨rfl, rfl⟩) h⟩
  · rw [if_neg e, ← Array.getD_eq_getD_getElem?]
    have hne : ¬ (a = lo ∧ b = hi) := by rintro ⟨rfl, rfl⟩; exact e rfl
    have hne' : ¬ (a = hi ∧ b = lo) := by rintro ⟨rfl, rfl⟩; omega
    constructor
    · rintro (h | h | h)
      · exact absurd h hne
      · exact absurd h hne'
      · exact (hr.2 a b hab hb).1 h
    · intro h
      exact (hr.2 a b hab hb).2 (fun h' => h (Or.inr (Or.inr h')))

theorem pr_Sym_cons_swap {E : List (Nat × Nat)} {j v a b : Nat} :
    pr_Sym ((j, v) :: E) a b ↔ pr_Sym ((v, j) :: E) a b := by
  rw [pr_Sym_cons, pr_Sym_cons]; tauto

/-- the statement `edges[edgeIdx(j, v)] = 1` -/
theorem pr_Rep_set {n : Nat} {E : List (Nat × Nat)} {edg : Array Nat} (hr : pr_Rep n E edg)
    {j v : Nat} (hne : j ≠ v) (hj : j < n) (hv : v < n) :
    ∃ e, setAt edg (edgeIdx j v) 1 = .ok e ∧ pr_Rep n ((j, v) :: E) e := by
  rcases Nat.lt_or_gt_of_ne hne with h | h
  · rw [pr_edgeIdx_lt h]
    exact ⟨_, pr_Rep_set_lt hr h hv⟩
  · rw [pr_edgeIdx_gt h]
    obtain ⟨h1, h2⟩ := pr_Rep_set_lt hr h hj
    exact ⟨_, h1, pr_Rep_congr (fun a b => pr_Sym_cons_swap) h2⟩

/-! ### `firstDegOne` -/

theorem pr_firstDegOne_split (deg : Array Nat) (L1 L2 : List Nat) (j : Nat)
    (h1 : ∀ i ∈ L1, ∃ d, deg[i]? = some d ∧ d ≠ 1) (hj : deg[j]? = some 1) :
    firstDegOne deg (L1 ++ j :: L2) = .ok (some j) := by
  induction L1 with
  | nil => simp [firstDegOne, hj]
  | cons x xs ih =>
    obtain ⟨d, hd, hd1⟩ := h1 x (List.mem_cons_self)
    simp only [List.cons_append, firstDegOne, hd, hd1, if_false]
    exact ih (fun i hi => h1 i (List.mem_cons_of_mem _ hi))

theorem pr_range'_split {s m j : Nat} (h1 : s ≤ j) (h2 : j < s + m) :
    List.range' s m = List.range' s (j - s) ++ j :: List.range' (j + 1) (s + m - (j + 1)) := by
  have e : m = (j - s) + (1 + (s + m - (j + 1))) := by omega
  conv => lhs; rw [e]
  rw [← List.range'_append_1, ← List.range'_append_1]
  have : s + (j - s) = j := by omega
  rw [this]
  rfl

theorem pr_range_split {n j : Nat} (h : j < n) :
    List.range n = List.range j ++ j :: List.range' (j + 1) (n - (j + 1)) := by
  rw [List.range_eq_range', List.range_eq_range', pr_range'_split (s := 0) (m := n) (j := j) (by omega) (by omega)]
  simp

/-! ### the degree count -/

theorem pr_incr_loop (n : Nat) : ∀ (p : List Nat) (a : Array Nat), a.size = n → (∀ x ∈ p, x < n) →
    ∃ a', p.foldlM incr a = .ok a' ∧ a'.size = n ∧ ∀ w, w < n → a'[w]? = some (a.getD w 0 + p.count w) := by
  intro p
  induction p with
  | nil =>
    intro a ha _
    refine ⟨a, rfl, ha, ?_⟩
    intro w hw
    simp [Array.getD, ha, hw]
  | cons x xs ih =>
    intro a ha hp
    have hx : x < a.size := by rw [ha]; exact hp x (List.mem_cons_self)
    obtain ⟨a', h1, h2, h3⟩ := ih (a.setIfInBounds x (a[x] + 1)) (by rw [Array.size_setIfInBounds]; exact ha)
      (fun y hy => hp y (List.mem_cons_of_mem _ hy))
    refine ⟨a', ?_, h2, ?_⟩
    · simp only [List.foldlM_cons]
      show (incr a x >>= fun s => List.foldlM incr s xs) = _
      rw [incr_ok hx]; exact h1
    · intro w hw
      rw [h3 w hw, List.count_cons]
      rw [Array.getD_eq_getD_getElem?, Array.getElem?_setIfInBounds, Array.getD_eq_getD_getElem?]
      by_cases e : x = w
      · subst e; simp [hx]; omega
      · have : ¬ (x == w) = true := by simpa using e
        simp [e]

/-! ### the main loop of `pruferDecode` -/

/-- invariant of the main loop: present set `S` (ascending), remaining code `q`, edges set so far `E` -/
structure pr_DecInv (n : Nat) (S q : List Nat) (E : List (Nat × Nat)) (st : Array Nat × Array Nat) : Prop where
  sorted : S.Pairwise (· < ·)
  bound : ∀ x ∈ S, x < n
  sub : ∀ x ∈ q, x ∈ S
  len : S.length = q.length + 2
  size : st.1.size = n
  deg : ∀ w, w < n → st.1[w]? = some ((if w ∈ S then 1 else 0) + q.count w)
  rep : pr_Rep n E st.2

theorem pr_split_exists {S q : List Nat} (hS : S.Nodup) (h : q.length < S.length) :
    ∃ A j B, S = A ++ j :: B ∧ (∀ a ∈ A, a ∈ q) ∧ j ∉ q := by
  obtain ⟨x, hxS, hxq⟩ := pr_exists_notmem hS h
  cases hf : S.find? (fun x => !q.contains x) with
  | none =>
    rw [List.find?_eq_none] at hf
    have := hf x hxS
    simp only [Bool.not_eq_true, Bool.not_eq_false', List.contains_eq_mem, decide_eq_true_eq] at this
    exact absurd this hxq
  | some j =>
    obtain ⟨hj, A, B, e, hA⟩ := List.find?_eq_some_iff_append.1 hf
    exact ⟨A, j, B, e, fun a haA => by simpa using hA a haA, by simpa using hj⟩

theorem pr_sorted_lt_mem {A B : List Nat} {j i : Nat} (hs : (A ++ j :: B).Pairwise (· < ·))
    (hi : i ∈ A ++ j :: B) (hlt : i < j) : i ∈ A := by
  rw [List.pairwise_append] at hs
  obtain ⟨_, h2, _⟩ := hs
  rw [List.pairwise_cons] at h2
  rcases List.mem_append.1 hi with h | h
  · exact h
  · rcases List.mem_cons.1 h with h | h
    · omega
    · have := h2.1 i h; omega

theorem pr_decr_of_getElem? {a : Array Nat} {i x : Nat} (h : a[i]? = some x) :
    decr a i = .ok (a.setIfInBounds i (x - 1)) := by
  unfold decr; rw [h]

theorem pr_decStep_inv {n : Nat} {A B : List Nat} {j v : Nat} {q : List Nat} {E : List (Nat × Nat)}
    {st : Array Nat × Array Nat} (h : pr_DecInv n (A ++ j :: B) (v :: q) E st)
    (hA : ∀ a ∈ A, a ∈ v :: q) (hj : j ∉ v :: q) :
    ∃ st', pruferDecStep n st v = .ok st' ∧ pr_DecInv n (A ++ B) q ((j, v) :: E) st' := by
  have hjS : j ∈ A ++ j :: B := pr_mem_split.2 (Or.inl rfl)
  have hjn : j < n := h.bound j hjS
  have hvS : v ∈ A ++ j :: B := h.sub v (List.mem_cons_self)
  have hvn : v < n := h.bound v hvS
  have hne : j ≠ v := fun e => hj (e ▸ List.mem_cons_self)
  have hjnot : j ∉ A ++ B := pr_split_notmem h.sorted
  have hdj : st.1[j]? = some 1 := by
    rw [h.deg j hjn, if_pos hjS, List.count_eq_zero_of_not_mem hj]
  have hfd : firstDegOne st.1 (List.range n) = .ok (some j) := by
    rw [pr_range_split hjn]
    apply pr_firstDegOne_split _ _ _ _ _ hdj
    intro i hi
    have hij : i < j := List.mem_range.1 hi
    refine ⟨_, h.deg i (by omega), ?_⟩
    by_cases hiS : i ∈ A ++ j :: B
    · have : 0 < List.count i (v :: q) := List.count_pos_iff.2 (hA i (pr_sorted_lt_mem h.sorted hiS hij))
      rw [if_pos hiS]; omega
    · have : i ∉ v :: q := fun hm => hiS (h.sub i hm)
      rw [if_neg hiS, List.count_eq_zero_of_not_mem this]; omega
  obtain ⟨e, he, hrep⟩ := pr_Rep_set h.rep hne hjn hvn
  have hd1 := pr_decr_of_getElem? hdj
  have hdv : (st.1.setIfInBounds j (1 - 1))[v]? = some (1 + (q.count v + 1)) := by
    rw [Array.getElem?_setIfInBounds, if_neg hne, h.deg v hvn, if_pos hvS, List.count_cons_self]
  have hd2 := pr_decr_of_getElem? hdv
  refine ⟨((st.1.setIfInBounds j (1 - 1)).setIfInBounds v (1 + (q.count v + 1) - 1), e), ?_, ?_⟩
  · unfold pruferDecStep
    rw [hfd]; simp only []
    rw [he]; simp only []
    rw [hd1]; simp only []
    rw [hd2]
  · refine ⟨pr_sorted_drop h.sorted, fun x hx => h.bound x (pr_mem_split.2 (Or.inr hx)), ?_, ?_, ?_, ?_, hrep⟩
    · intro x hx
      rcases pr_mem_split.1 (h.sub x (List.mem_cons_of_mem _ hx)) with e | e
      · exact absurd (e ▸ List.mem_cons_of_mem _ hx) hj
      · exact e
    · have := h.len
      simp only [List.length_append, List.length_cons] at this ⊢; omega
    · simp only [Array.size_setIfInBounds]; exact h.size
    · intro w hw
      simp only [Array.getElem?_setIfInBounds, Array.size_setIfInBounds, h.size, hvn, hjn, if_true]
      by_cases e1 : v = w
      · subst e1
        have : v ∈ A ++ B := by
          rcases pr_mem_split.1 hvS with e | e
          · exact absurd e.symm hne
          · exact e
        rw [if_pos rfl, if_pos this]
        congr 1
      · rw [if_neg e1]
        by_cases e2 : j = w
        · subst e2
          have : j ∉ q := fun hm => hj (List.mem_cons_of_mem _ hm)
          rw [if_pos rfl, if_neg hjnot, List.count_eq_zero_of_not_mem this]
        · rw [if_neg e2, h.deg w hw, List.count_cons, if_neg (show ¬ (v == w) = true by simpa using e1)]
          have : w ∈ A ++ j :: B ↔ w ∈ A ++ B := by
            rw [pr_mem_split]
            constructor
            · rintro (e | e)
              · exact absurd e.symm e2
              · exact e
            · exact Or.inr
          simp only [this, Nat.add_zero]

theorem pr_decRest_nil {n i j : Nat} {E : List (Nat × Nat)} {st : Array Nat × Array Nat}
    (h : pr_DecInv n [i, j] [] E st) :
    ∃ edg, pr_decRest n [] st = newDense n edg ∧ pr_Rep n ((i, j) :: E) edg := by
  have hij : i < j := by simpa using h.sorted
  have hin : i < n := h.bound i (by simp)
  have hjn : j < n := h.bound j (by simp)
  have hdeg : ∀ w, w < n → st.1[w]? = some (if w = i ∨ w = j then 1 else 0) := by
    intro w hw
    rw [h.deg w hw]
    simp
  have hf1 : firstDegOne st.1 (List.range n) = .ok (some i) := by
    rw [pr_range_split hin]
    apply pr_firstDegOne_split
    · intro k hk
      have hki : k < i := List.mem_range.1 hk
      refine ⟨_, hdeg k (by omega), ?_⟩
      rw [if_neg (by omega)]; omega
    · rw [hdeg i hin]; simp
  have hf2 : firstDegOne st.1 (List.range' (i + 1) (n - (i + 1))) = .ok (some j) := by
    rw [pr_range'_split (s := i + 1) (m := n - (i + 1)) (j := j) (by omega) (by omega)]
    apply pr_firstDegOne_split
    · intro k hk
      rw [List.mem_range'_1] at hk
      refine ⟨_, hdeg k (by omega), ?_⟩
      rw [if_neg (by omega)]; omega
    · rw [hdeg j hjn]; simp
  obtain ⟨hs, hrep⟩ := pr_Rep_set_lt h.rep hij hjn
  refine ⟨_, ?_, hrep⟩
  obtain ⟨deg, edg⟩ := st
  have e : pr_decRest n [] (deg, edg) =
      match firstDegOne deg (List.range n) with
      | .ok none => newDense n edg
      | .ok (some i) =>
        match firstDegOne deg (List.range' (i + 1) (n - (i + 1))) with
        | .ok none => newDense n edg
        | .ok (some j) =>
          match setAt edg (tri j + i) 1 with
          | .ok e => newDense n e
          | .panic => .panic
          | .outOfFuel => .outOfFuel
        | .panic => .panic
        | .outOfFuel => .outOfFuel
      | .panic => .panic
      | .outOfFuel => .outOfFuel := rfl
  rw [e]
  simp only at hf1 hf2 hs
  rw [hf1]; simp only []
  rw [hf2]; simp only []
  rw [hs]

theorem pr_Sym_append {E1 E2 : List (Nat × Nat)} {a b : Nat} :
    pr_Sym (E1 ++ E2) a b ↔ pr_Sym E1 a b ∨ pr_Sym E2 a b := by
  unfold pr_Sym; simp only [List.mem_append]; tauto

/-- the main loop and the final edge: `pr_edges` is added to what was there -/
theorem pr_decRest_spec (n : Nat) : ∀ (q S : List Nat) (E : List (Nat × Nat)) (st : Array Nat × Array Nat),
    pr_DecInv n S q E st →
    ∃ edg, pr_decRest n q st = newDense n edg ∧ pr_Rep n (pr_edges S q ++ E) edg := by
  intro q
  induction q with
  | nil =>
    intro S E st h
    have hl := h.len
    rcases S with _ | ⟨i, _ | ⟨j, _ | ⟨c, S⟩⟩⟩ <;> simp only [List.length_cons, List.length_nil] at hl <;> try omega
    exact pr_decRest_nil h
  | cons v q ih =>
    intro S E st h
    obtain ⟨A, j, B, rfl, hA, hj⟩ := pr_split_exists (q := v :: q) (pr_sorted_nodup h.sorted)
      (by rw [h.len]; omega)
    obtain ⟨st', hstep, hinv⟩ := pr_decStep_inv h hA hj
    obtain ⟨edg, h1, h2⟩ := ih _ _ _ hinv
    refine ⟨edg, by rw [pr_decRest_cons n v q st st' hstep]; exact h1, ?_⟩
    rw [pr_edges_step h.sorted hA hj]
    refine pr_Rep_congr ?_ h2
    intro a b
    simp only [List.cons_append, pr_Sym_append, pr_Sym_cons]
    tauto

/-- `pruferDecode p` is `NewDense` of the byte array of `pr_edges (0..n-1) p` -/
theorem pr_decode_run (p : List Nat) (hp : ∀ x ∈ p, x < p.length + 2) :
    ∃ edg, pruferDecode p = newDense (p.length + 2) edg ∧
      pr_Rep (p.length + 2) (pr_edges (List.range (p.length + 2)) p) edg := by
  obtain ⟨deg, h1, h2, h3⟩ := pr_incr_loop (p.length + 2) p (Array.replicate (p.length + 2) 1)
    (Array.size_replicate) hp
  have hinv : pr_DecInv (p.length + 2) (List.range (p.length + 2)) p []
      (deg, Array.replicate ((p.length + 2) * (p.length + 2 - 1) / 2) 0) := by
    refine ⟨?_, fun x hx => List.mem_range.1 hx, fun x hx => List.mem_range.2 (hp x hx), by simp, h2, ?_,
      pr_Rep_nil _⟩
    · exact List.pairwise_lt_range
    · intro w hw
      rw [h3 w hw, if_pos (List.mem_range.2 hw)]
      simp [Array.getD, hw]
  obtain ⟨edg, h4, h5⟩ := pr_decRest_spec _ _ _ _ _ hinv
  refine ⟨edg, ?_, by simpa using h5⟩
  rw [pr_decode_unfold, h1]
  exact h4

/-! ## Part 4: sums of degrees -/

theorem pr_sum_map_add {α : Type} (L : List α) (f g : α → Nat) :
    (L.map fun w => f w + g w).sum = (L.map f).sum + (L.map g).sum := by
  induction L with
  | nil => rfl
  | cons x xs ih => simp only [List.map_cons, List.sum_cons, ih]; omega

theorem pr_sum_ite {α : Type} (L : List α) (p : α → Bool) :
    (L.map fun w => if p w then 1 else 0).sum = L.countP p := by
  induction L with
  | nil => rfl
  | cons x xs ih =>
    simp only [List.map_cons, List.sum_cons, ih, List.countP_cons]; omega

/-- double counting -/
theorem pr_sum_countP_swap {α β : Type} (L : List α) (E : List β) (t : α → β → Bool) :
    (L.map fun v => E.countP (t v)).sum = (E.map fun p => L.countP (fun v => t v p)).sum := by
  induction E with
  | nil => simp
  | cons p E ih =>
    simp only [List.countP_cons, List.map_cons, List.sum_cons]
    rw [pr_sum_map_add, ih, pr_sum_ite]; omega

theorem pr_count_two {a b : Nat} (hab : a ≠ b) (n : Nat) :
    (List.range n).countP (fun v => a == v || b == v) = (if a < n then 1 else 0) + (if b < n then 1 else 0) := by
  induction n with
  | zero => simp
  | succ n ih =>
    rw [countP_range_succ, ih]
    by_cases h1 : a = n
    · subst h1
      have : ¬ b = a := fun e => hab e.symm
      have h2 : ¬ a < a := Nat.lt_irrefl _
      simp
      split <;> split <;> omega
    · by_cases h2 : b = n
      · subst h2
        simp
        split <;> split <;> omega
      · simp [h1, h2]
        split <;> split <;> split <;> split <;> omega

/-- the handshake lemma for `GraphSpec.G` -/
theorem pr_handshake (g : G) (h : g.WF) : ((List.range g.n).map g.deg).sum = 2 * g.m := by
  have e1 : (List.range g.n).map g.deg =
      (List.range g.n).map (fun v => g.edges.countP (fun p => p.1 == v || p.2 == v)) := by
    apply List.map_congr_left
    intro v hv
    rw [← edges_count_deg g h v (List.mem_range.1 hv), List.countP_eq_length_filter]
  rw [e1, pr_sum_countP_swap]
  have e2 : g.edges.map (fun p => (List.range g.n).countP (fun v => p.1 == v || p.2 == v)) =
      g.edges.map (fun _ => 2) := by
    apply List.map_congr_left
    intro p hp
    obtain ⟨a, b⟩ := p
    obtain ⟨hab, hb, _⟩ := (edges_mem g a b).1 hp
    show (List.range g.n).countP (fun v => a == v || b == v) = 2
    rw [pr_count_two (Nat.ne_of_lt hab), if_pos (by omega), if_pos hb]
  rw [e2]
  show _ = 2 * g.edges.length
  simp [Nat.mul_comm]

theorem pr_sum_count {S q : List Nat} (hS : S.Nodup) (hq : ∀ x ∈ q, x ∈ S) :
    (S.map fun w => q.count w).sum = q.length := by
  induction q with
  | nil => simp
  | cons x q ih =>
    have e : (S.map fun w => (x :: q).count w) = S.map (fun w => q.count w + if x == w then 1 else 0) := by
      apply List.map_congr_left
      intro w _
      rw [List.count_cons]
    rw [e, pr_sum_map_add, ih (fun y hy => hq y (List.mem_cons_of_mem _ hy)), pr_sum_ite]
    have : S.countP (fun w => x == w) = 1 := by
      have := List.count_eq_one_of_mem hS (hq x (List.mem_cons_self))
      rw [← this]
      unfold List.count
      apply List.countP_congr
      intro w _
      rw [beq_iff_eq, beq_iff_eq]; exact eq_comm
    rw [this]; rfl

theorem pr_deg_eq (g : G) (v : Nat) : g.deg v = pr_deg g.adj (List.range g.n) v := by
  unfold G.deg G.nbrs pr_deg
  rw [List.countP_eq_length_filter]

/-- a run over `S`: the degrees inside `S` sum to `2 (|S| - 1)` -/
theorem pr_Run.deg_sum {adj S q} (ha : pr_Adj adj) (h : pr_Run adj S q) :
    (S.map (pr_deg adj S)).sum + 2 = 2 * S.length := by
  have e : S.map (pr_deg adj S) = S.map (fun w => 1 + q.count w) :=
    List.map_congr_left (fun w hw => h.deg ha w hw)
  rw [e, pr_sum_map_add, pr_sum_count (pr_sorted_nodup h.sorted) h.sub]
  have := h.length
  simp only [List.map_const', List.sum_replicate_nat, mul_one]
  omega

/-! ## Part 5: the decoder's result -/

/-- labelled tree on `0..n-1`: well formed, `n-1` edges, connected -/
def IsTree (g : G) : Prop :=
  g.WF ∧ g.m + 1 = g.n ∧
    ∀ u v, u < g.n → v < g.n → Relation.ReflTransGen (fun a b => g.adj a b = true) u v

theorem pr_Adj_of_wf {g : G} (h : g.WF) : pr_Adj g.adj := ⟨h.symm, h.irrefl⟩

theorem pr_Sym_comm {E : List (Nat × Nat)} {a b : Nat} : pr_Sym E a b ↔ pr_Sym E b a := Or.comm

/-- decoding succeeds, and the adjacency relation of the result is the edge list of the abstract decoder -/
theorem pr_decode_spec (p : List Nat) (hp : ∀ x ∈ p, x < p.length + 2) :
    ∃ d, pruferDecode p = .ok d ∧ d.WF ∧ d.n = p.length + 2 ∧
      ∀ a b, (d.toG.adj a b = true ↔ pr_Sym (pr_edges (List.range (p.length + 2)) p) a b) := by
  obtain ⟨edg, hrun, hrep⟩ := pr_decode_run p hp
  obtain ⟨d, hd, hwf, hn, he⟩ := newDense_ok (p.length + 2) edg hrep.1
  refine ⟨d, hrun.trans hd, hwf, hn, ?_⟩
  have hs : d.edges.size = tri d.n := by rw [he, hn]; exact hrep.1
  have hG := Dense.toG_wf d
  have hsub := pr_edges_sub p (List.range (p.length + 2)) (fun x hx => List.mem_range.2 (hp x hx))
  have hirr := pr_edges_irrefl p (List.range (p.length + 2)) List.nodup_range
  have key : ∀ a b, a < b → (d.toG.adj a b = true ↔ pr_Sym (pr_edges (List.range (p.length + 2)) p) a b) := by
    intro a b hab
    by_cases hb : b < p.length + 2
    · rw [Dense.toG_adj_lt hs hab (by rw [hn]; exact hb), he]
      obtain ⟨h1, h2⟩ := hrep.2 a b hab hb
      constructor
      · intro h
        by_contra hc
        rw [h2 hc] at h
        simp at h
      · intro h
        rw [h1 h]; rfl
    · constructor
      · intro h
        have := (hG.supp a b h).2
        rw [show d.toG.n = d.n from rfl, hn] at this
        exact absurd this hb
      · rintro (h | h)
        · exact absurd (List.mem_range.1 (hsub _ h).2) hb
        · exact absurd (List.mem_range.1 (hsub _ h).1) hb
  intro a b
  rcases Nat.lt_trichotomy a b with c | c | c
  · exact key a b c
  · subst c
    rw [hG.irrefl]
    constructor
    · intro h; cases h
    · rintro (h | h) <;> exact absurd h (hirr a)
  · rw [hG.symm, pr_Sym_comm]
    exact key b a c

/-- the decoded graph has the leaf-removal run that produces `p` -/
theorem pr_decode_runs (p : List Nat) (hp : ∀ x ∈ p, x < p.length + 2) :
    ∃ d, pruferDecode p = .ok d ∧ d.WF ∧ d.n = p.length + 2 ∧
      pr_Run d.toG.adj (List.range (p.length + 2)) p := by
  obtain ⟨d, h1, h2, h3, h4⟩ := pr_decode_spec p hp
  refine ⟨d, h1, h2, h3, ?_⟩
  exact pr_run_of_spec (pr_Adj_of_wf (Dense.toG_wf d)) p _ List.pairwise_lt_range
    (fun x hx => List.mem_range.2 (hp x hx)) (by simp) (fun a _ b _ => h4 a b)

/-- a run on `0..n-1` certifies a tree -/
theorem pr_tree_of_run {g : G} (h : g.WF) {q : List Nat} (hr : pr_Run g.adj (List.range g.n) q) : IsTree g := by
  have ha := pr_Adj_of_wf h
  refine ⟨h, ?_, ?_⟩
  · have h1 := hr.deg_sum ha
    have h2 := pr_handshake g h
    have e : (List.range g.n).map g.deg = (List.range g.n).map (pr_deg g.adj (List.range g.n)) :=
      List.map_congr_left (fun v _ => pr_deg_eq g v)
    rw [e] at h2
    rw [h2, List.length_range] at h1
    omega
  · intro u v hu hv
    exact hr.conn ha u (List.mem_range.2 hu) v (List.mem_range.2 hv)

/-- (1) decoding never fails on a code over 0..n-1 and yields a well-formed graph on n vertices with n-1 edges -/
theorem prufer_decode_ok (p : List Nat) (hp : ∀ x ∈ p, x < p.length + 2) :
    ∃ d, pruferDecode p = .ok d ∧ d.WF ∧ d.n = p.length + 2 ∧ d.m = p.length + 1 := by
  obtain ⟨d, h1, h2, h3, h4⟩ := pr_decode_runs p hp
  refine ⟨d, h1, h2, h3, ?_⟩
  have hn : d.toG.n = p.length + 2 := h3
  have ht := pr_tree_of_run (Dense.toG_wf d) (hn ▸ h4)
  rw [h2.m_eq]
  have := ht.2.1
  omega

/-- (2) ... which is a tree -/
theorem prufer_decode_tree (p : List Nat) (hp : ∀ x ∈ p, x < p.length + 2) :
    ∃ d, pruferDecode p = .ok d ∧ d.WF ∧ d.n = p.length + 2 ∧ IsTree d.toG := by
  obtain ⟨d, h1, h2, h3, h4⟩ := pr_decode_runs p hp
  have hn : d.toG.n = p.length + 2 := h3
  exact ⟨d, h1, h2, h3, pr_tree_of_run (Dense.toG_wf d) (hn ▸ h4)⟩

/-! ## Part 6: the model's `pruferEncode` performs the run -/

theorem pr_findLeaf_split (deg : Array Int) (A R : List Nat) (v j0 : Nat)
    (hA : ∀ a ∈ A, ∃ d, deg[a]? = some d ∧ d ≠ 1) (hv : deg[v]? = some 1) :
    pruferFindLeaf deg j0 (A ++ v :: R) = .ok (some (j0 + A.length, v)) := by
  induction A generalizing j0 with
  | nil => simp [pruferFindLeaf, hv]
  | cons x xs ih =>
    obtain ⟨d, hd, hd1⟩ := hA x (List.mem_cons_self)
    simp only [List.cons_append, pruferFindLeaf, hd, hd1, if_false]
    rw [ih (j0 + 1) (fun a ha => hA a (List.mem_cons_of_mem _ ha))]
    rw [List.length_cons, show j0 + 1 + xs.length = j0 + (xs.length + 1) by omega]

theorem pr_shiftDown_split (A R : List Nat) (v l : Nat) (hl : (A ++ v :: R).getLast? = some l) :
    shiftDown (A ++ v :: R) A.length = A ++ R ++ [l] := by
  unfold shiftDown
  rw [hl]
  simp only []
  rw [List.eraseIdx_append_of_length_le (Nat.le_refl _), Nat.sub_self, List.eraseIdx_cons_zero]

/-- invariant of the outer loop of `PruferEncode`: `vl = S ++ D`, `D` copies of the last vertex `l` of `S` -/
structure pr_EncInv (g : GI) (S D : List Nat) (l : Nat) (deg : Array Int) : Prop where
  last : S.getLast? = some l
  dup : ∀ x ∈ D, x = l
  deg : ∀ w ∈ S, deg[w]? = some (Int.ofNat (pr_deg g.isEdge S w))

theorem pr_getLast_drop {A B : List Nat} {v l : Nat} (hB : B ≠ []) (h : (A ++ v :: B).getLast? = some l) :
    (A ++ B).getLast? = some l := by
  obtain ⟨b, B', rfl⟩ := List.exists_cons_of_ne_nil hB
  simpa [List.getLast?_append, List.getLast?_cons_cons] using h

theorem pr_getLast_dup {S D : List Nat} {l : Nat} (h : S.getLast? = some l) (hD : ∀ x ∈ D, x = l) :
    (S ++ D).getLast? = some l := by
  rw [List.getLast?_append]
  cases hd : D.getLast? with
  | none => simpa using h
  | some x =>
    have : x ∈ D := List.mem_of_getLast? hd
    rw [hD x this]; rfl

theorem pr_encStep_inv {g : GI} (ha : pr_Adj g.isEdge) {A B : List Nat} {v u : Nat} {D : List Nat} {l : Nat}
    {deg : Array Int} {out : Array Nat}
    (hs : (A ++ v :: B).Pairwise (· < ·))
    (hA : ∀ a ∈ A, pr_deg g.isEdge (A ++ v :: B) a ≠ 1)
    (hv : pr_deg g.isEdge (A ++ v :: B) v = 1)
    (hB : B ≠ []) (hu : u ∈ A ++ B) (huv : g.isEdge u v = true)
    (hinv : pr_EncInv g (A ++ v :: B) D l deg) :
    ∃ deg', pruferEncStep g ((A ++ v :: B) ++ D, deg, out) = .ok ((A ++ B) ++ (D ++ [l]), deg', out.push u) ∧
      pr_EncInv g (A ++ B) (D ++ [l]) l deg' := by
  have huS : u ∈ A ++ v :: B := pr_mem_split.2 (Or.inr hu)
  have hvS : v ∈ A ++ v :: B := pr_mem_split.2 (Or.inl rfl)
  have hvn : v ∉ A ++ B := pr_split_notmem hs
  have hlS : l ∈ A ++ v :: B := List.mem_of_getLast? hinv.last
  have e1 : (A ++ v :: B) ++ D = A ++ v :: (B ++ D) := by simp
  have hfl : pruferFindLeaf deg 0 (A ++ v :: (B ++ D)) = .ok (some (0 + A.length, v)) := by
    apply pr_findLeaf_split
    · intro a haA
      refine ⟨_, hinv.deg a (List.mem_append_left _ haA), ?_⟩
      have := hA a haA
      simp only [Int.ofNat_eq_natCast, ne_eq]
      omega
    · rw [hinv.deg v hvS, hv]; rfl
  have hfind : ((A ++ v :: B) ++ D).find? (fun u' => g.isEdge u' v) = some u := by
    cases hf : ((A ++ v :: B) ++ D).find? (fun u' => g.isEdge u' v) with
    | none =>
      rw [List.find?_eq_none] at hf
      exact absurd huv (hf u (List.mem_append_left _ huS))
    | some u' =>
      have h1 : g.isEdge u' v = true := List.find?_some (p := fun u' => g.isEdge u' v) hf
      have h2 : u' ∈ (A ++ v :: B) ++ D := List.mem_of_find?_eq_some hf
      have h3 : u' ∈ A ++ v :: B := by
        rcases List.mem_append.1 h2 with h | h
        · exact h
        · rw [hinv.dup u' h]; exact hlS
      rw [(pr_leaf_nbr ha hv huS huv h3).1 h1]
  have hdu := hinv.deg u huS
  have hsd : shiftDown (A ++ v :: (B ++ D)) A.length = A ++ (B ++ D) ++ [l] :=
    pr_shiftDown_split A (B ++ D) v l (e1 ▸ pr_getLast_dup hinv.last hinv.dup)
  rw [← e1] at hfl hsd
  refine ⟨deg.setIfInBounds u (Int.ofNat (pr_deg g.isEdge (A ++ v :: B) u) - 1), ?_, ?_⟩
  · unfold pruferEncStep
    simp only []
    rw [hfl]
    simp only [Nat.zero_add]
    rw [hfind]
    simp only []
    rw [hdu]
    simp only []
    rw [hsd]
    simp
  · refine ⟨pr_getLast_drop hB hinv.last, ?_, ?_⟩
    · intro x hx
      rcases List.mem_append.1 hx with h | h
      · exact hinv.dup x h
      · simpa using h
    · intro w hw
      have hwS : w ∈ A ++ v :: B := pr_mem_split.2 (Or.inr hw)
      have hsplit := pr_deg_split g.isEdge A B v w
      have hnb := pr_leaf_nbr ha hv huS huv hwS
      rw [Array.getElem?_setIfInBounds]
      by_cases e : u = w
      · subst e
        have hlt : u < deg.size := by
          rcases Nat.lt_or_ge u deg.size with h | h
          · exact h
          · rw [Array.getElem?_eq_none h] at hdu; cases hdu
        rw [if_pos rfl, if_pos hlt, hsplit, if_pos huv]
        simp only [Int.ofNat_eq_natCast]
        congr 1; omega
      · rw [if_neg e, hinv.deg w hwS, hsplit]
        have : g.isEdge w v = false := by
          cases h4 : g.isEdge w v with
          | false => rfl
          | true => exact absurd (hnb.1 h4).symm e
        rw [this]; simp

theorem pr_iterM_succ {α : Type} (f : α → Outcome α) (k : Nat) (a a' : α) (h : f a = .ok a') :
    iterM f (k + 1) a = iterM f k a' := by
  rw [iterM, h]

/-- the outer loop of `PruferEncode` along a run -/
theorem pr_encode_loop {g : GI} (ha : pr_Adj g.isEdge) {S q : List Nat} (hr : pr_Run g.isEdge S q) :
    ∀ (D : List Nat) (l : Nat) (deg : Array Int) (out : Array Nat), pr_EncInv g S D l deg →
      ∃ st, iterM (pruferEncStep g) q.length (S ++ D, deg, out) = .ok st ∧ st.2.2.toList = out.toList ++ q := by
  induction hr with
  | base a b _ _ =>
    intro D l deg out _
    exact ⟨_, rfl, by simp⟩
  | step A B v u q hs hA hv hB hu huv _ ih =>
    intro D l deg out hinv
    obtain ⟨deg', hstep, hinv'⟩ := pr_encStep_inv ha (out := out) hs hA hv hB hu huv hinv
    obtain ⟨st, h1, h2⟩ := ih (D ++ [l]) l deg' (out.push u) hinv'
    refine ⟨st, ?_, ?_⟩
    · rw [List.length_cons, pr_iterM_succ _ _ _ _ hstep]; exact h1
    · rw [h2]; simp

/-- a run on `0..n-1` is what `pruferEncode` computes -/
theorem pr_encode_run (g : GI) (hn : 2 ≤ g.n) (ha : pr_Adj g.isEdge)
    (hdeg : ∀ v, v < g.n → g.deg v = pr_deg g.isEdge (List.range g.n) v)
    {q : List Nat} (hr : pr_Run g.isEdge (List.range g.n) q) : pruferEncode g = .ok q := by
  have hl : q.length = g.n - 2 := by have := hr.length; rw [List.length_range] at this; omega
  have hinv : pr_EncInv g (List.range g.n) [] (g.n - 1) (g.degrees.map Int.ofNat) := by
    refine ⟨?_, (fun x hx => by cases hx), ?_⟩
    · rw [List.getLast?_range, if_neg (by omega)]
    · intro w hw
      have hw' : w < g.n := List.mem_range.1 hw
      rw [← hdeg w hw']
      simp [GI.degrees, hw']
  obtain ⟨st, h1, h2⟩ := pr_encode_loop ha hr [] (g.n - 1) (g.degrees.map Int.ofNat) #[] hinv
  unfold pruferEncode
  rw [if_neg (by omega), ← hl]
  rw [List.append_nil] at h1
  rw [h1]
  simp only []
  rw [h2]; simp

/-- (3) code → tree → code -/
theorem prufer_decode_encode (p : List Nat) (hp : ∀ x ∈ p, x < p.length + 2) :
    ∃ d, pruferDecode p = .ok d ∧ pruferEncode (GI.ofDense d) = .ok p := by
  obtain ⟨d, h1, h2, h3, h4⟩ := pr_decode_runs p hp
  refine ⟨d, h1, ?_⟩
  have hn : (GI.ofDense d).n = p.length + 2 := h3
  apply pr_encode_run (GI.ofDense d) (by rw [hn]; omega) (pr_Adj_of_wf (Dense.toG_wf d))
  · intro v hv
    have hv' : v < d.n := hv
    have := h2.deg_eq v hv'
    show d.deg.getD v 0 = pr_deg d.toG.adj (List.range d.n) v
    rw [Array.getD_eq_getD_getElem?, this]
    exact pr_deg_eq d.toG v
  · rw [hn]; exact h4

/-! ## Part 7: every tree has a run -/

/-- the subgraph induced on `S` is a tree: connected inside `S`, and the degrees inside `S` sum to `2 (|S| - 1)` -/
def pr_RelTree (adj : Nat → Nat → Bool) (S : List Nat) : Prop :=
  (∀ a ∈ S, ∀ b ∈ S, Relation.ReflTransGen (fun x y => adj x y = true ∧ x ∈ S ∧ y ∈ S) a b) ∧
    (S.map (pr_deg adj S)).sum + 2 = 2 * S.length

theorem pr_sum_ge {L : List Nat} {f : Nat → Nat} (h : ∀ x ∈ L, 2 ≤ f x) : 2 * L.length ≤ (L.map f).sum := by
  induction L with
  | nil => simp
  | cons x xs ih =>
    have h1 := h x (List.mem_cons_self)
    have h2 := ih (fun y hy => h y (List.mem_cons_of_mem _ hy))
    simp only [List.length_cons, List.map_cons, List.sum_cons]
    omega

/-- in a connected set with at least two vertices every vertex has a neighbour -/
theorem pr_deg_pos {adj : Nat → Nat → Bool} {S : List Nat} (hS : S.Nodup) (hl : 2 ≤ S.length)
    (hc : ∀ a ∈ S, ∀ b ∈ S, Relation.ReflTransGen (fun x y => adj x y = true ∧ x ∈ S ∧ y ∈ S) a b)
    {w : Nat} (hw : w ∈ S) : 0 < pr_deg adj S w := by
  obtain ⟨x, hx, hxw⟩ := pr_exists_notmem (q := [w]) hS (by simp only [List.length_singleton]; omega)
  have hne : w ≠ x := fun e => hxw (by simp [e])
  rcases (hc w hw x hx).cases_head with e | ⟨c, ⟨h1, _, h2⟩, _⟩
  · exact absurd e hne
  · exact List.countP_pos_iff.2 ⟨c, h2, h1⟩

/-- removing a leaf keeps the rest connected -/
theorem pr_conn_drop {adj : Nat → Nat → Bool} (ha : pr_Adj adj) {A B : List Nat} {v u : Nat}
    (hs : (A ++ v :: B).Pairwise (· < ·)) (hv : pr_deg adj (A ++ v :: B) v = 1)
    (hu : u ∈ A ++ B) (huv : adj u v = true)
    (hc : ∀ a ∈ A ++ v :: B, ∀ b ∈ A ++ v :: B,
      Relation.ReflTransGen (fun x y => adj x y = true ∧ x ∈ A ++ v :: B ∧ y ∈ A ++ v :: B) a b) :
    ∀ a ∈ A ++ B, ∀ b ∈ A ++ B,
      Relation.ReflTransGen (fun x y => adj x y = true ∧ x ∈ A ++ B ∧ y ∈ A ++ B) a b := by
  have huS : u ∈ A ++ v :: B := pr_mem_split.2 (Or.inr hu)
  have hvn : v ∉ A ++ B := pr_split_notmem hs
  intro a haS' b hbS'
  have key : ∀ x, Relation.ReflTransGen (fun x y => adj x y = true ∧ x ∈ A ++ v :: B ∧ y ∈ A ++ v :: B) a x →
      (x ≠ v → Relation.ReflTransGen (fun x y => adj x y = true ∧ x ∈ A ++ B ∧ y ∈ A ++ B) a x) ∧
      (x = v → Relation.ReflTransGen (fun x y => adj x y = true ∧ x ∈ A ++ B ∧ y ∈ A ++ B) a u) := by
    intro x hx
    induction hx with
    | refl =>
      exact ⟨fun _ => Relation.ReflTransGen.refl, fun e => absurd (e ▸ haS') hvn⟩
    | @tail x y _ hstep ih =>
      obtain ⟨hxy, hxS, hyS⟩ := hstep
      constructor
      · intro hyv
        have hyS' : y ∈ A ++ B := by
          rcases pr_mem_split.1 hyS with e | e
          · exact absurd e hyv
          · exact e
        by_cases hxv : x = v
        · have : y = u := (pr_leaf_nbr ha hv huS huv hyS).1 (by rw [ha.symm, ← hxv]; exact hxy)
          rw [this]; exact ih.2 hxv
        · have hxS' : x ∈ A ++ B := by
            rcases pr_mem_split.1 hxS with e | e
            · exact absurd e hxv
            · exact e
          exact Relation.ReflTransGen.tail (ih.1 hxv) ⟨hxy, hxS', hyS'⟩
      · intro hyv
        subst hyv
        have hxv : x ≠ y := by
          intro e; subst e; rw [ha.irrefl] at hxy; cases hxy
        have : x = u := (pr_leaf_nbr ha hv huS huv hxS).1 hxy
        rw [← this]; exact ih.1 hxv
  exact (key b (hc a (pr_mem_split.2 (Or.inr haS')) b (pr_mem_split.2 (Or.inr hbS')))).1
    (fun e => hvn (e ▸ hbS'))

/-- removing a leaf lowers the degree sum by two -/
theorem pr_sum_drop {adj : Nat → Nat → Bool} (ha : pr_Adj adj) {A B : List Nat} {v : Nat}
    (hv : pr_deg adj (A ++ v :: B) v = 1) :
    ((A ++ v :: B).map (pr_deg adj (A ++ v :: B))).sum = ((A ++ B).map (pr_deg adj (A ++ B))).sum + 2 := by
  have e1 : ((A ++ v :: B).map (pr_deg adj (A ++ v :: B))).sum =
      ((A ++ B).map (pr_deg adj (A ++ v :: B))).sum + 1 := by
    simp only [List.map_append, List.map_cons, List.sum_append, List.sum_cons, hv]; omega
  have e2 : (A ++ B).map (pr_deg adj (A ++ v :: B)) =
      (A ++ B).map (fun w => pr_deg adj (A ++ B) w + if adj w v then 1 else 0) :=
    List.map_congr_left (fun w _ => pr_deg_split adj A B v w)
  have e3 : (A ++ B).countP (fun w => adj w v) = 1 := by
    have h1 := pr_deg_split adj A B v v
    rw [hv, ha.irrefl] at h1
    have h2 : (A ++ B).countP (fun w => adj w v) = pr_deg adj (A ++ B) v := by
      unfold pr_deg
      apply List.countP_congr
      intro w _
      rw [ha.symm]
    rw [h2]; simpa using h1.symm
  rw [e1, e2, pr_sum_map_add, pr_sum_ite, e3]

/-- every tree has a leaf-removal run -/
theorem pr_run_of_tree {adj : Nat → Nat → Bool} (ha : pr_Adj adj) :
    ∀ (k : Nat) (S : List Nat), S.length = k + 2 → S.Pairwise (· < ·) → pr_RelTree adj S → ∃ q, pr_Run adj S q := by
  intro k
  induction k with
  | zero =>
    intro S hl hs ht
    rcases S with _ | ⟨a, _ | ⟨b, _ | ⟨c, S⟩⟩⟩ <;> simp only [List.length_cons, List.length_nil] at hl <;> try omega
    have hab : a < b := by simpa using hs
    refine ⟨[], pr_Run.base a b hab ?_⟩
    rcases (ht.1 a (by simp) b (by simp)).cases_head with e | ⟨c, ⟨h1, _, h2⟩, _⟩
    · omega
    · simp only [List.mem_cons, List.not_mem_nil, or_false] at h2
      rcases h2 with rfl | rfl
      · rw [ha.irrefl] at h1; cases h1
      · exact h1
  | succ k ih =>
    intro S hl hs ht
    have hnd := pr_sorted_nodup hs
    have hpos : ∀ w ∈ S, 0 < pr_deg adj S w := fun w hw => pr_deg_pos hnd (by omega) ht.1 hw
    cases hf : S.find? (fun w => pr_deg adj S w == 1) with
    | none =>
      rw [List.find?_eq_none] at hf
      have := pr_sum_ge (L := S) (f := pr_deg adj S) (by
        intro x hx
        have h1 := hf x hx
        have h2 := hpos x hx
        simp only [beq_iff_eq] at h1
        omega)
      have := ht.2
      omega
    | some v =>
      obtain ⟨hv, A, B, rfl, hA⟩ := List.find?_eq_some_iff_append.1 hf
      have hv1 : pr_deg adj (A ++ v :: B) v = 1 := by simpa using hv
      have hA1 : ∀ a ∈ A, pr_deg adj (A ++ v :: B) a ≠ 1 := by intro a haA; simpa using hA a haA
      have hvS : v ∈ A ++ v :: B := pr_mem_split.2 (Or.inl rfl)
      have hB : B ≠ [] := by
        rintro rfl
        have h1 := pr_sum_ge (L := A) (f := pr_deg adj (A ++ [v])) (by
          intro x hx
          have h1 := hA1 x hx
          have h2 := hpos x (List.mem_append_left _ hx)
          omega)
        have h2 := ht.2
        simp only [List.map_append, List.map_cons, List.map_nil, List.sum_append, List.sum_cons, List.sum_nil,
          hv1, List.length_append, List.length_cons, List.length_nil] at h2
        omega
      obtain ⟨u, huS, hvu⟩ := List.countP_pos_iff.1 (hpos v hvS)
      have huv : adj u v = true := by rw [ha.symm]; exact hvu
      have hu : u ∈ A ++ B := by
        rcases pr_mem_split.1 huS with e | e
        · subst e; rw [ha.irrefl] at huv; cases huv
        · exact e
      have ht' : pr_RelTree adj (A ++ B) := by
        refine ⟨pr_conn_drop ha hs hv1 hu huv ht.1, ?_⟩
        have h1 := pr_sum_drop ha hv1
        have h2 := ht.2
        simp only [List.length_append, List.length_cons] at h2 ⊢
        omega
      obtain ⟨q, hq⟩ := ih (A ++ B) (by simp only [List.length_append, List.length_cons] at hl ⊢; omega)
        (pr_sorted_drop hs) ht'
      exact ⟨u :: q, pr_Run.step A B v u q hs hA1 hv1 hB hu huv hq⟩

theorem pr_relTree_of_isTree {g : G} (h : IsTree g) : pr_RelTree g.adj (List.range g.n) := by
  obtain ⟨hwf, hm, hc⟩ := h
  refine ⟨?_, ?_⟩
  · intro a ha b hb
    refine Relation.ReflTransGen.mono ?_ _ _ (hc a b (List.mem_range.1 ha) (List.mem_range.1 hb))
    intro x y hxy
    have := hwf.supp x y hxy
    exact ⟨hxy, List.mem_range.2 this.1, List.mem_range.2 this.2⟩
  · have e : (List.range g.n).map g.deg = (List.range g.n).map (pr_deg g.adj (List.range g.n)) :=
      List.map_congr_left (fun v _ => pr_deg_eq g v)
    rw [← e, pr_handshake g hwf, List.length_range]
    omega

/-- a labelled tree on `0..n-1` (`n ≥ 2`) has a leaf-removal run on `0..n-1` -/
theorem pr_run_of_isTree {g : G} (h : IsTree g) (hn : 2 ≤ g.n) : ∃ q, pr_Run g.adj (List.range g.n) q :=
  pr_run_of_tree (pr_Adj_of_wf h.1) (g.n - 2) (List.range g.n) (by rw [List.length_range]; omega)
    List.pairwise_lt_range (pr_relTree_of_isTree h)

/-! ## Part 8: encoding a tree -/

/-- encoding a tree performs a run on `0..n-1` -/
theorem pr_encode_runs (g : GI) (hs : g.Sound) (ht : IsTree g.toG) (hn : 2 ≤ g.n) :
    ∃ p, pruferEncode g = .ok p ∧ pr_Run g.isEdge (List.range g.n) p := by
  obtain ⟨q, hq⟩ := pr_run_of_isTree ht hn
  have hq' : pr_Run g.isEdge (List.range g.n) q := hq
  refine ⟨q, ?_, hq'⟩
  apply pr_encode_run g hn (pr_Adj_of_wf hs.wf) _ hq'
  intro v hv
  rw [hs.deg_eq v hv]
  exact pr_deg_eq g.toG v

/-- (4) encoding a tree never fails and gives a code of length n-2 over 0..n-1 -/
theorem prufer_encode_ok (g : GI) (hs : g.Sound) (ht : IsTree g.toG) (hn : 2 ≤ g.n) :
    ∃ p, pruferEncode g = .ok p ∧ p.length = g.n - 2 ∧ ∀ x ∈ p, x < g.n := by
  obtain ⟨p, h1, h2⟩ := pr_encode_runs g hs ht hn
  refine ⟨p, h1, ?_, fun x hx => List.mem_range.1 (h2.sub x hx)⟩
  have := h2.length
  rw [List.length_range] at this
  omega

/-- (5) tree → code → tree -/
theorem prufer_encode_decode (g : GI) (hs : g.Sound) (ht : IsTree g.toG) (hn : 2 ≤ g.n) :
    ∃ p d, pruferEncode g = .ok p ∧ pruferDecode p = .ok d ∧ d.n = g.n ∧ ∀ u v, d.toG.adj u v = g.isEdge u v := by
  obtain ⟨p, h1, h2⟩ := pr_encode_runs g hs ht hn
  have hl : p.length + 2 = g.n := by
    have := h2.length
    rw [List.length_range] at this
    omega
  obtain ⟨d, h3, _, h5, h6⟩ := pr_decode_spec p (fun x hx => by rw [hl]; exact List.mem_range.1 (h2.sub x hx))
  refine ⟨p, d, h1, h3, h5.trans hl, ?_⟩
  rw [hl] at h6
  have hspec := h2.spec (pr_Adj_of_wf hs.wf)
  have hG := Dense.toG_wf d
  have hdn : d.toG.n = g.n := h5.trans hl
  intro u v
  rw [Bool.eq_iff_iff]
  by_cases hu : u < g.n
  · by_cases hv : v < g.n
    · rw [h6]; exact (hspec u (List.mem_range.2 hu) v (List.mem_range.2 hv)).symm
    · constructor
      · intro h; exact absurd (hdn ▸ (hG.supp u v h).2) hv
      · intro h; exact absurd (hs.wf.supp u v h).2 hv
  · constructor
    · intro h; exact absurd (hdn ▸ (hG.supp u v h).1) hu
    · intro h; exact absurd (hs.wf.supp u v h).1 hu

-- test (sanity check of the model only; the theorems above are general)
example : pruferDecode [3, 3, 3] =
    .ok { n := 5, m := 4, deg := #[1, 1, 1, 4, 1], edges := #[0, 0, 0, 1, 1, 1, 0, 0, 0, 1] } := by decide

end Codec
