import Mamba.Lemmas.DsaturC1
/-! DSATUR model: the forward step keeps the search-completeness invariant. -/
namespace CliqueColour
open GraphSpec

theorem forward_CInv {g : G} (hw : g.WF) {U0 : Nat} {s : Dsat} (h : DSInv g U0 s) (hc : CInv g s) {v : Nat}
    {t : List Nat} (hheap : s.heap = v :: t) {tc : Nat} {rest : List Nat} (hopt : dsOptions s v = tc :: rest) :
    CInv g (dsForward g { s with heap := heapRemove0 s.num s.deg s.heap } v (tc :: rest) tc) ∧
      (ColUp s → ColUp (dsForward g { s with heap := heapRemove0 s.num s.deg s.heap } v (tc :: rest) tc)) ∧
      (dsForward g { s with heap := heapRemove0 s.num s.deg s.heap } v (tc :: rest) tc).upper = s.upper ∧
      (dsForward g { s with heap := heapRemove0 s.num s.deg s.heap } v (tc :: rest) tc).best = s.best ∧
      (dsForward g { s with heap := heapRemove0 s.num s.deg s.heap } v (tc :: rest) tc).chosen = s.chosen ++ [v] ∧
      (dsForward g { s with heap := heapRemove0 s.num s.deg s.heap } v (tc :: rest) tc).cur = s.cur ++ [0] ∧
      (dsForward g { s with heap := heapRemove0 s.num s.deg s.heap } v (tc :: rest) tc).choices =
        s.choices ++ [tc :: rest] := by
  have htcmem : tc ∈ dsOptions s v := by rw [hopt]; exact List.mem_cons_self
  obtain ⟨_, htc2, _⟩ := mem_dsOptions.1 htcmem
  have hup := h.uple
  obtain ⟨r, hr, _, _, hch, hcur, hcho, hcolr, _, hupp, hbest, _, _, _⟩ :=
    dsForward_facts g h hheap (tc :: rest) (by omega : tc + 2 ≤ U0)
  rw [hr]
  have hvheap : v ∈ s.heap := by rw [hheap]; exact List.mem_cons_self
  obtain ⟨hvn, hvch⟩ := (h.hmem v).1 hvheap
  have hcol : ∀ w, colOf r w = if w = v then (tc : Int) else colOf s w := by
    intro w
    unfold colOf
    rw [hcolr]
    exact colOf_set s v tc (by rw [h.lcol]; exact hvn) w
  have hcolch : ∀ w ∈ s.chosen, colOf r w = colOf s w := by
    intro w hwc
    have hne : w ≠ v := fun e => hvch (by rw [← e]; exact hwc)
    rw [hcol w, if_neg hne]
  have hcolv : colOf r v = (tc : Int) := by rw [hcol v, if_pos rfl]
  have hextr : ∀ (ws : List Nat) f, (∀ w ∈ ws, w ∈ s.chosen) → Ext s ws f → Ext r ws f := by
    intro ws f hsub he w hwm
    rw [hcolch w (hsub w hwm)]; exact he w hwm
  refine ⟨?_, ?_, hupp, hbest, hch, hcur, hcho⟩
  · intro u hu hex
    rw [hupp] at hu
    obtain ⟨f', hf', hopen⟩ := hc u hu hex
    rcases hopen with he | ⟨i, t', hi, hcur', ht', he, hfe⟩
    · obtain ⟨f'', hf'', he'', hmem⟩ := node_local hw h hvheap hu hf' he
      rw [hopt] at hmem
      refine ⟨f'', hf'', ?_⟩
      obtain ⟨p, hp, hpe⟩ := mem_iff_getD.1 hmem
      by_cases hp0 : p = 0
      · subst hp0
        left
        rw [hch]
        intro w hwm
        rcases List.mem_append.1 hwm with h1 | h1
        · rw [hcolch w h1]; exact he'' w h1
        · have : w = v := by simpa using h1
          subst this
          rw [hcolv, ← hpe]; simp
      · right
        refine ⟨s.chosen.length, p, by rw [hch]; simp, ?_, ?_, ?_, ?_⟩
        · rw [hcur, ← h.lcur, getD_append_len]; omega
        · rw [hcho, ← h.lcho, getD_append_len]; exact hp
        · rw [hch, take_append_le _ (Nat.le_refl _), List.take_length]
          exact hextr _ _ (fun w hwm => hwm) he''
        · rw [hch, getD_append_len, hcho, ← h.lcho, getD_append_len]; exact hpe.symm
    · refine ⟨f', hf', Or.inr ⟨i, t', by rw [hch]; simp; omega, ?_, ?_, ?_, ?_⟩⟩
      · rw [hcur, getD_append_lt _ _ (by rw [h.lcur]; exact hi)]; exact hcur'
      · rw [hcho, getD_append_lt _ _ (by rw [h.lcho]; exact hi)]; exact ht'
      · rw [hch, take_append_le _ (by omega)]
        exact hextr _ _ (fun w hwm => List.mem_of_mem_take hwm) he
      · rw [hch, getD_append_lt _ _ hi, hcho, getD_append_lt _ _ (by rw [h.lcho]; exact hi)]; exact hfe
  · intro hcu w hwm
    rw [hch] at hwm
    rw [hupp]
    rcases List.mem_append.1 hwm with h1 | h1
    · rw [hcolch w h1]; exact hcu w h1
    · have : w = v := by simpa using h1
      subst this
      rw [hcolv]; omega

end CliqueColour
