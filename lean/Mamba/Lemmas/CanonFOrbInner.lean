import Mamba.Lemmas.CanonFOrbBase
import Mamba.Lemmas.CanonFOrbTree
import Mamba.Lemmas.CanonFOrbRel
/-!
# Orbit completeness (A-layer) through `na`, `deage`, `noskip`, the inner-node step and the leaf "better than the best"
-/
namespace CanonF

/-- `GlobalA` only reads `count`, `firstLeaf`, `currentBest`, `bestPerm`, `flOrbits`, `gens`, `ngens` -/
theorem oi_globalA_congr {n : Nat} {gh : Gh} {s s' : LS} (h : GlobalA n gh s) (e1 : s'.count = s.count)
    (e2 : s'.firstLeaf = s.firstLeaf) (e3 : s'.currentBest = s.currentBest) (e4 : s'.bestPerm = s.bestPerm)
    (e5 : s'.flOrbits = s.flOrbits) (e6 : s'.gens = s.gens) (e7 : s'.ngens = s.ngens) : GlobalA n gh s' := by
  constructor
  · rw [e1, e2, e3]; exact h.bgf
  · rw [e1, e2, e3, e4, ORel_congr e5]; exact h.bestA
  · rw [ORel_congr e5]; exact h.bgsM
  · rw [e6, e7, ORel_congr e5]; exact h.gensM

section
variable {n m : Nat} {nb : Nbrs} {rf : Nat} {r : IR.St}
  (hnb : NbOK nb n) (hsz : nb.size = n) (hm : m = ((nb.toList.map List.length).sum) / 2) (hrf : 3 * n + 3 ≤ rf)
  (hA : IR.InvA (irG n nb) r) (hD : IR.InvD (irG n nb) r)
  (hlenm : ∀ o : List Nat, o.Perm (List.range n) → (certPos nb o n).length = m)

theorem orb_na (gh : Gh) (lv : List (Nat × Nat)) (s : LS) (hDv : DNv n nb rf r gh lv s) (hAv : ANv n nb rf r gh lv s) :
    AAv n nb rf r gh lv s := by
  obtain ⟨a1, a2, a3⟩ := hAv
  refine ⟨a1, a2, a3, ?_⟩
  intro hp
  obtain ⟨⟨_, _, h3, _⟩, _⟩ := hDv
  rw [hp] at h3
  simp at h3

theorem orb_deage (gh : Gh) (lv : List (Nat × Nat)) (s : LS) (op' : OP) (hAv : AAv n nb rf r gh lv s) :
    ANv n nb rf r gh lv { s with op := op' } := by
  obtain ⟨a1, a2, a3, _⟩ := hAv
  exact ⟨oi_globalA_congr a1 rfl rfl rfl rfl rfl rfl rfl,
    ACovFrames.congr (s := s) (s' := { s with op := op' }) rfl rfl (fun _ => rfl) rfl true _ _ _ (fun _ _ => rfl) a2,
    FrameAuxA.congr (s := s) (s' := { s with op := op' }) rfl rfl rfl true _ _ _ (fun _ _ => rfl) a3⟩

theorem orb_noskip (gh : Gh) (lv : List (Nat × Nat)) (s : LS) (hAv : ANv n nb rf r gh lv s) :
    ANv n nb rf r gh lv { s with skipDeage := false } := by
  obtain ⟨a1, a2, a3⟩ := hAv
  exact ⟨oi_globalA_congr a1 rfl rfl rfl rfl rfl rfl rfl,
    ACovFrames.congr (s := s) (s' := { s with skipDeage := false }) rfl rfl (fun _ => rfl) rfl true _ _ _
      (fun _ _ => rfl) a2,
    FrameAuxA.congr (s := s) (s' := { s with skipDeage := false }) rfl rfl rfl true _ _ _ (fun _ _ => rfl) a3⟩

set_option linter.unusedVariables false in
/-- node step, inner node: a frame is pushed, nothing of it is processed, its node is on neither stored path -/
theorem orb_inner (gh : Gh) (lv : List (Nat × Nat)) (s s1 : LS) (hI : MInv n m nb s)
    (hlv : LevelsOK s.op s.path s.choices lv) (hnl : s.op.binDividers.len ≠ n)
    (hJ : CertM n m nb lv false s) (hDv : DNodev n nb rf r gh lv s) (hAv : ANodev n nb rf r gh lv s)
    (hs1 : innerNode s = .ok s1)
    (lv1 : List (Nat × Nat)) (hl1 : LevelsOK s1.op s1.path s1.choices lv1) (hDv' : DNv n nb rf r gh lv1 s1) :
    ANv n nb rf r gh lv1 s1 := by
  obtain ⟨hw, _, _, _, hoff⟩ := hDv
  obtain ⟨a1, a2, a3⟩ := hAv
  obtain ⟨st, sz, e, hl', _, _, _⟩ := innerNode_spec hI.core hlv hI.age hnl hs1
  subst e
  have elv : lv1 = (st, sz) :: lv := LevelsOK_unique _ _ _ _ hl1 hl'
  subst elv
  obtain ⟨_, _, h3, _⟩ := hw
  -- the length of the target cell, from the D-layer after the step
  obtain ⟨⟨_, _, _, _, h5', _⟩, _⟩ := hDv'
  have hlen : (cellL n nb rf r gh.vs s.path.length st).length = sz := by
    have : FramesOK n nb rf r gh.vs (sz :: s.path) ((st + sz) :: s.choices) ((st, sz) :: lv) := h5'
    simp only [FramesOK] at this
    exact this.2.1
  have htk : gh.vs.take s.path.length = gh.vs := by rw [← h3]; exact List.take_length
  have hF : ∀ X : List Nat, gh.vs.take s.path.length = X.take s.path.length → gh.vs = X.take gh.vs.length := by
    intro X hX; rw [htk] at hX; rw [h3]; exact hX
  refine ⟨oi_globalA_congr a1 rfl rfl rfl rfl rfl rfl rfl, acov_push st sz hlen a2, ?_⟩
  refine FrameAuxA.mk (FrameAuxA1.of_off (fun h0 hc => (hoff h0).1 (hF _ hc)) (fun h0 hc => (hoff h0).2 (hF _ hc)))
    (FrameAuxA.congr (s := s)
      (s' := { s with choices := (st + sz) :: s.choices, path := sz :: s.path, skipDeage := true })
      rfl rfl rfl false _ _ _ (fun _ _ => rfl) a3)

end

/-! ## the leaf that becomes the best leaf -/

section
variable {n : Nat} {nb : Nbrs} {rf : Nat} {r : IR.St}

/-- one frame: the current leaf (vertex path `vs`) becomes the best leaf; its certificate is not the first certificate.
`incl = true` (the top frame) needs `ACov` of the current child -/
theorem oi_frameAuxA1 {gh gh' : Gh} {s s' : LS} {vs : List Nat} {incl : Bool} {ps : List Nat} {c st p v : Nat}
    (h : FrameAuxA1 n nb rf r gh s vs false ps c st) (hcp : c = st + p)
    (hv : vs[ps.length]? = some v) (hvc : (cellL n nb rf r vs ps.length st)[p]? = some v)
    (g0 : gh'.oF = gh.oF) (g1 : gh'.vsF = gh.vsF) (g2 : gh'.vsB = vs)
    (hcnt : 0 < s.count) (e1 : s'.firstLeaf = s.firstLeaf) (e2 : s'.flOrbits = s.flOrbits)
    (htop : incl = true → ACov n nb rf (lFof n gh') s'.firstLeaf.toList (ORel s')
      (IR.childSt (irG n nb) rf (nodeL n nb rf r vs ps.length) st v)) :
    FrameAuxA1 n nb rf r gh' s' vs incl ps c st := by
  have hsorted : (cellL n nb rf r vs ps.length st).Pairwise (· < ·) := cellMembers_sorted _ _ _
  have hR : ∀ a b, a < n → b < n → ORel s a b → ORel s' a b := fun a b _ _ hab => by rw [ORel_congr e2]; exact hab
  constructor
  · intro _ hpre i w hi hw hx
    rw [g1] at hpre hx
    by_cases hpi : p < i
    · exact acovb_transfer g0 e1 hR
        (h.abF hcnt hpre i w (by simp only [Bool.false_eq_true, if_false]; omega) hw hx)
    · cases incl with
      | false => simp only [Bool.false_eq_true, if_false] at hi; omega
      | true =>
        simp only [if_true] at hi
        have : i = p := by omega
        subst this
        rw [hvc] at hw; cases hw
        exact htop rfl
  · intro _ _ i w hi hw hx
    rw [g2, hv] at hx
    cases hx
    have hip := la_idx_unique hsorted hw hvc
    subst hip
    cases incl with
    | false => simp only [Bool.false_eq_true, if_false] at hi; omega
    | true => exact htop rfl

/-- the frames below the top frame -/
theorem oi_frameAuxA_low {gh gh' : Gh} {s s' : LS} {vs : List Nat} {op : OP}
    (g0 : gh'.oF = gh.oF) (g1 : gh'.vsF = gh.vsF) (g2 : gh'.vsB = vs)
    (hcnt : 0 < s.count) (e1 : s'.firstLeaf = s.firstLeaf) (e2 : s'.flOrbits = s.flOrbits) :
    ∀ (path choices : List Nat) (lv : List (Nat × Nat)), LevelsOK op path choices lv →
      FramesOK n nb rf r vs path choices lv → path.length ≤ vs.length →
      FrameAuxA n nb rf r gh s vs false path choices lv → FrameAuxA n nb rf r gh' s' vs false path choices lv := by
  intro path
  induction path with
  | nil => intro choices lv _ _ _ h; cases choices <;> cases lv <;> simp_all [FrameAuxA]
  | cons p ps ih =>
    intro choices lv hl hf hlen h
    cases choices with
    | nil => simp [FrameAuxA] at h
    | cons c cs =>
      cases lv with
      | nil => simp [FrameAuxA] at h
      | cons x ls =>
        obtain ⟨st, sz⟩ := x
        simp only [LevelsOK] at hl
        obtain ⟨_, _, tc, _, tl⟩ := hl
        simp only [FramesOK] at hf
        obtain ⟨_, _, f3, f4⟩ := hf
        simp only [List.length_cons] at hlen
        have hL : ps.length < vs.length := by omega
        obtain ⟨f3a, _⟩ := f3 hL
        have hv : vs[ps.length]? = some (vs[ps.length]) := List.getElem?_eq_getElem hL
        exact FrameAuxA.mk (oi_frameAuxA1 (incl := false) h.head tc hv (by rw [← f3a]; exact hv) g0 g1 g2 hcnt e1 e2
          (fun hc => by cases hc)) (ih cs ls tl f4 (by omega) h.tail)

end

section
variable {n m : Nat} {nb : Nbrs} {rf : Nat} {r : IR.St}
  (hnb : NbOK nb n) (hsz : nb.size = n) (hm : m = ((nb.toList.map List.length).sum) / 2) (hrf : 3 * n + 3 ≤ rf)
  (hA : IR.InvA (irG n nb) r) (hD : IR.InvD (irG n nb) r)
  (hlenm : ∀ o : List Nat, o.Perm (List.range n) → (certPos nb o n).length = m)

set_option linter.unusedVariables false in
set_option maxHeartbeats 1000000 in
include hnb hA hD hlenm in
/-- a leaf better than `currentBest` (not the first): its certificate is not the first certificate, so it is covered
vacuously -/
theorem orb_leaf_accept (gh : Gh) (lv : List (Nat × Nat)) (s s1 : LS) (hI : MInv n m nb s)
    (hlv : LevelsOK s.op s.path s.choices lv) (hleaf : s.op.binDividers.len = n)
    (hJ : CertM n m nb lv false s) (hDv : DNodev n nb rf r gh lv s) (hAv : ANodev n nb rf r gh lv s)
    (hs1 : leafNode n m s = .ok s1) (hJ1 : CertA n m nb lv s1) (hcnt : 0 < s.count)
    (hcmp : compare s.op.value.toList s.currentBest.toList = 1)
    (lv1 : List (Nat × Nat)) (hl1 : LevelsOK s1.op s1.path s1.choices lv1)
    (hDv' : DAv n nb rf r { gh with vs := gh.vs.dropLast, vsB := gh.vs, bgs := [] } lv1 s1) :
    AAv n nb rf r { gh with vs := gh.vs.dropLast, vsB := gh.vs, bgs := [] } lv1 s1 := by
  obtain ⟨_, _, _, cb, bpi, rfl, hcbT, _, _⟩ :=
    dfs_leaf_accept_v hnb hA hD hlenm lv s s1 gh hI hlv hleaf hJ hDv hs1 hJ1 hcnt hcmp
  have elv : lv = lv1 := LevelsOK_unique _ _ _ _ hlv hl1
  subst elv
  obtain ⟨hw, hG, _, _, hoff⟩ := hDv
  obtain ⟨a1, a2, a3⟩ := hAv
  obtain ⟨_, _, hvn, _⟩ := hJ
  obtain ⟨hvc, hspl⟩ := leaf_clean hI.core.part hleaf (hvn rfl)
  have hval : s.op.value.toList = certPos nb s.op.order.toList n := by rw [← hspl]; exact hvc.val
  obtain ⟨h1, h2, h3, h4, h5, h6, h7⟩ := hw
  have hmt : Match n s.op (nodeL n nb rf r gh.vs gh.vs.length) :=
    (h4 gh.vs.length (Nat.le_refl _)).toMatch hI.core.part hI.core.age (by omega) h7
  have hne : s.path ≠ [] := by
    intro he
    have hv0 : gh.vs = [] := List.eq_nil_of_length_eq_zero (by rw [h3, he]; rfl)
    exact (hoff hcnt).1 (by rw [hv0]; rfl)
  -- the new best certificate is larger than the first certificate
  have hbv : compare s.currentBest.toList s.op.value.toList = -1 := (compare_eq_neg_one_iff _ _).2 hcmp
  have hfv : compare s.firstLeaf.toList s.op.value.toList = -1 := compare_trans_le_lt _ _ _ (a1.bgf hcnt) hbv
  have hfne : s.op.value.toList ≠ s.firstLeaf.toList := by
    intro e; rw [e, compare_self] at hfv; cases hfv
  have hlast : ∀ L, L < s.path.length → gh.vs.dropLast.take L = gh.vs.take L :=
    fun L hL => take_dropLast gh.vs (by omega)
  -- the leaf is covered vacuously, for every relation and first-leaf colouring
  have hleafA : ∀ (lF : Array Nat) (R : Nat → Nat → Prop),
      ACov n nb rf lF s.firstLeaf.toList R (nodeL n nb rf r gh.vs gh.vs.length) := by
    intro lF R
    refine acov_leaf (rf := rf) (lF := lF) (R := R) (target_none (nb := nb) hI.core.part hmt hleaf) (fun hc => ?_)
    exfalso
    apply hfne
    rw [← hc, hmt.col, leaf_colOf hI.core.part hleaf, cert_link hnb hI.core.part.perm, hval]
  -- frame data
  have key : ∀ (gh' : Gh) (s' : LS), gh'.oF = gh.oF → gh'.vsF = gh.vsF → gh'.vsB = gh.vs →
      s'.firstLeaf = s.firstLeaf → s'.flOrbits = s.flOrbits → (∀ qs, onFirstB s' qs = onFirstB s qs) →
      ACovFrames n nb rf r gh' s' gh.vs true s.path s.choices lv ∧
      FrameAuxA n nb rf r gh' s' gh.vs true s.path s.choices lv := by
    intro gh' s' g0 g1 g2 e1 e2 e3
    have hcovc := ACovFrames.congr (gh := gh) (gh' := gh') (s := s) (s' := s') (vs := gh.vs) (vs' := gh.vs) g0 e1 e3 e2
      false s.path s.choices lv (fun _ _ => rfl) a2
    cases hpth : s.path with
    | nil => exact absurd hpth hne
    | cons p ps =>
      rw [hpth] at hlv h5 a3 h3 hcovc
      obtain ⟨c, cs, st, sz, ls, hch, rfl, tc⟩ := la_levelsOK_ne hlv
      rw [hch] at hlv h5 a3 hcovc ⊢
      simp only [LevelsOK] at hlv
      simp only [FramesOK] at h5
      obtain ⟨f1, _, f3, f4⟩ := h5
      simp only [List.length_cons] at h3
      have hL : ps.length < gh.vs.length := by omega
      obtain ⟨f3a, _⟩ := f3 hL
      have hv : gh.vs[ps.length]? = some (gh.vs[ps.length]) := List.getElem?_eq_getElem hL
      have hn := nodeL_succ h1 hv f1
      have hchild : ACov n nb rf (lFof n gh') s'.firstLeaf.toList (ORel s')
          (IR.childSt (irG n nb) rf (nodeL n nb rf r gh.vs ps.length) st (gh.vs[ps.length])) := by
        rw [← hn, ← h3, e1]; exact hleafA _ _
      constructor
      · refine hcovc.finish_child (fun w hw' => ?_)
        rw [show c - st = p by omega, ← f3a, hv] at hw'
        cases hw'
        exact Or.inl hchild
      · exact FrameAuxA.mk (oi_frameAuxA1 (incl := true) a3.head tc hv (by rw [← f3a]; exact hv) g0 g1 g2 hcnt e1 e2
          (fun _ => hchild))
          (oi_frameAuxA_low g0 g1 g2 hcnt e1 e2 ps cs ls hlv.2.2.2.2 f4 (by omega) a3.tail)
  obtain ⟨k1, k2⟩ := key { gh with vs := gh.vs.dropLast, vsB := gh.vs, bgs := [] }
    { s with count := s.count + 1, currentBest := cb, bestPath := s.bestPath.copyFrom s.path.reverse,
             bestPerm := s.bestPerm.copyFrom s.op.order.toList, bestPermInv := bpi, bestOrbits := Disjoint.new n }
    rfl rfl rfl rfl rfl (onFirstB_count_succ hcnt rfl rfl)
  refine ⟨?_, ?_, ?_, fun hp => absurd hp hne⟩
  · constructor
    · intro _
      show compare s.firstLeaf.toList cb.toList ≠ 1
      rw [hcbT, hfv]; decide
    · intro _ e
      exfalso
      have e' : cb.toList = s.firstLeaf.toList := e
      rw [hcbT] at e'
      exact hfne e'
    · intro γ hγ; cases hγ
    · exact a1.gensM
  · exact ACovFrames.congr rfl rfl (fun _ => rfl) rfl true s.path s.choices lv hlast k1
  · exact FrameAuxA.congr rfl rfl rfl true s.path s.choices lv hlast k2

end
end CanonF
