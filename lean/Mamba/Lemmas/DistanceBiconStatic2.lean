import Mamba.Lemmas.DistanceBiconStatic1
/-!
# Blocks returned by the model: every edge in exactly one block, every block connected
-/
namespace GDist
open GraphSpec Model

theorem strict_sorted_ext {S L : List Nat} (hS : S.Pairwise (· < ·)) (hL : L.Pairwise (· < ·))
    (hmem : ∀ x, x ∈ S ↔ x ∈ L) : S = L := by
  have ndS : S.Nodup := hS.imp (fun h => Nat.ne_of_lt h)
  have ndL : L.Nodup := hL.imp (fun h => Nat.ne_of_lt h)
  have hperm : S.Perm L := (List.perm_ext_iff_of_nodup ndS ndL).2 hmem
  refine List.Perm.eq_of_pairwise ?_ hS hL hperm
  intro a b _ _ h1 h2
  omega

theorem forall₂_mem_left {α β : Type} {R : α → β → Prop} : ∀ {l1 : List α} {l2 : List β},
    List.Forall₂ R l1 l2 → ∀ a ∈ l1, ∃ b ∈ l2, R a b
  | _, _, .nil, a, ha => by cases ha
  | _, _, .cons hr ht, a, ha => by
    rcases List.mem_cons.1 ha with rfl | ha
    · exact ⟨_, List.mem_cons_self, hr⟩
    · obtain ⟨b, hb, hab⟩ := forall₂_mem_left ht a ha
      exact ⟨b, List.mem_cons_of_mem _ hb, hab⟩

theorem forall₂_mem_right {α β : Type} {R : α → β → Prop} : ∀ {l1 : List α} {l2 : List β},
    List.Forall₂ R l1 l2 → ∀ b ∈ l2, ∃ a ∈ l1, R a b
  | _, _, .nil, b, hb => by cases hb
  | _, _, .cons hr ht, b, hb => by
    rcases List.mem_cons.1 hb with rfl | hb
    · exact ⟨_, List.mem_cons_self, hr⟩
    · obtain ⟨a, ha, hab⟩ := forall₂_mem_right ht b hb
      exact ⟨a, List.mem_cons_of_mem _ ha, hab⟩

variable {g : G} {com : List Nat}

/-- the local vertex list of a block given by its global list -/
def localOf (com : List Nat) (b : List Nat) : List Nat :=
  (List.range com.length).filter fun y => decide (com.getD y 0 ∈ b)

theorem mem_localOf {b : List Nat} {y : Nat} : y ∈ localOf com b ↔ (y < com.length ∧ com.getD y 0 ∈ b) := by
  simp [localOf]

theorem localOf_nodup (b : List Nat) : (localOf com b).Nodup := List.nodup_range.filter _

/-- membership in the local list of a block described by `IsBlk` -/
theorem mem_localOf_isBlk (gc : GoodCom g com) {st : BicSt} {tp : Nat → Nat} (df : DFinal (g.induced com) st tp)
    {b : List Nat} {c : Nat} (hb : IsBlk (g.induced com) com st tp b c) (w : Nat) :
    w ∈ localOf com b ↔ (w < (g.induced com).n ∧ InBlk st tp c w) := by
  have emb := goodCom_emb gc
  have hn : (g.induced com).n = com.length := rfl
  rw [mem_localOf, hb.2.2 (com.getD w 0), hn]
  constructor
  · rintro ⟨hw, y, hy, _, hyw, hor⟩
    have : y = w := emb.inj y w hy hw hyw
    subst this
    exact ⟨hw, hor⟩
  · rintro ⟨hw, hor⟩
    exact ⟨hw, w, hw, df.hall w hw, rfl, hor⟩

/-- what milestone (5) says about the blocks of one component -/
structure CompBlocks5 (g : G) (com : List Nat) (new : List (List Nat)) : Prop where
  sub : ∀ b ∈ new, ∀ x ∈ b, x ∈ com
  conn : ∀ b ∈ new, ∀ x ∈ b, ∀ y ∈ b, ReachIn g b x y
  edge : ∀ x y, x ∈ com → y < g.n → g.adj x y = true →
    ∃ b ∈ new, x ∈ b ∧ y ∈ b ∧ ∀ b' ∈ new, x ∈ b' → y ∈ b' → b' = b

theorem compBlocks5 (gc : GoodCom g com) (hsym : ∀ u v, g.adj u v = g.adj v u)
    (hirr : ∀ v, g.adj v v = false) {st : BicSt} {tp : Nat → Nat} (df : DFinal (g.induced com) st tp)
    {new : List (List Nat)} (hB : BlocksOf (g.induced com) com st tp new) : CompBlocks5 g com new := by
  have emb := goodCom_emb gc
  have hn : (g.induced com).n = com.length := rfl
  have hsymh := induced_symm hsym com
  have hirrh := induced_irrefl hirr com
  have hidx : ∀ x ∈ com, ∃ a, a < com.length ∧ com.getD a 0 = x := by
    intro x hx
    obtain ⟨a, ha, hax⟩ := List.getElem_of_mem hx
    exact ⟨a, ha, by rw [getD_eq_getElem' ha]; exact hax⟩
  rcases hB with ⟨hn1, rfl⟩ | ⟨hn2, ls, hF, hnd, hls⟩
  · rw [hn] at hn1
    have h0m : com.getD 0 0 ∈ com := by
      rw [getD_eq_getElem' (by omega)]; exact List.getElem_mem _
    have hcom : ∀ x ∈ com, x = com.getD 0 0 := by
      intro x hx
      obtain ⟨a, ha, hax⟩ := hidx x hx
      have : a = 0 := by omega
      subst this; exact hax.symm
    refine ⟨?_, ?_, ?_⟩
    · intro b hb x hx
      simp at hb; subst hb
      simp at hx; subst hx; exact h0m
    · intro b hb x hx y hy
      simp at hb; subst hb
      simp at hx hy; subst hx; subst hy
      exact ReachIn.refl (by simp)
    · intro x y hx hy hadj
      exfalso
      have hyc := gc.closed x hx y hadj hy
      rw [hcom x hx, hcom y hyc, hirr] at hadj
      cases hadj
  · have hblk : ∀ b ∈ new, ∃ c, Ldr (g.induced com) st tp c ∧ IsBlk (g.induced com) com st tp b c := by
      intro b hb
      obtain ⟨c, hc, hbc⟩ := forall₂_mem_left hF b hb
      exact ⟨c, (hls c).1 hc, hbc⟩
    refine ⟨?_, ?_, ?_⟩
    · intro b hb x hx
      obtain ⟨c, _, hbc⟩ := hblk b hb
      obtain ⟨y, hy, _, hyx, _⟩ := (hbc.2.2 x).1 hx
      rw [← hyx, getD_eq_getElem' hy]; exact List.getElem_mem _
    · intro b hb x hx y hy
      obtain ⟨c, hc, hbc⟩ := hblk b hb
      obtain ⟨a, ha, hav, hax, hao⟩ := (hbc.2.2 x).1 hx
      obtain ⟨a', ha', hav', hay, hao'⟩ := (hbc.2.2 y).1 hy
      have hmemB := mem_localOf_isBlk gc df hbc
      have hr := df.block_connected hsymh hc (localOf com b) hmemB a ((hmemB a).2 ⟨ha, hao⟩) a'
        ((hmemB a').2 ⟨ha', hao'⟩)
      obtain ⟨k, hk⟩ := hr
      rw [← hax, ← hay]
      exact ⟨k, walk_h_to_g gc (fun z hz => mem_localOf.1 hz) hk⟩
    · intro x y hx hy hadj
      have hyc := gc.closed x hx y hadj hy
      obtain ⟨a, ha, hax⟩ := hidx x hx
      obtain ⟨a', ha', hay⟩ := hidx y hyc
      have hadjh : (g.induced com).adj a a' = true := by
        rw [emb.adj a a' ha ha', hax, hay]; exact hadj
      obtain ⟨l, hl, hla, hla', huniq⟩ := df.edge_block hsymh hirrh (x := a) (y := a') ha ha' hadjh
      obtain ⟨b, hb, hbl⟩ := forall₂_mem_right hF l ((hls l).2 hl)
      refine ⟨b, hb, (hbl.2.2 x).2 ⟨a, ha, df.hall a ha, hax, hla⟩,
        (hbl.2.2 y).2 ⟨a', ha', df.hall a' ha', hay, hla'⟩, ?_⟩
      intro b' hb' hxb' hyb'
      obtain ⟨c', hc', hbc'⟩ := hblk b' hb'
      obtain ⟨a1, ha1, _, ha1x, ho1⟩ := (hbc'.2.2 x).1 hxb'
      obtain ⟨a2, ha2, _, ha2y, ho2⟩ := (hbc'.2.2 y).1 hyb'
      have e1 : a1 = a := emb.inj a1 a ha1 ha (by rw [ha1x, hax])
      have e2 : a2 = a' := emb.inj a2 a' ha2 ha' (by rw [ha2y, hay])
      subst e1; subst e2
      have := huniq c' hc' ho1 ho2
      subst this
      exact strict_sorted_ext hbc'.2.1 hbl.2.1 (fun w => by rw [hbc'.2.2 w, hbl.2.2 w])

end GDist
