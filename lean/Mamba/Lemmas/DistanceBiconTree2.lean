import Mamba.Lemmas.DistanceBiconTree
/-!
# Preservation of the DFS-tree invariant by the three state transformers
-/
namespace GDist
open GraphSpec Model

variable {h : G} {st : BicSt} {tp : Nat → Nat}

theorem stackPath_congr {tp tp' : Nat → Nat} : ∀ (l : List Nat), (∀ x ∈ l, tp' x = tp x) →
    StackPath tp l → StackPath tp' l
  | [], _, _ => trivial
  | [_], _, hp => hp
  | x :: y :: t, heq, hp => by
    obtain ⟨h1, h2, h3⟩ := hp
    exact ⟨by rw [heq x List.mem_cons_self]; exact h1, h2,
      stackPath_congr (y :: t) (fun z hz => heq z (List.mem_cons_of_mem _ hz)) h3⟩

theorem dt_descend (hsym : ∀ u v, h.adj u v = h.adj v u) (hirr : ∀ v, h.adj v v = false)
    (dt : DT h st tp) {v u : Nat} {rest cur : List Nat} (hstk : st.toCheck = v :: rest)
    (hu : u < h.n) (hunv : ¬ bvis st u) (hadj : h.adj v u = true)
    (hfirst : ∀ w, h.adj v w = true → w < u → bvis st w)
    (hcur : st.bicoms.getLast? = some cur) :
    DT h (descendSt st v u cur) (Function.update tp u v) := by
  have hvs : v ∈ st.toCheck := by rw [hstk]; exact List.mem_cons_self
  obtain ⟨hvn, hvv⟩ := dt.svis v hvs
  have huD : u < st.depths.size := by rw [dt.ok.dsz]; exact hu
  have huL : u < st.low.size := by rw [dt.ok.lsz]; exact hu
  have huP : u < st.parents.size := by rw [dt.ok.psz]; exact hu
  have hvpos := dt.dnn v hvv
  have hne : ∀ x, bvis st x → x ≠ u := fun x hx h0 => hunv (h0 ▸ hx)
  have hvu : v ≠ u := hne v hvv
  have h0u : (0 : Nat) ≠ u := hne 0 (by unfold bvis; rw [dt.root]; omega)
  have hd : ∀ x, dI (descendSt st v u cur) x = if x = u then dI st v + 1 else dI st x := dI_descendSt huD
  have hvis : ∀ x, bvis (descendSt st v u cur) x ↔ (x = u ∨ bvis st x) := by
    intro x; unfold bvis; rw [hd]
    by_cases hx : x = u
    · simp [hx]; omega
    · simp [hx]
  have htp : ∀ x, x ≠ u → Function.update tp u v x = tp x := fun x hx => by simp [Function.update, hx]
  have htpu : Function.update tp u v u = v := by simp [Function.update]
  have hstack' : (descendSt st v u cur).toCheck = u :: v :: rest := by simp [descendSt, hstk]
  have hunot : u ∉ st.toCheck := fun hm => hunv (dt.svis u hm).2
  refine { ok := bok_descend dt.ok hvn hu hcur hvpos, root := ?_, tp0 := ?_, tree := ?_, dnn := ?_, path := ?_,
           svis := ?_, sdec := ?_, fin := ?_, nocross := ?_, first := ?_, pastk := ?_, pa0 := ?_, lostk := ?_ }
  · rw [hd]; simp [h0u, dt.root]
  · rw [htp 0 h0u]; exact dt.tp0
  · intro x hx hxv hx0
    by_cases hxu : x = u
    · subst hxu
      rw [htpu]
      refine ⟨hvn, (hvis v).2 (.inr hvv), hadj, ?_⟩
      rw [hd, hd]; simp [hvu]
    · have hxv' : bvis st x := by
        rcases (hvis x).1 hxv with h0 | h0
        · exact absurd h0 hxu
        · exact h0
      obtain ⟨h1, h2, h3, h4⟩ := dt.tree x hx hxv' hx0
      rw [htp x hxu]
      refine ⟨h1, (hvis _).2 (.inr h2), h3, ?_⟩
      rw [hd, hd]; simp [hxu, hne _ h2, h4]
  · intro x hxv
    rw [hd]
    by_cases hxu : x = u
    · simp [hxu]; omega
    · simp only [hxu, if_false]
      rcases (hvis x).1 hxv with h0 | h0
      · exact absurd h0 hxu
      · exact dt.dnn x h0
  · rw [hstack']
    refine ⟨htpu, fun h0 => h0u h0.symm, ?_⟩
    have := dt.path
    rw [hstk] at this
    exact stackPath_congr (v :: rest) (fun x hx => htp x (fun h0 => hunot (by rw [hstk, ← h0]; exact hx))) this
  · intro x hx
    rw [hstack'] at hx
    rcases List.mem_cons.1 hx with rfl | hx
    · exact ⟨hu, (hvis x).2 (.inl rfl)⟩
    · obtain ⟨h1, h2⟩ := dt.svis x (by rw [hstk]; exact hx)
      exact ⟨h1, (hvis x).2 (.inr h2)⟩
  · rw [hstack', List.pairwise_cons]
    have hsd := dt.sdec
    rw [hstk] at hsd
    constructor
    · intro y hy
      have hyu : y ≠ u := fun h0 => hunot (by rw [hstk, ← h0]; exact hy)
      rw [hd, hd]; simp only [hyu, if_false, if_true]
      rcases List.mem_cons.1 hy with rfl | hy
      · omega
      · have := (List.pairwise_cons.1 hsd).1 y hy; omega
    · refine List.Pairwise.imp_of_mem ?_ hsd
      intro a b ha hb hab
      have hau : a ≠ u := fun h0 => hunot (by rw [hstk, ← h0]; exact ha)
      have hbu : b ≠ u := fun h0 => hunot (by rw [hstk, ← h0]; exact hb)
      rw [hd, hd]; simp [hau, hbu, hab]
  · intro x hx hxv hxs w hw hwn
    rw [hstack'] at hxs
    have hxu : x ≠ u := fun h0 => hxs (by simp [h0])
    have hxv' : bvis st x := by
      rcases (hvis x).1 hxv with h0 | h0
      · exact absurd h0 hxu
      · exact h0
    exact (hvis w).2 (.inr (dt.fin x hx hxv' (by
      rw [hstk]; intro hm; exact hxs (List.mem_cons_of_mem _ hm)) w hw hwn))
  · -- no cross edges
    have hold : ∀ y, y < h.n → bvis st y → h.adj y u = true → Anc (Function.update tp u v) y u := by
      intro y hy hyv hyadj
      by_cases hys : y ∈ st.toCheck
      · have hp := dt.path
        rw [hstk] at hp hys
        have := stackPath_anc rest v hp y hys
        have := anc_update dt hunv hvn hvv this (u := u) (v := v)
        exact Anc.parent (by rw [htpu]; exact this)
      · exact absurd (dt.fin y hy hyv hys u hyadj hu) hunv
    intro x y hx hy hxv hyv hxy
    by_cases hxu : x = u
    · subst hxu
      by_cases hyu : y = x
      · subst hyu; rw [hirr] at hxy; cases hxy
      · have hyv' : bvis st y := by
          rcases (hvis y).1 hyv with h0 | h0
          · exact absurd h0 hyu
          · exact h0
        exact .inr (hold y hy hyv' (by rw [hsym]; exact hxy))
    · have hxv' : bvis st x := by
        rcases (hvis x).1 hxv with h0 | h0
        · exact absurd h0 hxu
        · exact h0
      by_cases hyu : y = u
      · subst hyu
        exact .inl (hold x hx hxv' hxy)
      · have hyv' : bvis st y := by
          rcases (hvis y).1 hyv with h0 | h0
          · exact absurd h0 hyu
          · exact h0
        rcases dt.nocross x y hx hy hxv' hyv' hxy with h0 | h0
        · exact .inl (anc_update dt hunv hy hyv' h0)
        · exact .inr (anc_update dt hunv hx hxv' h0)
  · intro x hx hx0 w hw hwx
    rw [hstack'] at hx
    rcases List.mem_cons.1 hx with rfl | hx
    · rw [htpu] at hw
      exact (hvis w).2 (.inr (hfirst w hw hwx))
    · have hxu : x ≠ u := fun h0 => hunot (by rw [hstk, ← h0]; exact hx)
      rw [htp x hxu] at hw
      exact (hvis w).2 (.inr (dt.first x (by rw [hstk]; exact hx) hx0 w hw hwx))
  · intro x hx hx0
    rw [hstack'] at hx
    rw [pa_descendSt huP]
    rcases List.mem_cons.1 hx with rfl | hx
    · simp [htpu]
    · have hxu : x ≠ u := fun h0 => hunot (by rw [hstk, ← h0]; exact hx)
      simp only [hxu, if_false, htp x hxu]
      exact dt.pastk x (by rw [hstk]; exact hx) hx0
  · rw [pa_descendSt huP]; simp [h0u, dt.pa0]
  · intro x hx
    rw [hstack'] at hx
    rw [lo_descendSt huL, hd]
    rcases List.mem_cons.1 hx with rfl | hx
    · simp
    · have hxu : x ≠ u := fun h0 => hunot (by rw [hstk, ← h0]; exact hx)
      simp only [hxu, if_false]
      exact dt.lostk x (by rw [hstk]; exact hx)

/-- a visited neighbour `u` of the top `v` whose recorded parent is `v` is not on the stack -/
theorem emit_not_on_stack (hirr : ∀ v, h.adj v v = false) (dt : DT h st tp) {v u : Nat} {rest : List Nat}
    (hstk : st.toCheck = v :: rest) (hv0 : v ≠ 0) (hadj : h.adj v u = true) (hpu : pa st u = (v : Int)) :
    u ∉ st.toCheck := by
  intro hm
  have hu0 : u ≠ 0 := by
    intro h0; subst h0
    have := dt.pa0; rw [hpu] at this; omega
  rw [hstk] at hm
  rcases List.mem_cons.1 hm with h0 | h0
  · subst h0; rw [hirr] at hadj; cases hadj
  · have hm' : u ∈ st.toCheck := by rw [hstk]; exact List.mem_cons_of_mem _ h0
    have h1 := dt.pastk u hm' hu0
    rw [hpu] at h1
    have htpu : tp u = v := by omega
    obtain ⟨hun, huv⟩ := dt.svis u hm'
    obtain ⟨_, _, _, h4⟩ := dt.tree u hun huv hu0
    rw [htpu] at h4
    have hsd := dt.sdec
    rw [hstk] at hsd
    have := (List.pairwise_cons.1 hsd).1 u h0
    omega

theorem dt_emit (com : List Nat) (dt : DT h st tp) {v u : Nat} {cur : List Nat} (hu : u < h.n) (hu0 : u ≠ 0)
    (hunot : u ∉ st.toCheck) : DT h (emitSt com st v u cur) tp := by
  have huP : u < st.parents.size := by rw [dt.ok.psz]; exact hu
  refine { ok := bok_emit com dt.ok, root := dt.root, tp0 := dt.tp0, tree := dt.tree, dnn := dt.dnn,
           path := dt.path, svis := dt.svis, sdec := dt.sdec, fin := dt.fin, nocross := dt.nocross,
           first := dt.first, pastk := ?_, pa0 := ?_, lostk := dt.lostk }
  · intro x hx hx0
    have hx' : x ∈ st.toCheck := hx
    rw [pa_emitSt com huP]
    have : x ≠ u := fun h0 => hunot (h0 ▸ hx')
    simp only [this, if_false]
    exact dt.pastk x hx' hx0
  · rw [pa_emitSt com huP]
    simp [Ne.symm hu0, dt.pa0]

theorem dt_pop (dt : DT h st tp) {v : Nat} {rest : List Nat} {t : Int} {bs : List (List Nat)} {c2 : List Nat}
    (hstk : st.toCheck = v :: rest) (hc2 : bs.getLast? = some c2)
    (hbs2 : ∀ b ∈ bs.dropLast, b ≠ []) (hbs3 : ∀ b ∈ bs, ∀ x ∈ b, x < h.n)
    (hnb : ∀ w, h.adj v w = true → w < h.n → bvis st w) :
    DT h (popSt st v rest t bs c2) tp := by
  have hvs : v ∈ st.toCheck := by rw [hstk]; exact List.mem_cons_self
  obtain ⟨hvn, hvv⟩ := dt.svis v hvs
  have hvL : v < st.low.size := by rw [dt.ok.lsz]; exact hvn
  have hsd := dt.sdec
  rw [hstk] at hsd
  have hvnot : v ∉ rest := by
    intro hm
    have := (List.pairwise_cons.1 hsd).1 v hm
    omega
  have hsub : ∀ x ∈ rest, x ∈ st.toCheck := fun x hx => by rw [hstk]; exact List.mem_cons_of_mem _ hx
  refine { ok := bok_pop dt.ok hvn hstk hc2 hbs2 hbs3, root := dt.root, tp0 := dt.tp0, tree := dt.tree,
           dnn := dt.dnn, path := ?_, svis := fun x hx => dt.svis x (hsub x hx),
           sdec := (List.pairwise_cons.1 hsd).2, fin := ?_, nocross := dt.nocross,
           first := fun x hx => dt.first x (hsub x hx), pastk := fun x hx => dt.pastk x (hsub x hx),
           pa0 := dt.pa0, lostk := ?_ }
  · have := dt.path
    rw [hstk] at this
    exact stackPath_tail this
  · intro x hx hxv hxs w hw hwn
    have hxs' : x ∉ rest := hxs
    by_cases hxeq : x = v
    · subst hxeq; exact hnb w hw hwn
    · exact dt.fin x hx hxv (by
        rw [hstk]; intro hm
        rcases List.mem_cons.1 hm with h0 | h0
        · exact hxeq h0
        · exact hxs' h0) w hw hwn
  · intro x hx
    have hx' : x ∈ rest := hx
    rw [lo_popSt rest t bs c2 hvL]
    have : x ≠ v := fun h0 => hvnot (h0 ▸ hx')
    simp only [this, if_false]
    exact dt.lostk x (hsub x hx')

/-- scan invariant used with `bicScan_cases`: the DFS-tree invariant plus the progress of the scan of the top `v` -/
def ScanP (h : G) (tp : Nat → Nat) (v : Nat) (rest : List Nat) (I : BicSt → Prop) (us : List Nat) (st1 : BicSt)
    (_t : Int) : Prop :=
  DT h st1 tp ∧ I st1 ∧ st1.toCheck = v :: rest ∧ (∀ u ∈ us, u < h.n ∧ h.adj v u = true) ∧
    us.Pairwise (· < ·) ∧ (∀ w, h.adj v w = true → w < h.n → w ∈ us ∨ bvis st1 w)

theorem scanP_first {tp : Nat → Nat} {v u : Nat} {rest us2 : List Nat} {I : BicSt → Prop} {st1 : BicSt} {t : Int}
    (hP : ScanP h tp v rest I (u :: us2) st1 t) :
    ∀ w, h.adj v w = true → w < u → bvis st1 w := by
  obtain ⟨dt, _, _, hus, hsort, hprog⟩ := hP
  intro w hw hwu
  have hun := (hus u List.mem_cons_self).1
  rcases hprog w hw (by omega) with h0 | h0
  · exfalso
    rcases List.mem_cons.1 h0 with h1 | h1
    · omega
    · have := (List.pairwise_cons.1 hsort).1 w h1
      omega
  · exact h0

/-- **one iteration preserves the DFS-tree invariant** -/
theorem dt_step (com : List Nat) (hsym : ∀ u v, h.adj u v = h.adj v u) (hirr : ∀ v, h.adj v v = false)
    {s : BicSt} (dt : DT h st tp) (hs : bicStep h com st = .ok (some s)) :
    ∃ tp', DT h s tp' := by
  unfold bicStep at hs
  cases hT : st.toCheck with
  | nil => rw [hT] at hs; simp at hs
  | cons v rest =>
    rw [hT] at hs
    simp only at hs
    have hvs : v ∈ st.toCheck := by rw [hT]; exact List.mem_cons_self
    obtain ⟨hvn, hvv⟩ := dt.svis v hvs
    have hvL : v < st.low.size := by rw [dt.ok.lsz]; exact hvn
    simp only [hvL, dif_pos] at hs
    cases hscan : bicScan com h.n v (h.nbrs v) st st.low[v] with
    | panic => rw [hscan] at hs; simp at hs
    | outOfFuel => rw [hscan] at hs; simp at hs
    | ok res =>
      rw [hscan] at hs
      have hP0 : ScanP h tp v rest (fun _ => True) (h.nbrs v) st st.low[v] :=
        ⟨dt, trivial, hT, fun u hu => mem_nbrs.1 hu, List.pairwise_lt_range.sublist List.filter_sublist,
          fun w hw hwn => .inl (mem_nbrs.2 ⟨hwn, hw⟩)⟩
      obtain ⟨hdesc, hdone⟩ := bicScan_cases com hvn (ScanP h tp v rest (fun _ => True))
        (fun us st1 t hP => ⟨hP.1.ok, fun u hu => (hP.2.2.2.1 u hu).1⟩)
        (fun u us st1 t hP huv _ => by
          obtain ⟨d1, i1, s1, u1, p1, g1⟩ := hP
          refine ⟨d1, i1, s1, fun x hx => u1 x (List.mem_cons_of_mem _ hx), (List.pairwise_cons.1 p1).2, ?_⟩
          intro w hw hwn
          rcases g1 w hw hwn with h0 | h0
          · rcases List.mem_cons.1 h0 with h1 | h1
            · exact .inr (h1 ▸ huv)
            · exact .inl h1
          · exact .inr h0)
        (fun u us st1 t cur hP huv _ hcur hv0 hpu _ => by
          obtain ⟨d1, i1, s1, u1, p1, g1⟩ := hP
          obtain ⟨hun, hadj⟩ := u1 u List.mem_cons_self
          have hunot := emit_not_on_stack hirr d1 s1 hv0 hadj hpu
          have hu0 : u ≠ 0 := by
            intro h0; subst h0
            have := d1.pa0; rw [hpu] at this; omega
          refine ⟨dt_emit com d1 hun hu0 hunot, trivial, s1, fun x hx => u1 x (List.mem_cons_of_mem _ hx),
            (List.pairwise_cons.1 p1).2, ?_⟩
          intro w hw hwn
          rcases g1 w hw hwn with h0 | h0
          · rcases List.mem_cons.1 h0 with h1 | h1
            · exact .inr (h1 ▸ huv)
            · exact .inl h1
          · exact .inr h0)
        (fun u us st1 t hP huv _ _ => by
          obtain ⟨d1, i1, s1, u1, p1, g1⟩ := hP
          refine ⟨d1, i1, s1, fun x hx => u1 x (List.mem_cons_of_mem _ hx), (List.pairwise_cons.1 p1).2, ?_⟩
          intro w hw hwn
          rcases g1 w hw hwn with h0 | h0
          · rcases List.mem_cons.1 h0 with h1 | h1
            · exact .inr (h1 ▸ huv)
            · exact .inl h1
          · exact .inr h0)
        (h.nbrs v) st st.low[v] hP0 res hscan
      cases res with
      | descend s1 =>
        simp only [Outcome.ok.injEq, Option.some.injEq] at hs
        subst hs
        obtain ⟨u, us2, st1, t1, cur, hP, hunv, hcur, rfl⟩ := hdesc _ rfl
        have hfirst := scanP_first hP
        obtain ⟨d1, _, s1, u1, _, _⟩ := hP
        obtain ⟨hun, hadj⟩ := u1 u List.mem_cons_self
        exact ⟨_, dt_descend hsym hirr d1 s1 hun hunv hadj hfirst hcur⟩
      | done s1 t1 =>
        simp only at hs
        obtain ⟨d1, _, st1, _, _, g1⟩ := hdone s1 t1 rfl
        cases hpop : bicPop v rest s1 t1 with
        | panic => rw [hpop] at hs; simp at hs
        | outOfFuel => rw [hpop] at hs; simp at hs
        | ok s2 =>
          rw [hpop] at hs
          simp only [Outcome.ok.injEq, Option.some.injEq] at hs
          subst hs
          obtain ⟨bs, c2, rfl, hc2, hb0, hb1⟩ := bicPop_cases d1.ok hvn hpop
          obtain ⟨hbs2, hbs3⟩ := pop_bs_facts d1.ok hb0 hb1
          refine ⟨tp, dt_pop d1 st1 hc2 hbs2 hbs3 ?_⟩
          intro w hw hwn
          rcases g1 w hw hwn with h0 | h0
          · cases h0
          · exact h0

/-- the initial state of the DFS of one component in `bicComponent` -/
def bicInit (n : Nat) (out0 : List (List Nat)) : BicSt :=
  { toCheck := [0], depths := (Array.replicate n (-1)).setIfInBounds 0 0, low := Array.replicate n 0,
    parents := Array.replicate n 0, isArt := Array.replicate n false, childCount := 0, bicoms := [[]],
    out := out0 }

theorem dI_bicInit {n : Nat} (hn : 0 < n) (out0 : List (List Nat)) (x : Nat) :
    dI (bicInit n out0) x = if x = 0 then 0 else -1 := by
  unfold dI bicInit; simp only
  rw [getD_setIfInBounds _ _ _ _ _ (by simpa using hn)]
  by_cases hx : x = 0
  · simp [hx]
  · simp only [hx, if_false]
    by_cases hxn : x < n <;> simp [Array.getD, hxn]

theorem dt_init (hn : 0 < h.n) (out0 : List (List Nat))
    (hout : ∀ b ∈ out0, b.Pairwise (fun a b => decide (a ≤ b) = true)) :
    DT h (bicInit h.n out0) (fun _ => 0) := by
  have hd := dI_bicInit hn out0
  have hvis : ∀ x, bvis (bicInit h.n out0) x ↔ x = 0 := by
    intro x; unfold bvis; rw [hd]
    by_cases hx : x = 0 <;> simp [hx]
  have hlo : ∀ x, lo (bicInit h.n out0) x = 0 := by
    intro x; unfold lo bicInit; simp only
    by_cases hxn : x < h.n <;> simp [Array.getD, hxn]
  have hpa : ∀ x, pa (bicInit h.n out0) x = 0 := by
    intro x; unfold pa bicInit; simp only
    by_cases hxn : x < h.n <;> simp [Array.getD, hxn]
  refine { ok := ?_, root := by rw [hd]; simp, tp0 := rfl, tree := ?_, dnn := ?_, path := rfl, svis := ?_,
           sdec := by simp [bicInit], fin := ?_, nocross := ?_, first := ?_, pastk := ?_, pa0 := hpa 0,
           lostk := ?_ }
  · exact { dsz := (by simp [bicInit]), lsz := (by simp [bicInit]), psz := (by simp [bicInit]),
            asz := (by simp [bicInit]),
            stk := fun x hx => (by
              have hx0 : x = 0 := by simpa [bicInit] using hx
              subst hx0
              refine ⟨by simp [bicInit]; exact hn, ?_⟩
              simp [bicInit, Array.getElem_setIfInBounds]),
            bne := (by simp [bicInit]), bpre := (by simp [bicInit]),
            belem := fun b hb x hx => (by
              have : b = [] := by simpa [bicInit] using hb
              subst this; cases hx),
            osorted := hout }
  · intro x _ hxv hx0; exact absurd ((hvis x).1 hxv) hx0
  · intro x hxv; rw [(hvis x).1 hxv, hd]; simp
  · intro x hx
    have hx0 : x = 0 := by simpa [bicInit] using hx
    subst hx0; exact ⟨hn, (hvis 0).2 rfl⟩
  · intro x _ hxv hxs
    exact absurd (by rw [(hvis x).1 hxv]; simp [bicInit]) hxs
  · intro x y _ _ hxv hyv _
    rw [(hvis x).1 hxv, (hvis y).1 hyv]; exact .inl (Anc.refl _ _)
  · intro x hx hx0
    have : x = 0 := by simpa [bicInit] using hx
    exact absurd this hx0
  · intro x hx hx0
    have : x = 0 := by simpa [bicInit] using hx
    exact absurd this hx0
  · intro x hx
    have hx0 : x = 0 := by simpa [bicInit] using hx
    subst hx0; rw [hlo, hd]; simp

/-- the states the DFS of one component goes through -/
inductive BicReach (h : G) (com : List Nat) (out0 : List (List Nat)) : BicSt → Prop
  | init : BicReach h com out0 (bicInit h.n out0)
  | step {st s : BicSt} : BicReach h com out0 st → bicStep h com st = .ok (some s) → BicReach h com out0 s

theorem dt_reach (com : List Nat) (hsym : ∀ u v, h.adj u v = h.adj v u) (hirr : ∀ v, h.adj v v = false)
    (hn : 0 < h.n) (out0 : List (List Nat))
    (hout : ∀ b ∈ out0, b.Pairwise (fun a b => decide (a ≤ b) = true)) {st : BicSt}
    (hr : BicReach h com out0 st) : ∃ tp, DT h st tp := by
  induction hr with
  | init => exact ⟨_, dt_init hn out0 hout⟩
  | step _ hs ih =>
    obtain ⟨tp, dt⟩ := ih
    exact dt_step com hsym hirr dt hs

end GDist
