import Mamba.Lemmas.DsaturS1
/-! DSATUR model: the state invariant `DSInv` and folds over the heap. -/
namespace CliqueColour
open GraphSpec

/-! ### index helpers -/

theorem getD_append_lt {α : Type} {l : List α} {i : Nat} (x d : α) (hi : i < l.length) :
    (l ++ [x]).getD i d = l.getD i d := by
  simp [List.getD_eq_getElem?_getD, List.getElem?_append_left hi]

theorem getD_append_len {α : Type} (l : List α) (x d : α) : (l ++ [x]).getD l.length d = x := by
  simp [List.getD_eq_getElem?_getD]

theorem take_append_le {α : Type} {l : List α} {i : Nat} (x : α) (hi : i ≤ l.length) :
    (l ++ [x]).take i = l.take i := by
  rw [List.take_append_of_le_length hi]

theorem getD_take_lt {α : Type} {l : List α} {i j : Nat} (d : α) (hj : j < i) : (l.take i).getD j d = l.getD j d := by
  simp [List.getD_eq_getElem?_getD, List.getElem?_take_of_lt hj]

theorem take_take_le {α : Type} {l : List α} {i j : Nat} (hj : j ≤ i) : (l.take i).take j = l.take j := by
  rw [List.take_take, Nat.min_eq_left hj]

theorem mem_take_iff_getD {l : List Nat} {i : Nat} (hi : i ≤ l.length) {w : Nat} :
    w ∈ l.take i ↔ ∃ k, k < i ∧ l.getD k 0 = w := by
  rw [mem_iff_getD]
  simp only [List.length_take, Nat.min_eq_left hi]
  constructor
  · rintro ⟨p, hp, he⟩; exact ⟨p, hp, by rw [← he, getD_take_lt 0 hp]⟩
  · rintro ⟨p, hp, he⟩; exact ⟨p, hp, by rw [getD_take_lt 0 hp]; exact he⟩

theorem take_succ_getD {l : List Nat} {i : Nat} (hi : i < l.length) : l.take (i + 1) = l.take i ++ [l.getD i 0] := by
  rw [List.take_add_one, List.getElem?_eq_getElem hi, getD_eq_getElem hi]; rfl

/-! ### the invariant -/

/-- what is known about the recorded best colouring -/
def BestOK (g : G) (best : List Int) (k : Int) : Prop :=
  best.length = g.n ∧ (∀ v, v < g.n → 0 ≤ best.getD v 0 ∧ best.getD v 0 < k) ∧
    (∀ u v, u < g.n → v < g.n → g.adj u v = true → best.getD u 0 ≠ best.getD v 0) ∧
    ∀ c : Nat, (c : Int) < k → ∃ v, v < g.n ∧ best.getD v 0 = (c : Int)

structure DSInv (g : G) (U0 : Nat) (s : Dsat) : Prop where
  npos : 0 < g.n
  lcol : s.colouring.length = g.n
  lseen : s.seen.length = g.n
  lrow : ∀ v, v < g.n → (s.seen.getD v []).length = U0
  chn : s.chosen.Nodup
  chlt : ∀ v ∈ s.chosen, v < g.n
  lcur : s.cur.length = s.chosen.length
  lcho : s.choices.length = s.chosen.length
  hnd : s.heap.Nodup
  hmem : ∀ v, v ∈ s.heap ↔ (v < g.n ∧ v ∉ s.chosen)
  colun : ∀ v, v < g.n → v ∉ s.chosen → colOf s v = -1
  colch : ∀ i, i < s.chosen.length → s.cur.getD i 0 < (s.choices.getD i []).length ∧
    colOf s (s.chosen.getD i 0) = (((s.choices.getD i []).getD (s.cur.getD i 0) 0 : Nat) : Int)
  hok : HeapOK s.num s.deg s.heap
  seenH : ∀ u ∈ s.heap, ∀ c, c < U0 → seenAt s u c = cntCol g (colOf s) s.chosen u c
  seenC : ∀ i, i < s.chosen.length → ∀ c, c < U0 →
    seenAt s (s.chosen.getD i 0) c = cntCol g (colOf s) (s.chosen.take i) (s.chosen.getD i 0) c
  optS : ∀ i, i < s.chosen.length → (s.choices.getD i []).Pairwise (· < ·)
  optF : ∀ i, i < s.chosen.length → ∀ c ∈ s.choices.getD i [],
    (c : Int) ≤ maxCol (colOf s) (s.chosen.take i) + 1 ∧ c + 2 ≤ U0 ∧ seenAt s (s.chosen.getD i 0) c = 0
  optC : ∀ i, i < s.chosen.length → ∀ c : Nat, (c : Int) ≤ maxCol (colOf s) (s.chosen.take i) + 1 →
    (c : Int) + 2 ≤ s.upper → seenAt s (s.chosen.getD i 0) c = 0 → c ∈ s.choices.getD i []
  mused : s.maxUsed = maxCol (colOf s) s.chosen
  seg : ∀ i, i ≤ s.chosen.length → ∀ c : Nat, (c : Int) ≤ maxCol (colOf s) (s.chosen.take i) →
    ∃ w ∈ s.chosen.take i, colOf s w = (c : Int)
  uple : s.upper ≤ (U0 : Int)
  up1 : 1 ≤ s.upper
  best : (s.best = List.replicate g.n (-1) ∧ s.upper = (U0 : Int)) ∨ (BestOK g s.best s.upper ∧ s.upper < (U0 : Int))

/-- the colours on the current path are non-negative and pairwise different along edges -/
theorem DSInv.col_nonneg {g : G} {U0 : Nat} {s : Dsat} (h : DSInv g U0 s) {w : Nat} (hw : w ∈ s.chosen) :
    0 ≤ colOf s w := by
  obtain ⟨i, hi, he⟩ := mem_iff_getD.1 hw
  rw [← he, (h.colch i hi).2]
  exact Int.natCast_nonneg _

theorem DSInv.path_proper {g : G} (hw : g.WF) {U0 : Nat} {s : Dsat} (h : DSInv g U0 s) :
    ∀ a ∈ s.chosen, ∀ b ∈ s.chosen, g.adj a b = true → colOf s a ≠ colOf s b := by
  -- the later of the two saw the colour of the earlier one
  have key : ∀ i j, j < i → i < s.chosen.length → g.adj (s.chosen.getD i 0) (s.chosen.getD j 0) = true →
      colOf s (s.chosen.getD j 0) ≠ colOf s (s.chosen.getD i 0) := by
    intro i j hji hi hadj
    obtain ⟨hcur, hcol⟩ := h.colch i hi
    have hmemc : (s.choices.getD i []).getD (s.cur.getD i 0) 0 ∈ s.choices.getD i [] := getD_mem' hcur
    obtain ⟨_, hc2, hz⟩ := h.optF i hi _ hmemc
    rw [h.seenC i hi _ (by omega), cntCol_eq_zero] at hz
    rw [hcol]
    exact hz _ ((mem_take_iff_getD (by omega)).2 ⟨j, hji, rfl⟩) hadj
  intro a ha b hb hadj
  obtain ⟨i, hi, rfl⟩ := mem_iff_getD.1 ha
  obtain ⟨j, hj, rfl⟩ := mem_iff_getD.1 hb
  rcases Nat.lt_trichotomy i j with hlt | heq | hgt
  · exact key j i hlt hj (by rw [hw.symm]; exact hadj)
  · subst heq; rw [hw.irrefl] at hadj; cases hadj
  · exact fun e => key i j hgt hi hadj e.symm

/-! ### folding a counter update over the (duplicate-free) heap -/

theorem foldl_counters (f : Dsat → Nat → Dsat) (δ : Nat → Nat → Int) (P : Dsat → Nat → Prop)
    (hP : ∀ st st' u, SameFrame st st' → P st u → P st' u)
    (hf : ∀ st u, P st u → SameFrame st (f st u) ∧ (f st u).heap = st.heap ∧
      ∀ u' c', seenAt (f st u) u' c' = seenAt st u' c' + (if u' = u then δ u c' else 0)) :
    ∀ (L : List Nat) (s : Dsat), L.Nodup → (∀ u ∈ L, P s u) →
      SameFrame s (L.foldl f s) ∧ (L.foldl f s).heap = s.heap ∧
        ∀ u' c', seenAt (L.foldl f s) u' c' = seenAt s u' c' + (if u' ∈ L then δ u' c' else 0) := by
  intro L
  induction L with
  | nil => intro s _ _; exact ⟨SameFrame.refl s, rfl, fun u' c' => by simp⟩
  | cons a t ih =>
    intro s hn hp
    have hn' := List.nodup_cons.1 hn
    obtain ⟨hfr, hheap, hseen⟩ := hf s a (hp a List.mem_cons_self)
    obtain ⟨hfr2, hheap2, hseen2⟩ := ih (f s a) hn'.2
      (fun u hu => hP _ _ u hfr (hp u (List.mem_cons_of_mem _ hu)))
    refine ⟨SameFrame.trans hfr hfr2, hheap2.trans hheap, fun u' c' => ?_⟩
    simp only [List.foldl_cons]
    rw [hseen2 u' c', hseen u' c']
    by_cases h1 : u' = a
    · subst h1
      rw [if_pos rfl, if_neg hn'.1, if_pos List.mem_cons_self]; omega
    · rw [if_neg h1]
      by_cases h2 : u' ∈ t
      · rw [if_pos h2, if_pos (List.mem_cons_of_mem _ h2)]; omega
      · rw [if_neg h2, if_neg (by simp [h1, h2])]; omega

end CliqueColour
