import Mamba.Lemmas.CanonFCovLeafNode
import Mamba.Lemmas.CanonFCovBackjump
import Mamba.Lemmas.CanonFCompareLt
import Mamba.Lemmas.CanonFTreeFinal
/-!
# From coverage of the root to the canonical certificate of `Model/IR.lean`
-/
namespace CanonF
open GraphSpec

/-- if all leaves of the unpruned tree have a certificate `≤` the certificate of the returned leaf (coverage of the
root), the returned certificate is the canonical certificate of the IR model -/
theorem canon_eq_of_complete {g : G} (hg : g.WF) {s0 : IR.St} (hw : s0.work ≠ []) {p : List Nat}
    (hp : p.Perm (List.range g.n))
    (hleaf : IR.tab g.n (fun v => p.idxOf v) ∈ IR.allLeaves (IR.ofSpec g) s0)
    (hcomp : Complete g.n (nbrsOf g) (IR.rfuel (IR.ofSpec g)) (certPos (nbrsOf g) p g.n)
      (IR.refine (IR.ofSpec g) (IR.rfuel (IR.ofSpec g)) s0)) :
    certPos (nbrsOf g) p g.n = IR.canonCertFrom (IR.ofSpec g) s0 := by
  obtain ⟨hnbok, _⟩ := nbOK_nbrsOf g hg
  have hc : IR.cert (IR.ofSpec g) (IR.tab g.n (fun v => p.idxOf v)) = certPos (nbrsOf g) p g.n :=
    cert_link hnbok hp
  apply le_antisymm
  · rw [← hc]
    unfold IR.canonCertFrom
    exact le_maxCert (List.mem_map.2 ⟨_, hleaf, rfl⟩)
  · obtain ⟨l, hl, e⟩ := IR.canonCertFrom_is_leaf (IR.ofSpec g) s0
    rw [e]
    have hb := IR.certBelow_of_mem_allLeaves (IR.ofSpec_wf hg) hw hl
    exact (compare_ne_one_iff_le _ _).1 (hcomp _ hb)

end CanonF
