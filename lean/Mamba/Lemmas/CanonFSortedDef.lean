import Mamba.Lemmas.CanonFInv
/-!
# Every bin of the ordered partition is kept in ascending order (faithful model `Model/CanonF.lean`)

The classes are sorted at entry, `splitBin` moves one vertex to the front of its bin and keeps the order of the rest, the
refinement sorts a bin stably by count, `deage` re-sorts merged bins. Consequence: the positions of a bin enumerate its
vertices in ascending order, so the children of a node of the search tree are visited in descending order of the vertex.
-/
namespace CanonF

/-- two neighbouring positions that are not separated by a divider hold vertices in ascending order -/
def BinsSorted (op : OP) : Prop :=
  ∀ p u v, op.order.toList[p]? = some u → op.order.toList[p + 1]? = some v → p + 1 ∉ op.binDividers.toList → u < v

end CanonF
