import Mamba.Model.Subgraph
import Mamba.Lemmas.DistanceModel
/-!
# Lemmas for C10: Paton's spanning-tree phase of `NumberOfCycles` never panics and terminates

Key invariant (Paton's remark "the back edge leads to something distance exactly one from the path to v"): the
parents of the vertices waiting on the stack `X` are no deeper than the vertex being examined, so
`length := depth[v] - depth[T[u]] + 2` is at least 2, and following `T` from a tree vertex never meets `-1`.
-/
namespace GDist
open GraphSpec Model

/-- parent of `x` as a natural number -/
def par (T : Array Int) (x : Nat) : Nat := (T.getD x (-1)).toNat
def inTree (T : Array Int) (x : Nat) : Prop := T.getD x (-1) ≠ -1
def dep (D : Array Nat) (x : Nat) : Nat := D.getD x 0

structure PInv (a : G) (st : PatonSt) (v : Nat) : Prop where
  tsz : st.T.size = a.n
  dsz : st.depth.size = a.n
  ptree : ∀ x, x < a.n → inTree st.T x → 0 ≤ st.T.getD x (-1) ∧ par st.T x < a.n ∧ inTree st.T (par st.T x)
  xok : ∀ x ∈ st.X, x < a.n ∧ inTree st.T x ∧ dep st.depth (par st.T x) ≤ dep st.depth v
  xsorted : st.X.Pairwise fun up lo => dep st.depth (par st.T lo) ≤ dep st.depth (par st.T up)
  xdep : ∀ x ∈ st.X, dep st.depth (par st.T x) ≤ dep st.depth x
  cur : v < a.n ∧ inTree st.T v ∧ dep st.depth (par st.T v) ≤ dep st.depth v
  exam : ∀ x, x < a.n → inTree st.T x → x ∉ st.X → x ≠ v → ∀ w, a.adj x w = true → w < a.n →
    edgeRemoved st.removed w x = true

theorem getD_set_int {T : Array Int} {i : Nat} {x : Int} (h : i < T.size) (w : Nat) :
    (T.set i x h).getD w (-1) = if w = i then x else T.getD w (-1) := by
  by_cases hw : w = i
  · subst hw; simp [Array.getD, h]
  · simp only [hw, if_false]
    by_cases hws : w < T.size
    · have hne : i ≠ w := fun h => hw h.symm
      simp [Array.getD, hws, Array.getElem_set_ne, hne]
    · simp [Array.getD, hws]

theorem patonBack_total {a : G} {st : PatonSt} {v : Nat} (inv : PInv a st v) :
    ∀ (k previous : Nat) (acc : List Nat), previous < a.n → inTree st.T previous →
      ∃ cyc, patonBack st.T k previous acc = .ok cyc := by
  intro k
  induction k with
  | zero => intro previous acc _ _; exact ⟨acc, rfl⟩
  | succ k ih =>
    intro previous acc hp ht
    have hpT : previous < st.T.size := by rw [inv.tsz]; exact hp
    obtain ⟨h0, h1, h2⟩ := inv.ptree previous hp ht
    have hget : st.T.getD previous (-1) = st.T[previous] := by simp [Array.getD, hpT]
    unfold patonBack
    simp only [hpT, dif_pos]
    rw [hget] at h0
    have : ¬ st.T[previous] < 0 := by omega
    simp only [this, if_false]
    have hpar : st.T[previous].toNat = par st.T previous := by unfold par; rw [hget]
    rw [hpar]
    exact ih _ _ h1 h2

theorem getD_set_nat {D : Array Nat} {i x : Nat} (h : i < D.size) (w : Nat) :
    (D.set i x h).getD w 0 = if w = i then x else D.getD w 0 := lbl_set h

theorem edgeRemoved_cons {rm : List (Nat × Nat)} {a b u v : Nat} :
    edgeRemoved ((a, b) :: rm) u v = true ↔ ((a = u ∧ b = v) ∨ (a = v ∧ b = u) ∨ edgeRemoved rm u v = true) := by
  simp only [edgeRemoved, List.contains_cons, Bool.or_eq_true, beq_iff_eq, Prod.mk.injEq]
  constructor
  · rintro ((⟨h1, h2⟩ | h) | (⟨h1, h2⟩ | h))
    · exact .inl ⟨h1.symm, h2.symm⟩
    · exact .inr (.inr (.inl h))
    · exact .inr (.inl ⟨h1.symm, h2.symm⟩)
    · exact .inr (.inr (.inr h))
  · rintro (⟨h1, h2⟩ | ⟨h1, h2⟩ | (h | h))
    · exact .inl (.inl ⟨h1.symm, h2.symm⟩)
    · exact .inr (.inl ⟨h1.symm, h2.symm⟩)
    · exact .inl (.inr h)
    · exact .inr (.inr h)

theorem patonScan_total {a : G} (hsym : ∀ u v, a.adj u v = a.adj v u) {v : Nat} :
    ∀ (us : List Nat) (st : PatonSt), PInv a st v → us.Nodup →
      (∀ u ∈ us, u < a.n ∧ a.adj v u = true ∧ edgeRemoved st.removed u v = false) →
      (∀ w, a.adj v w = true → w < a.n → w ∈ us ∨ edgeRemoved st.removed w v = true) →
      ∃ st', patonScan v us st = .ok st' ∧ PInv a st' v ∧
        (∀ w, a.adj v w = true → w < a.n → edgeRemoved st'.removed w v = true) ∧
        st'.X.length + st'.T.count (-1) = st.X.length + st.T.count (-1) := by
  intro us
  induction us with
  | nil =>
    intro st inv _ _ hprog
    refine ⟨st, rfl, inv, ?_, rfl⟩
    intro w hw hwn
    rcases hprog w hw hwn with h | h
    · cases h
    · exact h
  | cons u us ih =>
    intro st inv hnd hus hprog
    obtain ⟨hun, hadj, hnr⟩ := hus u List.mem_cons_self
    obtain ⟨hunot, hnd'⟩ := List.nodup_cons.1 hnd
    have huT : u < st.T.size := by rw [inv.tsz]; exact hun
    have hvn := inv.cur.1
    have hvD : v < st.depth.size := by rw [inv.dsz]; exact hvn
    have huD : u < st.depth.size := by rw [inv.dsz]; exact hun
    have hgetu : st.T.getD u (-1) = st.T[u] := by simp [Array.getD, huT]
    -- the remaining neighbours stay unremoved after the edge (u, v) is removed
    have hus' : ∀ st' : PatonSt, st'.removed = (u, v) :: st.removed →
        ∀ u' ∈ us, u' < a.n ∧ a.adj v u' = true ∧ edgeRemoved st'.removed u' v = false := by
      intro st' hrm u' hu'
      obtain ⟨h1, h2, h3⟩ := hus u' (List.mem_cons_of_mem _ hu')
      refine ⟨h1, h2, ?_⟩
      rw [hrm]
      cases hh : edgeRemoved ((u, v) :: st.removed) u' v with
      | false => rfl
      | true =>
        rcases edgeRemoved_cons.1 hh with ⟨h4, _⟩ | ⟨h5, h4⟩ | h4
        · exact (hunot (by rw [h4]; exact hu')).elim
        · exact (hunot (by rw [h5, h4]; exact hu')).elim
        · rw [h3] at h4; cases h4
    have hprog' : ∀ st' : PatonSt, st'.removed = (u, v) :: st.removed →
        ∀ w, a.adj v w = true → w < a.n → w ∈ us ∨ edgeRemoved st'.removed w v = true := by
      intro st' hrm w hw hwn
      rw [hrm]
      rcases hprog w hw hwn with h | h
      · rcases List.mem_cons.1 h with rfl | h
        · exact .inr (edgeRemoved_cons.2 (.inl ⟨rfl, rfl⟩))
        · exact .inl h
      · exact .inr (edgeRemoved_cons.2 (.inr (.inr h)))
    unfold patonScan
    simp only [huT, dif_pos]
    by_cases htree : st.T[u] ≠ -1
    · -- u is in the tree: a fundamental cycle
      simp only [htree, ne_eq, not_false_eq_true, if_true, hvD, dif_pos]
      have hint : inTree st.T u := by unfold inTree; rw [hgetu]; exact htree
      obtain ⟨h0, hparn, hpart⟩ := inv.ptree u hun hint
      have hpar : st.T[u].toNat = par st.T u := by unfold par; rw [hgetu]
      rw [hpar]
      have hpD : par st.T u < st.depth.size := by rw [inv.dsz]; exact hparn
      simp only [hpD, dif_pos]
      -- depth[T[u]] ≤ depth[v]
      have hdle : dep st.depth (par st.T u) ≤ dep st.depth v := by
        by_cases huX : u ∈ st.X
        · exact (inv.xok u huX).2.2
        · by_cases huv : u = v
          · subst huv; exact inv.cur.2.2
          · exfalso
            have := inv.exam u hun hint huX huv v (by rw [hsym]; exact hadj) hvn
            have hsymrm : edgeRemoved st.removed u v = edgeRemoved st.removed v u := by
              simp [edgeRemoved, Bool.or_comm]
            rw [hsymrm, this] at hnr
            cases hnr
      have hdv : st.depth[v] = dep st.depth v := by simp [dep, Array.getD, hvD]
      have hdp : st.depth[par st.T u] = dep st.depth (par st.T u) := by simp [dep, Array.getD, hpD]
      rw [hdv, hdp]
      have hlen : ¬ ((dep st.depth v : Int) - (dep st.depth (par st.T u) : Int) + 2 < 2) := by omega
      simp only [hlen, if_false]
      obtain ⟨cyc, hcyc⟩ := patonBack_total inv
        (((dep st.depth v : Int) - (dep st.depth (par st.T u) : Int) + 2).toNat - 2) v
        [edgeCode u (par st.T u), edgeCode u v] hvn inv.cur.2.1
      rw [hcyc]
      simp only
      have inv' : PInv a { st with
          fund := st.fund ++ [sortInts cyc]
          removed := (u, v) :: st.removed } v :=
        { tsz := inv.tsz, dsz := inv.dsz, ptree := inv.ptree, xok := inv.xok, xsorted := inv.xsorted,
          xdep := inv.xdep, cur := inv.cur,
          exam := fun x hx ht hxX hxv w hw hwn =>
            edgeRemoved_cons.2 (.inr (.inr (inv.exam x hx ht hxX hxv w hw hwn))) }
      obtain ⟨st', e, i', p', m'⟩ := ih _ inv' hnd' (hus' _ rfl) (hprog' _ rfl)
      exact ⟨st', e, i', p', m'⟩
    · -- u joins the tree
      have hTu : st.T[u] = -1 := by
        by_contra h; exact htree h
      simp only [htree, if_false, huD, dif_pos, hvD]
      have hnotin : ¬ inTree st.T u := by unfold inTree; rw [hgetu, hTu]; simp
      have huv : u ≠ v := fun h => hnotin (h ▸ inv.cur.2.1)
      have hparne : ∀ x, x < a.n → inTree st.T x → par st.T x ≠ u := by
        intro x hx ht hp
        exact hnotin (hp ▸ (inv.ptree x hx ht).2.2)
      have hT' : ∀ w, (st.T.set u (v : Int) huT).getD w (-1) = if w = u then (v : Int) else st.T.getD w (-1) :=
        fun w => getD_set_int huT w
      have hD' : ∀ w, dep (st.depth.set u (st.depth[v] + 1) huD) w
          = if w = u then st.depth[v] + 1 else dep st.depth w := fun w => getD_set_nat huD w
      have hdv : st.depth[v] = dep st.depth v := by simp [dep, Array.getD, hvD]
      have hin' : ∀ x, inTree (st.T.set u (v : Int) huT) x ↔ (x = u ∨ inTree st.T x) := by
        intro x
        unfold inTree
        rw [hT']
        by_cases hx : x = u
        · simp [hx]
        · simp [hx]
      have hpar' : ∀ x, x ≠ u → par (st.T.set u (v : Int) huT) x = par st.T x := by
        intro x hx; unfold par; rw [hT']; simp [hx]
      have hparu : par (st.T.set u (v : Int) huT) u = v := by
        unfold par; rw [hT']; simp
      have inv' : PInv a { st with
          T := st.T.set u (v : Int) huT
          X := u :: st.X
          depth := st.depth.set u (st.depth[v] + 1) huD
          removed := (u, v) :: st.removed } v := by
        refine { tsz := by simp [inv.tsz], dsz := by simp [inv.dsz], ptree := ?_, xok := ?_, xsorted := ?_,
                 xdep := ?_, cur := ?_, exam := ?_ }
        · intro x hx ht
          have ht' := (hin' x).1 ht
          by_cases hxu : x = u
          · subst hxu
            refine ⟨by rw [hT']; simp, by rw [hparu]; exact hvn, ?_⟩
            rw [hparu]; exact (hin' v).2 (.inr inv.cur.2.1)
          · have htx : inTree st.T x := by
              rcases ht' with h | h
              · exact absurd h hxu
              · exact h
            obtain ⟨h0, h1, h2⟩ := inv.ptree x hx htx
            refine ⟨by rw [hT', if_neg hxu]; exact h0, by rw [hpar' x hxu]; exact h1, ?_⟩
            rw [hpar' x hxu]; exact (hin' _).2 (.inr h2)
        · intro x hx
          show x < a.n ∧ inTree (st.T.set u (v : Int) huT) x ∧
            dep (st.depth.set u (st.depth[v] + 1) huD) (par (st.T.set u (v : Int) huT) x)
              ≤ dep (st.depth.set u (st.depth[v] + 1) huD) v
          have hdvv : dep (st.depth.set u (st.depth[v] + 1) huD) v = dep st.depth v := by
            rw [hD']; simp [Ne.symm huv]
          rw [hdvv]
          have hx' : x ∈ u :: st.X := hx
          rcases List.mem_cons.1 hx' with rfl | hx'
          · refine ⟨hun, (hin' x).2 (.inl rfl), ?_⟩
            rw [hparu, hdvv]
            exact Nat.le_refl _
          · obtain ⟨h1, h2, h3⟩ := inv.xok x hx'
            have hxu : x ≠ u := fun h => hnotin (h ▸ h2)
            refine ⟨h1, (hin' x).2 (.inr h2), ?_⟩
            rw [hpar' x hxu, hD']
            simp [hparne x h1 h2, h3]
        · show (u :: st.X).Pairwise fun up lo =>
            dep (st.depth.set u (st.depth[v] + 1) huD) (par (st.T.set u (v : Int) huT) lo)
              ≤ dep (st.depth.set u (st.depth[v] + 1) huD) (par (st.T.set u (v : Int) huT) up)
          rw [List.pairwise_cons]
          constructor
          · intro lo hlo
            obtain ⟨h1, h2, h3⟩ := inv.xok lo hlo
            have hlou : lo ≠ u := fun h => hnotin (h ▸ h2)
            rw [hparu, hpar' lo hlou, hD', hD']
            simp [hparne lo h1 h2, Ne.symm huv, h3]
          · refine List.Pairwise.imp_of_mem ?_ inv.xsorted
            intro up lo hup hlo hle
            obtain ⟨u1, u2, _⟩ := inv.xok up hup
            obtain ⟨l1, l2, _⟩ := inv.xok lo hlo
            have hupu : up ≠ u := fun h => hnotin (h ▸ u2)
            have hlou : lo ≠ u := fun h => hnotin (h ▸ l2)
            rw [hpar' up hupu, hpar' lo hlou, hD', hD']
            simp [hparne up u1 u2, hparne lo l1 l2, hle]
        · intro x hx
          show dep (st.depth.set u (st.depth[v] + 1) huD) (par (st.T.set u (v : Int) huT) x)
            ≤ dep (st.depth.set u (st.depth[v] + 1) huD) x
          have hx' : x ∈ u :: st.X := hx
          rcases List.mem_cons.1 hx' with rfl | hx'
          · rw [hparu, hD', hD']; simp [Ne.symm huv, hdv]
          · obtain ⟨h1, h2, _⟩ := inv.xok x hx'
            have hxu : x ≠ u := fun h => hnotin (h ▸ h2)
            rw [hpar' x hxu, hD', hD']
            simp [hparne x h1 h2, hxu, inv.xdep x hx']
        · refine ⟨hvn, (hin' v).2 (.inr inv.cur.2.1), ?_⟩
          show dep (st.depth.set u (st.depth[v] + 1) huD) (par (st.T.set u (v : Int) huT) v)
            ≤ dep (st.depth.set u (st.depth[v] + 1) huD) v
          rw [hpar' v (Ne.symm huv), hD', hD']
          simp [hparne v hvn inv.cur.2.1, Ne.symm huv, inv.cur.2.2]
        · intro x hx ht hxX hxv w hw hwn
          have hxX' : x ∉ u :: st.X := hxX
          have hxu : x ≠ u := fun h => hxX' (by simp [h])
          have htx : inTree st.T x := by
            rcases (hin' x).1 ht with h | h
            · exact absurd h hxu
            · exact h
          exact edgeRemoved_cons.2 (.inr (.inr (inv.exam x hx htx (fun h => hxX' (List.mem_cons_of_mem _ h)) hxv w hw hwn)))
      obtain ⟨st', e, i', p', m'⟩ := ih _ inv' hnd' (hus' _ rfl) (hprog' _ rfl)
      refine ⟨st', e, i', p', ?_⟩
      rw [m']
      simp only [List.length_cons]
      rw [Array.count_set huT]
      have hpos : 0 < st.T.count (-1) := by
        rw [Array.count_pos_iff, ← hTu]; exact Array.getElem_mem huT
      simp only [hTu, beq_self_eq_true, if_true]
      have : ((v : Int) == -1) = false := by
        have h1 : (v : Int) ≠ -1 := by omega
        simpa using h1
      simp only [this, Bool.false_eq_true, if_false]
      omega

/-- invariant between two iterations of `for len(X) > 0` -/
structure POut (a : G) (st : PatonSt) : Prop where
  tsz : st.T.size = a.n
  dsz : st.depth.size = a.n
  ptree : ∀ x, x < a.n → inTree st.T x → 0 ≤ st.T.getD x (-1) ∧ par st.T x < a.n ∧ inTree st.T (par st.T x)
  xok : ∀ x ∈ st.X, x < a.n ∧ inTree st.T x
  xsorted : st.X.Pairwise fun up lo => dep st.depth (par st.T lo) ≤ dep st.depth (par st.T up)
  xdep : ∀ x ∈ st.X, dep st.depth (par st.T x) ≤ dep st.depth x
  exam : ∀ x, x < a.n → inTree st.T x → x ∉ st.X → ∀ w, a.adj x w = true → w < a.n →
    edgeRemoved st.removed w x = true

theorem patonLoop_total {a : G} (hsym : ∀ u v, a.adj u v = a.adj v u) :
    ∀ (fuel : Nat) (st : PatonSt), POut a st → st.X.length + st.T.count (-1) + 1 ≤ fuel →
      ∃ st', patonLoop a fuel st = .ok st' := by
  intro fuel
  induction fuel with
  | zero => intro st _ hf; omega
  | succ f ih =>
    intro st o hf
    unfold patonLoop
    match hX : st.X with
    | [] => exact ⟨st, rfl⟩
    | v :: X' =>
      have hvX : v ∈ st.X := by rw [hX]; exact List.mem_cons_self
      obtain ⟨hvn, hvt⟩ := o.xok v hvX
      have hsorted := o.xsorted
      rw [hX] at hsorted
      obtain ⟨hhead, htail⟩ := List.pairwise_cons.1 hsorted
      have inv : PInv a { st with X := X' } v :=
        { tsz := o.tsz, dsz := o.dsz, ptree := o.ptree,
          xok := fun x hx => by
            have hxX : x ∈ st.X := by rw [hX]; exact List.mem_cons_of_mem _ hx
            obtain ⟨h1, h2⟩ := o.xok x hxX
            exact ⟨h1, h2, Nat.le_trans (hhead x hx) (o.xdep v hvX)⟩,
          xsorted := htail,
          xdep := fun x hx => o.xdep x (by rw [hX]; exact List.mem_cons_of_mem _ hx),
          cur := ⟨hvn, hvt, o.xdep v hvX⟩,
          exam := fun x hx ht hxX hxv => o.exam x hx ht (by
            rw [hX]; intro hm
            rcases List.mem_cons.1 hm with h | h
            · exact hxv h
            · exact hxX h) }
      have hnbnd : ((a.nbrs v).filter fun u => !edgeRemoved st.removed u v).Nodup :=
        (List.nodup_range.filter _).filter _
      obtain ⟨st', e, inv', hrm, hm⟩ := patonScan_total hsym
        ((a.nbrs v).filter fun u => !edgeRemoved st.removed u v) { st with X := X' } inv hnbnd
        (fun u hu => by
          obtain ⟨h1, h2⟩ := List.mem_filter.1 hu
          obtain ⟨h3, h4⟩ := mem_nbrs.1 h1
          exact ⟨h3, h4, by simpa using h2⟩)
        (fun w hw hwn => by
          cases hh : edgeRemoved st.removed w v with
          | true => exact .inr rfl
          | false => exact .inl (List.mem_filter.2 ⟨mem_nbrs.2 ⟨hwn, hw⟩, by simp [hh]⟩))
      simp only [e]
      apply ih st'
      · refine { tsz := inv'.tsz, dsz := inv'.dsz, ptree := inv'.ptree,
                 xok := fun x hx => ⟨(inv'.xok x hx).1, (inv'.xok x hx).2.1⟩, xsorted := inv'.xsorted,
                 xdep := inv'.xdep, exam := ?_ }
        · intro x hx ht hxX w hw hwn
          by_cases hxv : x = v
          · subst hxv; exact hrm w hw hwn
          · exact inv'.exam x hx ht hxX hxv w hw hwn
      · have : st.X.length = X'.length + 1 := by rw [hX]; simp
        simp only at hm
        omega

/-- the initial state of Paton's phase in `cyclesOfBlock` -/
def patonInit (n : Nat) : PatonSt :=
  { removed := [], T := (Array.replicate n (-1)).setIfInBounds 0 0, depth := Array.replicate n 0, X := [0],
    fund := [] }

/-- **Paton's spanning-tree phase never panics and terminates** (any graph with a symmetric adjacency relation) -/
theorem paton_total (a : G) (hsym : ∀ u v, a.adj u v = a.adj v u) (hn : 0 < a.n) :
    ∃ st, patonLoop a (a.n + 1) (patonInit a.n) = .ok st := by
  have hset : (Array.replicate a.n (-1 : Int)).setIfInBounds 0 0
      = (Array.replicate a.n (-1 : Int)).set 0 0 (by simpa using hn) := by
    simp [Array.setIfInBounds, hn]
  have hT : ∀ w, ((Array.replicate a.n (-1 : Int)).setIfInBounds 0 0).getD w (-1) = if w = 0 then 0 else -1 := by
    intro w
    rw [hset, getD_set_int]
    by_cases hw : w = 0
    · simp [hw]
    · simp only [hw, if_false]
      by_cases hwn : w < a.n <;> simp [Array.getD, hwn]
  have hin : ∀ x, inTree (patonInit a.n).T x ↔ x = 0 := by
    intro x; unfold inTree patonInit; simp only; rw [hT]
    by_cases hx : x = 0 <;> simp [hx]
  have hpar0 : par (patonInit a.n).T 0 = 0 := by
    unfold par patonInit; simp only; rw [hT]; simp
  apply patonLoop_total hsym
  · refine { tsz := by simp [patonInit], dsz := by simp [patonInit], ptree := ?_, xok := ?_, xsorted := ?_,
             xdep := ?_, exam := ?_ }
    · intro x _ ht
      have hx := (hin x).1 ht
      subst hx
      refine ⟨by unfold patonInit; simp only; rw [hT]; simp, by rw [hpar0]; exact hn, ?_⟩
      rw [hpar0]; exact (hin 0).2 rfl
    · intro x hx
      have : x = 0 := by simpa [patonInit] using hx
      subst this; exact ⟨hn, (hin 0).2 rfl⟩
    · simp [patonInit]
    · intro x hx
      have : x = 0 := by simpa [patonInit] using hx
      subst this; rw [hpar0]; exact Nat.le_refl _
    · intro x _ ht hxX
      have hx := (hin x).1 ht
      subst hx
      exact absurd (by simp [patonInit]) hxX
  · have hc : (patonInit a.n).T.count (-1) + 1 ≤ a.n := by
      unfold patonInit; simp only
      rw [hset, Array.count_set (by simpa using hn)]
      simp
      omega
    simp only [patonInit, List.length_cons, List.length_nil] at hc ⊢
    omega

theorem gibbsStep3_total : ∀ (j : Nat) (R : Array (List Nat)) (P : List (List Nat)), j ≤ R.size →
    ∃ res, gibbsStep3 j R P = .ok res := by
  intro j
  induction j with
  | zero => intro R P _; exact ⟨(R, P), rfl⟩
  | succ j ih =>
    intro R P hj
    have hjR : j < R.size := by omega
    unfold gibbsStep3
    simp only [hjR, dif_pos]
    split
    · exact ih _ _ (by simp; omega)
    · exact ih _ _ (by omega)

/-- **Gibbs' steps 2–4 never panic** -/
theorem gibbsLoop_total : ∀ (fcs : List (List Nat)) (st : GibbsSt), ∃ st', gibbsLoop fcs st = .ok st' := by
  intro fcs
  induction fcs with
  | nil => intro st; exact ⟨st, rfl⟩
  | cons fc fcs ih =>
    intro st
    unfold gibbsLoop
    simp only
    obtain ⟨res, hres⟩ := gibbsStep3_total
      ((List.map (fun x => x.2)
        (List.filter (fun x => x.2.length != x.1.length + fc.length)
          (List.map (fun t => (t, sXor t fc)) st.Q))).length)
      ((List.map (fun x => x.2)
        (List.filter (fun x => x.2.length != x.1.length + fc.length)
          (List.map (fun t => (t, sXor t fc)) st.Q))).toArray) [] (by simp)
    obtain ⟨R', P'⟩ := res
    rw [hres]
    simp only
    exact ih _

end GDist
