import Mamba.Lemmas.CanonFOrbit
import Mamba.Lemmas.CanonFStep
/-!
# Heuristic 2 on the best-leaf path (`h2Best`), and "non-roots stay non-roots" for the union–find operations
-/
namespace CanonF
open Disjoint (rep)

/-! ## roots and representatives -/

theorem h2_getD_of_getElem? {ds : Disjoint.DS} {v : Nat} {y : Int} (hv : ds[v]? = some y) : ds.getD v 0 = y := by
  rw [Array.getD_eq_getD_getElem?, hv]; rfl

theorem rep_is_root {ds : Disjoint.DS} (hds : Disjoint.Inv ds) {v : Nat} (hv : v < ds.size) :
    Disjoint.rep ds v < ds.size ∧ ∃ y, ds[Disjoint.rep ds v]? = some y ∧ y < 0 := by
  have h1 := Disjoint.rep_lt hds v hv
  have h2 := Disjoint.rep_isRoot hds v hv
  refine ⟨h1, ds[Disjoint.rep ds v], by simp [h1], ?_⟩
  have : ds.getD (Disjoint.rep ds v) 0 = ds[Disjoint.rep ds v] := h2_getD_of_getElem? (by simp [h1])
  rw [← this]; exact h2

set_option linter.unusedVariables false in
theorem rep_self_of_root {ds : Disjoint.DS} (hds : Disjoint.Inv ds) {v : Nat} {y : Int} (hv : ds[v]? = some y) (hy : y < 0) :
    Disjoint.rep ds v = v :=
  Disjoint.rep_of_root ds v (by rw [h2_getD_of_getElem? hv]; exact hy)

/-- a successful `find` under the invariant, in the form "from `= .ok`" -/
theorem h2_find_ok {ds d' : Disjoint.DS} {x r : Nat} (hds : Disjoint.Inv ds) (h : Disjoint.find ds x = .ok (d', r)) :
    x < ds.size ∧ r = Disjoint.rep ds x ∧ Disjoint.Inv d' ∧ d'.size = ds.size ∧
      ∀ z, z < ds.size → Disjoint.rep d' z = Disjoint.rep ds z := by
  have hx := orb_find_lt h
  obtain ⟨d1, e1, i1, s1, k1⟩ := Disjoint.find_spec hds x hx
  rw [e1] at h
  injection h with h
  injection h with hd hr
  subst hd
  exact ⟨hx, hr.symm, i1, s1, k1⟩

/-! ## non-root entries stay non-root -/

theorem h2_nonroot_compress (tmp : Nat) : ∀ (xs : List Nat) (ds : Disjoint.DS) {w : Nat} {y : Int},
    ds[w]? = some y → y ≥ 0 → ∃ y', (Disjoint.compress ds tmp xs)[w]? = some y' ∧ y' ≥ 0 := by
  intro xs
  induction xs with
  | nil => intro ds w y hw hy; exact ⟨y, hw, hy⟩
  | cons s xs ih =>
    intro ds w y hw hy
    have e : Disjoint.compress ds tmp (s :: xs) = Disjoint.compress (ds.setIfInBounds s (tmp : Int)) tmp xs := rfl
    rw [e]
    have hws : w < ds.size := by
      apply Classical.byContradiction; intro hc
      rw [Disjoint.getElem?_none ds w hc] at hw; cases hw
    by_cases hsw : s = w
    · subst hsw
      exact ih _ (y := (tmp : Int)) (by rw [Array.getElem?_setIfInBounds, if_pos rfl, if_pos hws]) (by omega)
    · exact ih _ (y := y) (by rw [Array.getElem?_setIfInBounds, if_neg hsw]; exact hw) hy

/-- `Find` only redirects non-roots (path compression); holds without the invariant -/
theorem nonroot_find' {ds ds' : Disjoint.DS} {x r w : Nat} (h : Disjoint.find ds x = .ok (ds', r)) {y : Int}
    (hw : ds[w]? = some y) (hy : y ≥ 0) : ∃ y', ds'[w]? = some y' ∧ y' ≥ 0 := by
  unfold Disjoint.find Disjoint.findF at h
  osplit h
  · cases h; exact ⟨y, hw, hy⟩
  · cases h; exact h2_nonroot_compress _ _ _ hw hy

set_option linter.unusedVariables false in
theorem nonroot_find {ds ds' : Disjoint.DS} {x r w : Nat} (hds : Disjoint.Inv ds) (h : Disjoint.find ds x = .ok (ds', r))
    {y : Int} (hw : ds[w]? = some y) (hy : y ≥ 0) : ∃ y', ds'[w]? = some y' ∧ y' ≥ 0 :=
  nonroot_find' h hw hy

/-- `link` writes only at its two arguments -/
theorem h2_link_frame {ds ds' : Disjoint.DS} {a b : Nat} (h : Disjoint.link ds a b = .ok ds') (w : Nat)
    (hwa : w ≠ a) (hwb : w ≠ b) : ds'[w]? = ds[w]? := by
  unfold Disjoint.link at h
  osplit h
  · cases h; rfl
  · cases h; rw [Array.getElem?_setIfInBounds, if_neg (Ne.symm hwb)]
  · cases h; rw [Array.getElem?_setIfInBounds, if_neg (Ne.symm hwa)]
  · cases h
    rw [Array.getElem?_setIfInBounds, if_neg (Ne.symm hwb), Array.getElem?_setIfInBounds, if_neg (Ne.symm hwa)]

theorem nonroot_union {ds ds' : Disjoint.DS} {x y w : Nat} (hds : Disjoint.Inv ds) (h : Disjoint.union ds x y = .ok ds')
    {v : Int} (hw : ds[w]? = some v) (hv : v ≥ 0) : ∃ v', ds'[w]? = some v' ∧ v' ≥ 0 := by
  unfold Disjoint.union at h
  cases hf1 : Disjoint.find ds x with
  | ok pr1 =>
    obtain ⟨d1, px⟩ := pr1
    rw [hf1] at h; simp only at h
    obtain ⟨hx, hpx, i1, s1, k1⟩ := h2_find_ok hds hf1
    obtain ⟨v1, hw1, hv1⟩ := nonroot_find' hf1 hw hv
    cases hf2 : Disjoint.find d1 y with
    | ok pr2 =>
      obtain ⟨d2, py⟩ := pr2
      rw [hf2] at h; simp only at h
      obtain ⟨hy, hpy, i2, s2, k2⟩ := h2_find_ok i1 hf2
      obtain ⟨v2, hw2, hv2⟩ := nonroot_find' hf2 hw1 hv1
      have hrx : d2.getD px 0 < 0 := by
        have := Disjoint.rep_isRoot i2 x (by omega)
        rw [k2 x (by omega), k1 x hx, ← hpx] at this; exact this
      have hry : d2.getD py 0 < 0 := by
        have := Disjoint.rep_isRoot i2 y (by omega)
        rw [k2 y hy, ← hpy] at this; exact this
      have hwx : w ≠ px := by
        intro e; subst e; rw [h2_getD_of_getElem? hw2] at hrx; omega
      have hwy : w ≠ py := by
        intro e; subst e; rw [h2_getD_of_getElem? hw2] at hry; omega
      exact ⟨v2, by rw [h2_link_frame h w hwx hwy]; exact hw2, hv2⟩
    | panic => rw [hf2] at h; simp at h
    | outOfFuel => rw [hf2] at h; simp at h
  | panic => rw [hf1] at h; simp at h
  | outOfFuel => rw [hf1] at h; simp at h

/-- one step of the orbit loop keeps the invariant and non-roots (no size hypothesis needed: a successful `Find` has its
argument in range) -/
theorem nonroot_orbitStep {order permInv : Sl Nat} {i : Nat} {ds ds' : Disjoint.DS} {mm mm' : Bool}
    (hds : Disjoint.Inv ds) (h : orbitStep order permInv i (ds, mm) = .ok (ds', mm')) :
    Disjoint.Inv ds' ∧ ds'.size = ds.size ∧
      ∀ {w : Nat} {y : Int}, ds[w]? = some y → y ≥ 0 → ∃ y', ds'[w]? = some y' ∧ y' ≥ 0 := by
  unfold orbitStep at h
  simp only at h
  cases hp : permInv.get i with
  | ok p =>
    rw [hp] at h; simp only at h
    cases hv : order.get p with
    | ok v =>
      rw [hv] at h; simp only at h
      cases hf1 : Disjoint.find ds v with
      | ok pr1 =>
        obtain ⟨d1, r1⟩ := pr1
        rw [hf1] at h; simp only at h
        obtain ⟨hx1, _, i1, s1, _⟩ := h2_find_ok hds hf1
        cases hf2 : Disjoint.find d1 i with
        | ok pr2 =>
          obtain ⟨d2, r2⟩ := pr2
          rw [hf2] at h; simp only at h
          obtain ⟨hx2, _, i2, s2, _⟩ := h2_find_ok i1 hf2
          by_cases hne : r1 ≠ r2
          · rw [if_pos hne] at h
            obtain ⟨d3, e3, i3, s3, _⟩ := Disjoint.union_spec i2 i v (by omega) (by omega)
            have hu := e3
            rw [e3] at h
            injection h with h
            injection h with hd _
            subst hd
            refine ⟨i3, by omega, ?_⟩
            intro w y hw hy
            obtain ⟨y1, hw1, hy1⟩ := nonroot_find' hf1 hw hy
            obtain ⟨y2, hw2, hy2⟩ := nonroot_find' hf2 hw1 hy1
            exact nonroot_union i2 hu hw2 hy2
          · rw [if_neg hne] at h
            injection h with h
            injection h with hd _
            subst hd
            refine ⟨i2, by omega, ?_⟩
            intro w y hw hy
            obtain ⟨y1, hw1, hy1⟩ := nonroot_find' hf1 hw hy
            exact nonroot_find' hf2 hw1 hy1
        | panic => rw [hf2] at h; simp at h
        | outOfFuel => rw [hf2] at h; simp at h
      | panic => rw [hf1] at h; simp at h
      | outOfFuel => rw [hf1] at h; simp at h
    | panic => rw [hv] at h; simp at h
    | outOfFuel => rw [hv] at h; simp at h
  | panic => rw [hp] at h; simp at h
  | outOfFuel => rw [hp] at h; simp at h

theorem nonroot_orbitLoop {order permInv : Sl Nat} {n : Nat} {ds ds' : Disjoint.DS} {mm mm' : Bool}
    (hds : Disjoint.Inv ds) (h : forRange (orbitStep order permInv) n 0 (ds, mm) = .ok (ds', mm'))
    {w : Nat} {y : Int} (hw : ds[w]? = some y) (hy : y ≥ 0) : ∃ y', ds'[w]? = some y' ∧ y' ≥ 0 := by
  have key := forRange_inv (orbitStep order permInv)
    (fun _ (st : Disjoint.DS × Bool) => Disjoint.Inv st.1 ∧ ∃ y', st.1[w]? = some y' ∧ y' ≥ 0)
    n 0 (ds, mm) (ds', mm') ⟨hds, y, hw, hy⟩ ?_ h
  · exact key.2
  · rintro i ⟨d, m⟩ ⟨d', m'⟩ _ _ ⟨j1, y1, hw1, hy1⟩ hstep
    obtain ⟨a, _, c⟩ := nonroot_orbitStep j1 hstep
    exact ⟨a, c hw1 hy1⟩

/-! ## `h2Best` -/

/-- `binEndLoop` returns a lower bound of all dividers `> cp` (the first such divider, or the default if there is none) -/
theorem h2_binEnd (bd : Sl Nat) (cp dflt : Nat) (hs : bd.toList.Pairwise (· < ·)) : ∀ (k i be : Nat),
    bd.toList.length ≤ i + k → (∀ j d, j < i → bd.toList[j]? = some d → d ≤ cp) →
    binEndLoop bd cp dflt k i = .ok be → ∀ d ∈ bd.toList, cp < d → be ≤ d := by
  intro k
  induction k with
  | zero =>
    intro i be hlen hlow _ d hd hcd
    obtain ⟨j, hj, e⟩ := List.getElem_of_mem hd
    have := hlow j d (by omega) (by rw [List.getElem?_eq_getElem hj, e])
    omega
  | succ k ih =>
    intro i be hlen hlow h d hd hcd
    rw [binEndLoop] at h
    cases hg : bd.get i with
    | ok d0 =>
      rw [hg] at h; simp only at h
      have hg' : bd.toList[i]? = some d0 := Sl.get_eq_toList.1 hg
      by_cases hc : cp < d0
      · rw [if_pos hc] at h
        injection h with h
        subst h
        obtain ⟨j, hj, e⟩ := List.getElem_of_mem hd
        obtain ⟨hi, e0⟩ := List.getElem?_eq_some_iff.1 hg'
        by_cases hji : j < i
        · have := hlow j d hji (by rw [List.getElem?_eq_getElem hj, e]); omega
        · by_cases hji' : j = i
          · subst hji'; rw [e0] at e; omega
          · have := List.pairwise_iff_getElem.1 hs i j hi hj (by omega)
            rw [e0, e] at this; omega
      · rw [if_neg hc] at h
        refine ih (i + 1) be (by omega) ?_ h d hd hcd
        intro j d' hj hd'
        by_cases hji : j < i
        · exact hlow j d' hji hd'
        · have : j = i := by omega
          subst this
          rw [hg'] at hd'; injection hd' with hd'; omega
    | panic => rw [hg] at h; simp at h
    | outOfFuel => rw [hg] at h; simp at h

/-- the scan only path-compresses; a hit is a position in `[k, k + c)` whose element has representative `r0` -/
theorem h2_orbitScan {n : Nat} (order : Sl Nat) (r0 : Nat) : ∀ (c k : Nat) (ds ds' : Disjoint.DS) (b : Bool),
    Disjoint.Inv ds → ds.size = n → orbitScan order r0 c k ds = .ok (b, ds') →
    Disjoint.Inv ds' ∧ ds'.size = n ∧ (∀ v, v < n → Disjoint.rep ds' v = Disjoint.rep ds v) ∧
      (b = true → ∃ q w', k ≤ q ∧ q < k + c ∧ order.toList[q]? = some w' ∧ w' < n ∧ Disjoint.rep ds w' = r0) := by
  intro c
  induction c with
  | zero =>
    intro k ds ds' b hds hsz h
    simp only [orbitScan] at h
    injection h with h
    injection h with hb hd
    subst hd
    exact ⟨hds, hsz, fun _ _ => rfl, fun e => by rw [← hb] at e; cases e⟩
  | succ c ih =>
    intro k ds ds' b hds hsz h
    rw [orbitScan] at h
    cases hg : order.get k with
    | ok v =>
      rw [hg] at h; simp only at h
      cases hf : Disjoint.find ds v with
      | ok pr =>
        obtain ⟨d1, r⟩ := pr
        rw [hf] at h; simp only at h
        obtain ⟨hv, hr, i1, s1, k1⟩ := h2_find_ok hds hf
        by_cases hrr : r = r0
        · rw [if_pos hrr] at h
          injection h with h
          injection h with hb hd
          subst hd
          refine ⟨i1, by omega, fun z hz => k1 z (by omega), fun _ => ?_⟩
          exact ⟨k, v, Nat.le_refl _, by omega, Sl.get_eq_toList.1 hg, by omega, by rw [← hr]; exact hrr⟩
        · rw [if_neg hrr] at h
          obtain ⟨a1, a2, a3, a4⟩ := ih (k + 1) d1 ds' b i1 (by omega) h
          refine ⟨a1, a2, fun z hz => by rw [a3 z hz, k1 z (by omega)], fun hb => ?_⟩
          obtain ⟨q, w', q1, q2, q3, q4, q5⟩ := a4 hb
          exact ⟨q, w', by omega, by omega, q3, q4, by rw [← k1 w' (by omega)]; exact q5⟩
      | panic => rw [hf] at h; simp at h
      | outOfFuel => rw [hf] at h; simp at h
    | panic => rw [hg] at h; simp at h
    | outOfFuel => rw [hg] at h; simp at h

set_option linter.unusedVariables false in
theorem h2Best_spec {n : Nat} {op : OP} {ds ds' : Disjoint.DS} {cp ce : Nat} {b : Bool} (hp : PartInv n op)
    (hds : Disjoint.Inv ds) (hsz : ds.size = n) (hce : ce < n) (hcp : cp < n)
    (h : h2Best op ds cp ce = .ok (b, ds')) :
    Disjoint.Inv ds' ∧ ds'.size = n ∧ (∀ v, v < n → Disjoint.rep ds' v = Disjoint.rep ds v) ∧
    (b = true → ∃ q w', cp < q ∧ op.order.toList[q]? = some w' ∧ Disjoint.rep ds w' = Disjoint.rep ds ce ∧
       ∀ d ∈ op.binDividers.toList, ¬ (cp < d ∧ d ≤ q)) := by
  unfold h2Best at h
  cases hb : binEndLoop op.binDividers cp op.order.len op.binDividers.len 0 with
  | ok be =>
    rw [hb] at h; simp only at h
    cases hf : Disjoint.find ds ce with
    | ok pr =>
      obtain ⟨d1, r⟩ := pr
      rw [hf] at h; simp only at h
      obtain ⟨_, hr, i1, s1, k1⟩ := h2_find_ok hds hf
      obtain ⟨a1, a2, a3, a4⟩ := h2_orbitScan (n := n) op.order r _ _ _ _ _ i1 (by omega) h
      refine ⟨a1, a2, fun z hz => by rw [a3 z hz, k1 z (by omega)], fun hbt => ?_⟩
      obtain ⟨q, w', q1, q2, q3, q4, q5⟩ := a4 hbt
      have hlow := h2_binEnd op.binDividers cp op.order.len (List.pairwise_cons.1 hp.sorted).2
        op.binDividers.len 0 be (by rw [Sl.length_toList _ hp.wfBd]; omega) (fun j d hj => absurd hj (Nat.not_lt_zero _)) hb
      refine ⟨q, w', by omega, q3, by rw [← k1 w' (by omega), q5, hr], ?_⟩
      intro d hd hcd
      have := hlow d hd hcd.1
      omega
    | panic => rw [hf] at h; simp at h
    | outOfFuel => rw [hf] at h; simp at h
  | panic => rw [hb] at h; simp at h
  | outOfFuel => rw [hb] at h; simp at h

end CanonF
