import Mamba.Lemmas.DistanceBiconScan
import Mathlib.Logic.Function.Iterate
/-!
# DFS-tree invariants of the `BiconnectedComponents` model: accessors and preservation of the size invariant
-/
namespace GDist
open GraphSpec Model

variable {n : Nat}

/-! ### accessors of the state transformers -/

theorem dI_descendSt {st : BicSt} {v u : Nat} {cur : List Nat} (hu : u < st.depths.size) (x : Nat) :
    dI (descendSt st v u cur) x = if x = u then dI st v + 1 else dI st x := by
  unfold dI descendSt; simp only; exact getD_setIfInBounds _ _ _ _ _ hu

theorem lo_descendSt {st : BicSt} {v u : Nat} {cur : List Nat} (hu : u < st.low.size) (x : Nat) :
    lo (descendSt st v u cur) x = if x = u then dI st v + 1 else lo st x := by
  unfold lo descendSt; simp only; exact getD_setIfInBounds _ _ _ _ _ hu

theorem pa_descendSt {st : BicSt} {v u : Nat} {cur : List Nat} (hu : u < st.parents.size) (x : Nat) :
    pa (descendSt st v u cur) x = if x = u then (v : Int) else pa st x := by
  unfold pa descendSt; simp only; exact getD_setIfInBounds _ _ _ _ _ hu

theorem dI_emitSt (com : List Nat) (st : BicSt) (v u : Nat) (cur : List Nat) (x : Nat) :
    dI (emitSt com st v u cur) x = dI st x := rfl
theorem lo_emitSt (com : List Nat) (st : BicSt) (v u : Nat) (cur : List Nat) (x : Nat) :
    lo (emitSt com st v u cur) x = lo st x := rfl
theorem pa_emitSt (com : List Nat) {st : BicSt} {v u : Nat} {cur : List Nat} (hu : u < st.parents.size) (x : Nat) :
    pa (emitSt com st v u cur) x = if x = u then -1 else pa st x := by
  unfold pa emitSt; simp only; exact getD_setIfInBounds _ _ _ _ _ hu

theorem dI_popSt (st : BicSt) (v : Nat) (rest : List Nat) (t : Int) (bs : List (List Nat)) (c : List Nat) (x : Nat) :
    dI (popSt st v rest t bs c) x = dI st x := rfl
theorem pa_popSt (st : BicSt) (v : Nat) (rest : List Nat) (t : Int) (bs : List (List Nat)) (c : List Nat) (x : Nat) :
    pa (popSt st v rest t bs c) x = pa st x := rfl
theorem lo_popSt {st : BicSt} {v : Nat} (rest : List Nat) (t : Int) (bs : List (List Nat)) (c : List Nat)
    (hv : v < st.low.size) (x : Nat) :
    lo (popSt st v rest t bs c) x = if x = v then t else lo st x := by
  unfold lo popSt; simp only; exact getD_setIfInBounds _ _ _ _ _ hv

/-! ### the size invariant `BOk` under the transformers -/

theorem bok_descend {st : BicSt} {v u : Nat} {cur : List Nat} (ok : BOk n st) (hv : v < n) (hu : u < n)
    (hcur : st.bicoms.getLast? = some cur) (hvpos : 0 ≤ dI st v) : BOk n (descendSt st v u cur) := by
  have huD : u < st.depths.size := by rw [ok.dsz]; exact hu
  refine { dsz := by simp [descendSt, ok.dsz], lsz := by simp [descendSt, ok.lsz],
           psz := by simp [descendSt, ok.psz], asz := ok.asz, stk := ?_, bne := ?_, bpre := ?_, belem := ?_,
           osorted := ok.osorted }
  · intro x hx
    have hx' : x ∈ u :: st.toCheck := hx
    have hxn : x < n := by
      rcases List.mem_cons.1 hx' with rfl | hx'
      · exact hu
      · obtain ⟨h1, _⟩ := ok.stk x hx'; rw [← ok.dsz]; exact h1
    have hsz : (descendSt st v u cur).depths.size = n := by simp [descendSt, ok.dsz]
    refine ⟨by rw [hsz]; exact hxn, ?_⟩
    have hg : (descendSt st v u cur).depths[x]'(by rw [hsz]; exact hxn) = dI (descendSt st v u cur) x := by
      simp [dI, Array.getD, hsz, hxn]
    rw [hg, dI_descendSt huD]
    rcases List.mem_cons.1 hx' with rfl | hx'
    · simp; omega
    · obtain ⟨h1, h2⟩ := ok.stk x hx'
      have : st.depths[x] = dI st x := by simp [dI, Array.getD, h1]
      split
      · omega
      · rw [← this]; exact h2
  · show (if cur.length > 0 then st.bicoms ++ [[]] else st.bicoms) ≠ []
    split
    · simp
    · exact ok.bne
  · intro b hb
    have hb' : b ∈ (if cur.length > 0 then st.bicoms ++ [[]] else st.bicoms).dropLast := hb
    by_cases hlen : cur.length > 0
    · simp only [hlen, if_true, List.dropLast_concat] at hb'
      rcases mem_dropLast_or_last hb' hcur with h0 | h0
      · exact ok.bpre b h0
      · subst h0; intro h0; rw [h0] at hlen; simp at hlen
    · simp only [hlen, if_false] at hb'
      exact ok.bpre b hb'
  · intro b hb x hx
    have hb' : b ∈ (if cur.length > 0 then st.bicoms ++ [[]] else st.bicoms) := hb
    by_cases hlen : cur.length > 0
    · simp only [hlen, if_true] at hb'
      rcases List.mem_append.1 hb' with hb' | hb'
      · exact ok.belem b hb' x hx
      · simp at hb'; subst hb'; cases hx
    · simp only [hlen, if_false] at hb'
      exact ok.belem b hb' x hx

theorem bok_emit (com : List Nat) {st : BicSt} {v u : Nat} {cur : List Nat} (ok : BOk n st) :
    BOk n (emitSt com st v u cur) :=
  { dsz := ok.dsz, lsz := ok.lsz, psz := by simp [emitSt, ok.psz], asz := by simp [emitSt, ok.asz],
    stk := ok.stk, bne := setLast_ne_nil _ _,
    bpre := fun b hb => ok.bpre b (by
      have : b ∈ (setLast st.bicoms []).dropLast := hb
      rw [setLast_dropLast] at this; exact this),
    belem := fun b hb x hx => (by
      have hb' : b ∈ setLast st.bicoms [] := hb
      rcases mem_setLast hb' with h0 | h0
      · exact ok.belem b ((List.dropLast_sublist _).subset h0) x hx
      · subst h0; cases hx),
    osorted := fun b hb => (by
      have hb' : b ∈ st.out ++ [sortInts ((cur ++ [v]).map fun x => com.getD x 0)] := hb
      rcases List.mem_append.1 hb' with h0 | h0
      · exact ok.osorted b h0
      · simp at h0; subst h0; exact sortInts_sorted _) }

theorem bok_pop {st : BicSt} {v : Nat} {rest : List Nat} {t : Int} {bs : List (List Nat)} {c2 : List Nat}
    (ok : BOk n st) (hv : v < n) (hstk : st.toCheck = v :: rest) (hc2 : bs.getLast? = some c2)
    (hbs2 : ∀ b ∈ bs.dropLast, b ≠ []) (hbs3 : ∀ b ∈ bs, ∀ x ∈ b, x < n) :
    BOk n (popSt st v rest t bs c2) := by
  refine { dsz := ok.dsz, lsz := by simp [popSt, ok.lsz], psz := ok.psz, asz := ok.asz, stk := ?_,
           bne := setLast_ne_nil _ _, bpre := ?_, belem := ?_, osorted := ok.osorted }
  · intro x hx
    exact ok.stk x (by rw [hstk]; exact List.mem_cons_of_mem _ hx)
  · intro b hb
    have hb' : b ∈ (setLast bs (c2 ++ [v])).dropLast := hb
    rw [setLast_dropLast] at hb'
    exact hbs2 b hb'
  · intro b hb x hx
    have hb' : b ∈ setLast bs (c2 ++ [v]) := hb
    rcases mem_setLast hb' with h0 | h0
    · exact hbs3 b ((List.dropLast_sublist _).subset h0) x hx
    · subst h0
      rcases List.mem_append.1 hx with hx' | hx'
      · exact hbs3 c2 (List.mem_of_getLast? hc2) x hx'
      · simp at hx'; subst hx'; exact hv

/-- the facts about the merged list needed by `bok_pop`, from `bicPop_cases` -/
theorem pop_bs_facts {st : BicSt} {v : Nat} {bs : List (List Nat)} (ok : BOk n st)
    (h0 : v = 0 → bs = st.bicoms)
    (h1 : v ≠ 0 → ∃ cur, st.bicoms.getLast? = some cur ∧
      bicMerge st.depths (dI st v) st.bicoms.dropLast.reverse cur = .ok bs) :
    (∀ b ∈ bs.dropLast, b ≠ []) ∧ (∀ b ∈ bs, ∀ x ∈ b, x < n) := by
  by_cases hv0 : v = 0
  · rw [h0 hv0]; exact ⟨ok.bpre, ok.belem⟩
  · obtain ⟨cur, hcur, hm⟩ := h1 hv0
    obtain ⟨bs', e, _, h2, h3⟩ := bicMerge_total st.depths (dI st v) ok.dsz st.bicoms.dropLast.reverse cur
      (fun b hb => by
        have hb' := List.mem_reverse.1 hb
        exact ⟨ok.bpre b hb', ok.belem b ((List.dropLast_sublist _).subset hb')⟩)
      (ok.belem cur (List.mem_of_getLast? hcur))
    rw [hm] at e
    cases e
    exact ⟨h2, h3⟩

end GDist
