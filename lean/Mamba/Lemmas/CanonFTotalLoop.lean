import Mamba.Lemmas.CanonFTotalDef
/-!
# Totality of the stepping loops `jLoop` / `stepLoop`

Mirror of `jLoopJ_spec` / `stepLoopJ_spec` (`CanonFStepJ.lean`): same case analysis; a panic / out-of-fuel outcome is
refuted in every branch by the progress obligations `StepT`.
-/
namespace CanonF

/-- an outcome that is neither a panic nor out of fuel is a value -/
theorem tl_ok_of_not_bad {α : Type} {o : Outcome α} (h : (o = .panic ∨ o = .outOfFuel) → False) : ∃ v, o = .ok v := by
  cases o with
  | ok v => exact ⟨v, rfl⟩
  | panic => exact absurd (Or.inl rfl) h
  | outOfFuel => exact absurd (Or.inr rfl) h

theorem tl_ok_bad {α : Type} {o : Outcome α} {v : α} (h : Outcome.ok v = o) (hb : o = .panic ∨ o = .outOfFuel) : False := by
  subst h
  rcases hb with e | e <;> cases e

theorem tl_maybeDeage {n : Nat} {nb : Nbrs} {JA JN JS : List (Nat × Nat) → LS → Prop} (ht : StepT n nb JA JN JS)
    {s : LS} {lv : List (Nat × Nat)} {k : Nat} (hc : Core n s) (htop : TopOK s.op k s.path s.choices lv)
    (hage : s.op.age + (if s.skipDeage then 1 else 0) = s.path.length) (hA : JA lv s) :
    ∃ s', maybeDeage s = .ok s' := by
  unfold maybeDeage
  by_cases hsk : s.skipDeage = true
  · simp only [hsk, Bool.not_true, Bool.false_eq_true, if_false]
    exact ⟨_, rfl⟩
  · have hsk' : s.skipDeage = false := by simpa using hsk
    simp only [hsk', Bool.not_false, if_true]
    simp only [hsk', Bool.false_eq_true, if_false, Int.add_zero] at hage
    obtain ⟨op', hd⟩ := ht.deage lv s k hc htop hsk' hage hA
    rw [hd]
    exact ⟨_, rfl⟩

theorem tl_jLoop_not_bad {n : Nat} {nb : Nbrs} {JA JN JS : List (Nat × Nat) → LS → Prop} (hj : StepJ n nb JA JN JS)
    (ht : StepT n nb JA JN JS) :
    ∀ (k : Nat) (s : LS) (lv : List (Nat × Nat)) (o : Outcome (Bool × LS)),
    Core n s → TopOK s.op k s.path s.choices lv →
    s.op.age + (if s.skipDeage then 1 else 0) = s.path.length →
    JA lv s → (s.skipDeage = true → JN lv s) →
    jLoop nb k s = o → (o = .panic ∨ o = .outOfFuel) → False := by
  intro k
  induction k with
  | zero =>
    intro s lv o hc htop hage hA hN h hb
    rw [jLoop] at h
    exact tl_ok_bad h hb
  | succ j ih =>
    intro s lv o hc htop hage hA hN h hb
    rw [jLoop] at h
    obtain ⟨s1, hm⟩ := tl_maybeDeage ht hc htop hage hA
    rw [hm] at h
    simp only at h
    obtain ⟨c1, t1, a1, k1, p1, ch1, f1, _, bo1⟩ :=
      maybeDeage_spec (StepQ.trivial n nb s.currentBest s.firstLeaf) hc htop hage trivial (fun _ => trivial) hm
    have n1 : JN lv s1 := maybeDeageJ_spec hj hc htop hage hA hN hm
    cases hpath : s1.path with
    | nil => rw [hpath] at t1; cases hcc : s1.choices <;> simp [TopOK] at t1
    | cons p ps =>
      cases hch : s1.choices with
      | nil => rw [hpath, hch] at t1; simp [TopOK] at t1
      | cons c cs =>
        cases hlv : lv with
        | nil => rw [hpath, hch, hlv] at t1; simp [TopOK] at t1
        | cons x ls =>
          obtain ⟨st, sz⟩ := x
          subst hlv
          have t1' := t1
          rw [hpath, hch] at t1
          simp only [TopOK] at t1
          obtain ⟨tb, tsz, tc, tk, tl⟩ := t1
          rw [hch, hpath] at h
          simp only at h
          have hc0 : ¬ (c = 0) := by omega
          rw [if_neg hc0] at h
          have hlen : (s1.path.length : Int) = ps.length + 1 := by rw [hpath]; simp
          have hage1 : s1.op.age = ps.length := by omega
          have hbin := top_isBin c1.part c1.age (a := (ps.length : Int) + 1) (by omega) tb
          obtain ⟨hns, hin⟩ := nonSingleton_of_isBin c1.part hbin tsz (c - 1) (by omega) (by omega)
          obtain ⟨ce, hget, _⟩ := Sl.get_ok_of_lt c1.part.wfOrder (i := c - 1) (by rw [c1.part.lenOrder]; exact hin)
          rw [hget] at h
          simp only at h
          -- common continuation for the two Heuristic-2 skips
          have hskip : ∀ (bo : Disjoint.DS),
              JN ((st, sz) :: ls) { s1 with path := p :: ps, choices := (c - 1) :: cs, skipDeage := true, bestOrbits := bo } →
              jLoop nb j { s1 with path := p :: ps, choices := (c - 1) :: cs, skipDeage := true, bestOrbits := bo } = o →
              False := by
            intro bo hjn hjl
            have hfr : StepFrame s { s1 with path := p :: ps, choices := (c - 1) :: cs, skipDeage := true, bestOrbits := bo } := by
              unfold StepFrame at f1 ⊢; rw [f1]
            exact ih { s1 with path := p :: ps, choices := (c - 1) :: cs, skipDeage := true, bestOrbits := bo } ((st, sz) :: ls) o
              (Core.of_frame hc hfr c1.part c1.age)
              (by
                simp only [TopOK]
                exact ⟨tb, tsz, by omega, by omega, tl⟩)
              (by simp only [if_true, List.length_cons]; omega) (hj.na _ _ hjn) (fun _ => hjn) hjl hb
          split at h
          · -- first Heuristic 2 test: skip
            rename_i hh
            split at hh
            · rename_i hon
              split at hh
              · rename_i x hx
                simp only [Outcome.ok.injEq, decide_eq_true_eq] at hh
                have := hj.skipA st sz ls s1 c cs p ps ce x j c1 t1' k1 a1 hch hpath hget hon hx hh n1
                have e : ({ s1 with path := p :: ps, choices := (c - 1) :: cs, skipDeage := true, bestOrbits := s1.bestOrbits } : LS)
                    = { s1 with choices := (c - 1) :: cs, skipDeage := true } := by
                  rw [← hpath]
                exact hskip s1.bestOrbits (by rw [e]; exact this) h
              · cases hh
            · cases hh
          · split at h
            · rename_i hh2a bo hh
              split at hh
              · rename_i hon
                have := hj.skipB st sz ls s1 c cs p ps ce bo j c1 t1' k1 a1 hch hpath hget hon hh n1
                have e : ({ s1 with path := p :: ps, choices := (c - 1) :: cs, skipDeage := true, bestOrbits := bo } : LS)
                    = { s1 with choices := (c - 1) :: cs, bestOrbits := bo, skipDeage := true } := by
                  rw [← hpath]
                exact hskip bo (by rw [e]; exact this) h
              · cases hh
            · -- splitBin
              rename_i hh2a bo hh
              have hfirst : ∀ t, t < binStartOf s1.op.binDividers.toList (c - 1) → t + 1 ∈ s1.op.binDividers.toList := by
                intro t ht'
                have hle := binStartOf_le_start c1.part hbin.2.2 hin (show c - 1 < st + sz by omega)
                exact top_firstBin c1.part c1.age (a := (ps.length : Int) + 1) (by omega) tb t (by omega)
              obtain ⟨⟨worse, op'⟩, hsp⟩ := ht.split st sz ls s1 c cs p ps ce j c1 t1' k1 a1 hch hpath hget hns hfirst n1
              rw [hsp] at h
              simp only at h
              obtain ⟨q1, q2, q3, q4, _⟩ := splitBin_inv c1.part c1.age hin hns hsp
              obtain ⟨qn, qa⟩ := hj.split st sz ls s1 c cs p ps ce bo worse op' j c1 t1' k1 a1 hch hpath hget hh hns hfirst hsp n1
              have hfr3 : StepFrame s { s1 with choices := (c - 1) :: cs, op := op', path := j :: ps, bestOrbits := bo } := by
                unfold StepFrame at f1 ⊢; rw [f1]
              have hfrm : ∀ a : Int, a ≤ s1.op.age + 1 → oldDivs a op' = oldDivs a s1.op :=
                fun a ha => oldDivs_of_ne q4 a ha
              have hlev : LevelsOK op' ps cs ls := LevelsOK_frame hfrm ps cs ls (by omega) tl
              have hbin' : IsBinAt ((ps.length : Int) + 1) op' st sz :=
                (IsBinAt_frame (hfrm _ (by omega)) st sz).2 tb
              by_cases hw : worse = true
              · rw [if_pos hw] at h
                exact ih _ ((st, sz) :: ls) o (Core.of_frame hc hfr3 q1 q2)
                  (by
                    simp only [TopOK]
                    exact ⟨hbin', tsz, by omega, by omega, hlev⟩)
                  (by simp only [k1, Bool.false_eq_true, if_false, List.length_cons]; omega) (qa hw)
                  (by simp only [k1]; intro hc; cases hc) h hb
              · rw [if_neg hw] at h
                exact tl_ok_bad h hb
            · -- `h2Best` panics: impossible
              rename_i hh
              split at hh
              · rename_i hon
                obtain ⟨r, hr⟩ := ht.h2 st sz ls s1 c cs p ps ce j c1 t1' k1 a1 hch hpath hget hon n1
                rw [hr] at hh
                cases hh
              · cases hh
            · rename_i hh
              split at hh
              · rename_i hon
                obtain ⟨r, hr⟩ := ht.h2 st sz ls s1 c cs p ps ce j c1 t1' k1 a1 hch hpath hget hon n1
                rw [hr] at hh
                cases hh
              · cases hh
          · -- `flOrbits[ce]?` out of range: impossible
            rename_i hh
            split at hh
            · rename_i hon
              obtain ⟨x, hx⟩ := ht.flOrb st sz ls s1 c cs p ps ce j c1 t1' k1 a1 hch hpath hget hon n1
              split at hh
              · cases hh
              · rename_i hnone
                rw [hx] at hnone
                cases hnone
            · cases hh
          · rename_i hh
            split at hh
            · rename_i hon
              split at hh
              · cases hh
              · cases hh
            · cases hh

/-- W1: `jLoop` returns -/
theorem jLoopT {n : Nat} {nb : Nbrs} {JA JN JS : List (Nat × Nat) → LS → Prop} (hj : StepJ n nb JA JN JS)
    (ht : StepT n nb JA JN JS) :
    ∀ (k : Nat) (s : LS) (lv : List (Nat × Nat)),
    Core n s → TopOK s.op k s.path s.choices lv →
    s.op.age + (if s.skipDeage then 1 else 0) = s.path.length →
    JA lv s → (s.skipDeage = true → JN lv s) →
    ∃ b s', jLoop nb k s = .ok (b, s') := by
  intro k s lv hc htop hage hA hN
  obtain ⟨⟨b, s'⟩, h⟩ := tl_ok_of_not_bad (tl_jLoop_not_bad hj ht k s lv _ hc htop hage hA hN rfl)
  exact ⟨b, s', h⟩

theorem tl_stepLoop_not_bad {n : Nat} {nb : Nbrs} {JA JN JS : List (Nat × Nat) → LS → Prop} (hj : StepJ n nb JA JN JS)
    (ht : StepT n nb JA JN JS) :
    ∀ (k : Nat) (s : LS) (lv : List (Nat × Nat)) (o : Outcome (Bool × LS)),
    Core n s → LevelsOK s.op s.path s.choices lv →
    s.op.age + (if s.skipDeage then 1 else 0) = s.path.length →
    JA lv s → (s.skipDeage = true → JN lv s) → s.path.length ≤ k →
    stepLoop nb k s = o → (o = .panic ∨ o = .outOfFuel) → False := by
  intro k
  induction k with
  | zero =>
    intro s lv o hc hl hage hA hN hk h hb
    rw [stepLoop] at h
    split at h
    · exact tl_ok_bad h hb
    · rename_i hne
      exact hne (List.length_eq_zero_iff.1 (by omega))
  | succ k ih =>
    intro s lv o hc hl hage hA hN hk h hb
    rw [stepLoop] at h
    split at h
    · exact tl_ok_bad h hb
    · rename_i p ps hp
      have hl0 := hl
      rw [hp] at hl
      have htop := LevelsOK_top hl
      rw [← hp] at htop
      obtain ⟨b1, s1, hjl⟩ := jLoopT hj ht p s lv hc htop hage hA hN
      rw [hjl] at h
      obtain ⟨c1, f1, l1, t1, e1, _, _, z1⟩ := jLoop_spec (StepQ.trivial n nb s.currentBest s.firstLeaf) p s lv b1 s1 hc htop hage
        rfl rfl trivial (fun _ => trivial) hjl
      obtain ⟨j1, j2⟩ := jLoopJ_spec hj p s lv b1 s1 hc htop hage hA hN hjl
      cases b1 with
      | true =>
        simp only at h
        exact tl_ok_bad h hb
      | false =>
        simp only at h
        obtain ⟨t0, g0⟩ := e1 rfl
        obtain ⟨ja, jn⟩ := j2 rfl
        obtain ⟨s2, hm⟩ := tl_maybeDeage ht c1 t0 g0 ja
        rw [hm] at h
        simp only at h
        obtain ⟨c2, t2, a2, k2, p2, ch2, f2, _, bo2⟩ :=
          maybeDeage_spec (StepQ.trivial n nb s.currentBest s.firstLeaf) c1 t0 g0 trivial (fun _ => trivial) hm
        have n2 : JN lv s2 := maybeDeageJ_spec hj c1 t0 g0 ja jn hm
        cases hpath : s2.path with
        | nil => rw [hpath] at t2; cases hcc : s2.choices <;> simp [TopOK] at t2
        | cons p' ps' =>
          cases hch : s2.choices with
          | nil => rw [hpath, hch] at t2; simp [TopOK] at t2
          | cons c' cs' =>
            cases hlv : lv with
            | nil => rw [hpath, hch, hlv] at t2; simp [TopOK] at t2
            | cons x ls =>
              obtain ⟨st, sz⟩ := x
              have t2' := t2
              rw [hpath, hch, hlv] at t2
              simp only [TopOK] at t2
              have hfr : StepFrame s { s2 with path := s2.path.drop 1, choices := s2.choices.drop 1 } := by
                have := f1.trans f2
                unfold StepFrame at this ⊢; rw [this]
              rw [hlv] at t2' n2
              have hpop := hj.pop st sz ls s2 c2 t2' k2 a2 n2
              have hlen2 : s2.path.length = s.path.length := by rw [p2, l1]
              exact ih _ ls o (Core.of_frame hc hfr c2.part c2.age)
                (by simp only [hpath, hch, List.drop_succ_cons, List.drop_zero]; exact t2.2.2.2.2)
                (by simp only [k2, hpath, List.drop_succ_cons, List.drop_zero, Bool.false_eq_true, if_false]
                    rw [hpath] at a2; simp only [List.length_cons] at a2; omega)
                hpop (by simp only [k2]; intro hc; cases hc)
                (by
                  show (s2.path.drop 1).length ≤ k
                  rw [List.length_drop, hlen2]; omega) h hb

/-- W1: `stepLoop` returns -/
theorem stepLoopT {n : Nat} {nb : Nbrs} {JA JN JS : List (Nat × Nat) → LS → Prop} (hj : StepJ n nb JA JN JS)
    (ht : StepT n nb JA JN JS) :
    ∀ (k : Nat) (s : LS) (lv : List (Nat × Nat)),
    Core n s → LevelsOK s.op s.path s.choices lv →
    s.op.age + (if s.skipDeage then 1 else 0) = s.path.length →
    JA lv s → (s.skipDeage = true → JN lv s) → s.path.length ≤ k →
    ∃ b s', stepLoop nb k s = .ok (b, s') := by
  intro k s lv hc hl hage hA hN hk
  obtain ⟨⟨b, s'⟩, h⟩ := tl_ok_of_not_bad (tl_stepLoop_not_bad hj ht k s lv _ hc hl hage hA hN hk rfl)
  exact ⟨b, s', h⟩

end CanonF
