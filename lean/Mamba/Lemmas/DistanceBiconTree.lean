import Mamba.Lemmas.DistanceBiconAcc
/-!
# DFS-tree invariant of the `BiconnectedComponents` model (stack = root path, no cross edges)
-/
namespace GDist
open GraphSpec Model

/-- `a` is an ancestor of `x` (or `x` itself) in the forest given by the parent function `tp` -/
def Anc (tp : Nat → Nat) (a x : Nat) : Prop := ∃ k, tp^[k] x = a

/-- the stack (top first) is a path of the tree that ends in the root `0` -/
def StackPath (tp : Nat → Nat) : List Nat → Prop
  | [] => True
  | [x] => x = 0
  | x :: y :: t => tp x = y ∧ x ≠ 0 ∧ StackPath tp (y :: t)

structure DT (h : G) (st : BicSt) (tp : Nat → Nat) : Prop where
  ok : BOk h.n st
  root : dI st 0 = 0
  tp0 : tp 0 = 0
  tree : ∀ x, x < h.n → bvis st x → x ≠ 0 →
    tp x < h.n ∧ bvis st (tp x) ∧ h.adj (tp x) x = true ∧ dI st x = dI st (tp x) + 1
  dnn : ∀ x, bvis st x → 0 ≤ dI st x
  path : StackPath tp st.toCheck
  svis : ∀ x ∈ st.toCheck, x < h.n ∧ bvis st x
  sdec : st.toCheck.Pairwise fun up lw => dI st lw < dI st up
  fin : ∀ x, x < h.n → bvis st x → x ∉ st.toCheck → ∀ w, h.adj x w = true → w < h.n → bvis st w
  nocross : ∀ x y, x < h.n → y < h.n → bvis st x → bvis st y → h.adj x y = true → Anc tp x y ∨ Anc tp y x
  first : ∀ x ∈ st.toCheck, x ≠ 0 → ∀ w, h.adj (tp x) w = true → w < x → bvis st w
  pastk : ∀ x ∈ st.toCheck, x ≠ 0 → pa st x = (tp x : Int)
  pa0 : pa st 0 = 0
  lostk : ∀ x ∈ st.toCheck, lo st x = dI st x

variable {h : G} {st : BicSt} {tp : Nat → Nat}

theorem Anc.refl (tp : Nat → Nat) (x : Nat) : Anc tp x x := ⟨0, rfl⟩

theorem Anc.parent {a x : Nat} (h1 : Anc tp a (tp x)) : Anc tp a x := by
  obtain ⟨k, hk⟩ := h1
  exact ⟨k + 1, by rw [Function.iterate_succ_apply]; exact hk⟩

theorem Anc.trans {a b x : Nat} (h1 : Anc tp a b) (h2 : Anc tp b x) : Anc tp a x := by
  obtain ⟨j, hj⟩ := h1
  obtain ⟨k, hk⟩ := h2
  exact ⟨j + k, by rw [Function.iterate_add_apply, hk, hj]⟩

/-- iterating the parent function from a visited vertex stays among the visited vertices -/
theorem DT.iter_vis (dt : DT h st tp) {x : Nat} (hx : x < h.n) (hv : bvis st x) :
    ∀ k, tp^[k] x < h.n ∧ bvis st (tp^[k] x) := by
  intro k
  induction k with
  | zero => exact ⟨hx, hv⟩
  | succ k ih =>
    rw [Function.iterate_succ_apply']
    by_cases h0 : tp^[k] x = 0
    · rw [h0, dt.tp0]; rw [h0] at ih; exact ih
    · obtain ⟨h1, h2, _, _⟩ := dt.tree _ ih.1 ih.2 h0
      exact ⟨h1, h2⟩

/-- depths do not increase towards ancestors -/
theorem DT.anc_depth (dt : DT h st tp) {a x : Nat} (hx : x < h.n) (hv : bvis st x) (ha : Anc tp a x) :
    dI st a ≤ dI st x := by
  obtain ⟨k, rfl⟩ := ha
  induction k with
  | zero => exact Int.le_refl _
  | succ k ih =>
    rw [Function.iterate_succ_apply']
    obtain ⟨h1, h2⟩ := dt.iter_vis hx hv k
    by_cases h0 : tp^[k] x = 0
    · rw [h0, dt.tp0]; rw [h0] at ih; exact ih
    · obtain ⟨_, _, _, h4⟩ := dt.tree _ h1 h2 h0
      omega

/-- every stack vertex is an ancestor of the top -/
theorem stackPath_anc : ∀ (l : List Nat) (v : Nat), StackPath tp (v :: l) → ∀ y ∈ v :: l, Anc tp y v
  | [], v, _, y, hy => by simp at hy; subst hy; exact Anc.refl _ _
  | w :: l, v, hp, y, hy => by
    obtain ⟨h1, _, h3⟩ := hp
    rcases List.mem_cons.1 hy with rfl | hy
    · exact Anc.refl _ _
    · have := stackPath_anc l w h3 y hy
      exact Anc.parent (by rw [h1]; exact this)

theorem stackPath_tail : ∀ {v : Nat} {l : List Nat}, StackPath tp (v :: l) → StackPath tp l
  | _, [], _ => trivial
  | _, _ :: _, hp => hp.2.2

/-- changing the parent of an unvisited vertex does not change iterates from visited vertices -/
theorem iterate_update (dt : DT h st tp) {u v x : Nat} (hu : ¬ bvis st u) (hx : x < h.n) (hv : bvis st x) :
    ∀ k, (Function.update tp u v)^[k] x = tp^[k] x := by
  intro k
  induction k with
  | zero => rfl
  | succ k ih =>
    rw [Function.iterate_succ_apply', Function.iterate_succ_apply', ih]
    have hne : tp^[k] x ≠ u := fun h0 => hu (h0 ▸ (dt.iter_vis hx hv k).2)
    simp [Function.update, hne]

theorem anc_update (dt : DT h st tp) {u v a x : Nat} (hu : ¬ bvis st u) (hx : x < h.n) (hv : bvis st x)
    (ha : Anc tp a x) : Anc (Function.update tp u v) a x := by
  obtain ⟨k, hk⟩ := ha
  exact ⟨k, by rw [iterate_update dt hu hx hv]; exact hk⟩

end GDist
