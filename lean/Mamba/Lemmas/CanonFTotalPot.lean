import Mamba.Lemmas.CanonFTotalDef
/-!
# Totality: the termination measure `pathPot` through the stepping loops (`jLoop_pot`, `stepLoop_pot`)
-/
namespace CanonF

theorem tp_maybeDeage_path {s s' : LS} (h : maybeDeage s = .ok s') : s'.path = s.path ∧ s'.choices = s.choices := by
  unfold maybeDeage at h
  osplit h
  · cases h; exact ⟨rfl, rfl⟩
  · cases h; exact ⟨rfl, rfl⟩

theorem tp_pot_mono (n : Nat) {a b : Nat} (ps : List Nat) (h : a ≤ b) : pathPot n (a :: ps) ≤ pathPot n (b :: ps) := by
  simp only [pathPot]
  exact Nat.add_le_add_right (Nat.mul_le_mul_right _ h) _

theorem tp_pot_step (n : Nat) {j p : Nat} (ps : List Nat) (h : j + 1 ≤ p) :
    pathPot n (j :: ps) + 1 + slots n (ps.length + 1) ≤ pathPot n (p :: ps) := by
  have := tp_pot_mono n ps h
  simp only [pathPot] at this ⊢
  rw [Nat.add_mul] at this
  omega

theorem jLoop_pot {n : Nat} {nb : Nbrs} : ∀ (k : Nat) (s : LS) (b : Bool) (s' : LS),
    (∀ p ps, s.path = p :: ps → k ≤ p) → jLoop nb k s = .ok (b, s') →
    s'.path.length = s.path.length ∧
    (b = true → pathPot n s'.path + 1 + slots n s'.path.length ≤ pathPot n s.path) ∧
    (b = false → pathPot n s'.path ≤ pathPot n s.path) := by
  intro k
  induction k with
  | zero =>
    intro s b s' _ h
    simp only [jLoop] at h
    injection h with h
    injection h with hb hs
    subst hb; subst hs
    exact ⟨rfl, fun e => (by cases e), fun _ => Nat.le_refl _⟩
  | succ j ih =>
    intro s b s' hk h
    rw [jLoop] at h
    osplit h
    · rename_i s2 hmd _ _ c crest p0 prest hch hpa hc0 _ v hget _ hq
      obtain ⟨e1, e2⟩ := tp_maybeDeage_path hmd
      have hp0 : j + 1 ≤ p0 := hk p0 prest (by rw [← e1]; exact hpa)
      obtain ⟨r1, r2, r3⟩ := ih _ b s' (fun p ps e => by
        have e' : s2.path = p :: ps := e
        rw [hpa] at e'; injection e' with e3 e4; omega) h
      dsimp only at r1 r2 r3
      rw [e1] at r1 r2 r3
      exact ⟨r1, r2, r3⟩
    · rename_i s2 hmd _ _ c crest p0 prest hch hpa hc0 _ v hget _ hq1 _ bo hq2
      obtain ⟨e1, e2⟩ := tp_maybeDeage_path hmd
      have hp0 : j + 1 ≤ p0 := hk p0 prest (by rw [← e1]; exact hpa)
      obtain ⟨r1, r2, r3⟩ := ih _ b s' (fun p ps e => by
        have e' : s2.path = p :: ps := e
        rw [hpa] at e'; injection e' with e3 e4; omega) h
      dsimp only at r1 r2 r3
      rw [e1] at r1 r2 r3
      exact ⟨r1, r2, r3⟩
    · rename_i s2 hmd _ _ c crest p0 prest hch hpa hc0 _ v hget _ hq1 _ bo hq2 _ worse op hsp hwo
      obtain ⟨e1, e2⟩ := tp_maybeDeage_path hmd
      have hsp' : s.path = p0 :: prest := by rw [← e1]; exact hpa
      have hp0 : j + 1 ≤ p0 := hk p0 prest hsp'
      obtain ⟨r1, r2, r3⟩ := ih _ b s' (fun p ps e => by
        have e' : j :: prest = p :: ps := e
        injection e' with e3 e4; omega) h
      dsimp only at r1 r2 r3
      have hm := tp_pot_mono n prest (show j ≤ p0 by omega)
      rw [hsp']
      simp only [List.length_cons] at r1 r2 ⊢
      exact ⟨r1, fun hb => Nat.le_trans (r2 hb) hm, fun hb => Nat.le_trans (r3 hb) hm⟩
    · rename_i s2 hmd _ _ c crest p0 prest hch hpa hc0 _ v hget _ hq1 _ bo hq2 _ worse op hsp hwo
      obtain ⟨e1, e2⟩ := tp_maybeDeage_path hmd
      have hsp' : s.path = p0 :: prest := by rw [← e1]; exact hpa
      have hp0 : j + 1 ≤ p0 := hk p0 prest hsp'
      injection h with h
      injection h with hb hs
      subst hb; subst hs
      dsimp only
      rw [hsp']
      refine ⟨rfl, fun _ => ?_, fun e => (by cases e)⟩
      simpa using tp_pot_step n prest hp0

theorem stepLoop_pot {n : Nat} {nb : Nbrs} : ∀ (k : Nat) (s : LS) (b : Bool) (s' : LS),
    stepLoop nb k s = .ok (b, s') →
    (b = true → pathPot n s'.path + 1 + slots n s'.path.length ≤ pathPot n s.path) := by
  intro k
  induction k with
  | zero =>
    intro s b s' h hb
    rw [stepLoop] at h
    osplit h
    injection h with h
    injection h with h1 h2
    rw [← h1] at hb; cases hb
  | succ k ih =>
    intro s b s' h hb
    rw [stepLoop] at h
    osplit h
    · injection h with h
      injection h with h1 h2
      rw [← h1] at hb; cases hb
    · rename_i _ p ps hpa _ s2 hj
      injection h with h
      injection h with h1 h2
      subst h2
      have := (jLoop_pot (n := n) p s true s2 (fun p' ps' e => by rw [hpa] at e; injection e with e1 e2; omega) hj).2.1 rfl
      exact this
    · rename_i _ p ps hpa _ s2 hj _ s3 hmd
      obtain ⟨r1, _, r3⟩ := jLoop_pot (n := n) p s false s2 (fun p' ps' e => by rw [hpa] at e; injection e with e1 e2; omega) hj
      obtain ⟨e1, e2⟩ := tp_maybeDeage_path hmd
      have := ih _ b s' h hb
      dsimp only at this
      rw [e1] at this
      have h3 := r3 rfl
      have hdrop : pathPot n (s2.path.drop 1) ≤ pathPot n s2.path := by
        cases s2.path with
        | nil => simp
        | cons a as => simp only [List.drop_succ_cons, List.drop_zero, pathPot]; omega
      omega

end CanonF
