import Mamba.Lemmas.DistanceModel
import Mamba.Lemmas.DistanceEcc
import Mamba.Lemmas.DistanceComp
import Mathlib.Data.List.Perm.Subperm
/-!
# Lemmas for C10: the faithful model of `Eccentricity` returns the reference eccentricities

Reuses the queue invariant `DInv` of `DistanceModel.lean` with target `j := i` (the source is never labelled because
of the `l != i` guard) and adds the counters `e` (largest label) and `seenVertices` (number of labelled vertices).
-/
namespace GDist
open GraphSpec

structure CInv (g : G) (i : Nat) (D : Array Nat) (e seen : Nat) (L : List Nat) : Prop where
  nodup : L.Nodup
  len : L.length = seen
  mem : ∀ v, v ∈ L ↔ (v < g.n ∧ v ≠ i ∧ lbl D v ≠ 0)
  le : ∀ v, lbl D v ≤ e
  att : e = 0 ∨ ∃ v, v < g.n ∧ v ≠ i ∧ lbl D v = e

variable {g : G} {i : Nat}

theorem cinv_init : CInv g i (Array.replicate g.n 0) 0 0 [] := by
  have hl : ∀ v, lbl (Array.replicate g.n 0) v = 0 := by
    intro v; unfold lbl
    by_cases hv : v < g.n <;> simp [Array.getD, hv]
  exact { nodup := List.nodup_nil, len := rfl, mem := fun v => by simp [hl], le := fun v => by simp [hl],
          att := .inl rfl }

theorem cinv_label {D : Array Nat} {e seen d v : Nat} {L : List Nat} (c : CInv g i D e seen L)
    (hv : v < D.size) (hsize : D.size = g.n) (hvi : v ≠ i) (hz : lbl D v = 0) :
    CInv g i (D.set v (d+1) hv) (if d + 1 > e then d + 1 else e) (seen + 1) (v :: L) := by
  have hvn : v < g.n := by rw [← hsize]; exact hv
  have hl : ∀ w, lbl (D.set v (d+1) hv) w = if w = v then d + 1 else lbl D w := fun w => lbl_set hv
  refine { nodup := ?_, len := by simp [c.len], mem := ?_, le := ?_, att := ?_ }
  · refine List.nodup_cons.2 ⟨?_, c.nodup⟩
    intro h
    exact ((c.mem v).1 h).2.2 hz
  · intro w
    rw [List.mem_cons, c.mem, hl]
    by_cases hwv : w = v
    · subst hwv; simp [hvn, hvi]
    · simp [hwv]
  · intro w
    rw [hl]
    have := c.le w
    by_cases hwv : w = v
    · simp only [hwv, if_true]; split <;> omega
    · simp only [hwv, if_false]; split <;> omega
  · right
    by_cases hde : d + 1 > e
    · simp only [hde, if_true]
      exact ⟨v, hvn, hvi, by rw [hl]; simp⟩
    · simp only [hde, if_false]
      rcases c.att with h0 | ⟨w, hw, hwi, hwe⟩
      · omega
      · refine ⟨w, hw, hwi, ?_⟩
        rw [hl]
        have : w ≠ v := by intro h; subst h; omega
        simp [this, hwe]

theorem eccInner_spec {d : Nat} {A' : List Nat} {k : Nat} (hkd : k ≠ i → IsDist g i k d) :
    ∀ (vs : List Nat) (B : List Nat) (D : Array Nat) (e seen : Nat) (L : List Nat),
      DInv g i i d A' B D k vs → CInv g i D e seen L →
      (∀ v ∈ vs, v < g.n ∧ g.adj k v = true) →
      ∃ D' B' e' seen' L',
        Model.eccInner i d vs { D := D, Q := A' ++ B, e := e, seen := seen } =
          .ok { D := D', Q := A' ++ B', e := e', seen := seen' } ∧
        DInv g i i d A' B' D' k [] ∧ CInv g i D' e' seen' L' ∧
        (A' ++ B').length + D'.count 0 = (A' ++ B).length + D.count 0 := by
  intro vs
  induction vs with
  | nil =>
    intro B D e seen L inv c _
    exact ⟨D, B, e, seen, L, rfl, inv, c, rfl⟩
  | cons v vs ih =>
    intro B D e seen L inv c hvs
    have ⟨hvn, hadj⟩ := hvs v List.mem_cons_self
    have hvs' : ∀ w ∈ vs, w < g.n ∧ g.adj k w = true := fun w hw => hvs w (List.mem_cons_of_mem _ hw)
    have hvD : v < D.size := by rw [inv.size]; exact hvn
    unfold Model.eccInner
    simp only [hvD, dif_pos]
    rw [lbl_of_lt hvD]
    by_cases hcond : v ≠ i ∧ lbl D v = 0
    · simp only [hcond, ne_eq, not_false_eq_true, and_self, if_true]
      obtain ⟨hvi, hz⟩ := hcond
      have inv' := dinv_label inv hkd hadj hvD hz hvi
      have c' := cinv_label (d := d) c hvD inv.size hvi hz
      obtain ⟨D', B', e', seen', L', h1, h2, h3, h4⟩ := ih (B ++ [v]) _ _ _ _ inv' c' hvs'
      rw [← List.append_assoc] at h1 h4
      refine ⟨D', B', e', seen', L', h1, h2, h3, ?_⟩
      rw [h4, Array.count_set hvD]
      have hDv : D[v] = 0 := by rw [lbl_of_lt hvD]; exact hz
      have hpos : 0 < D.count 0 := by
        rw [Array.count_pos_iff, ← hDv]; exact Array.getElem_mem hvD
      simp only [hDv, beq_self_eq_true, if_true]
      have : (d + 1 == 0) = false := by simp
      simp only [this, Bool.false_eq_true, if_false, List.length_append, List.length_cons, List.length_nil]
      omega
    · simp only [hcond, if_false]
      have hnz : v ≠ i → lbl D v ≠ 0 := fun h1 h2 => hcond ⟨h1, h2⟩
      exact ih B D e seen L (dinv_skip inv hnz) c hvs'

/-- the state when the queue of `Eccentricity`'s BFS from `i` is empty -/
theorem eccOuter_spec :
    ∀ (fuel : Nat) (D : Array Nat) (Q : List Nat) (e seen : Nat) (L : List Nat) (d : Nat) (A B : List Nat) (k0 : Nat),
      Q = A ++ B → DInv g i i d A B D k0 [] → CInv g i D e seen L → Q.length + D.count 0 + 1 ≤ fuel →
      ∃ D' e' seen' L' d' k', Model.eccOuter g i fuel { D := D, Q := Q, e := e, seen := seen } =
          .ok { D := D', Q := [], e := e', seen := seen' } ∧
        DInv g i i d' [] [] D' k' [] ∧ CInv g i D' e' seen' L' := by
  intro fuel
  induction fuel with
  | zero => intro D Q e seen L d A B k0 _ _ _ hf; omega
  | succ f ih =>
    intro D Q e seen L d A B k0 hQ inv c hf
    cases Q with
    | nil =>
      obtain ⟨hA, hB⟩ := List.append_eq_nil_iff.1 hQ.symm
      subst hA; subst hB
      exact ⟨D, e, seen, L, d, k0, by simp [Model.eccOuter], inv, c⟩
    | cons k Q' =>
      obtain ⟨d', A', B', hQ', inv'⟩ :
          ∃ d' A' B', Q' = A' ++ B' ∧ DInv g i i d' (k :: A') B' D k0 [] := by
        cases A with
        | nil =>
          simp only [List.nil_append] at hQ
          subst hQ
          exact ⟨d+1, Q', [], by simp, dinv_rebracket inv⟩
        | cons a A' =>
          simp only [List.cons_append, List.cons.injEq] at hQ
          obtain ⟨rfl, rfl⟩ := hQ
          exact ⟨d, A', B, rfl, inv⟩
      have ⟨hkn, hkl⟩ := inv'.labA k List.mem_cons_self
      have hkD : k < D.size := by rw [inv'.size]; exact hkn
      have hkd : k ≠ i → IsDist g i k d' := inv'.levA k List.mem_cons_self
      have inv2 := dinv_pop inv'
      have hnb : ∀ v ∈ g.nbrs k, v < g.n ∧ g.adj k v = true := fun v hv => mem_nbrs.1 hv
      obtain ⟨D', B'', e', seen', L', h1, h2, h3, h4⟩ :=
        eccInner_spec hkd (g.nbrs k) B' D e seen L inv2 c hnb
      simp only [Model.eccOuter, hkD, dif_pos]
      rw [lbl_of_lt hkD, hkl, hQ', h1]
      simp only
      apply ih D' (A' ++ B'') e' seen' L' d' A' B'' k rfl h2 h3
      rw [h4, ← hQ']
      simp only [List.length_cons] at hf
      omega

/-- at the end of the BFS: a vertex other than the source is labelled iff it is reachable, and then the label is
its distance -/
theorem dinv_final {d : Nat} {D : Array Nat} {k : Nat} (inv : DInv g i i d [] [] D k []) {v : Nat}
    (hv : v < g.n) (hvi : v ≠ i) :
    (Reach g i v → lbl D v ≠ 0) ∧ (lbl D v ≠ 0 → IsDist g i v (lbl D v)) := by
  refine ⟨?_, inv.lab v hv hvi⟩
  rintro ⟨k', hw⟩
  obtain ⟨k'', _, hd⟩ := exists_isDistIn_of_walk hw
  have hk0 : k'' ≠ 0 := by
    intro h; subst h; exact hvi (isDist_zero_eq hd)
  by_cases hle : k'' ≤ d
  · rw [inv.complete v k'' hv hvi hd hle]; exact hk0
  · exfalso
    obtain ⟨y, hy⟩ := hd.exists_le (d+1) (by omega)
    have inv' := dinv_rebracket inv
    have hyi : y ≠ i := by
      intro h; subst h
      have := hy.unique (isDist_self inv.isrc)
      omega
    have hyn : y < g.n := List.mem_range.1 hy.1.mem_V
    have hl := inv'.complete y (d+1) hyn hyi hy (Nat.le_refl _)
    have := inv.inB y hyn hyi hl
    cases this

theorem length_erase_range {n i : Nat} (hi : i < n) : ((List.range n).erase i).length = n - 1 := by
  rw [List.length_erase_of_mem (List.mem_range.2 hi), List.length_range]

/-- `seenVertices == n-1` iff every vertex is reachable from `i` -/
theorem cinv_seen_iff {D : Array Nat} {e seen : Nat} {L : List Nat} (c : CInv g i D e seen L) (hi : i < g.n) :
    seen = g.n - 1 ↔ ∀ v, v < g.n → v ≠ i → lbl D v ≠ 0 := by
  have hsub : ∀ x ∈ L, x ∈ (List.range g.n).erase i := by
    intro x hx
    obtain ⟨h1, h2, _⟩ := (c.mem x).1 hx
    exact (List.Nodup.mem_erase_iff List.nodup_range).2 ⟨h2, List.mem_range.2 h1⟩
  have hsp : L.Subperm ((List.range g.n).erase i) := List.subperm_of_subset c.nodup hsub
  constructor
  · intro hs v hv hvi
    have hperm : L.Perm ((List.range g.n).erase i) :=
      hsp.perm_of_length_le (by rw [length_erase_range hi, c.len, hs]; exact Nat.le_refl _)
    have : v ∈ L := hperm.mem_iff.2 ((List.Nodup.mem_erase_iff List.nodup_range).2 ⟨hvi, List.mem_range.2 hv⟩)
    exact ((c.mem v).1 this).2.2
  · intro hall
    have hsub' : ∀ x ∈ (List.range g.n).erase i, x ∈ L := by
      intro x hx
      obtain ⟨h1, h2⟩ := (List.Nodup.mem_erase_iff List.nodup_range).1 hx
      exact (c.mem x).2 ⟨List.mem_range.1 h2, h1, hall x (List.mem_range.1 h2) h1⟩
    have hsp' : ((List.range g.n).erase i).Subperm L :=
      List.subperm_of_subset (List.nodup_range.erase i) hsub'
    have h1 := hsp.length_le
    have h2 := hsp'.length_le
    rw [length_erase_range hi, c.len] at h1 h2
    omega

/-- one BFS of `Eccentricity`: the largest distance from `i` if everything is reachable from `i`, else `-1` -/
theorem eccOne_spec (hi : i < g.n) (fuel : Nat) (hf : g.n + 2 ≤ fuel) :
    ((∀ v, v < g.n → Reach g i v) → ∃ e : Nat, Model.eccOne g i fuel = .ok (e : Int) ∧ IsEcc g i e) ∧
    ((¬ ∀ v, v < g.n → Reach g i v) → Model.eccOne g i fuel = .ok (-1)) := by
  have hfuel : ([i] : List Nat).length + (Array.replicate g.n 0).count 0 + 1 ≤ fuel := by
    simp only [List.length_cons, List.length_nil, Array.count_replicate_self]; omega
  obtain ⟨D', e', seen', L', d', k', h1, inv, c⟩ :=
    eccOuter_spec fuel (Array.replicate g.n 0) [i] 0 0 [] 0 [i] [] 0 rfl (dinv_init hi) cinv_init hfuel
  have hseen := cinv_seen_iff c hi
  unfold Model.eccOne
  rw [h1]
  simp only
  constructor
  · intro hall
    have hlab : ∀ v, v < g.n → v ≠ i → lbl D' v ≠ 0 := fun v hv hvi => (dinv_final inv hv hvi).1 (hall v hv)
    have hs : seen' = g.n - 1 := hseen.2 hlab
    have hcast : ((seen' : Nat) : Int) = (g.n : Int) - 1 := by omega
    refine ⟨e', by simp [hcast], ?_, ?_⟩
    · intro x hx
      by_cases hxi : x = i
      · subst hxi; exact ⟨0, isDist_self hi, Nat.zero_le _⟩
      · exact ⟨lbl D' x, (dinv_final inv hx hxi).2 (hlab x hx hxi), c.le x⟩
    · by_cases he : e' = 0
      · subst he; exact ⟨i, hi, isDist_self hi⟩
      · rcases c.att with h0 | ⟨v, hv, hvi, hve⟩
        · exact absurd h0 he
        · refine ⟨v, hv, ?_⟩
          have := (dinv_final inv hv hvi).2 (by omega)
          rwa [hve] at this
  · intro hnot
    have hs : seen' ≠ g.n - 1 := by
      intro hs
      apply hnot
      intro v hv
      by_cases hvi : v = i
      · subst hvi; exact ReachIn.refl (List.mem_range.2 hi)
      · have := (dinv_final inv hv hvi).2 (hseen.1 hs v hv hvi)
        exact ⟨_, this.1⟩
    have hcast : ¬ ((seen' : Nat) : Int) = (g.n : Int) - 1 := by omega
    simp [hcast]

/-- in a symmetric graph "everything is reachable from `i`" is connectedness -/
theorem connectedB_iff_reach_from (hsym : ∀ u v, g.adj u v = g.adj v u) (hi : i < g.n) :
    connectedB g = true ↔ ∀ v, v < g.n → Reach g i v := by
  rw [connectedB_iff]
  constructor
  · intro h v hv; exact h i v hi hv
  · intro h s x hs hx
    exact ((h s hs).symm hsym).trans (h x hx)

theorem eccOne_eq_ecc (hsym : ∀ u v, g.adj u v = g.adj v u) (hi : i < g.n) (fuel : Nat) (hf : g.n + 2 ≤ fuel) :
    Model.eccOne g i fuel = .ok (ecc g i) := by
  obtain ⟨h1, h2⟩ := eccOne_spec hi fuel hf
  by_cases hc : connectedB g = true
  · obtain ⟨e, he, hecc⟩ := h1 ((connectedB_iff_reach_from hsym hi).1 hc)
    rw [he, hecc.unique (eccNat_isEcc hc hi)]
    simp [ecc, hc]
  · rw [h2 (fun h => hc ((connectedB_iff_reach_from hsym hi).2 h))]
    simp [ecc, hc]

theorem eccAll_eq (hsym : ∀ u v, g.adj u v = g.adj v u) (fuel : Nat) (hf : g.n + 2 ≤ fuel) :
    ∀ l : List Nat, (∀ x ∈ l, x < g.n) → Model.eccAll g fuel l = .ok (l.map (ecc g)) := by
  intro l
  induction l with
  | nil => intro _; rfl
  | cons a t ih =>
    intro h
    simp only [Model.eccAll, eccOne_eq_ecc hsym (h a List.mem_cons_self) fuel hf,
      ih (fun x hx => h x (List.mem_cons_of_mem _ hx)), List.map_cons]

/-- the faithful model of `Eccentricity` returns the reference list -/
theorem eccentricity_eq_eccs (g : G) (hsym : ∀ u v, g.adj u v = g.adj v u) (fuel : Nat) (hf : g.n + 2 ≤ fuel) :
    Model.eccentricity g fuel = .ok (eccs g) := by
  unfold Model.eccentricity
  rw [eccAll_eq hsym fuel hf _ (fun x hx => List.mem_range.1 hx), eccs_eq]

theorem foldl_min_eq (x : Int) (xs : List Int) : xs.foldl min x = listMinInt (x :: xs) := by
  induction xs generalizing x with
  | nil => rfl
  | cons y ys ih =>
    rw [List.foldl_cons, ih]
    cases ys with
    | nil => simp [listMinInt]
    | cons z zs => simp only [listMinInt]; rw [Int.min_assoc]

theorem foldl_max_eq (x : Int) (xs : List Int) : xs.foldl max x = listMaxInt (x :: xs) := by
  induction xs generalizing x with
  | nil => rfl
  | cons y ys ih =>
    rw [List.foldl_cons, ih]
    cases ys with
    | nil => simp [listMaxInt]
    | cons z zs => simp only [listMaxInt]; rw [Int.max_assoc]

theorem minInt_eq (l : List Int) : Model.minInt l = listMinInt l := by
  cases l with
  | nil => rfl
  | cons x xs => exact foldl_min_eq x xs

theorem maxInt_eq (l : List Int) : Model.maxInt l = listMaxInt l := by
  cases l with
  | nil => rfl
  | cons x xs => exact foldl_max_eq x xs

theorem listMinInt_eccs (g : G) (hn : 0 < g.n) : listMinInt (eccs g) = -1 ↔ connectedB g = false := by
  have hne : eccs g ≠ [] := by
    rw [eccs_eq]; simp; omega
  have hmem := listMinInt_mem hne
  by_cases hc : connectedB g = true
  · simp only [hc, Bool.true_eq_false, iff_false]
    intro h
    rw [h] at hmem
    simp only [eccs, hc, if_true, List.mem_map, List.mem_range] at hmem
    obtain ⟨v, _, hv⟩ := hmem
    omega
  · have hc' : connectedB g = false := by simpa using hc
    simp only [hc', iff_true]
    have he : eccs g = (List.range g.n).map fun _ => (-1 : Int) := by simp [eccs, hc']
    rw [he] at hmem ⊢
    simp only [List.mem_map, List.mem_range] at hmem
    obtain ⟨_, _, hv⟩ := hmem
    exact hv.symm

theorem diameterM_eq (g : G) (hsym : ∀ u v, g.adj u v = g.adj v u) : Model.diameterM g = .ok (diameter g) := by
  unfold Model.diameterM diameter
  by_cases hn : g.n = 0
  · simp [hn]
  · simp only [hn, if_false]
    rw [eccentricity_eq_eccs g hsym (g.n + 2) (Nat.le_refl _)]
    simp only [minInt_eq, maxInt_eq]
    have := listMinInt_eccs g (by omega)
    by_cases hc : connectedB g = true
    · have hmin : ¬ listMinInt (eccs g) = -1 := by rw [this, hc]; simp
      simp [hmin, hc]
    · have hc' : connectedB g = false := by simpa using hc
      simp [this.2 hc', hc']

theorem radiusM_eq (g : G) (hsym : ∀ u v, g.adj u v = g.adj v u) : Model.radiusM g = .ok (radius g) := by
  unfold Model.radiusM radius
  by_cases hn : g.n = 0
  · simp [hn]
  · simp only [hn, if_false]
    rw [eccentricity_eq_eccs g hsym (g.n + 2) (Nat.le_refl _)]
    simp only [minInt_eq]
    by_cases hc : connectedB g = true
    · simp [hc]
    · have hc' : connectedB g = false := by simpa using hc
      simp [(listMinInt_eccs g (by omega)).2 hc', hc']

end GDist
