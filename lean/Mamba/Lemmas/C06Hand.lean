import Mamba.Lemmas.C06Dense
/-! C06 helper lemmas: hand-filled constructors (`CompleteGraph`, `Path`, `Cycle`, `Star`, ...). -/
namespace Construct
open GraphSpec


theorem bitAt_zeros (len k : Nat) : bitAt (zeros len) k = false := by
  simp [bitAt, zeros, Array.getD]

/-- `writeOnes` on a fresh array: no panic when the indices are in range, and exactly the listed bytes are set -/
theorem writeOnes_zeros (len : Nat) (idxs : List Nat) (h : ∀ k ∈ idxs, k < len) :
    ∃ e, writeOnes (zeros len) idxs = .ok e ∧ e.size = len ∧ ∀ k, bitAt e k = decide (k ∈ idxs) := by
  obtain ⟨e, h1, h2, h3⟩ := foldlM_setAt 1 idxs (zeros len) (by simpa [zeros] using h)
  refine ⟨e, h1, by simpa [zeros] using h2, ?_⟩
  intro k
  have := h3 k
  simp only [zeros, Array.size_replicate] at this
  unfold bitAt
  rw [Array.getD_eq_getD_getElem?, this]
  by_cases hk : k ∈ idxs
  · simp [hk, h k hk]
  · by_cases hl : k < len <;> simp [hk, hl]

theorem map_pos_pairs (n : Nat) : (pairs n).map pos = List.range (tri n) := by
  apply List.ext_getElem
  · simp [length_pairs]
  · intro k h1 h2
    simp only [List.getElem_map, List.getElem_range]
    exact pos_getElem_pairs n k (by simpa using h1)

theorem countP_range_mem (N : Nat) (idxs : List Nat) (hnd : idxs.Nodup) (hb : ∀ k ∈ idxs, k < N) :
    (List.range N).countP (fun k => decide (k ∈ idxs)) = idxs.length := by
  induction idxs with
  | nil => simp
  | cons a t ih =>
    have hnd' := List.nodup_cons.mp hnd
    have : (List.range N).countP (fun k => decide (k ∈ a :: t)) =
        (List.range N).countP (fun k => k == a) + (List.range N).countP (fun k => decide (k ∈ t)) := by
      generalize List.range N = l
      induction l with
      | nil => simp
      | cons x l ihl =>
        rw [List.countP_cons, List.countP_cons, List.countP_cons, ihl]
        by_cases hxa : x = a
        · subst hxa; simp [hnd'.1]; omega
        · by_cases hxt : x ∈ t <;> simp [hxa, hxt] <;> omega
    rw [this, countP_range_beq, ih hnd'.2 (fun k hk => hb k (by simp [hk]))]
    simp [hb a (by simp)]; omega

/-- the number of pairs whose position is listed = the number of listed positions -/
theorem countP_pairs_mem (n : Nat) (idxs : List Nat) (hnd : idxs.Nodup) (hb : ∀ k ∈ idxs, k < tri n) :
    (pairs n).countP (fun p => decide (pos p ∈ idxs)) = idxs.length := by
  have : (pairs n).countP (fun p => decide (pos p ∈ idxs)) = ((pairs n).map pos).countP (fun k => decide (k ∈ idxs)) := by
    rw [List.countP_map]; rfl
  rw [this, map_pos_pairs, countP_range_mem _ _ hnd hb]

/-- a `Dense` whose byte array marks exactly the positions `idxs`, against a family given as `symm n rel` -/
theorem abs_eq_symm (d : Dense) (hs : d.edges.size = tri d.n) (rel : Nat → Nat → Bool)
    (h : ∀ u v, u < v → v < d.n → bitAt d.edges (tri v + u) = (rel u v || rel v u)) :
    d.abs = Families.symm d.n rel := by
  simp only [Dense.abs, Dense.adj_eq d hs, Families.symm]
  congr 1
  funext u v
  unfold Dense.adjF
  rcases Nat.lt_trichotomy u v with huv | huv | huv
  · have h1 : ¬ v < u := by omega
    have h2 : ¬ u = v := by omega
    by_cases hv : v < d.n
    · have hu : u < d.n := by omega
      simp [huv, h2, hv, hu, h u v huv hv]
    · simp [hv]
  · subst huv; simp
  · have h1 : ¬ u < v := by omega
    have h2 : ¬ u = v := by omega
    by_cases hu : u < d.n
    · have hv : v < d.n := by omega
      simp [huv, h1, h2, hv, hu, h v u huv hu, Bool.or_comm]
    · simp [hu]

/-- the stored edge count of a hand-filled graph: number of distinct listed positions -/
theorem m_of_idxs (d : Dense) (hs : d.edges.size = tri d.n) (idxs : List Nat) (hnd : idxs.Nodup)
    (hb : ∀ k ∈ idxs, k < tri d.n) (hbit : ∀ k, bitAt d.edges k = decide (k ∈ idxs)) :
    d.abs.m = idxs.length := by
  rw [m_eq_countP, ← countP_pairs_mem d.n idxs hnd hb]
  apply List.countP_congr
  intro p hp
  have hp' : p ∈ pairs d.n := hp
  obtain ⟨h1, h2⟩ := mem_pairs.mp hp'
  have h3 : p.1 < d.n := by omega
  simp only [Dense.abs, Dense.adj_eq d hs, Dense.adjF, h1, h2, h3, hbit, pos, decide_true, Bool.and_self, ↓reduceIte, Bool.true_and]
  exact Iff.rfl


end Construct
