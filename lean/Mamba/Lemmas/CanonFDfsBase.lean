import Mamba.Lemmas.CanonFDfs
/-!
# Basic lemmas about `FrameAux` (congruence, tail, moving the threshold of the top frame)
-/
namespace CanonF

theorem cellL_congr {n : Nat} {nb : Nbrs} {rf : Nat} {r : IR.St} {us us' : List Nat} {L st : Nat}
    (h : us'.take L = us.take L) : cellL n nb rf r us' L st = cellL n nb rf r us L st := by
  unfold cellL; rw [nodeL_congr h]

/-- `FrameAux1` only looks at `count`, `currentBest`, `gens`, `ngens` and at `us.take L`, `us[L]` is not used -/
theorem FrameAux1.congr {n : Nat} {nb : Nbrs} {rf : Nat} {r : IR.St} {gh : Gh} {s s' : LS} {us us' : List Nat}
    {incl : Bool} {ps : List Nat} {c st sz : Nat} (h : FrameAux1 n nb rf r gh s us incl ps c st sz)
    (e1 : s'.count = s.count) (e2 : s'.currentBest = s.currentBest) (e3 : s'.gens = s.gens) (e4 : s'.ngens = s.ngens)
    (ev : us'.take ps.length = us.take ps.length) : FrameAux1 n nb rf r gh s' us' incl ps c st sz := by
  have ec := cellL_congr (n := n) (nb := nb) (rf := rf) (r := r) (st := st) ev
  have en := nodeL_congr (n := n) (nb := nb) (rf := rf) (r := r) ev
  constructor
  · rw [e1, ec, ev]; exact h.futF
  · rw [e1, ec, ev]; exact h.futB
  · rw [e1, e2, ec, ev, en]; exact h.bpF
  · rw [e1, e2, ec, ev, en]; exact h.bpB
  · rw [e1, e3, e4, ev, en]; exact h.e1
  · rw [e1, ev, en]; exact h.e2
  · rw [e1, ev]; exact h.fb
  · rw [e1]; exact h.ph1

theorem FrameAux.congr {n : Nat} {nb : Nbrs} {rf : Nat} {r : IR.St} {gh : Gh} {s s' : LS} {us us' : List Nat}
    (e1 : s'.count = s.count) (e2 : s'.currentBest = s.currentBest) (e3 : s'.gens = s.gens) (e4 : s'.ngens = s.ngens) :
    ∀ (incl : Bool) (path choices : List Nat) (lv : List (Nat × Nat)),
      (∀ L, L < path.length → us'.take L = us.take L) →
      FrameAux n nb rf r gh s us incl path choices lv → FrameAux n nb rf r gh s' us' incl path choices lv := by
  intro incl path
  induction path generalizing incl with
  | nil => intro choices lv _ h; cases choices <;> cases lv <;> simp_all [FrameAux]
  | cons p ps ih =>
    intro choices lv hv h
    cases choices with
    | nil => simp [FrameAux] at h
    | cons c cs =>
      cases lv with
      | nil => simp [FrameAux] at h
      | cons x ls =>
        obtain ⟨st, sz⟩ := x
        simp only [FrameAux] at h ⊢
        exact ⟨h.1.congr e1 e2 e3 e4 (hv ps.length (by simp)),
          ih false cs ls (fun L hL => hv L (by simp only [List.length_cons]; omega)) h.2⟩

theorem FrameAux.tail {n : Nat} {nb : Nbrs} {rf : Nat} {r : IR.St} {gh : Gh} {s : LS} {us : List Nat} {incl : Bool}
    {p c : Nat} {ps cs : List Nat} {x : Nat × Nat} {ls : List (Nat × Nat)}
    (h : FrameAux n nb rf r gh s us incl (p :: ps) (c :: cs) (x :: ls)) :
    FrameAux n nb rf r gh s us false ps cs ls := by
  obtain ⟨st, sz⟩ := x
  simp only [FrameAux] at h
  exact h.2

theorem FrameAux.head {n : Nat} {nb : Nbrs} {rf : Nat} {r : IR.St} {gh : Gh} {s : LS} {us : List Nat} {incl : Bool}
    {p c : Nat} {ps cs : List Nat} {st sz : Nat} {ls : List (Nat × Nat)}
    (h : FrameAux n nb rf r gh s us incl (p :: ps) (c :: cs) ((st, sz) :: ls)) :
    FrameAux1 n nb rf r gh s us incl ps c st sz := by
  simp only [FrameAux] at h
  exact h.1

theorem FrameAux.mk {n : Nat} {nb : Nbrs} {rf : Nat} {r : IR.St} {gh : Gh} {s : LS} {us : List Nat} {incl : Bool}
    {p c : Nat} {ps cs : List Nat} {st sz : Nat} {ls : List (Nat × Nat)}
    (h1 : FrameAux1 n nb rf r gh s us incl ps c st sz) (h2 : FrameAux n nb rf r gh s us false ps cs ls) :
    FrameAux n nb rf r gh s us incl (p :: ps) (c :: cs) ((st, sz) :: ls) := by
  simp only [FrameAux]
  exact ⟨h1, h2⟩

theorem FrameAux.drop {n : Nat} {nb : Nbrs} {rf : Nat} {r : IR.St} {gh : Gh} {s : LS} {us : List Nat} :
    ∀ (j : Nat) (path choices : List Nat) (lv : List (Nat × Nat)), 0 < j →
      FrameAux n nb rf r gh s us false path choices lv →
      FrameAux n nb rf r gh s us false (path.drop j) (choices.drop j) (lv.drop j) := by
  intro j
  induction j with
  | zero => intro _ _ _ h; omega
  | succ j ih =>
    intro path choices lv _ h
    cases path with
    | nil => cases choices <;> cases lv <;> simp_all [FrameAux]
    | cons p ps =>
      cases choices with
      | nil => simp [FrameAux] at h
      | cons c cs =>
        cases lv with
        | nil => simp [FrameAux] at h
        | cons x ls =>
          simp only [List.drop_succ_cons]
          rcases Nat.eq_zero_or_pos j with h0 | hpos
          · subst h0; simpa using h.tail
          · exact ih ps cs ls hpos h.tail

/-- the top frame: the member with index `c - 1 - st` becomes processed (skip, `splitBin` worse); it does not lie on a
stored path because it was unprocessed -/
theorem FrameAux1.step_head {n : Nat} {nb : Nbrs} {rf : Nat} {r : IR.St} {gh : Gh} {s : LS} {us : List Nat}
    {ps : List Nat} {c st sz : Nat} (h : FrameAux1 n nb rf r gh s us true ps c st sz) (hc : st < c)
    (hcnt : 0 < s.count) : FrameAux1 n nb rf r gh s us true ps (c - 1) st sz := by
  constructor
  · intro h0 j w hj hw; exact h.futF h0 j w (by omega) hw
  · intro h0 j w hj hw; exact h.futB h0 j w (by omega) hw
  · intro h0 hpre i w hi hw hx
    simp only [if_true] at hi
    rcases Nat.lt_or_ge i (c - st) with hlt | hge
    · exact absurd ⟨hpre, hx⟩ (h.futF h0 i w hlt hw)
    · exact h.bpF h0 hpre i w (by simp only [if_true]; exact hge) hw hx
  · intro h0 hpre i w hi hw hx
    simp only [if_true] at hi
    rcases Nat.lt_or_ge i (c - st) with hlt | hge
    · exact absurd ⟨hpre, hx⟩ (h.futB h0 i w hlt hw)
    · exact h.bpB h0 hpre i w (by simp only [if_true]; exact hge) hw hx
  · exact h.e1
  · exact h.e2
  · exact h.fb
  · intro h0; omega

/-- the top frame: the member with index `c - 1 - st` starts being explored -/
theorem FrameAux1.start_child {n : Nat} {nb : Nbrs} {rf : Nat} {r : IR.St} {gh : Gh} {s : LS} {us : List Nat}
    {ps : List Nat} {c st sz : Nat} (h : FrameAux1 n nb rf r gh s us true ps c st sz) (hc : st < c) :
    FrameAux1 n nb rf r gh s us false ps (c - 1) st sz := by
  constructor
  · intro h0 j w hj hw; exact h.futF h0 j w (by omega) hw
  · intro h0 j w hj hw; exact h.futB h0 j w (by omega) hw
  · intro h0 hpre i w hi hw hx
    simp only [Bool.false_eq_true, if_false] at hi
    exact h.bpF h0 hpre i w (by simp only [if_true]; omega) hw hx
  · intro h0 hpre i w hi hw hx
    simp only [Bool.false_eq_true, if_false] at hi
    exact h.bpB h0 hpre i w (by simp only [if_true]; omega) hw hx
  · exact h.e1
  · exact h.e2
  · exact h.fb
  · intro h0
    have := h.ph1 h0
    simp only [if_true] at this
    simp only [Bool.false_eq_true, if_false]
    omega

/-- the top frame: the child that was being explored (index `c - st`) is processed and, if it lies on a stored path,
complete -/
theorem FrameAux1.finish_child {n : Nat} {nb : Nbrs} {rf : Nat} {r : IR.St} {gh : Gh} {s : LS} {us : List Nat}
    {ps : List Nat} {c st sz : Nat} (h : FrameAux1 n nb rf r gh s us false ps c st sz) (hcnt : 0 < s.count)
    (hnew : ∀ w, (cellL n nb rf r us ps.length st)[c - st]? = some w →
      (gh.vsF[ps.length]? = some w ∨ gh.vsB[ps.length]? = some w) →
      Complete n nb rf s.currentBest.toList (IR.childSt (irG n nb) rf (nodeL n nb rf r us ps.length) st w)) :
    FrameAux1 n nb rf r gh s us true ps c st sz := by
  constructor
  · exact h.futF
  · exact h.futB
  · intro h0 hpre i w hi hw hx
    simp only [if_true] at hi
    rcases Nat.lt_or_ge (c - st) i with hlt | hge
    · exact h.bpF h0 hpre i w (by simp only [Bool.false_eq_true, if_false]; exact hlt) hw hx
    · have : i = c - st := by omega
      subst this
      exact hnew w hw (Or.inl hx)
  · intro h0 hpre i w hi hw hx
    simp only [if_true] at hi
    rcases Nat.lt_or_ge (c - st) i with hlt | hge
    · exact h.bpB h0 hpre i w (by simp only [Bool.false_eq_true, if_false]; exact hlt) hw hx
    · have : i = c - st := by omega
      subst this
      exact hnew w hw (Or.inr hx)
  · exact h.e1
  · exact h.e2
  · exact h.fb
  · intro h0; omega

/-- as `finish_child`, the completeness of the finished child is only needed when it lies on a stored path -/
theorem FrameAux1.finish_child' {n : Nat} {nb : Nbrs} {rf : Nat} {r : IR.St} {gh : Gh} {s : LS} {us : List Nat}
    {ps : List Nat} {c st sz : Nat} (h : FrameAux1 n nb rf r gh s us false ps c st sz) (hcnt : 0 < s.count)
    (hnewF : ∀ w, (cellL n nb rf r us ps.length st)[c - st]? = some w → us.take ps.length = gh.vsF.take ps.length →
      gh.vsF[ps.length]? = some w →
      Complete n nb rf s.currentBest.toList (IR.childSt (irG n nb) rf (nodeL n nb rf r us ps.length) st w))
    (hnewB : ∀ w, (cellL n nb rf r us ps.length st)[c - st]? = some w → us.take ps.length = gh.vsB.take ps.length →
      gh.vsB[ps.length]? = some w →
      Complete n nb rf s.currentBest.toList (IR.childSt (irG n nb) rf (nodeL n nb rf r us ps.length) st w)) :
    FrameAux1 n nb rf r gh s us true ps c st sz := by
  constructor
  · exact h.futF
  · exact h.futB
  · intro h0 hpre i w hi hw hx
    simp only [if_true] at hi
    rcases Nat.lt_or_ge (c - st) i with hlt | hge
    · exact h.bpF h0 hpre i w (by simp only [Bool.false_eq_true, if_false]; exact hlt) hw hx
    · have : i = c - st := by omega
      subst this
      exact hnewF w hw hpre hx
  · intro h0 hpre i w hi hw hx
    simp only [if_true] at hi
    rcases Nat.lt_or_ge (c - st) i with hlt | hge
    · exact h.bpB h0 hpre i w (by simp only [Bool.false_eq_true, if_false]; exact hlt) hw hx
    · have : i = c - st := by omega
      subst this
      exact hnewB w hw hpre hx
  · exact h.e1
  · exact h.e2
  · exact h.fb
  · intro h0; omega

/-- `FrameAux1.congr` when `count` changes between two positive values -/
theorem FrameAux1.congr_pos {n : Nat} {nb : Nbrs} {rf : Nat} {r : IR.St} {gh : Gh} {s s' : LS} {us us' : List Nat}
    {incl : Bool} {ps : List Nat} {c st sz : Nat} (h : FrameAux1 n nb rf r gh s us incl ps c st sz)
    (e1 : 0 < s.count) (e1' : 0 < s'.count) (e2 : s'.currentBest = s.currentBest) (e3 : s'.gens = s.gens)
    (e4 : s'.ngens = s.ngens) (ev : us'.take ps.length = us.take ps.length) :
    FrameAux1 n nb rf r gh s' us' incl ps c st sz := by
  have ec := cellL_congr (n := n) (nb := nb) (rf := rf) (r := r) (st := st) ev
  have en := nodeL_congr (n := n) (nb := nb) (rf := rf) (r := r) ev
  constructor
  · intro _; rw [ec, ev]; exact h.futF e1
  · intro _; rw [ec, ev]; exact h.futB e1
  · intro _; rw [e2, ec, ev, en]; exact h.bpF e1
  · intro _; rw [e2, ec, ev, en]; exact h.bpB e1
  · intro _; rw [e3, e4, ev, en]; exact h.e1 e1
  · intro _; rw [ev, en]; exact h.e2 e1
  · intro _; rw [ev]; exact h.fb e1
  · intro h0; omega

theorem FrameAux.congr_pos {n : Nat} {nb : Nbrs} {rf : Nat} {r : IR.St} {gh : Gh} {s s' : LS} {us us' : List Nat}
    (e1 : 0 < s.count) (e1' : 0 < s'.count) (e2 : s'.currentBest = s.currentBest) (e3 : s'.gens = s.gens)
    (e4 : s'.ngens = s.ngens) :
    ∀ (incl : Bool) (path choices : List Nat) (lv : List (Nat × Nat)),
      (∀ L, L < path.length → us'.take L = us.take L) →
      FrameAux n nb rf r gh s us incl path choices lv → FrameAux n nb rf r gh s' us' incl path choices lv := by
  intro incl path
  induction path generalizing incl with
  | nil => intro choices lv _ h; cases choices <;> cases lv <;> simp_all [FrameAux]
  | cons p ps ih =>
    intro choices lv hv h
    cases choices with
    | nil => simp [FrameAux] at h
    | cons c cs =>
      cases lv with
      | nil => simp [FrameAux] at h
      | cons x ls =>
        obtain ⟨st, sz⟩ := x
        simp only [FrameAux] at h ⊢
        exact ⟨h.1.congr_pos e1 e1' e2 e3 e4 (hv ps.length (by simp)),
          ih false cs ls (fun L hL => hv L (by simp only [List.length_cons]; omega)) h.2⟩

/-- `FrameAux1` only reads `vsF`, `vsB`, `bgs` of the ghost data -/
theorem FrameAux1.congr_gh {n : Nat} {nb : Nbrs} {rf : Nat} {r : IR.St} {gh gh' : Gh} {s : LS} {us : List Nat}
    {incl : Bool} {ps : List Nat} {c st sz : Nat} (h : FrameAux1 n nb rf r gh s us incl ps c st sz)
    (e1 : gh'.vsF = gh.vsF) (e2 : gh'.vsB = gh.vsB) (e3 : gh'.bgs = gh.bgs) :
    FrameAux1 n nb rf r gh' s us incl ps c st sz := by
  constructor
  · rw [e1]; exact h.futF
  · rw [e2]; exact h.futB
  · rw [e1]; exact h.bpF
  · rw [e2]; exact h.bpB
  · rw [e1]; exact h.e1
  · rw [e2, e3]; exact h.e2
  · rw [e1, e2]; exact h.fb
  · exact h.ph1

theorem FrameAux.congr_gh {n : Nat} {nb : Nbrs} {rf : Nat} {r : IR.St} {gh gh' : Gh} {s : LS} {us : List Nat}
    (e1 : gh'.vsF = gh.vsF) (e2 : gh'.vsB = gh.vsB) (e3 : gh'.bgs = gh.bgs) :
    ∀ (incl : Bool) (path choices : List Nat) (lv : List (Nat × Nat)),
      FrameAux n nb rf r gh s us incl path choices lv → FrameAux n nb rf r gh' s us incl path choices lv := by
  intro incl path
  induction path generalizing incl with
  | nil => intro choices lv h; cases choices <;> cases lv <;> simp_all [FrameAux]
  | cons p ps ih =>
    intro choices lv h
    cases choices with
    | nil => simp [FrameAux] at h
    | cons c cs =>
      cases lv with
      | nil => simp [FrameAux] at h
      | cons x ls =>
        obtain ⟨st, sz⟩ := x
        simp only [FrameAux] at h ⊢
        exact ⟨h.1.congr_gh e1 e2 e3, ih false cs ls h.2⟩


end CanonF
