import Mamba.Lemmas.C06Fam3
/-! C06: `BipartiteKneserGraph`, `FoldedHypercubeGraph`. -/
namespace Construct
open GraphSpec


/-! ### BipartiteKneserGraph (as the code builds it) and FoldedHypercubeGraph (well-formedness) -/

theorem length_colexUnrank (r k : Nat) : (Families.colexUnrank r k).length = k := by
  induction k generalizing r with
  | zero => simp [Families.colexUnrank]
  | succ k ih => simp [Families.colexUnrank, ih]

theorem intersectionSize_eq_length (a b : List Nat) : (intersectionSize a b == a.length) = Families.subset a b := by
  rw [Bool.eq_iff_iff]
  simp only [intersectionSize, beq_iff_eq, Families.subset, List.all_eq_true]
  exact List.length_filter_eq_length_iff

/-- `smaller` of `BipartiteKneserGraph` -/
def bkSmaller (n k : Nat) : Nat := if n - k < k then n - k else k

/-- the relation the loop of `BipartiteKneserGraph` realises: the intersection of the `k`-set and the `(n-k)`-set has
the size of the smaller of the two -/
def bikneserRel (n k : Nat) (x y : Nat) : Bool :=
  x < Families.choose n k && Families.choose n k ≤ y &&
    (intersectionSize (Families.colexUnrank x k) (Families.colexUnrank (y - Families.choose n k) (n - k)) == bkSmaller n k)

theorem bipartiteKneserGraph_ok (n k : Nat) :
    ∃ d, bipartiteKneserGraph n (k : Int) = .ok d ∧ d.WF ∧
      d.abs = Families.symm (2 * Families.choose n k) (bikneserRel n k) := by
  have hc : coeff n (k : Int) = Families.choose n k := by simp [coeff]
  obtain ⟨d, e, w, _, a⟩ := buildByAddEdge_ok (Families.choose n k + Families.choose n k)
    ((List.range (Families.choose n k)).flatMap fun i =>
      ((List.range (Families.choose n k)).filter fun j =>
        intersectionSize (Families.colexUnrank i k) (Families.colexUnrank j (n - k)) == bkSmaller n k).map
          fun j => (i, Families.choose n k + j)) (by
    intro p hp
    simp only [List.mem_flatMap, List.mem_range, List.mem_map, List.mem_filter] at hp
    obtain ⟨i, hi, j, ⟨hj, _⟩, rfl⟩ := hp
    simp only; omega)
  refine ⟨d, ?_, w, ?_⟩
  · unfold bipartiteKneserGraph
    simp only [hc, Int.toNat_natCast]
    exact e
  · rw [a, show 2 * Families.choose n k = Families.choose n k + Families.choose n k by omega]
    apply ofPairs_eq_symm
    intro u v
    simp only [List.mem_flatMap, List.mem_range, List.mem_map, List.mem_filter, bikneserRel, Bool.and_eq_true,
      decide_eq_true_eq]
    constructor
    · rintro ⟨p, ⟨i, hi, j, ⟨hj, hd⟩, rfl⟩, hne, h⟩
      simp only at hne h
      rcases h with ⟨hu, hv⟩ | ⟨hu, hv⟩
      · refine ⟨by omega, by omega, by omega, Or.inl ⟨⟨by omega, by omega⟩, ?_⟩⟩
        rw [hu, hv, show Families.choose n k + j - Families.choose n k = j by omega]; exact hd
      · refine ⟨by omega, by omega, by omega, Or.inr ⟨⟨by omega, by omega⟩, ?_⟩⟩
        rw [hu, hv, show Families.choose n k + j - Families.choose n k = j by omega]; exact hd
    · rintro ⟨hne, hu, hv, h⟩
      rcases h with ⟨⟨h1, h2⟩, h3⟩ | ⟨⟨h1, h2⟩, h3⟩
      · exact ⟨(u, Families.choose n k + (v - Families.choose n k)),
          ⟨u, h1, v - Families.choose n k, ⟨by omega, h3⟩, rfl⟩, by simp only; omega, Or.inl ⟨rfl, by omega⟩⟩
      · exact ⟨(v, Families.choose n k + (u - Families.choose n k)),
          ⟨v, h1, u - Families.choose n k, ⟨by omega, h3⟩, rfl⟩, by simp only; omega, Or.inr ⟨by omega, rfl⟩⟩

theorem andNot_lt (mask i b : Nat) (h : mask < 2 ^ b) : andNot mask i < 2 ^ b := by
  unfold andNot
  exact Nat.xor_lt_two_pow h (Nat.lt_of_le_of_lt Nat.and_le_left h)

theorem foldedHypercubeGraph_wf (dim : Nat) (hd : 1 ≤ dim) :
    ∃ d, foldedHypercubeGraph dim = .ok d ∧ d.WF ∧ d.n = 2 ^ (dim - 1) := by
  obtain ⟨g, e, w, hn, _⟩ := hypercubeGraph_ok (dim - 1)
  have hmask : (1 <<< (dim - 1)) - 1 < 2 ^ (dim - 1) := by
    rw [Nat.one_shiftLeft]; have := Nat.two_pow_pos (dim - 1); omega
  obtain ⟨d, e2, w2, hn2, _⟩ := buildFrom_ok
    ((List.range (if dim < 2 then 0 else 1 <<< (dim - 2))).map fun i => (i, andNot ((1 <<< (dim - 1)) - 1) i)) g w (by
    intro p hp
    simp only [List.mem_map, List.mem_range] at hp
    obtain ⟨i, hi, rfl⟩ := hp
    rw [hn]
    refine ⟨?_, andNot_lt _ _ _ hmask⟩
    by_cases h2 : dim < 2
    · simp [h2] at hi
    · simp only [h2, ↓reduceIte, Nat.one_shiftLeft] at hi
      have : 2 ^ (dim - 2) ≤ 2 ^ (dim - 1) := Nat.pow_le_pow_right (by decide) (by omega)
      simp only; omega)
  refine ⟨d, ?_, w2, by omega⟩
  unfold foldedHypercubeGraph
  have : ¬ dim < 1 := by omega
  simp only [this, ↓reduceIte, e, Outcome.bind_ok]
  rw [List.foldlM_map] at e2
  exact e2


end Construct
