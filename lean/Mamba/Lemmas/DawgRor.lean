import Mamba.Lemmas.DawgAddSuffix
/-! `areEquivalent`, `findEquiv`, `replaceOrRegister`. -/
namespace Dawg

/-- same final flag, labels and link identities -/
def Equiv (t u : Node) : Prop := t.final = u.final ∧ t.labels = u.labels ∧ t.links = u.links

instance (t u : Node) : Decidable (Equiv t u) := by unfold Equiv; infer_instance

theorem cmpN_eq : ∀ (n : Nat) (a b : List Nat), n ≤ a.length → n ≤ b.length →
    cmpN n a b = .ok (decide (a.take n = b.take n)) := by
  intro n
  induction n with
  | zero => intro a b _ _; simp [cmpN]
  | succ n ih =>
    intro a b ha hb
    cases a with
    | nil => simp at ha
    | cons x a =>
      cases b with
      | nil => simp at hb
      | cons y b =>
        simp only [cmpN, List.take_succ_cons, List.cons.injEq]
        by_cases hxy : x = y
        · subst hxy
          rw [if_neg (by simp), ih a b (by simpa using ha) (by simpa using hb)]
          simp
        · rw [if_pos hxy]; simp [hxy]

theorem areEquivalent_eq (t u : Node) (ht : t.labels.length = t.links.length) (hu : u.labels.length = u.links.length) :
    areEquivalent t u = .ok (decide (Equiv t u)) := by
  unfold areEquivalent Equiv
  by_cases hf : t.final = u.final
  · rw [if_neg (by simpa using hf)]
    by_cases hl : t.links.length = u.links.length
    · rw [if_neg (by simpa using hl)]
      rw [cmpN_eq _ _ _ (by omega) (by omega)]
      have h1 : t.labels.take t.links.length = t.labels := List.take_of_length_le (by omega)
      have h2 : u.labels.take t.links.length = u.labels := List.take_of_length_le (by omega)
      rw [h1, h2]
      by_cases hlab : t.labels = u.labels
      · simp only [hlab, decide_true]
        rw [cmpN_eq _ _ _ (by omega) (by omega)]
        have h3 : t.links.take t.links.length = t.links := List.take_of_length_le (by omega)
        have h4 : u.links.take t.links.length = u.links := List.take_of_length_le (by omega)
        rw [h3, h4]
        simp [hf]
      · simp [hlab]
    · rw [if_pos (by simpa using hl)]
      have : t.links ≠ u.links := fun h => hl (by rw [h])
      simp [this]
  · rw [if_pos (by simpa using hf)]
    simp [hf]

theorem findEquiv_spec (h : Heap) (lc : Node) (hlc : lc.labels.length = lc.links.length) :
    ∀ (reg : List Nat), (∀ u ∈ reg, ∃ un, h[u]? = some un ∧ un.labels.length = un.links.length) →
      (∃ u un, findEquiv h lc reg = .ok (some u) ∧ u ∈ reg ∧ h[u]? = some un ∧ Equiv lc un) ∨
      (findEquiv h lc reg = .ok none ∧ ∀ u ∈ reg, ∀ un, h[u]? = some un → ¬ Equiv lc un) := by
  intro reg
  induction reg with
  | nil => intro _; right; exact ⟨rfl, fun u hu => by cases hu⟩
  | cons u us ih =>
    intro hreg
    obtain ⟨un, hun, hlen⟩ := hreg u List.mem_cons_self
    simp only [findEquiv, getNode_of_some hun, areEquivalent_eq lc un hlc hlen]
    by_cases he : Equiv lc un
    · left
      exact ⟨u, un, by simp [he], List.mem_cons_self, hun, he⟩
    · simp only [he, decide_false]
      rcases ih (fun u' hu' => hreg u' (List.mem_cons_of_mem _ hu')) with ⟨u', un', h1, h2, h3, h4⟩ | ⟨h1, h2⟩
      · left; exact ⟨u', un', h1, List.mem_cons_of_mem _ h2, h3, h4⟩
      · right
        refine ⟨h1, ?_⟩
        intro u' hu' un' hun'
        rw [List.mem_cons] at hu'
        rcases hu' with rfl | hu'
        · rw [hun] at hun'; cases hun'; exact he
        · exact h2 u' hu' un' hun'

theorem accepts_of_equiv {h : Heap} {p q : Nat} {n m : Node} (hp : h[p]? = some n) (hq : h[q]? = some m)
    (he : Equiv n m) (w : Word) : accepts h p w ↔ accepts h q w := by
  obtain ⟨h1, h2, h3⟩ := he
  cases w with
  | nil =>
    simp only [accepts]
    constructor
    · rintro ⟨n', hn', hf⟩; rw [hp] at hn'; cases hn'; exact ⟨m, hq, by rw [← h1]; exact hf⟩
    · rintro ⟨n', hn', hf⟩; rw [hq] at hn'; cases hn'; exact ⟨n, hp, by rw [h1]; exact hf⟩
  | cons c w =>
    simp only [accepts]
    constructor
    · rintro ⟨n', j, r, hn', hfl, hr, hacc⟩
      rw [hp] at hn'; cases hn'
      exact ⟨m, j, r, hq, by rw [← h2]; exact hfl, by rw [← h3]; exact hr, hacc⟩
    · rintro ⟨n', j, r, hn', hfl, hr, hacc⟩
      rw [hq] at hn'; cases hn'
      exact ⟨n, j, r, hp, by rw [h2]; exact hfl, by rw [h3]; exact hr, hacc⟩

theorem sorted_ext_mem : ∀ (A B : List Word), A.Pairwise (· < ·) → B.Pairwise (· < ·) → (∀ w, w ∈ A ↔ w ∈ B) → A = B := by
  intro A
  induction A with
  | nil =>
    intro B _ _ hmem
    cases B with
    | nil => rfl
    | cons b B => exact absurd ((hmem b).2 List.mem_cons_self) (by simp)
  | cons a A ih =>
    intro B hA hB hmem
    cases B with
    | nil => exact absurd ((hmem a).1 List.mem_cons_self) (by simp)
    | cons b B =>
      rw [List.pairwise_cons] at hA hB
      have hab : a = b := by
        have h1 := (hmem a).1 List.mem_cons_self
        have h2 := (hmem b).2 List.mem_cons_self
        rw [List.mem_cons] at h1 h2
        rcases h1 with h1 | h1
        · exact h1
        · rcases h2 with h2 | h2
          · exact h2.symm
          · exact absurd (hA.1 b h2) (word_lt_asymm (hB.1 a h1))
      subst hab
      congr 1
      apply ih B hA.2 hB.2
      intro w
      constructor
      · intro hw
        have := (hmem w).1 (List.mem_cons_of_mem _ hw)
        rw [List.mem_cons] at this
        rcases this with h1 | h1
        · subst h1; exact absurd (hA.1 w hw) (word_lt_irrefl _)
        · exact h1
      · intro hw
        have := (hmem w).2 (List.mem_cons_of_mem _ hw)
        rw [List.mem_cons] at this
        rcases this with h1 | h1
        · subst h1; exact absurd (hB.1 w hw) (word_lt_irrefl _)
        · exact h1

theorem NodeRep.toRep {h : Heap} {R : List Nat} {p : Nat} {L : List Word} {n : Node} (hn : NodeRep h R p L 0 n) :
    Rep h p L :=
  Rep.mk hn.get hn.sorted hn.fin (by simpa using hn.num) hn.labs hn.lens hn.mem
    (fun j c q hj hq => (hn.kids j c q hj hq).2)

/-- two nodes with the same content represent the same language -/
theorem Rep.eq_of_equiv {h : Heap} {p q : Nat} {n m : Node} {A B : List Word} (hp : h[p]? = some n)
    (hq : h[q]? = some m) (he : Equiv n m) (hA : Rep h p A) (hB : Rep h q B) : A = B := by
  apply sorted_ext_mem A B hA.sorted hB.sorted
  intro w
  rw [← hA.accepts_iff, ← hB.accepts_iff]
  exact accepts_of_equiv hp hq he w

theorem Rep.lens {h : Heap} {p : Nat} {L : List Word} (hr : Rep h p L) :
    ∃ n, h[p]? = some n ∧ n.labels.length = n.links.length := by
  cases hr with
  | mk hn hs hf hnum hlab hlen hmem hkids => exact ⟨_, hn, hlen⟩

end Dawg
