import Mamba.Lemmas.CodecBits
import Mamba.Lemmas.CodecNn
/-! `Graph6Encode` of the model produces exactly the string the format prescribes. -/
namespace Codec
open Formats GraphSpec

/-- the bits the encoder pushes, in its own loop order -/
def g6EncBits (g : GI) : List Bool :=
  (List.range' 1 (g.n - 1)).flatMap fun i => (List.range i).map fun j => g.isEdge i j

theorem foldl_nested {α β γ : Type} (f : γ → β → γ) (h : α → List β) (l : List α) (c : γ) :
    l.foldl (fun c a => (h a).foldl f c) c = (l.flatMap h).foldl f c := by
  induction l generalizing c with
  | nil => rfl
  | cons x xs ih => simp [List.flatMap_cons, List.foldl_append, ih]

theorem g6Enc_loop (g : GI) (w : BitW) :
    (List.range' 1 (g.n - 1)).foldl (fun w i => (List.range i).foldl (fun w j => w.pushAdd (g.isEdge i j)) w) w
      = (g6EncBits g).foldl (fun w x => w.pushAdd x) w := by
  unfold g6EncBits
  rw [← foldl_nested]
  congr 1
  funext w i
  rw [List.foldl_map]

theorem g6EncBits_eq (g : GI) (hsym : ∀ u v, g.isEdge u v = g.isEdge v u) (hn : 1 ≤ g.n) :
    g6EncBits g = g6Bits g.toG := by
  unfold g6EncBits g6Bits GI.toG
  have : List.range g.n = 0 :: List.range' 1 (g.n - 1) := by
    rw [List.range_eq_range']
    obtain ⟨k, hk⟩ : ∃ k, g.n = k + 1 := ⟨g.n - 1, by omega⟩
    rw [hk]; simp [List.range'_succ]
  rw [this]
  simp only [List.flatMap_cons, List.range_zero, List.map_nil, List.nil_append]
  congr 1
  funext i
  congr 1
  funext j
  exact hsym i j

theorem g6Bits_small (g : G) (hn : g.n ≤ 1) : g6Bits g = [] := by
  unfold g6Bits
  rcases Nat.lt_or_ge g.n 1 with h | h
  · have : g.n = 0 := by omega
    simp [this]
  · have : g.n = 1 := by omega
    simp [this]

/-- `g6_is_spec`: the model's encoder output *is* the graph6 string of the format, and uses bytes 63..126 only. -/
theorem g6Encode_eq_spec (g : GI) (hsym : ∀ u v, g.isEdge u v = g.isEdge v u) (hn : g.n ≤ 68719476735) :
    ∃ a, g6Encode g = .ok a ∧ a.toList = g6Spec g.toG ∧ ∀ c ∈ a.toList, 63 ≤ c ∧ c ≤ 126 := by
  have hrange : ∀ c ∈ g6Spec g.toG, 63 ≤ c ∧ c ≤ 126 := by
    intro c hc
    unfold g6Spec at hc
    rcases List.mem_append.1 hc with h | h
    · exact Nn_range _ hn c h
    · exact R_range _ c h
  by_cases h1 : g.n ≤ 1
  · have hN : Nn g.n = [g.n + 63] := by unfold Nn; simp [show g.n ≤ 62 by omega]
    have hsp : g6Spec g.toG = [g.n + 63] := by
      unfold g6Spec
      rw [g6Bits_small g.toG h1]
      show Nn g.n ++ R [] = _
      rw [hN]; simp [R]
    refine ⟨#[g.n + 63], by simp [g6Encode, h1], by rw [hsp], ?_⟩
    intro c hc; apply hrange; rw [hsp]; simpa using hc
  · have hrep := BitW.Rep.foldl_pushAdd (g6EncBits g) (BitW.Rep.init (#[] ++ (Nn g.n).toArray))
    have hfl := hrep.flush
    generalize hw : List.foldl (fun w x => w.pushAdd x) ({ s := #[] ++ (Nn g.n).toArray, b := 0, idx := 0 } : BitW)
      (g6EncBits g) = w at hrep hfl
    refine ⟨(if w.idx ≠ 0 then w.s.push (badd w.b 63) else w.s), ?_, ?_, ?_⟩
    · unfold g6Encode
      simp only [h1, if_false, encHeader_eq #[] g.n hn, g6Enc_loop, hw]
    · rw [hfl, g6EncBits_eq g hsym (by omega)]
      simp [g6Spec]; rfl
    · intro c hc
      apply hrange
      rw [hfl, g6EncBits_eq g hsym (by omega)] at hc
      have hc' : c ∈ Nn g.n ∨ c ∈ R (g6Bits g.toG) := by simpa using hc
      exact List.mem_append.2 hc'

end Codec
