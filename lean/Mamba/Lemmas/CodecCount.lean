import Mamba.Lemmas.CodecBase
/-!
Pure counting facts about `GraphSpec.G` and the pair order 01, 02, 12, 03, 13, 23, ... (C07/C08).
-/
namespace Codec
open GraphSpec

def allPairs (n : Nat) : List (Nat × Nat) := (List.range n).flatMap fun j => (List.range j).map fun i => (i, j)

theorem allPairs_succ (n : Nat) : allPairs (n + 1) = allPairs n ++ (List.range n).map fun i => (i, n) := by
  simp [allPairs, List.range_succ, List.flatMap_append]

theorem allPairs_length (n : Nat) : (allPairs n).length = tri n := by
  induction n with
  | zero => rfl
  | succ k ih => rw [allPairs_succ, List.length_append, ih, tri_succ]; simp

theorem allPairs_getElem? {n i j : Nat} (hij : i < j) (hj : j < n) : (allPairs n)[tri j + i]? = some (i, j) := by
  induction n with
  | zero => omega
  | succ k ih =>
    rw [allPairs_succ]
    rcases Nat.lt_or_ge j k with h | h
    · rw [List.getElem?_append_left (by rw [allPairs_length]; exact tri_idx_lt hij h)]
      exact ih h
    · have : j = k := by omega
      subst this
      rw [List.getElem?_append_right (by rw [allPairs_length]; omega), allPairs_length]
      simp [hij]

theorem allPairs_mem {n : Nat} {p : Nat × Nat} : p ∈ allPairs n ↔ p.1 < p.2 ∧ p.2 < n := by
  obtain ⟨a, b⟩ := p
  simp only [allPairs, List.mem_flatMap, List.mem_range, List.mem_map, Prod.mk.injEq]
  constructor
  · rintro ⟨j, hj, i, hi, rfl, rfl⟩; exact ⟨hi, hj⟩
  · rintro ⟨h1, h2⟩; exact ⟨b, h2, a, h1, rfl, rfl⟩

theorem allPairs_nodup (n : Nat) : (allPairs n).Nodup := by
  induction n with
  | zero => simp [allPairs]
  | succ k ih =>
    rw [allPairs_succ]
    rw [List.nodup_append]
    refine ⟨ih, ?_, ?_⟩
    · exact List.Pairwise.map _ (fun a b h => by simpa using h) List.nodup_range
    · intro p hp q hq hpq
      subst hpq
      rw [allPairs_mem] at hp
      simp only [List.mem_map, List.mem_range] at hq
      obtain ⟨i, _, rfl⟩ := hq
      simp at hp

theorem edges_eq_filter (g : G) : g.edges = (allPairs g.n).filter (fun p => g.adj p.1 p.2) := by
  unfold G.edges allPairs
  rw [List.filter_flatMap]
  congr 1; funext v
  rw [List.filter_map]; rfl

theorem upperBits_eq (g : G) : upperBits g = (allPairs g.n).map (fun p => if g.adj p.1 p.2 then 1 else 0) := by
  unfold upperBits allPairs
  rw [List.map_flatMap]
  congr 1; funext v
  rw [List.map_map]; rfl

theorem upperBits_length (g : G) : (upperBits g).length = tri g.n := by
  rw [upperBits_eq, List.length_map, allPairs_length]

theorem upperBits_getElem? (g : G) {i j : Nat} (hij : i < j) (hj : j < g.n) :
    (upperBits g)[tri j + i]? = some (if g.adj i j then 1 else 0) := by
  rw [upperBits_eq, List.getElem?_map, allPairs_getElem? hij hj]; rfl

theorem edges_mem (g : G) (u v : Nat) : (u, v) ∈ g.edges ↔ u < v ∧ v < g.n ∧ g.adj u v = true := by
  rw [edges_eq_filter, List.mem_filter, allPairs_mem]
  simp [and_assoc]

theorem edges_nodup (g : G) : g.edges.Nodup := by
  rw [edges_eq_filter]; exact List.Nodup.sublist List.filter_sublist (allPairs_nodup _)


theorem countP_eq_and_range (v : Nat) (f : Nat → Bool) (k : Nat) :
    (List.range k).countP (fun i => i == v && f i) = if v < k ∧ f v = true then 1 else 0 := by
  induction k with
  | zero => simp
  | succ k ih =>
    rw [List.range_succ, List.countP_append, ih, List.countP_singleton]
    by_cases h1 : v < k
    · have : ¬ k = v := by omega
      simp [h1, this, Nat.lt_succ_of_lt h1]
    · by_cases h2 : k = v
      · subst h2; simp
      · have : ¬ v < k + 1 := by omega
        simp [h1, h2, this]

theorem countP_range_succ (f : Nat → Bool) (k : Nat) :
    (List.range (k + 1)).countP f = (List.range k).countP f + if f k then 1 else 0 := by
  rw [List.range_succ, List.countP_append, List.countP_singleton]

/-- pairs of `allPairs k` touching `v`, counted with the adjacency relation -/
theorem allPairs_countP_touch (g : G) (h : g.WF) (v k : Nat) :
    (allPairs k).countP (fun p => (p.1 == v || p.2 == v) && g.adj p.1 p.2) =
      if v < k then (List.range k).countP (g.adj v) else 0 := by
  induction k with
  | zero => simp [allPairs]
  | succ k ih =>
    rw [allPairs_succ, List.countP_append, ih, List.countP_map, countP_range_succ]
    rcases Nat.lt_trichotomy v k with h1 | h1 | h1
    · have e : ((fun p : Nat × Nat => (p.1 == v || p.2 == v) && g.adj p.1 p.2) ∘ fun i => (i, k))
          = fun i => i == v && g.adj i k := by
        funext i
        have : (k == v) = false := by rw [beq_eq_false_iff_ne]; omega
        simp [this]
      rw [e, countP_eq_and_range]
      simp [h1, Nat.lt_succ_of_lt h1]
    · subst h1
      have e : ((fun p : Nat × Nat => (p.1 == v || p.2 == v) && g.adj p.1 p.2) ∘ fun i => (i, v))
          = g.adj v := by
        funext i
        simp [h.symm i v]
      rw [e]
      simp [h.irrefl v]
    · have : ¬ v < k := by omega
      have : ¬ v < k + 1 := by omega
      simp only [*, if_false, Nat.zero_add]
      rw [List.countP_eq_zero]
      intro i hi
      rw [List.mem_range] at hi
      have e1 : (i == v) = false := by rw [beq_eq_false_iff_ne]; omega
      have e2 : (k == v) = false := by rw [beq_eq_false_iff_ne]; omega
      simp [e1, e2]

/-- degree = number of edges of the list that touch v -/
theorem edges_count_deg (g : G) (h : g.WF) (v : Nat) (hv : v < g.n) :
    (g.edges.filter (fun p => p.1 == v || p.2 == v)).length = g.deg v := by
  rw [edges_eq_filter, List.filter_filter, ← List.countP_eq_length_filter, allPairs_countP_touch g h v g.n,
    if_pos hv, List.countP_eq_length_filter]
  rfl

end Codec
