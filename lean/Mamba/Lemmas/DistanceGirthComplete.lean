import Mamba.Lemmas.DistanceGirthSound
import Mamba.Lemmas.DistanceGirthComb
import Mamba.Lemmas.DistanceCanon
import Mamba.Lemmas.DistanceRelabel
/-!
# Lemmas for C10: the `Girth` model finds every cycle through each of its roots (completeness)
-/
namespace GDist
open GraphSpec

theorem DF.mono {D P : Nat → Nat} {γ γ' i p0 x y : Nat} (h : DF D P γ i p0 x y) (hle : γ' ≤ γ) :
    DF D P γ' i p0 x y := by
  rcases h with h | h | ⟨h1, h2⟩ | ⟨h1, h2⟩ | ⟨h1, h2, h3, h4⟩
  · exact .inl h
  · exact .inr (.inl h)
  · exact .inr (.inr (.inl ⟨h1, by omega⟩))
  · exact .inr (.inr (.inr (.inl ⟨h1, by omega⟩)))
  · refine .inr (.inr (.inr (.inr ⟨h1, h2, h3, ?_⟩)))
    rcases h4 with h4 | h4
    · exact .inl h4
    · exact .inr (by omega)

/-- `DF x y` survives labelling a so far unlabelled non-root vertex `j ≠ x` -/
theorem DF.relabel {D P D' P' : Nat → Nat} {γ i p0 x y j : Nat} (h : DF D P γ i p0 x y)
    (hD : ∀ w, w ≠ j → D' w = D w) (hP : ∀ w, w ≠ j → P' w = P w) (hj0 : D j = 0) (hxj : x ≠ j) :
    DF D' P' γ i p0 x y := by
  rcases h with ⟨h1, h2⟩ | h | ⟨h1, h2⟩ | ⟨h1, h2⟩ | ⟨h1, h2, h3, h4⟩
  · exact .inl ⟨h1, by rw [hP x hxj]; exact h2⟩
  · exact .inr (.inl h)
  · exact .inr (.inr (.inl ⟨h1, by rw [hD x hxj]; exact h2⟩))
  · exact .inr (.inr (.inr (.inl ⟨h1, by rw [hD x hxj]; exact h2⟩)))
  · have hyj : y ≠ j := by rintro rfl; exact h2 hj0
    refine .inr (.inr (.inr (.inr ⟨h1, by rw [hD y hyj]; exact h2, by rw [hD y hyj, hD x hxj]; exact h3, ?_⟩)))
    rw [hP y hyj, hD y hyj, hD x hxj]; exact h4

structure GC (g : G) (i p0 : Nat) (st : Model.GirthSt) (k : Nat) (js : List Nat) (d : Nat) (A B : List Nat) :
    Prop where
  qsplit : st.Q = A ++ B
  qok : ∀ x ∈ st.Q, x = i ∨ lbl st.D x ≠ 0
  labA : ∀ x ∈ A, lbl st.D x = d
  labB : ∀ x ∈ B, lbl st.D x = d + 1
  bnd : ∀ v, lbl st.D v ≤ d + 1
  p0eq : lbl st.P i = p0
  groot : ∀ x, x ≠ i → lbl st.D x ≠ 0 → lbl st.P x = i → x ≠ p0
  done : ∀ x y, x < g.n → (x = i ∨ lbl st.D x ≠ 0) → x ∉ st.Q → g.adj x y = true → y < g.n →
    (x = k → y ∉ js) → DF (lbl st.D) (lbl st.P) st.girth i p0 x y

variable {g : G} {i p0 : Nat}

/-- the current neighbour has been dealt with without changing labels (the girth may have decreased to `v`) -/
theorem gc_step {st : Model.GirthSt} {k j d v : Nat} {js A B : List Nat} (gc : GC g i p0 st k (j :: js) d A B)
    (hv : v ≤ st.girth) (hdf : DF (lbl st.D) (lbl st.P) v i p0 k j) :
    GC g i p0 { st with girth := v } k js d A B :=
  { qsplit := gc.qsplit, qok := gc.qok, labA := gc.labA, labB := gc.labB, bnd := gc.bnd, p0eq := gc.p0eq, groot := gc.groot,
    done := by
      intro x y hx hxr hxq hadj hy hcl
      by_cases hc : x = k ∧ y = j
      · obtain ⟨rfl, rfl⟩ := hc; exact hdf
      · refine (gc.done x y hx hxr hxq hadj hy ?_).mono hv
        intro hxk hm
        rcases List.mem_cons.1 hm with h | h
        · exact hc ⟨hxk, h⟩
        · exact hcl hxk h }

theorem gc_label {st : Model.GirthSt} {k j d : Nat} {js A B : List Nat} (gc : GC g i p0 st k (j :: js) d A B)
    (hkr : k = i ∨ lbl st.D k ≠ 0) (hdk : lbl st.D k = d) (hpk : k = i → j ≠ p0)
    (hji : j ≠ i) (hz : lbl st.D j = 0) (hjD : j < st.D.size) (hjP : j < st.P.size) :
    GC g i p0 { st with P := st.P.set j k hjP, D := st.D.set j (d + 1) hjD, Q := st.Q ++ [j] } k js d A
      (B ++ [j]) := by
  have hlD : ∀ w, lbl (st.D.set j (d + 1) hjD) w = if w = j then d + 1 else lbl st.D w := fun w => lbl_set hjD
  have hlP : ∀ w, lbl (st.P.set j k hjP) w = if w = j then k else lbl st.P w := fun w => lbl_set hjP
  have hnotj : ∀ w, (w = i ∨ lbl st.D w ≠ 0) → w ≠ j := by
    rintro w (h | h) rfl
    · exact hji h
    · exact h hz
  have hkj : k ≠ j := hnotj k hkr
  refine { qsplit := ?_, qok := ?_, labA := ?_, labB := ?_, bnd := ?_, p0eq := ?_, groot := ?_, done := ?_ }
  · show st.Q ++ [j] = A ++ (B ++ [j])
    rw [gc.qsplit, List.append_assoc]
  · intro x hx
    show x = i ∨ lbl (st.D.set j (d + 1) hjD) x ≠ 0
    have hx' : x ∈ st.Q ++ [j] := hx
    rw [hlD]
    rcases List.mem_append.1 hx' with hx' | hx'
    · rcases gc.qok x hx' with h | h
      · exact .inl h
      · right; simp [hnotj x (.inr h), h]
    · simp at hx'; right; simp [hx']
  · intro x hx
    show lbl (st.D.set j (d + 1) hjD) x = d
    have hxq : x ∈ st.Q := by rw [gc.qsplit]; exact List.mem_append.2 (.inl hx)
    rw [hlD]; simp [hnotj x (gc.qok x hxq), gc.labA x hx]
  · intro x hx
    show lbl (st.D.set j (d + 1) hjD) x = d + 1
    rw [hlD]
    rcases List.mem_append.1 hx with hx | hx
    · by_cases hxj : x = j
      · simp [hxj]
      · simp [hxj, gc.labB x hx]
    · simp at hx; simp [hx]
  · intro w
    show lbl (st.D.set j (d + 1) hjD) w ≤ d + 1
    rw [hlD]; split
    · exact Nat.le_refl _
    · exact gc.bnd w
  · show lbl (st.P.set j k hjP) i = p0
    rw [hlP]; simp [Ne.symm hji, gc.p0eq]
  · intro x hxi hlab hpx
    have hlab' : lbl (st.D.set j (d + 1) hjD) x ≠ 0 := hlab
    have hpx' : lbl (st.P.set j k hjP) x = i := hpx
    by_cases hxj : x = j
    · subst hxj
      rw [hlP] at hpx'; simp only [if_true] at hpx'
      exact hpk hpx'
    · rw [hlD] at hlab'; simp only [hxj, if_false] at hlab'
      rw [hlP] at hpx'; simp only [hxj, if_false] at hpx'
      exact gc.groot x hxi hlab' hpx'
  · intro x y hx hxr hxq hadj hy hcl
    have hxr' : x = i ∨ lbl (st.D.set j (d + 1) hjD) x ≠ 0 := hxr
    have hxq' : x ∉ st.Q ++ [j] := hxq
    have hxj : x ≠ j := fun h => hxq' (List.mem_append.2 (.inr (by simp [h])))
    have hxr0 : x = i ∨ lbl st.D x ≠ 0 := by
      rcases hxr' with h | h
      · exact .inl h
      · right; rw [hlD] at h; simpa [hxj] using h
    have hxq0 : x ∉ st.Q := fun h => hxq' (List.mem_append.2 (.inl h))
    show DF (lbl (st.D.set j (d + 1) hjD)) (lbl (st.P.set j k hjP)) st.girth i p0 x y
    by_cases hc : x = k ∧ y = j
    · obtain ⟨rfl, rfl⟩ := hc
      refine .inr (.inr (.inr (.inr ⟨hji, ?_, ?_, .inl ?_⟩)))
      · rw [hlD]; simp
      · rw [hlD, hlD]; simp [hkj, hdk]
      · rw [hlP]; simp
    · refine (gc.done x y hx hxr0 hxq0 hadj hy ?_).relabel (j := j)
        (fun w hw => by rw [hlD]; simp [hw]) (fun w hw => by rw [hlP]; simp [hw]) hz hxj
      intro hxk hm
      rcases List.mem_cons.1 hm with h | h
      · exact hc ⟨hxk, h⟩
      · exact hcl hxk h

theorem girthInner_complete {k d pk : Nat} {A' : List Nat} (hk : k < g.n) :
    ∀ (js : List Nat) (st : Model.GirthSt) (B : List Nat), GC g i p0 st k js d A' B →
      st.D.size = g.n → st.P.size = g.n → (∀ j ∈ js, j < g.n ∧ g.adj k j = true) →
      (k = i ∨ lbl st.D k ≠ 0) → lbl st.D k = d → lbl st.P k = pk →
      ∀ st', Model.girthInner i k d pk js st = .ok st' →
        ∃ B', GC g i p0 st' k [] d A' B' ∧ st'.girth ≤ st.girth ∧ st'.D.size = g.n ∧ st'.P.size = g.n := by
  intro js
  induction js with
  | nil =>
    intro st B gc hD hP _ _ _ _ st' h
    simp only [Model.girthInner] at h
    cases h; exact ⟨B, gc, Nat.le_refl _, hD, hP⟩
  | cons j js ih =>
    intro st B gc hD hP hjs hkr hdk hpk st' h
    have ⟨hjn, hadj⟩ := hjs j List.mem_cons_self
    have hjs' : ∀ x ∈ js, x < g.n ∧ g.adj k x = true := fun x hx => hjs x (List.mem_cons_of_mem _ hx)
    have hjD : j < st.D.size := by rw [hD]; exact hjn
    have hjP : j < st.P.size := by rw [hP]; exact hjn
    -- a step that keeps the labels: continue with the tail
    have hstep : ∀ v, v ≤ st.girth → DF (lbl st.D) (lbl st.P) v i p0 k j →
        Model.girthInner i k d pk js { st with girth := v } = .ok st' →
        ∃ B', GC g i p0 st' k [] d A' B' ∧ st'.girth ≤ st.girth ∧ st'.D.size = g.n ∧ st'.P.size = g.n := by
      intro v hv hdf h'
      obtain ⟨B', h1, h2, h3, h4⟩ := ih { st with girth := v } B (gc_step gc hv hdf) hD hP hjs' hkr hdk hpk st' h'
      exact ⟨B', h1, Nat.le_trans h2 hv, h3, h4⟩
    have hsame : ({ st with girth := st.girth } : Model.GirthSt) = st := rfl
    unfold Model.girthInner at h
    by_cases h1 : j ≠ pk
    · simp only [h1, ne_eq, not_false_eq_true, if_true, hjD, dif_pos] at h
      rw [lbl_of_lt hjD] at h
      by_cases h2 : j = i ∧ d + 1 < st.girth
      · simp only [h2, and_self, if_true] at h
        refine hstep (d + 1) (by omega) ?_ h
        exact .inr (.inr (.inr (.inl ⟨h2.1, by rw [hdk]⟩)))
      · simp only [h2, if_false] at h
        by_cases h3 : ¬ j = i ∧ lbl st.D j = 0
        · simp only [h3, not_false_eq_true, and_self, if_true] at h
          by_cases h4 : d + 2 < st.girth
          · simp only [h4, if_true, hjP, dif_pos] at h
            have hkj : k ≠ j := by
              rintro rfl
              rcases hkr with h0 | h0
              · exact h3.1 h0
              · exact h0 h3.2
            have gc' := gc_label gc hkr hdk
              (by intro hki; rw [hki, gc.p0eq] at hpk; rw [hpk]; exact h1) h3.1 h3.2 hjD hjP
            obtain ⟨B', g1, g2, g3, g4⟩ := ih _ (B ++ [j]) gc' (by simp [hD]) (by simp [hP]) hjs'
              (by
                rcases hkr with h0 | h0
                · exact .inl h0
                · right
                  show lbl (st.D.set j (d + 1) hjD) k ≠ 0
                  rw [lbl_set hjD]; simp [hkj, h0])
              (by show lbl (st.D.set j (d + 1) hjD) k = d
                  rw [lbl_set hjD]; simp [hkj, hdk])
              (by show lbl (st.P.set j k hjP) k = pk
                  rw [lbl_set hjP]; simp [hkj, hpk]) st' h
            exact ⟨B', g1, g2, g3, g4⟩
          · simp only [h4, if_false] at h
            refine hstep st.girth (Nat.le_refl _) ?_ h
            exact .inr (.inr (.inl ⟨h3.1, by rw [hdk]; omega⟩))
        · simp only [h3, if_false] at h
          by_cases h5 : ¬ j = i ∧ d + lbl st.D j + 1 < st.girth
          · simp only [h5, not_false_eq_true, and_self, if_true] at h
            have hjl : lbl st.D j ≠ 0 := fun h0 => h3 ⟨h5.1, h0⟩
            refine hstep (d + lbl st.D j + 1) (by omega) ?_ h
            refine .inr (.inr (.inr (.inr ⟨h5.1, hjl, ?_, .inr ?_⟩)))
            · rw [hdk]; exact gc.bnd j
            · rw [hdk]
          · simp only [h5, if_false] at h
            refine hstep st.girth (Nat.le_refl _) ?_ h
            by_cases hji : j = i
            · -- back at the root, no improvement
              refine .inr (.inr (.inr (.inl ⟨hji, ?_⟩)))
              rw [hdk]
              have : ¬ d + 1 < st.girth := fun hlt => h2 ⟨hji, hlt⟩
              omega
            · have hjl : lbl st.D j ≠ 0 := fun h0 => h3 ⟨hji, h0⟩
              refine .inr (.inr (.inr (.inr ⟨hji, hjl, ?_, .inr ?_⟩)))
              · rw [hdk]; exact gc.bnd j
              · rw [hdk]
                have : ¬ d + lbl st.D j + 1 < st.girth := fun hlt => h5 ⟨hji, hlt⟩
                omega
    · simp only [h1, if_false] at h
      have hjpk : j = pk := by
        by_contra hne; exact h1 hne
      refine hstep st.girth (Nat.le_refl _) ?_ h
      by_cases hki : k = i
      · refine .inr (.inl ⟨hki, ?_⟩)
        rw [hjpk, ← hpk, hki, gc.p0eq]
      · exact .inl ⟨hki, by rw [hjpk, hpk]⟩

theorem gc_rebracket {st : Model.GirthSt} {k d : Nat} {B : List Nat} (gc : GC g i p0 st k [] d [] B) :
    GC g i p0 st k [] (d + 1) B [] :=
  { qsplit := (by rw [gc.qsplit]; simp), qok := gc.qok, labA := gc.labB,
    labB := fun x hx => (by cases hx), bnd := fun v => (by have := gc.bnd v; omega),
    p0eq := gc.p0eq, groot := gc.groot, done := gc.done }

theorem gc_pop {st : Model.GirthSt} {k k0 d : Nat} {A' B Q' : List Nat} (gc : GC g i p0 st k0 [] d (k :: A') B)
    (hQ : st.Q = k :: Q') : GC g i p0 { st with Q := Q' } k (g.nbrs k) d A' B := by
  have hsplit : Q' = A' ++ B := by
    have := gc.qsplit
    rw [hQ] at this
    simpa using this
  refine { qsplit := hsplit, qok := fun x hx => gc.qok x (by rw [hQ]; exact List.mem_cons_of_mem _ hx),
           labA := fun x hx => gc.labA x (List.mem_cons_of_mem _ hx), labB := gc.labB, bnd := gc.bnd,
           p0eq := gc.p0eq, groot := gc.groot, done := ?_ }
  intro x y hx hxr hxq hadj hy hcl
  have hxq' : x ∉ Q' := hxq
  by_cases hxk : x = k
  · exact absurd (mem_nbrs.2 ⟨hy, by rw [← hxk]; exact hadj⟩) (hcl hxk)
  · refine gc.done x y hx hxr ?_ hadj hy (fun _ => by simp)
    rw [hQ]; intro hm
    rcases List.mem_cons.1 hm with h | h
    · exact hxk h
    · exact hxq' h

theorem girthOuter_complete :
    ∀ (fuel : Nat) (st : Model.GirthSt) (d : Nat) (A B : List Nat) (k0 : Nat), GC g i p0 st k0 [] d A B →
      st.D.size = g.n → st.P.size = g.n → (∀ x ∈ st.Q, x < g.n) →
      ∀ st', Model.girthOuter g i fuel st = .ok st' →
        ∃ d' k', GC g i p0 st' k' [] d' [] [] ∧ st'.girth ≤ st.girth ∧ st'.Q = [] := by
  intro fuel
  induction fuel with
  | zero => intro st d A B k0 _ _ _ _ st' h; simp [Model.girthOuter] at h
  | succ f ih =>
    intro st d A B k0 gc hD hP hQlt st' h
    unfold Model.girthOuter at h
    match hQ : st.Q with
    | [] =>
      rw [hQ] at h
      simp only at h
      cases h
      have hs := gc.qsplit
      rw [hQ] at hs
      obtain ⟨hA, hB⟩ := List.append_eq_nil_iff.1 hs.symm
      subst hA; subst hB
      exact ⟨d, k0, gc, Nat.le_refl _, hQ⟩
    | k :: Q' =>
      rw [hQ] at h
      have hkq : k ∈ st.Q := by rw [hQ]; exact List.mem_cons_self
      have hk : k < g.n := hQlt k hkq
      have hkr := gc.qok k hkq
      have hkD : k < st.D.size := by rw [hD]; exact hk
      have hkP : k < st.P.size := by rw [hP]; exact hk
      simp only [hkD, hkP, dif_pos] at h
      -- bring the queue into the form k :: A' ++ B'
      obtain ⟨d', A', B', gc'⟩ : ∃ d' A' B', GC g i p0 st k0 [] d' (k :: A') B' := by
        cases A with
        | nil =>
          have hs := gc.qsplit
          simp only [List.nil_append] at hs
          rw [hQ] at hs
          subst hs
          exact ⟨d + 1, Q', [], gc_rebracket gc⟩
        | cons a A' =>
          have hs := gc.qsplit
          rw [hQ] at hs
          simp only [List.cons_append, List.cons.injEq] at hs
          obtain ⟨rfl, _⟩ := hs
          exact ⟨d, A', B, gc⟩
      have gc1 := gc_pop gc' hQ
      have hdk : lbl st.D k = d' := gc'.labA k List.mem_cons_self
      cases hin : Model.girthInner i k st.D[k] st.P[k] (g.nbrs k) { st with Q := Q' } with
      | ok st1 =>
        rw [hin] at h
        simp only at h
        rw [lbl_of_lt hkD, hdk] at hin
        obtain ⟨B'', gc2, hle, hD1, hP1⟩ := girthInner_complete (pk := st.P[k]) hk (g.nbrs k) _ B' gc1 hD hP
          (fun v hv => mem_nbrs.1 hv) hkr hdk (lbl_of_lt hkP).symm st1 hin
        have hQ1 : ∀ x ∈ st1.Q, x < g.n := by
          intro x hx
          rcases gc2.qok x hx with h0 | h0
          · -- the root is only queued at the start; in any case it is in range through `lbl`
            by_contra hge
            have : lbl st1.D x = 0 := by
              unfold lbl; simp [Array.getD, hD1]; omega
            rw [gc2.qsplit] at hx
            rcases List.mem_append.1 hx with hx | hx
            · have hxA : x ∈ k :: A' := List.mem_cons_of_mem _ hx
              have hxq : x ∈ st.Q := by
                rw [gc'.qsplit]; exact List.mem_append.2 (.inl hxA)
              exact hge (hQlt x hxq)
            · have := gc2.labB x hx
              omega
          · by_contra hge
            have : lbl st1.D x = 0 := by
              unfold lbl; simp [Array.getD, hD1]; omega
            exact h0 this
        obtain ⟨d2, k2, gc3, hle2, hq2⟩ := ih st1 d' A' B'' k gc2 hD1 hP1 hQ1 st' h
        exact ⟨d2, k2, gc3, Nat.le_trans hle2 hle, hq2⟩
      | panic => rw [hin] at h; simp at h
      | outOfFuel => rw [hin] at h; simp at h

/-- a cycle sequence through `r`, re-rooted at `r` -/
theorem cycFrom_of_cycleSeq (hsym : ∀ u v, g.adj u v = g.adj v u) {c : List Nat} (hc : IsCycleSeq g c)
    {r : Nat} (hr : r ∈ c) : ∃ Y, CycFrom g r Y ∧ Y.length + 1 = c.length := by
  obtain ⟨A, B, rfl⟩ := List.append_of_mem hr
  have h0 : (A ++ r :: B).IsRotated ((B ++ A) ++ [r]) := by
    have h1 : (A ++ r :: B).IsRotated (r :: B ++ A) := List.isRotated_append
    have h2 : (r :: (B ++ A)).IsRotated ((B ++ A) ++ [r]) := List.IsRotated.cons_append_singleton
    exact h1.trans (by simpa using h2)
  have hc0 := isCycleSeq_of_isRotated hc h0
  have hlen : ((B ++ A) ++ [r]).length = (A ++ r :: B).length := h0.perm.length_eq.symm
  generalize B ++ A = X at hc0 hlen
  rw [isCycleSeq_iff] at hc0
  obtain ⟨h1, h2, h3, h4, h5⟩ := hc0
  have hX2 : 2 ≤ X.length := by simp at h1; omega
  rw [List.isChain_append] at h4
  obtain ⟨hchX, _, hjoin⟩ := h4
  have hXne : X ≠ [] := by intro h; rw [h] at hX2; simp at hX2
  refine ⟨X, { len := hX2, nd := ?_, rng := fun y hy => h3 y (List.mem_append.2 (.inl hy)), first := ?_,
               chain := ?_, close := ?_ }, by rw [← hlen]; simp⟩
  · have : (X ++ [r]).Perm (r :: X) := List.perm_append_singleton r X
    exact this.nodup_iff.1 h2
  · intro h
    have hl : (X ++ [r]).getLast? = some r := by rw [List.getLast?_append]; simp
    have hh : (X ++ [r]).head? = some X[0] := by
      rw [List.head?_append_of_ne_nil _ hXne, List.head?_eq_getElem?, List.getElem?_eq_getElem h]
    have := h5 r hl X[0] hh
    unfold RAdj at this
    rw [hsym]; exact this
  · intro t h
    have := (List.isChain_iff_getElem.1 hchX) t h
    unfold RAdj at this
    rw [hsym]; exact this
  · intro h
    have hl : X.getLast? = some X[X.length - 1] := by
      rw [List.getLast?_eq_getElem?, List.getElem?_eq_getElem (by omega)]
    have := hjoin _ hl r rfl
    unfold RAdj at this
    rw [hsym]; exact this

/-- a cycle has a vertex among the roots `0 .. n-3` -/
theorem cycle_has_root {c : List Nat} (hc : IsCycleSeq g c) : ∃ r ∈ c, r < g.n - 2 := by
  by_contra hcon
  have hall : ∀ x ∈ c, x ∈ [g.n - 2, g.n - 1] := by
    intro x hx
    have h1 := hc.2.2.1 x hx
    have h2 : ¬ x < g.n - 2 := fun h => hcon ⟨x, hx, h⟩
    simp; omega
  have := (List.subperm_of_subset hc.2.1 hall).length_le
  have := hc.1
  simp at *
  omega

theorem girthRoots_complete (hsym : ∀ u v, g.adj u v = g.adj v u) (hirr : ∀ v, g.adj v v = false) (fuel : Nat) :
    ∀ (roots : List Nat) (st : Model.GirthSt), (∀ r ∈ roots, r < g.n) → st.P.size = g.n →
      (st.girth = g.n + 2 ∨ CycLe g st.girth) →
      ∀ st', Model.girthRoots g fuel roots st = .ok st' →
        st'.girth ≤ st.girth ∧ ∀ r ∈ roots, ∀ Y, CycFrom g r Y → st'.girth ≤ Y.length + 1 := by
  intro roots
  induction roots with
  | nil =>
    intro st _ _ _ st' h
    simp [Model.girthRoots] at h; cases h
    exact ⟨Nat.le_refl _, fun r hr => by cases hr⟩
  | cons i is ih =>
    intro st hr hP hs st' h
    have hi : i < g.n := hr i List.mem_cons_self
    unfold Model.girthRoots at h
    have hl0 : ∀ v, lbl (Array.replicate g.n 0) v = 0 := by
      intro v; unfold lbl
      by_cases hv : v < g.n <;> simp [Array.getD, hv]
    have inv0 : GInv g i { st with D := Array.replicate g.n 0, Q := [i] } g.n [] :=
      { dsize := by simp, psize := hP, root0 := hl0 i,
        tree := fun x _ _ h => absurd (hl0 x) h,
        qok := fun x hx => by simp at hx; subst hx; exact ⟨hi, .inl rfl⟩,
        qnd := by simp,
        parq := fun x _ _ h => absurd (hl0 x) h,
        knq := by simp; omega,
        scan := fun x _ _ h => absurd (hl0 x) h,
        sound := hs }
    have gc0 : GC g i (lbl st.P i) { st with D := Array.replicate g.n 0, Q := [i] } g.n [] 0 [i] [] :=
      { qsplit := rfl, qok := fun x hx => by simp at hx; exact .inl hx,
        labA := fun x _ => hl0 x, labB := fun x hx => (by cases hx), bnd := fun v => (by rw [hl0]; omega),
        p0eq := rfl, groot := fun x _ h => absurd (hl0 x) h,
        done := fun x y _ hxr hxq => by
          rcases hxr with h0 | h0
          · subst h0; simp at hxq
          · exact absurd (hl0 x) h0 }
    cases hout : Model.girthOuter g i fuel { st with D := Array.replicate g.n 0, Q := [i] } with
    | ok st1 =>
      rw [hout] at h
      simp only at h
      obtain ⟨k', inv1⟩ := girthOuter_sound hsym hirr hi fuel _ g.n inv0 st1 hout
      obtain ⟨d', k'', gc1, hle1, hq1⟩ := girthOuter_complete fuel _ 0 [i] [] g.n gc0 (by simp) hP
        (fun x hx => by simp at hx; subst hx; exact hi) st1 hout
      have hfin : FinalSt g (lbl st1.D) (lbl st1.P) st1.girth i (lbl st.P i) :=
        { hi := hi, root0 := inv1.root0,
          tree := fun x hx hxi hl => by
            obtain ⟨h1, _, h3⟩ := inv1.tree x hx hxi hl
            exact ⟨h1, h3⟩,
          df := fun x y hx hxr hadj hy => gc1.done x y hx hxr (by rw [hq1]; simp) hadj hy (fun _ => by simp),
          groot := gc1.groot }
      obtain ⟨hle2, hrest⟩ := ih st1 (fun r hr' => hr r (List.mem_cons_of_mem _ hr')) inv1.psize inv1.sound st' h
      refine ⟨Nat.le_trans hle2 hle1, ?_⟩
      intro r hr' Y cy
      rcases List.mem_cons.1 hr' with rfl | hr'
      · exact Nat.le_trans hle2 (final_girth_le hfin hsym cy)
      · exact hrest r hr' Y cy
    | panic => rw [hout] at h; simp at h
    | outOfFuel => rw [hout] at h; simp at h

/-- **the faithful model of `Girth` returns the girth** (symmetric loop-free graphs, any fuel ≥ n + 2) -/
theorem girthM_eq_girth (g : G) (hsym : ∀ u v, g.adj u v = g.adj v u) (hirr : ∀ v, g.adj v v = false)
    (fuel : Nat) (hf : g.n + 2 ≤ fuel) : Model.girthM g fuel = .ok (girth g) := by
  obtain ⟨r, hr⟩ := girthM_total g fuel hf
  rw [hr]
  congr 1
  have hsound := girthM_sound g hsym hirr fuel r hr
  -- completeness
  have hcomp : ∀ c, IsCycleSeq g c → r ≠ -1 ∧ r ≤ (c.length : Int) := by
    intro c hc
    have hn3 : ¬ g.n < 3 := by
      have := hc.length_le; have := hc.1; omega
    unfold Model.girthM at hr
    simp only [hn3, if_false] at hr
    cases hroots : Model.girthRoots g fuel (List.range (g.n - 2))
        { girth := g.n + 2, D := Array.replicate g.n 0, P := Array.replicate g.n 0, Q := [] } with
    | ok st =>
      rw [hroots] at hr
      simp only at hr
      obtain ⟨r0, hr0c, hr0⟩ := cycle_has_root hc
      obtain ⟨Y, cy, hYlen⟩ := cycFrom_of_cycleSeq hsym hc hr0c
      have := (girthRoots_complete hsym hirr fuel (List.range (g.n - 2)) _
        (fun x hx => by have := List.mem_range.1 hx; omega) (by simp) (.inl rfl) st hroots).2 r0
        (List.mem_range.2 hr0) Y cy
      have hle : st.girth ≤ c.length := by omega
      have hcn := hc.length_le
      have hne : st.girth ≠ g.n + 2 := by omega
      simp only [hne, if_false] at hr
      cases hr
      exact ⟨by omega, by exact_mod_cast hle⟩
    | panic => rw [hroots] at hr; simp at hr
    | outOfFuel => rw [hroots] at hr; simp at hr
  cases hgo : girthOpt g with
  | none =>
    have hno : ¬ ∃ c, IsCycleSeq g c := by
      rintro ⟨c, hc⟩
      have := (hasCycle_iff (g := g) c.length).2 ⟨c, hc, rfl⟩
      unfold girthOpt at hgo
      rw [leastUpTo_eq_none] at hgo
      have h2 := hgo c.length (Nat.zero_le _) (by have := hc.length_le; omega)
      rw [this] at h2; cases h2
    simp only [girth, hgo, optToInt]
    rcases hsound with h | ⟨c, hc, _⟩
    · exact h
    · exact absurd ⟨c, hc⟩ hno
  | some l =>
    obtain ⟨⟨c, hc, hcl⟩, hmin⟩ := (girthOpt_eq_some_iff g l).1 hgo
    simp only [girth, hgo, optToInt]
    obtain ⟨hne, hle⟩ := hcomp c hc
    rcases hsound with h | ⟨c', hc', hlen'⟩
    · exact absurd h hne
    · have := hmin c' hc'
      have h1 : (l : Int) ≤ (c'.length : Int) := by exact_mod_cast this
      rw [hcl] at hle
      omega

/-- **stale-entry lemma**: the root loop of `Girth` started with an *arbitrary* `parentVertices` array (of the right
size) ends with the `girth` variable equal to the girth (`n + 2` standing for "no cycle"); so the entries left in
`parentVertices` by earlier roots — and a fortiori the initial zeros — cannot change the result. -/
theorem girthRoots_any_parents (g : G) (hsym : ∀ u v, g.adj u v = g.adj v u) (hirr : ∀ v, g.adj v v = false)
    (fuel : Nat) (hf : g.n + 2 ≤ fuel) (P0 : Array Nat) (hP0 : P0.size = g.n) :
    ∃ st, Model.girthRoots g fuel (List.range (g.n - 2))
        { girth := g.n + 2, D := Array.replicate g.n 0, P := P0, Q := [] } = .ok st ∧
      (girthOpt g = none → st.girth = g.n + 2) ∧ (∀ l, girthOpt g = some l → st.girth = l) := by
  have hroots_lt : ∀ x ∈ List.range (g.n - 2), x < g.n := fun x hx => by have := List.mem_range.1 hx; omega
  obtain ⟨st, hst⟩ := girthRoots_total g fuel hf (List.range (g.n - 2))
    { girth := g.n + 2, D := Array.replicate g.n 0, P := P0, Q := [] } hroots_lt hP0
  have hs := girthRoots_sound hsym hirr fuel (List.range (g.n - 2)) _ hroots_lt hP0 (.inl rfl) st hst
  have hc := (girthRoots_complete hsym hirr fuel (List.range (g.n - 2)) _ hroots_lt hP0 (.inl rfl) st hst).2
  refine ⟨st, hst, ?_, ?_⟩
  · intro hnone
    rcases hs with h | ⟨c, hc', _⟩
    · exact h
    · exfalso
      have := (hasCycle_iff (g := g) c.length).2 ⟨c, hc', rfl⟩
      unfold girthOpt at hnone
      rw [leastUpTo_eq_none] at hnone
      have h2 := hnone c.length (Nat.zero_le _) (by have := hc'.length_le; omega)
      rw [this] at h2; cases h2
  · intro l hl
    obtain ⟨⟨c, hcyc, hcl⟩, hmin⟩ := (girthOpt_eq_some_iff g l).1 hl
    obtain ⟨r0, hr0c, hr0⟩ := cycle_has_root hcyc
    obtain ⟨Y, cy, hYlen⟩ := cycFrom_of_cycleSeq hsym hcyc hr0c
    have hle := hc r0 (List.mem_range.2 hr0) Y cy
    have hcn := hcyc.length_le
    rcases hs with h | ⟨c', hc', hlen'⟩
    · omega
    · have := hmin c' hc'
      omega

end GDist
