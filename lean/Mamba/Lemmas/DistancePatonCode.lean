import Mamba.Lemmas.DistancePatonCount2
import Mathlib.Data.List.Forall2
import Mathlib.Tactic.Ring
/-!
# Paton's phase: every fundamental cycle has a non-tree edge that no other fundamental cycle contains
-/
namespace GDist
open GraphSpec Model

theorem patonScan_cons (v u : Nat) (us : List Nat) (st : PatonSt) :
    patonScan v (u :: us) st =
      match patonScan v [u] st with
      | .ok s => patonScan v us s
      | .panic => .panic
      | .outOfFuel => .outOfFuel := by
  simp only [patonScan]
  repeat' split
  all_goals first | rfl | simp_all

/-! ### the edge code is injective on unordered pairs -/

theorem tri_succ (b : Nat) : (b + 1) * (b + 1 - 1) / 2 = b * (b - 1) / 2 + b := by
  cases b with
  | zero => simp
  | succ c =>
    have h1 : (c + 1 + 1) * (c + 1 + 1 - 1) = (c + 1) * (c + 1 - 1) + 2 * (c + 1) := by
      simp only [Nat.add_sub_cancel]; ring
    rw [h1, Nat.add_mul_div_left _ _ (by omega : 0 < 2)]

theorem tri_mono {b d : Nat} (h : b ≤ d) : b * (b - 1) / 2 ≤ d * (d - 1) / 2 := by
  induction h with
  | refl => exact Nat.le_refl _
  | step _ ih => rw [tri_succ]; omega

theorem edgeCode_lt {p1 p2 : Nat} (h : p1 < p2) : edgeCode p1 p2 = p2 * (p2 - 1) / 2 + p1 := by
  simp [edgeCode, h]

theorem edgeCode_comm (x y : Nat) : edgeCode x y = edgeCode y x := by
  unfold edgeCode
  by_cases h1 : x < y
  · have : ¬ y < x := by omega
    simp [h1, this]
  · by_cases h2 : y < x
    · simp [h1, h2]
    · have : x = y := by omega
      subst this; rfl

theorem edgeCode_inj_lt {p1 p2 q1 q2 : Nat} (hp : p1 < p2) (hq : q1 < q2)
    (h : edgeCode p1 p2 = edgeCode q1 q2) : p1 = q1 ∧ p2 = q2 := by
  rw [edgeCode_lt hp, edgeCode_lt hq] at h
  have key : ∀ {p1 p2 q1 q2 : Nat}, p1 < p2 → q1 < q2 → p2 < q2 →
      p2 * (p2 - 1) / 2 + p1 = q2 * (q2 - 1) / 2 + q1 → False := by
    intro p1 p2 q1 q2 hp _ hlt h
    have h1 := tri_succ p2
    have h2 : (p2 + 1) * (p2 + 1 - 1) / 2 ≤ q2 * (q2 - 1) / 2 := tri_mono hlt
    omega
  rcases Nat.lt_trichotomy p2 q2 with hlt | heq | hgt
  · exact (key hp hq hlt h).elim
  · subst heq; exact ⟨by omega, rfl⟩
  · exact (key hq hp hgt h.symm).elim

theorem normE_lt {e : Nat × Nat} (hne : e.1 ≠ e.2) : (normE e).1 < (normE e).2 := by
  unfold normE
  by_cases h : e.1 < e.2
  · simp [h]
  · simp only [h, if_false]; omega

theorem edgeCode_normE (e : Nat × Nat) : edgeCode (normE e).1 (normE e).2 = edgeCode e.1 e.2 := by
  unfold normE
  by_cases h : e.1 < e.2
  · simp [h]
  · simp only [h, if_false]; exact edgeCode_comm _ _

theorem edgeCode_inj {e e' : Nat × Nat} (hne : e.1 ≠ e.2) (hne' : e'.1 ≠ e'.2)
    (h : edgeCode e.1 e.2 = edgeCode e'.1 e'.2) : normE e = normE e' := by
  rw [← edgeCode_normE e, ← edgeCode_normE e'] at h
  obtain ⟨h1, h2⟩ := edgeCode_inj_lt (normE_lt hne) (normE_lt hne') h
  exact Prod.ext h1 h2

theorem mem_backCodes (T : Array Int) : ∀ k p c, c ∈ backCodes T k p →
    ∃ i, i < k ∧ c = edgeCode ((par T)^[i] p) (par T ((par T)^[i] p))
  | 0, _, c, h => by simp [backCodes] at h
  | k+1, p, c, h => by
    simp only [backCodes, List.mem_cons] at h
    rcases h with h | h
    · exact ⟨0, by omega, h⟩
    · obtain ⟨i, hi, hc⟩ := mem_backCodes T k (par T p) c h
      exact ⟨i + 1, by omega, by rw [Function.iterate_succ_apply]; exact hc⟩

end GDist
