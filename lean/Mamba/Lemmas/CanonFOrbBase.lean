import Mamba.Lemmas.CanonFOrbDef
/-!
# Orbit completeness: bookkeeping lemmas for `ACovChild` / `ACovFrames` / `FrameAuxA1` / `FrameAuxA`

Mirror images of the lemmas about `CovChild` / `CovFrames` (`CanonFCov.lean`, `CanonFCovLeaf.lean`,
`CanonFCovLeafNode.lean`, `CanonFCovStep.lean`) and `FrameAux1` / `FrameAux` (`CanonFDfsBase.lean`).
`ACov … (lFof n gh) s.firstLeaf.toList (ORel s) X` reads `gh.oF`, `s.firstLeaf`, `s.flOrbits`.
-/
namespace CanonF

/-! ## `ACov`, `ORel`, `lFof` -/

/-- `ACov` is monotone in the relation -/
theorem acovb_mono {n : Nat} {nb : Nbrs} {rf : Nat} {lF : Array Nat} {certF : List Nat} {R R' : Nat → Nat → Prop}
    {ν : IR.St} (hR : ∀ a b, a < n → b < n → R a b → R' a b) (h : ACov n nb rf lF certF R ν) :
    ACov n nb rf lF certF R' ν :=
  fun vs hp ht hc u v hu hv e => hR u v hu hv (h vs hp ht hc u v hu hv e)

theorem ORel_congr {s s' : LS} (e : s'.flOrbits = s.flOrbits) : ORel s' = ORel s := by
  funext a b; unfold ORel; rw [e]

theorem lFof_congr {n : Nat} {gh gh' : Gh} (e : gh'.oF = gh.oF) : lFof n gh' = lFof n gh := by
  unfold lFof; rw [e]

/-- the general transfer of an `ACov` fact of the invariant: same first leaf, a larger orbit relation -/
theorem acovb_transfer {n : Nat} {nb : Nbrs} {rf : Nat} {gh gh' : Gh} {s s' : LS} {ν : IR.St}
    (eo : gh'.oF = gh.oF) (e1 : s'.firstLeaf = s.firstLeaf)
    (hR : ∀ a b, a < n → b < n → ORel s a b → ORel s' a b)
    (h : ACov n nb rf (lFof n gh) s.firstLeaf.toList (ORel s) ν) :
    ACov n nb rf (lFof n gh') s'.firstLeaf.toList (ORel s') ν := by
  rw [lFof_congr eo, e1]; exact acovb_mono hR h

/-! ## `ACovChild`, `ACovFrames` -/

/-- general form: the orbit relation may grow, non-roots stay non-roots -/
theorem ACovChild.mono {n : Nat} {nb : Nbrs} {rf : Nat} {r : IR.St} {gh gh' : Gh} {s s' : LS} {vs vs' ps : List Nat}
    {st w : Nat} (h : ACovChild n nb rf r gh s vs ps st w) (eo : gh'.oF = gh.oF) (e1 : s'.firstLeaf = s.firstLeaf)
    (e2 : ∀ qs, onFirstB s' qs = onFirstB s qs)
    (hR : ∀ a b, a < n → b < n → ORel s a b → ORel s' a b)
    (e4 : ∀ (w : Nat) (y : Int), s.flOrbits[w]? = some y → y ≥ 0 → ∃ y' : Int, s'.flOrbits[w]? = some y' ∧ y' ≥ 0)
    (ev : vs'.take ps.length = vs.take ps.length) :
    ACovChild n nb rf r gh' s' vs' ps st w := by
  unfold ACovChild at *
  rw [nodeL_congr ev]
  rcases h with h | ⟨hon, y, hy1, hy2⟩
  · exact Or.inl (acovb_transfer eo e1 hR h)
  · exact Or.inr ⟨by rw [e2]; exact hon, e4 w y hy1 hy2⟩

theorem ACovChild.congr {n : Nat} {nb : Nbrs} {rf : Nat} {r : IR.St} {gh gh' : Gh} {s s' : LS} {vs vs' ps : List Nat}
    {st w : Nat} (h : ACovChild n nb rf r gh s vs ps st w) (eo : gh'.oF = gh.oF) (e1 : s'.firstLeaf = s.firstLeaf)
    (e2 : ∀ qs, onFirstB s' qs = onFirstB s qs) (e4 : s'.flOrbits = s.flOrbits)
    (ev : vs'.take ps.length = vs.take ps.length) :
    ACovChild n nb rf r gh' s' vs' ps st w :=
  h.mono eo e1 e2 (fun a b _ _ hab => by rw [ORel_congr e4]; exact hab)
    (fun w y hy1 hy2 => ⟨y, by rw [e4]; exact hy1, hy2⟩) ev

/-- general form of `ACovFrames.congr` / `.mono_orbits` -/
theorem ACovFrames.mono {n : Nat} {nb : Nbrs} {rf : Nat} {r : IR.St} {gh gh' : Gh} {s s' : LS} {vs vs' : List Nat}
    (eo : gh'.oF = gh.oF) (e1 : s'.firstLeaf = s.firstLeaf) (e2 : ∀ qs, onFirstB s' qs = onFirstB s qs)
    (hR : ∀ a b, a < n → b < n → ORel s a b → ORel s' a b)
    (e4 : ∀ (w : Nat) (y : Int), s.flOrbits[w]? = some y → y ≥ 0 → ∃ y' : Int, s'.flOrbits[w]? = some y' ∧ y' ≥ 0) :
    ∀ (incl : Bool) (path choices : List Nat) (lv : List (Nat × Nat)),
      (∀ L, L < path.length → vs'.take L = vs.take L) →
      ACovFrames n nb rf r gh s vs incl path choices lv → ACovFrames n nb rf r gh' s' vs' incl path choices lv := by
  intro incl path
  induction path generalizing incl with
  | nil => intro choices lv _ h; cases choices <;> cases lv <;> simp_all [ACovFrames]
  | cons p ps ih =>
    intro choices lv hv h
    cases choices with
    | nil => simp [ACovFrames] at h
    | cons c cs =>
      cases lv with
      | nil => simp [ACovFrames] at h
      | cons x ls =>
        obtain ⟨st, sz⟩ := x
        simp only [ACovFrames] at h ⊢
        have ev := hv ps.length (by simp)
        refine ⟨fun i w hi hw => ?_, ih false cs ls (fun L hL => hv L (by simp only [List.length_cons]; omega)) h.2⟩
        rw [cellL_congr ev] at hw
        exact (h.1 i w hi hw).mono eo e1 e2 hR e4 ev

/-- `ACovFrames` only looks at `gh.oF`, `firstLeaf`, the Heuristic-2 test, `firstLeafOrbits` and at the first
`path.length` entries of `vs` -/
theorem ACovFrames.congr {n : Nat} {nb : Nbrs} {rf : Nat} {r : IR.St} {gh gh' : Gh} {s s' : LS} {vs vs' : List Nat}
    (eo : gh'.oF = gh.oF) (e1 : s'.firstLeaf = s.firstLeaf) (e2 : ∀ qs, onFirstB s' qs = onFirstB s qs)
    (e4 : s'.flOrbits = s.flOrbits) :
    ∀ (incl : Bool) (path choices : List Nat) (lv : List (Nat × Nat)),
      (∀ L, L < path.length → vs'.take L = vs.take L) →
      ACovFrames n nb rf r gh s vs incl path choices lv → ACovFrames n nb rf r gh' s' vs' incl path choices lv :=
  ACovFrames.mono eo e1 e2 (fun a b _ _ hab => by rw [ORel_congr e4]; exact hab)
    (fun w y hy1 hy2 => ⟨y, by rw [e4]; exact hy1, hy2⟩)

/-- replacing `firstLeafOrbits` by a union–find with larger classes in which every non-root stays a non-root -/
theorem ACovFrames.mono_orbits {n : Nat} {nb : Nbrs} {rf : Nat} {r : IR.St} {gh : Gh} {s s' : LS} {vs : List Nat}
    (e1 : s'.firstLeaf = s.firstLeaf) (e2 : ∀ qs, onFirstB s' qs = onFirstB s qs)
    (hR : ∀ a b, a < n → b < n → ORel s a b → ORel s' a b)
    (e4 : ∀ (w : Nat) (y : Int), s.flOrbits[w]? = some y → y ≥ 0 → ∃ y' : Int, s'.flOrbits[w]? = some y' ∧ y' ≥ 0)
    (incl : Bool) (path choices : List Nat) (lv : List (Nat × Nat))
    (h : ACovFrames n nb rf r gh s vs incl path choices lv) : ACovFrames n nb rf r gh s' vs incl path choices lv :=
  ACovFrames.mono rfl e1 e2 hR e4 incl path choices lv (fun _ _ => rfl) h

/-- changing the top of `choices` from `c` to `c - 1` with the new member covered -/
theorem ACovFrames.step_head {n : Nat} {nb : Nbrs} {rf : Nat} {r : IR.St} {gh : Gh} {s : LS} {vs : List Nat} {p c : Nat}
    {ps cs : List Nat} {st sz : Nat} {ls : List (Nat × Nat)}
    (h : ACovFrames n nb rf r gh s vs true (p :: ps) (c :: cs) ((st, sz) :: ls)) (hc : st < c)
    (hnew : ∀ w, (cellL n nb rf r vs ps.length st)[c - 1 - st]? = some w → ACovChild n nb rf r gh s vs ps st w)
    (p' : Nat) :
    ACovFrames n nb rf r gh s vs true (p' :: ps) ((c - 1) :: cs) ((st, sz) :: ls) := by
  simp only [ACovFrames] at h ⊢
  refine ⟨fun i w hi hw => ?_, h.2⟩
  simp only [if_true] at hi
  rcases Nat.lt_or_ge i (c - st) with hlt | hge
  · have : i = c - 1 - st := by omega
    subst this
    exact hnew w hw
  · exact h.1 i w (by simp only [if_true]; exact hge) hw

/-- the top frame turns from "between" (`c`) to "child `c - 1` being explored" -/
theorem ACovFrames.start_child {n : Nat} {nb : Nbrs} {rf : Nat} {r : IR.St} {gh : Gh} {s : LS} {vs : List Nat}
    {p c : Nat} {ps cs : List Nat} {st sz : Nat} {ls : List (Nat × Nat)}
    (h : ACovFrames n nb rf r gh s vs true (p :: ps) (c :: cs) ((st, sz) :: ls)) (hc : st < c) (p' : Nat) :
    ACovFrames n nb rf r gh s vs false (p' :: ps) ((c - 1) :: cs) ((st, sz) :: ls) := by
  simp only [ACovFrames] at h ⊢
  refine ⟨fun i w hi hw => ?_, h.2⟩
  simp only [Bool.false_eq_true, if_false] at hi
  exact h.1 i w (by simp only [if_true]; omega) hw

/-- the child being explored is covered: the top frame turns to "between" -/
theorem ACovFrames.finish_child {n : Nat} {nb : Nbrs} {rf : Nat} {r : IR.St} {gh : Gh} {s : LS} {vs : List Nat}
    {p c : Nat} {ps cs : List Nat} {st sz : Nat} {ls : List (Nat × Nat)}
    (h : ACovFrames n nb rf r gh s vs false (p :: ps) (c :: cs) ((st, sz) :: ls))
    (hnew : ∀ w, (cellL n nb rf r vs ps.length st)[c - st]? = some w → ACovChild n nb rf r gh s vs ps st w) :
    ACovFrames n nb rf r gh s vs true (p :: ps) (c :: cs) ((st, sz) :: ls) := by
  simp only [ACovFrames] at h ⊢
  refine ⟨fun i w hi hw => ?_, h.2⟩
  simp only [if_true] at hi
  rcases Nat.lt_or_ge (c - st) i with hlt | hge
  · exact h.1 i w (by simp only [Bool.false_eq_true, if_false]; exact hlt) hw
  · have : i = c - st := by omega
    subst this
    exact hnew w hw

/-- the frames below the top one -/
theorem ACovFrames.tail {n : Nat} {nb : Nbrs} {rf : Nat} {r : IR.St} {gh : Gh} {s : LS} {vs : List Nat} {incl : Bool}
    {p c : Nat} {ps cs : List Nat} {x : Nat × Nat} {ls : List (Nat × Nat)}
    (h : ACovFrames n nb rf r gh s vs incl (p :: ps) (c :: cs) (x :: ls)) :
    ACovFrames n nb rf r gh s vs false ps cs ls := by
  obtain ⟨st, sz⟩ := x
  simp only [ACovFrames] at h
  exact h.2

/-- the covered members of the top frame -/
theorem ACovFrames.head {n : Nat} {nb : Nbrs} {rf : Nat} {r : IR.St} {gh : Gh} {s : LS} {vs : List Nat} {incl : Bool}
    {p c : Nat} {ps cs : List Nat} {st sz : Nat} {ls : List (Nat × Nat)}
    (h : ACovFrames n nb rf r gh s vs incl (p :: ps) (c :: cs) ((st, sz) :: ls)) :
    ∀ i w, (if incl then c - st ≤ i else c - st < i) → (cellL n nb rf r vs ps.length st)[i]? = some w →
      ACovChild n nb rf r gh s vs ps st w := by
  simp only [ACovFrames] at h
  exact h.1

theorem ACovFrames.mk {n : Nat} {nb : Nbrs} {rf : Nat} {r : IR.St} {gh : Gh} {s : LS} {vs : List Nat} {incl : Bool}
    {p c : Nat} {ps cs : List Nat} {st sz : Nat} {ls : List (Nat × Nat)}
    (h1 : ∀ i w, (if incl then c - st ≤ i else c - st < i) → (cellL n nb rf r vs ps.length st)[i]? = some w →
      ACovChild n nb rf r gh s vs ps st w)
    (h2 : ACovFrames n nb rf r gh s vs false ps cs ls) :
    ACovFrames n nb rf r gh s vs incl (p :: ps) (c :: cs) ((st, sz) :: ls) := by
  simp only [ACovFrames]
  exact ⟨h1, h2⟩

theorem ACovFrames.drop {n : Nat} {nb : Nbrs} {rf : Nat} {r : IR.St} {gh : Gh} {s : LS} {vs : List Nat} :
    ∀ (j : Nat) (path choices : List Nat) (lv : List (Nat × Nat)), 0 < j →
      ACovFrames n nb rf r gh s vs false path choices lv →
      ACovFrames n nb rf r gh s vs false (path.drop j) (choices.drop j) (lv.drop j) := by
  intro j
  induction j with
  | zero => intro _ _ _ h; exact absurd h (Nat.lt_irrefl 0)
  | succ j ih =>
    intro path choices lv _ h
    cases path with
    | nil => cases choices <;> cases lv <;> simp_all [ACovFrames]
    | cons p ps =>
      cases choices with
      | nil => simp [ACovFrames] at h
      | cons c cs =>
        cases lv with
        | nil => simp [ACovFrames] at h
        | cons x ls =>
          simp only [List.drop_succ_cons]
          cases j with
          | zero => simpa using h.tail
          | succ j => exact ih ps cs ls (Nat.succ_pos _) h.tail

/-- `deage`, the refinement, … : the coverage does not look at the partition -/
theorem acov_congr_op {n : Nat} {nb : Nbrs} {rf : Nat} {r : IR.St} {gh : Gh} {s : LS} {vs : List Nat} {incl : Bool}
    {lv : List (Nat × Nat)} (op' : OP) (sc' : Scratch) (b : Bool)
    (h : ACovFrames n nb rf r gh s vs incl s.path s.choices lv) :
    ACovFrames n nb rf r gh { s with op := op', sc := sc', skipDeage := b } vs incl s.path s.choices lv :=
  ACovFrames.congr (s := s) (s' := { s with op := op', sc := sc', skipDeage := b }) rfl rfl (fun _ => rfl) rfl incl
    _ _ _ (fun _ _ => rfl) h

/-- `splitBin` that does not report "worse": the child is now being explored -/
theorem acov_split_ok {n : Nat} {nb : Nbrs} {rf : Nat} {r : IR.St} {gh : Gh} (st sz : Nat) (ls : List (Nat × Nat))
    (s : LS) (c : Nat) (cs : List Nat) (p : Nat) (ps : List Nat) (bo : Disjoint.DS) (op' : OP) (k : Nat)
    (hch : s.choices = c :: cs) (hpth : s.path = p :: ps) (hst : st < c) {vs : List Nat}
    (hcov : ACovFrames n nb rf r gh s vs true s.path s.choices ((st, sz) :: ls)) :
    ACovFrames n nb rf r gh { s with choices := (c - 1) :: cs, bestOrbits := bo, op := op', path := k :: ps } vs false
      (k :: ps) ((c - 1) :: cs) ((st, sz) :: ls) := by
  rw [hpth, hch] at hcov
  exact ACovFrames.congr (s := s)
    (s' := { s with choices := (c - 1) :: cs, bestOrbits := bo, op := op', path := k :: ps }) rfl rfl (fun _ => rfl) rfl
    false _ _ _ (fun _ _ => rfl) (hcov.start_child hst k)

/-- a new frame: nothing is processed yet -/
theorem acov_push {n : Nat} {nb : Nbrs} {rf : Nat} {r : IR.St} {gh : Gh} {s : LS} {vs : List Nat}
    {lv : List (Nat × Nat)} (st sz : Nat) (hlen : (cellL n nb rf r vs s.path.length st).length = sz)
    (hcov : ACovFrames n nb rf r gh s vs false s.path s.choices lv) :
    ACovFrames n nb rf r gh { s with choices := (st + sz) :: s.choices, path := sz :: s.path, skipDeage := true } vs true
      (sz :: s.path) ((st + sz) :: s.choices) ((st, sz) :: lv) := by
  simp only [ACovFrames]
  refine ⟨fun i w hi hw => ?_, ACovFrames.congr (s := s)
    (s' := { s with choices := (st + sz) :: s.choices, path := sz :: s.path, skipDeage := true }) rfl rfl (fun _ => rfl)
    rfl false _ _ _ (fun _ _ => rfl) hcov⟩
  simp only [if_true] at hi
  have := (List.getElem?_eq_some_iff.1 hw).1
  omega

/-! ## `FrameAuxA1`, `FrameAuxA` -/

/-- general form of the congruence / monotonicity lemmas of `FrameAuxA1` -/
theorem FrameAuxA1.mono {n : Nat} {nb : Nbrs} {rf : Nat} {r : IR.St} {gh gh' : Gh} {s s' : LS} {us us' : List Nat}
    {incl : Bool} {ps : List Nat} {c st : Nat} (h : FrameAuxA1 n nb rf r gh s us incl ps c st)
    (hc : 0 < s'.count → 0 < s.count) (e1 : s'.firstLeaf = s.firstLeaf)
    (hR : ∀ a b, a < n → b < n → ORel s a b → ORel s' a b)
    (g1 : gh'.oF = gh.oF) (g2 : gh'.vsF = gh.vsF) (g3 : gh'.vsB = gh.vsB)
    (ev : us'.take ps.length = us.take ps.length) :
    FrameAuxA1 n nb rf r gh' s' us' incl ps c st := by
  have ec := cellL_congr (n := n) (nb := nb) (rf := rf) (r := r) (st := st) ev
  have en := nodeL_congr (n := n) (nb := nb) (rf := rf) (r := r) ev
  constructor
  · intro h0 hpre i w hi hw hx
    rw [ev, g2] at hpre; rw [ec] at hw; rw [g2] at hx; rw [en]
    exact acovb_transfer g1 e1 hR (h.abF (hc h0) hpre i w hi hw hx)
  · intro h0 hpre i w hi hw hx
    rw [ev, g3] at hpre; rw [ec] at hw; rw [g3] at hx; rw [en]
    exact acovb_transfer g1 e1 hR (h.abB (hc h0) hpre i w hi hw hx)

/-- `FrameAuxA1` only looks at `count`, `firstLeaf`, `flOrbits` and at `us.take L` -/
theorem FrameAuxA1.congr {n : Nat} {nb : Nbrs} {rf : Nat} {r : IR.St} {gh : Gh} {s s' : LS} {us us' : List Nat}
    {incl : Bool} {ps : List Nat} {c st : Nat} (h : FrameAuxA1 n nb rf r gh s us incl ps c st)
    (e1 : s'.count = s.count) (e2 : s'.firstLeaf = s.firstLeaf) (e3 : s'.flOrbits = s.flOrbits)
    (ev : us'.take ps.length = us.take ps.length) : FrameAuxA1 n nb rf r gh s' us' incl ps c st :=
  h.mono (fun h0 => by rw [← e1]; exact h0) e2 (fun a b _ _ hab => by rw [ORel_congr e3]; exact hab) rfl rfl rfl ev

/-- `FrameAuxA1.congr` when `count` changes between two positive values -/
theorem FrameAuxA1.congr_pos {n : Nat} {nb : Nbrs} {rf : Nat} {r : IR.St} {gh : Gh} {s s' : LS} {us us' : List Nat}
    {incl : Bool} {ps : List Nat} {c st : Nat} (h : FrameAuxA1 n nb rf r gh s us incl ps c st)
    (e1 : 0 < s.count) (e2 : s'.firstLeaf = s.firstLeaf) (e3 : s'.flOrbits = s.flOrbits)
    (ev : us'.take ps.length = us.take ps.length) : FrameAuxA1 n nb rf r gh s' us' incl ps c st :=
  h.mono (fun _ => e1) e2 (fun a b _ _ hab => by rw [ORel_congr e3]; exact hab) rfl rfl rfl ev

/-- `FrameAuxA1` only reads `oF`, `vsF`, `vsB` of the ghost data -/
theorem FrameAuxA1.congr_gh {n : Nat} {nb : Nbrs} {rf : Nat} {r : IR.St} {gh gh' : Gh} {s : LS} {us : List Nat}
    {incl : Bool} {ps : List Nat} {c st : Nat} (h : FrameAuxA1 n nb rf r gh s us incl ps c st)
    (e0 : gh'.oF = gh.oF) (e1 : gh'.vsF = gh.vsF) (e2 : gh'.vsB = gh.vsB) :
    FrameAuxA1 n nb rf r gh' s us incl ps c st :=
  h.mono (fun h0 => h0) rfl (fun _ _ _ _ hab => hab) e0 e1 e2 rfl

/-- the orbit relation grows (`count` may change between positive values) -/
theorem FrameAuxA1.mono_orbits {n : Nat} {nb : Nbrs} {rf : Nat} {r : IR.St} {gh : Gh} {s s' : LS} {us : List Nat}
    {incl : Bool} {ps : List Nat} {c st : Nat} (h : FrameAuxA1 n nb rf r gh s us incl ps c st)
    (hc : 0 < s'.count → 0 < s.count) (e1 : s'.firstLeaf = s.firstLeaf)
    (hR : ∀ a b, a < n → b < n → ORel s a b → ORel s' a b) : FrameAuxA1 n nb rf r gh s' us incl ps c st :=
  h.mono hc e1 hR rfl rfl rfl rfl

/-- a frame whose node is on neither stored path (a fresh node, or before the first leaf) -/
theorem FrameAuxA1.of_off {n : Nat} {nb : Nbrs} {rf : Nat} {r : IR.St} {gh : Gh} {s : LS} {us : List Nat}
    {incl : Bool} {ps : List Nat} {c st : Nat}
    (hF : 0 < s.count → us.take ps.length ≠ gh.vsF.take ps.length)
    (hB : 0 < s.count → us.take ps.length ≠ gh.vsB.take ps.length) : FrameAuxA1 n nb rf r gh s us incl ps c st :=
  ⟨fun h0 hpre => absurd hpre (hF h0), fun h0 hpre => absurd hpre (hB h0)⟩

/-- the top frame: the member with index `c - 1 - st` becomes processed (skip, `splitBin` worse); it does not lie on a
stored path because it was unprocessed (`futF`, `futB` of the D-layer) -/
theorem FrameAuxA1.step_head {n : Nat} {nb : Nbrs} {rf : Nat} {r : IR.St} {gh : Gh} {s : LS} {us : List Nat}
    {ps : List Nat} {c st sz : Nat} (h : FrameAuxA1 n nb rf r gh s us true ps c st)
    (hD : FrameAux1 n nb rf r gh s us true ps c st sz) : FrameAuxA1 n nb rf r gh s us true ps (c - 1) st := by
  constructor
  · intro h0 hpre i w hi hw hx
    simp only [if_true] at hi
    rcases Nat.lt_or_ge i (c - st) with hlt | hge
    · exact absurd ⟨hpre, hx⟩ (hD.futF h0 i w hlt hw)
    · exact h.abF h0 hpre i w (by simp only [if_true]; exact hge) hw hx
  · intro h0 hpre i w hi hw hx
    simp only [if_true] at hi
    rcases Nat.lt_or_ge i (c - st) with hlt | hge
    · exact absurd ⟨hpre, hx⟩ (hD.futB h0 i w hlt hw)
    · exact h.abB h0 hpre i w (by simp only [if_true]; exact hge) hw hx

/-- the top frame: the member with index `c - 1 - st` starts being explored -/
theorem FrameAuxA1.start_child {n : Nat} {nb : Nbrs} {rf : Nat} {r : IR.St} {gh : Gh} {s : LS} {us : List Nat}
    {ps : List Nat} {c st : Nat} (h : FrameAuxA1 n nb rf r gh s us true ps c st) (hc : st < c) :
    FrameAuxA1 n nb rf r gh s us false ps (c - 1) st := by
  constructor
  · intro h0 hpre i w hi hw hx
    simp only [Bool.false_eq_true, if_false] at hi
    exact h.abF h0 hpre i w (by simp only [if_true]; omega) hw hx
  · intro h0 hpre i w hi hw hx
    simp only [Bool.false_eq_true, if_false] at hi
    exact h.abB h0 hpre i w (by simp only [if_true]; omega) hw hx

/-- the top frame: the child that was being explored (index `c - st`) is processed and, if it lies on a stored path,
`ACov` -/
theorem FrameAuxA1.finish_child' {n : Nat} {nb : Nbrs} {rf : Nat} {r : IR.St} {gh : Gh} {s : LS} {us : List Nat}
    {ps : List Nat} {c st : Nat} (h : FrameAuxA1 n nb rf r gh s us false ps c st)
    (hnewF : ∀ w, (cellL n nb rf r us ps.length st)[c - st]? = some w → us.take ps.length = gh.vsF.take ps.length →
      gh.vsF[ps.length]? = some w →
      ACov n nb rf (lFof n gh) s.firstLeaf.toList (ORel s) (IR.childSt (irG n nb) rf (nodeL n nb rf r us ps.length) st w))
    (hnewB : ∀ w, (cellL n nb rf r us ps.length st)[c - st]? = some w → us.take ps.length = gh.vsB.take ps.length →
      gh.vsB[ps.length]? = some w →
      ACov n nb rf (lFof n gh) s.firstLeaf.toList (ORel s) (IR.childSt (irG n nb) rf (nodeL n nb rf r us ps.length) st w)) :
    FrameAuxA1 n nb rf r gh s us true ps c st := by
  constructor
  · intro h0 hpre i w hi hw hx
    simp only [if_true] at hi
    rcases Nat.lt_or_ge (c - st) i with hlt | hge
    · exact h.abF h0 hpre i w (by simp only [Bool.false_eq_true, if_false]; exact hlt) hw hx
    · have : i = c - st := by omega
      subst this
      exact hnewF w hw hpre hx
  · intro h0 hpre i w hi hw hx
    simp only [if_true] at hi
    rcases Nat.lt_or_ge (c - st) i with hlt | hge
    · exact h.abB h0 hpre i w (by simp only [Bool.false_eq_true, if_false]; exact hlt) hw hx
    · have : i = c - st := by omega
      subst this
      exact hnewB w hw hpre hx

theorem FrameAuxA1.finish_child {n : Nat} {nb : Nbrs} {rf : Nat} {r : IR.St} {gh : Gh} {s : LS} {us : List Nat}
    {ps : List Nat} {c st : Nat} (h : FrameAuxA1 n nb rf r gh s us false ps c st)
    (hnew : ∀ w, (cellL n nb rf r us ps.length st)[c - st]? = some w →
      (gh.vsF[ps.length]? = some w ∨ gh.vsB[ps.length]? = some w) →
      ACov n nb rf (lFof n gh) s.firstLeaf.toList (ORel s) (IR.childSt (irG n nb) rf (nodeL n nb rf r us ps.length) st w)) :
    FrameAuxA1 n nb rf r gh s us true ps c st :=
  h.finish_child' (fun w hw _ hx => hnew w hw (Or.inl hx)) (fun w hw _ hx => hnew w hw (Or.inr hx))

/-- general form of the congruence / monotonicity lemmas of `FrameAuxA` -/
theorem FrameAuxA.mono {n : Nat} {nb : Nbrs} {rf : Nat} {r : IR.St} {gh gh' : Gh} {s s' : LS} {us us' : List Nat}
    (hc : 0 < s'.count → 0 < s.count) (e1 : s'.firstLeaf = s.firstLeaf)
    (hR : ∀ a b, a < n → b < n → ORel s a b → ORel s' a b)
    (g1 : gh'.oF = gh.oF) (g2 : gh'.vsF = gh.vsF) (g3 : gh'.vsB = gh.vsB) :
    ∀ (incl : Bool) (path choices : List Nat) (lv : List (Nat × Nat)),
      (∀ L, L < path.length → us'.take L = us.take L) →
      FrameAuxA n nb rf r gh s us incl path choices lv → FrameAuxA n nb rf r gh' s' us' incl path choices lv := by
  intro incl path
  induction path generalizing incl with
  | nil => intro choices lv _ h; cases choices <;> cases lv <;> simp_all [FrameAuxA]
  | cons p ps ih =>
    intro choices lv hv h
    cases choices with
    | nil => simp [FrameAuxA] at h
    | cons c cs =>
      cases lv with
      | nil => simp [FrameAuxA] at h
      | cons x ls =>
        obtain ⟨st, sz⟩ := x
        simp only [FrameAuxA] at h ⊢
        exact ⟨h.1.mono hc e1 hR g1 g2 g3 (hv ps.length (by simp)),
          ih false cs ls (fun L hL => hv L (by simp only [List.length_cons]; omega)) h.2⟩

theorem FrameAuxA.congr {n : Nat} {nb : Nbrs} {rf : Nat} {r : IR.St} {gh : Gh} {s s' : LS} {us us' : List Nat}
    (e1 : s'.count = s.count) (e2 : s'.firstLeaf = s.firstLeaf) (e3 : s'.flOrbits = s.flOrbits) :
    ∀ (incl : Bool) (path choices : List Nat) (lv : List (Nat × Nat)),
      (∀ L, L < path.length → us'.take L = us.take L) →
      FrameAuxA n nb rf r gh s us incl path choices lv → FrameAuxA n nb rf r gh s' us' incl path choices lv :=
  FrameAuxA.mono (fun h0 => by rw [← e1]; exact h0) e2 (fun a b _ _ hab => by rw [ORel_congr e3]; exact hab) rfl rfl rfl

theorem FrameAuxA.congr_pos {n : Nat} {nb : Nbrs} {rf : Nat} {r : IR.St} {gh : Gh} {s s' : LS} {us us' : List Nat}
    (e1 : 0 < s.count) (e2 : s'.firstLeaf = s.firstLeaf) (e3 : s'.flOrbits = s.flOrbits) :
    ∀ (incl : Bool) (path choices : List Nat) (lv : List (Nat × Nat)),
      (∀ L, L < path.length → us'.take L = us.take L) →
      FrameAuxA n nb rf r gh s us incl path choices lv → FrameAuxA n nb rf r gh s' us' incl path choices lv :=
  FrameAuxA.mono (fun _ => e1) e2 (fun a b _ _ hab => by rw [ORel_congr e3]; exact hab) rfl rfl rfl

theorem FrameAuxA.congr_gh {n : Nat} {nb : Nbrs} {rf : Nat} {r : IR.St} {gh gh' : Gh} {s : LS} {us : List Nat}
    (e0 : gh'.oF = gh.oF) (e1 : gh'.vsF = gh.vsF) (e2 : gh'.vsB = gh.vsB)
    (incl : Bool) (path choices : List Nat) (lv : List (Nat × Nat))
    (h : FrameAuxA n nb rf r gh s us incl path choices lv) : FrameAuxA n nb rf r gh' s us incl path choices lv :=
  FrameAuxA.mono (fun h0 => h0) rfl (fun _ _ _ _ hab => hab) e0 e1 e2 incl path choices lv (fun _ _ => rfl) h

theorem FrameAuxA.mono_orbits {n : Nat} {nb : Nbrs} {rf : Nat} {r : IR.St} {gh : Gh} {s s' : LS} {us : List Nat}
    (hc : 0 < s'.count → 0 < s.count) (e1 : s'.firstLeaf = s.firstLeaf)
    (hR : ∀ a b, a < n → b < n → ORel s a b → ORel s' a b)
    (incl : Bool) (path choices : List Nat) (lv : List (Nat × Nat))
    (h : FrameAuxA n nb rf r gh s us incl path choices lv) : FrameAuxA n nb rf r gh s' us incl path choices lv :=
  FrameAuxA.mono hc e1 hR rfl rfl rfl incl path choices lv (fun _ _ => rfl) h

theorem FrameAuxA.tail {n : Nat} {nb : Nbrs} {rf : Nat} {r : IR.St} {gh : Gh} {s : LS} {us : List Nat} {incl : Bool}
    {p c : Nat} {ps cs : List Nat} {x : Nat × Nat} {ls : List (Nat × Nat)}
    (h : FrameAuxA n nb rf r gh s us incl (p :: ps) (c :: cs) (x :: ls)) :
    FrameAuxA n nb rf r gh s us false ps cs ls := by
  obtain ⟨st, sz⟩ := x
  simp only [FrameAuxA] at h
  exact h.2

theorem FrameAuxA.head {n : Nat} {nb : Nbrs} {rf : Nat} {r : IR.St} {gh : Gh} {s : LS} {us : List Nat} {incl : Bool}
    {p c : Nat} {ps cs : List Nat} {st sz : Nat} {ls : List (Nat × Nat)}
    (h : FrameAuxA n nb rf r gh s us incl (p :: ps) (c :: cs) ((st, sz) :: ls)) :
    FrameAuxA1 n nb rf r gh s us incl ps c st := by
  simp only [FrameAuxA] at h
  exact h.1

theorem FrameAuxA.mk {n : Nat} {nb : Nbrs} {rf : Nat} {r : IR.St} {gh : Gh} {s : LS} {us : List Nat} {incl : Bool}
    {p c : Nat} {ps cs : List Nat} {st sz : Nat} {ls : List (Nat × Nat)}
    (h1 : FrameAuxA1 n nb rf r gh s us incl ps c st) (h2 : FrameAuxA n nb rf r gh s us false ps cs ls) :
    FrameAuxA n nb rf r gh s us incl (p :: ps) (c :: cs) ((st, sz) :: ls) := by
  simp only [FrameAuxA]
  exact ⟨h1, h2⟩

theorem FrameAuxA.drop {n : Nat} {nb : Nbrs} {rf : Nat} {r : IR.St} {gh : Gh} {s : LS} {us : List Nat} :
    ∀ (j : Nat) (path choices : List Nat) (lv : List (Nat × Nat)), 0 < j →
      FrameAuxA n nb rf r gh s us false path choices lv →
      FrameAuxA n nb rf r gh s us false (path.drop j) (choices.drop j) (lv.drop j) := by
  intro j
  induction j with
  | zero => intro _ _ _ h; omega
  | succ j ih =>
    intro path choices lv _ h
    cases path with
    | nil => cases choices <;> cases lv <;> simp_all [FrameAuxA]
    | cons p ps =>
      cases choices with
      | nil => simp [FrameAuxA] at h
      | cons c cs =>
        cases lv with
        | nil => simp [FrameAuxA] at h
        | cons x ls =>
          simp only [List.drop_succ_cons]
          rcases Nat.eq_zero_or_pos j with h0 | hpos
          · subst h0; simpa using h.tail
          · exact ih ps cs ls hpos h.tail

/-- rewriting the `path` argument -/
theorem FrameAuxA.path_eq {n : Nat} {nb : Nbrs} {rf : Nat} {r : IR.St} {gh : Gh} {s : LS} {us : List Nat} {incl : Bool}
    {path path' choices : List Nat} {lv : List (Nat × Nat)} (e : path' = path)
    (h : FrameAuxA n nb rf r gh s us incl path choices lv) : FrameAuxA n nb rf r gh s us incl path' choices lv := by
  subst e; exact h

theorem ACovFrames.path_eq {n : Nat} {nb : Nbrs} {rf : Nat} {r : IR.St} {gh : Gh} {s : LS} {vs : List Nat} {incl : Bool}
    {path path' choices : List Nat} {lv : List (Nat × Nat)} (e : path' = path)
    (h : ACovFrames n nb rf r gh s vs incl path choices lv) : ACovFrames n nb rf r gh s vs incl path' choices lv := by
  subst e; exact h

end CanonF
