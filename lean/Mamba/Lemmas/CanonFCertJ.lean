import Mamba.Lemmas.CanonFMainJ
import Mamba.Lemmas.CanonFGens
/-!
# The certificate / generator invariants as a state-level invariant of the main loop (`MainJ` instance)
-/
namespace CanonF

/-- facts about the length of `currentBest` that hold at all times -/
structure BestOK (m : Nat) (s : LS) : Prop where
  zero : s.count = 0 → s.currentBest.len = 0
  pos : 0 < s.count → s.currentBest.len = m

section
variable (n m : Nat) (nb : Nbrs)

def CertA (_lv : List (Nat × Nat)) (s : LS) : Prop :=
  GInv n m nb s ∧ VAny nb s.currentBest s.firstLeaf s.op ∧ BestOK m s
def CertN (_lv : List (Nat × Nat)) (s : LS) : Prop :=
  GInv n m nb s ∧ VN nb s.currentBest s.firstLeaf s.op ∧ BestOK m s
def CertM (_lv : List (Nat × Nat)) (worse : Bool) (s : LS) : Prop :=
  GInv n m nb s ∧ VAny nb s.currentBest s.firstLeaf s.op ∧ (worse = false → VN nb s.currentBest s.firstLeaf s.op) ∧
    BestOK m s
end

theorem bestOrbits_if_size {s : LS} {ps : List Nat} {c ce : Nat} {b : Bool} {bo : Disjoint.DS}
    (h : (if (decide (s.count > 0) && !hasPrefix s.flPath.toList ps.reverse && hasPrefix s.bestPath.toList ps.reverse) = true
      then h2Best s.op s.bestOrbits (c - 1) ce else Outcome.ok (false, s.bestOrbits)) = .ok (b, bo)) :
    bo.size = s.bestOrbits.size := by
  split at h
  · exact h2Best_size h
  · cases h; rfl

theorem GInv.withBestOrbits {n m : Nat} {nb : Nbrs} {s s2 : LS} (h : GInv n m nb s)
    (e1 : s2.currentBest = s.currentBest) (e2 : s2.bestPerm = s.bestPerm) (e3 : s2.bestPermInv = s.bestPermInv)
    (e4 : s2.firstLeaf = s.firstLeaf) (e5 : s2.flPermInv = s.flPermInv) (e6 : s2.gens = s.gens)
    (e7 : s2.ngens = s.ngens) (e8 : s2.flOrbits = s.flOrbits) (e9 : s2.bestOrbits.size = s.bestOrbits.size)
    (e10 : s2.count = s.count) : GInv n m nb s2 := by
  constructor
  · rw [e10, e1, e2, e3]; exact h.best
  · rw [e4]; exact h.flLen
  · rw [e10, e4, e5]; exact h.first
  · rw [e7, e6]; exact h.gens
  · rw [e10, e8, e6, e7]; exact h.orb
  · exact ⟨by rw [e8]; exact h.orbSz.1, by rw [e9]; exact h.orbSz.2⟩
  · rw [e5]; exact h.pinv
  · rw [e3]; exact h.bpinv

set_option maxHeartbeats 1000000 in
/-- the certificate / generator invariants are carried by the main loop -/
theorem certMainJ (hx : ExpandCert) {n m : Nat} {nb : Nbrs} (hnb : NbOK nb n)
    (hlenm : ∀ o : List Nat, o.Perm (List.range n) → (certPos nb o n).length = m) :
    MainJ n m nb (CertA n m nb) (CertN n m nb) (CertN n m nb) (CertM n m nb) where
  step :=
    { na := fun _ _ h => ⟨h.1, h.2.1.any, h.2.2⟩
      deage := fun _ s op' _ hc ht _ hage h hd => by
        have hpos : 0 < s.op.age := by
          cases hpth : s.path with
          | nil => rw [hpth] at ht; cases hcc : s.choices <;> simp [TopOK] at ht
          | cons a t => rw [hage, hpth]; simp
        exact ⟨h.1.congr rfl rfl rfl rfl rfl rfl rfl rfl rfl rfl, deage_cert hc.part hc.age hpos h.2.1 hd,
          ⟨h.2.2.zero, h.2.2.pos⟩⟩
      noskip := fun _ _ _ h => ⟨h.1.congr rfl rfl rfl rfl rfl rfl rfl rfl rfl rfl, h.2.1, ⟨h.2.2.zero, h.2.2.pos⟩⟩
      skipA := fun _ _ _ _ _ _ _ _ _ _ _ _ _ _ _ _ _ _ _ _ _ h =>
        ⟨h.1.congr rfl rfl rfl rfl rfl rfl rfl rfl rfl rfl, h.2.1, ⟨h.2.2.zero, h.2.2.pos⟩⟩
      skipB := fun _ _ _ _ _ _ _ _ _ _ _ _ _ _ _ _ _ _ _ hh h =>
        ⟨h.1.withBestOrbits rfl rfl rfl rfl rfl rfl rfl rfl (h2Best_size hh) rfl, h.2.1, ⟨h.2.2.zero, h.2.2.pos⟩⟩
      split := fun _ _ _ s c cs _ ps ce bo _ op' k hc _ _ _ _ _ hget hh hns _ hs h => by
        have hin : c - 1 < n := by
          have := hc.part.lenOrder
          have := (Sl.get_eq_ok.1 hget).1
          omega
        obtain ⟨q1, q2⟩ := splitBin_cert hx hc.part hc.age hin hns h.2.1 hs
        have hg := h.1.withBestOrbits (s2 := { s with choices := (c - 1) :: cs, bestOrbits := bo, op := op', path := k :: ps })
          rfl rfl rfl rfl rfl rfl rfl rfl (bestOrbits_if_size (ps := ps) (c := c) (ce := ce) hh) rfl
        exact ⟨fun hw => ⟨hg, q1 hw, ⟨h.2.2.zero, h.2.2.pos⟩⟩, fun hw => ⟨hg, q2 hw, ⟨h.2.2.zero, h.2.2.pos⟩⟩⟩
      pop := fun _ _ _ _ _ _ _ _ h =>
        ⟨h.1.congr rfl rfl rfl rfl rfl rfl rfl rfl rfl rfl, h.2.1.any, ⟨h.2.2.zero, h.2.2.pos⟩⟩ }
  node := fun lv worse s s1 hI hw hlv hM hs1 => by
    obtain ⟨hg, hva, hvn, hb⟩ := hM
    obtain ⟨lv1, c1, l1, g1, _, f1, p1⟩ := node_step hI hw hlv s1 hs1
    have hbest : BestOK m s1 := ⟨fun h0 => (p1 h0).1, f1⟩
    by_cases hleaf : (!worse && s.op.binDividers.len == n) = true
    · rw [if_pos hleaf] at hs1
      simp only [Bool.and_eq_true, Bool.not_eq_true', beq_iff_eq] at hleaf
      obtain ⟨hvc, hspl⟩ := leaf_clean hI.core.part hleaf.2 (hvn hleaf.1)
      obtain ⟨q1, q2⟩ := leafNode_cert hnb hlenm (certStepQ hx n nb s.currentBest s.firstLeaf)
        hI.core hlv hI.age hg hvc hspl hs1
      exact ⟨lv1, l1, ⟨q1, q2.any, hbest⟩, fun _ => ⟨q1, q2, hbest⟩⟩
    · rw [if_neg hleaf] at hs1
      by_cases hnw : (!worse) = true
      · rw [if_pos hnw] at hs1
        have hwf : worse = false := by simpa using hnw
        have hvn' := hvn hwf
        unfold innerNode at hs1
        split at hs1
        · cases hs1
          exact ⟨lv1, l1, ⟨hg.congr rfl rfl rfl rfl rfl rfl rfl rfl rfl rfl, hvn'.any, hbest⟩,
            fun _ => ⟨hg.congr rfl rfl rfl rfl rfl rfl rfl rfl rfl rfl, hvn', hbest⟩⟩
        · cases hs1
          exact ⟨lv1, l1, ⟨hg, hvn'.any, hbest⟩, fun _ => ⟨hg, hvn', hbest⟩⟩
        · cases hs1
        · cases hs1
      · rw [if_neg hnw] at hs1
        cases hs1
        exact ⟨lv1, l1, ⟨hg, hva, hbest⟩, fun hsk => (by rw [hI.skip] at hsk; cases hsk)⟩
  refine := fun _ s w _ _ hc _ _ _ _ h hr => by
    obtain ⟨rc1, rc2⟩ := refine_cert stablePerm hx hc.part hc.age hc.scr h.2.1 hr
    refine ⟨h.1.congr rfl rfl rfl rfl rfl rfl rfl rfl rfl rfl, ?_, fun hw => rc1 hw, ⟨h.2.2.zero, h.2.2.pos⟩⟩
    cases w with
    | false => exact (rc1 rfl).any
    | true => exact rc2 rfl

end CanonF
