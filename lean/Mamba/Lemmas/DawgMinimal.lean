import Mamba.Lemmas.DawgBuild
import Mamba.Spec.Dawg
/-! Minimality of the finished automaton, and its well-formedness in the sense of C14. -/
namespace Dawg

def totalLen (L : List Word) : Nat := (L.map List.length).sum

theorem totalLen_sub_le (L : List Word) (c : Nat) : totalLen (sub L c) ≤ totalLen L := by
  induction L with
  | nil => simp [sub_nil, totalLen]
  | cons u L ih =>
    cases u with
    | nil => rw [sub_cons_nil]; simpa [totalLen] using ih
    | cons a t =>
      rw [sub_cons_cons]
      split
      · simp only [totalLen, List.map_cons, List.sum_cons, List.length_cons] at ih ⊢; omega
      · simp only [totalLen, List.map_cons, List.sum_cons, List.length_cons] at ih ⊢; omega

theorem totalLen_sub_lt (L : List Word) (c : Nat) (hne : sub L c ≠ []) : totalLen (sub L c) < totalLen L := by
  induction L with
  | nil => simp [sub_nil] at hne
  | cons u L ih =>
    cases u with
    | nil =>
      rw [sub_cons_nil] at hne ⊢
      simpa [totalLen] using ih hne
    | cons a t =>
      rw [sub_cons_cons] at hne ⊢
      split
      · have := totalLen_sub_le L c
        simp only [totalLen, List.map_cons, List.sum_cons, List.length_cons] at this ⊢; omega
      · next hac =>
        rw [if_neg hac] at hne
        have := ih hne
        simp only [totalLen, List.map_cons, List.sum_cons, List.length_cons] at this ⊢; omega

theorem totalLen_subw_lt : ∀ (x : Word) (L : List Word), x ≠ [] → subw L x ≠ [] → totalLen (subw L x) < totalLen L := by
  intro x
  induction x with
  | nil => intro L h; exact absurd rfl h
  | cons c x ih =>
    intro L _ hne
    simp only [subw] at hne ⊢
    have hsub : sub L c ≠ [] := by
      intro h0
      rw [h0] at hne
      have : ∀ y : Word, subw [] y = [] := by
        intro y; induction y with
        | nil => rfl
        | cons d y ihy => simpa [subw, sub_nil] using ihy
      exact hne (this x)
    by_cases hx : x = []
    · subst hx; exact totalLen_sub_lt L c hsub
    · exact Nat.lt_trans (ih (sub L c) hx hne) (totalLen_sub_lt L c hsub)

theorem subw_append (L : List Word) (x : Word) (c : Nat) : subw L (x ++ [c]) = sub (subw L x) c := by
  induction x generalizing L with
  | nil => rfl
  | cons d x ih => simp only [List.cons_append, subw, ih]

theorem mem_subw {L : List Word} {x t : Word} : t ∈ subw L x ↔ x ++ t ∈ L := by
  induction x generalizing L with
  | nil => rfl
  | cons c x ih => simp only [subw, ih, mem_sub, List.cons_append]

theorem nat_sorted_ext_mem : ∀ (A B : List Nat), A.Pairwise (· < ·) → B.Pairwise (· < ·) → (∀ w, w ∈ A ↔ w ∈ B) → A = B := by
  intro A
  induction A with
  | nil =>
    intro B _ _ hmem
    cases B with
    | nil => rfl
    | cons b B => exact absurd ((hmem b).2 List.mem_cons_self) (by simp)
  | cons a A ih =>
    intro B hA hB hmem
    cases B with
    | nil => exact absurd ((hmem a).1 List.mem_cons_self) (by simp)
    | cons b B =>
      rw [List.pairwise_cons] at hA hB
      have hab : a = b := by
        have h1 := (hmem a).1 List.mem_cons_self
        have h2 := (hmem b).2 List.mem_cons_self
        rw [List.mem_cons] at h1 h2
        rcases h1 with h1 | h1
        · exact h1
        · rcases h2 with h2 | h2
          · exact h2.symm
          · have := hA.1 b h2; have := hB.1 a h1; omega
      subst hab
      congr 1
      apply ih B hA.2 hB.2
      intro w
      constructor
      · intro hw
        have := (hmem w).1 (List.mem_cons_of_mem _ hw)
        rw [List.mem_cons] at this
        rcases this with h1 | h1
        · subst h1; exact absurd (hA.1 w hw) (Nat.lt_irrefl _)
        · exact h1
      · intro hw
        have := (hmem w).2 (List.mem_cons_of_mem _ hw)
        rw [List.mem_cons] at this
        rcases this with h1 | h1
        · subst h1; exact absurd (hB.1 w hw) (Nat.lt_irrefl _)
        · exact h1

/-- two registered nodes that represent the same language are the same node -/
theorem reg_unique {h : Heap} {R : List Nat} (hreg : RegOK h R) :
    ∀ (m : Nat) (L : List Word) (u v : Nat), totalLen L < m → u ∈ R → v ∈ R → Rep h u L → Rep h v L → u = v := by
  intro m
  induction m with
  | zero => intro L u v hm; omega
  | succ m ih =>
    intro L u v hm hu hv hru hrv
    cases hru with
    | @mk _ nu _ hnu hs hfu hnumu hlabu hlenu hmemu hkidsu =>
      cases hrv with
      | @mk _ nv _ hnv _ hfv hnumv hlabv hlenv hmemv hkidsv =>
        have hlabs : nu.labels = nv.labels :=
          nat_sorted_ext_mem _ _ hlabu hlabv (fun c => by rw [hmemu c, hmemv c])
        have hfin : nu.final = nv.final := by
          have : nu.final = true ↔ nv.final = true := by rw [hfu, hfv]
          cases h1 : nu.final <;> cases h2 : nv.final <;> simp_all
        have hlinks : nu.links = nv.links := by
          apply List.ext_getElem?
          intro j
          by_cases hj : j < nu.links.length
          · have hj' : j < nv.links.length := by rw [← hlenv, ← hlabs, hlenu]; exact hj
            have hjl : j < nu.labels.length := by rw [hlenu]; exact hj
            rw [List.getElem?_eq_getElem hj, List.getElem?_eq_getElem hj']
            congr 1
            have hcu : nu.labels[j]? = some nu.labels[j] := List.getElem?_eq_getElem hjl
            have hcv : nv.labels[j]? = some nu.labels[j] := by rw [← hlabs]; exact hcu
            have hne : sub L nu.labels[j] ≠ [] := (hmemu _).1 (List.getElem_mem hjl)
            exact ih (sub L nu.labels[j]) _ _
              (by have := totalLen_sub_lt L _ hne; omega)
              (hreg.closed u hu nu hnu _ (List.getElem_mem hj))
              (hreg.closed v hv nv hnv _ (List.getElem_mem hj'))
              (hkidsu j _ _ hcu (List.getElem?_eq_getElem hj))
              (hkidsv j _ _ hcv (List.getElem?_eq_getElem hj'))
          · have hj' : ¬ j < nv.links.length := by rw [← hlenv, ← hlabs, hlenu]; exact hj
            rw [List.getElem?_eq_none (by omega), List.getElem?_eq_none (by omega)]
        exact hreg.distinct u hu v hv nu nv hnu hnv hfin hlabs hlinks

/-- every reachable node of a finished automaton is the root or registered, and represents the words after some
prefix -/
theorem Finished.reach {d : Dawg} {ws : List Word} (hf : Finished d ws) {R : List Nat} {n : Node}
    (hreg : RegOK d.heap R) (hn : d.heap[d.root]? = some n) (hlinks : ∀ q ∈ n.links, q ∈ R) :
    ∀ p, Reach d.heap d.root p → (p = d.root ∨ p ∈ R) ∧ ∃ x, Rep d.heap p (subw ws x) ∧ (p ≠ d.root → x ≠ []) := by
  intro p hp
  induction hp with
  | root => exact ⟨Or.inl rfl, [], hf.rep, fun h => absurd rfl h⟩
  | @step p q np _ hnp hq ih =>
    obtain ⟨hpR, x, hrep, _⟩ := ih
    refine ⟨Or.inr ?_, ?_⟩
    · rcases hpR with rfl | hpR
      · rw [hn] at hnp; cases hnp; exact hlinks q hq
      · exact hreg.closed p hpR np hnp q hq
    · cases hrep with
      | @mk _ n' _ hn' hs hfin hnum hlab hlen hmem hkids =>
        rw [hnp] at hn'; cases hn'
        obtain ⟨j, hj, hjq⟩ := List.getElem_of_mem hq
        have hjl : j < np.labels.length := by rw [hlen]; exact hj
        refine ⟨x ++ [np.labels[j]], ?_, fun _ => by simp⟩
        rw [subw_append]
        exact hkids j _ q (List.getElem?_eq_getElem hjl) (by rw [← hjq]; exact List.getElem?_eq_getElem hj)

theorem Rep.nonempty_accepts {h : Heap} {p : Nat} {L : List Word} (hr : Rep h p L) (hne : L ≠ []) :
    ∃ w, accepts h p w := by
  cases L with
  | nil => exact absurd rfl hne
  | cons w L => exact ⟨w, (hr.accepts_iff w).2 List.mem_cons_self⟩

theorem Rep.unique {h : Heap} {p : Nat} {A B : List Word} (hA : Rep h p A) (hB : Rep h p B) : A = B := by
  obtain ⟨n, hn, _⟩ := hA.numWords
  exact Rep.eq_of_equiv hn hn ⟨rfl, rfl, rfl⟩ hA hB

/-- Minimality: no two distinct reachable nodes accept the same words, and every reachable node accepts some word
(unless the word set is empty, where the root is the only node). -/
theorem Finished.minimal {d : Dawg} {ws : List Word} (hf : Finished d ws) :
    (∀ p q, Reach d.heap d.root p → Reach d.heap d.root q →
      (∀ w, accepts d.heap p w ↔ accepts d.heap q w) → p = q) ∧
    (∀ p, Reach d.heap d.root p → (ws ≠ [] ∨ p ≠ d.root) → ∃ w, accepts d.heap p w) := by
  obtain ⟨R, n, hreg, hn, hlinks⟩ := hf.reg
  have hreach := hf.reach hreg hn hlinks
  have hrootR : d.root ∉ R := by rw [hf.root0]; exact hreg.nz
  -- a registered reachable node never has the language of the root
  have hroot_ne : ∀ u, Reach d.heap d.root u → u ∈ R → ¬ (∀ w, accepts d.heap d.root w ↔ accepts d.heap u w) := by
    intro u hur huR hsame
    obtain ⟨_, x, hrep, hx⟩ := hreach u hur
    have hx' : x ≠ [] := hx (fun h => hrootR (h ▸ huR))
    obtain ⟨Lu, hLu, hne⟩ := hreg.rep u huR
    have h1 : subw ws x = Lu := hrep.unique hLu
    have h2 : Lu = ws := by
      apply sorted_ext_mem _ _ hLu.sorted hf.rep.sorted
      intro w
      rw [← hLu.accepts_iff, ← hf.rep.accepts_iff, hsame w]
    have h3 : subw ws x ≠ [] := by rw [h1]; exact hne
    have := totalLen_subw_lt x ws hx' h3
    rw [h1, h2] at this
    exact Nat.lt_irrefl _ this
  refine ⟨?_, ?_⟩
  · intro p q hp hq hsame
    rcases (hreach p hp).1 with rfl | hpR
    · rcases (hreach q hq).1 with rfl | hqR
      · rfl
      · exact absurd hsame (hroot_ne q hq hqR)
    · rcases (hreach q hq).1 with rfl | hqR
      · exact absurd (fun w => (hsame w).symm) (hroot_ne p hp hpR)
      · obtain ⟨Lp, hLp, _⟩ := hreg.rep p hpR
        obtain ⟨Lq, hLq, _⟩ := hreg.rep q hqR
        have : Lp = Lq := by
          apply sorted_ext_mem _ _ hLp.sorted hLq.sorted
          intro w
          rw [← hLp.accepts_iff, ← hLq.accepts_iff, hsame w]
        subst this
        exact reg_unique hreg _ Lp p q (Nat.lt_succ_self _) hpR hqR hLp hLq
  · intro p hp hor
    rcases (hreach p hp).1 with rfl | hpR
    · rcases hor with h1 | h1
      · exact hf.rep.nonempty_accepts h1
      · exact absurd rfl h1
    · obtain ⟨Lp, hLp, hne⟩ := hreg.rep p hpR
      exact hLp.nonempty_accepts hne

/-- a finished automaton over byte strings with fewer than 2^64 words and nodes is well-formed in the sense of C14 -/
theorem Finished.wf {d : Dawg} {ws : List Word} (hf : Finished d ws) (hbytes : ∀ w ∈ ws, ∀ c ∈ w, c < 256)
    (hcount : ws.length < 2 ^ 64) (hsize : d.heap.size < 2 ^ 64) : WF d := by
  obtain ⟨R, n, hreg, hn, hlinks⟩ := hf.reg
  have hreach := hf.reach hreg hn hlinks
  have hget : ∀ p, Reach d.heap d.root p → ∃ np, d.heap[p]? = some np := by
    intro p hp
    obtain ⟨_, x, hrep, _⟩ := hreach p hp
    obtain ⟨np, hnp, _⟩ := hrep.numWords
    exact ⟨np, hnp⟩
  refine ⟨hget, ?_, ?_, ?_, ?_, ?_, hsize⟩
  · intro p np hp hnp
    obtain ⟨_, x, hrep, _⟩ := hreach p hp
    obtain ⟨np', hnp', hl⟩ := hrep.lens
    rw [hnp] at hnp'; cases hnp'; exact hl
  · intro p q np nq _ _ hnp hnq hid
    rw [← hf.ids p np hnp, ← hf.ids q nq hnq, hid]
  · intro p np nr _ hpr hnp hnr
    rw [hf.ids p np hnp, hf.ids _ nr hnr, hf.root0]
    rw [hf.root0] at hpr
    omega
  · intro p np hp hnp hmem
    have : d.root ∈ R := by
      rcases (hreach p hp).1 with rfl | hpR
      · rw [hn] at hnp; cases hnp; exact hlinks _ hmem
      · exact hreg.closed p hpR np hnp _ hmem
    rw [hf.root0] at this
    exact hreg.nz this
  · intro p np hp hnp
    obtain ⟨_, x, hrep, _⟩ := hreach p hp
    have hplt : p < d.heap.size := (Array.getElem?_eq_some_iff.1 hnp).1
    cases hrep with
    | @mk _ n' _ hn' hs hfin hnum hlab hlen hmem hkids =>
      rw [hnp] at hn'; cases hn'
      refine ⟨by rw [hf.ids p np hnp]; omega, ?_, ?_⟩
      · rw [hnum, length_subw]
        have := List.length_filter_le (fun w => x.isPrefixOf w) ws
        omega
      · have hb : ∀ c ∈ np.labels, c < 256 := by
          intro c hc
          have hne := (hmem c).1 hc
          cases hsub : sub (subw ws x) c with
          | nil => exact absurd hsub hne
          | cons t _ =>
            have ht : t ∈ sub (subw ws x) c := by rw [hsub]; exact List.mem_cons_self
            have := mem_subw.1 (mem_sub.1 ht)
            exact hbytes _ this c (by simp)
        have := nodup_length_le 256 np.labels (nat_sorted_nodup hlab) hb
        omega

theorem accRun_sorted : ∀ (ws pre : List Word), (pre ++ ws).Pairwise (· < ·) →
    accRun pre ws = (pre ++ ws, List.replicate ws.length false) := by
  intro ws
  induction ws with
  | nil => intro pre _; simp [accRun]
  | cons w ws ih =>
    intro pre hs
    have hstep : accStep pre w = (pre ++ [w], false) := by
      unfold accStep
      cases hl : pre.getLast? with
      | none => rfl
      | some l =>
        have hlmem : l ∈ pre := List.mem_of_getLast? hl
        rw [List.pairwise_append] at hs
        have : l < w := hs.2.2 l hlmem w List.mem_cons_self
        simp [this]
    simp only [accRun, hstep]
    rw [ih (pre ++ [w]) (by simpa using hs)]
    simp [List.replicate_succ]

/-- the automaton returned by `build` is the finished one of the lemmas -/
theorem finished_of_build {adds : List Word} {d : Dawg} {es : List Bool} (hb : build adds = .ok (some d, es)) :
    Finished d (accRun [] adds).1 := by
  obtain ⟨d', h1, hf⟩ := build_spec adds
  rw [hb] at h1
  simp only [Outcome.ok.injEq, Prod.mk.injEq, Option.some.injEq] at h1
  rw [h1.1]; exact hf

theorem wf_of_build {adds : List Word} {d : Dawg} {es : List Bool} (hb : build adds = .ok (some d, es))
    (hbytes : ∀ w ∈ adds, ∀ c ∈ w, c < 256) (hcount : adds.length < 2 ^ 64) (hsize : d.heap.size < 2 ^ 64) : WF d := by
  have hsub : ∀ (adds pre : List Word), ∀ w ∈ (accRun pre adds).1, w ∈ pre ∨ w ∈ adds := by
    intro adds
    induction adds with
    | nil => intro pre w hw; exact Or.inl hw
    | cons a adds ih =>
      intro pre w hw
      simp only [accRun] at hw
      rcases ih _ w hw with h1 | h1
      · unfold accStep at h1
        split at h1
        · simp at h1; rcases h1 with h1 | h1
          · exact Or.inl h1
          · exact Or.inr (by simp [h1])
        · split at h1
          · simp at h1; rcases h1 with h1 | h1
            · exact Or.inl h1
            · exact Or.inr (by simp [h1])
          · exact Or.inl h1
      · exact Or.inr (List.mem_cons_of_mem _ h1)
  have hlen : ∀ (adds pre : List Word), (accRun pre adds).1.length ≤ pre.length + adds.length := by
    intro adds
    induction adds with
    | nil => intro pre; simp [accRun]
    | cons a adds ih =>
      intro pre
      simp only [accRun]
      have := ih (accStep pre a).1
      have h2 : (accStep pre a).1.length ≤ pre.length + 1 := by
        unfold accStep; split
        · simp
        · split <;> simp
      simp; omega
  refine (finished_of_build hb).wf ?_ ?_ hsize
  · intro w hw
    rcases hsub adds [] w hw with h1 | h1
    · cases h1
    · exact hbytes w h1
  · have := hlen adds []
    simp at this; omega

end Dawg
