import Mamba.Lemmas.DsaturC5
/-! DSATUR model: one iteration, the loop, the result of `dfsDsatur`. -/
namespace CliqueColour
open GraphSpec

/-- what a finished search guarantees (`U0` = the internal initial upper bound) -/
def DsFinal (g : G) (U0 : Nat) (lower : Int) (k : Int) (c : Option (List Int)) : Prop :=
  (c = none ∧ k = -1 ∧ ¬ ∃ f, Good g (U0 : Int) f) ∨
  (∃ best, c = some best ∧ BestOK g best k ∧ k < (U0 : Int) ∧ (k ≤ lower ∨ ¬ ∃ f, Good g k f))

def IterPost (g : G) (U0 : Nat) (lower : Int) (s : Dsat) : DsStep → Prop
  | .next r => DSInv g U0 r ∧ CInv g r ∧ ColUp r ∧ dsMeasure g r < dsMeasure g s
  | .done k c => DsFinal g U0 lower k c
  | .panic => False

theorem backtrackPost_iter {g : G} {U0 : Nat} {lower : Int} {s s0 : Dsat} (h : DSInv g U0 s)
    (hm : dsMeasure g s = dsMeasure g s0) {st : DsStep} (hp : BacktrackPost g U0 s st) :
    IterPost g U0 lower s0 st := by
  cases st with
  | next r =>
    obtain ⟨h1, h2, h3, _, _, i, hi, hadv, hch, hcho, hcur⟩ := hp
    exact ⟨h1, h2, h3, by rw [← hm]; exact backtrack_measure h hi hadv hch hcho hcur⟩
  | done k c =>
    obtain ⟨hnone, hres⟩ := hp
    rcases hres with ⟨hb, hk, hc⟩ | ⟨hb, hk, hc⟩
    · left
      refine ⟨hc, hk, ?_⟩
      rcases h.best with ⟨_, hup⟩ | ⟨hbo, _⟩
      · rw [← hup]; exact hnone _ (Int.le_refl _)
      · have := (hbo.2.1 0 h.npos).1
        omega
    · right
      refine ⟨s.best, hc, ?_⟩
      rcases h.best with ⟨hrep, _⟩ | ⟨hbo, hlt⟩
      · exfalso
        apply hb
        rw [hrep]
        simp [List.getD_eq_getElem?_getD, List.getElem?_replicate, h.npos]
      · rw [hk]
        exact ⟨hbo, hlt, Or.inr (hnone _ (Int.le_refl _))⟩
  | panic => exact hp

theorem dsIter_spec {g : G} (hw : g.WF) {U0 : Nat} (lower : Int) {s : Dsat} (h : DSInv g U0 s) (hc : CInv g s)
    (hcu : ColUp s) : IterPost g U0 lower s (dsIter g lower s) := by
  unfold dsIter
  by_cases hheap : s.heap.length > 0
  · rw [if_pos hheap]
    obtain ⟨v, t, hvt⟩ : ∃ v t, s.heap = v :: t := by
      cases hh : s.heap with
      | nil => rw [hh] at hheap; simp at hheap
      | cons v t => exact ⟨v, t, rfl⟩
    have hv0 : s.heap.getD 0 0 = v := by rw [hvt]; rfl
    simp only [hv0]
    have hvheap : v ∈ s.heap := by rw [hvt]; exact List.mem_cons_self
    cases hopt : dsOptions s v with
    | nil =>
      simp only
      exact backtrackPost_iter h rfl (dsBacktrack_spec h hc (fun u hu f hf => dead_no_options hw h hvheap hopt hu hf))
    | cons tc rest =>
      simp only
      obtain ⟨hci, hcui, _, _, hch, hcur, hcho⟩ := forward_CInv hw h hc hvt hopt
      have hinv := dsForward_inv h hvt hopt
      exact ⟨hinv, hci, hcui hcu, forward_measure h hinv hch hcur hcho⟩
  · rw [if_neg hheap]
    have hempty : s.heap = [] := by
      cases hh : s.heap with
      | nil => rfl
      | cons v t => rw [hh] at hheap; simp at hheap
    have h0 : 0 ∈ s.chosen := h.all_chosen hempty 0 h.npos
    have hle : s.maxUsed + 1 ≤ s.upper := by
      rcases maxCol_attained (colOf s) s.chosen with hm | ⟨w, hwc, hwe⟩
      · have := h.up1; rw [h.mused]; omega
      · have := hcu w hwc
        rw [h.mused]; omega
    obtain ⟨hinv', hbo⟩ := dsRecord_inv hw h hempty hle
    simp only
    by_cases hexit : s.maxUsed + 1 ≤ lower
    · rw [if_pos hexit]
      right
      refine ⟨s.colouring, rfl, hbo, ?_, Or.inl hexit⟩
      rcases hinv'.best with ⟨_, hup⟩ | ⟨_, hlt⟩
      · exfalso
        have hb0 := (hbo.2.1 0 h.npos).1
        rename_i hrep
        have : ({ s with best := s.colouring, upper := s.maxUsed + 1 } : Dsat).best.getD 0 0 = -1 := by
          rw [hrep]; simp [List.getD_eq_getElem?_getD, List.getElem?_replicate, h.npos]
        have e : ({ s with best := s.colouring, upper := s.maxUsed + 1 } : Dsat).best = s.colouring := rfl
        rw [e] at this
        omega
      · exact hlt
    · rw [if_neg hexit]
      have hc' : CInv g ({ s with best := s.colouring, upper := s.maxUsed + 1 } : Dsat) := by
        intro u hu hex
        have hu' : u ≤ s.upper := by
          have : u ≤ s.maxUsed + 1 := hu
          omega
        obtain ⟨f, hf, hopen⟩ := hc u hu' hex
        exact ⟨f, hf, hopen⟩
      refine backtrackPost_iter (s0 := s) hinv' rfl (dsBacktrack_spec hinv' hc' ?_)
      intro u hu f hf he
      exact dead_complete h hempty hu hf he

theorem dsLoop_spec {g : G} (hw : g.WF) {U0 : Nat} (lower : Int) : ∀ (fuel : Nat) (s : Dsat),
    DSInv g U0 s → CInv g s → ColUp s → dsMeasure g s + 1 ≤ fuel →
    ∃ k c, dsLoop g lower fuel s = .ok (k, c) ∧ DsFinal g U0 lower k c := by
  intro fuel
  induction fuel with
  | zero => intro s _ _ _ hf; omega
  | succ fuel ih =>
    intro s h hc hcu hf
    have hpost := dsIter_spec hw lower h hc hcu
    simp only [dsLoop]
    cases hit : dsIter g lower s with
    | next r =>
      rw [hit] at hpost
      obtain ⟨h1, h2, h3, h4⟩ := hpost
      have hpos := dsMeasure_pos g r
      exact ih r h1 h2 h3 (by omega)
    | done k c =>
      rw [hit] at hpost
      exact ⟨k, c, rfl, hpost⟩
    | panic => rw [hit] at hpost; exact absurd hpost id

end CliqueColour
