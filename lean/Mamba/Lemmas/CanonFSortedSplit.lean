import Mamba.Lemmas.CanonFSortedDef
import Mamba.Lemmas.CanonFCertSplit
/-!
# `splitBin` keeps every bin in ascending order (`BinsSorted` of `CanonFSortedDef.lean`)

* `no_div_inside` — no divider lies strictly inside a bin;
* `binsSorted_asc`, `binsSorted_segment` — the positions of one bin hold strictly ascending vertices;
* `splitBin_binsSorted` — `splitBin` preserves `BinsSorted`.
-/
namespace CanonF

/-- no divider lies strictly inside bin `t` = `[bs, d)` -/
theorem no_div_inside (bd : List Nat) (hs : bd.Pairwise (· < ·)) {t bs d : Nat}
    (hbs : (0 :: bd)[t]? = some bs) (hd : bd[t]? = some d) {x : Nat} (hx : x ∈ bd) : x ≤ bs ∨ d ≤ x := by
  obtain ⟨k, hkl, hkv⟩ := List.getElem_of_mem hx
  obtain ⟨htl, htv⟩ := List.getElem?_eq_some_iff.1 hd
  rcases Nat.lt_trichotomy k t with hlt | heq | hgt
  · left
    cases t with
    | zero => omega
    | succ t' =>
      rw [List.getElem?_cons_succ] at hbs
      obtain ⟨h1, h2⟩ := List.getElem?_eq_some_iff.1 hbs
      by_cases hk : k = t'
      · subst hk; omega
      · have := List.pairwise_iff_getElem.1 hs k t' hkl h1 (by omega)
        omega
  · subst heq; right; omega
  · right
    have := List.pairwise_iff_getElem.1 hs t k htl hkl hgt
    omega

/-- inside a bin the vertices ascend with the position -/
theorem binsSorted_asc {op : OP} (hs : op.binDividers.toList.Pairwise (· < ·)) (hb : BinsSorted op) {t bs d : Nat}
    (hbs : (0 :: op.binDividers.toList)[t]? = some bs) (hd : op.binDividers.toList[t]? = some d) :
    ∀ k p u v, bs ≤ p → p + k + 1 < d → op.order.toList[p]? = some u → op.order.toList[p + k + 1]? = some v → u < v := by
  intro k
  induction k with
  | zero =>
    intro p u v h1 h2 hu hv
    apply hb p u v hu hv
    intro hm
    have := no_div_inside _ hs hbs hd hm
    omega
  | succ k ih =>
    intro p u v h1 h2 hu hv
    have hl := (List.getElem?_eq_some_iff.1 hv).1
    have hw : op.order.toList[p + k + 1]? = some (op.order.toList[p + k + 1]'(by omega)) := List.getElem?_eq_getElem _
    have a := ih p u _ h1 (by omega) hu hw
    have b := hb (p + k + 1) _ v hw hv (by
      intro hm
      have := no_div_inside _ hs hbs hd hm
      omega)
    omega

theorem binsSorted_segment {n : Nat} {op : OP} (hp : PartInv n op) (hb : BinsSorted op) {t bs d : Nat}
    (hbs : (0 :: op.binDividers.toList)[t]? = some bs) (hd : op.binDividers.toList[t]? = some d) :
    ((op.order.toList.drop bs).take (d - bs)).Pairwise (· < ·) := by
  have hs : op.binDividers.toList.Pairwise (· < ·) := (List.pairwise_cons.1 hp.sorted).2
  rw [List.pairwise_iff_getElem]
  intro a c ha hc hac
  have hlen : ((op.order.toList.drop bs).take (d - bs)).length ≤ d - bs := by
    rw [List.length_take]; omega
  have e : ∀ j (hj : j < ((op.order.toList.drop bs).take (d - bs)).length),
      op.order.toList[bs + j]? = some (((op.order.toList.drop bs).take (d - bs))[j]) := by
    intro j hj
    rw [← List.getElem?_eq_getElem hj, List.getElem?_take, if_pos (by omega), List.getElem?_drop]
  have := binsSorted_asc hs hb hbs hd (c - a - 1) (bs + a) _ _ (by omega) (by omega) (e a ha)
    (by rw [show bs + a + (c - a - 1) + 1 = bs + c by omega]; exact e c hc)
  exact this

/-- the start of the bin of `i` is the entry of `0 :: bd` at the bin index -/
theorem binStartOf_get_cons (bd : List Nat) (i : Nat) (hb : binIdx bd i < bd.length) :
    (0 :: bd)[binIdx bd i]? = some (binStartOf bd i) := by
  unfold binStartOf
  by_cases h0 : binIdx bd i = 0
  · rw [if_pos h0, h0]; rfl
  · rw [if_neg h0]
    have hk : binIdx bd i - 1 < bd.length := by omega
    rw [getD_eq_getElem_split _ _ _ hk]
    conv => lhs; rw [show binIdx bd i = (binIdx bd i - 1) + 1 by omega]
    rw [List.getElem?_cons_succ]
    exact List.getElem?_eq_getElem hk

theorem splitBin_binsSorted {n : Nat} {nb : Nbrs} {cb fl : Sl Nat} {op op' : OP} {i : Nat} {w : Bool}
    (hp : PartInv n op) (ha : AgeInv op) (hi : i < n) (hns : NonSingleton op.binDividers.toList i)
    (hb : BinsSorted op) (hs : splitBin nb cb fl op i = .ok (w, op')) : BinsSorted op' := by
  obtain ⟨op1, _, _, _, _, _, eb, _, eo, hif⟩ := splitBin_decomp_ages hp ha hi hns hs
  have hbs : op.binDividers.toList.Pairwise (· < ·) := (List.pairwise_cons.1 hp.sorted).2
  have hbl := binIdx_lt _ n i hp.last hi
  have hsi := binStartOf_le _ hbs i hbl
  have hdi := binIdx_lt_div _ hbs i hbl
  have hol : op.order.toList.length = n := by rw [Sl.length_toList _ hp.wfOrder]; exact hp.lenOrder
  have hst := binStartOf_get_cons _ i hbl
  have hdv : op.binDividers.toList[binIdx op.binDividers.toList i]? = some _ := List.getElem?_eq_getElem hbl
  have hin : ∀ x, x ∈ op.binDividers.toList → x ≤ binStartOf op.binDividers.toList i ∨ i < x := by
    intro x hx
    have := no_div_inside _ hbs hst hdv hx
    omega
  have h1 : BinsSorted op1 := by
    intro p u v hu hv hnd
    have hnd1 : p + 1 ∉ op.binDividers.toList ∧ p ≠ binStartOf op.binDividers.toList i := by
      rw [eb] at hnd
      constructor
      · intro hm
        apply hnd
        rw [← List.take_append_drop (binIdx op.binDividers.toList i) op.binDividers.toList] at hm
        rcases List.mem_append.1 hm with hm | hm
        · exact List.mem_append_left _ hm
        · exact List.mem_append_right _ (List.mem_cons_of_mem _ hm)
      · intro e
        apply hnd
        rw [e]
        exact List.mem_append_right _ (List.mem_cons_self ..)
    obtain ⟨hnd2, hps⟩ := hnd1
    rw [eo, moveFront_getElem? _ _ _ hsi (by omega)] at hu hv
    rw [if_neg hps] at hu
    by_cases hp1 : p + 1 ≤ binStartOf op.binDividers.toList i
    · by_cases hp2 : p + 1 = binStartOf op.binDividers.toList i
      · exfalso
        have hm := binStartOf_mem op.binDividers.toList i hbl
        rw [← hp2] at hm
        rcases List.mem_cons.1 hm with h0 | hm
        · omega
        · exact hnd2 hm
      · rw [if_neg (by omega)] at hu
        rw [if_neg (by omega), if_neg (by omega)] at hv
        exact hb p u v hu hv hnd2
    · rw [if_neg (by omega)] at hv
      by_cases hp3 : p + 1 ≤ i
      · rw [if_pos (by omega)] at hu hv
        rw [show p + 1 - 1 = (p - 1) + 1 by omega] at hv
        apply hb (p - 1) u v hu hv
        intro hm
        have := hin _ hm
        omega
      · rw [if_neg (by omega)] at hv
        by_cases hp4 : p = i
        · subst hp4
          rw [if_pos (by omega)] at hu
          have hw : op.order.toList[p]? = some (op.order.toList[p]'(by omega)) := List.getElem?_eq_getElem _
          have a := hb (p - 1) u _ hu (by rw [show p - 1 + 1 = p by omega]; exact hw) (by
            intro hm
            have := hin _ hm
            omega)
          have b := hb p _ v hw hv hnd2
          omega
        · rw [if_neg (by omega)] at hu
          exact hb p u v hu hv hnd2
  by_cases hsp : binIdx op.binDividers.toList i = op.spl
  · rw [if_pos hsp] at hif
    obtain ⟨f1, f2, _⟩ := expandValue_frame hif
    unfold BinsSorted
    rw [f1, f2]; exact h1
  · rw [if_neg hsp] at hif
    obtain ⟨_, rfl⟩ := hif
    exact h1

end CanonF
