import Mathlib.Data.List.Nodup
import Mamba.Lemmas.SearchStack
namespace Search

variable (O : Oracle) (pre pr : DG → Bool)

/-- work pending in the open frames: `cnt :: cps` are the counts of children still to be tried (top frame first), `chs`
the choices stack (top first), `P` the graph the children of the top frame extend -/
def remFrames (n : Nat) (K : Nat → Nat → Bool) (node : DG → Option Ans → Outcome (List DG)) :
    DG → List Nat → List Nat → Outcome (List DG)
  | _, [], _ => .ok []
  | P, cnt :: cps, chs =>
    match subKids O pre pr n K node P (chs.take cnt) cnt with
    | .ok o1 =>
      if chs.drop cnt = [] then .ok o1
      else
        match P.removeLast with
        | .ok P' =>
          match remFrames n K node P' cps (chs.drop cnt) with
          | .ok o2 => .ok (o1 ++ o2)
          | .panic => .panic
          | .outOfFuel => .outOfFuel
        | .panic => .panic
        | .outOfFuel => .outOfFuel
    | .panic => .panic
    | .outOfFuel => .outOfFuel

/-- the graph the children of the top frame extend: the current graph if we have just stepped forward, otherwise the
current graph (the last child tried) without its last vertex -/
def parentOf (g : DG) (sf : Bool) : Outcome DG := if sf then .ok g else g.removeLast

/-- at the head of `stepLoop` -/
def remStep (n : Nat) (K : Nat → Nat → Bool) (node : DG → Option Ans → Outcome (List DG)) (sf : Bool) (s : State) :
    Outcome (List DG) :=
  if topList s.choices = [] then .ok []
  else
    match parentOf s.g sf with
    | .ok P => remFrames O pre pr n K node P (topList s.currentPath) (topList s.choices)
    | .panic => .panic
    | .outOfFuel => .outOfFuel

/-- everything the search still lists from the configuration `(mode, s)` of `run` -/
def remM (n : Nat) (K : Nat → Nat → Bool) (node : DG → Option Ans → Outcome (List DG)) : Mode → State → Outcome (List DG)
  | .outer false _, s =>
    match node s.g s.cache with
    | .ok o =>
      match remStep O pre pr n K node false s with
      | .ok r => .ok (o ++ r)
      | .panic => .panic
      | .outOfFuel => .outOfFuel
    | .panic => .panic
    | .outOfFuel => .outOfFuel
  | .outer true sf, s => remStep O pre pr n K node sf s
  | .step sf, s => remStep O pre pr n K node sf s
  | .inner sf i, s =>
    match parentOf s.g sf with
    | .ok P => remFrames O pre pr n K node P (i :: (topList s.currentPath).tail) (topList s.choices)
    | .panic => .panic
    | .outOfFuel => .outOfFuel

/-- the unfolding equation the traversal of a node satisfies (on graphs with at most `n` vertices) -/
def NodeFix (n : Nat) (K : Nat → Nat → Bool) (node : DG → Option Ans → Outcome (List DG)) : Prop :=
  ∀ g c, g.nv ≤ n → node g c =
    if g.nv = n then .ok [g]
    else
      match addAugmentations O n g #[] c with
      | .ok (new, _, _) => subKids O pre pr n K node g (topList new) new.size
      | .panic => .panic
      | .outOfFuel => .outOfFuel

/-- `subNode` with exactly the fuel it needs -/
def nodeX (n : Nat) (K : Nat → Nat → Bool) : DG → Option Ans → Outcome (List DG) :=
  fun g c => subNode O pre pr n K (n - g.nv) g c

theorem nodeX_fix (n : Nat) (K : Nat → Nat → Bool) : NodeFix O pre pr n K (nodeX O pre pr n K) := by
  intro g c hle
  unfold nodeX
  by_cases hn : g.nv = n
  · simp [hn, subNode]
  · have : n - g.nv = (n - g.nv - 1) + 1 := by omega
    rw [this]
    simp only [subNode, hn, if_false]
    cases haug : addAugmentations O n g #[] c with
    | ok p =>
      obtain ⟨new, c', num⟩ := p
      apply subKids_congr
      intro g2 c2 h2
      rw [h2, Nat.sub_add_eq]
    | panic => rfl
    | outOfFuel => rfl

theorem bitsOf_nodup (x : Nat) : (bitsOf x).Nodup := by
  unfold bitsOf
  exact List.Nodup.filter _ List.nodup_range

end Search
