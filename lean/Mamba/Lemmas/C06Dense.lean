import Mamba.Lemmas.C06Basic
/-! C06 helper lemmas: the graph stored in a `Dense`, the observers, `NewDense`. -/
namespace Construct
open GraphSpec


theorem Dense.adj_eq (d : Dense) (hs : d.edges.size = tri d.n) : d.adj = d.adjF := by
  funext u v
  simp [Dense.adj, Dense.isEdge_eq d hs]

theorem Dense.adjF_symm (d : Dense) (u v : Nat) : d.adjF u v = d.adjF v u := by
  unfold Dense.adjF
  rcases Nat.lt_trichotomy u v with h | h | h
  · have : ¬ v < u := by omega
    simp [h, this, Bool.and_comm]
  · subst h; rfl
  · have : ¬ u < v := by omega
    simp [h, this, Bool.and_comm]

theorem Dense.adjF_irrefl (d : Dense) (v : Nat) : d.adjF v v = false := by
  simp [Dense.adjF]

theorem Dense.adjF_supp (d : Dense) (u v : Nat) (h : d.adjF u v = true) : u < d.n ∧ v < d.n := by
  simp only [Dense.adjF, Bool.and_eq_true, decide_eq_true_eq] at h
  exact ⟨h.1.1, h.1.2⟩

theorem Dense.abs_wf (d : Dense) (hs : d.edges.size = tri d.n) : d.abs.WF where
  symm := by intro u v; simp only [Dense.abs, Dense.adj_eq d hs]; exact d.adjF_symm u v
  irrefl := by intro v; simp only [Dense.abs, Dense.adj_eq d hs]; exact d.adjF_irrefl v
  supp := by intro u v h; simp only [Dense.abs, Dense.adj_eq d hs] at h; exact d.adjF_supp u v h

theorem countP_range_beq (k v : Nat) : (List.range k).countP (fun u => u == v) = if v < k then 1 else 0 := by
  induction k with
  | zero => simp
  | succ m ih =>
    rw [List.range_succ, List.countP_append, ih, List.countP_singleton]
    by_cases h1 : v < m
    · have : ¬ m = v := by omega
      simp [h1, this]; omega
    · by_cases h2 : m = v
      · subst h2; simp
      · have : ¬ v < m + 1 := by omega
        simp [h1, h2, this]

theorem countP_range_beq_and (k v : Nat) (b : Bool) :
    (List.range k).countP (fun u => u == v && b) = if v < k ∧ b = true then 1 else 0 := by
  cases b
  · simp
  · simp [countP_range_beq]

/-- number of pairs of `pairs n` that are edges incident with `v` = number of neighbours of `v` -/
theorem countP_pairs_incident (adj : Nat → Nat → Bool) (hsymm : ∀ u v, adj u v = adj v u) (hirr : ∀ v, adj v v = false)
    (n v : Nat) :
    (pairs n).countP (fun p => adj p.1 p.2 && (p.1 == v || p.2 == v)) =
      if v < n then (List.range n).countP (fun u => adj v u) else 0 := by
  induction n with
  | zero => simp [pairs]
  | succ k ih =>
    rw [pairs_succ, List.countP_append, ih, List.countP_map, List.range_succ, List.countP_append]
    by_cases hv : v < k
    · have h1 : v < k + 1 := by omega
      simp only [hv, h1, ↓reduceIte, List.countP_singleton]
      congr 1
      have : (List.range k).countP ((fun p : Nat × Nat => adj p.1 p.2 && (p.1 == v || p.2 == v)) ∘ fun i => (i, k))
          = (List.range k).countP (fun u => u == v && adj v k) := by
        apply List.countP_congr
        intro u hu
        have huk : u < k := List.mem_range.mp hu
        have : (k == v) = false := by simp; omega
        simp only [Function.comp, this, Bool.or_false]
        by_cases huv : u = v
        · subst huv; simp
        · simp [huv]
      rw [this, countP_range_beq_and]
      simp [hv]
    · by_cases hvk : v = k
      · subst hvk
        have : (List.range v).countP ((fun p : Nat × Nat => adj p.1 p.2 && (p.1 == v || p.2 == v)) ∘ fun i => (i, v))
            = (List.range v).countP (fun u => adj v u) := by
          apply List.countP_congr
          intro u _
          simp [Function.comp, hsymm u v]
        simp [this, hirr]
      · have h1 : ¬ v < k + 1 := by omega
        have : (List.range k).countP ((fun p : Nat × Nat => adj p.1 p.2 && (p.1 == v || p.2 == v)) ∘ fun i => (i, k)) = 0 := by
          rw [List.countP_eq_zero]
          intro u hu
          have huk : u < k := List.mem_range.mp hu
          have h2 : ¬ u = v := by omega
          have h3 : ¬ k = v := by omega
          simp [Function.comp, h2, h3]
        simp [hv, h1, this]




theorem foldlM_collect (a : Array Nat) (idx : Nat → Nat) (l : List Nat) (r0 : List Nat)
    (h : ∀ i ∈ l, idx i < a.size) :
    l.foldlM (fun (r : List Nat) i => do
      let b ← getAt a (idx i)
      Outcome.ok (if b > 0 then r ++ [i] else r)) r0 = .ok (r0 ++ l.filter fun i => bitAt a (idx i)) := by
  induction l generalizing r0 with
  | nil => simp
  | cons x t ih =>
    have hx := h x (by simp)
    simp only [List.foldlM_cons, getAt_ok hx, Outcome.bind_ok]
    rw [ih _ (fun i hi => h i (by simp [hi]))]
    simp only [List.filter_cons, bitAt, Array.getD, hx, ↓reduceDIte, gt_iff_lt]
    by_cases hb : 0 < a[idx x]
    · simp [hb]
    · simp [hb]

theorem range_split (n v : Nat) (hv : v < n) :
    List.range n = List.range v ++ v :: List.range' (v + 1) (n - (v + 1)) := by
  rw [List.range_eq_range', List.range_eq_range']
  have : n = v + ((n - (v + 1)) + 1) := by omega
  conv => lhs; rw [this]
  rw [← List.range'_append_1, List.range'_succ]
  simp [Nat.add_comm]

theorem Dense.neighbours_eq (d : Dense) (hs : d.edges.size = tri d.n) (v : Nat) (hv : v < d.n)
    (c : Int) (hc : d.deg[v]? = some c) (hc0 : 0 ≤ c) :
    d.neighbours v = .ok (d.abs.nbrs v) := by
  unfold Dense.neighbours
  rw [getAt_eq_ok_iff.mpr hc]
  have hc' : ¬ c < 0 := by omega
  simp only [Outcome.bind_ok, Outcome.pure_eq, hc', ↓reduceIte, tri_def]
  rw [foldlM_collect d.edges (fun i => tri v + i) _ _ (by
    intro i hi; rw [hs]; exact tri_add_lt (List.mem_range.mp hi) hv)]
  simp only [Outcome.bind_ok, List.nil_append]
  rw [foldlM_collect d.edges (fun i => tri i + v) _ _ (by
    intro i hi; rw [hs]; rw [List.mem_range'_1] at hi; exact tri_add_lt (by omega) (by omega))]
  congr 1
  simp only [G.nbrs, Dense.abs, Dense.adj_eq d hs]
  rw [range_split d.n v hv, List.filter_append, List.filter_cons]
  have h0 : d.adjF v v = false := by simp [Dense.adjF]
  simp only [h0, Bool.false_eq_true, ↓reduceIte]
  congr 1
  · apply List.filter_congr
    intro i hi
    have hi' : i < v := List.mem_range.mp hi
    have : ¬ v < i := by omega
    have : i < d.n := by omega
    simp [Dense.adjF, hv, *]
  · apply List.filter_congr
    intro i hi
    rw [List.mem_range'_1] at hi
    have : v < i := by omega
    have : i < d.n := by omega
    simp [Dense.adjF, hv, *]



theorem incrAt_ok (a : Array Int) (i : Nat) (h : i < a.size) :
    ∃ a', incrAt a i = .ok a' ∧ a'.size = a.size ∧ ∀ v, a'[v]? = (a[v]?).map fun x => if v = i then x + 1 else x := by
  refine ⟨a.set i (a[i] + 1), by simp [incrAt, getAt_ok h, setAt_ok _ h], by simp, ?_⟩
  intro v
  by_cases hv : v = i
  · subst hv; simp [h]
  · simp [Array.getElem?_set, hv, Ne.symm hv]

/-- one round of the counting loop of `NewDense` -/
def ndStep (edges : Array Nat) (st : CountSt) (p : Nat × Nat) : Outcome CountSt := do
  let b ← getAt edges st.index
  if b > 0 then
    let d ← incrAt st.deg p.1
    let d ← incrAt d p.2
    pure ⟨d, st.m + 1, st.index + 1⟩
  else pure ⟨st.deg, st.m, st.index + 1⟩

theorem ndFold (edges : Array Nat) (l : List (Nat × Nat)) (st : CountSt)
    (hpos : ∀ k (h : k < l.length), pos l[k] = st.index + k)
    (hsize : st.index + l.length ≤ edges.size)
    (hr : ∀ p ∈ l, p.1 < st.deg.size ∧ p.2 < st.deg.size) :
    ∃ st', l.foldlM (ndStep edges) st = .ok st' ∧
      st'.m = st.m + (l.countP fun p => bitAt edges (pos p)) ∧ st'.deg.size = st.deg.size ∧
      ∀ v, st'.deg[v]? = (st.deg[v]?).map fun (x : Int) =>
        x + ((l.countP fun p => bitAt edges (pos p) && p.1 == v : Nat) : Int) +
          ((l.countP fun p => bitAt edges (pos p) && p.2 == v : Nat) : Int) := by
  induction l generalizing st with
  | nil => exact ⟨st, rfl, by simp, rfl, by intro v; cases st.deg[v]? <;> simp⟩
  | cons p t ih =>
    have hp0 : pos p = st.index := by have := hpos 0 (by simp); simpa using this
    have hidx : st.index < edges.size := by simp at hsize; omega
    have hbit : bitAt edges (pos p) = decide (0 < edges[st.index]) := by
      simp [bitAt, hp0, Array.getD, hidx]
    obtain ⟨hp1, hp2⟩ := hr p (by simp)
    have htail : ∀ (st1 : CountSt), st1.index = st.index + 1 → st1.deg.size = st.deg.size →
        (∀ k (h : k < t.length), pos t[k] = st1.index + k) ∧ st1.index + t.length ≤ edges.size ∧
        (∀ q ∈ t, q.1 < st1.deg.size ∧ q.2 < st1.deg.size) := by
      intro st1 h1 h2
      refine ⟨?_, by simp at hsize; omega, by intro q hq; rw [h2]; exact hr q (by simp [hq])⟩
      intro k hk
      have := hpos (k + 1) (by simp; omega)
      simp only [List.getElem_cons_succ] at this
      omega
    simp only [List.foldlM_cons, ndStep, getAt_ok hidx, Outcome.bind_ok]
    by_cases hb : 0 < edges[st.index]
    · obtain ⟨d1, e1, s1, g1⟩ := incrAt_ok st.deg p.1 hp1
      obtain ⟨d2, e2, s2, g2⟩ := incrAt_ok d1 p.2 (by omega)
      simp only [gt_iff_lt, hb, ↓reduceIte, e1, Outcome.bind_ok, e2, Outcome.pure_eq]
      obtain ⟨a1, a2, a3⟩ := htail ⟨d2, st.m + 1, st.index + 1⟩ rfl (by simp; omega)
      obtain ⟨st', f1, f2, f3, f4⟩ := ih ⟨d2, st.m + 1, st.index + 1⟩ a1 a2 a3
      refine ⟨st', f1, ?_, by rw [f3]; simp; omega, ?_⟩
      · rw [f2]; simp only [List.countP_cons, hbit, hb, decide_true, ↓reduceIte]; push_cast; ring
      · intro v
        rw [f4 v]; simp only [g2 v, g1 v]
        cases st.deg[v]? with
        | none => simp
        | some x =>
          simp only [Option.map_some, List.countP_cons, hbit, hb, decide_true, Bool.true_and, beq_iff_eq]
          congr 1
          have e1 : (p.1 = v) = (v = p.1) := propext eq_comm
          have e2 : (p.2 = v) = (v = p.2) := propext eq_comm
          simp only [e1, e2]
          by_cases c1 : v = p.1 <;> by_cases c2 : v = p.2 <;> simp only [c1, c2, ↓reduceIte] <;> (try split_ifs) <;> push_cast <;> ring
    · obtain ⟨a1, a2, a3⟩ := htail ⟨st.deg, st.m, st.index + 1⟩ rfl rfl
      obtain ⟨st', f1, f2, f3, f4⟩ := ih ⟨st.deg, st.m, st.index + 1⟩ a1 a2 a3
      simp only [gt_iff_lt, hb, ↓reduceIte, Outcome.pure_eq, Outcome.bind_ok]
      refine ⟨st', f1, ?_, f3, ?_⟩
      · rw [f2]; simp [List.countP_cons, hbit, hb]
      · intro v; rw [f4 v]; simp [List.countP_cons, hbit, hb]


theorem countP_and_or (l : List (Nat × Nat)) (a b c : Nat × Nat → Bool) (h : ∀ p ∈ l, ¬ (b p = true ∧ c p = true)) :
    l.countP (fun p => a p && (b p || c p)) = l.countP (fun p => a p && b p) + l.countP (fun p => a p && c p) := by
  induction l with
  | nil => simp
  | cons p t ih =>
    have hp := h p (by simp)
    rw [List.countP_cons, List.countP_cons, List.countP_cons, ih (fun q hq => h q (by simp [hq]))]
    cases ha : a p <;> cases hb : b p <;> cases hc : c p <;> simp_all <;> omega

theorem Dense.WF.sound {d : Dense} (h : d.WF) : GraphI.Sound d.toI d.abs where
  n := rfl
  m := by simp [Dense.toI, h.m_eq]
  isEdge := by
    intro u v _ _
    have hs : d.edges.size = tri d.n := h.size_edges
    simp [Dense.toI, Dense.abs, Dense.isEdge_eq d hs, Dense.adj_eq d hs]
  neighbours := by
    intro v hv
    exact Dense.neighbours_eq d h.size_edges v hv _ (h.deg_eq v hv) (by omega)
  degrees := by
    simp only [Dense.toI, Outcome.ok.injEq]
    apply List.ext_getElem?
    intro v
    simp only [Array.getElem?_toList, G.degrees, List.map_map]
    by_cases hv : v < d.n
    · rw [h.deg_eq v hv]
      simp [List.getElem?_map, List.getElem?_range hv, Dense.abs]
    · have h1 : d.deg.size ≤ v := by rw [h.size_deg]; omega
      have h2 : d.abs.n ≤ v := by simp only [Dense.abs]; omega
      rw [Array.getElem?_eq_none h1]
      simp [List.getElem?_map, h2]

theorem newDenseNil_wf (n : Nat) : (newDenseNil n).WF ∧ (newDenseNil n).abs = ⟨n, fun _ _ => false⟩ := by
  have hs : (newDenseNil n).edges.size = tri (newDenseNil n).n := by simp [newDenseNil, zeros, tri]
  have habs : (newDenseNil n).abs = ⟨n, fun _ _ => false⟩ := by
    simp only [Dense.abs, Dense.adj_eq _ hs]
    congr 1
    funext u v
    simp [Dense.adjF, newDenseNil, zeros, bitAt, Array.getD]
  refine ⟨⟨hs, by simp [newDenseNil], ?_, ?_⟩, habs⟩
  · rw [habs, m_eq_countP]; simp [newDenseNil]
  · intro v hv
    rw [habs]
    simp only [newDenseNil] at hv
    have : List.filter (fun _ => false) (List.range n) = [] := by simp [List.filter_eq_nil_iff]
    simp [newDenseNil, G.deg, G.nbrs, hv, this]

theorem newDense_some (n : Nat) (edges : Array Nat) (hs : edges.size = tri n) :
    ∃ d, newDense n (some edges) = .ok d ∧ d.n = n ∧ d.edges = edges ∧ d.WF := by
  have hne : ¬ edges.size ≠ n * (n - 1) / 2 := by simp [hs, tri]
  obtain ⟨st', f1, f2, f3, f4⟩ := ndFold edges (pairs n) ⟨Array.replicate n 0, 0, 0⟩
    (by intro k hk; simpa using pos_getElem_pairs n k hk)
    (by simp [length_pairs, hs])
    (by intro p hp; have := mem_pairs.mp hp; simp; omega)
  refine ⟨⟨n, st'.m, st'.deg, edges⟩, ?_, rfl, rfl, ?_⟩
  · simp only [newDense, hne, ↓reduceIte]
    have : (fun (st : CountSt) (p : Nat × Nat) => (do
        let b ← getAt edges st.index
        if b > 0 then
          let d ← incrAt st.deg p.1
          let d ← incrAt d p.2
          pure ⟨d, st.m + 1, st.index + 1⟩
        else pure ⟨st.deg, st.m, st.index + 1⟩ : Outcome CountSt)) = ndStep edges := rfl
    rw [this, f1]; rfl
  · let d : Dense := ⟨n, st'.m, st'.deg, edges⟩
    have hsd : d.edges.size = tri d.n := hs
    have hadj : ∀ p ∈ pairs n, d.abs.adj p.1 p.2 = bitAt edges (pos p) := by
      intro p hp
      obtain ⟨h1, h2⟩ := mem_pairs.mp hp
      have : p.1 < n := by omega
      simp [Dense.abs, Dense.adj_eq d hsd, Dense.adjF, d, h1, h2, this, pos]
    refine ⟨hs, by simpa using f3, ?_, ?_⟩
    · show st'.m = ((d.abs).m : Int)
      rw [f2, m_eq_countP]
      simp only [Int.zero_add, Nat.cast_inj]
      exact (List.countP_congr (by intro p hp; simp [hadj p hp])).symm
    · intro v hv
      show st'.deg[v]? = some ((d.abs.deg v : Nat) : Int)
      rw [f4 v]
      have hv' : v < n := hv
      simp only [Array.getElem?_replicate, hv', ↓reduceIte, Option.map_some, Int.zero_add, Option.some.injEq]
      have hwf := Dense.abs_wf d hsd
      have h1 := countP_pairs_incident d.abs.adj hwf.symm hwf.irrefl n v
      simp only [hv', ↓reduceIte] at h1
      have h2 : d.abs.deg v = (List.range n).countP (fun u => d.abs.adj v u) := by
        simp [G.deg, G.nbrs, List.countP_eq_length_filter, Dense.abs, d]
      have e1 : (pairs n).countP (fun p => d.abs.adj p.1 p.2 && (p.1 == v || p.2 == v)) =
          (pairs n).countP (fun p => bitAt edges (pos p) && (p.1 == v || p.2 == v)) :=
        List.countP_congr (by intro p hp; simp [hadj p hp])
      have e2 := countP_and_or (pairs n) (fun p => bitAt edges (pos p)) (fun p => p.1 == v) (fun p => p.2 == v) (by
        intro p hp ⟨c1, c2⟩
        have := (mem_pairs.mp hp).1
        simp at c1 c2; omega)
      rw [h2, ← h1, e1, e2]
      push_cast; ring

end Construct
