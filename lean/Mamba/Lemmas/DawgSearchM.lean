import Mathlib.Data.Multiset.AddSub
import Mamba.Lemmas.DawgSearchE
/-! # C13 helper lemmas, part M: the anagram condition as a multiset difference (the only part using Mathlib) -/
namespace DawgSearch

theorem cons_sub_of_not_mem {α : Type} [DecidableEq α] (c : α) (s t : Multiset α) (h : c ∉ t) :
    (c ::ₘ s) - t = c ::ₘ (s - t) := by
  ext a
  rw [Multiset.count_sub, Multiset.count_cons, Multiset.count_cons, Multiset.count_sub]
  by_cases hac : a = c
  · subst hac
    simp [Multiset.count_eq_zero_of_notMem h]
  · simp [hac]

/-- `deficit ls w` is the size of the multiset difference `w - ls` -/
theorem deficit_eq_card_sub : ∀ (w ls : List UInt8),
    deficit ls w = Multiset.card ((w : Multiset UInt8) - (ls : Multiset UInt8))
  | [], ls => by
    simp only [deficit, Multiset.coe_nil]
    rw [Multiset.zero_sub, Multiset.card_zero]
  | c :: w, ls => by
    by_cases hin : c ∈ ls
    · have hp : (ls : Multiset UInt8) = c ::ₘ ((ls.erase c : List UInt8) : Multiset UInt8) := by
        rw [Multiset.cons_coe, Multiset.coe_eq_coe]
        exact List.perm_cons_erase hin
      have e : deficit ls (c :: w) = deficit (ls.erase c) w := by simp [deficit, hin]
      rw [e, deficit_eq_card_sub w (ls.erase c), hp, ← Multiset.cons_coe, Multiset.sub_cons,
        Multiset.erase_cons_head]
    · have e : deficit ls (c :: w) = deficit ls w + 1 := by simp [deficit, hin]
      rw [e, deficit_eq_card_sub w ls, ← Multiset.cons_coe, cons_sub_of_not_mem c _ _ (by simpa using hin),
        Multiset.card_cons]

end DawgSearch
