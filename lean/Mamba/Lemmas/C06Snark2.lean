import Mamba.Lemmas.C06Snark
/-! C06: `FlowerSnark` main theorem; decoders that finish with `NewDense`. -/
namespace Construct
open GraphSpec


theorem flowerSnark_ok (n : Nat) (hodd : n % 2 = 1) (hn : 3 ≤ n) :
    ∃ d, flowerSnark n = .ok d ∧ d.WF ∧ d.abs = Families.flowerSnark n := by
  have hidx : (List.range n).flatMap (snarkIdxs n) = ((List.range n).flatMap (snarkPairs n)).map pos := by
    rw [List.map_flatMap]
    congr 1; funext i; exact snarkIdxs_eq n i
  have hmemP : ∀ p, p ∈ (List.range n).flatMap (snarkPairs n) → p.1 < p.2 ∧ p.2 < 4 * n := by
    intro p hp
    simp only [List.mem_flatMap, List.mem_range] at hp
    obtain ⟨i, hi, hp⟩ := hp
    exact snarkPairs_lt n i hn hi p hp
  obtain ⟨e, e1, e2, e3⟩ := writeOnes_zeros (tri (4 * n)) ((List.range n).flatMap (snarkIdxs n)) (by
    intro k hk
    rw [hidx, List.mem_map] at hk
    obtain ⟨p, hp, rfl⟩ := hk
    obtain ⟨h1, h2⟩ := hmemP p hp
    exact tri_add_lt h1 h2)
  obtain ⟨d, f1, f2, f3, f4⟩ := newDense_some (4 * n) e e2
  refine ⟨d, ?_, f4, ?_⟩
  · unfold flowerSnark
    have : ¬ (n % 2 == 0) = true := by simp; omega
    have h3 : ¬ n < 3 := by omega
    simp only [this, h3, Bool.false_eq_true, ↓reduceIte, tri_def]
    rw [e1]; exact f1
  · have hs : d.edges.size = tri d.n := f4.size_edges
    rw [Families.flowerSnark, ← f2]
    apply abs_eq_symm d hs
    intro u v huv hv
    have hv' : v < 4 * n := by rw [← f2]; exact hv
    have hu' : u < 4 * n := by omega
    have hne : (u != v) = true := by simp; omega
    have hadj := snark_adj_iff n u v
    simp only [Families.flowerSnark, Families.symm, hne, hu', hv', decide_true, Bool.true_and, Bool.and_self] at hadj
    rw [Bool.eq_iff_iff, hadj, f3, e3, decide_eq_true_eq, hidx, List.mem_map]
    have hrel := snark_rel n u v hn huv hv'
    constructor
    · rintro ⟨p, hp, hpos⟩
      obtain ⟨h1, h2⟩ := hmemP p hp
      have := tri_inj h1 huv hpos
      have hp' : (u, v) ∈ (List.range n).flatMap (snarkPairs n) := by
        rw [show (u, v) = p from Prod.ext this.1.symm this.2.symm]; exact hp
      simp only [List.mem_flatMap, List.mem_range] at hp'
      exact ⟨by omega, trivial, trivial, hrel.mp hp'⟩
    · rintro ⟨_, _, _, h⟩
      obtain ⟨i, hi, hp⟩ := hrel.mpr h
      exact ⟨(u, v), by simp only [List.mem_flatMap, List.mem_range]; exact ⟨i, hi, hp⟩, rfl⟩

theorem flowerSnark_rejects (n : Nat) (h : n % 2 = 0 ∨ n < 3) : flowerSnark n = .panic := by
  unfold flowerSnark
  by_cases h2 : n % 2 = 0
  · simp [h2]
  · have h3 : n < 3 := by omega
    simp [h2, h3]


theorem newDense_ok_wf (n : Nat) (e : Array Nat) (d : Dense) (h : newDense n (some e) = .ok d) : d.WF ∧ d.n = n := by
  by_cases hs : e.size = tri n
  · obtain ⟨d', h1, h2, _, h4⟩ := newDense_some n e hs
    rw [h1] at h; cases h; exact ⟨h4, h2⟩
  · have : e.size ≠ n * (n - 1) / 2 := hs
    simp [newDense, this] at h

theorem bind_eq_ok {α β : Type} {x : Outcome α} {f : α → Outcome β} {b : β} (h : (x >>= f) = .ok b) :
    ∃ a, x = .ok a ∧ f a = .ok b := by
  cases x with
  | ok a => exact ⟨a, rfl, h⟩
  | panic => cases h
  | outOfFuel => cases h

theorem pruferDecode_wf (p : List Nat) (d : Dense) (h : pruferDecode p = .ok d) : d.WF ∧ d.n = p.length + 2 := by
  unfold pruferDecode at h
  obtain ⟨_, _, h⟩ := bind_eq_ok h
  obtain ⟨⟨dg, ed⟩, _, h⟩ := bind_eq_ok h
  obtain ⟨_, _, h⟩ := bind_eq_ok h
  exact newDense_ok_wf _ _ _ h

theorem randomTree_wf (n : Nat) (draw : Nat → Nat) (d : Dense) (h : randomTree n draw = .ok d) : d.WF ∧ d.n = n := by
  unfold randomTree at h
  by_cases hn : n < 2
  · simp [hn] at h
  · simp only [hn, ↓reduceIte] at h
    have := pruferDecode_wf _ _ h
    simp only [List.length_map, List.length_range] at this
    exact ⟨this.1, by omega⟩

end Construct
