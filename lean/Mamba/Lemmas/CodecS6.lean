import Mamba.Lemmas.CodecS6Dec
import Mamba.Lemmas.CodecSparse
import Mamba.Lemmas.CodecG6
/-! sparse6: round trip and stability assembled from the reader equivalence (`CodecS6Dec`), the canonical sparse
value (`CodecSparse`) and the interoperability statement of the encoder (hypothesis `hsp` below, proved in `CodecS6Enc`). -/
namespace Codec
open Formats GraphSpec

theorem readN_lt (t : List Nat) (hr : Formats.inRange t = true) (n : Nat) (rest : List Nat)
    (h : readN t = some (n, rest)) : n < 2 ^ 36 := by
  have hr' : ∀ c ∈ t, c ≤ 126 := by
    intro c hc
    have := List.all_eq_true.1 hr c hc
    simp at this; omega
  unfold readN at h
  match t, h with
  | a :: rest0, h =>
    simp only at h
    split at h
    · simp only [Option.some.injEq, Prod.mk.injEq] at h
      have := hr' a (by simp); omega
    · match rest0, h with
      | b :: c :: d :: r3, h =>
        simp only at h
        have hb := hr' b (by simp); have hc := hr' c (by simp); have hd := hr' d (by simp)
        split at h
        · simp only [Option.some.injEq, Prod.mk.injEq] at h; omega
        · match r3, h with
          | e :: f :: g :: hh :: r7, h =>
            simp only [Option.some.injEq, Prod.mk.injEq] at h
            have he := hr' e (by simp); have hf := hr' f (by simp); have hg := hr' g (by simp)
            have hh' := hr' hh (by simp)
            omega

theorem s6DecodeSpec_n_lt (l : List Nat) (n : Nat) (es : List (Nat × Nat)) (h : s6DecodeSpec l = some (n, es)) :
    n < 2 ^ 36 := by
  cases l with
  | nil => simp [s6DecodeSpec_nil] at h
  | cons c t =>
    by_cases hc : c ≠ 58
    · simp [s6DecodeSpec_ne c t hc] at h
    · have hc : c = 58 := by omega
      subst hc
      rw [s6DecodeSpec_cons] at h
      by_cases hr : Formats.inRange t = true
      · simp only [hr, Bool.not_true, Bool.false_eq_true, if_false] at h
        cases hN : readN t with
        | none => simp [hN] at h
        | some p =>
          obtain ⟨n', rest⟩ := p
          simp only [hN, Option.some.injEq, Prod.mk.injEq] at h
          obtain ⟨rfl, _⟩ := h
          exact readN_lt t hr n' rest hN
      · simp [hr] at h

/-- if a conforming reader reads the string `a` as the edges of `g`, the model's decoder returns the `SparseGraph` of `g`,
with and without the optional header -/
theorem s6_roundtrip_of_spec (g : G) (hwf : g.WF) (a : Bytes) (h0 : a[0]? = some 58)
    (hsp : s6DecodeSpec a.toList = some (g.n, g.edges)) :
    s6Decode a = .ok (some (sparseOf g)) ∧ s6Decode (s6Magic.toArray ++ a) = .ok (some (sparseOf g)) := by
  have hm : hasPrefix a s6Magic = false := by
    obtain ⟨l⟩ := a
    cases l with
    | nil => simp at h0
    | cons c t =>
      have : c = 58 := by simpa using h0
      subst this
      exact hasPrefix_false_of_head 58 t 62 _ (by decide)
  constructor
  · rw [s6Decode_core_spec a hm, hsp]
    simp only [addEdges_edges g hwf]
  · rw [s6Decode_strip _ (hasPrefix_append s6Magic a)]
    have : (s6Magic.toArray ++ a).toList.drop 11 = a.toList := by simp [s6Magic]
    rw [this, hsp]
    simp only [addEdges_edges g hwf]

/-- stability of decode ∘ encode ∘ decode, given the interoperability of the encoder on the decoded graph -/
theorem s6_stable_of (s : Bytes) (g : Sparse) (h : s6Decode s = .ok (some g))
    (henc : (GI.ofSparse g).Sound → (GI.ofSparse g).n ≤ 68719476735 →
      ∃ a, s6Encode (GI.ofSparse g) = .ok a ∧ a[0]? = some 58 ∧
        s6DecodeSpec a.toList = some ((GI.ofSparse g).n, (GI.ofSparse g).toG.edges)) :
    ∃ a, s6Encode (GI.ofSparse g) = .ok a ∧ s6Decode a = .ok (some g) := by
  obtain ⟨hwf, es, hes⟩ := (s6Decode_total s).2.2 g h
  have hn := s6DecodeSpec_n_lt _ _ _ hes
  obtain ⟨a, ha, h0, hsp⟩ := henc (ofSparse_sound g hwf) (by show g.n ≤ _; omega)
  refine ⟨a, ha, ?_⟩
  have e1 : (GI.ofSparse g).toG = g.toG := sp_ofSparse_toG g hwf
  rw [e1] at hsp
  have := (s6_roundtrip_of_spec g.toG (Sparse.WF.toG_wf hwf) a h0 hsp).1
  rw [this, sparseOf_toG g hwf]

end Codec
