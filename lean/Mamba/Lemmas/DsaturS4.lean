import Mamba.Lemmas.DsaturS3
/-! DSATUR model: recording a complete colouring preserves the state invariant. -/
namespace CliqueColour
open GraphSpec

theorem DSInv.all_chosen {g : G} {U0 : Nat} {s : Dsat} (h : DSInv g U0 s) (hempty : s.heap = []) :
    ∀ v, v < g.n → v ∈ s.chosen := by
  intro v hv
  by_contra hn
  have := (h.hmem v).2 ⟨hv, hn⟩
  rw [hempty] at this; cases this

theorem dsRecord_inv {g : G} (hw : g.WF) {U0 : Nat} {s : Dsat} (h : DSInv g U0 s) (hempty : s.heap = [])
    (hle : s.maxUsed + 1 ≤ s.upper) :
    DSInv g U0 { s with best := s.colouring, upper := s.maxUsed + 1 } ∧ BestOK g s.colouring (s.maxUsed + 1) := by
  have hall := h.all_chosen hempty
  have h0 : 0 ∈ s.chosen := hall 0 h.npos
  have hmax0 : 0 ≤ s.maxUsed := by
    rw [h.mused]
    exact Int.le_trans (h.col_nonneg h0) (le_maxCol _ h0)
  have hmaxU : s.maxUsed + 2 ≤ (U0 : Int) := by
    rcases maxCol_attained (colOf s) s.chosen with hm | ⟨w, hw', he⟩
    · rw [h.mused] at hmax0; omega
    · obtain ⟨i, hi, rfl⟩ := mem_iff_getD.1 hw'
      obtain ⟨hcur, hcol⟩ := h.colch i hi
      have := (h.optF i hi _ (getD_mem' hcur)).2.1
      rw [h.mused, ← he, hcol]; omega
  have hbest : BestOK g s.colouring (s.maxUsed + 1) := by
    refine ⟨h.lcol, fun v hv => ?_, fun u v hu hv hadj => ?_, fun c hc => ?_⟩
    · have hvc := hall v hv
      have h1 := h.col_nonneg hvc
      have h2 := le_maxCol (colOf s) hvc
      rw [← h.mused] at h2
      exact ⟨h1, by unfold colOf at h2; omega⟩
    · exact h.path_proper hw u (hall u hu) v (hall v hv) hadj
    · obtain ⟨w, hw', hwc⟩ := h.seg s.chosen.length (Nat.le_refl _) c (by
        rw [List.take_length, ← h.mused]; omega)
      rw [List.take_length] at hw'
      exact ⟨w, h.chlt w hw', hwc⟩
  refine ⟨?_, hbest⟩
  exact
    { npos := h.npos, lcol := h.lcol, lseen := h.lseen, lrow := h.lrow, chn := h.chn, chlt := h.chlt,
      lcur := h.lcur, lcho := h.lcho, hnd := h.hnd, hmem := h.hmem, colun := h.colun, colch := h.colch,
      hok := h.hok, seenH := h.seenH, seenC := h.seenC, optS := h.optS, optF := h.optF,
      optC := fun i hi c hc1 hc2 hc3 => h.optC i hi c hc1 (by
        have : (c : Int) + 2 ≤ s.maxUsed + 1 := hc2
        omega) hc3,
      mused := h.mused, seg := h.seg,
      uple := by show s.maxUsed + 1 ≤ (U0 : Int); omega
      up1 := by show 1 ≤ s.maxUsed + 1; omega
      best := Or.inr ⟨hbest, by show s.maxUsed + 1 < (U0 : Int); omega⟩ }

end CliqueColour
