import Mamba.Model.DawgGob
/-! `searchGE` / `insertAt` on sorted lists. -/
namespace Dawg

theorem searchGE_le_length (l : List Nat) (x : Nat) : searchGE l x ≤ l.length := by
  induction l with
  | nil => simp [searchGE]
  | cons a l ih => simp only [searchGE]; split <;> simp <;> omega

theorem get_searchGE_iff (l : List Nat) (x : Nat) (hs : l.Pairwise (· ≤ ·)) :
    l[searchGE l x]? = some x ↔ x ∈ l := by
  induction l with
  | nil => simp [searchGE]
  | cons a l ih =>
    rw [List.pairwise_cons] at hs
    simp only [searchGE]
    split
    · next h =>
      simp only [List.getElem?_cons_succ, List.mem_cons]
      rw [ih hs.2]
      constructor
      · exact Or.inr
      · rintro (h1 | h1)
        · omega
        · exact h1
    · next h =>
      simp only [List.getElem?_cons_zero, Option.some.injEq, List.mem_cons]
      constructor
      · intro h1; exact Or.inl h1.symm
      · rintro (h1 | h1)
        · exact h1.symm
        · have := hs.1 x h1; omega

theorem insertAt_cons_succ (a : Nat) (l : List Nat) (i x : Nat) :
    insertAt (a :: l) (i + 1) x = a :: insertAt l i x := by
  simp [insertAt]

theorem mem_insertAt (l : List Nat) (i x y : Nat) : y ∈ insertAt l i x ↔ y = x ∨ y ∈ l := by
  unfold insertAt
  rw [List.mem_append, List.mem_cons]
  constructor
  · rintro (h | h | h)
    · exact Or.inr (List.mem_of_mem_take h)
    · exact Or.inl h
    · exact Or.inr (List.mem_of_mem_drop h)
  · rintro (h | h)
    · exact Or.inr (Or.inl h)
    · rw [← List.take_append_drop i l, List.mem_append] at h
      rcases h with h | h
      · exact Or.inl h
      · exact Or.inr (Or.inr h)

theorem insertAt_perm (l : List Nat) (i x : Nat) : (insertAt l i x).Perm (x :: l) := by
  unfold insertAt
  have h1 : (l.take i ++ x :: l.drop i).Perm (x :: (l.take i ++ l.drop i)) := List.perm_middle
  rwa [List.take_append_drop] at h1

theorem sorted_insertAt (l : List Nat) (x : Nat) (hs : l.Pairwise (· ≤ ·)) :
    (insertAt l (searchGE l x) x).Pairwise (· ≤ ·) := by
  induction l with
  | nil => simp [searchGE, insertAt]
  | cons a l ih =>
    rw [List.pairwise_cons] at hs
    simp only [searchGE]
    split
    · next h =>
      rw [insertAt_cons_succ, List.pairwise_cons]
      refine ⟨?_, ih hs.2⟩
      intro y hy
      rw [mem_insertAt] at hy
      rcases hy with hy | hy
      · omega
      · exact hs.1 y hy
    · next h =>
      simp only [insertAt, List.take_zero, List.drop_zero, List.nil_append]
      rw [List.pairwise_cons]
      refine ⟨?_, List.pairwise_cons.2 hs⟩
      intro y hy
      rw [List.mem_cons] at hy
      rcases hy with hy | hy
      · omega
      · have := hs.1 y hy; omega

end Dawg
