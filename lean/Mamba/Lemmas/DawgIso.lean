import Mamba.Lemmas.DawgDfs
/-! Everything the model computes from an automaton is invariant under id-preserving relocation (`IsoVia`). -/
namespace Dawg

def mapSt (φ : Nat → Nat) (st : DfsSt) : DfsSt := { st with stack := st.stack.map (fun e => (φ e.1, e.2)) }

def Outcome.mapO {α β : Type} (f : α → β) : Outcome α → Outcome β
  | .ok a => .ok (f a)
  | .panic => .panic
  | .outOfFuel => .outOfFuel

section
variable {φ : Nat → Nat} {d d' : Dawg}

theorem iso_get (hiso : IsoVia φ d d') {p : Nat} {n : Node} (hp : Reach d.heap d.root p) (hn : d.heap[p]? = some n) :
    d'.heap[φ p]? = some { n with links := n.links.map φ } := by
  obtain ⟨n', hn', h2⟩ := hiso.2 p hp
  rw [hn] at hn'; cases hn'; exact h2

theorem encLinks_iso (hiso : IsoVia φ d d') (wf : WF d) (conv : Nat → Nat) :
    ∀ (labs links : List Nat), (∀ q ∈ links, Reach d.heap d.root q) →
      encLinks d'.heap conv labs (links.map φ) = encLinks d.heap conv labs links := by
  intro labs
  induction labs with
  | nil => intro links _; cases links <;> simp [encLinks]
  | cons lab labs ih =>
    intro links hr
    cases links with
    | nil => simp [encLinks]
    | cons q qs =>
      have hq := hr q List.mem_cons_self
      obtain ⟨qn, hqn⟩ := wf.closed q hq
      simp only [List.map_cons, encLinks, getNode_of_some hqn, getNode_of_some (iso_get hiso hq hqn)]
      rw [ih qs (fun q' hq' => hr q' (List.mem_cons_of_mem _ hq'))]

theorem encRecord_iso (hiso : IsoVia φ d d') (wf : WF d) (conv : Nat → Nat) {p : Nat} {n : Node}
    (hp : Reach d.heap d.root p) (hn : d.heap[p]? = some n) :
    encRecord d'.heap conv { n with links := n.links.map φ } = encRecord d.heap conv n := by
  unfold encRecord
  simp only
  rw [encLinks_iso hiso wf conv n.labels n.links (fun q hq => Reach.step hp hn hq)]

theorem dfsInner_iso (hiso : IsoVia φ d d') (wf : WF d) (emit : Option (Nat → Nat)) {pT : Nat} {T : Node}
    (hp : Reach d.heap d.root pT) (hT : d.heap[pT]? = some T) :
    ∀ (labs : List Nat) (j : Nat) (st : DfsSt),
      dfsInner emit d'.heap { T with links := T.links.map φ } labs j (mapSt φ st) =
        Outcome.mapO (fun r => (mapSt φ r.1, r.2)) (dfsInner emit d.heap T labs j st) := by
  intro labs
  induction labs with
  | nil => intro j st; simp [dfsInner, Outcome.mapO]
  | cons lab labs ih =>
    intro j st
    simp only [dfsInner, List.getElem?_map]
    cases hc : T.links[j]? with
    | none => simp [Outcome.mapO]
    | some c =>
      simp only [Option.map_some]
      have hcr : Reach d.heap d.root c := Reach.step hp hT (List.mem_of_getElem? hc)
      obtain ⟨cn, hcn⟩ := wf.closed c hcr
      cases hst : st.stack with
      | nil => simp [mapSt, hst, Outcome.mapO]
      | cons top below =>
        obtain ⟨tp, tn⟩ := top
        simp only [mapSt, hst, List.map_cons, getNode_of_some hcn, getNode_of_some (iso_get hiso hcr hcn)]
        split
        · have := ih (j + 1) { st with stack := (c, 0) :: (tp, j + 1) :: below }
          simp only [mapSt, List.map_cons] at this
          exact this
        · cases emit with
          | none => simp [Outcome.mapO]
          | some conv =>
            simp only
            rw [encRecord_iso hiso wf conv hcr hcn]
            cases encRecord d.heap conv cn <;> simp [Outcome.mapO]

theorem dfsInner_reach (wf : WF d) (emit : Option (Nat → Nat)) {pT : Nat} {T : Node}
    (hp : Reach d.heap d.root pT) (hT : d.heap[pT]? = some T) :
    ∀ (labs : List Nat) (j : Nat) (st st1 : DfsSt) (b : Bool), (∀ e ∈ st.stack, Reach d.heap d.root e.1) →
      dfsInner emit d.heap T labs j st = .ok (st1, b) → ∀ e ∈ st1.stack, Reach d.heap d.root e.1 := by
  intro labs
  induction labs with
  | nil =>
    intro j st st1 b hs hres
    simp only [dfsInner, Outcome.ok.injEq, Prod.mk.injEq] at hres
    obtain ⟨rfl, _⟩ := hres; exact hs
  | cons lab labs ih =>
    intro j st st1 b hs hres
    simp only [dfsInner] at hres
    cases hc : T.links[j]? with
    | none => rw [hc] at hres; cases hres
    | some c =>
      rw [hc] at hres
      simp only at hres
      have hcr : Reach d.heap d.root c := Reach.step hp hT (List.mem_of_getElem? hc)
      obtain ⟨cn, hcn⟩ := wf.closed c hcr
      cases hst : st.stack with
      | nil => rw [hst] at hres; cases hres
      | cons top below =>
        obtain ⟨tp, tn⟩ := top
        rw [hst] at hres
        simp only [getNode_of_some hcn] at hres
        have hnew : ∀ e ∈ (c, 0) :: (tp, j + 1) :: below, Reach d.heap d.root e.1 := by
          intro e he
          simp only [List.mem_cons] at he
          rcases he with rfl | rfl | he
          · exact hcr
          · exact hs (tp, tn) (by rw [hst]; exact List.mem_cons_self)
          · exact hs e (by rw [hst]; exact List.mem_cons_of_mem _ he)
        split at hres
        · exact ih (j + 1) _ st1 b hnew hres
        · cases emit with
          | none =>
            simp only [Outcome.ok.injEq, Prod.mk.injEq] at hres
            obtain ⟨rfl, _⟩ := hres; exact hnew
          | some conv =>
            simp only at hres
            cases hr : encRecord d.heap conv cn with
            | ok r =>
              rw [hr] at hres
              simp only [Outcome.ok.injEq, Prod.mk.injEq] at hres
              obtain ⟨rfl, _⟩ := hres; exact hnew
            | panic => rw [hr] at hres; cases hres
            | outOfFuel => rw [hr] at hres; cases hres

theorem dfsLoop_iso (hiso : IsoVia φ d d') (wf : WF d) (emit : Option (Nat → Nat)) :
    ∀ (fuel : Nat) (st : DfsSt), (∀ e ∈ st.stack, Reach d.heap d.root e.1) →
      dfsLoop emit d'.heap fuel (mapSt φ st) = Outcome.mapO (mapSt φ) (dfsLoop emit d.heap fuel st) := by
  intro fuel
  induction fuel with
  | zero => intro st _; simp [dfsLoop, Outcome.mapO]
  | succ fuel ih =>
    intro st hs
    simp only [dfsLoop]
    cases hst : st.stack with
    | nil => simp [mapSt, hst, Outcome.mapO]
    | cons top rest =>
      obtain ⟨p, nxt⟩ := top
      have hpr : Reach d.heap d.root p := hs (p, nxt) (by rw [hst]; exact List.mem_cons_self)
      obtain ⟨T, hT⟩ := wf.closed p hpr
      have hmap : (mapSt φ st).stack = (φ p, nxt) :: rest.map (fun e => (φ e.1, e.2)) := by
        simp [mapSt, hst]
      rw [hmap]
      simp only [getNode_of_some hT, getNode_of_some (iso_get hiso hpr hT)]
      rw [dfsInner_iso hiso wf emit hpr hT]
      cases hin : dfsInner emit d.heap T (List.drop nxt T.labels) nxt st with
      | panic => simp [Outcome.mapO]
      | outOfFuel => simp [Outcome.mapO]
      | ok res =>
        obtain ⟨st1, b⟩ := res
        have hs1 := dfsInner_reach wf emit hpr hT _ nxt st st1 b hs hin
        simp only [Outcome.mapO]
        cases b with
        | true => simp only; exact ih st1 hs1
        | false =>
          simp only
          cases hst1 : st1.stack with
          | nil => simp [mapSt, hst1, Outcome.mapO]
          | cons t1 r1 =>
            cases r1 with
            | nil => simp [mapSt, hst1, Outcome.mapO]
            | cons t2 r2 =>
              simp only [mapSt, hst1, List.map_cons]
              have := ih { st1 with stack := t2 :: r2 } (by
                intro e he
                exact hs1 e (by rw [hst1]; exact List.mem_cons_of_mem _ he))
              simp only [mapSt, List.map_cons] at this
              exact this

theorem listNodes_iso (hiso : IsoVia φ d d') (wf : WF d) (fuel : Nat) : listNodes fuel d' = listNodes fuel d := by
  obtain ⟨rn, hrn⟩ := wf.closed d.root Reach.root
  have hrn' := iso_get hiso Reach.root hrn
  rw [hiso.1] at hrn'
  unfold listNodes
  simp only [getNode_of_some hrn, getNode_of_some hrn']
  have := dfsLoop_iso hiso wf none fuel { nodes := [rn.id], stack := [(d.root, 0)], out := #[] }
    (by intro e he; simp at he; subst he; exact Reach.root)
  simp only [mapSt, List.map_cons, List.map_nil, hiso.1] at this
  rw [this]
  cases dfsLoop none d.heap fuel { nodes := [rn.id], stack := [(d.root, 0)], out := #[] } <;> simp [Outcome.mapO, mapSt]

theorem numberOfNodes_iso (hiso : IsoVia φ d d') (wf : WF d) (fuel : Nat) :
    numberOfNodes fuel d' = numberOfNodes fuel d := by
  unfold numberOfNodes; rw [listNodes_iso hiso wf]

theorem gobEncode_iso (hiso : IsoVia φ d d') (wf : WF d) (fuel : Nat) : gobEncode fuel d' = gobEncode fuel d := by
  obtain ⟨rn, hrn⟩ := wf.closed d.root Reach.root
  have hrn' := iso_get hiso Reach.root hrn
  rw [hiso.1] at hrn'
  unfold gobEncode
  rw [listNodes_iso hiso wf]
  cases listNodes fuel d with
  | panic => rfl
  | outOfFuel => rfl
  | ok L =>
    simp only [getNode_of_some hrn, getNode_of_some hrn', encRecord_iso hiso wf _ Reach.root hrn]
    cases hr : encRecord d.heap (searchGE L) rn with
    | panic => rfl
    | outOfFuel => rfl
    | ok r =>
      simp only
      have := dfsLoop_iso hiso wf (some (searchGE L)) fuel
        ⟨List.replicate L.length 0, [(d.root, 0)], (encodeUint64 L.length ++ List.flatMap encodeUint64 L ++ r).toArray⟩
        (by intro e he; simp at he; subst he; exact Reach.root)
      simp only [mapSt, List.map_cons, List.map_nil, hiso.1] at this
      rw [this]
      cases dfsLoop (some (searchGE L)) d.heap fuel
        ⟨List.replicate L.length 0, [(d.root, 0)], (encodeUint64 L.length ++ List.flatMap encodeUint64 L ++ r).toArray⟩
        <;> simp [Outcome.mapO, mapSt]

theorem numberOfWords_iso (hiso : IsoVia φ d d') (wf : WF d) : numberOfWords d' = numberOfWords d := by
  obtain ⟨rn, hrn⟩ := wf.closed d.root Reach.root
  have hrn' := iso_get hiso Reach.root hrn
  rw [hiso.1] at hrn'
  simp [numberOfWords, getNode_of_some hrn, getNode_of_some hrn']

theorem lookupScan_iso (hiso : IsoVia φ d d') (wf : WF d) (l : Nat) :
    ∀ (labs links : List Nat) (index : Int), (∀ q ∈ links, Reach d.heap d.root q) →
      lookupScan d'.heap l labs (links.map φ) index =
        Outcome.mapO (Option.map (fun r => (φ r.1, r.2))) (lookupScan d.heap l labs links index) := by
  intro labs
  induction labs with
  | nil => intro links index _; simp [lookupScan, Outcome.mapO]
  | cons lab labs ih =>
    intro links index hr
    cases links with
    | nil => simp [lookupScan, Outcome.mapO]
    | cons q qs =>
      have hq := hr q List.mem_cons_self
      obtain ⟨qn, hqn⟩ := wf.closed q hq
      simp only [List.map_cons, lookupScan, getNode_of_some hqn, getNode_of_some (iso_get hiso hq hqn)]
      split
      · simp [Outcome.mapO]
      · exact ih qs _ (fun q' hq' => hr q' (List.mem_cons_of_mem _ hq'))

theorem lookupScan_reach (wf : WF d) (l : Nat) :
    ∀ (labs links : List Nat) (index : Int) (q : Nat) (i : Int), (∀ q ∈ links, Reach d.heap d.root q) →
      lookupScan d.heap l labs links index = .ok (some (q, i)) → Reach d.heap d.root q := by
  intro labs
  induction labs with
  | nil => intro links index q i _ h; simp [lookupScan] at h
  | cons lab labs ih =>
    intro links index q i hr h
    cases links with
    | nil => simp [lookupScan] at h
    | cons q' qs =>
      have hq := hr q' List.mem_cons_self
      obtain ⟨qn, hqn⟩ := wf.closed q' hq
      simp only [lookupScan, getNode_of_some hqn] at h
      split at h
      · simp only [Outcome.ok.injEq, Option.some.injEq, Prod.mk.injEq] at h
        obtain ⟨rfl, _⟩ := h; exact hq
      · exact ih qs _ q i (fun q'' hq'' => hr q'' (List.mem_cons_of_mem _ hq'')) h

theorem lookupWalk_iso (hiso : IsoVia φ d d') (wf : WF d) :
    ∀ (word : List Nat) (p : Nat) (index : Int), Reach d.heap d.root p →
      lookupWalk d'.heap (φ p) index word = lookupWalk d.heap p index word := by
  intro word
  induction word with
  | nil =>
    intro p index hp
    obtain ⟨n, hn⟩ := wf.closed p hp
    simp [lookupWalk, getNode_of_some hn, getNode_of_some (iso_get hiso hp hn)]
  | cons l rest ih =>
    intro p index hp
    obtain ⟨n, hn⟩ := wf.closed p hp
    have hlinks : ∀ q ∈ n.links, Reach d.heap d.root q := fun q hq => Reach.step hp hn hq
    simp only [lookupWalk, getNode_of_some hn, getNode_of_some (iso_get hiso hp hn)]
    rw [lookupScan_iso hiso wf l n.labels n.links index hlinks]
    cases hsc : lookupScan d.heap l n.labels n.links index with
    | panic => simp [Outcome.mapO]
    | outOfFuel => simp [Outcome.mapO]
    | ok r =>
      cases r with
      | none => simp [Outcome.mapO]
      | some qi =>
        obtain ⟨q, i⟩ := qi
        simp only [Outcome.mapO, Option.map_some]
        exact ih q i (lookupScan_reach wf l _ _ _ q i hlinks hsc)

theorem lookup_iso (hiso : IsoVia φ d d') (wf : WF d) (word : List Nat) : lookup d' word = lookup d word := by
  obtain ⟨rn, hrn⟩ := wf.closed d.root Reach.root
  have hrn' := iso_get hiso Reach.root hrn
  rw [hiso.1] at hrn'
  unfold lookup
  simp only [getNode_of_some hrn, getNode_of_some hrn']
  rw [← hiso.1]
  exact lookupWalk_iso hiso wf word d.root _ Reach.root

theorem reach_iso (hiso : IsoVia φ d d') {p : Nat} (hp : Reach d.heap d.root p) : Reach d'.heap d'.root (φ p) := by
  induction hp with
  | root => rw [hiso.1]; exact Reach.root
  | step hp' hn hq ih => exact Reach.step ih (iso_get hiso hp' hn) (List.mem_map_of_mem hq)

theorem reach_iso_inv (hiso : IsoVia φ d d') (wf : WF d) {p' : Nat} (hp : Reach d'.heap d'.root p') :
    ∃ p, Reach d.heap d.root p ∧ φ p = p' := by
  induction hp with
  | root => exact ⟨d.root, Reach.root, hiso.1⟩
  | step _ hn hq ih =>
    obtain ⟨p, hp, rfl⟩ := ih
    obtain ⟨n, hpn⟩ := wf.closed p hp
    rw [iso_get hiso hp hpn] at hn
    cases hn
    simp only [List.mem_map] at hq
    obtain ⟨q, hq, rfl⟩ := hq
    exact ⟨q, Reach.step hp hpn hq, rfl⟩

theorem iso_inj (hiso : IsoVia φ d d') (wf : WF d) {p q : Nat} (hp : Reach d.heap d.root p)
    (hq : Reach d.heap d.root q) (h : φ p = φ q) : p = q := by
  obtain ⟨np, hnp⟩ := wf.closed p hp
  obtain ⟨nq, hnq⟩ := wf.closed q hq
  have h1 := iso_get hiso hp hnp
  have h2 := iso_get hiso hq hnq
  rw [h, h2] at h1
  simp only [Option.some.injEq] at h1
  exact wf.idInj p q np nq hp hq hnp hnq (by rw [Node.mk.injEq] at h1; exact h1.1.symm)

/-- a relocated copy of a well-formed automaton is well-formed -/
theorem WF.of_iso (hiso : IsoVia φ d d') (wf : WF d) (hsize : d'.heap.size < 2 ^ 64) : WF d' := by
  refine ⟨?_, ?_, ?_, ?_, ?_, ?_, hsize⟩
  · intro p' hp'
    obtain ⟨p, hp, rfl⟩ := reach_iso_inv hiso wf hp'
    obtain ⟨n, hn⟩ := wf.closed p hp
    exact ⟨_, iso_get hiso hp hn⟩
  · intro p' n' hp' hn'
    obtain ⟨p, hp, rfl⟩ := reach_iso_inv hiso wf hp'
    obtain ⟨n, hn⟩ := wf.closed p hp
    rw [iso_get hiso hp hn] at hn'; cases hn'
    simpa using wf.lens p n hp hn
  · intro p' q' np' nq' hp' hq' hnp' hnq' hid
    obtain ⟨p, hp, rfl⟩ := reach_iso_inv hiso wf hp'
    obtain ⟨q, hq, rfl⟩ := reach_iso_inv hiso wf hq'
    obtain ⟨np, hnp⟩ := wf.closed p hp
    obtain ⟨nq, hnq⟩ := wf.closed q hq
    rw [iso_get hiso hp hnp] at hnp'; cases hnp'
    rw [iso_get hiso hq hnq] at hnq'; cases hnq'
    rw [wf.idInj p q np nq hp hq hnp hnq hid]
  · intro p' np' nr' hp' hne hnp' hnr'
    obtain ⟨p, hp, rfl⟩ := reach_iso_inv hiso wf hp'
    obtain ⟨np, hnp⟩ := wf.closed p hp
    obtain ⟨nr, hnr⟩ := wf.closed d.root Reach.root
    rw [iso_get hiso hp hnp] at hnp'; cases hnp'
    have := iso_get hiso Reach.root hnr
    rw [hiso.1, hnr'] at this; cases this
    exact wf.rootMin p np nr hp (fun h => hne (by rw [h, hiso.1])) hnp hnr
  · intro p' n' hp' hn' hmem
    obtain ⟨p, hp, rfl⟩ := reach_iso_inv hiso wf hp'
    obtain ⟨n, hn⟩ := wf.closed p hp
    rw [iso_get hiso hp hn] at hn'; cases hn'
    simp only [List.mem_map] at hmem
    obtain ⟨q, hq, hqr⟩ := hmem
    rw [← hiso.1] at hqr
    have := iso_inj hiso wf (Reach.step hp hn hq) Reach.root hqr
    subst this
    exact wf.noBack p n hp hn hq
  · intro p' n' hp' hn'
    obtain ⟨p, hp, rfl⟩ := reach_iso_inv hiso wf hp'
    obtain ⟨n, hn⟩ := wf.closed p hp
    rw [iso_get hiso hp hn] at hn'; cases hn'
    exact wf.small p n hp hn

end
end Dawg
