import Mamba.Lemmas.CliqueColourCol
/-! Helper lemmas for C09: tabulate, Go's IsProperColouring, edge-colouring checker, degeneracy certificate. -/
namespace CliqueColour
open GraphSpec

/-! ### tabulate -/

theorem tabulate_n (g : G) : (tabulate g).n = g.n := rfl

theorem tabulate_adj (g : G) (u v : Nat) :
    (tabulate g).adj u v = (decide (u < g.n) && decide (v < g.n) && g.adj u v) := by
  simp only [tabulate]
  by_cases hu : u < g.n <;> by_cases hv : v < g.n <;> simp only [hu, hv, decide_true, decide_false,
    Bool.true_and, Bool.false_and, Bool.and_false]
  have hlt : u * g.n + v < g.n * g.n := by
    calc u * g.n + v < u * g.n + g.n := by omega
      _ = (u + 1) * g.n := by rw [Nat.add_mul, Nat.one_mul]
      _ ≤ g.n * g.n := Nat.mul_le_mul_right _ hu
  have hpos : 0 < g.n := by omega
  simp only [Array.getD_eq_getD_getElem?, List.getElem?_toArray, List.getElem?_map,
    List.getElem?_range hlt, Option.map_some, Option.getD_some]
  have h1 : (u * g.n + v) / g.n = u := by
    rw [Nat.add_comm, Nat.add_mul_div_right _ _ hpos, Nat.div_eq_of_lt hv]; simp
  have h2 : (u * g.n + v) % g.n = v := by
    rw [Nat.add_comm, Nat.add_mul_mod_self_right, Nat.mod_eq_of_lt hv]
  rw [h1, h2]

theorem tabulate_adj_wf {g : G} (hw : g.WF) (u v : Nat) : (tabulate g).adj u v = g.adj u v := by
  rw [tabulate_adj]
  cases h : g.adj u v
  · simp
  · have := hw.supp u v h
    simp [this.1, this.2]

theorem tabulate_wf {g : G} (hw : g.WF) : (tabulate g).WF where
  symm := fun u v => by rw [tabulate_adj_wf hw, tabulate_adj_wf hw, hw.symm]
  irrefl := fun v => by rw [tabulate_adj_wf hw, hw.irrefl]
  supp := fun u v h => by rw [tabulate_adj_wf hw] at h; exact hw.supp u v h

/-! ### Go's IsProperColouring -/

theorem takeWhile_le_eq_filter (i : Nat) : ∀ (l : List Nat), l.Pairwise (· < ·) →
    l.takeWhile (· ≤ i) = l.filter (· ≤ i) := by
  intro l
  induction l with
  | nil => intro _; rfl
  | cons a t ih =>
    intro hp
    have hp' := List.pairwise_cons.1 hp
    by_cases ha : a ≤ i
    · simp [ha, ih hp'.2]
    · have : t.filter (· ≤ i) = [] := by
        rw [List.filter_eq_nil_iff]
        intro x hx
        have := hp'.1 x hx
        simp; omega
      simp [ha, this]

theorem nbrs_pairwise (g : G) (v : Nat) : (g.nbrs v).Pairwise (· < ·) :=
  List.Pairwise.sublist List.filter_sublist List.pairwise_lt_range

theorem mem_nbrs {g : G} {v u : Nat} : u ∈ g.nbrs v ↔ u < g.n ∧ g.adj v u = true := by
  simp [G.nbrs]

/-- properness of an integer colouring given as in Go -/
def ProperInt (g : G) (c : List Int) : Prop :=
  c.length = g.n ∧ (∀ i, i < g.n → 0 ≤ c.getD i 0) ∧
    ∀ u v, u < g.n → v < g.n → g.adj u v = true → c.getD u 0 ≠ c.getD v 0

theorem isProperColouringGo_iff {g : G} (hw : g.WF) (col : Option (List Int)) :
    isProperColouringGo g col = true ↔ ∃ c, col = some c ∧ ProperInt g c := by
  cases col with
  | none => simp [isProperColouringGo]
  | some c =>
    simp only [isProperColouringGo, Option.some.injEq, exists_eq_left', ProperInt]
    by_cases hl : c.length = g.n
    · simp only [hl, bne_self_eq_false, Bool.false_eq_true, if_false, List.all_eq_true, List.mem_range,
        Bool.and_eq_true, decide_eq_true_eq, true_and, bne_iff_ne]
      constructor
      · intro h
        refine ⟨fun i hi => (h i hi).1, fun u v hu hv ha => ?_⟩
        rcases Nat.lt_trichotomy u v with hlt | heq | hgt
        · have := (h v hv).2 u (by
            rw [takeWhile_le_eq_filter _ _ (nbrs_pairwise g v)]
            exact List.mem_filter.2 ⟨mem_nbrs.2 ⟨hu, by rw [hw.symm]; exact ha⟩, by simp; omega⟩)
          exact this
        · subst heq; rw [hw.irrefl] at ha; cases ha
        · have := (h u hu).2 v (by
            rw [takeWhile_le_eq_filter _ _ (nbrs_pairwise g u)]
            exact List.mem_filter.2 ⟨mem_nbrs.2 ⟨hv, ha⟩, by simp; omega⟩)
          exact fun e => this e.symm
      · rintro ⟨h0, hp⟩ i hi
        refine ⟨h0 i hi, fun v hv => ?_⟩
        rw [takeWhile_le_eq_filter _ _ (nbrs_pairwise g i)] at hv
        have := mem_nbrs.1 (List.mem_filter.1 hv).1
        exact fun e => hp i v hi this.1 this.2 e.symm
    · have : (c.length != g.n) = true := by simpa using hl
      simp [this, hl]

/-! ### edge colouring checker -/

theorem eidx_comm (u v : Nat) : eidx u v = eidx v u := by
  unfold eidx
  rcases Nat.lt_trichotomy u v with h | h | h
  · rw [if_pos h, if_neg (by omega)]
  · subst h; rfl
  · rw [if_neg (by omega), if_pos h]

/-- the colour (0-based) the byte array gives to the pair `{u, v}` -/
def edgeCol (b : List Nat) (u v : Nat) : Nat := b.getD (eidx u v) 0 - 1

theorem isProperEdgeColouring_sound' {g : G} (hw : g.WF) {b : List Nat} {k : Nat}
    (h : isProperEdgeColouring g b k = true) :
    ProperEdge g k (edgeCol b) ∧ b.length = g.n * (g.n - 1) / 2 ∧
      ∀ u v, u < g.n → v < g.n → u ≠ v → g.adj u v = false → b.getD (eidx u v) 0 = 0 := by
  simp only [isProperEdgeColouring, Bool.and_eq_true, beq_iff_eq, List.all_eq_true, List.mem_range] at h
  obtain ⟨⟨hl, hr⟩, hp⟩ := h
  -- range statement for arbitrary orientation
  have hrange : ∀ u v, u < g.n → v < g.n → g.adj u v = true →
      1 ≤ b.getD (eidx u v) 0 ∧ b.getD (eidx u v) 0 ≤ k := by
    intro u v hu hv ha
    rcases Nat.lt_trichotomy u v with hlt | heq | hgt
    · have := hr v hv u hlt
      simp only [ha, if_true, Bool.and_eq_true, decide_eq_true_eq] at this
      exact this
    · subst heq; rw [hw.irrefl] at ha; cases ha
    · have := hr u hu v hgt
      rw [hw.symm] at ha
      simp only [ha, if_true, Bool.and_eq_true, decide_eq_true_eq] at this
      rw [eidx_comm]; exact this
  refine ⟨⟨fun u v => by simp [edgeCol, eidx_comm], fun u v hu hv ha => ?_, fun u v w hu hv hw' hne ha1 ha2 => ?_⟩,
    hl, fun u v hu hv hne ha => ?_⟩
  · have := hrange u v hu hv ha
    simp only [edgeCol]; omega
  · have h1 := hrange u v hu hv ha1
    have h2 := hrange u w hu hw' ha2
    have := hp u hu v hv w hw'
    simp only [ha1, ha2, Bool.and_true, Bool.or_eq_true, Bool.not_eq_true', bne_eq_false_iff_eq,
      bne_iff_ne] at this
    rcases this with h3 | h3
    · exact absurd h3 hne
    · simp only [edgeCol]; omega
  · rcases Nat.lt_trichotomy u v with hlt | heq | hgt
    · have := hr v hv u hlt
      simpa [ha] using this
    · exact absurd heq hne
    · have := hr u hu v hgt
      rw [hw.symm] at ha
      rw [eidx_comm]
      simpa [ha] using this

/-! ### degeneracy -/

theorem degIn_le_of_subset {g : G} {S T : List Nat} {v : Nat} (hS : S.Nodup)
    (h : ∀ u ∈ S, g.adj v u = true → u ∈ T) : degIn g S v ≤ degIn g T v := by
  unfold degIn
  apply List.Subperm.length_le
  apply List.subperm_of_subset (hS.sublist List.filter_sublist)
  intro u hu
  have := List.mem_filter.1 hu
  exact List.mem_filter.2 ⟨h u this.1 this.2, this.2⟩

theorem degIn_perm {g : G} {S T : List Nat} (hp : S.Perm T) (v : Nat) : degIn g S v = degIn g T v := by
  unfold degIn
  exact (hp.filter _).length_eq

theorem backOK_bound {g : G} (hw : g.WF) {d : Nat} : ∀ (rev : List Nat), backOK g d rev = true →
    ∀ S : List Nat, S.Nodup → S ≠ [] → (∀ v ∈ S, v ∈ rev) → ∃ v ∈ S, degIn g S v ≤ d := by
  intro rev
  induction rev with
  | nil =>
    intro _ S _ hne hsub
    cases S with
    | nil => exact absurd rfl hne
    | cons a t => exact absurd (hsub a List.mem_cons_self) (by simp)
  | cons x earlier ih =>
    intro hb S hS hne hsub
    simp only [backOK, Bool.and_eq_true, decide_eq_true_eq] at hb
    by_cases hx : x ∈ S
    · refine ⟨x, hx, Nat.le_trans (degIn_le_of_subset hS fun u hu ha => ?_) hb.1⟩
      rcases List.mem_cons.1 (hsub u hu) with h | h
      · subst h; rw [hw.irrefl] at ha; cases ha
      · exact h
    · refine ih hb.2 S hS hne fun v hv => ?_
      rcases List.mem_cons.1 (hsub v hv) with h | h
      · subst h; exact absurd hv hx
      · exact h

theorem perm_range_of_nodup {n : Nat} {l : List Nat} (hl : l.length = n) (hn : l.Nodup) (hb : ∀ v ∈ l, v < n) :
    l.Perm (List.range n) := by
  have hsp : l.Subperm (List.range n) := List.subperm_of_subset hn fun v hv => List.mem_range.2 (hb v hv)
  exact hsp.perm_of_length_le (by simp [hl])

theorem degeneracyCert_isDegeneracy {g : G} (hw : g.WF) {d : Nat} {order : List Nat}
    (h : degeneracyCert g d order = true) : IsDegeneracy g d := by
  simp only [degeneracyCert, Bool.and_eq_true, beq_iff_eq, nodupB_iff, List.all_eq_true, decide_eq_true_eq,
    Bool.or_eq_true, List.any_eq_true, List.mem_range] at h
  obtain ⟨⟨⟨⟨hl, hn⟩, hb⟩, hback⟩, hlow⟩ := h
  have hperm := perm_range_of_nodup hl hn hb
  refine ⟨fun S hS hne => ?_, ?_⟩
  · refine backOK_bound hw _ hback S hS.1 hne fun v hv => ?_
    rw [List.mem_reverse]
    exact hperm.symm.subset (List.mem_range.2 (hS.2 v hv))
  · rcases hlow with h0 | ⟨j, hj, hP⟩
    · exact Or.inl h0
    · refine Or.inr ⟨order.take (j + 1), ⟨hn.sublist (List.take_sublist _ _), fun v hv => hb v (List.mem_of_mem_take hv)⟩,
        ?_, hP⟩
      intro he
      have : (order.take (j + 1)).length = 0 := by rw [he]; rfl
      rw [List.length_take] at this
      omega

theorem isDegeneracy_unique {g : G} {d d' : Nat} (h : IsDegeneracy g d) (h' : IsDegeneracy g d') : d = d' := by
  have key : ∀ {a b : Nat}, IsDegeneracy g a → IsDegeneracy g b → a ≤ b := by
    intro a b ha hb
    rcases ha.2 with h0 | ⟨S, hS, hne, hlow⟩
    · omega
    · obtain ⟨v, hv, hle⟩ := hb.1 S hS hne
      exact Nat.le_trans (hlow v hv) hle
  exact Nat.le_antisymm (key h h') (key h' h)

theorem degeneracySpec_isDegeneracy (g : G) : IsDegeneracy g (degeneracySpec g) := by
  refine ⟨fun S hS hne => ?_, ?_⟩
  · have hp := canon_perm hS.1 hS.2
    have hT : canon g.n S ∈ lexSubs (List.range g.n) := by
      refine mem_lexSubs.2 ⟨fun he => hne ?_, canon_sublist _ _⟩
      have := hp.length_eq
      rw [he] at this
      exact List.length_eq_zero_iff.1 this.symm
    have hne' : (canon g.n S).map (degIn g (canon g.n S)) ≠ [] := by
      intro he
      exact (mem_lexSubs.1 hT).1 (List.map_eq_nil_iff.1 he)
    obtain ⟨w, hw, hwe⟩ := List.mem_map.1 (minList_mem hne')
    refine ⟨w, hp.subset hw, ?_⟩
    rw [← degIn_perm hp w, hwe]
    exact le_maxList (List.mem_map.2 ⟨_, hT, rfl⟩)
  · by_cases hn : g.n = 0
    · left
      refine ⟨hn, ?_⟩
      simp [degeneracySpec, hn, lexSubs, maxList]
    · right
      have hne : (lexSubs (List.range g.n)).map (minDegIn g) ≠ [] := by
        intro he
        have h2 := List.map_eq_nil_iff.1 he
        have : [0] ∈ lexSubs (List.range g.n) :=
          mem_lexSubs.2 ⟨by simp, by simpa using (List.mem_range.2 (Nat.pos_of_ne_zero hn))⟩
        rw [h2] at this; cases this
      obtain ⟨T, hT, hTe⟩ := List.mem_map.1 (maxList_mem hne)
      have hsub := (mem_lexSubs.1 hT).2
      refine ⟨T, ⟨(List.nodup_range).sublist hsub, fun v hv => List.mem_range.1 (hsub.subset hv)⟩,
        (mem_lexSubs.1 hT).1, fun v hv => ?_⟩
      show degeneracySpec g ≤ _
      unfold degeneracySpec
      rw [← hTe]
      exact minList_le (List.mem_map.2 ⟨v, hv, rfl⟩)

end CliqueColour
