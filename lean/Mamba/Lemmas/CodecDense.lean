import Mamba.Lemmas.CodecBase
import Mamba.Lemmas.CodecCount
/-!
`NewDense`, `DenseGraph.IsEdge` and the canonical dense value `denseOf` (C07/C08).
-/
namespace Codec
open GraphSpec

/-! ### `foldlM` in `Outcome` over appended / flattened lists -/

theorem foldlM_append_outcome {α β : Type} (f : β → α → Outcome β) (l₁ l₂ : List α) (b : β) :
    (l₁ ++ l₂).foldlM f b = (l₁.foldlM f b >>= fun b' => l₂.foldlM f b') := by
  induction l₁ generalizing b with
  | nil => rfl
  | cons x xs ih =>
    simp only [List.cons_append, List.foldlM_cons]
    cases f b x with
    | ok b1 => exact ih b1
    | panic => rfl
    | outOfFuel => rfl

theorem foldlM_flatMap_outcome {α β γ : Type} (f : β → α → Outcome β) (h : γ → List α) (l : List γ) (b : β) :
    (l.flatMap h).foldlM f b = l.foldlM (fun b c => (h c).foldlM f b) b := by
  induction l generalizing b with
  | nil => rfl
  | cons x xs ih =>
    simp only [List.flatMap_cons, List.foldlM_cons, foldlM_append_outcome]
    cases (h x).foldlM f b with
    | ok b1 => exact ih b1
    | panic => rfl
    | outOfFuel => rfl

/-- the double loop of `NewDense` is a single loop over the pairs `01, 02, 12, 03, ...` -/
theorem newDense_loop_eq (n : Nat) (edges : Array Nat) (st : Array Nat × Nat × Nat) :
    (List.range n).foldlM (fun st j => (List.range j).foldlM (newDenseStep edges j) st) st =
      (allPairs n).foldlM (fun st p => newDenseStep edges p.2 st p.1) st := by
  unfold allPairs
  rw [foldlM_flatMap_outcome]
  congr 1; funext st j
  rw [List.foldlM_map]

/-- the position of a pair in `allPairs` -/
theorem allPairs_index {n t : Nat} {p : Nat × Nat} (h : (allPairs n)[t]? = some p) :
    p.1 < p.2 ∧ p.2 < n ∧ t = tri p.2 + p.1 := by
  have hm : p ∈ allPairs n := List.mem_of_getElem? h
  obtain ⟨h1, h2⟩ := allPairs_mem.1 hm
  refine ⟨h1, h2, ?_⟩
  have h3 := allPairs_getElem? h1 h2
  have ht : t < (allPairs n).length := by
    rcases Nat.lt_or_ge t (allPairs n).length with h' | h'
    · exact h'
    · rw [List.getElem?_eq_none h'] at h; cases h
  exact (List.getElem?_inj ht (allPairs_nodup n)).1 (h.trans h3.symm)

/-! ### `IsEdge` -/

theorem Dense.isEdge_symm (d : Dense) (i j : Nat) : d.isEdge i j = d.isEdge j i := by
  unfold Dense.isEdge
  rcases Nat.lt_trichotomy i j with h | h | h
  · have h1 : ¬ j < i := by omega
    simp only [h, h1, if_true, if_false, Bool.or_comm]
  · subst h; rfl
  · have h1 : ¬ i < j := by omega
    simp only [h, h1, if_true, if_false, Bool.or_comm]

theorem Dense.isEdge_lt {d : Dense} (hs : d.edges.size = tri d.n) {i j : Nat} (hij : i < j) (hj : j < d.n) :
    d.isEdge i j = .ok (decide (0 < d.edges.getD (tri j + i) 0)) := by
  have hlt : tri j + i < d.edges.size := hs ▸ tri_idx_lt hij hj
  unfold Dense.isEdge
  have h1 : ¬ i ≥ d.n := by omega
  have h2 : ¬ j ≥ d.n := by omega
  have e : d.edges[j * (j - 1) / 2 + i]? = some (d.edges.getD (tri j + i) 0) := by
    show d.edges[tri j + i]? = _
    simp [Array.getD, hlt]
  simp only [h1, h2, hij, decide_false, Bool.or_self, Bool.false_eq_true, if_false, if_true, e]

theorem Dense.isEdge_ok {d : Dense} (hs : d.edges.size = tri d.n) (i j : Nat) :
    d.isEdge i j = .ok (d.toG.adj i j) := by
  have key : ∀ b : Bool, d.isEdge i j = .ok b → d.isEdge i j = .ok (d.toG.adj i j) := by
    intro b hb
    show _ = Outcome.ok (d.isEdge i j == .ok true)
    rw [hb]; cases b <;> rfl
  rcases Nat.lt_trichotomy i j with h | h | h
  · by_cases hj : j < d.n
    · exact key _ (Dense.isEdge_lt hs h hj)
    · refine key false ?_
      unfold Dense.isEdge
      have : j ≥ d.n := by omega
      simp [this]
  · subst h
    refine key false ?_
    unfold Dense.isEdge
    simp
  · by_cases hi : i < d.n
    · exact key _ ((Dense.isEdge_symm d i j).trans (Dense.isEdge_lt hs h hi))
    · refine key false ?_
      unfold Dense.isEdge
      have : i ≥ d.n := by omega
      simp [this]

theorem Dense.isEdge_ne_panic {d : Dense} (hs : d.edges.size = tri d.n) (i j : Nat) : d.isEdge i j ≠ .panic := by
  rw [Dense.isEdge_ok hs]; exact Outcome.ok_ne_panic _

theorem Dense.isEdge_ne_outOfFuel {d : Dense} (hs : d.edges.size = tri d.n) (i j : Nat) :
    d.isEdge i j ≠ .outOfFuel := by
  rw [Dense.isEdge_ok hs]; exact Outcome.ok_ne_outOfFuel _

/-- the abstraction of any dense value is a well-formed graph (no size hypothesis needed) -/
theorem Dense.toG_wf (d : Dense) : d.toG.WF where
  symm := by intro u v; show (d.isEdge u v == .ok true) = (d.isEdge v u == .ok true); rw [Dense.isEdge_symm]
  irrefl := by intro v; show (d.isEdge v v == .ok true) = false; unfold Dense.isEdge; simp
  supp := by
    intro u v h
    have h' : (d.isEdge u v == .ok true) = true := h
    unfold Dense.isEdge at h'
    by_cases hc : (decide (u ≥ d.n) || decide (v ≥ d.n)) = true
    · rw [if_pos hc] at h'; simp at h'
    · simp only [Bool.or_eq_true, decide_eq_true_eq, not_or] at hc
      show u < d.n ∧ v < d.n
      exact ⟨by omega, by omega⟩

theorem Dense.WF.toG_wf {d : Dense} (_h : d.WF) : d.toG.WF := Dense.toG_wf d

theorem Dense.toG_adj_lt {d : Dense} (hs : d.edges.size = tri d.n) {i j : Nat} (hij : i < j) (hj : j < d.n) :
    d.toG.adj i j = decide (0 < d.edges.getD (tri j + i) 0) := by
  show (d.isEdge i j == .ok true) = _
  rw [Dense.isEdge_lt hs hij hj]
  cases decide (0 < d.edges.getD (tri j + i) 0) <;> rfl

/-! ### the loop of `NewDense` -/

theorem incr_of_getElem? {a : Array Nat} {i x : Nat} (h : a[i]? = some x) :
    incr a i = .ok (a.setIfInBounds i (x + 1)) := by
  unfold incr; rw [h]

/-- one iteration on a pair with a positive byte -/
theorem newDenseStep_pos {edges : Array Nat} {st : Array Nat × Nat × Nat} {i j e x y : Nat}
    (he : edges[st.2.2]? = some e) (hpos : 0 < e) (hij : i ≠ j)
    (hx : st.1[i]? = some x) (hy : st.1[j]? = some y) :
    newDenseStep edges j st i =
      .ok ((st.1.setIfInBounds i (x + 1)).setIfInBounds j (y + 1), st.2.1 + 1, st.2.2 + 1) := by
  unfold newDenseStep
  rw [he]
  simp only [gt_iff_lt, hpos, if_true]
  rw [incr_of_getElem? hx]
  simp only []
  have hy' : (st.1.setIfInBounds i (x + 1))[j]? = some y := by
    rw [Array.getElem?_setIfInBounds, if_neg hij]; exact hy
  rw [incr_of_getElem? hy']

theorem newDenseStep_zero {edges : Array Nat} {st : Array Nat × Nat × Nat} {i j e : Nat}
    (he : edges[st.2.2]? = some e) (hz : ¬ 0 < e) :
    newDenseStep edges j st i = .ok (st.1, st.2.1, st.2.2 + 1) := by
  unfold newDenseStep
  rw [he]
  simp only [gt_iff_lt, hz, if_false]

/-- the predicate "pair `p` is an edge of `g` touching `v`" -/
def touchAdj (g : G) (v : Nat) (p : Nat × Nat) : Bool := (p.1 == v || p.2 == v) && g.adj p.1 p.2

/-- invariant of the loop of `NewDense` after `t` pairs -/
def NDInv (n : Nat) (g : G) (t : Nat) (st : Array Nat × Nat × Nat) : Prop :=
  st.2.2 = t ∧ st.2.1 = ((allPairs n).take t).countP (fun p => g.adj p.1 p.2) ∧ st.1.size = n ∧
    ∀ v, v < n → st.1[v]? = some (((allPairs n).take t).countP (touchAdj g v))

theorem newDense_step_inv (n : Nat) (edges : Array Nat) (g : G) (hs : edges.size = tri n)
    (hg : ∀ i j, i < j → j < n → g.adj i j = decide (0 < edges.getD (tri j + i) 0))
    (t : Nat) (ht : t < (allPairs n).length) (st : Array Nat × Nat × Nat) (hinv : NDInv n g t st) :
    ∃ st', newDenseStep edges (allPairs n)[t].2 st (allPairs n)[t].1 = .ok st' ∧ NDInv n g (t + 1) st' := by
  obtain ⟨h1, h2, h3, h4⟩ := hinv
  have hp : (allPairs n)[t]? = some (allPairs n)[t] := List.getElem?_eq_getElem ht
  generalize (allPairs n)[t] = p at hp
  obtain ⟨i, j⟩ := p
  obtain ⟨hij, hj, hidx⟩ := allPairs_index hp
  simp only at hij hj hidx
  have htake : (allPairs n).take (t + 1) = (allPairs n).take t ++ [(i, j)] := by
    rw [List.take_succ_eq_append_getElem ht]
    congr 2
    exact Option.some.inj ((List.getElem?_eq_getElem ht).symm.trans hp)
  have hts : t < edges.size := by rw [hs, ← allPairs_length]; exact ht
  have he : edges[st.2.2]? = some (edges.getD t 0) := by
    rw [h1]; simp [Array.getD, hts]
  have hadj : g.adj i j = decide (0 < edges.getD t 0) := by rw [hg i j hij hj, hidx]
  by_cases hpos : 0 < edges.getD t 0
  · have ha : g.adj i j = true := by rw [hadj]; exact decide_eq_true hpos
    have hi : i < n := by omega
    refine ⟨_, newDenseStep_pos he hpos (by omega) (h4 i hi) (h4 j hj), ?_, ?_, ?_, ?_⟩
    · simp only [h1]
    · simp only [h2, htake, List.countP_append, List.countP_singleton, ha, if_true]
    · simp only [Array.size_setIfInBounds, h3]
    · intro v hv
      simp only [htake, List.countP_append, List.countP_singleton, touchAdj, ha, Bool.and_true]
      rw [Array.getElem?_setIfInBounds, Array.getElem?_setIfInBounds, h4 v hv]
      simp only [Array.size_setIfInBounds, h3, hi, hj, if_true]
      by_cases c1 : j = v
      · have c2 : ¬ i = v := by omega
        simp [c1]
      · by_cases c2 : i = v
        · simp [c1, c2]
        · simp [c1, c2]
  · have ha : g.adj i j = false := by rw [hadj]; exact decide_eq_false hpos
    refine ⟨_, newDenseStep_zero he hpos, ?_, ?_, ?_, ?_⟩
    · simp only [h1]
    · simp only [h2, htake, List.countP_append, List.countP_singleton, ha]; simp
    · exact h3
    · intro v hv
      simp only [htake, List.countP_append, List.countP_singleton, touchAdj, ha, Bool.and_false]
      simpa using h4 v hv

/-- the loop of `NewDense` succeeds and counts the edges / degrees of any graph `g` that agrees with the bytes -/
theorem newDense_loop (n : Nat) (edges : Array Nat) (g : G) (hs : edges.size = tri n)
    (hg : ∀ i j, i < j → j < n → g.adj i j = decide (0 < edges.getD (tri j + i) 0)) :
    ∃ st, (allPairs n).foldlM (fun st p => newDenseStep edges p.2 st p.1) (Array.replicate n 0, 0, 0) = .ok st ∧
      st.2.1 = (allPairs n).countP (fun p => g.adj p.1 p.2) ∧ st.1.size = n ∧
      ∀ v, v < n → st.1[v]? = some ((allPairs n).countP (touchAdj g v)) := by
  obtain ⟨st, h, hinv⟩ := foldlM_inv (fun st p => newDenseStep edges p.2 st p.1) (NDInv n g) (allPairs n) 0
    (Array.replicate n 0, 0, 0)
    ⟨rfl, by simp, by simp, by intro v hv; simp [hv]⟩
    (by
      intro t ht st hinv
      rw [Nat.zero_add] at hinv ⊢
      exact newDense_step_inv n edges g hs hg t ht st hinv)
  obtain ⟨_, h2, h3, h4⟩ := hinv
  rw [Nat.zero_add, List.take_length] at h2 h4
  exact ⟨st, h, h2, h3, h4⟩

/-! ### `NewDense` -/

theorem countP_touchAdj (g : G) (h : g.WF) {v : Nat} (hv : v < g.n) :
    (allPairs g.n).countP (touchAdj g v) = g.deg v := by
  have := allPairs_countP_touch g h v g.n
  rw [if_pos hv] at this
  unfold touchAdj
  rw [this, List.countP_eq_length_filter]; rfl

theorem countP_adj (g : G) : (allPairs g.n).countP (fun p => g.adj p.1 p.2) = g.m := by
  rw [List.countP_eq_length_filter, ← edges_eq_filter]; rfl

theorem newDense_ok (n : Nat) (edges : Array Nat) (h : edges.size = n * (n - 1) / 2) :
    ∃ d, newDense n edges = .ok d ∧ d.WF ∧ d.n = n ∧ d.edges = edges := by
  have hs : edges.size = tri n := h
  let d0 : Dense := { n := n, m := 0, deg := #[], edges := edges }
  have hg : ∀ i j, i < j → j < n → d0.toG.adj i j = decide (0 < edges.getD (tri j + i) 0) :=
    fun i j hij hj => Dense.toG_adj_lt (d := d0) hs hij hj
  obtain ⟨st, hrun, hm, hsz, hdeg⟩ := newDense_loop n edges d0.toG hs hg
  refine ⟨{ n := n, m := st.2.1, deg := st.1, edges := edges }, ?_, ?_, rfl, rfl⟩
  · unfold newDense
    rw [if_neg (by simpa using h), newDense_loop_eq, hrun]
  · have e : ({ n := n, m := st.2.1, deg := st.1, edges := edges } : Dense).toG = d0.toG := rfl
    refine ⟨h, hsz, ?_, ?_⟩
    · intro v hv
      rw [e, ← countP_touchAdj d0.toG (Dense.toG_wf d0) (v := v) hv]
      exact hdeg v hv
    · rw [e, ← countP_adj]; exact hm

/-- a well-formed dense value is determined by `n` and `edges` -/
theorem Dense.WF.ext {d1 d2 : Dense} (h1 : d1.WF) (h2 : d2.WF) (hn : d1.n = d2.n) (he : d1.edges = d2.edges) :
    d1 = d2 := by
  have hG : d1.toG = d2.toG := by
    show ({ n := d1.n, adj := fun u v => d1.isEdge u v == .ok true } : G) =
      { n := d2.n, adj := fun u v => d2.isEdge u v == .ok true }
    unfold Dense.isEdge
    rw [hn, he]
  have hm : d1.m = d2.m := by rw [h1.m_eq, h2.m_eq, hG]
  have hd : d1.deg = d2.deg := by
    apply Array.ext
    · rw [h1.deg_size, h2.deg_size, hn]
    · intro v hv1 hv2
      have a := h1.deg_eq v (by rw [← h1.deg_size]; exact hv1)
      have b := h2.deg_eq v (by rw [← h2.deg_size]; exact hv2)
      rw [Array.getElem?_eq_getElem hv1] at a
      rw [Array.getElem?_eq_getElem hv2] at b
      rw [Option.some.inj a, Option.some.inj b, hG]
  cases d1; cases d2
  simp only at hn he hm hd
  subst hn he hm hd
  rfl

theorem denseOf_adj (g : G) (h : g.WF) (u v : Nat) : (denseOf g).toG.adj u v = g.adj u v := by
  have hs : (denseOf g).edges.size = tri (denseOf g).n := by
    show (upperBits g).toArray.size = tri g.n
    rw [List.size_toArray, upperBits_length]
  have key : ∀ i j, i < j → j < g.n → (denseOf g).toG.adj i j = g.adj i j := by
    intro i j hij hj
    rw [Dense.toG_adj_lt hs hij hj]
    show decide (0 < (upperBits g).toArray.getD (tri j + i) 0) = _
    have : (upperBits g).toArray.getD (tri j + i) 0 = if g.adj i j then 1 else 0 := by
      have := upperBits_getElem? g hij hj
      rw [Array.getD_eq_getD_getElem?, List.getElem?_toArray, this]; rfl
    rw [this]
    cases g.adj i j <;> rfl
  have hwf := Dense.toG_wf (denseOf g)
  rcases Nat.lt_trichotomy u v with c | c | c
  · by_cases hv : v < g.n
    · exact key u v c hv
    · cases h1 : (denseOf g).toG.adj u v with
      | true => exact absurd (hwf.supp u v h1).2 hv
      | false =>
        cases h2 : g.adj u v with
        | true => exact absurd (h.supp u v h2).2 hv
        | false => rfl
  · subst c; rw [hwf.irrefl, h.irrefl]
  · rw [hwf.symm, h.symm]
    by_cases hu : u < g.n
    · exact key v u c hu
    · cases h1 : (denseOf g).toG.adj v u with
      | true => exact absurd (hwf.supp v u h1).2 hu
      | false =>
        cases h2 : g.adj v u with
        | true => exact absurd (h.supp v u h2).2 hu
        | false => rfl

theorem denseOf_toG_eq (g : G) (h : g.WF) : (denseOf g).toG = g := by
  have : (denseOf g).toG.adj = g.adj := by funext u v; exact denseOf_adj g h u v
  cases g
  show ({ n := _, adj := _ } : G) = _
  congr 1

theorem denseOf_wf (g : G) (h : g.WF) : (denseOf g).WF where
  edges_size := by
    show (upperBits g).toArray.size = tri g.n
    rw [List.size_toArray, upperBits_length]
  deg_size := by show ((List.range g.n).map g.deg).toArray.size = g.n; simp
  deg_eq := by
    intro v hv
    rw [denseOf_toG_eq g h]
    show ((List.range g.n).map g.deg).toArray[v]? = _
    have hv' : v < g.n := hv
    simp [hv']
  m_eq := by rw [denseOf_toG_eq g h]; rfl

theorem newDense_denseOf (g : G) (h : g.WF) : newDense g.n (upperBits g).toArray = .ok (denseOf g) := by
  obtain ⟨d, hd, hwf, hn, he⟩ := newDense_ok g.n (upperBits g).toArray (by
    rw [List.size_toArray, upperBits_length]; rfl)
  rw [hd, Dense.WF.ext hwf (denseOf_wf g h) hn he]

theorem newDenseNil_adj (n u v : Nat) : (newDenseNil n).toG.adj u v = false := by
  have hs : (newDenseNil n).edges.size = tri (newDenseNil n).n := by
    show (Array.replicate (n * (n - 1) / 2) 0).size = tri n
    rw [Array.size_replicate]; rfl
  have hwf := Dense.toG_wf (newDenseNil n)
  have key : ∀ i j, i < j → (newDenseNil n).toG.adj i j = false := by
    intro i j hij
    by_cases hj : j < n
    · rw [Dense.toG_adj_lt hs hij hj]
      have hz : (newDenseNil n).edges.getD (tri j + i) 0 = 0 := by
        show (Array.replicate (n * (n - 1) / 2) 0).getD (tri j + i) 0 = 0
        rw [Array.getD_eq_getD_getElem?, Array.getElem?_replicate]
        split <;> rfl
      rw [hz]; rfl
    · cases h1 : (newDenseNil n).toG.adj i j with
      | true => exact absurd (hwf.supp i j h1).2 hj
      | false => rfl
  rcases Nat.lt_trichotomy u v with c | c | c
  · exact key u v c
  · subst c; exact hwf.irrefl u
  · rw [hwf.symm]; exact key v u c

theorem newDenseNil_wf (n : Nat) : (newDenseNil n).WF where
  edges_size := by show (Array.replicate (n * (n - 1) / 2) 0).size = _; rw [Array.size_replicate]; rfl
  deg_size := by show (Array.replicate n 0).size = n; rw [Array.size_replicate]
  deg_eq := by
    intro v hv
    have hv' : v < n := hv
    have : (newDenseNil n).toG.deg v = 0 := by
      unfold G.deg G.nbrs
      simp [newDenseNil_adj]
    rw [this]
    show (Array.replicate n 0)[v]? = some 0
    rw [Array.getElem?_replicate, if_pos hv']
  m_eq := by
    show 0 = (newDenseNil n).toG.edges.length
    rw [edges_eq_filter]
    have : ∀ l : List (Nat × Nat), l.filter (fun p => (newDenseNil n).toG.adj p.1 p.2) = [] := by
      intro l; rw [List.filter_eq_nil_iff]; intro a _; simp [newDenseNil_adj]
    rw [this]; rfl

/-- a well-formed dense value whose bytes are 0/1 is the canonical value of its own graph -/
theorem denseOf_toG (d : Dense) (h : d.WF) (h01 : ∀ e ∈ d.edges.toList, e = 0 ∨ e = 1) : denseOf d.toG = d := by
  have hs : d.edges.size = tri d.n := h.edges_size
  refine Dense.WF.ext (denseOf_wf d.toG (Dense.toG_wf d)) h rfl ?_
  show (upperBits d.toG).toArray = d.edges
  apply Array.ext'
  show upperBits d.toG = d.edges.toList
  apply List.ext_getElem?
  intro k
  by_cases hk : k < tri d.n
  · have hk' : k < (allPairs d.n).length := by rw [allPairs_length]; exact hk
    have hp : (allPairs d.n)[k]? = some (allPairs d.n)[k] := List.getElem?_eq_getElem hk'
    generalize (allPairs d.n)[k] = p at hp
    obtain ⟨i, j⟩ := p
    obtain ⟨hij, hj, hidx⟩ := allPairs_index hp
    simp only at hij hj hidx
    have hj' : j < d.toG.n := hj
    rw [hidx, upperBits_getElem? d.toG hij hj', Dense.toG_adj_lt hs hij hj, ← hidx]
    have hks : k < d.edges.size := by rw [hs]; exact hk
    have hget : d.edges.getD k 0 = d.edges[k] := by simp [Array.getD, hks]
    rw [hget, Array.getElem?_toList, Array.getElem?_eq_getElem hks]
    have hmem : d.edges[k] ∈ d.edges.toList := by
      rw [Array.mem_toList_iff]; exact Array.getElem_mem hks
    rcases h01 _ hmem with e | e <;> rw [e] <;> rfl
  · rw [List.getElem?_eq_none (by rw [upperBits_length]; exact Nat.le_of_not_lt hk),
      List.getElem?_eq_none (by rw [Array.length_toList, hs]; exact Nat.le_of_not_lt hk)]

end Codec
