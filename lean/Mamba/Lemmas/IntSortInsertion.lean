import Mamba.Lemmas.IntSortPerm
/-! Lemmas for C17 (`ints.Sort`): element access through Go indices (`vi`), range rearrangement (`RP`),
`SortedOn`, and the correctness of `insertionSort`. -/
set_option linter.unusedTactic false
set_option linter.unreachableTactic false
set_option linter.unnecessarySeqFocus false
set_option linter.unusedSimpArgs false
namespace IntSort

theorem get_ok_iff {d : Data} {i v : Int} : get d i = .ok v ↔ (0 ≤ i ∧ i < d.size ∧ v = vi d i) := by
  unfold get vi
  by_cases h0 : 0 ≤ i
  · simp only [h0, if_true, true_and]
    by_cases h1 : i.toNat < d.size
    · have : i < d.size := by omega
      simp [h1, this, eq_comm]
    · have : ¬ i < d.size := by omega
      simp [h1, this]
  · simp [h0]

theorem lt_ok_iff {d : Data} {i j : Int} {r : Bool} :
    lt d i j = .ok r ↔ (0 ≤ i ∧ i < d.size ∧ 0 ≤ j ∧ j < d.size ∧ r = decide (vi d i < vi d j)) := by
  unfold lt
  constructor
  · intro h
    split at h
    · rename_i x y hx hy
      rw [get_ok_iff] at hx hy
      obtain ⟨a1, a2, rfl⟩ := hx
      obtain ⟨b1, b2, rfl⟩ := hy
      cases h
      exact ⟨a1, a2, b1, b2, rfl⟩
    · cases h
  · rintro ⟨a1, a2, b1, b2, rfl⟩
    have hx : get d i = .ok (vi d i) := get_ok_iff.mpr ⟨a1, a2, rfl⟩
    have hy : get d j = .ok (vi d j) := get_ok_iff.mpr ⟨b1, b2, rfl⟩
    simp [hx, hy]

theorem lt_total {d : Data} {i j : Int} (hi0 : 0 ≤ i) (hi : i < d.size) (hj0 : 0 ≤ j) (hj : j < d.size) :
    lt d i j = .ok (decide (vi d i < vi d j)) :=
  lt_ok_iff.mpr ⟨hi0, hi, hj0, hj, rfl⟩

theorem swap_total {d : Data} {i j : Int} (hi0 : 0 ≤ i) (hi : i < d.size) (hj0 : 0 ≤ j) (hj : j < d.size) :
    ∃ d', swap d i j = .ok d' := by
  unfold swap
  have : 0 ≤ i ∧ i.toNat < d.size ∧ 0 ≤ j ∧ j.toNat < d.size := ⟨hi0, by omega, hj0, by omega⟩
  exact ⟨_, dif_pos this⟩

theorem swap_spec {d d' : Data} {i j : Int} (h : swap d i j = .ok d') :
    d'.size = d.size ∧ 0 ≤ i ∧ i < d.size ∧ 0 ≤ j ∧ j < d.size ∧
    ∀ k, vi d' k = if k = i then vi d j else if k = j then vi d i else vi d k := by
  obtain ⟨hi, hj, hi0, hj0, rfl⟩ := swap_ok h
  refine ⟨by simp, hi0, by omega, hj0, by omega, ?_⟩
  intro k
  unfold vi
  by_cases hk : 0 ≤ k
  · simp only [hk, hi0, hj0, if_true]
    have e1 : (k = i) ↔ (k.toNat = i.toNat) := by omega
    have e2 : (k = j) ↔ (k.toNat = j.toNat) := by omega
    simp only [e1, e2]
    rw [Array.getElem?_swap]
    clear e1 e2 h
    generalize i.toNat = I at *
    generalize j.toNat = J at *
    generalize k.toNat = K at *
    by_cases h1 : K = I
    · subst h1
      by_cases h2 : J = K
      · subst h2; simp [hj]
      · simp [h2, hj]
    · by_cases h2 : K = J
      · subst h2; simp [hi, h1]
      · have n1 : ¬ J = K := fun h => h2 h.symm
        have n2 : ¬ I = K := fun h => h1 h.symm
        simp [h1, h2, n1, n2]
  · have n1 : ¬ k = i := by omega
    have n2 : ¬ k = j := by omega
    simp [hk, n1, n2]


theorem RP.refl (a b : Int) (d : Data) : RP a b d d :=
  ⟨rfl, fun _ _ => rfl, fun k h1 h2 => ⟨k, h1, h2, rfl⟩⟩

theorem RP.trans {a b : Int} {d1 d2 d3 : Data} (h1 : RP a b d1 d2) (h2 : RP a b d2 d3) : RP a b d1 d3 := by
  obtain ⟨s1, f1, m1⟩ := h1
  obtain ⟨s2, f2, m2⟩ := h2
  refine ⟨by omega, fun k hk => by rw [f2 k hk, f1 k hk], ?_⟩
  intro k hk1 hk2
  obtain ⟨k', a1, a2, e1⟩ := m2 k hk1 hk2
  obtain ⟨k'', b1, b2, e2⟩ := m1 k' a1 a2
  exact ⟨k'', b1, b2, by rw [e1, e2]⟩

theorem RP.mono {a b a' b' : Int} {d d' : Data} (h : RP a b d d') (ha : a' ≤ a) (hb : b ≤ b') : RP a' b' d d' := by
  obtain ⟨s1, f1, m1⟩ := h
  refine ⟨s1, fun k hk => f1 k (by omega), ?_⟩
  intro k hk1 hk2
  by_cases hin : a ≤ k ∧ k < b
  · obtain ⟨k', a1, a2, e1⟩ := m1 k hin.1 hin.2
    exact ⟨k', by omega, by omega, e1⟩
  · exact ⟨k, hk1, hk2, f1 k (by omega)⟩

theorem RP.of_swap {a b : Int} {d d' : Data} {i j : Int} (h : swap d i j = .ok d')
    (hi : a ≤ i ∧ i < b) (hj : a ≤ j ∧ j < b) : RP a b d d' := by
  obtain ⟨hs, _, _, _, _, hv⟩ := swap_spec h
  refine ⟨hs, ?_, ?_⟩
  · intro k hk
    rw [hv k]
    have n1 : ¬ k = i := by omega
    have n2 : ¬ k = j := by omega
    simp [n1, n2]
  · intro k hk1 hk2
    rw [hv k]
    by_cases h1 : k = i
    · exact ⟨j, hj.1, hj.2, by simp [h1]⟩
    · by_cases h2 : k = j
      · subst h2; exact ⟨i, hi.1, hi.2, by simp [h1]⟩
      · exact ⟨k, hk1, hk2, by simp [h1, h2]⟩

/-- the invariant of the inner loop of insertion sort: `data[a:i+1]` is sorted except that `data[j]` may be
smaller than the elements before it -/
def InsInv (a j i : Int) (d : Data) : Prop :=
  SortedOn a j d ∧ SortedOn j (i+1) d ∧ (∀ p q, a ≤ p → p < j → j < q → q ≤ i → vi d p ≤ vi d q)

theorem insertInner_spec (d : Data) (a j : Int) : ∀ i, 0 ≤ a → a ≤ j → j ≤ i → i < d.size → InsInv a j i d →
    ∃ d', insertInner d a j = .ok d' ∧ RP a (i+1) d d' ∧ SortedOn a (i+1) d' := by
  fun_induction insertInner d a j
  all_goals intro i h0 haj hji his hinv
  case case1 d j hlt hl d1 hsw ih =>
    obtain ⟨hs, _, _, _, _, hv⟩ := swap_spec hsw
    have hl' := lt_ok_iff.mp hl
    have hlt' : vi d j < vi d (j-1) := by simpa using hl'.2.2.2.2
    obtain ⟨s1, s2, s3⟩ := hinv
    have hinv1 : InsInv a (j-1) i d1 := by
      refine ⟨?_, ?_, ?_⟩
      · intro p q h1 h2 h3
        rw [hv p, hv q]
        have := s1 p q h1 h2 (by omega)
        grind
      · intro p q h1 h2 h3
        rw [hv p, hv q]
        by_cases hp : p = j - 1
        · by_cases hq : q = j
          · grind
          · have := s2 j q (by omega) (by omega) h3
            grind
        · by_cases hpj : p = j
          · have := s3 (j-1) q (by omega) (by omega) (by omega) (by omega)
            grind
          · have := s2 p q (by omega) h2 h3
            grind
      · intro p q h1 h2 h3 h4
        rw [hv p, hv q]
        by_cases hq : q = j
        · have := s1 p (j-1) h1 h2 (by omega)
          grind
        · have := s3 p q h1 (by omega) (by omega) h4
          grind
    obtain ⟨d', hr, hrp, hso⟩ := ih i h0 (by omega) (by omega) (by omega) hinv1
    exact ⟨d', hr, (RP.of_swap hsw ⟨by omega, by omega⟩ ⟨by omega, by omega⟩).trans hrp, hso⟩
  case case2 d j hlt hl hsw =>
    obtain ⟨d', h⟩ := swap_total (d := d) (i := j) (j := j-1) (by omega) (by omega) (by omega) (by omega)
    rw [h] at hsw; cases hsw
  case case3 d j hlt hl hsw =>
    obtain ⟨d', h⟩ := swap_total (d := d) (i := j) (j := j-1) (by omega) (by omega) (by omega) (by omega)
    rw [h] at hsw; cases hsw
  case case4 d j hlt hl =>
    have hl' := lt_ok_iff.mp hl
    have hge : ¬ vi d j < vi d (j-1) := by simpa using hl'.2.2.2.2
    obtain ⟨s1, s2, s3⟩ := hinv
    refine ⟨d, rfl, RP.refl _ _ _, ?_⟩
    intro p q h1 h2 h3
    by_cases hq : q < j
    · exact s1 p q h1 h2 hq
    · by_cases hp : j ≤ p
      · exact s2 p q hp h2 h3
      · by_cases hqj : q = j
        · subst hqj
          by_cases hp1 : p = q - 1
          · subst hp1; omega
          · have := s1 p (q-1) h1 (by omega) (by omega); omega
        · exact s3 p q h1 (by omega) (by omega) (by omega)
  case case5 d j hlt hl =>
    have := lt_total (d := d) (i := j) (j := j-1) (by omega) (by omega) (by omega) (by omega)
    rw [this] at hl; cases hl
  case case6 d j hlt hl =>
    have := lt_total (d := d) (i := j) (j := j-1) (by omega) (by omega) (by omega) (by omega)
    rw [this] at hl; cases hl
  case case7 d j hlt =>
    obtain ⟨s1, s2, s3⟩ := hinv
    have : j = a := by omega
    subst this
    exact ⟨d, rfl, RP.refl _ _ _, s2⟩


theorem insertOuter_spec (d : Data) (a b i : Int) : 0 ≤ a → a < i → b ≤ d.size → SortedOn a i d →
    ∃ d', insertOuter d a b i = .ok d' ∧ RP a b d d' ∧ SortedOn a b d' := by
  fun_induction insertOuter d a b i
  all_goals intro h0 hai hb hso
  case case1 d i hib d1 hin ih =>
    obtain ⟨d1', hr, hrp, hs1⟩ := insertInner_spec d a i i h0 (by omega) (by omega) (by omega)
      ⟨hso, fun p q h1 h2 h3 => by omega, fun p q h1 h2 h3 h4 => by omega⟩
    rw [hr] at hin; cases hin
    obtain ⟨d', hr', hrp', hs'⟩ := ih h0 (by omega) (by rw [hrp.1]; exact hb) hs1
    exact ⟨d', hr', (hrp.mono (Int.le_refl _) (by omega)).trans hrp', hs'⟩
  case case2 d i hib hin =>
    obtain ⟨d1', hr, _⟩ := insertInner_spec d a i i h0 (by omega) (by omega) (by omega)
      ⟨hso, fun p q h1 h2 h3 => by omega, fun p q h1 h2 h3 h4 => by omega⟩
    rw [hr] at hin; cases hin
  case case3 d i hib hin =>
    obtain ⟨d1', hr, _⟩ := insertInner_spec d a i i h0 (by omega) (by omega) (by omega)
      ⟨hso, fun p q h1 h2 h3 => by omega, fun p q h1 h2 h3 h4 => by omega⟩
    rw [hr] at hin; cases hin
  case case4 d i hib =>
    exact ⟨d, rfl, RP.refl _ _ _, fun p q h1 h2 h3 => hso p q h1 h2 (by omega)⟩

/-- `insertionSort(data, a, b)` on a valid range: no panic, `data[a:b]` sorted, a rearrangement of `data[a:b]` -/
theorem insertionSort_spec (d : Data) (a b : Int) (h0 : 0 ≤ a) (hb : b ≤ d.size) :
    ∃ d', insertionSort d a b = .ok d' ∧ RP a b d d' ∧ SortedOn a b d' :=
  insertOuter_spec d a b (a+1) h0 (by omega) hb (fun p q h1 h2 h3 => by omega)

end IntSort
