import Mamba.Lemmas.CodecBase
import Mamba.Lemmas.CodecCount
/-!
The model's `SparseGraph` (`Sparse`) against the abstract graph (C07/C08): the canonical value `sparseOf g`,
uniqueness of well-formed sparse values, what the encoders see of a `SparseGraph` (`GI.ofSparse`), and
`addEdges` over `G.edges`. All helper names are prefixed `sp_`.
-/
namespace Codec
open GraphSpec

/-! ### strictly increasing lists, handshake -/

theorem sp_sorted_ext : ∀ (l1 l2 : List Nat), l1.Pairwise (· < ·) → l2.Pairwise (· < ·) →
    (∀ x, x ∈ l1 ↔ x ∈ l2) → l1 = l2 := by
  intro l1
  induction l1 with
  | nil =>
    intro l2 _ _ h
    symm
    rw [List.eq_nil_iff_forall_not_mem]
    intro x hx
    have := (h x).2 hx
    simp at this
  | cons a as ih =>
    intro l2 h1 h2 h
    cases l2 with
    | nil => have := (h a).1 (by simp); simp at this
    | cons b bs =>
      rw [List.pairwise_cons] at h1 h2
      have hab : a = b := by
        have ha := (h a).1 (by simp)
        have hb := (h b).2 (by simp)
        rcases List.mem_cons.1 ha with e | e
        · exact e
        · rcases List.mem_cons.1 hb with e' | e'
          · exact e'.symm
          · have := h1.1 b e'; have := h2.1 a e; omega
      subst hab
      congr 1
      apply ih bs h1.2 h2.2
      intro x
      constructor
      · intro hx
        have := (h x).1 (List.mem_cons_of_mem _ hx)
        rcases List.mem_cons.1 this with e | e
        · have := h1.1 x hx; omega
        · exact e
      · intro hx
        have := (h x).2 (List.mem_cons_of_mem _ hx)
        rcases List.mem_cons.1 this with e | e
        · have := h2.1 x hx; omega
        · exact e

theorem sp_filter_range_sorted (n : Nat) (p : Nat → Bool) : ((List.range n).filter p).Pairwise (· < ·) :=
  List.Pairwise.filter _ List.pairwise_lt_range

theorem sp_filter_range (l : List Nat) (n : Nat) (h : l.Pairwise (· < ·)) (hr : ∀ x ∈ l, x < n) :
    l = (List.range n).filter (fun u => l.contains u) := by
  apply sp_sorted_ext _ _ h (sp_filter_range_sorted _ _)
  intro x
  simp only [List.mem_filter, List.mem_range, List.contains_iff_mem]
  constructor
  · intro hx; exact ⟨hr x hx, hx⟩
  · intro hx; exact hx.2

theorem sp_sum_map_add (l : List Nat) (f g : Nat → Nat) :
    (l.map (fun v => f v + g v)).sum = (l.map f).sum + (l.map g).sum := by
  induction l with
  | nil => rfl
  | cons x xs ih => simp only [List.map_cons, List.sum_cons, ih]; omega

theorem sp_sum_ind (a n : Nat) :
    ((List.range n).map (fun v => if a = v then 1 else 0)).sum = if a < n then 1 else 0 := by
  induction n with
  | zero => rfl
  | succ k ih =>
    rw [List.range_succ, List.map_append, List.sum_append, ih]
    by_cases h1 : a < k
    · have : ¬ a = k := by omega
      simp [h1, this, Nat.lt_succ_of_lt h1]
    · by_cases h2 : a = k
      · subst h2; simp
      · have : ¬ a < k + 1 := by omega
        simp [h1, h2, this]

theorem sp_touch_sum (es : List (Nat × Nat)) (n : Nat) (h : ∀ p ∈ es, p.1 < p.2 ∧ p.2 < n) :
    ((List.range n).map (fun v => (es.filter (fun p => p.1 == v || p.2 == v)).length)).sum = 2 * es.length := by
  induction es with
  | nil =>
    simp only [List.filter_nil, List.length_nil, Nat.mul_zero]
    clear h
    induction n with
    | zero => rfl
    | succ k ih => rw [List.range_succ, List.map_append, List.sum_append, ih]; rfl
  | cons p ps ih =>
    have hp := h p (by simp)
    have e : (fun v => ((p :: ps).filter (fun p => p.1 == v || p.2 == v)).length) =
        fun v => (fun v => (ps.filter (fun p => p.1 == v || p.2 == v)).length) v +
          (fun v => (if p.1 = v then 1 else 0) + (if p.2 = v then 1 else 0)) v := by
      funext v
      simp only [List.filter_cons]
      by_cases h1 : p.1 = v
      · have : ¬ p.2 = v := by omega
        simp [h1, this]
      · by_cases h2 : p.2 = v
        · simp [h1, h2]
        · simp [h1, h2]
    rw [e, sp_sum_map_add, sp_sum_map_add, ih (fun q hq => h q (List.mem_cons_of_mem _ hq)), sp_sum_ind, sp_sum_ind]
    have : p.1 < n := by omega
    simp [this, hp.2]
    omega

theorem sp_handshake (g : G) (h : g.WF) : ((List.range g.n).map g.deg).sum = 2 * g.m := by
  have : (List.range g.n).map g.deg =
      (List.range g.n).map (fun v => (g.edges.filter (fun p => p.1 == v || p.2 == v)).length) := by
    apply List.map_congr_left
    intro v hv
    rw [edges_count_deg g h v (List.mem_range.1 hv)]
  rw [this, sp_touch_sum]
  · rfl
  · intro p hp
    have := (edges_mem g p.1 p.2).1 hp
    exact ⟨this.1, this.2.1⟩


/-! ### the abstraction of a well-formed sparse value -/

theorem sp_toG_adj_iff (s : Sparse) (u v : Nat) :
    s.toG.adj u v = true ↔ ∃ l, s.nbrs[u]? = some l ∧ v ∈ l := by
  unfold Sparse.toG
  cases hu : s.nbrs[u]? with
  | none => simp [hu]
  | some l => simp [hu]

theorem sp_getElem?_some {α : Type} (a : Array α) (i : Nat) (h : i < a.size) : a[i]? = some a[i] :=
  Array.getElem?_eq_getElem h

theorem sp_lt_of_getElem? {α : Type} {a : Array α} {i : Nat} {x : α} (h : a[i]? = some x) : i < a.size := by
  rcases Nat.lt_or_ge i a.size with h' | h'
  · exact h'
  · rw [Array.getElem?_eq_none h'] at h; cases h

theorem Sparse.WF.toG_wf {s : Sparse} (h : s.WF) : s.toG.WF where
  symm := by
    intro u v
    rw [Bool.eq_iff_iff, sp_toG_adj_iff, sp_toG_adj_iff]
    constructor
    · rintro ⟨l, hl, hv⟩
      have hvn := (h.range u l hl v hv).1
      have e := sp_getElem?_some s.nbrs v (by rw [h.nbrs_size]; exact hvn)
      exact ⟨_, e, (h.symm u v _ _ hl e).1 hv⟩
    · rintro ⟨l, hl, hv⟩
      have hvn := (h.range v l hl u hv).1
      have e := sp_getElem?_some s.nbrs u (by rw [h.nbrs_size]; exact hvn)
      exact ⟨_, e, (h.symm v u _ _ hl e).1 hv⟩
  irrefl := by
    intro v
    rw [Bool.eq_false_iff]
    intro hc
    obtain ⟨l, hl, hv⟩ := (sp_toG_adj_iff s v v).1 hc
    exact (h.range v l hl v hv).2 rfl
  supp := by
    intro u v hc
    obtain ⟨l, hl, hv⟩ := (sp_toG_adj_iff s u v).1 hc
    have := sp_lt_of_getElem? hl
    rw [h.nbrs_size] at this
    exact ⟨this, (h.range u l hl v hv).1⟩

theorem sp_toG_nbrs (s : Sparse) (h : s.WF) (v : Nat) (l : List Nat) (hl : s.nbrs[v]? = some l) :
    s.toG.nbrs v = l := by
  unfold G.nbrs Sparse.toG
  simp only [hl]
  exact (sp_filter_range l s.n (h.sorted v l hl) (fun x hx => (h.range v l hl x hx).1)).symm

theorem sp_map_range_getElem? {α : Type} (f : Nat → α) (n i : Nat) :
    ((List.range n).map f).toArray[i]? = if i < n then some (f i) else none := by
  rw [List.getElem?_toArray, List.getElem?_map]
  by_cases h : i < n
  · rw [List.getElem?_range h]; simp [h]
  · rw [List.getElem?_eq_none (by simpa using h)]; simp [h]


theorem sp_nbrs_eq (s : Sparse) (h : s.WF) : s.nbrs = ((List.range s.n).map s.toG.nbrs).toArray := by
  apply Array.ext_getElem?
  intro i
  rw [sp_map_range_getElem?]
  by_cases hi : i < s.n
  · have e := sp_getElem?_some s.nbrs i (by rw [h.nbrs_size]; exact hi)
    rw [if_pos hi, sp_toG_nbrs s h i _ e, e]
  · rw [if_neg hi, Array.getElem?_eq_none (by rw [h.nbrs_size]; omega)]

theorem sp_deg_eq (s : Sparse) (h : s.WF) : s.deg = ((List.range s.n).map s.toG.deg).toArray := by
  apply Array.ext_getElem?
  intro i
  rw [sp_map_range_getElem?]
  by_cases hi : i < s.n
  · have e := sp_getElem?_some s.nbrs i (by rw [h.nbrs_size]; exact hi)
    rw [if_pos hi, h.deg_eq i _ e]
    unfold G.deg
    rw [sp_toG_nbrs s h i _ e]
  · rw [if_neg hi, Array.getElem?_eq_none (by rw [h.deg_size]; omega)]

theorem sp_m_eq (s : Sparse) (h : s.WF) : s.m = s.toG.m := by
  have h1 := h.m_eq
  have h2 := sp_handshake s.toG h.toG_wf
  have e : s.nbrs.toList.map List.length = (List.range s.toG.n).map s.toG.deg := by
    conv => lhs; rw [sp_nbrs_eq s h]
    rw [List.map_map]; rfl
  rw [e] at h1
  omega

/-- a well-formed sparse value is the canonical value of its own graph -/
theorem sparseOf_toG (s : Sparse) (h : s.WF) : sparseOf s.toG = s := by
  have e1 := sp_nbrs_eq s h
  have e2 := sp_deg_eq s h
  have e3 := sp_m_eq s h
  cases s with
  | mk n m nbrs deg =>
    simp only [sparseOf, Sparse.mk.injEq]
    exact ⟨rfl, e3.symm, e1.symm, e2.symm⟩

/-! ### the canonical value -/

theorem sp_sparseOf_nbrs (g : G) (v : Nat) (l : List Nat) (hl : (sparseOf g).nbrs[v]? = some l) :
    v < g.n ∧ l = g.nbrs v := by
  simp only [sparseOf, sp_map_range_getElem?] at hl
  by_cases hv : v < g.n
  · rw [if_pos hv] at hl; exact ⟨hv, (Option.some.inj hl).symm⟩
  · rw [if_neg hv] at hl; cases hl

theorem sp_mem_nbrs (g : G) (h : g.WF) (u v : Nat) : u ∈ g.nbrs v ↔ g.adj v u = true := by
  unfold G.nbrs
  rw [List.mem_filter, List.mem_range]
  constructor
  · exact fun hx => hx.2
  · exact fun hx => ⟨(h.supp v u hx).2, hx⟩

theorem sparseOf_wf (g : G) (h : g.WF) : (sparseOf g).WF where
  nbrs_size := by simp [sparseOf]
  deg_size := by simp [sparseOf]
  sorted := by
    intro v l hl
    obtain ⟨_, rfl⟩ := sp_sparseOf_nbrs g v l hl
    exact sp_filter_range_sorted _ _
  range := by
    intro v l hl u hu
    obtain ⟨_, rfl⟩ := sp_sparseOf_nbrs g v l hl
    rw [sp_mem_nbrs g h] at hu
    refine ⟨(h.supp v u hu).2, ?_⟩
    intro e; subst e; rw [h.irrefl] at hu; cases hu
  symm := by
    intro u v lu lv hu hv
    obtain ⟨_, rfl⟩ := sp_sparseOf_nbrs g u lu hu
    obtain ⟨_, rfl⟩ := sp_sparseOf_nbrs g v lv hv
    rw [sp_mem_nbrs g h, sp_mem_nbrs g h, h.symm]
  deg_eq := by
    intro v l hl
    obtain ⟨hv, rfl⟩ := sp_sparseOf_nbrs g v l hl
    simp only [sparseOf, sp_map_range_getElem?, if_pos hv]
    rfl
  m_eq := by
    have := sp_handshake g h
    simp only [sparseOf, List.map_map]
    rw [← this]; rfl

theorem sparseOf_adj (g : G) (h : g.WF) (u v : Nat) : (sparseOf g).toG.adj u v = g.adj u v := by
  rw [Bool.eq_iff_iff, sp_toG_adj_iff]
  constructor
  · rintro ⟨l, hl, hv⟩
    obtain ⟨_, rfl⟩ := sp_sparseOf_nbrs g u l hl
    exact (sp_mem_nbrs g h v u).1 hv
  · intro hc
    refine ⟨g.nbrs u, ?_, (sp_mem_nbrs g h v u).2 hc⟩
    simp only [sparseOf, sp_map_range_getElem?, if_pos (h.supp u v hc).1]

/-! ### what the encoders see of a `SparseGraph` -/

theorem sp_ok_beq (b : Bool) : ((Outcome.ok b : Outcome Bool) == .ok true) = b := by
  cases b <;> decide

theorem sp_isEdge_in (s : Sparse) (h : s.WF) (i j : Nat) (hi : i < s.n) (hj : j < s.n) :
    ∃ li lj, s.nbrs[i]? = some li ∧ s.nbrs[j]? = some lj ∧ s.isEdge i j = .ok (li.contains j) ∧
      li.contains j = lj.contains i := by
  obtain ⟨li, e1⟩ : ∃ li, s.nbrs[i]? = some li := ⟨_, sp_getElem?_some s.nbrs i (by rw [h.nbrs_size]; exact hi)⟩
  obtain ⟨lj, e2⟩ : ∃ lj, s.nbrs[j]? = some lj := ⟨_, sp_getElem?_some s.nbrs j (by rw [h.nbrs_size]; exact hj)⟩
  have d1 := h.deg_eq i _ e1
  have d2 := h.deg_eq j _ e2
  have hs := h.symm i j _ _ e1 e2
  have hc : li.contains j = lj.contains i := by
    rw [Bool.eq_iff_iff, List.contains_iff_mem, List.contains_iff_mem]; exact hs
  refine ⟨_, _, e1, e2, ?_, hc⟩
  unfold Sparse.isEdge
  simp only [d1, d2, e1, e2]
  split
  · rfl
  · rw [hc]

theorem sp_isEdge_out (s : Sparse) (h : s.WF) (i j : Nat) (hij : ¬ (i < s.n ∧ j < s.n)) :
    s.isEdge i j = .panic := by
  unfold Sparse.isEdge
  by_cases hi : i < s.n
  · have hj : ¬ j < s.n := fun hj => hij ⟨hi, hj⟩
    have e1 := sp_getElem?_some s.deg i (by rw [h.deg_size]; exact hi)
    have e2 : s.deg[j]? = none := Array.getElem?_eq_none (by rw [h.deg_size]; omega)
    simp only [e1, e2]
  · have e1 : s.deg[i]? = none := Array.getElem?_eq_none (by rw [h.deg_size]; omega)
    simp only [e1]

theorem ofSparse_toG_adj (s : Sparse) (h : s.WF) (u v : Nat) : (GI.ofSparse s).isEdge u v = s.toG.adj u v := by
  show (s.isEdge u v == .ok true) = s.toG.adj u v
  by_cases huv : u < s.n ∧ v < s.n
  · obtain ⟨lu, lv, e1, _, he, _⟩ := sp_isEdge_in s h u v huv.1 huv.2
    rw [he, sp_ok_beq]
    unfold Sparse.toG
    simp only [e1]
  · rw [sp_isEdge_out s h u v huv]
    show false = _
    symm
    rw [Bool.eq_false_iff]
    intro hc
    exact huv (h.toG_wf.supp u v hc)

theorem sp_ofSparse_toG (s : Sparse) (h : s.WF) : (GI.ofSparse s).toG = s.toG := by
  have : (GI.ofSparse s).isEdge = s.toG.adj := by
    funext u v; exact ofSparse_toG_adj s h u v
  unfold GI.toG
  rw [this]
  rfl

theorem ofSparse_toG_edges (s : Sparse) (h : s.WF) : (GI.ofSparse s).toG.edges = s.toG.edges := by
  rw [sp_ofSparse_toG s h]

/-- what the encoders see of a well-formed SparseGraph -/
theorem ofSparse_sound (s : Sparse) (h : s.WF) : (GI.ofSparse s).Sound where
  wf := by rw [sp_ofSparse_toG s h]; exact h.toG_wf
  nbrs_eq := by
    intro v hv
    have hv' : v < s.n := hv
    have e := sp_getElem?_some s.nbrs v (by rw [h.nbrs_size]; exact hv')
    rw [sp_ofSparse_toG s h, sp_toG_nbrs s h v _ e]
    show s.nbrs.getD v [] = _
    simp [Array.getD, h.nbrs_size, hv']
  deg_eq := by
    intro v hv
    have hv' : v < s.n := hv
    have e := sp_getElem?_some s.nbrs v (by rw [h.nbrs_size]; exact hv')
    have d := h.deg_eq v _ e
    rw [sp_ofSparse_toG s h]
    unfold G.deg
    rw [sp_toG_nbrs s h v _ e]
    show s.deg.getD v 0 = _
    have hd : v < s.deg.size := by rw [h.deg_size]; exact hv'
    rw [Array.getElem?_eq_getElem hd] at d
    simp only [Array.getD, hd, dite_true]
    exact Option.some.inj d
  m_eq := by
    rw [sp_ofSparse_toG s h]
    exact sp_m_eq s h

/-! ### `insertSorted`, `Sparse.addEdge` -/

theorem sp_mem_insertSorted (x y : Nat) (l : List Nat) : y ∈ insertSorted x l ↔ y = x ∨ y ∈ l := by
  induction l with
  | nil => simp [insertSorted]
  | cons z zs ih =>
    unfold insertSorted
    by_cases h1 : x < z
    · simp [h1]
    · by_cases h2 : x = z
      · subst h2; simp
      · simp only [h1, h2, if_false, List.mem_cons, ih]
        constructor
        · rintro (h | h | h) <;> simp [h]
        · rintro (h | h | h) <;> simp [h]

theorem sp_insertSorted_pairwise (x : Nat) (l : List Nat) (h : l.Pairwise (· < ·)) :
    (insertSorted x l).Pairwise (· < ·) := by
  induction l with
  | nil => simp [insertSorted]
  | cons z zs ih =>
    rw [List.pairwise_cons] at h
    unfold insertSorted
    by_cases h1 : x < z
    · simp only [h1, if_true]
      rw [List.pairwise_cons]
      refine ⟨?_, List.pairwise_cons.2 h⟩
      intro a ha
      rcases List.mem_cons.1 ha with e | e
      · omega
      · have := h.1 a e; omega
    · by_cases h2 : x = z
      · subst h2; simp only [Nat.lt_irrefl, if_false, if_true]; exact List.pairwise_cons.2 h
      · simp only [h1, h2, if_false]
        rw [List.pairwise_cons]
        refine ⟨?_, ih h.2⟩
        intro a ha
        rcases (sp_mem_insertSorted x a zs).1 ha with e | e
        · omega
        · exact h.1 a e

theorem sp_length_insertSorted (x : Nat) (l : List Nat) (h : x ∉ l) :
    (insertSorted x l).length = l.length + 1 := by
  induction l with
  | nil => simp [insertSorted]
  | cons z zs ih =>
    unfold insertSorted
    simp only [List.mem_cons, not_or] at h
    by_cases h1 : x < z
    · simp [h1]
    · simp [h1, h.1, ih h.2]

theorem sp_sum_map_set {α : Type} (f : α → Nat) (l : List α) (i : Nat) (x : α) (h : i < l.length) :
    ((l.set i x).map f).sum + f l[i] = (l.map f).sum + f x := by
  induction l generalizing i with
  | nil => simp at h
  | cons y ys ih =>
    cases i with
    | zero => simp; omega
    | succ j =>
      simp only [List.set_cons_succ, List.map_cons, List.sum_cons, List.getElem_cons_succ]
      have := ih j (by simpa using h)
      omega

theorem sp_newSparseNil_nbrs (n v : Nat) (l : List Nat) (h : (newSparseNil n).nbrs[v]? = some l) :
    v < n ∧ l = [] := by
  simp only [newSparseNil, Array.getElem?_replicate] at h
  by_cases hv : v < n
  · rw [if_pos hv] at h; exact ⟨hv, (Option.some.inj h).symm⟩
  · rw [if_neg hv] at h; cases h

theorem sp_newSparseNil_wf (n : Nat) : (newSparseNil n).WF where
  nbrs_size := by simp [newSparseNil]
  deg_size := by simp [newSparseNil]
  sorted := by
    intro v l h; obtain ⟨_, rfl⟩ := sp_newSparseNil_nbrs n v l h; exact List.Pairwise.nil
  range := by
    intro v l h; obtain ⟨_, rfl⟩ := sp_newSparseNil_nbrs n v l h; intro u hu; cases hu
  symm := by
    intro u v lu lv hu hv
    obtain ⟨_, rfl⟩ := sp_newSparseNil_nbrs n u lu hu
    obtain ⟨_, rfl⟩ := sp_newSparseNil_nbrs n v lv hv
    simp
  deg_eq := by
    intro v l h
    obtain ⟨hv, rfl⟩ := sp_newSparseNil_nbrs n v l h
    simp [newSparseNil, hv]
  m_eq := by
    simp [newSparseNil]

theorem sp_newSparseNil_adj (n u v : Nat) : (newSparseNil n).toG.adj u v = false := by
  rw [Bool.eq_false_iff]
  intro hc
  obtain ⟨l, hl, hv⟩ := (sp_toG_adj_iff _ u v).1 hc
  obtain ⟨_, rfl⟩ := sp_newSparseNil_nbrs n u l hl
  cases hv


/-- `AddEdge(i, j)` for a new edge inside the range: succeeds, keeps `WF` and `n`, adds exactly `{i, j}` -/
theorem sp_addEdge_new (g : Sparse) (h : g.WF) (i j : Nat) (hi : i < g.n) (hj : j < g.n) (hij : i ≠ j)
    (hnew : g.toG.adj i j = false) :
    ∃ g', g.addEdge i j = .ok g' ∧ g'.WF ∧ g'.n = g.n ∧ g'.m = g.m + 1 ∧
      ∀ u v, g'.toG.adj u v = true ↔ (g.toG.adj u v = true ∨ (u = i ∧ v = j) ∨ (u = j ∧ v = i)) := by
  unfold Sparse.addEdge
  simp only [hij, if_false]
  obtain ⟨li, lj, e1, e2, he1, hcc⟩ := sp_isEdge_in g h i j hi hj
  have hc : li.contains j = false := by
    have : g.toG.adj i j = li.contains j := by unfold Sparse.toG; simp only [e1]
    rw [← this]; exact hnew
  have hc2 : lj.contains i = false := by rw [← hcc]; exact hc
  have hji : j ∉ li := by intro hm; rw [← List.contains_iff_mem] at hm; rw [hm] at hc; cases hc
  have hil : i ∉ lj := by intro hm; rw [← List.contains_iff_mem] at hm; rw [hm] at hc2; cases hc2
  have hi' : i < g.nbrs.size := by rw [h.nbrs_size]; exact hi
  have hj' : j < g.nbrs.size := by rw [h.nbrs_size]; exact hj
  have hdi : i < g.deg.size := by rw [h.deg_size]; exact hi
  have hdj : j < g.deg.size := by rw [h.deg_size]; exact hj
  have n1 : (g.nbrs.setIfInBounds i (insertSorted j li))[j]? = some lj := by
    rw [Array.getElem?_setIfInBounds]; simp only [hij, if_false]; exact e2
  have d1 := h.deg_eq i _ e1
  have d2 := h.deg_eq j _ e2
  have gi : g.deg[i] = li.length := by
    rw [Array.getElem?_eq_getElem hdi] at d1; exact Option.some.inj d1
  have gj' : (g.deg.setIfInBounds i (li.length + 1))[j]? = some lj.length := by
    rw [Array.getElem?_setIfInBounds]; simp only [hij, if_false]; exact d2
  have hdj2 : j < (g.deg.setIfInBounds i (li.length + 1)).size := by
    rw [Array.size_setIfInBounds]; exact hdj
  have gj : (g.deg.setIfInBounds i (li.length + 1))[j] = lj.length := by
    rw [Array.getElem?_eq_getElem hdj2] at gj'; exact Option.some.inj gj'
  rw [he1, hc]
  simp only [e1, e2, n1, incr_ok hdi, gi, incr_ok hdj2, gj]
  -- characterisation of the new neighbour lists
  have key : ∀ (v : Nat) (l : List Nat),
      ((g.nbrs.setIfInBounds i (insertSorted j li)).setIfInBounds j (insertSorted i lj))[v]? = some l →
      (v = j ∧ l = insertSorted i lj) ∨ (v = i ∧ l = insertSorted j li) ∨ (v ≠ i ∧ v ≠ j ∧ g.nbrs[v]? = some l) := by
    intro v l hv
    rw [Array.getElem?_setIfInBounds, Array.size_setIfInBounds] at hv
    by_cases hvj : j = v
    · subst hvj
      simp only [if_true, hj'] at hv
      left; exact ⟨rfl, (Option.some.inj hv).symm⟩
    · simp only [hvj, if_false] at hv
      rw [Array.getElem?_setIfInBounds] at hv
      by_cases hvi : i = v
      · subst hvi
        simp only [if_true, hi'] at hv
        right; left; exact ⟨rfl, (Option.some.inj hv).symm⟩
      · simp only [hvi, if_false] at hv
        right; right; exact ⟨fun e => hvi e.symm, fun e => hvj e.symm, hv⟩
  -- membership in the new lists
  have memk : ∀ (u v : Nat) (l : List Nat),
      ((g.nbrs.setIfInBounds i (insertSorted j li)).setIfInBounds j (insertSorted i lj))[u]? = some l →
      ∃ l0, g.nbrs[u]? = some l0 ∧ (v ∈ l ↔ (v ∈ l0 ∨ (u = i ∧ v = j) ∨ (u = j ∧ v = i))) := by
    intro u v l hu
    rcases key u l hu with ⟨e, el⟩ | ⟨e, el⟩ | ⟨ne1, ne2, el⟩
    · subst e; subst el
      refine ⟨lj, e2, ?_⟩
      rw [sp_mem_insertSorted]
      constructor
      · rintro (h | h)
        · right; right; exact ⟨rfl, h⟩
        · left; exact h
      · rintro (h | ⟨h, _⟩ | ⟨_, h⟩)
        · right; exact h
        · exact absurd h.symm hij
        · left; exact h
    · subst e; subst el
      refine ⟨li, e1, ?_⟩
      rw [sp_mem_insertSorted]
      constructor
      · rintro (h | h)
        · right; left; exact ⟨rfl, h⟩
        · left; exact h
      · rintro (h | ⟨_, h⟩ | ⟨h, _⟩)
        · right; exact h
        · left; exact h
        · exact absurd h hij
    · refine ⟨l, el, ?_⟩
      constructor
      · intro h; left; exact h
      · rintro (h | ⟨h, _⟩ | ⟨h, _⟩)
        · exact h
        · exact absurd h ne1
        · exact absurd h ne2
  refine ⟨_, rfl, ⟨?_, ?_, ?_, ?_, ?_, ?_, ?_⟩, rfl, rfl, ?_⟩
  · simp [Array.size_setIfInBounds, h.nbrs_size]
  · simp [Array.size_setIfInBounds, h.deg_size]
  · intro v l hv
    rcases key v l hv with ⟨_, el⟩ | ⟨_, el⟩ | ⟨_, _, el⟩
    · rw [el]; exact sp_insertSorted_pairwise _ _ (h.sorted j lj e2)
    · rw [el]; exact sp_insertSorted_pairwise _ _ (h.sorted i li e1)
    · exact h.sorted v l el
  · intro v l hv u hu
    obtain ⟨l0, hl0, hm⟩ := memk v u l hv
    rcases (hm.1 hu) with h1 | ⟨h1, h2⟩ | ⟨h1, h2⟩
    · exact h.range v l0 hl0 u h1
    · subst h1; subst h2; exact ⟨hj, fun e => hij e.symm⟩
    · subst h1; subst h2; exact ⟨hi, hij⟩
  · intro u v lu lv hu hv
    obtain ⟨l0, hl0, hm⟩ := memk u v lu hu
    obtain ⟨l1, hl1, hm1⟩ := memk v u lv hv
    rw [hm, hm1, h.symm u v l0 l1 hl0 hl1]
    constructor
    · rintro (h | ⟨h, h'⟩ | ⟨h, h'⟩)
      · left; exact h
      · right; right; exact ⟨h', h⟩
      · right; left; exact ⟨h', h⟩
    · rintro (h | ⟨h, h'⟩ | ⟨h, h'⟩)
      · left; exact h
      · right; right; exact ⟨h', h⟩
      · right; left; exact ⟨h', h⟩
  · intro v l hv
    show ((g.deg.setIfInBounds i (li.length + 1)).setIfInBounds j (lj.length + 1))[v]? = some l.length
    rw [Array.getElem?_setIfInBounds, Array.size_setIfInBounds, Array.getElem?_setIfInBounds]
    rcases key v l hv with ⟨e, el⟩ | ⟨e, el⟩ | ⟨ne1, ne2, el⟩
    · subst e; subst el
      simp only [if_true, hdj, sp_length_insertSorted _ _ hil]
    · subst e; subst el
      have hne : ¬ j = v := fun e => hij e.symm
      simp only [if_true, hdi, sp_length_insertSorted _ _ hji, hne, if_false]
    · have hn1 : ¬ j = v := fun e => ne2 e.symm
      have hn2 : ¬ i = v := fun e => ne1 e.symm
      simp only [hn1, hn2, if_false]
      exact h.deg_eq v l el
  · show 2 * (g.m + 1) = _
    rw [Array.toList_setIfInBounds, Array.toList_setIfInBounds]
    have hl1 : i < g.nbrs.toList.length := by simpa using hi'
    have hl2 : j < (g.nbrs.toList.set i (insertSorted j li)).length := by simpa using hj'
    have s1 := sp_sum_map_set List.length g.nbrs.toList i (insertSorted j li) hl1
    have s2 := sp_sum_map_set List.length (g.nbrs.toList.set i (insertSorted j li)) j (insertSorted i lj) hl2
    have g1 : g.nbrs.toList[i] = li := by
      have := e1; rw [← Array.getElem?_toList, List.getElem?_eq_getElem hl1] at this; exact Option.some.inj this
    have g2 : (g.nbrs.toList.set i (insertSorted j li))[j] = lj := by
      rw [List.getElem_set_ne hij]
      have := e2; rw [← Array.getElem?_toList, List.getElem?_eq_getElem (by simpa using hj')] at this
      exact Option.some.inj this
    rw [g1, sp_length_insertSorted _ _ hji] at s1
    rw [g2, sp_length_insertSorted _ _ hil] at s2
    have := h.m_eq
    omega
  · intro u v
    rw [sp_toG_adj_iff, sp_toG_adj_iff]
    constructor
    · rintro ⟨l, hl, hv⟩
      obtain ⟨l0, hl0, hm⟩ := memk u v l hl
      rcases hm.1 hv with h1 | h1 | h1
      · left; exact ⟨l0, hl0, h1⟩
      · right; left; exact h1
      · right; right; exact h1
    · intro hx
      have hu : u < g.n := by
        rcases hx with ⟨l0, hl0, _⟩ | ⟨e, _⟩ | ⟨e, _⟩
        · have := sp_lt_of_getElem? hl0; rw [h.nbrs_size] at this; exact this
        · rw [e]; exact hi
        · rw [e]; exact hj
      have hsz : u < ((g.nbrs.setIfInBounds i (insertSorted j li)).setIfInBounds j (insertSorted i lj)).size := by
        rw [Array.size_setIfInBounds, Array.size_setIfInBounds, h.nbrs_size]; exact hu
      have e := sp_getElem?_some _ u hsz
      obtain ⟨l0, hl0, hm⟩ := memk u v _ e
      refine ⟨_, e, hm.2 ?_⟩
      rcases hx with ⟨l1, hl1, hv1⟩ | hx | hx
      · rw [hl0] at hl1; cases hl1; left; exact hv1
      · right; left; exact hx
      · right; right; exact hx

/-! ### `addEdges` -/

theorem sp_addEdges_gen (n : Nat) : ∀ (es : List (Nat × Nat)) (s : Sparse), s.WF → s.n = n → es.Nodup →
    (∀ p ∈ es, p.1 < p.2 ∧ p.2 < n) → (∀ p ∈ es, s.toG.adj p.1 p.2 = false) →
    ∃ s', addEdges s es = .ok s' ∧ s'.WF ∧ s'.n = n ∧ s'.m = s.m + es.length ∧
      ∀ u v, s'.toG.adj u v = true ↔ (s.toG.adj u v = true ∨ (u, v) ∈ es ∨ (v, u) ∈ es) := by
  intro es
  induction es with
  | nil =>
    intro s h hn _ _ _
    exact ⟨s, rfl, h, hn, rfl, by simp⟩
  | cons p ps ih =>
    intro s h hn hnd hr hnew
    rw [List.nodup_cons] at hnd
    have hp := hr p (by simp)
    have hnp : s.toG.adj p.2 p.1 = false := by
      rw [h.toG_wf.symm]; exact hnew p (by simp)
    obtain ⟨s1, h1, hwf1, hn1, hm1, hadj1⟩ :=
      sp_addEdge_new s h p.2 p.1 (by rw [hn]; exact hp.2) (by rw [hn]; omega) (by omega) hnp
    obtain ⟨s', h2, hwf2, hn2, hm2, hadj2⟩ := ih s1 hwf1 (hn1.trans hn) hnd.2
      (fun q hq => hr q (List.mem_cons_of_mem _ hq)) (by
        intro q hq
        rw [Bool.eq_false_iff]
        intro hc
        rcases (hadj1 q.1 q.2).1 hc with hx | ⟨hx, hy⟩ | ⟨hx, hy⟩
        · rw [hnew q (List.mem_cons_of_mem _ hq)] at hx; cases hx
        · have := (hr q (List.mem_cons_of_mem _ hq)).1; omega
        · exact hnd.1 (by rw [show p = q from Prod.ext hx.symm hy.symm]; exact hq))
    refine ⟨s', ?_, hwf2, hn2, ?_, ?_⟩
    · unfold addEdges at h2 ⊢
      rw [List.foldlM_cons]
      show (s.addEdge p.2 p.1 >>= fun b => List.foldlM _ b ps) = _
      rw [h1]; exact h2
    · rw [hm2, hm1, List.length_cons]; omega
    · intro u v
      rw [hadj2, hadj1]
      simp only [List.mem_cons, Prod.ext_iff]
      constructor
      · rintro ((hx | ⟨hx, hy⟩ | ⟨hx, hy⟩) | hx | hx)
        · left; exact hx
        · right; right; left; exact ⟨hy, hx⟩
        · right; left; left; exact ⟨hx, hy⟩
        · right; left; right; exact hx
        · right; right; right; exact hx
      · rintro (hx | (⟨hx, hy⟩ | hx) | (⟨hx, hy⟩ | hx))
        · left; left; exact hx
        · left; right; right; exact ⟨hx, hy⟩
        · right; left; exact hx
        · left; right; left; exact ⟨hy, hx⟩
        · right; right; exact hx

/-- adding the edges of g (in the order of `G.edges`) to the empty sparse graph yields the canonical value -/
theorem addEdges_edges (g : G) (h : g.WF) : addEdges (newSparseNil g.n) g.edges = .ok (sparseOf g) := by
  obtain ⟨s', h1, hwf, hn, _, hadj⟩ := sp_addEdges_gen g.n g.edges (newSparseNil g.n) (sp_newSparseNil_wf _) rfl
    (edges_nodup g) (fun p hp => by
      have := (edges_mem g p.1 p.2).1 hp
      exact ⟨this.1, this.2.1⟩) (fun p _ => sp_newSparseNil_adj _ _ _)
  have hg : s'.toG = g := by
    have ha : s'.toG.adj = g.adj := by
      funext u v
      rw [Bool.eq_iff_iff, hadj, sp_newSparseNil_adj, edges_mem, edges_mem]
      constructor
      · rintro (hx | hx | hx)
        · cases hx
        · exact hx.2.2
        · rw [h.symm]; exact hx.2.2
      · intro hx
        have hs := h.supp u v hx
        rcases Nat.lt_trichotomy u v with hlt | heq | hgt
        · right; left; exact ⟨hlt, hs.2, hx⟩
        · subst heq; rw [h.irrefl] at hx; cases hx
        · right; right; exact ⟨hgt, hs.1, by rw [h.symm]; exact hx⟩
    have hn' : s'.toG.n = g.n := hn
    cases g with
    | mk n adj =>
      cases hs : s'.toG with
      | mk n' adj' =>
        rw [hs] at ha hn'
        simp only at ha hn'
        rw [ha, hn']
  rw [h1, ← sparseOf_toG s' hwf, hg]

end Codec
