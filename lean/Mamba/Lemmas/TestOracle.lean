import Mamba.Lemmas.BridgeSpec
namespace Search
open GraphSpec GSearch

/-- a brute-force canonical-labelling oracle for tiny graphs (test helper; kernel-evaluable): the permutation of
minimal relabelled edge code, all automorphisms as generators, their orbits as a `disjoint.Set` -/
def bfOracle : Oracle := fun nv _ne rows _vb =>
  let g : G := { n := nv, adj := fun u v => (rows.getD u []).contains v }
  let ps := perms nv
  let best := ps.foldl (fun (b : List Nat) p => if relabelCode g p < relabelCode g b then p else b) (List.range nv)
  let auts := (ps.filter fun p => (pairs nv).all fun uv =>
      g.adj (p.getD uv.1 0) (p.getD uv.2 0) == g.adj uv.1 uv.2).map List.toArray
  .ok (some { perm := best.toArray, orbits := orbitDS nv auts, gens := auts })

/-- the graphs the model yields with `bfOracle` -/
def bfLevel (n : Nat) : List G :=
  match exhaust bfOracle noPrune noPrune 2000 50 (init n 0 1) with
  | .ok (o, _) => o.map DG.toG
  | _ => []

end Search
