import Mamba.Lemmas.IRIso

namespace IR
open Finset

/-- `c` refines `c0` monotonically on `0..n-1` -/
def Mono (n : Nat) (c0 c : Array Nat) : Prop := ∀ u v, u < n → v < n → col c0 u < col c0 v → col c u < col c v

theorem Mono.trans {n : Nat} {a b c : Array Nat} (h1 : Mono n a b) (h2 : Mono n b c) : Mono n a c :=
  fun u v hu hv h => h2 u v hu hv (h1 u v hu hv h)

theorem pass_mono {g : G} (hg : WF g) (s : St) (i : Nat) (rest : List Nat) : Mono g.n s.c (pass g s i rest).c := by
  intro u v hu hv h
  rw [pass_col s i rest hu, pass_col s i rest hv]
  apply rank_lt_rank (key_mem s.c i hu)
  unfold key
  have h1 := cnt_le hg s.c i hu
  have : (col s.c u + 1) * (g.n + 1) ≤ col s.c v * (g.n + 1) := Nat.mul_le_mul_right _ h
  rw [Nat.add_mul] at this
  omega

theorem refine_mono {g : G} (hg : WF g) (fuel : Nat) : ∀ s : St, Mono g.n s.c (refine g fuel s).c := by
  induction fuel with
  | zero => intro s u v _ _ h; exact h
  | succ f ih =>
    intro s
    unfold refine
    cases hp : popMax s.work with
    | none => intro u v _ _ h; exact h
    | some p => obtain ⟨i, rest⟩ := p; exact (pass_mono hg s i rest).trans (ih _)

theorem ind_mono {g : G} (s : St) {t v : Nat} (hv : col s.c v = t) : Mono g.n s.c (individualise g s t v).c := by
  intro u w hu hw h
  rw [ind_col s t v hu, ind_col s t v hw]
  by_cases e1 : u = v <;> by_cases e2 : w = v
  · subst e1; subst e2; omega
  · rw [if_pos e1, if_neg e2]; subst e1; split_ifs <;> omega
  · rw [if_neg e1, if_pos e2]; subst e2; split_ifs <;> omega
  · rw [if_neg e1, if_neg e2]; split_ifs <;> omega

theorem leaves_mono {g : G} (hg : WF g) (rf fuel : Nat) : ∀ (s : St), ∀ l ∈ leaves g rf fuel s, Mono g.n s.c l := by
  induction fuel with
  | zero =>
    intro s l hl
    simp only [leaves, List.mem_singleton] at hl
    subst hl
    exact fun _ _ _ _ h => h
  | succ f ih =>
    intro s l hl
    unfold leaves at hl
    cases ht : target g s with
    | none =>
      rw [ht] at hl
      simp only [List.mem_singleton] at hl
      subst hl
      exact fun _ _ _ _ h => h
    | some t =>
      rw [ht] at hl
      simp only [List.mem_flatMap] at hl
      obtain ⟨v, hv, hl⟩ := hl
      exact ((ind_mono s (mem_cellMembers.1 hv).2).trans (refine_mono hg rf _)).trans (ih _ l hl)

theorem allLeaves_mono {g : G} (hg : WF g) (s : St) : ∀ l ∈ allLeaves g s, Mono g.n s.c l := by
  intro l hl
  exact (refine_mono hg _ s).trans (leaves_mono hg _ _ _ l hl)

/-- position bounds of a monotone permutation -/
theorem mono_lower {n : Nat} {c0 l : Array Nat} (hp : IsPerm n l) (hm : Mono n c0 l) {v : Nat} (hv : v < n) :
    ((Finset.range n).filter (fun u => col c0 u < col c0 v)).card ≤ col l v := by
  have := Finset.card_le_card_of_injOn (s := (Finset.range n).filter (fun u => col c0 u < col c0 v))
    (t := Finset.range (col l v)) (col l)
    (by
      intro u hu
      simp only [Finset.coe_filter, Finset.mem_range, Set.mem_ofPred_eq] at hu
      simp only [Finset.coe_range, Set.mem_Iio]
      exact hm u v hu.1 hv hu.2)
    (by
      intro a ha b hb e
      simp only [Finset.coe_filter, Finset.mem_range, Set.mem_ofPred_eq] at ha hb
      exact hp.2 a b ha.1 hb.1 e)
  simpa using this

theorem mono_upper {n : Nat} {c0 l : Array Nat} (hp : IsPerm n l) (hm : Mono n c0 l) {v : Nat} (hv : v < n) :
    col l v + ((Finset.range n).filter (fun u => col c0 v < col c0 u)).card + 1 ≤ n := by
  have := Finset.card_le_card_of_injOn (s := (Finset.range n).filter (fun u => col c0 v < col c0 u))
    (t := (Finset.range n).filter (fun p => col l v < p)) (col l)
    (by
      intro u hu
      simp only [Finset.coe_filter, Finset.mem_range, Set.mem_ofPred_eq] at hu ⊢
      exact ⟨hp.1 u hu.1, hm v u hv hu.1 hu.2⟩)
    (by
      intro a ha b hb e
      simp only [Finset.coe_filter, Finset.mem_range, Set.mem_ofPred_eq] at ha hb
      exact hp.2 a b ha.1 hb.1 e)
  have h2 : ((Finset.range n).filter (fun p => col l v < p)).card + (col l v + 1) ≤ n := by
    have hdisj : Disjoint ((Finset.range n).filter (fun p => col l v < p)) (Finset.range (col l v + 1)) := by
      rw [Finset.disjoint_left]
      intro x hx hx'
      simp only [Finset.mem_filter, Finset.mem_range] at hx hx'
      omega
    have hsub : (Finset.range n).filter (fun p => col l v < p) ∪ Finset.range (col l v + 1) ⊆ Finset.range n := by
      intro x hx
      simp only [Finset.mem_union, Finset.mem_filter, Finset.mem_range] at hx ⊢
      have := hp.1 v hv
      omega
    have := Finset.card_le_card hsub
    rw [Finset.card_union_of_disjoint hdisj] at this
    simpa using this
  omega

/-- two monotone permutations put a vertex of a smaller class strictly before a vertex of a larger class, so
`ℓ (γ v) = ℓ₀ v` forces `γ v` and `v` into the same class -/
theorem same_class_of_leaves {n : Nat} {c0 l0 l : Array Nat} (hp0 : IsPerm n l0) (hp : IsPerm n l)
    (hm0 : Mono n c0 l0) (hm : Mono n c0 l) {v x : Nat} (hv : v < n) (hx : x < n) (e : col l x = col l0 v) :
    col c0 x = col c0 v := by
  rcases Nat.lt_trichotomy (col c0 x) (col c0 v) with h | h | h
  · exfalso
    -- A_v ∪ B_x = range n
    have h1 := mono_lower hp0 hm0 hv
    have h2 := mono_upper hp hm hx
    have hcov : Finset.range n ⊆ (Finset.range n).filter (fun u => col c0 u < col c0 v) ∪
        (Finset.range n).filter (fun u => col c0 x < col c0 u) := by
      intro u hu
      simp only [Finset.mem_union, Finset.mem_filter]
      by_cases hh : col c0 u < col c0 v
      · exact Or.inl ⟨hu, hh⟩
      · exact Or.inr ⟨hu, by omega⟩
    have := (Finset.card_le_card hcov).trans (Finset.card_union_le _ _)
    simp only [Finset.card_range] at this
    omega
  · exact h
  · exfalso
    have h1 := mono_lower hp hm hx
    have h2 := mono_upper hp0 hm0 hv
    have hcov : Finset.range n ⊆ (Finset.range n).filter (fun u => col c0 u < col c0 x) ∪
        (Finset.range n).filter (fun u => col c0 v < col c0 u) := by
      intro u hu
      simp only [Finset.mem_union, Finset.mem_filter]
      by_cases hh : col c0 u < col c0 x
      · exact Or.inl ⟨hu, hh⟩
      · exact Or.inr ⟨hu, by omega⟩
    have := (Finset.card_le_card hcov).trans (Finset.card_union_le _ _)
    simp only [Finset.card_range] at this
    omega

/-- the automorphisms read off the leaves preserve the start colouring (the vertex classes) -/
theorem autGroupFrom_classes {g : G} (hg : WF g) {s : St} (hw : s.work ≠ []) {a : Array Nat} (ha : a ∈ autGroupFrom g s)
    {v : Nat} (hv : v < g.n) : col s.c (col a v) = col s.c v := by
  unfold autGroupFrom at ha
  cases hls : allLeaves g s with
  | nil => rw [hls] at ha; cases ha
  | cons l0 ls =>
    rw [hls] at ha
    obtain ⟨l, hl, rfl⟩ := List.mem_map.1 ha
    obtain ⟨hl1, _⟩ := mem_sameCertLeaves.1 hl
    have h0 : l0 ∈ allLeaves g s := by rw [hls]; exact List.mem_cons_self ..
    rw [← hls] at hl1
    have p0 := allLeaves_perm hg hw l0 h0
    have p := allLeaves_perm hg hw l hl1
    rw [autOf_col p0 hv]
    have hr := inv_right p (p0.1 v hv)
    exact same_class_of_leaves p0 p (allLeaves_mono hg s l0 h0) (allLeaves_mono hg s l hl1) hv hr.1 hr.2

end IR
