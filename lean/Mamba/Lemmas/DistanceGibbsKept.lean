import Mamba.Lemmas.DistanceGibbsStage
/-!
# Gibbs' selection: everything kept in `S` is a single simple cycle
-/
namespace GDist
open GraphSpec Model

variable {a : G}

theorem gibbsLoop_good {pst : PatonSt} {nt : List (Nat × Nat)} (F : PFinal a pst nt)
    (hsym : ∀ u v, a.adj u v = a.adj v u) (hirr : ∀ v, a.adj v v = false) :
    ∀ (fcs : List (List Nat)) (st : GibbsSt) (Fp : List (List Nat)), pst.fund = Fp ++ fcs → QInv Fp st.Q →
      (∀ t ∈ st.Q, EvenSet a.n t) → (∀ V ∈ st.S, IsCycCode a V) →
      ∀ gs, gibbsLoop fcs st = .ok gs → ∀ V ∈ gs.S, IsCycCode a V := by
  intro fcs
  induction fcs with
  | nil =>
    intro st Fp _ _ _ hS gs hres
    simp only [gibbsLoop] at hres
    cases hres; exact hS
  | cons fc fcs ih =>
    intro st Fp hfund hq hqe hS gs hres
    have hfcm : fc ∈ pst.fund := by rw [hfund]; simp
    have hfcc : IsCycCode a fc := F.o.fund fc hfcm
    unfold gibbsLoop at hres
    simp only at hres
    split at hres
    · next R' P' hstep =>
      have hmm : (st.Q.map fun t => (t, sXor t fc)).map (·.2) = st.Q.map fun t => sXor t fc := by
        rw [List.map_map]; rfl
      have hq' : QInv (Fp ++ [fc]) (st.Q ++ (st.Q.map fun t => (t, sXor t fc)).map (·.2) ++ [fc]) := by
        rw [hmm]; exact qinv_step hq (isCycCode_strict hfcc)
      have hqe' : ∀ t ∈ st.Q ++ (st.Q.map fun t => (t, sXor t fc)).map (·.2) ++ [fc], EvenSet a.n t := by
        intro t ht
        simp only [List.mem_append, List.mem_map, List.mem_singleton] at ht
        rcases ht with (ht | ⟨p, ⟨t0, ht0, rfl⟩, rfl⟩) | rfl
        · exact hqe t ht
        · exact even_sXor (hqe t0 ht0) (isCycCode_even hfcc)
        · exact isCycCode_even hfcc
      refine ih _ (Fp ++ [fc]) (by rw [hfund]; simp) hq' hqe' ?_ gs hres
      -- the new `S`
      have hR0 : ∀ V, V ∈ (((st.Q.map fun t => (t, sXor t fc)).filter
            fun (p : List Nat × List Nat) => p.2.length != p.1.length + fc.length).map (·.2)) ↔
          ∃ t ∈ st.Q, V = sXor t fc ∧ (sXor t fc).length ≠ t.length + fc.length := by
        intro V
        simp only [List.mem_map, List.mem_filter, bne_iff_ne, ne_eq]
        constructor
        · rintro ⟨p, ⟨⟨t, ht, rfl⟩, hc⟩, rfl⟩
          exact ⟨t, ht, rfl, hc⟩
        · rintro ⟨t, ht, rfl, hc⟩
          exact ⟨(t, sXor t fc), ⟨⟨t, ht, rfl⟩, hc⟩, rfl⟩
      obtain ⟨hs0, hC⟩ := gibbs_stage F hsym hirr hfund hq hqe hR0
      generalize (((st.Q.map fun t => (t, sXor t fc)).filter
            fun (p : List Nat × List Nat) => p.2.length != p.1.length + fc.length).map (·.2)) = R0
        at hstep hR0 hs0 hC
      intro V hV
      simp only [List.mem_append, List.mem_singleton] at hV
      rcases hV with (hV | hV) | hV
      · exact hS V hV
      · have := gibbsStep3_kept (IsCycCode a) R0 hs0 hC R0.length R0.toArray [] R' P' (by simp)
          (fun k hk => by
            have hk' : k < R0.length := by simpa using hk
            have : R0.toArray[k] = R0[k] := by simp
            rw [this]; exact List.getElem_mem hk') (fun W hW => by
            obtain ⟨k, hk, hkW⟩ := List.getElem_of_mem hW
            refine ⟨k, by simpa using hk, fun x hx => ?_⟩
            have : R0.toArray[k]'(by simpa using hk) = W := by simpa using hkW
            rw [this] at hx; exact hx) hstep V hV
        rcases this with ⟨k, hk, hjk, _⟩ | hg
        · simp at hk hjk; omega
        · exact hg
      · rw [hV]; exact hfcc
    · cases hres
    · cases hres

/-- **everything Gibbs' loop keeps in `S` is the sorted edge-code list of a simple cycle of the block** -/
theorem gibbs_kept_cycle (a : G) (hsym : ∀ u v, a.adj u v = a.adj v u) (hirr : ∀ v, a.adj v v = false)
    (hn : 0 < a.n) (hconn : ∀ x, x < a.n → Reach a 0 x) (fuel : Nat) (st : PatonSt)
    (hres : patonLoop a fuel (patonInit a.n) = .ok st)
    (f0 : List Nat) (fs : List (List Nat)) (hfund : st.fund = f0 :: fs) (gs : GibbsSt)
    (hg : gibbsLoop fs { S := [f0], Q := [f0] } = .ok gs) :
    ∀ V ∈ gs.S, IsCycCode a V ∧ V.length ≤ a.n := by
  obtain ⟨nt, F⟩ := paton_final a hsym hirr hn hconn fuel st hres
  have h0 : IsCycCode a f0 := F.o.fund f0 (by rw [hfund]; simp)
  have hgood := gibbsLoop_good F hsym hirr fs _ [f0] (by rw [hfund]; rfl) (qinv_init (isCycCode_strict h0))
    (fun t ht => by simp at ht; subst ht; exact isCycCode_even h0)
    (fun V hV => by simp at hV; subst hV; exact h0) gs hg
  intro V hV
  have hc := hgood V hV
  refine ⟨hc, ?_⟩
  obtain ⟨c, ⟨_, hnd, hn', _, _⟩, rfl⟩ := hc
  have hlen : (sortInts (cycCodes c)).length = c.length := by
    have h1 : (sortInts (cycCodes c)).length = (cycCodes c).length := by
      unfold sortInts; exact (List.mergeSort_perm _ _).length_eq
    have h2 : ∀ p : List Nat, (pathCodes p).length = p.length - 1 := by
      intro p
      induction p with
      | nil => rfl
      | cons x q ih =>
        cases q with
        | nil => rfl
        | cons y r => simp only [pathCodes, List.length_cons] at ih ⊢; omega
    rw [h1]; unfold cycCodes
    simp only [List.length_cons, h2]
    have : c ≠ [] := by intro h; subst h; simp at *
    have := List.length_pos_iff.2 this
    omega
  rw [hlen]
  have : c.Subperm (List.range a.n) := List.subperm_of_subset hnd (fun x hx => List.mem_range.2 (hn' x hx))
  simpa using this.length_le

end GDist
