import Mamba.Lemmas.DistanceBiconBlk4
/-!
# The invariant on `bicoms` / `out` along the whole DFS of one component
-/
namespace GDist
open GraphSpec Model

variable {h : G} {com : List Nat} {out0 : List (List Nat)} {st : BicSt} {tp : Nat → Nat} {cs : List Nat}

/-- blocks already described stay described when a vertex is popped -/
theorem isBlk_pop (dt : DT h st tp) {v : Nat} {rest c2 : List Nat} {t : Int} {bs : List (List Nat)}
    (hstk : st.toCheck = v :: rest) {S : List Nat} {c : Nat} (hb : IsBlk h com st tp S c) :
    IsBlk h com (popSt st v rest t bs c2) tp S c := by
  have hvs : v ∈ st.toCheck := by rw [hstk]; exact List.mem_cons_self
  obtain ⟨hvn, hvv⟩ := dt.svis v hvs
  have hvL : v < st.low.size := by rw [dt.ok.lsz]; exact hvn
  have hl : ∀ x, lo (popSt st v rest t bs c2) x = if x = v then t else lo st x := lo_popSt rest t bs c2 hvL
  have hsub : ∀ y, y ∈ rest → y ∈ st.toCheck := fun y hy => by rw [hstk]; exact List.mem_cons_of_mem _ hy
  have hA : ∀ a z, z < h.n → bvis st z → (Anc tp a z ↔ Anc tp a z) := fun _ _ _ _ => Iff.rfl
  have hL : ∀ z, z < h.n → bvis st z → z ∉ st.toCheck → z ≠ 0 →
      lo (popSt st v rest t bs c2) z = lo st z ∧ dI (popSt st v rest t bs c2) (tp z) = dI st (tp z) := by
    intro z _ _ hzs _
    have hzv : z ≠ v := fun h0 => hzs (h0 ▸ hvs)
    exact ⟨by rw [hl]; simp [hzv], rfl⟩
  have hNL : ∀ x y, x ∉ st.toCheck → y < h.n → bvis st y →
      (NL (popSt st v rest t bs c2) tp x y ↔ NL st tp x y) :=
    fun x y hxs hy hyv => NL_congr dt hA hL (fun z hz _ => dt.sub_finished hxs hz) hy hyv
  obtain ⟨⟨hc, hcv, hcs, hc0⟩, hS, hmem⟩ := hb
  refine ⟨⟨hc, hcv, fun hm' => hcs (hsub c hm'), hc0⟩, hS, fun w => ?_⟩
  rw [hmem w]
  constructor
  · rintro ⟨y, hy, hyv, hyw, hor⟩
    refine ⟨y, hy, hyv, hyw, ?_⟩
    rcases hor with h0 | h0
    · exact .inl h0
    · exact .inr ((hNL c y hcs hy hyv).2 h0)
  · rintro ⟨y, hy, hyv, hyw, hor⟩
    refine ⟨y, hy, hyv, hyw, ?_⟩
    rcases hor with h0 | h0
    · exact .inl h0
    · exact .inr ((hNL c y hcs hy hyv).1 h0)

/-- the scan invariant of `dtla_step` across an emitted block -/
theorem scanP2_emit (com : List Nat) (hirr : ∀ v, h.adj v v = false) {v u : Nat} {rest us cur : List Nat}
    {st1 : BicSt} {t : Int} (hP : ScanP2 h tp v rest (u :: us) st1 t) (huv : bvis st1 u)
    (hpar : (u : Int) ≠ pa st1 v) (hv0 : v ≠ 0) (hpu : pa st1 u = (v : Int)) (hlu : lo st1 u ≥ dI st1 v) :
    ScanP2 h tp v rest us (emitSt com st1 v u cur) (minI (lo st1 u) t) ∧
      u < h.n ∧ u ≠ 0 ∧ u ∉ st1.toCheck := by
  have hvs : v ∈ st1.toCheck := by rw [hP.stk]; exact List.mem_cons_self
  obtain ⟨hvn, hvv⟩ := hP.dt.svis v hvs
  obtain ⟨hun, hadj⟩ := hP.usn u List.mem_cons_self
  have hunot := emit_not_on_stack hirr hP.dt hP.stk hv0 hadj hpu
  have hu0 : u ≠ 0 := by
    intro h0; subst h0
    have := hP.dt.pa0; rw [hpu] at this; omega
  have huP : u < st1.parents.size := by rw [hP.dt.ok.psz]; exact hun
  have hvu : v ≠ u := fun h0 => hunot (by rw [hP.stk, ← h0]; exact List.mem_cons_self)
  have hpa' : ∀ x, pa (emitSt com st1 v u cur) x = if x = u then -1 else pa st1 x := pa_emitSt com huP
  have hpav : pa (emitSt com st1 v u cur) v = pa st1 v := by rw [hpa']; simp [hvu]
  refine ⟨{ dt := dt_emit com hP.dt hun hu0 hunot,
            la := la_emit com hP.dt hP.la hvn hun huv hu0 hunot hpu hv0 hlu,
            stk := hP.stk, usn := fun x hx => hP.usn x (List.mem_cons_of_mem _ hx),
            sorted := (List.pairwise_cons.1 hP.sorted).2, prog := ?_,
            t1 := Int.le_trans (minI_le_right _ _) hP.t1, t2 := ?_, t3 := ?_, pend := ?_ }, hun, hu0, hunot⟩
  · intro w hw hwn
    rcases hP.prog w hw hwn with h0 | h0
    · rcases List.mem_cons.1 h0 with h1 | h1
      · exact .inr (h1 ▸ huv)
      · exact .inl h1
    · exact .inr h0
  · intro x hx hxn hxus hxpa
    rw [hpav] at hxpa
    show minI (lo st1 u) t ≤ lo st1 x
    by_cases hxu : x = u
    · subst hxu; exact minI_le_left _ _
    · exact Int.le_trans (minI_le_right _ _) (hP.t2 x hx hxn (by
        intro hm
        rcases List.mem_cons.1 hm with h0 | h0
        · exact hxu h0
        · exact hxus h0) hxpa)
  · rw [hpav]
    show minI (lo st1 u) t = dI st1 v ∨ ∃ x, h.adj v x = true ∧ x < h.n ∧ (x : Int) ≠ pa st1 v ∧
      minI (lo st1 u) t = lo st1 x
    rcases minI_eq (lo st1 u) t with h0 | h0
    · exact .inr ⟨u, hadj, hun, hpar, h0⟩
    · rw [h0]; exact hP.t3
  · intro c hc hcv hcs hc0 hpc hv0' hlc
    rw [hpa'] at hpc
    have hcu : c ≠ u := by
      rintro rfl
      simp at hpc
    simp only [hcu, if_false] at hpc
    have := hP.pend c hc hcv hcs hc0 hpc hv0' hlc
    rcases List.mem_cons.1 this with h0 | h0
    · exact absurd h0 hcu
    · exact h0

/-- the state after the root has been popped -/
structure BFin (h : G) (com : List Nat) (out0 : List (List Nat)) (s : BicSt) (st : BicSt) (tp : Nat → Nat)
    (cs : List Nat) (t : Int) (c2 : List Nat) : Prop where
  dt : DT h st tp
  la : LA h st tp
  bk : BK h com out0 st tp cs
  stk : st.toCheck = [0]
  nbr : ∀ w, h.adj 0 w = true → w < h.n → bvis st w
  last : st.bicoms.getLast? = some c2
  eq : s = popSt st 0 [] t st.bicoms c2
  dt' : DT h s tp
  la' : LA h s tp

/-- the invariant along the loop -/
def BInv (h : G) (com : List Nat) (out0 : List (List Nat)) (s : BicSt) : Prop :=
  (∃ tp cs, DT h s tp ∧ LA h s tp ∧ BK h com out0 s tp cs ∧ s.toCheck ≠ []) ∨
  (∃ st tp cs t c2, BFin h com out0 s st tp cs t c2)

theorem binv_step (com : List Nat) (hinj : ∀ a b, a < h.n → b < h.n → com.getD a 0 = com.getD b 0 → a = b)
    (hsym : ∀ u v, h.adj u v = h.adj v u) (hirr : ∀ v, h.adj v v = false)
    {s : BicSt} (hI : BInv h com out0 st) (hs : bicStep h com st = .ok (some s)) : BInv h com out0 s := by
  rcases hI with ⟨tp, cs, dt, la, bk, hne⟩ | ⟨st0, tp, cs, t, c2, hf⟩
  swap
  · exfalso
    have : st.toCheck = [] := by rw [hf.eq]; rfl
    unfold bicStep at hs
    rw [this] at hs
    simp at hs
  unfold bicStep at hs
  cases hT : st.toCheck with
  | nil => exact absurd hT hne
  | cons v rest =>
    rw [hT] at hs
    simp only at hs
    have hvs : v ∈ st.toCheck := by rw [hT]; exact List.mem_cons_self
    obtain ⟨hvn, hvv⟩ := dt.svis v hvs
    have hvL : v < st.low.size := by rw [dt.ok.lsz]; exact hvn
    have hlv : st.low[v] = lo st v := by simp [lo, Array.getD, hvL]
    simp only [hvL, dif_pos] at hs
    cases hscan : bicScan com h.n v (h.nbrs v) st st.low[v] with
    | panic => rw [hscan] at hs; simp at hs
    | outOfFuel => rw [hscan] at hs; simp at hs
    | ok res =>
      rw [hscan] at hs
      have hP0 : ScanP2 h tp v rest (h.nbrs v) st st.low[v] :=
        { dt := dt, la := la, stk := hT, usn := fun u hu => mem_nbrs.1 hu,
          sorted := List.pairwise_lt_range.sublist List.filter_sublist,
          prog := fun w hw hwn => .inl (mem_nbrs.2 ⟨hwn, hw⟩),
          t1 := Int.le_of_eq (by rw [hlv, dt.lostk v hvs]),
          t2 := fun u hu hun hus => absurd (mem_nbrs.2 ⟨hun, hu⟩) hus,
          t3 := .inl (by rw [hlv, dt.lostk v hvs]),
          pend := fun c hc hcv hcs hc0 hpc hv0 _ => by
            have htc : tp c = v := by
              rcases la.ar1 c hc hcv hc0 with h1 | h1
              · rw [hpc] at h1; omega
              · rw [hpc] at h1; omega
            obtain ⟨_, _, hadj, _⟩ := dt.tree c hc hcv hc0
            rw [htc] at hadj
            exact mem_nbrs.2 ⟨hc, hadj⟩ }
      obtain ⟨hdesc, hdone⟩ := bicScan_cases com hvn
        (fun us st1 t => ScanP2 h tp v rest us st1 t ∧ ∃ cs1, BK h com out0 st1 tp cs1)
        (fun us st1 t hP => ⟨hP.1.dt.ok, fun u hu => (hP.1.usn u hu).1⟩)
        (fun u us st1 t hP huv hpar =>
          ⟨scanP2_tail_keep hirr hP.1 huv (fun hc => hc.1 hpar) t (fun hne => absurd hpar hne) (fun _ => rfl),
            hP.2⟩)
        (fun u us st1 t cur hP huv hpar hcur hv0 hpu hlu => by
          obtain ⟨hP', hun, hu0, hunot⟩ := scanP2_emit (cur := cur) com hirr hP.1 huv hpar hv0 hpu hlu
          obtain ⟨cs1, bk1⟩ := hP.2
          exact ⟨hP', cs1 ++ [u], bk_emit hinj hP.1.dt hP.1.la bk1 hP.1.stk hun huv hu0 hunot hpu hv0 hlu hcur⟩)
        (fun u us st1 t hP huv hpar hne =>
          ⟨scanP2_tail_keep hirr hP.1 huv (fun hc => hne hc.2) _ (fun _ => rfl) (fun h0 => absurd h0 hpar),
            hP.2⟩)
        (h.nbrs v) st st.low[v] ⟨hP0, cs, bk⟩ res hscan
      cases res with
      | descend s1 =>
        simp only [Outcome.ok.injEq, Option.some.injEq] at hs
        subst hs
        obtain ⟨u, us2, st1, t1, cur, ⟨hP, cs1, bk1⟩, hunv, hcur, rfl⟩ := hdesc _ rfl
        obtain ⟨hun, hadj⟩ := hP.usn u List.mem_cons_self
        have hfirst : ∀ w, h.adj v w = true → w < u → bvis st1 w := by
          intro w hw hwu
          rcases hP.prog w hw (by omega) with h0 | h0
          · exfalso
            rcases List.mem_cons.1 h0 with h1 | h1
            · omega
            · have := (List.pairwise_cons.1 hP.sorted).1 w h1; omega
          · exact h0
        have hnopend : ∀ c, c < h.n → bvis st1 c → c ∉ st1.toCheck → c ≠ 0 → pa st1 c = (v : Int) → v ≠ 0 →
            lo st1 c ≥ dI st1 v → False := by
          intro c hc hcv hcs hc0 hpc hv0 hlc
          have hmem := hP.pend c hc hcv hcs hc0 hpc hv0 hlc
          have htc : tp c = v := by
            rcases hP.la.ar1 c hc hcv hc0 with h1 | h1
            · rw [hpc] at h1; omega
            · rw [hpc] at h1; omega
          rcases List.mem_cons.1 hmem with h0 | h0
          · exact hunv (h0 ▸ hcv)
          · have hlt := (List.pairwise_cons.1 hP.sorted).1 c h0
            obtain ⟨_, _, hf⟩ := hP.la.ar3 c hc hcv hcs hc0 (by rw [hpc, htc]) (by rw [htc]; exact hv0)
              (by rw [htc]; exact hlc)
            rw [htc] at hf
            exact hunv (hf u hadj hlt)
        left
        exact ⟨_, cs1, dt_descend hsym hirr hP.dt hP.stk hun hunv hadj hfirst hcur,
          la_descend hP.dt hP.la hP.stk hun hunv hnopend,
          bk_descend hP.dt hP.la bk1 hP.stk hun hunv hcur hnopend, by
            show u :: st1.toCheck ≠ []
            simp⟩
      | done s1 t1 =>
        simp only at hs
        obtain ⟨hP, cs1, bk1⟩ := hdone s1 t1 rfl
        cases hpop : bicPop v rest s1 t1 with
        | panic => rw [hpop] at hs; simp at hs
        | outOfFuel => rw [hpop] at hs; simp at hs
        | ok s2 =>
          rw [hpop] at hs
          simp only [Outcome.ok.injEq, Option.some.injEq] at hs
          subst hs
          obtain ⟨bs, c2, rfl, hc2, hb0, hb1⟩ := bicPop_cases hP.dt.ok hvn hpop
          obtain ⟨hbs2, hbs3⟩ := pop_bs_facts hP.dt.ok hb0 hb1
          have hnb : ∀ w, h.adj v w = true → w < h.n → bvis s1 w := by
            intro w hw hwn
            rcases hP.prog w hw hwn with h0 | h0
            · cases h0
            · exact h0
          have hnopend : ∀ c, c < h.n → bvis s1 c → c ∉ s1.toCheck → c ≠ 0 → pa s1 c = (v : Int) → v ≠ 0 →
              lo s1 c ≥ dI s1 v → False := by
            intro c hc hcv hcs hc0 hpc hv0 hlc
            have := hP.pend c hc hcv hcs hc0 hpc hv0 hlc
            cases this
          have dt2 := dt_pop (t := t1) hP.dt hP.stk hc2 hbs2 hbs3 hnb
          have la2 := la_pop (bs := bs) (c2 := c2) hirr hP.dt hP.la hP.stk hnb
            ⟨hP.t1, fun u hu hun hpa => hP.t2 u hu hun (by simp) hpa, hP.t3⟩ hnopend
          by_cases hv0 : v = 0
          · right
            subst hv0
            have hrest : rest = [] := by
              have hp := hP.dt.path
              rw [hP.stk] at hp
              cases rest with
              | nil => rfl
              | cons p r => exact absurd rfl hp.2.1
            subst hrest
            have hbs : bs = s1.bicoms := hb0 rfl
            subst hbs
            exact ⟨s1, tp, cs1, t1, c2, ⟨hP.dt, hP.la, bk1, hP.stk, hnb, hc2, rfl, dt2, la2⟩⟩
          · left
            obtain ⟨cur, hcur, hm⟩ := hb1 hv0
            obtain ⟨rest', hrest⟩ := hP.dt.parent_of_top hP.stk hv0
            refine ⟨tp, cs1, dt2, la2, bk_pop hP.dt hP.la bk1 hP.stk hv0 hcur hm hc2 hnopend, ?_⟩
            show rest ≠ []
            rw [hrest]; simp

end GDist
