import Mamba.Lemmas.CanonFTreeIR
import Mamba.Lemmas.IREquiv
/-!
# `IR.pass` is determined by order-theoretic properties (`IR.PassChar`)

`pass_char : PassChar`. The new colouring of a pass is the rank of the key `(old colour, count)` among the distinct
keys; any tight colouring that orders the vertices in the same way equals it (`pass_char_col`, by counting the values
below: `tight_eq_card`, `card_image_eq_of_iff`). The work list (`work_iff`): `rank ds (x*(n+1)) + frags n ds x =
rank ds ((x+1)*(n+1))` (`first_add_frags`), ranks of a duplicate-free list are onto `0..length-1` (`rank_surj`), the
first fragment of a cell is the new cell of its vertices of minimal count (`first_eq_of_min`).
-/

namespace IR
open Finset

theorem tab_congr {n : Nat} {f f' : Nat → Nat} (h : ∀ v, v < n → f v = f' v) : tab n f = tab n f' := by
  unfold tab
  congr 1
  apply List.map_congr_left
  intro v hv
  exact h v (List.mem_range.1 hv)

theorem card_image_eq_of_iff {A : Finset Nat} {f h : Nat → Nat}
    (H : ∀ u ∈ A, ∀ v ∈ A, (f u = f v ↔ h u = h v)) : (A.image f).card = (A.image h).card := by
  classical
  have e1 : A.image f = (A.image (fun u => (f u, h u))).image Prod.fst := by
    rw [Finset.image_image]; rfl
  have e2 : A.image h = (A.image (fun u => (f u, h u))).image Prod.snd := by
    rw [Finset.image_image]; rfl
  have c1 : ((A.image (fun u => (f u, h u))).image Prod.fst).card = (A.image (fun u => (f u, h u))).card := by
    apply Finset.card_image_of_injOn
    intro p hp q hq hpq
    obtain ⟨u, hu, rfl⟩ := Finset.mem_image.1 (Finset.mem_coe.1 hp)
    obtain ⟨v, hv, rfl⟩ := Finset.mem_image.1 (Finset.mem_coe.1 hq)
    simp only at hpq
    simp only [Prod.mk.injEq]
    exact ⟨hpq, (H u hu v hv).1 hpq⟩
  have c2 : ((A.image (fun u => (f u, h u))).image Prod.snd).card = (A.image (fun u => (f u, h u))).card := by
    apply Finset.card_image_of_injOn
    intro p hp q hq hpq
    obtain ⟨u, hu, rfl⟩ := Finset.mem_image.1 (Finset.mem_coe.1 hp)
    obtain ⟨v, hv, rfl⟩ := Finset.mem_image.1 (Finset.mem_coe.1 hq)
    simp only at hpq
    simp only [Prod.mk.injEq]
    exact ⟨(H u hu v hv).2 hpq, hpq⟩
  rw [e1, e2, c1, c2]

/-- a tight map counts the values below -/
theorem tight_eq_card {n k : Nat} {f : Nat → Nat} (_hlt : ∀ v, v < n → f v < k)
    (honto : ∀ x, x < k → ∃ v, v < n ∧ f v = x) {v : Nat} (hv : v < n) :
    f v = (((Finset.range n).filter (fun u => f u < f v)).image f).card := by
  have : ((Finset.range n).filter (fun u => f u < f v)).image f = Finset.range (f v) := by
    ext x
    simp only [Finset.mem_image, Finset.mem_filter, Finset.mem_range]
    constructor
    · rintro ⟨u, ⟨_, h⟩, rfl⟩; exact h
    · intro hx
      obtain ⟨u, hu, rfl⟩ := honto x (Nat.lt_trans hx (_hlt v hv))
      exact ⟨u, ⟨hu, hx⟩, rfl⟩
  rw [this, Finset.card_range]

theorem tight_card {n k : Nat} {f : Nat → Nat} (hlt : ∀ v, v < n → f v < k)
    (honto : ∀ x, x < k → ∃ v, v < n ∧ f v = x) : k = ((Finset.range n).image f).card := by
  have : (Finset.range n).image f = Finset.range k := by
    ext x
    simp only [Finset.mem_image, Finset.mem_range]
    constructor
    · rintro ⟨u, hu, rfl⟩; exact hlt u hu
    · intro hx
      obtain ⟨u, hu, rfl⟩ := honto x hx
      exact ⟨u, hu, rfl⟩
  rw [this, Finset.card_range]

/-! ### rank on duplicate-free lists -/

theorem rank_eq_card {ds : List Nat} (hnd : ds.Nodup) (k : Nat) :
    rank ds k = (ds.toFinset.filter (· < k)).card := by
  unfold rank
  rw [← List.toFinset_card_of_nodup (hnd.filter _), List.toFinset_filter]
  congr 1
  ext x
  simp

theorem rank_surj {ds : List Nat} (hnd : ds.Nodup) {x : Nat} (hx : x < ds.length) :
    ∃ k, k ∈ ds ∧ rank ds k = x := by
  have hsub : ds.toFinset.image (rank ds) ⊆ Finset.range ds.length := by
    intro y hy
    obtain ⟨k, hk, rfl⟩ := Finset.mem_image.1 hy
    exact Finset.mem_range.2 (rank_lt (List.mem_toFinset.1 hk))
  have hcard : (ds.toFinset.image (rank ds)).card = ds.length := by
    rw [Finset.card_image_of_injOn, List.toFinset_card_of_nodup hnd]
    intro a ha b hb hab
    exact rank_inj (List.mem_toFinset.1 (Finset.mem_coe.1 ha)) (List.mem_toFinset.1 (Finset.mem_coe.1 hb)) hab
  have heq := Finset.eq_of_subset_of_card_le hsub (by rw [hcard, Finset.card_range])
  have : x ∈ ds.toFinset.image (rank ds) := by rw [heq]; exact Finset.mem_range.2 hx
  obtain ⟨k, hk, rfl⟩ := Finset.mem_image.1 this
  exact ⟨k, List.mem_toFinset.1 hk, rfl⟩

theorem rank_eq_of_gap {ds : List Nat} {a b : Nat} (h : ∀ k ∈ ds, a ≤ k → b ≤ k) (hab : a ≤ b) :
    rank ds a = rank ds b := by
  unfold rank
  congr 1
  apply List.filter_congr
  intro k hk
  have := h k hk
  simp only [decide_eq_decide]
  omega

theorem filter_split (l : List Nat) {a b : Nat} (hab : a ≤ b) :
    (l.filter (· < a)).length + (l.filter (fun k => decide (a ≤ k) && decide (k < b))).length
      = (l.filter (· < b)).length := by
  induction l with
  | nil => rfl
  | cons x xs ih =>
    simp only [List.filter_cons]
    by_cases h1 : x < a
    · have h2 : x < b := by omega
      have h3 : ¬ a ≤ x := by omega
      simp [h1, h2, h3]; omega
    · by_cases h2 : x < b
      · have h3 : a ≤ x := by omega
        simp [h1, h2, h3]; omega
      · simp [h1, h2]; omega

theorem frags_eq (n : Nat) (ds : List Nat) (x : Nat) :
    frags n ds x = (ds.filter (fun k => decide (x * (n + 1) ≤ k) && decide (k < (x + 1) * (n + 1)))).length := by
  unfold frags
  congr 1
  apply List.filter_congr
  intro k _
  have h := Nat.div_eq_iff (k := n + 1) (x := k) (y := x) (Nat.succ_pos n)
  have e : (x + 1) * (n + 1) = x * (n + 1) + (n + 1) := by rw [Nat.add_mul, Nat.one_mul]
  rw [e]
  by_cases hk : k / (n + 1) = x
  · have := h.1 hk
    simp only [hk, beq_self_eq_true]
    symm
    simp only [Bool.and_eq_true, decide_eq_true_eq]
    omega
  · have : ¬ (x * (n + 1) ≤ k ∧ k ≤ x * (n + 1) + (n + 1) - 1) := fun hh => hk (h.2 hh)
    have e1 : (k / (n + 1) == x) = false := by simpa using hk
    rw [e1]
    symm
    simp only [Bool.and_eq_false_iff, decide_eq_false_iff_not]
    omega

theorem first_add_frags (n : Nat) (ds : List Nat) (x : Nat) :
    rank ds (x * (n + 1)) + frags n ds x = rank ds ((x + 1) * (n + 1)) := by
  rw [frags_eq]
  unfold rank
  apply filter_split
  exact Nat.mul_le_mul_right _ (Nat.le_succ x)

theorem rank_le_length (ds : List Nat) (k : Nat) : rank ds k ≤ ds.length := by
  unfold rank; exact List.length_filter_le _ _

theorem nodup_exists_ne {l : List Nat} (hnd : l.Nodup) (hlen : 1 < l.length) (v : Nat) : ∃ w, w ∈ l ∧ w ≠ v := by
  match l, hnd, hlen with
  | a :: b :: _, hnd, _ =>
    have hab : a ≠ b := by
      intro e; subst e; simp at hnd
    by_cases h : a = v
    · exact ⟨b, by simp, by rw [← h]; exact hab.symm⟩
    · exact ⟨a, by simp, h⟩

theorem exists_min_of {P : Nat → Prop} (f : Nat → Nat) (h : ∃ v, P v) : ∃ v, P v ∧ ∀ u, P u → f v ≤ f u := by
  classical
  have hex : ∃ m, ∃ v, P v ∧ f v = m := by
    obtain ⟨v, hv⟩ := h; exact ⟨f v, v, hv, rfl⟩
  obtain ⟨v, hv, hm⟩ := Nat.find_spec hex
  refine ⟨v, hv, fun u hu => ?_⟩
  rw [hm]; exact Nat.find_min' hex ⟨u, hu, rfl⟩

/-! ### keys -/

theorem key_lt_iff {g : G} (hg : WF g) (c : Array Nat) (i : Nat) {u v : Nat} (hu : u < g.n) (hv : v < g.n) :
    key g c i u < key g c i v ↔ (col c u < col c v ∨ (col c u = col c v ∧ cnt g c i u < cnt g c i v)) := by
  unfold key
  have h1 := cnt_le hg c i hu
  have h2 := cnt_le hg c i hv
  generalize cnt g c i u = a at *
  generalize cnt g c i v = b at *
  generalize col c u = x at *
  generalize col c v = y at *
  generalize hN : g.n + 1 = N at *
  rcases Nat.lt_trichotomy x y with hlt | heq | hgt
  · have : (x + 1) * N ≤ y * N := Nat.mul_le_mul_right N hlt
    rw [Nat.add_mul] at this; omega
  · subst heq; omega
  · have : (y + 1) * N ≤ x * N := Nat.mul_le_mul_right N hgt
    rw [Nat.add_mul] at this; omega

theorem key_eq_iff {g : G} (hg : WF g) (c : Array Nat) (i : Nat) {u v : Nat} (hu : u < g.n) (hv : v < g.n) :
    key g c i u = key g c i v ↔ (col c u = col c v ∧ cnt g c i u = cnt g c i v) := by
  constructor
  · intro h
    have hc := key_col hg c i hu hv h
    refine ⟨hc, ?_⟩
    unfold key at h
    rw [hc] at h
    omega
  · rintro ⟨h1, h2⟩
    unfold key
    rw [h1, h2]

theorem key_lt_mul_iff {g : G} (hg : WF g) (c : Array Nat) (i : Nat) {v : Nat} (hv : v < g.n) (j : Nat) :
    key g c i v < j * (g.n + 1) ↔ col c v < j := by
  unfold key
  have h2 := cnt_le hg c i hv
  generalize cnt g c i v = b at *
  generalize col c v = y at *
  generalize hN : g.n + 1 = N at *
  by_cases h : y < j
  · have : (y + 1) * N ≤ j * N := Nat.mul_le_mul_right N h
    rw [Nat.add_mul] at this; omega
  · have : j * N ≤ y * N := Nat.mul_le_mul_right N (Nat.le_of_not_lt h)
    omega

theorem mem_ds {g : G} {c : Array Nat} {i : Nat} {k : Nat} :
    k ∈ dedup (keys g c i) ↔ ∃ v, v < g.n ∧ key g c i v = k := by
  rw [dedup_eq, List.mem_dedup]
  unfold keys
  simp only [List.mem_map, List.mem_range]

theorem ds_nodup (g : G) (c : Array Nat) (i : Nat) : (dedup (keys g c i)).Nodup := by
  rw [dedup_eq]; exact List.nodup_dedup _

/-! ### the colouring of a pass -/

theorem pass_char_col {g : G} (hg : WF g) (c : Array Nat) (i : Nat) (c' : Nat → Nat) (k' : Nat)
    (hlt : ∀ v, v < g.n → c' v < k') (honto : ∀ x, x < k' → ∃ v, v < g.n ∧ c' v = x)
    (hord : ∀ u v, u < g.n → v < g.n → (c' u < c' v ↔
      (col c u < col c v ∨ (col c u = col c v ∧ cnt g c i u < cnt g c i v)))) :
    (∀ v, v < g.n → c' v = rank (dedup (keys g c i)) (key g c i v)) ∧ k' = (dedup (keys g c i)).length := by
  have hord' : ∀ u v, u < g.n → v < g.n → (c' u < c' v ↔ key g c i u < key g c i v) :=
    fun u v hu hv => (hord u v hu hv).trans (key_lt_iff hg c i hu hv).symm
  have heq : ∀ u v, u < g.n → v < g.n → (c' u = c' v ↔ key g c i u = key g c i v) := by
    intro u v hu hv
    have h1 := hord' u v hu hv
    have h2 := hord' v u hv hu
    omega
  have himg : ∀ k, (dedup (keys g c i)).toFinset.filter (· < k)
      = ((Finset.range g.n).filter (fun u => key g c i u < k)).image (key g c i) := by
    intro k
    ext x
    simp only [Finset.mem_filter, List.mem_toFinset, mem_ds, Finset.mem_image, Finset.mem_range]
    constructor
    · rintro ⟨⟨u, hu, rfl⟩, hx⟩; exact ⟨u, ⟨hu, hx⟩, rfl⟩
    · rintro ⟨u, ⟨hu, hx⟩, rfl⟩; exact ⟨⟨u, hu, rfl⟩, hx⟩
  constructor
  · intro v hv
    rw [rank_eq_card (ds_nodup g c i), himg, tight_eq_card hlt honto hv]
    have hf : (Finset.range g.n).filter (fun u => c' u < c' v)
        = (Finset.range g.n).filter (fun u => key g c i u < key g c i v) := by
      apply Finset.filter_congr
      intro u hu
      exact hord' u v (Finset.mem_range.1 hu) hv
    rw [hf]
    apply card_image_eq_of_iff
    intro a ha b hb
    exact heq a b (Finset.mem_range.1 (Finset.mem_filter.1 ha).1) (Finset.mem_range.1 (Finset.mem_filter.1 hb).1)
  · rw [tight_card hlt honto, ← List.toFinset_card_of_nodup (ds_nodup g c i)]
    have : (dedup (keys g c i)).toFinset = (Finset.range g.n).image (key g c i) := by
      ext x
      simp only [List.mem_toFinset, mem_ds, Finset.mem_image, Finset.mem_range]
    rw [this]
    apply card_image_eq_of_iff
    intro a ha b hb
    exact heq a b (Finset.mem_range.1 ha) (Finset.mem_range.1 hb)

/-! ### the work list of a pass -/

theorem mem_work (g : G) (s : St) (i : Nat) (rest : List Nat) (x : Nat) :
    x ∈ (pass g s i rest).work ↔
      ((∃ y, y ∈ rest ∧ x = rank (dedup (keys g s.c i)) (y * (g.n + 1))) ∨
        (∃ j, j < s.cells ∧ 1 < frags g.n (dedup (keys g s.c i)) j ∧
          ∃ t, t < frags g.n (dedup (keys g s.c i)) j ∧ x = rank (dedup (keys g s.c i)) (j * (g.n + 1)) + t)) := by
  show x ∈ dedup _ ↔ _
  rw [dedup_eq, List.mem_dedup, List.mem_append, List.mem_map, List.mem_flatMap]
  constructor
  · rintro (⟨y, hy, rfl⟩ | ⟨j, hj, hx⟩)
    · exact Or.inl ⟨y, hy, rfl⟩
    · right
      by_cases hf : frags g.n (dedup (keys g s.c i)) j > 1
      · rw [if_pos hf, List.mem_map] at hx
        obtain ⟨t, ht, rfl⟩ := hx
        exact ⟨j, List.mem_range.1 hj, hf, t, List.mem_range.1 ht, rfl⟩
      · rw [if_neg hf] at hx; cases hx
  · rintro (⟨y, hy, rfl⟩ | ⟨j, hj, hf, t, ht, rfl⟩)
    · exact Or.inl ⟨y, hy, rfl⟩
    · right
      refine ⟨j, List.mem_range.2 hj, ?_⟩
      rw [if_pos hf, List.mem_map]
      exact ⟨t, List.mem_range.2 ht, rfl⟩

/-- the first fragment of a cell is the new cell of its vertices with minimal count -/
theorem first_eq_of_min {g : G} (hg : WF g) (c : Array Nat) (i : Nat) {v : Nat} (hv : v < g.n)
    (hmin : ∀ u, u < g.n → col c u = col c v → cnt g c i v ≤ cnt g c i u) :
    rank (dedup (keys g c i)) (col c v * (g.n + 1)) = rank (dedup (keys g c i)) (key g c i v) := by
  apply rank_eq_of_gap
  · intro k hk hle
    obtain ⟨u, hu, rfl⟩ := mem_ds.1 hk
    have h1 : ¬ col c u < col c v := fun h => by
      have := (key_lt_mul_iff hg c i hu (col c v)).2 h; omega
    by_contra hlt
    rcases (key_lt_iff hg c i hu hv).1 (Nat.lt_of_not_le hlt) with h | ⟨h2, h3⟩
    · exact h1 h
    · have := hmin u hu h2; omega
  · unfold key; omega

theorem frags_filter_mem {g : G} (hg : WF g) (c : Array Nat) (i : Nat) (j : Nat) {k : Nat} :
    k ∈ (dedup (keys g c i)).filter (fun k => decide (j * (g.n + 1) ≤ k) && decide (k < (j + 1) * (g.n + 1)))
      ↔ ∃ v, v < g.n ∧ col c v = j ∧ key g c i v = k := by
  rw [List.mem_filter, mem_ds]
  simp only [Bool.and_eq_true, decide_eq_true_eq]
  constructor
  · rintro ⟨⟨v, hv, rfl⟩, h1, h2⟩
    have a1 := (key_lt_mul_iff hg c i hv (j + 1)).1 h2
    have a2 : ¬ col c v < j := fun h => by
      have := (key_lt_mul_iff hg c i hv j).2 h; omega
    exact ⟨v, hv, by omega, rfl⟩
  · rintro ⟨v, hv, hc, rfl⟩
    refine ⟨⟨v, hv, rfl⟩, ?_, ?_⟩
    · have : ¬ key g c i v < j * (g.n + 1) := fun h => by
        have := (key_lt_mul_iff hg c i hv j).1 h; omega
      omega
    · exact (key_lt_mul_iff hg c i hv (j + 1)).2 (by omega)

theorem work_iff {g : G} (hg : WF g) (s : St) (hA : InvA g s) (i : Nat) (rest : List Nat)
    (hrest : ∀ x ∈ rest, x < s.cells) (hne : ∀ x, x < s.cells → ∃ v, v < g.n ∧ col s.c v = x) (x : Nat) :
    x ∈ (pass g s i rest).work ↔ ∃ v, v < g.n ∧ rank (dedup (keys g s.c i)) (key g s.c i v) = x ∧
      ((col s.c v ∈ rest ∧ ∀ u, u < g.n → col s.c u = col s.c v → cnt g s.c i v ≤ cnt g s.c i u) ∨
        (∃ u, u < g.n ∧ col s.c u = col s.c v ∧ cnt g s.c i u ≠ cnt g s.c i v)) := by
  rw [mem_work]
  have hnd := ds_nodup g s.c i
  constructor
  · rintro (⟨y, hy, rfl⟩ | ⟨j, hj, hf, t, ht, rfl⟩)
    · obtain ⟨v, ⟨hv, hcv⟩, hmin⟩ := exists_min_of (P := fun v => v < g.n ∧ col s.c v = y) (cnt g s.c i)
        (hne y (hrest y hy))
      have hmin' : ∀ u, u < g.n → col s.c u = col s.c v → cnt g s.c i v ≤ cnt g s.c i u :=
        fun u hu hc => hmin u ⟨hu, by rw [hc, hcv]⟩
      refine ⟨v, hv, ?_, Or.inl ⟨by rw [hcv]; exact hy, hmin'⟩⟩
      rw [← first_eq_of_min hg s.c i hv hmin', hcv]
    · have hsum := first_add_frags g.n (dedup (keys g s.c i)) j
      have hle := rank_le_length (dedup (keys g s.c i)) ((j + 1) * (g.n + 1))
      obtain ⟨k, hk, hkx⟩ := rank_surj hnd (x := rank (dedup (keys g s.c i)) (j * (g.n + 1)) + t) (by omega)
      obtain ⟨v, hv, rfl⟩ := mem_ds.1 hk
      have h1 : ¬ col s.c v < j := fun h => by
        have := rank_lt_rank hk ((key_lt_mul_iff hg s.c i hv j).2 h); omega
      have h2 : col s.c v < j + 1 := by
        by_contra h
        have h3 : ¬ key g s.c i v < (j + 1) * (g.n + 1) := fun h' => h ((key_lt_mul_iff hg s.c i hv (j + 1)).1 h')
        have := rank_mono (ds := dedup (keys g s.c i)) (Nat.le_of_not_lt h3); omega
      have hcv : col s.c v = j := by omega
      refine ⟨v, hv, hkx, Or.inr ?_⟩
      rw [frags_eq] at hf
      obtain ⟨w, hw, hwne⟩ := nodup_exists_ne (hnd.filter _) hf (key g s.c i v)
      obtain ⟨u, hu, hcu, rfl⟩ := (frags_filter_mem hg s.c i j).1 hw
      refine ⟨u, hu, by rw [hcu, hcv], fun h => hwne ?_⟩
      exact (key_eq_iff hg s.c i hu hv).2 ⟨by rw [hcu, hcv], h⟩
  · rintro ⟨v, hv, rfl, (⟨hmem, hmin⟩ | ⟨u, hu, hcu, hne'⟩)⟩
    · exact Or.inl ⟨col s.c v, hmem, (first_eq_of_min hg s.c i hv hmin).symm⟩
    · right
      have hsum := first_add_frags g.n (dedup (keys g s.c i)) (col s.c v)
      have hkv := key_mem s.c i hv
      have b1 : rank (dedup (keys g s.c i)) (col s.c v * (g.n + 1)) ≤ rank (dedup (keys g s.c i)) (key g s.c i v) := by
        apply rank_mono; unfold key; omega
      have b2 : rank (dedup (keys g s.c i)) (key g s.c i v) < rank (dedup (keys g s.c i)) ((col s.c v + 1) * (g.n + 1)) :=
        rank_lt_rank hkv ((key_lt_mul_iff hg s.c i hv _).2 (Nat.lt_succ_self _))
      have hf : 1 < frags g.n (dedup (keys g s.c i)) (col s.c v) := by
        rw [frags_eq]
        have hsub : [key g s.c i u, key g s.c i v] ⊆ (dedup (keys g s.c i)).filter
            (fun k => decide (col s.c v * (g.n + 1) ≤ k) && decide (k < (col s.c v + 1) * (g.n + 1))) := by
          intro k hk
          simp only [List.mem_cons, List.not_mem_nil, or_false] at hk
          rcases hk with rfl | rfl
          · exact (frags_filter_mem hg s.c i _).2 ⟨u, hu, hcu, rfl⟩
          · exact (frags_filter_mem hg s.c i _).2 ⟨v, hv, rfl, rfl⟩
        have hnd2 : [key g s.c i u, key g s.c i v].Nodup := by
          have : key g s.c i u ≠ key g s.c i v := fun h => hne' ((key_eq_iff hg s.c i hu hv).1 h).2
          simp [this]
        have := (hnd2.subperm hsub).length_le
        simp only [List.length_cons, List.length_nil] at this
        omega
      refine ⟨col s.c v, hA v hv, hf,
        rank (dedup (keys g s.c i)) (key g s.c i v) - rank (dedup (keys g s.c i)) (col s.c v * (g.n + 1)), ?_, ?_⟩
      · omega
      · omega

theorem pass_char : PassChar := by
  intro g hg s hA i rest hrest hne c' k' W hlt honto hord hW
  obtain ⟨hcol, hk⟩ := pass_char_col hg s.c i c' k' hlt honto hord
  refine ⟨?_, hk.symm, ?_, ?_⟩
  · exact tab_congr (fun v hv => (hcol v hv).symm)
  · show (dedup _).Nodup
    rw [dedup_eq]; exact List.nodup_dedup _
  · intro x
    rw [work_iff hg s hA i rest hrest hne]
    constructor
    · rintro ⟨v, hv, rfl, h⟩
      rw [← hcol v hv]
      exact ⟨hlt v hv, (hW v hv).2 h⟩
    · rintro ⟨hx, hw⟩
      obtain ⟨v, hv, rfl⟩ := honto x hx
      exact ⟨v, hv, (hcol v hv).symm, (hW v hv).1 hw⟩

end IR
