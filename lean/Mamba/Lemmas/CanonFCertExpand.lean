import Mamba.Lemmas.CanonFCert
/-!
# `expandValue` maintains the certificate invariant (`ExpandCert`, `ExpandStale` of `CanonFCert.lean`)

* `append_spec`, `sortRange_spec` — `Sl.append` appends, `Sl.sortRange a len` sorts exactly the tail;
* `codeLoop_spec`, `code_fun` — the inner loop appends `rawCodes`;
* `expandLoop_step` — one iteration of `expandLoop`; `expandLoop_cert` — the loop invariant
  `value.toList = certPos nb order j`;
* `expandValue_cert` (on "worse" the loop records `spl := j' + 1`, so `value` is again the certificate of the prefix).
-/
namespace CanonF


/-! ## `append`, `sortRange` -/

theorem append_spec (s : Sl Nat) (hw : s.WF) (x : Nat) :
    (s.append x).WF ∧ (s.append x).len = s.len + 1 ∧ (s.append x).toList = s.toList ++ [x] := by
  unfold Sl.WF at hw
  unfold Sl.append
  split
  · rename_i h
    refine ⟨by simp [Sl.WF]; omega, rfl, ?_⟩
    simp only [Sl.toList, Array.toList_setIfInBounds]
    have hmin : min s.len s.data.size = s.len := by omega
    apply List.ext_getElem?
    intro i
    simp only [List.getElem?_take, List.getElem?_set, List.getElem?_append, List.length_take, Array.length_toList, hmin]
    by_cases h1 : i < s.len
    · have : ¬ s.len = i := by omega
      have h2 : i < s.len + 1 := by omega
      simp [h1, this, h2]
    · by_cases h2 : i = s.len
      · subst h2; simp [h]
      · have : ¬ s.len = i := by omega
        have h3 : ¬ i < s.len + 1 := by omega
        simp [h3, h1]; omega
  · rename_i h
    have hl : s.len = s.data.size := by omega
    refine ⟨by simp [Sl.WF]; omega, rfl, ?_⟩
    simp only [Sl.toList]
    rw [List.take_append_of_le_length (by simp; omega)]
    rw [List.take_of_length_le (by simp; omega)]

theorem sortNat_length (l : List Nat) : (sortNat l).length = l.length := List.length_mergeSort _

theorem mem_sortNat {l : List Nat} {x : Nat} : x ∈ sortNat l ↔ x ∈ l := List.mem_mergeSort

/-- sorting the tail `s[a:len]` -/
theorem sortRange_spec {s s' : Sl Nat} {a : Nat} (hw : s.WF) (ha : a ≤ s.len)
    (h : s.sortRange a s.len = .ok s') :
    s'.WF ∧ s'.len = s.len ∧ s'.toList = s.toList.take a ++ sortNat (s.toList.drop a) := by
  unfold Sl.WF at hw
  unfold Sl.sortRange at h
  rw [if_pos ⟨ha, hw⟩] at h
  cases h
  have hex : (s.data.extract a s.len).toList = s.toList.drop a := by
    rw [Array.toList_extract, List.extract_eq_take_drop, Sl.toList, List.drop_take]
  have hlen : (sortNat (s.toList.drop a)).length = s.len - a := by
    rw [sortNat_length]; simp [Sl.toList]; omega
  refine ⟨by simp [Sl.WF]; exact hw, rfl, ?_⟩
  rw [hex]
  simp only [Sl.toList] at hlen ⊢
  rw [Sl.toList_writeList _ _ _ (by rw [hlen]; omega)]
  rw [List.take_append_of_le_length (by simp [hlen]; omega)]
  rw [List.take_of_length_le (by simp [hlen]; omega)]
  congr 1
  · rw [List.take_take]; congr 1; omega



/-! ## the certificate as a list -/

theorem tri_mono {s t : Nat} (h : s ≤ t) : tri s ≤ tri t := by
  unfold tri
  exact Nat.div_le_div_right (Nat.mul_le_mul h (Nat.sub_le_sub_right h 1))

theorem certPos_succ (nb : Nbrs) (o : List Nat) (j : Nat) :
    certPos nb o (j + 1) = certPos nb o j ++ blockCodes nb o j := by
  simp [certPos, List.range_succ, List.flatMap_append]

theorem blockCodes_ge {nb : Nbrs} {o : List Nat} {j x : Nat} (h : x ∈ blockCodes nb o j) : tri j ≤ x := by
  rw [blockCodes, mem_sortNat, rawCodes, List.mem_filterMap] at h
  obtain ⟨v, _, hv⟩ := h
  split at hv
  · cases hv; omega
  · cases hv

theorem certPos_split (nb : Nbrs) (o : List Nat) (s : Nat) : ∀ t, s ≤ t →
    ∃ extra, certPos nb o t = certPos nb o s ++ extra ∧ ∀ x ∈ extra, tri s ≤ x := by
  intro t ht
  obtain ⟨d, rfl⟩ : ∃ d, t = s + d := ⟨t - s, by omega⟩
  clear ht
  induction d with
  | zero => exact ⟨[], by simp, by simp⟩
  | succ d ih =>
    obtain ⟨e, he, hx⟩ := ih
    refine ⟨e ++ blockCodes nb o (s + d), by rw [← Nat.add_assoc, certPos_succ, he, List.append_assoc], ?_⟩
    intro x hx'
    rcases List.mem_append.1 hx' with h | h
    · exact hx x h
    · exact Nat.le_trans (tri_mono (Nat.le_add_right s d)) (blockCodes_ge h)

/-! ## the inner loop -/

theorem codeLoop_spec {inCell : Sl Nat} {j : Nat} (f : Nat → Option Nat)
    (hf : ∀ v k, inCell.get v = .ok k → f v = if k < j then some (tri j + k) else none) :
    ∀ (l : List Nat) (value value' : Sl Nat), value.WF →
      forList (codeStep inCell j) l value = .ok value' →
      value'.WF ∧ value'.toList = value.toList ++ l.filterMap f := by
  intro l
  induction l with
  | nil => intro value value' hw h; simp [forList] at h; subst h; exact ⟨hw, by simp⟩
  | cons x xs ih =>
    intro value value' hw h
    rw [forList] at h
    cases hx : codeStep inCell j x value with
    | ok v1 =>
      rw [hx] at h
      simp only at h
      unfold codeStep at hx
      cases hk : inCell.get x with
      | ok k =>
        rw [hk] at hx
        simp only at hx
        have hfx := hf x k hk
        by_cases hkj : k < j
        · rw [if_pos hkj] at hx hfx
          cases hx
          obtain ⟨w1, _, t1⟩ := append_spec value hw (j * (j - 1) / 2 + k)
          obtain ⟨w2, t2⟩ := ih _ _ w1 h
          refine ⟨w2, ?_⟩
          rw [t2, t1, List.filterMap_cons, hfx]
          simp [tri]
        · rw [if_neg hkj] at hx hfx
          cases hx
          obtain ⟨w2, t2⟩ := ih _ _ hw h
          refine ⟨w2, ?_⟩
          rw [t2, List.filterMap_cons, hfx]
      | panic => rw [hk] at hx; cases hx
      | outOfFuel => rw [hk] at hx; cases hx
    | panic => rw [hx] at h; cases h
    | outOfFuel => rw [hx] at h; cases h

/-- with singleton bins `0..j-1` in front, a position `q < j` is its own bin index -/
theorem binIdx_eq_of_single (bd : List Nat) (hs : (0 :: bd).Pairwise (· < ·)) (j : Nat)
    (hsing : ∀ t, t < j → bd[t]? = some (t + 1)) (q : Nat) (hq : q < j) : binIdx bd q = q := by
  have h1 := (binIdx_lt_iff_of_single bd hs (q + 1) (fun t ht => hsing t (by omega)) q).2 (by omega)
  have h2 := (binIdx_lt_iff_of_single bd hs q (fun t ht => hsing t (by omega)) q)
  omega

/-- the code function of the model agrees with the one of `rawCodes` -/
theorem code_fun {n : Nat} {op : OP} (inv : PartInv n op) (j : Nat)
    (hsing : ∀ t, t < j → op.binDividers.toList[t]? = some (t + 1)) (v k : Nat) (hk : op.inCell.get v = .ok k) :
    (if op.order.toList.idxOf v < j then some (tri j + op.order.toList.idxOf v) else none) =
      if k < j then some (tri j + k) else none := by
  have hvn : v < n := by rw [← inv.lenInCell]; exact Sl.get_lt hk
  have hmem : v ∈ op.order.toList := inv.perm.mem_iff.2 (by simpa using hvn)
  have hlt : op.order.toList.idxOf v < op.order.toList.length := List.idxOf_lt_length_of_mem hmem
  have hq : op.order.toList[op.order.toList.idxOf v]? = some v := by
    rw [List.getElem?_eq_getElem hlt, List.getElem_idxOf hlt]
  have hic := inv.inCell _ _ hq
  have hk' := Sl.get_eq_toList.1 hk
  rw [hic] at hk'
  have hke : k = binIdx op.binDividers.toList (op.order.toList.idxOf v) := (Option.some.inj hk').symm
  have hiff := binIdx_lt_iff_of_single _ inv.sorted j hsing (op.order.toList.idxOf v)
  by_cases hlt' : op.order.toList.idxOf v < j
  · have := binIdx_eq_of_single _ inv.sorted j hsing _ hlt'
    rw [if_pos hlt', if_pos (by omega)]
    congr 2; omega
  · rw [if_neg hlt', if_neg (by rw [hke, hiff]; exact hlt')]

/-- one iteration of `expandLoop` -/
theorem expandLoop_step {n : Nat} {nb : Nbrs} {cb fl : Sl Nat} {k j : Nat} {op op' : OP} {w : Bool}
    (inv : PartInv n op) (hsing : ∀ t, t < j → op.binDividers.toList[t]? = some (t + 1)) (hwf : op.value.WF)
    (h : expandLoop nb cb fl (k + 1) j op = .ok (w, op')) :
    (op.binDividers.toList[j]? ≠ some (j + 1) ∧ j < op.binDividers.len ∧ w = false ∧ op' = { op with spl := j }) ∨
    (op.binDividers.toList[j]? = some (j + 1) ∧ ∃ value2 : Sl Nat, value2.WF ∧
      value2.toList = op.value.toList ++ blockCodes nb op.order.toList j ∧
      ((worseTest value2 cb fl = .ok true ∧ w = true ∧ op' = { op with value := value2, spl := j + 1 }) ∨
       (worseTest value2 cb fl = .ok false ∧
         expandLoop nb cb fl k (j + 1) { op with value := value2 } = .ok (w, op')))) := by
  rw [expandLoop] at h
  have hbl : op.binDividers.toList.length = op.binDividers.len := Sl.length_toList _ inv.wfBd
  split at h
  case h_2 => cases h
  case h_3 => cases h
  case h_1 x bs hbs =>
    have hdj : ∃ a, op.binDividers.toList[j]? = some a ∧ bs = a - j := by
      by_cases hj0 : j = 0
      · subst hj0
        rw [if_pos rfl] at hbs
        exact ⟨bs, Sl.get_eq_toList.1 hbs, by omega⟩
      · rw [if_neg hj0] at hbs
        split at hbs
        · rename_i a b ha hb
          have hb' := Sl.get_eq_toList.1 hb
          rw [hsing (j - 1) (by omega)] at hb'
          have : b = j := by have := Option.some.inj hb'; omega
          subst this
          exact ⟨a, Sl.get_eq_toList.1 ha, by cases hbs; rfl⟩
        · cases hbs
    obtain ⟨a, haj, hbsa⟩ := hdj
    have hjlt : j < op.binDividers.len := by
      have := (List.getElem?_eq_some_iff.1 haj).1; omega
    have hja : j + 1 ≤ a := inv.bd_ge j a haj
    by_cases hne : bs ≠ 1
    · rw [if_pos hne] at h
      simp at h
      obtain ⟨rfl, rfl⟩ := h
      refine Or.inl ⟨?_, hjlt, rfl, rfl⟩
      rw [haj]; intro hc; have := Option.some.inj hc; omega
    · rw [if_neg hne] at h
      have haj1 : op.binDividers.toList[j]? = some (j + 1) := by
        rw [haj]; congr 1; omega
      refine Or.inr ⟨haj1, ?_⟩
      cases hu : op.order.get j with
      | ok u =>
        rw [hu] at h
        simp only at h
        cases hnb : nbrsGet nb u with
        | ok nbrs =>
          rw [hnb] at h
          simp only at h
          cases hcode : forList (codeStep op.inCell j) nbrs op.value with
          | ok value1 =>
            rw [hcode] at h
            simp only at h
            obtain ⟨w1, t1⟩ := codeLoop_spec
              (fun v => if op.order.toList.idxOf v < j then some (tri j + op.order.toList.idxOf v) else none)
              (code_fun inv j hsing) nbrs op.value value1 hwf hcode
            have hlen0 : op.value.toList.length = op.value.len := Sl.length_toList _ hwf
            have hlen1 : value1.toList.length = value1.len := Sl.length_toList _ w1
            have hle : op.value.len ≤ value1.len := by
              rw [← hlen1, t1, List.length_append]; omega
            cases hsort : value1.sortRange op.value.len value1.len with
            | ok value2 =>
              rw [hsort] at h
              simp only at h
              obtain ⟨w2, _, t2⟩ := sortRange_spec w1 hle hsort
              have hraw : rawCodes nb op.order.toList j = nbrs.filterMap
                  (fun v => if op.order.toList.idxOf v < j then some (tri j + op.order.toList.idxOf v) else none) := by
                unfold rawCodes
                have : op.order.toList.getD j 0 = u := by
                  rw [List.getD_eq_getElem?_getD, Sl.get_eq_toList.1 hu]; rfl
                rw [this, nbrsGet_eq hnb]
              refine ⟨value2, w2, ?_, ?_⟩
              · rw [t2, t1, ← hlen0, List.take_left, List.drop_left, blockCodes, hraw]
              · cases hwt : worseTest value2 cb fl with
                | ok b =>
                  rw [hwt] at h
                  cases b with
                  | true => simp at h; obtain ⟨rfl, rfl⟩ := h; exact Or.inl ⟨rfl, rfl, rfl⟩
                  | false => exact Or.inr ⟨rfl, h⟩
                | panic => rw [hwt] at h; cases h
                | outOfFuel => rw [hwt] at h; cases h
            | panic => rw [hsort] at h; cases h
            | outOfFuel => rw [hsort] at h; cases h
          | panic => rw [hcode] at h; cases h
          | outOfFuel => rw [hcode] at h; cases h
        | panic => rw [hnb] at h; cases h
        | outOfFuel => rw [hnb] at h; cases h
      | panic => rw [hu] at h; cases h
      | outOfFuel => rw [hu] at h; cases h


/-! ## the loop -/

theorem expandLoop_cert {n : Nat} {nb : Nbrs} {cb fl : Sl Nat} :
    ∀ (k j : Nat) (op : OP) (w : Bool) (op' : OP), j + k = n → PartInv n op →
      (∀ t, t < j → op.binDividers.toList[t]? = some (t + 1)) → op.value.WF →
      op.value.toList = certPos nb op.order.toList j →
      expandLoop nb cb fl k j op = .ok (w, op') →
      (w = false → CleanPrefix op' ∧ op'.value.WF ∧ op'.value.toList = certPos nb op'.order.toList op'.spl) ∧
      (w = true → op'.value.WF ∧
        ∃ j', j ≤ j' ∧ op'.spl = j' + 1 ∧ j' < op.binDividers.len ∧
          (∀ t, t < j' + 1 → op.binDividers.toList[t]? = some (t + 1)) ∧
          op'.value.toList = certPos nb op.order.toList (j' + 1) ∧
          worseTest op'.value cb fl = .ok true) := by
  intro k
  induction k with
  | zero =>
    intro j op w op' hjk inv hsing hwf hval h
    simp [expandLoop] at h
    obtain ⟨rfl, rfl⟩ := h
    have hj : j = n := by omega
    subst hj
    have hlo := inv.lenOrder
    have hbl : op.binDividers.toList.length = op.binDividers.len := Sl.length_toList _ inv.wfBd
    refine ⟨fun _ => ⟨⟨⟨?_, ?_⟩, ?_⟩, hwf, ?_⟩, fun hc => by cases hc⟩
    · show op.order.len ≤ op.binDividers.len
      rw [hlo]
      by_cases hn : op.order.len = 0
      · omega
      · have := (List.getElem?_eq_some_iff.1 (hsing (op.order.len - 1) (by omega))).1
        omega
    · intro t ht; exact hsing t (by simpa [hlo] using ht)
    · show op.binDividers.toList[op.order.len]? ≠ some (op.order.len + 1)
      intro hc
      have := inv.bd_le _ _ hc
      omega
    · show op.value.toList = certPos nb op.order.toList op.order.len
      rw [hlo]; exact hval
  | succ k ih =>
    intro j op w op' hjk inv hsing hwf hval h
    have hbl : op.binDividers.toList.length = op.binDividers.len := Sl.length_toList _ inv.wfBd
    rcases expandLoop_step inv hsing hwf h with ⟨hns, hjlt, rfl, rfl⟩ | ⟨haj1, value2, w2, t2, hcase⟩
    · refine ⟨fun _ => ⟨⟨⟨Nat.le_of_lt hjlt, hsing⟩, hns⟩, hwf, hval⟩, fun hc => by cases hc⟩
    · have t2' : value2.toList = certPos nb op.order.toList (j + 1) := by
        rw [t2, hval, certPos_succ]
      have hsing' : ∀ t, t < j + 1 → op.binDividers.toList[t]? = some (t + 1) := by
        intro t ht
        by_cases htj : t = j
        · subst htj; exact haj1
        · exact hsing t (by omega)
      have hjlt : j < op.binDividers.len := by
        have := (List.getElem?_eq_some_iff.1 haj1).1; omega
      rcases hcase with ⟨hwt, rfl, rfl⟩ | ⟨_, hrec⟩
      · exact ⟨fun hc => (by cases hc), fun _ => ⟨w2, j, Nat.le_refl _, rfl, hjlt, hsing', t2', hwt⟩⟩
      · obtain ⟨r1, r2⟩ := ih (j + 1) { op with value := value2 } w op' (by omega)
          (PartInv.of_frame inv rfl rfl rfl rfl) hsing' w2 t2' hrec
        refine ⟨r1, fun hw => ?_⟩
        obtain ⟨s2, j', s3, s4, s5, s6, s7, s8⟩ := r2 hw
        exact ⟨s2, j', by omega, s4, s5, s6, s7, s8⟩

theorem expandValue_cert : ExpandCert := by
  intro n nb cb fl op op' w inv hp hwf hval h
  obtain ⟨e1, e2, _, _, _, _⟩ := expandValue_frame h
  unfold expandValue at h
  have hle : op.spl ≤ n := Nat.le_trans hp.le inv.bdLen_le
  obtain ⟨r1, r2⟩ := expandLoop_cert _ _ _ _ _ (by rw [inv.lenOrder]; omega) inv hp.single hwf hval h
  refine ⟨fun hw => ?_, fun hw => ?_⟩
  · obtain ⟨a1, a2, a3⟩ := r1 hw
    exact ⟨a1, a2, a3⟩
  · obtain ⟨s2, j', s3, s4, s5, s6, s7, _⟩ := r2 hw
    refine ⟨⟨⟨?_, ?_⟩, s2, ?_⟩, by omega⟩
    · rw [s4, e2]; omega
    · rw [s4, e2]; exact s6
    · rw [s4, e1]; exact s7

end CanonF
