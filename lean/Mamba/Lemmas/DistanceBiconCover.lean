import Mamba.Lemmas.DistanceBiconTotal
import Mamba.Lemmas.DistanceIPaths4
/-!
# Lemmas for C10: every vertex lies in a block reported by the `BiconnectedComponents` model
-/
namespace GDist
open GraphSpec Model

def bvisited (st : BicSt) (x : Nat) : Prop := st.depths.getD x (-1) ≠ -1

/-- `x` (local label) lies in a partial block or in an emitted block (through `com`) -/
def InBlocks (com : List Nat) (st : BicSt) (x : Nat) : Prop :=
  (∃ b ∈ st.bicoms, x ∈ b) ∨ (∃ blk ∈ st.out, com.getD x 0 ∈ blk)

structure CV (h : G) (com : List Nat) (out0 : List (List Nat)) (st : BicSt) : Prop where
  omono : ∀ blk ∈ out0, blk ∈ st.out
  root : bvisited st 0
  stk : ∀ x ∈ st.toCheck, bvisited st x
  fin : ∀ x, x < h.n → bvisited st x → x ∉ st.toCheck →
    (∀ w, h.adj x w = true → w < h.n → bvisited st w) ∧ InBlocks com st x

theorem mem_sortInts {l : List Nat} {x : Nat} : x ∈ sortInts l ↔ x ∈ l := by
  unfold sortInts; exact (List.mergeSort_perm l _).mem_iff

theorem getD_set_int' {T : Array Int} {i : Nat} {x : Int} (h : i < T.size) (w : Nat) :
    (T.set i x h).getD w (-1) = if w = i then x else T.getD w (-1) := by
  by_cases hw : w = i
  · subst hw; simp [Array.getD, h]
  · simp only [hw, if_false]
    by_cases hws : w < T.size
    · have hne : i ≠ w := fun h => hw h.symm
      simp [Array.getD, hws, Array.getElem_set_ne, hne]
    · simp [Array.getD, hws]

variable {h : G} {com : List Nat} {out0 : List (List Nat)}

theorem bicScan_cover {v : Nat} (hvn : v < h.n) :
    ∀ (us : List Nat) (st : BicSt) (tmpLow : Int), CV h com out0 st → BOk h.n st → v ∈ st.toCheck →
      (∀ u ∈ us, u < h.n) →
      (∀ w, h.adj v w = true → w < h.n → w ∈ us ∨ bvisited st w) →
      ∀ res, bicScan com h.n v us st tmpLow = .ok res →
        (∀ st', res = .descend st' → CV h com out0 st' ∧ BOk h.n st') ∧
        (∀ st' t, res = .done st' t → CV h com out0 st' ∧ BOk h.n st' ∧ st'.toCheck = st.toCheck ∧
            (∀ w, h.adj v w = true → w < h.n → bvisited st' w)) := by
  intro us
  induction us with
  | nil =>
    intro st tmpLow cv ok _ _ hprog res hres
    simp only [bicScan] at hres
    cases hres
    refine ⟨fun st' h0 => (by cases h0), fun st' t h0 => ?_⟩
    cases h0
    refine ⟨cv, ok, rfl, fun w hw hwn => ?_⟩
    rcases hprog w hw hwn with h1 | h1
    · cases h1
    · exact h1
  | cons u us ih =>
    intro st tmpLow cv ok hvs hus hprog res hres
    have hu : u < h.n := hus u List.mem_cons_self
    have hus' : ∀ x ∈ us, x < h.n := fun x hx => hus x (List.mem_cons_of_mem _ hx)
    have huD : u < st.depths.size := by rw [ok.dsz]; exact hu
    have hvD : v < st.depths.size := by rw [ok.dsz]; exact hvn
    have huL : u < st.low.size := by rw [ok.lsz]; exact hu
    have huP : u < st.parents.size := by rw [ok.psz]; exact hu
    have hvP : v < st.parents.size := by rw [ok.psz]; exact hvn
    have hvA : v < st.isArt.size := by rw [ok.asz]; exact hvn
    obtain ⟨cur, hcur⟩ := getLast?_isSome_of_ne_nil ok.bne
    have hgu : st.depths.getD u (-1) = st.depths[u] := by simp [Array.getD, huD]
    unfold bicScan at hres
    simp only [huD, dif_pos] at hres
    by_cases hunv : st.depths[u] = -1
    · -- descend
      simp only [hunv, if_true, hvD, dif_pos, huL, huP, hcur] at hres
      cases hres
      refine ⟨fun st' h0 => ?_, fun st' t h0 => (by cases h0)⟩
      cases h0
      obtain ⟨_, hvpos⟩ := ok.stk v hvs
      have hvis : ∀ x, bvisited st x →
          bvisited { st with
            childCount := if v = 0 then st.childCount + 1 else st.childCount
            toCheck := u :: st.toCheck
            depths := st.depths.set u (st.depths[v] + 1)
            low := st.low.set u (st.depths[v] + 1)
            parents := st.parents.set u (v : Int)
            bicoms := if cur.length > 0 then st.bicoms ++ [[]] else st.bicoms } x := by
        intro x hx
        unfold bvisited at hx ⊢
        simp only
        rw [getD_set_int' huD]
        split
        · omega
        · exact hx
      have hvisu : bvisited { st with
            childCount := if v = 0 then st.childCount + 1 else st.childCount
            toCheck := u :: st.toCheck
            depths := st.depths.set u (st.depths[v] + 1)
            low := st.low.set u (st.depths[v] + 1)
            parents := st.parents.set u (v : Int)
            bicoms := if cur.length > 0 then st.bicoms ++ [[]] else st.bicoms } u := by
        unfold bvisited
        simp only
        rw [getD_set_int' huD]
        simp; omega
      have hunot : ¬ bvisited st u := by unfold bvisited; rw [hgu, hunv]; simp
      constructor
      · refine { omono := cv.omono, root := hvis 0 cv.root, stk := ?_, fin := ?_ }
        · intro x hx
          simp only [List.mem_cons] at hx
          rcases hx with rfl | hx
          · exact hvisu
          · exact hvis x (cv.stk x hx)
        · intro x hx hxv hxs
          have hxs' : x ∉ u :: st.toCheck := hxs
          have hxu : x ≠ u := fun h0 => hxs' (by simp [h0])
          have hxv0 : bvisited st x := by
            unfold bvisited at hxv ⊢
            simp only at hxv
            rw [getD_set_int' huD] at hxv
            simpa [hxu] using hxv
          obtain ⟨h1, h2⟩ := cv.fin x hx hxv0 (fun h0 => hxs' (List.mem_cons_of_mem _ h0))
          refine ⟨fun w hw hwn => hvis w (h1 w hw hwn), ?_⟩
          rcases h2 with ⟨b, hb, hxb⟩ | h2
          · left
            refine ⟨b, ?_, hxb⟩
            show b ∈ (if cur.length > 0 then st.bicoms ++ [[]] else st.bicoms)
            split
            · exact List.mem_append.2 (.inl hb)
            · exact hb
          · exact .inr h2
      · -- BOk from the totality development
        rcases bicScan_total com hvn (u :: us) st tmpLow ok hus ⟨hvD, hvpos⟩ with ⟨st', e, o, _⟩ | ⟨st', t, e, _⟩
        · unfold bicScan at e
          simp only [huD, dif_pos, hunv, if_true, hvD, huL, huP, hcur] at e
          cases e
          exact o
        · unfold bicScan at e
          simp only [huD, dif_pos, hunv, if_true, hvD, huL, huP, hcur] at e
          cases e
    · simp only [hunv, if_false, hvP, dif_pos] at hres
      have huvis : bvisited st u := by unfold bvisited; rw [hgu]; exact hunv
      have hprog' : ∀ st' : BicSt, (∀ x, bvisited st x → bvisited st' x) →
          ∀ w, h.adj v w = true → w < h.n → w ∈ us ∨ bvisited st' w := by
        intro st' hmono w hw hwn
        rcases hprog w hw hwn with h1 | h1
        · rcases List.mem_cons.1 h1 with rfl | h1
          · exact .inr (hmono w huvis)
          · exact .inl h1
        · exact .inr (hmono w h1)
      by_cases hpar : (u : Int) ≠ st.parents[v]
      · simp only [hpar, ne_eq, not_false_eq_true, if_true, huL, dif_pos, huP, hvD] at hres
        by_cases hem : v ≠ 0 ∧ st.parents[u] = (v : Int) ∧ st.low[u] ≥ st.depths[v]
        · simp only [hem, ne_eq, not_false_eq_true, and_self, if_true, hcur, hvA, dif_pos] at hres
          -- emission: the current partial block moves to `out`
          have cv' : CV h com out0 { st with
              parents := st.parents.set u (-1)
              out := st.out ++ [sortInts ((cur ++ [v]).map fun x => com.getD x 0)]
              bicoms := setLast st.bicoms []
              isArt := st.isArt.set v true } :=
            { omono := fun blk hb => List.mem_append.2 (.inl (cv.omono blk hb)), root := cv.root, stk := cv.stk,
              fin := fun x hx hxv hxs => by
                obtain ⟨h1, h2⟩ := cv.fin x hx hxv hxs
                refine ⟨h1, ?_⟩
                rcases h2 with ⟨b, hb, hxb⟩ | ⟨blk, hblk, hxblk⟩
                · rcases mem_dropLast_or_last hb hcur with hb' | hb'
                  · exact .inl ⟨b, (show b ∈ st.bicoms.dropLast ++ [[]] from List.mem_append.2 (.inl hb')), hxb⟩
                  · subst hb'
                    right
                    refine ⟨sortInts ((b ++ [v]).map fun x => com.getD x 0),
                      List.mem_append.2 (.inr List.mem_cons_self), ?_⟩
                    rw [mem_sortInts]
                    exact List.mem_map.2 ⟨x, List.mem_append.2 (.inl hxb), rfl⟩
                · exact .inr ⟨blk, List.mem_append.2 (.inl hblk), hxblk⟩ }
          have ok' : BOk h.n { st with
              parents := st.parents.set u (-1)
              out := st.out ++ [sortInts ((cur ++ [v]).map fun x => com.getD x 0)]
              bicoms := setLast st.bicoms []
              isArt := st.isArt.set v true } :=
            { dsz := ok.dsz, lsz := ok.lsz, psz := by simp [ok.psz], asz := by simp [ok.asz],
              stk := ok.stk, bne := setLast_ne_nil _ _,
              bpre := fun b hb => ok.bpre b (by rw [setLast_dropLast] at hb; exact hb),
              belem := fun b hb x hx => (by
                rcases mem_setLast hb with h0 | h0
                · exact ok.belem b ((List.dropLast_sublist _).subset h0) x hx
                · subst h0; cases hx),
              osorted := fun b hb => (by
                rcases List.mem_append.1 hb with h0 | h0
                · exact ok.osorted b h0
                · simp at h0; subst h0; exact sortInts_sorted _) }
          obtain ⟨r1, r2⟩ := ih _ _ cv' ok' hvs hus' (hprog' _ (fun x hx => hx)) res hres
          exact ⟨r1, fun st' t h0 => by
            obtain ⟨a1, a2, a3, a4⟩ := r2 st' t h0
            exact ⟨a1, a2, a3, a4⟩⟩
        · simp only [hem, if_false] at hres
          exact ih st _ cv ok hvs hus' (hprog' st (fun x hx => hx)) res hres
      · simp only [hpar, if_false] at hres
        exact ih st tmpLow cv ok hvs hus' (hprog' st (fun x hx => hx)) res hres

theorem bicMerge_mem (depths : Array Int) (dv : Int) :
    ∀ (preRev : List (List Nat)) (cur : List Nat) (bs : List (List Nat)),
      bicMerge depths dv preRev cur = .ok bs →
      ∀ x, (∃ b ∈ bs, x ∈ b) ↔ (x ∈ cur ∨ ∃ b ∈ preRev, x ∈ b) := by
  intro preRev
  induction preRev with
  | nil =>
    intro cur bs hb x
    simp only [bicMerge] at hb
    cases hb
    simp
  | cons b preRev ih =>
    intro cur bs hb x
    unfold bicMerge at hb
    cases hl : b.getLast? with
    | none => rw [hl] at hb; simp at hb
    | some y =>
      rw [hl] at hb
      simp only at hb
      by_cases hy : y < depths.size
      · simp only [hy, dif_pos] at hb
        by_cases heq : depths[y] = dv + 1
        · simp only [heq, if_true] at hb
          rw [ih _ _ hb x]
          simp only [List.mem_append, List.mem_cons, exists_eq_or_imp]
          tauto
        · simp only [heq, if_false] at hb
          cases hb
          constructor
          · rintro ⟨b', hb', hx⟩
            rcases List.mem_append.1 hb' with h1 | h1
            · rcases List.mem_cons.1 (List.mem_reverse.1 h1) with h2 | h2
              · exact .inr ⟨b, List.mem_cons_self, h2 ▸ hx⟩
              · exact .inr ⟨b', List.mem_cons_of_mem _ h2, hx⟩
            · have : b' = cur := by simpa using h1
              exact .inl (this ▸ hx)
          · rintro (h1 | ⟨b', hb', hx⟩)
            · exact ⟨cur, List.mem_append.2 (.inr (by simp)), h1⟩
            · exact ⟨b', List.mem_append.2 (.inl (List.mem_reverse.2 hb')), hx⟩
      · simp only [hy, dif_neg, not_false_eq_true] at hb
        cases hb

theorem bicLoop_cover :
    ∀ (fuel : Nat) (st : BicSt), CV h com out0 st → BOk h.n st →
      ∀ st', bicLoop h com fuel st = .ok st' → CV h com out0 st' ∧ BOk h.n st' ∧ st'.toCheck = [] := by
  intro fuel
  induction fuel with
  | zero => intro st _ _ st' hres; simp [bicLoop] at hres
  | succ f ih =>
    intro st cv ok st' hres
    unfold bicLoop at hres
    match hT : st.toCheck with
    | [] =>
      rw [hT] at hres
      simp only at hres
      cases hres
      exact ⟨cv, ok, hT⟩
    | v :: restStack =>
      rw [hT] at hres
      have hvmem : v ∈ st.toCheck := by rw [hT]; exact List.mem_cons_self
      obtain ⟨hvD, hvpos⟩ := ok.stk v hvmem
      have hv : v < h.n := by rw [← ok.dsz]; exact hvD
      have hvL : v < st.low.size := by rw [ok.lsz]; exact hv
      simp only [hvL, dif_pos] at hres
      cases hscan : bicScan com h.n v (h.nbrs v) st st.low[v] with
      | panic => rw [hscan] at hres; simp at hres
      | outOfFuel => rw [hscan] at hres; simp at hres
      | ok res =>
        rw [hscan] at hres
        obtain ⟨hdesc, hdone⟩ := bicScan_cover hv (h.nbrs v) st st.low[v] cv ok hvmem
          (fun u hu => (mem_nbrs.1 hu).1)
          (fun w hw hwn => .inl (mem_nbrs.2 ⟨hwn, hw⟩)) res hscan
        cases res with
        | descend st1 =>
          simp only at hres
          obtain ⟨cv1, ok1⟩ := hdesc st1 rfl
          exact ih st1 cv1 ok1 st' hres
        | done st1 t =>
          simp only at hres
          obtain ⟨cv1, ok1, hstk1, hnb1⟩ := hdone st1 t rfl
          have hvL' : v < st1.low.size := by rw [ok1.lsz]; exact hv
          have hvD' : v < st1.depths.size := by rw [ok1.dsz]; exact hv
          simp only [hvL', dif_pos, hvD'] at hres
          obtain ⟨cur, hcur⟩ := getLast?_isSome_of_ne_nil ok1.bne
          have hsplit : st1.bicoms = st1.bicoms.dropLast ++ [cur] := by
            conv_lhs => rw [← List.dropLast_append_getLast ok1.bne]
            congr 2
            rw [List.getLast?_eq_some_getLast ok1.bne] at hcur
            exact Option.some.inj hcur
          -- the state after the merge, for any merged list with the right content
          have tail : ∀ (bs : List (List Nat)) (cur2 : List Nat), bs.getLast? = some cur2 →
              (∀ b ∈ bs.dropLast, b ≠ []) → (∀ b ∈ bs, ∀ x ∈ b, x < h.n) →
              (∀ x, (∃ b ∈ st1.bicoms, x ∈ b) → ∃ b ∈ bs, x ∈ b) →
              CV h com out0 (BicSt.mk restStack st1.depths (st1.low.set v t hvL') st1.parents st1.isArt
                  st1.childCount (setLast bs (cur2 ++ [v])) st1.out) ∧
              BOk h.n (BicSt.mk restStack st1.depths (st1.low.set v t hvL') st1.parents st1.isArt
                  st1.childCount (setLast bs (cur2 ++ [v])) st1.out) := by
            intro bs cur2 hcur2 hbs2 hbs3 hkeep
            have hinb : ∀ x, (∃ b ∈ bs, x ∈ b) → ∃ b ∈ setLast bs (cur2 ++ [v]), x ∈ b := by
              rintro x ⟨b, hb, hxb⟩
              rcases mem_dropLast_or_last hb hcur2 with hb' | hb'
              · exact ⟨b, (show b ∈ bs.dropLast ++ [cur2 ++ [v]] from List.mem_append.2 (.inl hb')), hxb⟩
              · subst hb'
                exact ⟨b ++ [v], (show b ++ [v] ∈ bs.dropLast ++ [b ++ [v]] from
                  List.mem_append.2 (.inr List.mem_cons_self)), List.mem_append.2 (.inl hxb)⟩
            constructor
            · refine { omono := cv1.omono, root := cv1.root, stk := ?_, fin := ?_ }
              · intro x hx
                exact cv1.stk x (by rw [hstk1, hT]; exact List.mem_cons_of_mem _ hx)
              · intro x hx hxv hxs
                have hxs' : x ∉ restStack := hxs
                by_cases hxeq : x = v
                · subst hxeq
                  refine ⟨hnb1, .inl ⟨cur2 ++ [x], (show cur2 ++ [x] ∈ bs.dropLast ++ [cur2 ++ [x]] from
                    List.mem_append.2 (.inr List.mem_cons_self)), by simp⟩⟩
                · obtain ⟨h1, h2⟩ := cv1.fin x hx hxv (by
                    rw [hstk1, hT]; intro hm
                    rcases List.mem_cons.1 hm with h0 | h0
                    · exact hxeq h0
                    · exact hxs' h0)
                  refine ⟨h1, ?_⟩
                  rcases h2 with h2 | h2
                  · exact .inl (hinb x (hkeep x h2))
                  · exact .inr h2
            · refine { dsz := ok1.dsz, lsz := by simp [ok1.lsz], psz := ok1.psz, asz := ok1.asz, stk := ?_,
                       bne := setLast_ne_nil _ _, bpre := ?_, belem := ?_, osorted := ok1.osorted }
              · intro x hx
                exact ok1.stk x (by rw [hstk1, hT]; exact List.mem_cons_of_mem _ hx)
              · intro b hb
                rw [setLast_dropLast] at hb
                exact hbs2 b hb
              · intro b hb x hx
                rcases mem_setLast hb with hb' | hb'
                · exact hbs3 b ((List.dropLast_sublist _).subset hb') x hx
                · subst hb'
                  rcases List.mem_append.1 hx with hx' | hx'
                  · exact hbs3 cur2 (List.mem_of_getLast? hcur2) x hx'
                  · simp at hx'; subst hx'; exact hv
          by_cases hv0 : v ≠ 0
          · simp only [hv0, ne_eq, not_false_eq_true, if_true, hcur] at hres
            obtain ⟨bs, ebs, hbs1, hbs2, hbs3⟩ := bicMerge_total st1.depths st1.depths[v] ok1.dsz
              st1.bicoms.dropLast.reverse cur
              (fun b hb => by
                have hb' := List.mem_reverse.1 hb
                exact ⟨ok1.bpre b hb', ok1.belem b ((List.dropLast_sublist _).subset hb')⟩)
              (ok1.belem cur (List.mem_of_getLast? hcur))
            have hmem := bicMerge_mem st1.depths st1.depths[v] _ _ bs ebs
            rw [ebs] at hres
            simp only at hres
            obtain ⟨cur2, hcur2⟩ := getLast?_isSome_of_ne_nil hbs1
            simp only [hcur2] at hres
            obtain ⟨cvn, okn⟩ := tail bs cur2 hcur2 hbs2 hbs3 (by
              rintro x ⟨b, hb, hxb⟩
              rw [hmem x]
              rw [hsplit] at hb
              rcases List.mem_append.1 hb with h0 | h0
              · exact .inr ⟨b, List.mem_reverse.2 h0, hxb⟩
              · simp at h0; subst h0; exact .inl hxb)
            exact ih _ cvn okn st' hres
          · simp only [hv0, if_false, hcur] at hres
            obtain ⟨cvn, okn⟩ := tail st1.bicoms cur hcur ok1.bpre ok1.belem (fun x hx => hx)
            exact ih _ cvn okn st' hres

/-- per component: every vertex of the component lies in a reported block, earlier blocks are kept -/
theorem bicComponent_cover (g : G) (com : List Nat) (gc : GoodCom g com) (hne : com ≠ [])
    (hconn : ∀ x ∈ com, Reach g (com.getD 0 0) x) (acc acc' : List (List Nat) × List Nat)
    (hacc : ∀ b ∈ acc.1, b.Pairwise (fun a b => decide (a ≤ b) = true))
    (hres : bicComponent g com acc = .ok acc') :
    (∀ blk ∈ acc.1, blk ∈ acc'.1) ∧ ∀ x ∈ com, ∃ blk ∈ acc'.1, x ∈ blk := by
  unfold bicComponent at hres
  have hn : (g.induced com).n = com.length := rfl
  have hpos : 0 < com.length := List.length_pos_iff.2 hne
  have hn0 : ¬ (g.induced com).n = 0 := by rw [hn]; omega
  simp only [hn0, if_false] at hres
  have hT : ∀ w, ((Array.replicate (g.induced com).n (-1 : Int)).setIfInBounds 0 0).getD w (-1)
      = if w = 0 then 0 else -1 := by
    intro w
    have hset : (Array.replicate (g.induced com).n (-1 : Int)).setIfInBounds 0 0
        = (Array.replicate (g.induced com).n (-1 : Int)).set 0 0 (by simp; rw [hn]; exact hpos) := by
      simp [Array.setIfInBounds, hn, hpos]
    rw [hset, getD_set_int']
    by_cases hw : w = 0
    · simp [hw]
    · simp only [hw, if_false]
      by_cases hwn : w < (g.induced com).n <;> simp [Array.getD, hwn]
  have ok0 : BOk (g.induced com).n
      (BicSt.mk [0] ((Array.replicate (g.induced com).n (-1 : Int)).setIfInBounds 0 0)
        (Array.replicate (g.induced com).n 0) (Array.replicate (g.induced com).n 0)
        (Array.replicate (g.induced com).n false) 0 [[]] acc.1) :=
    { dsz := (by simp), lsz := (by simp), psz := (by simp), asz := (by simp),
      stk := fun x hx => (by
        simp at hx; subst hx
        refine ⟨by simp; rw [hn]; omega, ?_⟩
        simp [Array.getElem_setIfInBounds]),
      bne := (by simp), bpre := (by simp), belem := fun b hb x hx => (by simp at hb; subst hb; cases hx),
      osorted := hacc }
  have cv0 : CV (g.induced com) com acc.1
      (BicSt.mk [0] ((Array.replicate (g.induced com).n (-1 : Int)).setIfInBounds 0 0)
        (Array.replicate (g.induced com).n 0) (Array.replicate (g.induced com).n 0)
        (Array.replicate (g.induced com).n false) 0 [[]] acc.1) :=
    { omono := fun blk hb => hb,
      root := (by unfold bvisited; simp only; rw [hT]; simp),
      stk := fun x hx => (by
        simp at hx; subst hx
        unfold bvisited; simp only; rw [hT]; simp),
      fin := fun x _ hxv hxs => (by
        exfalso
        unfold bvisited at hxv; simp only at hxv; rw [hT] at hxv
        by_cases hx0 : x = 0
        · subst hx0; exact hxs (by simp)
        · simp [hx0] at hxv) }
  cases hloop : bicLoop (g.induced com) com (2 * (g.induced com).n + 2)
      (BicSt.mk [0] ((Array.replicate (g.induced com).n (-1 : Int)).setIfInBounds 0 0)
        (Array.replicate (g.induced com).n 0) (Array.replicate (g.induced com).n 0)
        (Array.replicate (g.induced com).n false) 0 [[]] acc.1) with
  | panic => rw [hloop] at hres; simp at hres
  | outOfFuel => rw [hloop] at hres; simp at hres
  | ok st =>
    rw [hloop] at hres
    simp only at hres
    obtain ⟨cv, ok, hstk⟩ := bicLoop_cover _ _ cv0 ok0 st hloop
    cases hres
    refine ⟨fun blk hb => List.mem_append.2 (.inl (cv.omono blk hb)), ?_⟩
    -- every local vertex is visited
    have emb := goodCom_emb gc
    have hvisall : ∀ x ∈ com, ∃ i, i < com.length ∧ com.getD i 0 = x ∧ bvisited st i := by
      intro x hx
      obtain ⟨k, hk⟩ := hconn x hx
      have : ∀ y k, WalkIn g (List.range g.n) (com.getD 0 0) y k →
          ∃ i, i < com.length ∧ com.getD i 0 = y ∧ bvisited st i := by
        intro y k hw
        induction hw with
        | base _ => exact ⟨0, hpos, rfl, cv.root⟩
        | step _ hadj hy ih =>
          obtain ⟨i, hi, hiy, hiv⟩ := ih
          rw [← hiy] at hadj
          obtain ⟨j, hj, hjy⟩ := emb.closed i _ hi (List.mem_range.1 hy) hadj
          refine ⟨j, hj, hjy, ?_⟩
          have hfin := (cv.fin i hi hiv (by rw [hstk]; simp)).1
          apply hfin j _ hj
          rw [emb.adj i j hi hj, hjy]; exact hadj
      exact this x k hk
    intro x hx
    obtain ⟨i, hi, hix, hiv⟩ := hvisall x hx
    have hin := (cv.fin i hi hiv (by rw [hstk]; simp)).2
    rcases hin with ⟨b, hb, hib⟩ | ⟨blk, hblk, hxblk⟩
    · obtain ⟨cur, hcur⟩ := getLast?_isSome_of_ne_nil ok.bne
      rcases mem_dropLast_or_last hb hcur with hb' | hb'
      · refine ⟨sortInts ((b ++ [0]).map fun y => com.getD y 0), ?_, ?_⟩
        · apply List.mem_append.2; right
          apply List.mem_map.2
          exact ⟨b ++ [0], List.mem_append.2 (.inl (List.mem_map.2 ⟨b, hb', rfl⟩)), rfl⟩
        · rw [mem_sortInts]
          exact List.mem_map.2 ⟨i, List.mem_append.2 (.inl hib), hix⟩
      · subst hb'
        refine ⟨sortInts (b.map fun y => com.getD y 0), ?_, ?_⟩
        · apply List.mem_append.2; right
          apply List.mem_map.2
          refine ⟨b, List.mem_append.2 (.inr ?_), rfl⟩
          rw [hcur]; simp
        · rw [mem_sortInts]
          exact List.mem_map.2 ⟨i, hib, hix⟩
    · rw [hix] at hxblk
      exact ⟨blk, List.mem_append.2 (.inl hblk), hxblk⟩

theorem bicAll_cover (g : G) :
    ∀ (coms : List (List Nat)) (acc acc' : List (List Nat) × List Nat),
      (∀ c ∈ coms, GoodCom g c ∧ c ≠ [] ∧ ∀ x ∈ c, Reach g (c.getD 0 0) x) →
      (∀ b ∈ acc.1, b.Pairwise (fun a b => decide (a ≤ b) = true)) →
      bicAll g coms acc = .ok acc' →
      (∀ blk ∈ acc.1, blk ∈ acc'.1) ∧ ∀ c ∈ coms, ∀ x ∈ c, ∃ blk ∈ acc'.1, x ∈ blk := by
  intro coms
  induction coms with
  | nil =>
    intro acc acc' _ _ hres
    simp only [bicAll] at hres
    cases hres
    exact ⟨fun blk hb => hb, fun c hc => by cases hc⟩
  | cons com coms ih =>
    intro acc acc' hcoms hacc hres
    obtain ⟨gc, hne, hconn⟩ := hcoms com List.mem_cons_self
    obtain ⟨acc1, e1, hs1⟩ := bicComponent_total g com hne acc hacc
    simp only [bicAll, e1] at hres
    obtain ⟨m1, c1⟩ := bicComponent_cover g com gc hne hconn acc acc1 hacc e1
    obtain ⟨m2, c2⟩ := ih acc1 acc' (fun c hc => hcoms c (List.mem_cons_of_mem _ hc)) hs1 hres
    refine ⟨fun blk hb => m2 blk (m1 blk hb), ?_⟩
    intro c hc x hx
    rcases List.mem_cons.1 hc with rfl | hc
    · obtain ⟨blk, hblk, hxb⟩ := c1 x hx
      exact ⟨blk, m2 blk hblk, hxb⟩
    · exact c2 c hc x hx

/-- **every vertex lies in a block reported by the `BiconnectedComponents` model** -/
theorem bicon_cover_vertices (g : G) (hsym : ∀ u v, g.adj u v = g.adj v u) (bs : List (List Nat))
    (arts : List Nat) (hres : Model.biconnectedComponents g = .ok (bs, arts)) :
    ∀ x, x < g.n → ∃ b ∈ bs, x ∈ b := by
  unfold Model.biconnectedComponents at hres
  obtain ⟨cs, ecs, hperm⟩ := connectedComponents_perm g hsym (g.n + 1) (Nat.le_refl _)
  rw [ecs] at hres
  simp only at hres
  obtain ⟨hgood, hflat⟩ := components_good g hsym
  have hV : ∀ r ∈ List.range g.n, r ∈ List.range g.n := fun _ h => h
  have hcl : ∀ x ∈ ([] : List Nat), ∀ y, ReachIn g (List.range g.n) x y → y ∈ ([] : List Nat) :=
    fun x hx => by cases hx
  obtain ⟨h1, h2, _, _⟩ := componentsFrom_spec hsym (List.range g.n) [] hV hcl
  have hcoms : ∀ c ∈ cs, GoodCom g c ∧ c ≠ [] ∧ ∀ x ∈ c, Reach g (c.getD 0 0) x := by
    intro c hc
    have hc' := hperm.mem_iff.1 hc
    obtain ⟨s, hs, _, rfl⟩ := h1 c hc'
    have hsmem : s ∈ componentIn g (List.range g.n) s := mem_componentIn.2 (ReachIn.refl hs)
    have hne : componentIn g (List.range g.n) s ≠ [] := List.ne_nil_of_mem hsmem
    refine ⟨hgood _ hc', hne, ?_⟩
    intro x hx
    have h0 : (componentIn g (List.range g.n) s).getD 0 0 ∈ componentIn g (List.range g.n) s := by
      obtain ⟨a, t, hat⟩ := List.exists_cons_of_ne_nil hne
      rw [hat]; simp
    exact ((mem_componentIn.1 h0).symm hsym).trans (mem_componentIn.1 hx)
  obtain ⟨_, hcov⟩ := bicAll_cover g cs ([], []) (bs, arts) hcoms (fun b hb => by cases hb) hres
  intro x hx
  have hxf : x ∈ cs.flatten := ((List.Perm.flatten hperm).trans hflat).mem_iff.2 (List.mem_range.2 hx)
  obtain ⟨c, hc, hxc⟩ := List.mem_flatten.1 hxf
  exact hcov c hc x hxc

end GDist
