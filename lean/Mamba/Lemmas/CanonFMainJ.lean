import Mamba.Lemmas.CanonFStepJ
import Mamba.Lemmas.CanonFMain
/-!
# The main loop with an invariant of the whole loop state (faithful model `Model/CanonF.lean`)

`MainJ` adds to the transitions of the stepping loops (`StepJ`) the two remaining ones: the node step (leaf branch with
its four cases / inner node / nothing after a "worse" refinement) and the refinement. `mainLoopJ` carries such an
invariant through `mainLoop`; at the end (`len(path) == 0`) `JA [] s'` holds.
-/
namespace CanonF

structure MainJ (n m : Nat) (nb : Nbrs) (JA JN JS : List (Nat × Nat) → LS → Prop)
    (JM : List (Nat × Nat) → Bool → LS → Prop) : Prop where
  step : StepJ n nb JA JN JS
  node : ∀ lv worse s s1, MInv n m nb s → (s.count = 0 → worse = false) → LevelsOK s.op s.path s.choices lv →
    JM lv worse s →
    (if (!worse && s.op.binDividers.len == n) = true then leafNode n m s
      else if (!worse) = true then innerNode s else Outcome.ok s) = .ok s1 →
    ∃ lv1, LevelsOK s1.op s1.path s1.choices lv1 ∧ JA lv1 s1 ∧ (s1.skipDeage = true → JN lv1 s1)
  refine : ∀ lv s w op' sc', Core n s → LevelsOK s.op s.path s.choices lv → s.op.age = s.path.length →
    s.skipDeage = false → s.sc.timesSeen.len = n → JS lv s →
    refine nb s.currentBest s.firstLeaf {} s.op s.sc = .ok (w, op', sc') →
    JM lv w { s with op := op', sc := { dws := ⟨sc'.dws.data, n⟩, nbs := ⟨sc'.nbs.data, n⟩, space := ⟨sc'.space.data, n⟩,
                                          timesSeen := ⟨sc'.timesSeen.data, n⟩, maxCell := ⟨sc'.maxCell.data, n⟩,
                                          numberOfMax := ⟨sc'.numberOfMax.data, n⟩ } }

set_option maxHeartbeats 1000000 in
theorem mainLoopJ (hst : StablePerm) {n m : Nat} {nb : Nbrs} {JA JN JS : List (Nat × Nat) → LS → Prop}
    {JM : List (Nat × Nat) → Bool → LS → Prop} (hJ : MainJ n m nb JA JN JS JM) :
    ∀ (fuel : Nat) (worse : Bool) (s s' : LS) (lv : List (Nat × Nat)), MInv n m nb s → (s.count = 0 → worse = false) →
      LevelsOK s.op s.path s.choices lv → JM lv worse s →
      mainLoop nb n m fuel worse s = .ok s' → JA [] s' := by
  intro fuel
  induction fuel with
  | zero => intro worse s s' lv _ _ _ _ h; simp [mainLoop] at h
  | succ f ih =>
    intro worse s s' lv hI hw hlv hM h
    rw [mainLoop] at h
    have hnode := node_step hI hw hlv
    cases hs1 : (if (!worse && s.op.binDividers.len == n) = true then leafNode n m s
        else if (!worse) = true then innerNode s else Outcome.ok s) with
    | panic => rw [hs1] at h; cases h
    | outOfFuel => rw [hs1] at h; cases h
    | ok s1 =>
      rw [hs1] at h
      simp only at h
      obtain ⟨_, c1, _, g1, esc, f1, p1⟩ := hnode s1 hs1
      obtain ⟨lv1, l1, ja1, jn1⟩ := hJ.node lv worse s s1 hI hw hlv hM hs1
      cases hst2 : stepLoop nb s1.path.length s1 with
      | panic => rw [hst2] at h; cases h
      | outOfFuel => rw [hst2] at h; cases h
      | ok r =>
        obtain ⟨b, s2⟩ := r
        rw [hst2] at h
        obtain ⟨_, c2, fr2, _, g2, t2, e2, _, _⟩ := stepLoop_spec (StepQ.trivial n nb s1.currentBest s1.firstLeaf) _ s1 lv1 b s2 c1 l1 g1 rfl rfl True.intro (fun _ => True.intro) hst2
        obtain ⟨lv2, l2, js2, ja2⟩ := stepLoopJ_spec hJ.step _ s1 lv1 b s2 c1 l1 g1 ja1 jn1 hst2
        have hcnt : s2.count = s1.count := by rw [fr2]
        have hcb : s2.currentBest = s1.currentBest := by rw [fr2]
        have hsc : s2.sc = s1.sc := by rw [fr2]
        cases b with
        | false =>
          simp only at h
          cases h
          obtain ⟨q1, q2⟩ := ja2 rfl
          rw [q2] at q1
          exact q1
        | true =>
          simp only at h
          cases hr : refine nb s2.currentBest s2.firstLeaf {} s2.op s2.sc with
          | panic => rw [hr] at h; cases h
          | outOfFuel => rw [hr] at h; cases h
          | ok r3 =>
            obtain ⟨worse', op', sc'⟩ := r3
            rw [hr] at h
            simp only at h
            have hskip : s2.skipDeage = false := t2 rfl
            have hage2 : s2.op.age = s2.path.length := by
              rw [hskip] at g2; simpa using g2
            obtain ⟨r1, r2, r3, r4, _, _, _, z1, z2, z3, _⟩ := refine_inv hst c2.part c2.age c2.scr hr
            have htc : n ≤ s2.sc.timesSeen.data.size := by rw [hsc, esc]; exact hI.tsCap
            have htl : s2.sc.timesSeen.len = n := by rw [hsc, esc]; exact hI.tsLen
            have hM' := hJ.refine lv2 s2 worse' op' sc' c2 l2 hage2 hskip htl (js2 rfl) hr
            refine ih worse' _ s' lv2 ?_ ?_ ?_ hM' h
            · constructor
              · constructor
                · exact r1
                · exact r2
                · exact scratch_rewrap c2.scr htc z1 z2 z3
                · exact c2.bestWf
                · exact c2.bestLen
                · exact c2.bestPerm
              · exact ⟨lv2, LevelsOK_frame (fun a ha => oldDivs_of_lt r4 a ha) _ _ _ (by show ((s2.path.length : Nat) : Int) ≤ s2.op.age; omega) l2⟩
              · show op'.age = _; rw [r3]; exact hage2
              · exact hskip
              · show n ≤ sc'.timesSeen.data.size; omega
              · rfl
              · intro h0
                have h0' : s1.count = 0 := by
                  have : s2.count = 0 := h0
                  omega
                show s2.currentBest.len = 0
                rw [hcb]; exact (p1 h0').1
              · intro hpos
                have : 0 < s1.count := by
                  have : 0 < s2.count := hpos
                  omega
                show s2.currentBest.len = m
                rw [hcb]; exact f1 this
            · intro h0
              have h0' : s1.count = 0 := by
                have : s2.count = 0 := h0
                omega
              have hcb0 : s2.currentBest.len = 0 := by rw [hcb]; exact (p1 h0').1
              exact refine_not_worse hcb0 rfl hr
            · exact LevelsOK_frame (fun a ha => oldDivs_of_lt r4 a ha) _ _ _
                (by show ((s2.path.length : Nat) : Int) ≤ s2.op.age; omega) l2

/-! ## adding a further invariant on top of one that is already carried -/

/-- closure conditions of additional predicates `X…` that may use the predicates `J…` of an invariant that is already
known to be carried (before the transition, and after it where that is cheap) -/
structure MainJX (n m : Nat) (nb : Nbrs) (JA JN JS : List (Nat × Nat) → LS → Prop)
    (JM : List (Nat × Nat) → Bool → LS → Prop) (XA XN XS : List (Nat × Nat) → LS → Prop)
    (XM : List (Nat × Nat) → Bool → LS → Prop) : Prop where
  na : ∀ lv s, JN lv s → XN lv s → XA lv s
  deage : ∀ lv s op' k, Core n s → TopOK s.op k s.path s.choices lv → s.skipDeage = false →
    s.op.age = s.path.length → JA lv s → XA lv s → deage s.op = .ok op' → XN lv { s with op := op' }
  noskip : ∀ lv s, s.skipDeage = true → JN lv s → XN lv s → XN lv { s with skipDeage := false }
  skipA : ∀ st sz ls s c cs p ps ce x k, Core n s → TopOK s.op (k + 1) s.path s.choices ((st, sz) :: ls) →
    s.skipDeage = false → s.op.age + 1 = s.path.length → s.choices = c :: cs → s.path = p :: ps →
    s.op.order.get (c - 1) = .ok ce →
    (decide (s.count > 0) && hasPrefix s.flPath.toList ps.reverse) = true → s.flOrbits[ce]? = some x → x ≥ 0 →
    JN ((st, sz) :: ls) s → XN ((st, sz) :: ls) s →
    XN ((st, sz) :: ls) { s with choices := (c - 1) :: cs, skipDeage := true }
  skipB : ∀ st sz ls s c cs p ps ce bo k, Core n s → TopOK s.op (k + 1) s.path s.choices ((st, sz) :: ls) →
    s.skipDeage = false → s.op.age + 1 = s.path.length → s.choices = c :: cs → s.path = p :: ps →
    s.op.order.get (c - 1) = .ok ce →
    (decide (s.count > 0) && !hasPrefix s.flPath.toList ps.reverse && hasPrefix s.bestPath.toList ps.reverse) = true →
    h2Best s.op s.bestOrbits (c - 1) ce = .ok (true, bo) →
    JN ((st, sz) :: ls) s → XN ((st, sz) :: ls) s →
    XN ((st, sz) :: ls) { s with choices := (c - 1) :: cs, bestOrbits := bo, skipDeage := true }
  split : ∀ st sz ls s c cs p ps ce bo w op' k, Core n s → TopOK s.op (k + 1) s.path s.choices ((st, sz) :: ls) →
    s.skipDeage = false → s.op.age + 1 = s.path.length → s.choices = c :: cs → s.path = p :: ps →
    s.op.order.get (c - 1) = .ok ce →
    (if (decide (s.count > 0) && !hasPrefix s.flPath.toList ps.reverse && hasPrefix s.bestPath.toList ps.reverse) = true
      then h2Best s.op s.bestOrbits (c - 1) ce else Outcome.ok (false, s.bestOrbits)) = .ok (false, bo) →
    NonSingleton s.op.binDividers.toList (c - 1) →
    (∀ t, t < binStartOf s.op.binDividers.toList (c - 1) → t + 1 ∈ s.op.binDividers.toList) →
    splitBin nb s.currentBest s.firstLeaf s.op (c - 1) = .ok (w, op') →
    JN ((st, sz) :: ls) s → XN ((st, sz) :: ls) s →
    (w = false → JS ((st, sz) :: ls) { s with choices := (c - 1) :: cs, bestOrbits := bo, op := op', path := k :: ps } →
      XS ((st, sz) :: ls) { s with choices := (c - 1) :: cs, bestOrbits := bo, op := op', path := k :: ps }) ∧
    (w = true → JA ((st, sz) :: ls) { s with choices := (c - 1) :: cs, bestOrbits := bo, op := op', path := k :: ps } →
      XA ((st, sz) :: ls) { s with choices := (c - 1) :: cs, bestOrbits := bo, op := op', path := k :: ps })
  pop : ∀ st sz ls s, Core n s → TopOK s.op 0 s.path s.choices ((st, sz) :: ls) → s.skipDeage = false →
    s.op.age + 1 = s.path.length → JN ((st, sz) :: ls) s → XN ((st, sz) :: ls) s →
    XA ls { s with path := s.path.drop 1, choices := s.choices.drop 1 }
  node : ∀ lv worse s s1 lv1, MInv n m nb s → (s.count = 0 → worse = false) → LevelsOK s.op s.path s.choices lv →
    JM lv worse s → XM lv worse s →
    (if (!worse && s.op.binDividers.len == n) = true then leafNode n m s
      else if (!worse) = true then innerNode s else Outcome.ok s) = .ok s1 →
    LevelsOK s1.op s1.path s1.choices lv1 → JA lv1 s1 → (s1.skipDeage = true → JN lv1 s1) →
    XA lv1 s1 ∧ (s1.skipDeage = true → XN lv1 s1)
  refine : ∀ lv s w op' sc', Core n s → LevelsOK s.op s.path s.choices lv → s.op.age = s.path.length →
    s.skipDeage = false → s.sc.timesSeen.len = n → JS lv s → XS lv s →
    refine nb s.currentBest s.firstLeaf {} s.op s.sc = .ok (w, op', sc') →
    JM lv w { s with op := op', sc := { dws := ⟨sc'.dws.data, n⟩, nbs := ⟨sc'.nbs.data, n⟩, space := ⟨sc'.space.data, n⟩,
                                          timesSeen := ⟨sc'.timesSeen.data, n⟩, maxCell := ⟨sc'.maxCell.data, n⟩,
                                          numberOfMax := ⟨sc'.numberOfMax.data, n⟩ } } →
    XM lv w { s with op := op', sc := { dws := ⟨sc'.dws.data, n⟩, nbs := ⟨sc'.nbs.data, n⟩, space := ⟨sc'.space.data, n⟩,
                                          timesSeen := ⟨sc'.timesSeen.data, n⟩, maxCell := ⟨sc'.maxCell.data, n⟩,
                                          numberOfMax := ⟨sc'.numberOfMax.data, n⟩ } }

theorem MainJ.extend {n m : Nat} {nb : Nbrs} {JA JN JS : List (Nat × Nat) → LS → Prop}
    {JM : List (Nat × Nat) → Bool → LS → Prop} {XA XN XS : List (Nat × Nat) → LS → Prop}
    {XM : List (Nat × Nat) → Bool → LS → Prop} (hJ : MainJ n m nb JA JN JS JM) (hX : MainJX n m nb JA JN JS JM XA XN XS XM) :
    MainJ n m nb (fun lv s => JA lv s ∧ XA lv s) (fun lv s => JN lv s ∧ XN lv s) (fun lv s => JS lv s ∧ XS lv s)
      (fun lv w s => JM lv w s ∧ XM lv w s) where
  step :=
    { na := fun lv s h => ⟨hJ.step.na lv s h.1, hX.na lv s h.1 h.2⟩
      deage := fun lv s op' k hc ht hsk hage h hd =>
        ⟨hJ.step.deage lv s op' k hc ht hsk hage h.1 hd, hX.deage lv s op' k hc ht hsk hage h.1 h.2 hd⟩
      noskip := fun lv s hsk h => ⟨hJ.step.noskip lv s hsk h.1, hX.noskip lv s hsk h.1 h.2⟩
      skipA := fun st sz ls s c cs p ps ce x k hc ht hsk hage hch hpth hget hon hx hx0 h =>
        ⟨hJ.step.skipA st sz ls s c cs p ps ce x k hc ht hsk hage hch hpth hget hon hx hx0 h.1,
          hX.skipA st sz ls s c cs p ps ce x k hc ht hsk hage hch hpth hget hon hx hx0 h.1 h.2⟩
      skipB := fun st sz ls s c cs p ps ce bo k hc ht hsk hage hch hpth hget hon hh h =>
        ⟨hJ.step.skipB st sz ls s c cs p ps ce bo k hc ht hsk hage hch hpth hget hon hh h.1,
          hX.skipB st sz ls s c cs p ps ce bo k hc ht hsk hage hch hpth hget hon hh h.1 h.2⟩
      split := fun st sz ls s c cs p ps ce bo w op' k hc ht hsk hage hch hpth hget hh hns hfb hs h => by
        obtain ⟨b1, b2⟩ := hJ.step.split st sz ls s c cs p ps ce bo w op' k hc ht hsk hage hch hpth hget hh hns hfb hs h.1
        obtain ⟨x1, x2⟩ := hX.split st sz ls s c cs p ps ce bo w op' k hc ht hsk hage hch hpth hget hh hns hfb hs h.1 h.2
        exact ⟨fun hw => ⟨b1 hw, x1 hw (b1 hw)⟩, fun hw => ⟨b2 hw, x2 hw (b2 hw)⟩⟩
      pop := fun st sz ls s hc ht hsk hage h =>
        ⟨hJ.step.pop st sz ls s hc ht hsk hage h.1, hX.pop st sz ls s hc ht hsk hage h.1 h.2⟩ }
  node := fun lv worse s s1 hI hw hlv hM hs1 => by
    obtain ⟨lv1, l1, a1, n1⟩ := hJ.node lv worse s s1 hI hw hlv hM.1 hs1
    obtain ⟨x1, x2⟩ := hX.node lv worse s s1 lv1 hI hw hlv hM.1 hM.2 hs1 l1 a1 n1
    exact ⟨lv1, l1, ⟨a1, x1⟩, fun hsk => ⟨n1 hsk, x2 hsk⟩⟩
  refine := fun lv s w op' sc' hc hl hage hsk htl h hr => by
    have b := hJ.refine lv s w op' sc' hc hl hage hsk htl h.1 hr
    exact ⟨b, hX.refine lv s w op' sc' hc hl hage hsk htl h.1 h.2 hr b⟩

/-- an invariant whose predicates do not look at the ghost stack can be added to any other invariant -/
theorem MainJ.toX {n m : Nat} {nb : Nbrs} {JA JN JS : List (Nat × Nat) → LS → Prop}
    {JM : List (Nat × Nat) → Bool → LS → Prop} {PA PN PS : LS → Prop} {PM : Bool → LS → Prop}
    (hP : MainJ n m nb (fun _ s => PA s) (fun _ s => PN s) (fun _ s => PS s) (fun _ w s => PM w s)) :
    MainJX n m nb JA JN JS JM (fun _ s => PA s) (fun _ s => PN s) (fun _ s => PS s) (fun _ w s => PM w s) where
  na := fun lv s _ h => hP.step.na lv s h
  deage := fun lv s op' k hc ht hsk hage _ h hd => hP.step.deage lv s op' k hc ht hsk hage h hd
  noskip := fun lv s hsk _ h => hP.step.noskip lv s hsk h
  skipA := fun st sz ls s c cs p ps ce x k hc ht hsk hage hch hpth hget hon hx hx0 _ h =>
    hP.step.skipA st sz ls s c cs p ps ce x k hc ht hsk hage hch hpth hget hon hx hx0 h
  skipB := fun st sz ls s c cs p ps ce bo k hc ht hsk hage hch hpth hget hon hh _ h =>
    hP.step.skipB st sz ls s c cs p ps ce bo k hc ht hsk hage hch hpth hget hon hh h
  split := fun st sz ls s c cs p ps ce bo w op' k hc ht hsk hage hch hpth hget hh hns hfb hs _ h => by
    obtain ⟨q1, q2⟩ := hP.step.split st sz ls s c cs p ps ce bo w op' k hc ht hsk hage hch hpth hget hh hns hfb hs h
    exact ⟨fun hw _ => q1 hw, fun hw _ => q2 hw⟩
  pop := fun st sz ls s hc ht hsk hage _ h => hP.step.pop st sz ls s hc ht hsk hage h
  node := fun lv worse s s1 _ hI hw hlv _ hM hs1 _ _ _ => by
    obtain ⟨_, _, a1, n1⟩ := hP.node lv worse s s1 hI hw hlv hM hs1
    exact ⟨a1, n1⟩
  refine := fun lv s w op' sc' hc hl hage hsk htl _ h hr _ => hP.refine lv s w op' sc' hc hl hage hsk htl h hr

end CanonF
