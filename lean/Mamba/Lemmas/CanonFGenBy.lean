import Mamba.Lemmas.CanonFGenDef
/-!
# List algebra of `compL` / `invL` and closure properties of `GenBy`
-/
namespace CanonF
open Relation

theorem compL_getD {n : Nat} {α β : List Nat} {x : Nat} (hx : x < n) : (compL n α β).getD x 0 = α.getD (β.getD x 0) 0 := by
  unfold compL
  rw [List.getD_eq_getElem?_getD, List.getElem?_map, List.getElem?_range hx]
  rfl

theorem invL_getD {n : Nat} {α : List Nat} {x : Nat} (hx : x < n) : (invL n α).getD x 0 = α.idxOf x := by
  unfold invL
  rw [List.getD_eq_getElem?_getD, List.getElem?_map, List.getElem?_range hx]
  rfl

theorem compL_length (n : Nat) (α β : List Nat) : (compL n α β).length = n := by simp [compL]
theorem invL_length (n : Nat) (α : List Nat) : (invL n α).length = n := by simp [invL]

/-- two lists of length `n` that agree below `n` -/
theorem list_ext_getD {n : Nat} {α β : List Nat} (hα : α.length = n) (hβ : β.length = n)
    (h : ∀ x, x < n → α.getD x 0 = β.getD x 0) : α = β := by
  apply List.ext_getElem?
  intro i
  rcases Nat.lt_or_ge i n with hi | hi
  · have := h i hi
    rw [List.getD_eq_getElem?_getD, List.getD_eq_getElem?_getD, List.getElem?_eq_getElem (by omega),
      List.getElem?_eq_getElem (by omega), Option.getD_some, Option.getD_some] at this
    rw [List.getElem?_eq_getElem (by omega), List.getElem?_eq_getElem (by omega), this]
  · rw [List.getElem?_eq_none (by omega), List.getElem?_eq_none (by omega)]

theorem perm_getD_lt {n : Nat} {α : List Nat} (hα : α.Perm (List.range n)) {x : Nat} (hx : x < n) : α.getD x 0 < n := by
  obtain ⟨hl, _, hmem⟩ := aut_perm_facts hα
  exact (hmem _).1 (prl_getD_mem (by omega))

theorem gby_getD_inj {n : Nat} {α : List Nat} (hα : α.Perm (List.range n)) {x y : Nat} (hx : x < n) (hy : y < n)
    (e : α.getD x 0 = α.getD y 0) : x = y := by
  obtain ⟨hl, hnd, _⟩ := aut_perm_facts hα
  have h1 := aut_idxOf_getD hnd (p := x) (by omega)
  have h2 := aut_idxOf_getD hnd (p := y) (by omega)
  rw [e] at h1
  omega

/-- a duplicate-free list of `n` numbers below `n` is a permutation of `0..n-1` -/
theorem gby_perm_of_map {n : Nat} (f : Nat → Nat) (hlt : ∀ x, x < n → f x < n)
    (hinj : ∀ x y, x < n → y < n → f x = f y → x = y) : ((List.range n).map f).Perm (List.range n) := by
  have hnd : ((List.range n).map f).Nodup := by
    apply List.Nodup.map_on _ List.nodup_range
    intro x hx y hy e
    exact hinj x y (List.mem_range.1 hx) (List.mem_range.1 hy) e
  have hsub : ((List.range n).map f) ⊆ List.range n := by
    intro z hz
    obtain ⟨x, hx, rfl⟩ := List.mem_map.1 hz
    exact List.mem_range.2 (hlt x (List.mem_range.1 hx))
  exact (List.subperm_of_subset hnd hsub).perm_of_length_le (by simp)

theorem compL_perm {n : Nat} {α β : List Nat} (hα : α.Perm (List.range n)) (hβ : β.Perm (List.range n)) :
    (compL n α β).Perm (List.range n) := by
  unfold compL
  apply gby_perm_of_map
  · intro x hx; exact perm_getD_lt hα (perm_getD_lt hβ hx)
  · intro x y hx hy e
    exact gby_getD_inj hβ hx hy (gby_getD_inj hα (perm_getD_lt hβ hx) (perm_getD_lt hβ hy) e)

theorem invL_perm {n : Nat} {α : List Nat} (hα : α.Perm (List.range n)) : (invL n α).Perm (List.range n) := by
  obtain ⟨hl, hnd, hmem⟩ := aut_perm_facts hα
  unfold invL
  apply gby_perm_of_map
  · intro x hx
    have := List.idxOf_lt_length_of_mem ((hmem x).2 hx)
    omega
  · intro x y hx hy e
    have h1 := aut_getD_idxOf ((hmem x).2 hx)
    have h2 := aut_getD_idxOf ((hmem y).2 hy)
    rw [e] at h1
    omega

theorem invL_left {n : Nat} {α : List Nat} (hα : α.Perm (List.range n)) {x : Nat} (hx : x < n) :
    (invL n α).getD (α.getD x 0) 0 = x := by
  obtain ⟨hl, hnd, _⟩ := aut_perm_facts hα
  rw [invL_getD (perm_getD_lt hα hx)]
  exact aut_idxOf_getD hnd (by omega)

theorem invL_right {n : Nat} {α : List Nat} (hα : α.Perm (List.range n)) {x : Nat} (hx : x < n) :
    α.getD ((invL n α).getD x 0) 0 = x := by
  obtain ⟨_, _, hmem⟩ := aut_perm_facts hα
  rw [invL_getD hx]
  exact aut_getD_idxOf ((hmem x).2 hx)

theorem gby_range_getD {n x : Nat} (hx : x < n) : (List.range n).getD x 0 = x := by
  rw [List.getD_eq_getElem?_getD, List.getElem?_range hx]; rfl

theorem isAutL_id (nb : Nbrs) (n : Nat) : IsAutL nb n (List.range n) := by
  refine ⟨List.Perm.refl _, fun x y hx hy => ?_⟩
  rw [gby_range_getD hx, gby_range_getD hy]

theorem isAutL_comp {nb : Nbrs} {n : Nat} {α β : List Nat} (hα : IsAutL nb n α) (hβ : IsAutL nb n β) :
    IsAutL nb n (compL n α β) := by
  refine ⟨compL_perm hα.1 hβ.1, fun x y hx hy => ?_⟩
  rw [compL_getD hx, compL_getD hy, hβ.2 x y hx hy]
  exact hα.2 _ _ (perm_getD_lt hβ.1 hx) (perm_getD_lt hβ.1 hy)

theorem isAutL_inv {nb : Nbrs} {n : Nat} {α : List Nat} (hα : IsAutL nb n α) : IsAutL nb n (invL n α) := by
  have hp := invL_perm hα.1
  refine ⟨hp, fun x y hx hy => ?_⟩
  have := hα.2 _ _ (perm_getD_lt hp hx) (perm_getD_lt hp hy)
  rw [invL_right hα.1 hx, invL_right hα.1 hy] at this
  exact this.symm

theorem GenBy.mono {S S' : List Nat → Prop} {n : Nat} (h : ∀ γ, S γ → S' γ) {γ : List Nat} (hγ : GenBy S n γ) :
    GenBy S' n γ := by
  induction hγ with
  | id => exact GenBy.id
  | gen γ hs => exact GenBy.gen γ (h γ hs)
  | comp α β _ _ iha ihb => exact GenBy.comp α β iha ihb
  | inv α _ iha => exact GenBy.inv α iha

theorem GenBy.perm {S : List Nat → Prop} {n : Nat} (hS : ∀ γ, S γ → γ.Perm (List.range n)) {γ : List Nat}
    (hγ : GenBy S n γ) : γ.Perm (List.range n) := by
  induction hγ with
  | id => exact List.Perm.refl _
  | gen γ hs => exact hS γ hs
  | comp α β _ _ iha ihb => exact compL_perm iha ihb
  | inv α _ iha => exact invL_perm iha

theorem GenBy.isAut {S : List Nat → Prop} {nb : Nbrs} {n : Nat} (hS : ∀ γ, S γ → IsAutL nb n γ) {γ : List Nat}
    (hγ : GenBy S n γ) : IsAutL nb n γ := by
  induction hγ with
  | id => exact isAutL_id nb n
  | gen γ hs => exact hS γ hs
  | comp α β _ _ iha ihb => exact isAutL_comp iha ihb
  | inv α _ iha => exact isAutL_inv iha

/-- closure of "preserves the colouring `c`" -/
theorem GenBy.pres {S : List Nat → Prop} {n : Nat} (hS : ∀ γ, S γ → γ.Perm (List.range n)) (c : Array Nat)
    (hc : ∀ γ, S γ → ∀ v, v < n → IR.col c (γ.getD v 0) = IR.col c v) {γ : List Nat} (hγ : GenBy S n γ) :
    ∀ v, v < n → IR.col c (γ.getD v 0) = IR.col c v := by
  induction hγ with
  | id => intro v hv; rw [gby_range_getD hv]
  | gen γ hs => exact hc γ hs
  | comp α β _ hb iha ihb =>
    intro v hv
    rw [compL_getD hv, iha _ (perm_getD_lt (GenBy.perm hS hb) hv), ihb v hv]
  | inv α ha iha =>
    intro v hv
    have hp := GenBy.perm hS ha
    have := iha _ (perm_getD_lt (invL_perm hp) hv)
    rw [invL_right hp hv] at this
    exact this.symm

/-- a chain of generator steps (forwards and backwards) is realised by one element of the generated group -/
theorem genBy_of_eqvGen {S : List Nat → Prop} {n : Nat} (hS : ∀ γ, S γ → γ.Perm (List.range n)) {a b : Nat} (ha : a < n)
    (h : EqvGen (fun x y => ∃ γ, S γ ∧ γ[x]? = some y) a b) : ∃ β, GenBy S n β ∧ β.getD a 0 = b := by
  have key : (a < n ↔ b < n) ∧ (a < n → ∃ β, GenBy S n β ∧ β.getD a 0 = b) := by
    clear ha
    induction h with
    | rel x y hxy =>
      obtain ⟨γ, hs, hg⟩ := hxy
      obtain ⟨hl, _, hmem⟩ := aut_perm_facts (hS γ hs)
      obtain ⟨hx, e⟩ := List.getElem?_eq_some_iff.1 hg
      have hy : y < n := (hmem y).1 (by rw [← e]; exact List.getElem_mem _)
      refine ⟨⟨fun _ => hy, fun _ => by omega⟩, fun _ => ⟨γ, GenBy.gen γ hs, ?_⟩⟩
      rw [List.getD_eq_getElem?_getD, hg]; rfl
    | refl x => exact ⟨Iff.rfl, fun hx => ⟨List.range n, GenBy.id, gby_range_getD hx⟩⟩
    | symm x y _ ih =>
      refine ⟨ih.1.symm, fun hy => ?_⟩
      obtain ⟨β, hβ, e⟩ := ih.2 (ih.1.2 hy)
      refine ⟨invL n β, GenBy.inv β hβ, ?_⟩
      rw [← e]
      exact invL_left (GenBy.perm hS hβ) (ih.1.2 hy)
    | trans x y z _ _ ih1 ih2 =>
      refine ⟨ih1.1.trans ih2.1, fun hx => ?_⟩
      obtain ⟨β1, hβ1, e1⟩ := ih1.2 hx
      obtain ⟨β2, hβ2, e2⟩ := ih2.2 (ih1.1.1 hx)
      refine ⟨compL n β2 β1, GenBy.comp β2 β1 hβ2 hβ1, ?_⟩
      rw [compL_getD hx, e1, e2]
  exact key.2 ha

/-- `γ = β ∘ (β⁻¹ ∘ γ)` -/
theorem genBy_factor {S : List Nat → Prop} {n : Nat} {β γ : List Nat} (hβp : β.Perm (List.range n))
    (hγp : γ.Perm (List.range n)) (hβ : GenBy S n β) (hδ : GenBy S n (compL n (invL n β) γ)) : GenBy S n γ := by
  have e : compL n β (compL n (invL n β) γ) = γ := by
    apply list_ext_getD (compL_length _ _ _) (aut_perm_facts hγp).1
    intro x hx
    rw [compL_getD hx, compL_getD hx, invL_right hβp (perm_getD_lt hγp hx)]
  rw [← e]
  exact GenBy.comp _ _ hβ hδ

end CanonF
