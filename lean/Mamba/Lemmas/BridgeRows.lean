import Mamba.Lemmas.ExactFinal
import Mamba.Lemmas.IRIso
namespace Search
open GraphSpec GSearch

theorem nbr_fold (f : List Nat → Nat → Outcome (List Nat)) (p : Nat → Bool) :
    ∀ (l : List Nat) (acc : List Nat),
      (∀ i ∈ l, ∀ acc, f acc i = .ok (if p i then i :: acc else acc)) →
      l.foldlM (m := Outcome) f acc = .ok ((l.filter p).reverse ++ acc)
  | [], acc, _ => by simp
  | i :: is, acc, h => by
    simp only [List.foldlM_cons, h i List.mem_cons_self, bind, Outcome.bind]
    rw [nbr_fold f p is _ (fun j hj => h j (List.mem_cons_of_mem _ hj))]
    by_cases hp : p i = true
    · simp [List.filter_cons, hp]
    · have : p i = false := by simpa using hp
      simp [List.filter_cons, this]

theorem bit_dec {b : Nat} {a : Bool} (h01 : b = 0 ∨ b = 1) (h : b = 1 ↔ a = true) : decide (b > 0) = a := by
  rcases h01 with rfl | rfl
  · have : a = false := by
      cases a
      · rfl
      · exact absurd (h.2 rfl) (by decide)
    simp [this]
  · simp [h.1 rfl]

/-- one row of `updateNeighbours` is the neighbour list of the abstraction -/
theorem nbrRow_spec {g : DG} (hb : Built g) {v : Nat} (hv : v < g.nv) : nbrRow g v = .ok (g.toG.nbrs v) := by
  unfold nbrRow
  have h1 := nbr_fold (fun acc i =>
      match g.edges[tri v + i]? with
      | none => Outcome.panic
      | some b => Outcome.ok (if b > 0 then i :: acc else acc)) (fun i => g.toG.adj v i) (List.range v) [] (by
    intro i hi acc
    have hi' : i < v := List.mem_range.1 hi
    obtain ⟨b, hb1, hb2⟩ := edgeAt_adj hb hi' hv
    rw [(toG_wf g).symm i v] at hb2
    have h01 := hb.edges01 (tri v + i) (by rw [hb.sized.edges]; exact tri_add_lt hi' hv)
    unfold DG.edgeAt at hb1
    rw [hb1] at h01
    have := bit_dec (by rcases h01 with h | h <;> [left; right] <;> exact Option.some.inj h) hb2
    simp only [hb1]
    by_cases hpos : b > 0
    · have : g.toG.adj v i = true := by rw [← this]; simpa using hpos
      simp [hpos, this]
    · have : g.toG.adj v i = false := by rw [← this]; simpa using hpos
      simp [hpos, this])
  have h2 := fun acc => nbr_fold (fun acc i =>
      match g.edges[tri i + v]? with
      | none => Outcome.panic
      | some b => Outcome.ok (if b > 0 then i :: acc else acc)) (fun i => g.toG.adj v i)
        ((List.range g.nv).drop (v + 1)) acc (by
    intro i hi acc
    have hi1 : i < g.nv := List.mem_range.1 (List.mem_of_mem_drop hi)
    have hi2 : v < i := by
      obtain ⟨k, hk, he⟩ := List.getElem_of_mem hi
      simp only [List.getElem_drop, List.getElem_range] at he
      omega
    obtain ⟨b, hb1, hb2⟩ := edgeAt_adj hb hi2 hi1
    have h01 := hb.edges01 (tri i + v) (by rw [hb.sized.edges]; exact tri_add_lt hi2 hi1)
    unfold DG.edgeAt at hb1
    rw [hb1] at h01
    have := bit_dec (by rcases h01 with h | h <;> [left; right] <;> exact Option.some.inj h) hb2
    simp only [hb1]
    by_cases hpos : b > 0
    · have : g.toG.adj v i = true := by rw [← this]; simpa using hpos
      simp [hpos, this]
    · have : g.toG.adj v i = false := by rw [← this]; simpa using hpos
      simp [hpos, this])
  simp only [bind, Outcome.bind, pure]
  erw [h1]
  simp only
  erw [h2]
  simp only
  congr 1
  unfold G.nbrs
  show _ = (List.range g.nv).filter fun u => g.toG.adj v u
  have hsplit : List.range g.nv = List.range v ++ [v] ++ (List.range g.nv).drop (v + 1) := by
    apply List.ext_getElem
    · simp; omega
    · intro i h1 h2
      simp only [List.getElem_range]
      by_cases hi : i < v
      · rw [List.getElem_append_left (by simp; omega), List.getElem_append_left (by simpa using hi)]
        simp
      · by_cases hiv : i = v
        · subst hiv
          rw [List.getElem_append_left (by simp)]
          simp
        · rw [List.getElem_append_right (by simp; omega)]
          simp; omega
  conv_rhs => rw [hsplit]
  simp [List.filter_append, (toG_wf g).irrefl]

end Search
