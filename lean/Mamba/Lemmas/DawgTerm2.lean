import Mamba.Lemmas.DawgTerm
import Mamba.Lemmas.DawgFuel
import Mamba.Lemmas.DawgMinimal
/-! `listNodes` / `gobEncode` return on every ranked (acyclic) automaton, in particular on every built one. -/
namespace Dawg

/-- total length of the language represented by a node (0 when the node represents nothing) -/
noncomputable def langRank (h : Heap) (p : Nat) : Nat :=
  open Classical in if ex : ∃ L, Rep h p L then totalLen (Classical.choose ex) else 0

theorem langRank_eq {h : Heap} {p : Nat} {L : List Word} (hr : Rep h p L) : langRank h p = totalLen L := by
  unfold langRank
  have ex : ∃ L, Rep h p L := ⟨L, hr⟩
  rw [dif_pos ex]
  rw [(Classical.choose_spec ex).unique hr]

/-- a finished automaton over byte strings is ranked by the total length of the languages, with at most 256 links -/
theorem Finished.ranked {d : Dawg} {ws : List Word} (hf : Finished d ws) (hbytes : ∀ w ∈ ws, ∀ c ∈ w, c < 256) :
    Ranked d (langRank d.heap) 256 := by
  obtain ⟨R, n, hreg, hn, hlinks⟩ := hf.reg
  have hreach := hf.reach hreg hn hlinks
  refine ⟨?_, ?_⟩
  · intro p np q hp hnp hq
    obtain ⟨_, x, hrep, _⟩ := hreach p hp
    have hqr : Reach d.heap d.root q := Reach.step hp hnp hq
    have hqR : q ∈ R := by
      rcases (hreach q hqr).1 with h1 | h1
      · subst h1
        exfalso
        have : d.root ∈ R := by
          rcases (hreach p hp).1 with h2 | h2
          · subst h2; rw [hn] at hnp; cases hnp; exact hlinks _ hq
          · exact hreg.closed p h2 np hnp _ hq
        rw [hf.root0] at this
        exact hreg.nz this
      · exact h1
    obtain ⟨Lq, hLq, hne⟩ := hreg.rep q hqR
    cases hrep with
    | @mk _ n' _ hn' hs hfin hnum hlab hlen hmem hkids =>
      rw [hnp] at hn'; cases hn'
      obtain ⟨j, hj, hjq⟩ := List.getElem_of_mem hq
      have hjl : j < np.labels.length := by rw [hlen]; exact hj
      have hrq := hkids j _ q (List.getElem?_eq_getElem hjl) (by rw [← hjq]; exact List.getElem?_eq_getElem hj)
      have heq : sub (subw ws x) np.labels[j] = Lq := hrq.unique hLq
      rw [langRank_eq hrq, langRank_eq (Rep.mk hnp hs hfin hnum hlab hlen hmem hkids)]
      exact totalLen_sub_lt _ _ (by rw [heq]; exact hne)
  · intro p np hp hnp
    obtain ⟨_, x, hrep, _⟩ := hreach p hp
    cases hrep with
    | @mk _ n' _ hn' hs hfin hnum hlab hlen hmem hkids =>
      rw [hnp] at hn'; cases hn'
      have hb : ∀ c ∈ np.labels, c < 256 := by
        intro c hc
        have hne := (hmem c).1 hc
        cases hsub : sub (subw ws x) c with
        | nil => exact absurd hsub hne
        | cons t _ =>
          have ht : t ∈ sub (subw ws x) c := by rw [hsub]; exact List.mem_cons_self
          have := mem_subw.1 (mem_sub.1 ht)
          exact hbytes _ this c (by simp)
      rw [← hlen]
      exact nodup_length_le 256 np.labels (nat_sorted_nodup hlab) hb

theorem accRun_subset : ∀ (adds pre : List Word), ∀ w ∈ (accRun pre adds).1, w ∈ pre ∨ w ∈ adds := by
  intro adds
  induction adds with
  | nil => intro pre w hw; exact Or.inl hw
  | cons a adds ih =>
    intro pre w hw
    simp only [accRun] at hw
    rcases ih _ w hw with h1 | h1
    · unfold accStep at h1
      split at h1
      · simp at h1; rcases h1 with h1 | h1
        · exact Or.inl h1
        · exact Or.inr (by simp [h1])
      · split at h1
        · simp at h1; rcases h1 with h1 | h1
          · exact Or.inl h1
          · exact Or.inr (by simp [h1])
        · exact Or.inl h1
    · exact Or.inr (List.mem_cons_of_mem _ h1)

/-- on every automaton built from byte strings the traversal of `GobEncode` returns for all sufficiently large fuel -/
theorem gobEncode_built_total {adds : List Word} {d : Dawg} {es : List Bool} (hb : build adds = .ok (some d, es))
    (hbytes : ∀ w ∈ adds, ∀ c ∈ w, c < 256) (hcount : adds.length < 2 ^ 64) (hsize : d.heap.size < 2 ^ 64) :
    ∃ f0 bs, ∀ f, f0 ≤ f → gobEncode f d = .ok bs := by
  have hf := finished_of_build hb
  have wf := wf_of_build hb hbytes hcount hsize
  have hbytes' : ∀ w ∈ (accRun [] adds).1, ∀ c ∈ w, c < 256 := by
    intro w hw
    rcases accRun_subset adds [] w hw with h1 | h1
    · cases h1
    · exact hbytes w h1
  obtain ⟨bs, hbs⟩ := gobEncode_total d wf _ 256 (hf.ranked hbytes')
  refine ⟨Qp 256 (langRank d.heap d.root + 1), bs, ?_⟩
  intro f hle
  obtain ⟨k, rfl⟩ := Nat.exists_eq_add_of_le hle
  exact gobEncode_mono d _ bs hbs k

end Dawg
