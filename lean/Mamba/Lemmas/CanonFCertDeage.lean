import Mamba.Lemmas.CanonFDeage
import Mamba.Lemmas.CanonFCert
/-!
# `deage` and the certificate invariant

* `DeageInv2` — second invariant of the main loop of `deage`: `spl` drops exactly to the index of the first removed
  divider if that index is `< spl`; `deage_first_removed` is the resulting description of `deage`.
* `deage_bd_prefix`, `deage_order_agree`, `deage_bin_single`, `deage_prefixSingle` — dividers / order in front of the first
  removed divider are untouched; a singleton bin of the result was a surviving singleton bin before.
* `deage_cert` — `VAny` before `deage` gives `VN` (= `VClean`) after it.
-/
namespace CanonF

/-- second loop invariant of `deage`: `spl` drops exactly to the index of the first removed divider, if that is
inside the old prefix -/
structure DeageInv2 (op : OP) (st : DeageSt) : Prop where
  jLe : st.j ≤ st.prev1
  jPrev : st.j = st.prev1 ∨ ∃ k d, k ≤ st.j ∧ k < st.prev1 ∧ (divs op)[k]? = some (d, op.age)
  splCase :
    (st.op.spl = op.spl ∧ st.op.value.len = op.value.len ∧
      ∀ k d, k < st.prev1 → (divs op)[k]? = some (d, op.age) → op.spl ≤ k) ∨
    (st.op.spl < st.j ∧ st.op.spl < op.spl ∧ (∀ k d, k < st.op.spl → (divs op)[k]? ≠ some (d, op.age)) ∧
      ∃ d, (divs op)[st.op.spl]? = some (d, op.age))

theorem DeageInv2.init (op : OP) : DeageInv2 op { op := op, j := 0, prev1 := 0, prevDiv := 0 } := by
  refine ⟨Nat.le_refl _, Or.inl rfl, Or.inl ⟨rfl, rfl, ?_⟩⟩
  intro k d hk
  exact absurd hk (Nat.not_lt_zero _)

theorem DeageInv2.keep {n : Nat} {op : OP} {st : DeageSt} {i di : Nat} {a : Int} {bd : Sl Nat} {ages : Sl Int} {opm : OP}
    (_h : PartInv n op) (hinv : DeageInv op i st) (h2 : DeageInv2 op st)
    (hD : (divs op)[i]? = some (di, a)) (ha : a ≠ op.age)
    (hm : (if i > st.prev1 then deageMergeBin { st.op with binDividers := bd, binAges := ages } st.j st.prevDiv di
           else .ok { st.op with binDividers := bd, binAges := ages }) = .ok opm) :
    DeageInv2 op { op := opm, j := st.j + 1, prev1 := i + 1, prevDiv := di } := by
  have hji : st.j ≤ i := by rw [hinv.hj]; exact deageKept_length_le op i
  have hpl := hinv.prevLe
  have hnot : ∀ d, (divs op)[i]? ≠ some (d, op.age) := by
    intro d hc; rw [hD] at hc; cases hc; exact ha rfl
  refine ⟨?_, ?_, ?_⟩
  · show st.j + 1 ≤ i + 1
    omega
  · show st.j + 1 = i + 1 ∨ ∃ k d, k ≤ st.j + 1 ∧ k < i + 1 ∧ (divs op)[k]? = some (d, op.age)
    rcases h2.jPrev with e | ⟨k, d, k1, k2, k3⟩
    · by_cases hc : st.prev1 = i
      · exact Or.inl (by omega)
      · obtain ⟨d, hd⟩ := hinv.prevRemoved st.prev1 (Nat.le_refl _) (by omega)
        exact Or.inr ⟨st.prev1, d, by omega, by omega, hd⟩
    · exact Or.inr ⟨k, d, by omega, by omega, k3⟩
  · show (opm.spl = op.spl ∧ opm.value.len = op.value.len ∧
        ∀ k d, k < i + 1 → (divs op)[k]? = some (d, op.age) → op.spl ≤ k) ∨
      (opm.spl < st.j + 1 ∧ opm.spl < op.spl ∧ (∀ k d, k < opm.spl → (divs op)[k]? ≠ some (d, op.age)) ∧
        ∃ d, (divs op)[opm.spl]? = some (d, op.age))
    by_cases hc : i > st.prev1
    · rw [if_pos hc] at hm
      obtain ⟨_, _, _, _, _, _, _, m8⟩ := deageMergeBin_spec hm
      simp only at m8
      rcases m8 with ⟨e1, e2, e3⟩ | ⟨e1, e2, _⟩
      · rw [e1, e2]
        rcases h2.splCase with ⟨c1, c2, c3⟩ | ⟨c1, c2, c3, c4⟩
        · refine Or.inl ⟨c1, c2, ?_⟩
          intro k d hk hkd
          by_cases hki : k = i
          · subst hki; exact absurd hkd (hnot d)
          · by_cases hkp : k < st.prev1
            · exact c3 k d hkp hkd
            · have := h2.jLe; omega
        · exact Or.inr ⟨by omega, c2, c3, c4⟩
      · rcases h2.splCase with ⟨c1, c2, c3⟩ | ⟨c1, _⟩
        · have hjp : st.j = st.prev1 := by
            rcases h2.jPrev with e | ⟨k, d, k1, k2, k3⟩
            · exact e
            · have := c3 k d k2 k3; omega
          rw [e2]
          refine Or.inr ⟨by omega, by omega, ?_, ?_⟩
          · intro k d hk hkd
            have := c3 k d (by omega) hkd
            omega
          · rw [hjp]
            exact hinv.prevRemoved st.prev1 (Nat.le_refl _) hc
        · omega
    · rw [if_neg hc] at hm
      simp only [Outcome.ok.injEq] at hm
      subst hm
      have hpi : st.prev1 = i := by omega
      rcases h2.splCase with ⟨c1, c2, c3⟩ | ⟨c1, c2, c3, c4⟩
      · refine Or.inl ⟨c1, c2, ?_⟩
        intro k d hk hkd
        by_cases hki : k = i
        · subst hki; exact absurd hkd (hnot d)
        · exact c3 k d (by omega) hkd
      · exact Or.inr ⟨Nat.lt_succ_of_lt c1, c2, c3, c4⟩

theorem deageStep_inv2 {n : Nat} {op : OP} {st st' : DeageSt} {i : Nat} (h : PartInv n op) (hinv : DeageInv op i st)
    (h2 : DeageInv2 op st) (hi : i < op.binAges.len) (hs : deageStep op.age i st = .ok st') : DeageInv2 op st' := by
  obtain ⟨di, a, g1, g3, hD⟩ := hinv.entry h hi
  rw [deageStep_eq, g3] at hs
  simp only at hs
  by_cases ha : a = op.age
  · subst ha
    rw [if_neg (fun h => h rfl)] at hs
    simp only [Outcome.ok.injEq] at hs
    subst hs
    exact h2
  · rw [if_pos ha, g1] at hs
    simp only at hs
    cases hs1 : st.op.binDividers.set st.j di with
    | ok bd =>
      cases hs2 : st.op.binAges.set st.j a with
      | ok ages =>
        rw [hs1, hs2] at hs
        simp only at hs
        generalize hm : (if i > st.prev1 then deageMergeBin { st.op with binDividers := bd, binAges := ages } st.j st.prevDiv di
           else .ok { st.op with binDividers := bd, binAges := ages }) = m at hs
        cases m with
        | ok opm =>
          simp only [Outcome.ok.injEq] at hs
          subst hs
          exact DeageInv2.keep h hinv h2 hD ha hm
        | panic => cases hs
        | outOfFuel => cases hs
      | panic => rw [hs1, hs2] at hs; cases hs
      | outOfFuel => rw [hs1, hs2] at hs; cases hs
    | panic => rw [hs1] at hs; cases hs
    | outOfFuel => rw [hs1] at hs; cases hs

theorem deage_loop_inv2 {n : Nat} {op : OP} {st : DeageSt} (h : PartInv n op)
    (hloop : forRange (deageStep op.age) op.binAges.len 0 { op := op, j := 0, prev1 := 0, prevDiv := 0 } = .ok st) :
    DeageInv op op.binAges.len st ∧ DeageInv2 op st := by
  have := forRange_inv (deageStep op.age) (fun i st => DeageInv op i st ∧ DeageInv2 op st) op.binAges.len 0 _ st
    ⟨DeageInv.init op, DeageInv2.init op⟩
    (fun i s s' _ hi hP hs => ⟨deageStep_inv h hP.1 (by omega) hs, deageStep_inv2 h hP.1 hP.2 (by omega) hs⟩) hloop
  simpa using this


theorem Sl.deage_ext {α : Type} (s t : Sl α) (h1 : s.data = t.data) (h2 : s.len = t.len) : s = t := by
  cases s; cases t; simp_all

/-- `deage` in terms of the first removed divider: either no divider in front of `spl` is removed and `spl`, `value`
are unchanged, or `spl` becomes the index of the first removed divider and `value` is cut -/
theorem deage_first_removed {n : Nat} {op op' : OP} (h : PartInv n op) (ha : AgeInv op) (hage : 0 < op.age)
    (hd : deage op = .ok op') :
    ((∀ k d, (divs op)[k]? = some (d, op.age) → op.spl ≤ k) ∧ op'.spl = op.spl ∧ op'.value = op.value) ∨
    (op'.spl < op.spl ∧ (∀ k d, k < op'.spl → (divs op)[k]? ≠ some (d, op.age)) ∧
      (∃ d, (divs op)[op'.spl]? = some (d, op.age)) ∧
      op'.value.data = op.value.data ∧ op'.value.len ≤ op.value.len ∧
      (∀ x ∈ (op.value.toList.drop op'.value.len), ((op'.spl - 1) * op'.spl) / 2 ≤ x) ∧
      (op'.value.len = 0 ∨ ∃ x, op.value.toList[op'.value.len - 1]? = some x ∧ x < ((op'.spl - 1) * op'.spl) / 2)) := by
  obtain ⟨st, hloop⟩ := deage_loop_of_ok hd
  obtain ⟨hinv, h2⟩ := deage_loop_inv2 h hloop
  obtain ⟨op'', hd', _, _, e2, e3⟩ := deage_of_loop h ha hage hloop hinv
  rw [hd] at hd'
  cases hd'
  rw [e2, e3]
  have hL := deage_divs_length h
  have hLpos : 0 < op.binAges.len := by rw [h.lenAges]; exact h.bdLen_pos
  -- the last divider is kept, hence `prev1` is the number of dividers
  have hprev : st.prev1 = op.binAges.len := by
    by_cases hc : st.prev1 = op.binAges.len
    · exact hc
    · exfalso
      have := hinv.prevLe
      obtain ⟨d, hdd⟩ := hinv.prevRemoved (op.binAges.len - 1) (by omega) (by omega)
      have h1 := (deage_divs_getElem?.1 hdd).2
      have h3 := ha.last
      rw [List.getLast?_eq_getElem?, Sl.length_toList _ h.wfAges, h1] at h3
      have := Option.some.inj h3
      omega
  rcases h2.splCase with ⟨c1, c2, c3⟩ | ⟨c1, c2, c3, c4⟩
  · refine Or.inl ⟨?_, c1, Sl.deage_ext _ _ hinv.valData c2⟩
    intro k d hk
    have hkl : k < (divs op).length := (List.getElem?_eq_some_iff.1 hk).1
    exact c3 k d (by omega) hk
  · rcases hinv.valCase with ⟨v1, _⟩ | ⟨_, _, v3, v4⟩
    · omega
    · exact Or.inr ⟨c2, c3, c4, hinv.valData, hinv.valLen, v3, v4⟩

/-- filtering keeps a prefix on which the predicate holds -/
theorem deage_filter_prefix {α : Type} (p : α → Bool) (l : List α) (s : Nat) (hs : s ≤ l.length)
    (hp : ∀ k x, k < s → l[k]? = some x → p x = true) : ∀ k, k < s → (l.filter p)[k]? = l[k]? := by
  intro k hk
  have h1 : (l.take s).filter p = l.take s := by
    rw [List.filter_eq_self]
    intro x hx
    obtain ⟨i, hi⟩ := List.mem_iff_getElem?.1 hx
    rw [List.getElem?_take] at hi
    split at hi
    · exact hp i x ‹_› hi
    · cases hi
  have h2 : l.filter p = l.take s ++ (l.drop s).filter p := by
    conv => lhs; rw [← List.take_append_drop s l, List.filter_append, h1]
  rw [h2, List.getElem?_append_left (by rw [List.length_take]; omega), List.getElem?_take, if_pos hk]

/-- after `deage`, the dividers in front of the first removed one are unchanged -/
theorem deage_bd_prefix {n : Nat} {op op' : OP} (h : PartInv n op) (ha : AgeInv op) (hage : 0 < op.age)
    (hd : deage op = .ok op') (s : Nat) (hs : s ≤ op.binDividers.len)
    (hkeep : ∀ k d, k < s → (divs op)[k]? ≠ some (d, op.age)) :
    ∀ k, k < s → op'.binDividers.toList[k]? = op.binDividers.toList[k]? := by
  intro k hk
  obtain ⟨_, _, _, hdiv, _⟩ := deage_inv h ha hage hd
  have hL := deage_divs_length h
  have hl := h.lenAges
  have hf := deage_filter_prefix (fun x : Nat × Int => decide (x.2 ≠ op.age)) (divs op) s (by omega)
    (by
      intro k x hk hx
      have := hkeep k x.1 hk
      simp only [decide_eq_true_eq]
      intro hc
      apply this
      rw [hx, ← hc]) k hk
  rw [← hdiv] at hf
  have hkl : k < (divs op).length := by omega
  obtain ⟨h1, _⟩ := deage_divs_getElem?.1 (show (divs op)[k]? = some ((divs op)[k].1, (divs op)[k].2) from
    List.getElem?_eq_getElem hkl)
  rw [List.getElem?_eq_getElem hkl] at hf
  obtain ⟨h3, _⟩ := deage_divs_getElem?.1 (show (divs op')[k]? = some ((divs op)[k].1, (divs op)[k].2) from hf)
  rw [h1, h3]

/-- if bin `s` of the result is a singleton behind `s` singletons, it was one before and its divider survived -/
theorem deage_bin_single {n : Nat} {op op' : OP} (h : PartInv n op) (ha : AgeInv op) (hage : 0 < op.age)
    (hd : deage op = .ok op') (s : Nat) (hps : ∀ k, k < s → op.binDividers.toList[k]? = some (k + 1))
    (hb : op'.binDividers.toList[s]? = some (s + 1)) :
    op.binDividers.toList[s]? = some (s + 1) ∧ ∃ a, op.binAges.toList[s]? = some a ∧ a ≠ op.age := by
  obtain ⟨hP', _, _, hdiv, _⟩ := deage_inv h ha hage hd
  have hsl : s < op'.binAges.toList.length := by
    have := (List.getElem?_eq_some_iff.1 hb).1
    rw [Sl.length_toList _ hP'.wfBd] at this
    rw [Sl.length_toList _ hP'.wfAges, hP'.lenAges]; exact this
  have hda : (divs op')[s]? = some (s + 1, op'.binAges.toList[s]) :=
    deage_divs_getElem?.2 ⟨hb, List.getElem?_eq_getElem hsl⟩
  have hmem := List.mem_of_getElem? hda
  rw [hdiv, List.mem_filter] at hmem
  obtain ⟨hm1, hm2⟩ := hmem
  simp only [decide_eq_true_eq] at hm2
  obtain ⟨m, hm⟩ := List.mem_iff_getElem?.1 hm1
  obtain ⟨b1, b2⟩ := deage_divs_getElem?.1 hm
  have hge := h.bd_ge m _ b1
  have hms : m = s := by
    by_cases hlt : m < s
    · have := hps m hlt
      rw [b1] at this
      cases this
      omega
    · omega
  subst hms
  exact ⟨b1, _, b2, hm2⟩


theorem deage_tri_succ (p : Nat) : tri (p + 1) = tri p + p := by
  unfold tri
  cases p with
  | zero => rfl
  | succ q =>
    have h1 : q + 1 + 1 - 1 = q + 1 := by omega
    have h2 : q + 1 - 1 = q := by omega
    rw [h1, h2]
    have : (q + 1 + 1) * (q + 1) = (q + 1) * q + 2 * (q + 1) := by
      rw [Nat.mul_comm (q + 1 + 1), show q + 1 + 1 = q + 2 by omega, Nat.mul_add, Nat.mul_comm (q + 1) 2]
    rw [this, Nat.add_mul_div_left _ _ (by decide : 0 < 2)]

theorem deage_tri_mono {p q : Nat} (h : p ≤ q) : tri p ≤ tri q := by
  induction q with
  | zero => have : p = 0 := by omega
            subst this; exact Nat.le_refl _
  | succ q ih =>
    by_cases hp : p = q + 1
    · subst hp; exact Nat.le_refl _
    · have := ih (by omega)
      rw [deage_tri_succ]; omega

theorem deage_tri_eq (j : Nat) : ((j - 1) * j) / 2 = tri j := by
  unfold tri; rw [Nat.mul_comm]

theorem deage_mem_blockCodes {nb : Nbrs} {o : List Nat} {p x : Nat} (h : x ∈ blockCodes nb o p) :
    tri p ≤ x ∧ x < tri (p + 1) := by
  unfold blockCodes at h
  rw [(deage_sortNat_perm _).mem_iff] at h
  unfold rawCodes at h
  rw [List.mem_filterMap] at h
  obtain ⟨v, _, hv⟩ := h
  split at hv
  · cases hv
    rw [deage_tri_succ]; omega
  · cases hv

theorem deage_certPos_succ (nb : Nbrs) (o : List Nat) (s : Nat) :
    certPos nb o (s + 1) = certPos nb o s ++ blockCodes nb o s := by
  unfold certPos
  rw [List.range_succ, List.flatMap_append]
  simp

theorem deage_certPos_lt {nb : Nbrs} {o : List Nat} {j x : Nat} (h : x ∈ certPos nb o j) : x < tri j := by
  unfold certPos at h
  rw [List.mem_flatMap] at h
  obtain ⟨p, hp, hx⟩ := h
  have hp' : p < j := List.mem_range.1 hp
  have h1 := (deage_mem_blockCodes hx).2
  have h2 := deage_tri_mono (show p + 1 ≤ j by omega)
  omega

theorem deage_certPos_split (nb : Nbrs) (o : List Nat) (j : Nat) : ∀ s, j ≤ s →
    ∃ R, certPos nb o s = certPos nb o j ++ R ∧ ∀ x ∈ R, tri j ≤ x := by
  intro s
  induction s with
  | zero =>
    intro h
    have : j = 0 := by omega
    subst this
    exact ⟨[], by simp, by simp⟩
  | succ s ih =>
    intro h
    by_cases hj : j = s + 1
    · subst hj; exact ⟨[], by simp, by simp⟩
    · obtain ⟨R, hR1, hR2⟩ := ih (by omega)
      refine ⟨R ++ blockCodes nb o s, by rw [deage_certPos_succ, hR1, List.append_assoc], ?_⟩
      intro x hx
      rcases List.mem_append.1 hx with hx | hx
      · exact hR2 x hx
      · have h1 := (deage_mem_blockCodes hx).1
        have h2 := deage_tri_mono (show j ≤ s by omega)
        omega

/-- a list that is `A` (all `< t`) followed by `B` (all `≥ t`), cut after its last entry `< t`, is `A` -/
theorem deage_take_unique (l A B : List Nat) (t m : Nat) (hl : l = A ++ B) (hA : ∀ x ∈ A, x < t)
    (hB : ∀ x ∈ B, t ≤ x) (hdrop : ∀ x ∈ l.drop m, t ≤ x)
    (hlast : m = 0 ∨ ∃ x, l[m - 1]? = some x ∧ x < t) : l.take m = A := by
  subst hl
  have hm : A.length = m := by
    rcases Nat.lt_trichotomy m A.length with hlt | heq | hgt
    · exfalso
      have h1 : A[m] ∈ (A ++ B).drop m := by
        apply List.mem_iff_getElem?.2
        refine ⟨0, ?_⟩
        rw [List.getElem?_drop, Nat.add_zero, List.getElem?_append_left hlt, List.getElem?_eq_getElem hlt]
      have h2 := hdrop _ h1
      have h3 := hA _ (List.getElem_mem hlt)
      omega
    · exact heq.symm
    · exfalso
      rcases hlast with h0 | ⟨x, hx1, hx2⟩
      · omega
      · rw [List.getElem?_append_right (by omega)] at hx1
        have := hB x (List.mem_of_getElem? hx1)
        omega
  exact List.take_left' hm

/-- positions in front of the first removed divider keep their vertex -/
theorem deage_order_agree {n : Nat} {op op' : OP} (h : PartInv n op) (ha : AgeInv op) (hage : 0 < op.age)
    (hd : deage op = .ok op') (s : Nat) (hkeep : ∀ k d, k < s → (divs op)[k]? ≠ some (d, op.age)) :
    ∀ p, p < s → op'.order.toList[p]? = op.order.toList[p]? := by
  intro p hp
  apply deage_order_prefix h ha hage hd
  intro k d hkd
  have hsk : s ≤ k := by
    by_cases hc : s ≤ k
    · exact hc
    · exact absurd hkd (hkeep k d (by omega))
  by_cases hk0 : k = 0
  · omega
  · rw [if_neg hk0]
    have hkl : k < (divs op).length := (List.getElem?_eq_some_iff.1 hkd).1
    rw [deage_divs_length h, h.lenAges, ← Sl.length_toList _ h.wfBd] at hkl
    have hk1 : k - 1 < op.binDividers.toList.length := by omega
    have hge := h.bd_ge (k - 1) _ (List.getElem?_eq_getElem hk1)
    rw [List.getD_eq_getElem?_getD, List.getElem?_eq_getElem hk1]
    simp only [Option.getD_some]
    omega


/-- `PrefixSingle` for the result of `deage`, for a prefix of kept singleton dividers -/
theorem deage_prefixSingle {n : Nat} {op op' : OP} (h : PartInv n op) (ha : AgeInv op) (hage : 0 < op.age)
    (hd : deage op = .ok op') (s : Nat) (hs : s ≤ op.binDividers.len)
    (hsing : ∀ k, k < s → op.binDividers.toList[k]? = some (k + 1))
    (hkeep : ∀ k d, k < s → (divs op)[k]? ≠ some (d, op.age)) (hspl : op'.spl = s) : PrefixSingle op' := by
  have hbd := deage_bd_prefix h ha hage hd s hs hkeep
  obtain ⟨hP', _⟩ := deage_inv h ha hage hd
  constructor
  · rw [hspl]
    by_cases h0 : s = 0
    · omega
    · have h1 := hbd (s - 1) (by omega)
      rw [hsing (s - 1) (by omega)] at h1
      have := (List.getElem?_eq_some_iff.1 h1).1
      rw [Sl.length_toList _ hP'.wfBd] at this
      omega
  · intro j hj
    rw [hspl] at hj
    rw [hbd j hj]; exact hsing j hj

theorem deage_cert {n : Nat} {nb : Nbrs} {cb fl : Sl Nat} {op op' : OP} (h : PartInv n op) (ha : AgeInv op)
    (hage : 0 < op.age) (hv : VAny nb cb fl op) (hd : deage op = .ok op') : VN nb cb fl op' := by
  obtain ⟨hP', _⟩ := deage_inv h ha hage hd
  have hcommon : PrefixSingle op ∧ op.value.WF ∧
      ∃ extra, op.value.toList = certPos nb op.order.toList op.spl ++ extra ∧ ∀ x ∈ extra, tri op.spl ≤ x := by
    rcases hv with c | ⟨c, _⟩
    · exact ⟨c.pre.toPrefixSingle, c.wf, [], by rw [c.val]; simp, by simp⟩
    · exact ⟨c.pre, c.wf, [], by rw [c.val]; simp, by simp⟩
  obtain ⟨hps, hwf, extra, hval, hextra⟩ := hcommon
  show VClean nb op'
  have hol : op.order.toList.length = n := by rw [Sl.length_toList _ h.wfOrder, h.lenOrder]
  have hol' : op'.order.toList.length = n := by rw [Sl.length_toList _ hP'.wfOrder, hP'.lenOrder]
  have hsn : op.spl ≤ n := Nat.le_trans hps.le h.bdLen_le
  rcases deage_first_removed h ha hage hd with ⟨r1, r2, r3⟩ | ⟨r1, r2, r3, r4, r5, r6, r7⟩
  · -- no divider in front of `spl` is removed
    have hkeep : ∀ k d, k < op.spl → (divs op)[k]? ≠ some (d, op.age) := by
      intro k d hk hc
      have := r1 k d hc; omega
    have hord := deage_order_agree h ha hage hd op.spl hkeep
    have hcert : certPos nb op'.order.toList op.spl = certPos nb op.order.toList op.spl :=
      certPos_frame nb _ _ _ (by omega) (by omega) hord
    have hps' : PrefixSingle op' := deage_prefixSingle h ha hage hd op.spl hps.le hps.single hkeep r2
    rcases hv with c | ⟨c, hsa⟩
    · refine ⟨⟨hps', ?_⟩, by rw [r3]; exact c.wf, by rw [r3, r2, hcert]; exact c.val⟩
      intro hb
      rw [r2] at hb
      obtain ⟨b1, _⟩ := deage_bin_single h ha hage hd op.spl hps.single hb
      exact c.pre.next b1
    · -- `StaleAge`: some divider in front of `spl` is removed
      obtain ⟨k, d, hk, hkd⟩ := hsa
      exact absurd hkd (hkeep k d hk)
  · -- the first removed divider has index `op'.spl < op.spl`
    have hsing : ∀ k, k < op'.spl → op.binDividers.toList[k]? = some (k + 1) :=
      fun k hk => hps.single k (by omega)
    have hjle : op'.spl ≤ op.binDividers.len := by have := hps.le; omega
    have hord := deage_order_agree h ha hage hd op'.spl r2
    have hcert : certPos nb op'.order.toList op'.spl = certPos nb op.order.toList op'.spl :=
      certPos_frame nb _ _ _ (by omega) (by omega) hord
    have hps' : PrefixSingle op' := deage_prefixSingle h ha hage hd op'.spl hjle hsing r2 rfl
    have hnext : op'.binDividers.toList[op'.spl]? ≠ some (op'.spl + 1) := by
      intro hb
      obtain ⟨_, a, b2, b3⟩ := deage_bin_single h ha hage hd op'.spl hsing hb
      obtain ⟨d, hdd⟩ := r3
      have := (deage_divs_getElem?.1 hdd).2
      rw [b2] at this
      exact b3 (Option.some.inj this)
    have hwf' : op'.value.WF := by
      unfold Sl.WF at hwf ⊢; rw [r4]; omega
    have htake : op'.value.toList = op.value.toList.take op'.value.len := by
      unfold Sl.toList
      rw [r4, List.take_take, Nat.min_eq_left r5]
    obtain ⟨R, hR1, hR2⟩ := deage_certPos_split nb op.order.toList op'.spl op.spl (Nat.le_of_lt r1)
    have hcut : op.value.toList.take op'.value.len = certPos nb op.order.toList op'.spl := by
      apply deage_take_unique _ _ (R ++ extra) (tri op'.spl)
      · rw [hval, hR1, List.append_assoc]
      · intro x hx; exact deage_certPos_lt hx
      · intro x hx
        rcases List.mem_append.1 hx with hx | hx
        · exact hR2 x hx
        · have h1 := hextra x hx
          have h2 := deage_tri_mono (Nat.le_of_lt r1)
          omega
      · intro x hx
        rw [← deage_tri_eq]; exact r6 x hx
      · rw [← deage_tri_eq]; exact r7
    exact ⟨⟨hps', hnext⟩, hwf', by rw [htake, hcut, hcert]⟩

end CanonF
