import Mamba.Lemmas.CanonFOrbSkip
import Mamba.Lemmas.CanonFOrbSplit
import Mamba.Lemmas.CanonFOrbPop
import Mamba.Lemmas.CanonFOrbInner
import Mamba.Lemmas.CanonFOrbLeafOther
import Mamba.Lemmas.CanonFOrbLeafEqBest
import Mamba.Lemmas.CanonFOrbLeafEqFirst
import Mamba.Lemmas.CanonFEdgelessOrb
import Mamba.Lemmas.CanonFOrbLeafFirst
/-!
# Orbit completeness: the returned `firstLeafOrbits` are exactly the orbits of the automorphism group

Assembly of the A-layer (`CanonFOrbDef.lean`) with the D-layer as a `MainJX` instance (same ghost data), its initial state,
and the final theorems `canonF_orbits_complete_gen` / `_all` (with vertex classes) and `canonF_orbits_exact_full`.
-/
namespace CanonF


section
variable {n m : Nat} {nb : Nbrs} {rf : Nat} {r : IR.St}

theorem dnv_toA {gh : Gh} {lv : List (Nat × Nat)} {s : LS} (h : DNv n nb rf r gh lv s) : DAv n nb rf r gh lv s := by
  obtain ⟨hw, hG, hcov, haux⟩ := h
  refine ⟨hw.toA, hG, hcov, haux, fun hp => ?_⟩
  have := hw.2.2.1
  rw [hp] at this
  simp at this

theorem dav_deage {gh : Gh} (lv : List (Nat × Nat)) (s : LS) (op' : OP) (k : Nat) (hc : Core n s)
    (ht : TopOK s.op k s.path s.choices lv) (hage : s.op.age = s.path.length) (h : DAv n nb rf r gh lv s)
    (hd : deage s.op = .ok op') : DNv n nb rf r gh lv { s with op := op' } := by
  obtain ⟨hw, hG, hcov, haux, _⟩ := h
  refine ⟨walk_deage lv s op' k hc ht hage hw hd, ?_, ?_, ?_⟩
  · exact skip_globalInv_congr (s := s) (s' := { s with op := op' }) hG rfl rfl rfl rfl rfl rfl rfl rfl rfl rfl
  · exact CovFrames.congr (s := s) (s' := { s with op := op' }) rfl (fun _ => rfl) rfl true _ _ _ (fun _ _ => rfl) hcov
  · exact FrameAux.congr (s := s) (s' := { s with op := op' }) rfl rfl rfl rfl true _ _ _ (fun _ _ => rfl) haux

theorem dnv_noskip {gh : Gh} (lv : List (Nat × Nat)) (s : LS) (h : DNv n nb rf r gh lv s) :
    DNv n nb rf r gh lv { s with skipDeage := false } := by
  obtain ⟨hw, hG, hcov, haux⟩ := h
  refine ⟨hw, ?_, ?_, ?_⟩
  · exact skip_globalInv_congr (s := s) (s' := { s with skipDeage := false }) hG rfl rfl rfl rfl rfl rfl rfl rfl rfl rfl
  · exact CovFrames.congr (s := s) (s' := { s with skipDeage := false }) rfl (fun _ => rfl) rfl true _ _ _
      (fun _ _ => rfl) hcov
  · exact FrameAux.congr (s := s) (s' := { s with skipDeage := false }) rfl rfl rfl rfl true _ _ _ (fun _ _ => rfl) haux
end

section
variable {n m : Nat} {nb : Nbrs} {rf : Nat} {r : IR.St}
  (hnb : NbOK nb n) (hsz : nb.size = n) (hm : m = ((nb.toList.map List.length).sum) / 2) (hrf : 3 * n + 3 ≤ rf)
  (hA : IR.InvA (irG n nb) r) (hD : IR.InvD (irG n nb) r)
  (hlenm : ∀ o : List Nat, o.Perm (List.range n) → (certPos nb o n).length = m)

include hnb hA hD hlenm in
theorem orb_node (lv : List (Nat × Nat)) (worse : Bool) (s s1 : LS) (lv1 : List (Nat × Nat)) (hI : MInv n m nb s)
    (hlv : LevelsOK s.op s.path s.choices lv) (hJ : CertM n m nb lv worse s) (hX : EM n nb rf r lv worse s)
    (hs1 : (if (!worse && s.op.binDividers.len == n) = true then leafNode n m s
      else if (!worse) = true then innerNode s else Outcome.ok s) = .ok s1)
    (hl1 : LevelsOK s1.op s1.path s1.choices lv1) (hJ1 : CertA n m nb lv1 s1) :
    EA n nb rf r lv1 s1 ∧ (s1.skipDeage = true → EN n nb rf r lv1 s1) := by
  by_cases hleaf : (!worse && s.op.binDividers.len == n) = true
  · rw [if_pos hleaf] at hs1
    simp only [Bool.and_eq_true, Bool.not_eq_true', beq_iff_eq] at hleaf
    obtain ⟨hwf, hleaf⟩ := hleaf
    subst hwf
    obtain ⟨gh, hDv, hAv⟩ : ∃ gh, DNodev n nb rf r gh lv s ∧ ANodev n nb rf r gh lv s := by simpa [EM] using hX
    obtain ⟨_, _, _, _, hsk, _⟩ := leafNode_spec hI.core hlv hI.age hs1
    have hJ1' : CertA n m nb lv s1 := hJ1
    refine ⟨?_, fun hc => by rw [hsk, hI.skip] at hc; cases hc⟩
    by_cases hcnt : s.count = 0
    · obtain ⟨lv1', hl', hd, _⟩ := dfs_leaf_first_v hnb hA hD hlenm lv s s1 gh hI hlv hleaf hJ hDv hs1 hJ1' hcnt
      have := LevelsOK_unique _ _ _ _ hl' hl1
      subst this
      exact ⟨_, hd, orb_leaf_first hnb hA hD hlenm gh lv s s1 hI hlv hleaf hJ hDv hAv hs1 hJ1' hcnt _ hl1 hd⟩
    · have hpos : 0 < s.count := Nat.pos_of_ne_zero hcnt
      by_cases hcmp : CanonF.compare s.op.value.toList s.currentBest.toList = 1
      · obtain ⟨lv1', hl', hd, _⟩ := dfs_leaf_accept_v hnb hA hD hlenm lv s s1 gh hI hlv hleaf hJ hDv hs1 hJ1' hpos hcmp
        have := LevelsOK_unique _ _ _ _ hl' hl1
        subst this
        exact ⟨_, hd, orb_leaf_accept hnb hA hD hlenm gh lv s s1 hI hlv hleaf hJ hDv hAv hs1 hJ1' hpos hcmp _ hl1 hd⟩
      · have hc1 : (CanonF.compare s.op.value.toList s.currentBest.toList == 1 || s.count + 1 == 1) = false := by
          simp only [Bool.or_eq_false_iff, beq_eq_false_iff_ne, ne_eq]
          exact ⟨hcmp, by omega⟩
        cases hc0 : (CanonF.compare s.op.value.toList s.currentBest.toList == 0) with
        | true =>
          obtain ⟨lv1', k, hl', hd, _⟩ := dfs_leaf_eqbest_v hnb hA hD lv s s1 gh hI hlv hleaf hJ hDv hs1 hJ1' hc1 hc0
          have := LevelsOK_unique _ _ _ _ hl' hl1
          subst this
          exact ⟨_, hd, orb_leaf_eqbest hnb hA hD gh lv s s1 hI hlv hleaf hJ hDv hAv hs1 hJ1' hc1 hc0 _ k hl1 hd⟩
        | false =>
          cases hcf : (CanonF.compare s.op.value.toList s.firstLeaf.toList == 0) with
          | true =>
            obtain ⟨lv1', k, hl', hd, _⟩ := dfs_leaf_eqfirst_v hnb hA hD lv s s1 gh hI hlv hleaf hJ hDv hs1 hJ1' hc1 hc0 hcf
            have := LevelsOK_unique _ _ _ _ hl' hl1
            subst this
            exact ⟨_, hd, orb_leaf_eqfirst hnb hA hD gh lv s s1 hI hlv hleaf hJ hDv hAv hs1 hJ1' hc1 hc0 hcf _ k hl1 hd⟩
          | false =>
            obtain ⟨_, hl', hd⟩ := dfs_leaf_other_v hnb lv s s1 gh hI hlv hleaf hJ hDv hs1 hJ1' hc1 hc0 hcf
            have := LevelsOK_unique _ _ _ _ hl' hl1
            subst this
            exact ⟨_, hd, orb_leaf_other hnb gh lv s s1 hI hlv hleaf hJ hDv hAv hs1 hJ1' hc1 hc0 hcf _ hl1 hd⟩
  · rw [if_neg hleaf] at hs1
    by_cases hnw : (!worse) = true
    · rw [if_pos hnw] at hs1
      have hwf : worse = false := by simpa using hnw
      subst hwf
      have hnl : s.op.binDividers.len ≠ n := by
        intro e; apply hleaf; simp [e]
      obtain ⟨gh, hDv, hAv⟩ : ∃ gh, DNodev n nb rf r gh lv s ∧ ANodev n nb rf r gh lv s := by simpa [EM] using hX
      have hdn := dfs_inner_v lv s s1 hI hlv hnl hJ gh hDv hs1 lv1 hl1
      have han := orb_inner gh lv s s1 hI hlv hnl hJ hDv hAv hs1 lv1 hl1 hdn
      exact ⟨⟨gh, dnv_toA hdn, orb_na gh lv1 s1 hdn han⟩, fun _ => ⟨gh, hdn, han⟩⟩
    · rw [if_neg hnw] at hs1
      cases hs1
      have hwt : worse = true := by simpa using hnw
      subst hwt
      have hX' : EA n nb rf r lv s := by simpa [EM] using hX
      have := LevelsOK_unique _ _ _ _ hlv hl1
      subst this
      exact ⟨hX', fun hc => by rw [hI.skip] at hc; cases hc⟩

include hnb hsz hm hrf hA hD hlenm in
/-- D-layer ⊕ A-layer (same ghost data) are carried by the main loop, on top of the certificate invariants -/
theorem orbMainJX :
    MainJX n m nb (CertA n m nb) (CertN n m nb) (CertN n m nb) (CertM n m nb)
      (EA n nb rf r) (EN n nb rf r) (ES n nb rf r) (EM n nb rf r) where
  na := fun lv s _ h => by
    obtain ⟨gh, hd, ha⟩ := h
    exact ⟨gh, dnv_toA hd, orb_na gh lv s hd ha⟩
  deage := fun lv s op' k hc ht _ hage _ h hd => by
    obtain ⟨gh, hdv, ha⟩ := h
    exact ⟨gh, dav_deage lv s op' k hc ht hage hdv hd, orb_deage gh lv s op' ha⟩
  noskip := fun lv s _ _ h => by
    obtain ⟨gh, hd, ha⟩ := h
    exact ⟨gh, dnv_noskip lv s hd, orb_noskip gh lv s ha⟩
  skipA := fun st sz ls s c cs p ps ce x k hc ht hsk hage hch hpth hget hon hx hx0 hJ h => by
    obtain ⟨gh, hd, ha⟩ := h
    exact ⟨gh, dfs_skipA_v gh st sz ls s c cs p ps ce x k hc ht hsk hage hch hpth hget hon hx hx0 hJ hd,
      orb_skipA gh st sz ls s c cs p ps ce x k hc ht hsk hage hch hpth hget hon hx hx0 hJ hd ha⟩
  skipB := fun st sz ls s c cs p ps ce bo k hc ht hsk hage hch hpth hget hon hh hJ h => by
    obtain ⟨gh, hd, ha⟩ := h
    exact ⟨gh, dfs_skipB_v hnb gh st sz ls s c cs p ps ce bo k hc ht hsk hage hch hpth hget hon hh hJ hd,
      orb_skipB hnb gh st sz ls s c cs p ps ce bo k hc ht hsk hage hch hpth hget hon hh hJ hd ha⟩
  split := fun st sz ls s c cs p ps ce bo w op' k hc ht hsk hage hch hpth hget hh _ _ hs hJ h => by
    obtain ⟨gh, hd, ha⟩ := h
    obtain ⟨q1, q2⟩ := dfs_split_v hnb hsz hm hrf hA hD st sz ls s c cs p ps ce bo w op' k hc ht hsk hage hch hpth hget hh
      hs hJ gh hd
    obtain ⟨a1, a2⟩ := orb_split hnb hsz hm hrf hA hD gh st sz ls s c cs p ps ce bo w op' k hc ht hsk hage hch hpth hget hh hs hJ hd ha
    refine ⟨fun hw _ => ?_, fun hw _ => ⟨gh, q2 hw, a2 hw⟩⟩
    obtain ⟨t, v, hds⟩ := q1 hw
    exact ⟨gh, t, v, hds, a1 hw t v hds⟩
  pop := fun st sz ls s hc ht hsk hage hJ h => by
    obtain ⟨gh, hd, ha⟩ := h
    exact ⟨_, dfs_pop_v hnb st sz ls s hc ht hsk hage hJ gh hd, orb_pop hnb gh st sz ls s hc ht hsk hage hJ hd ha⟩
  node := fun lv worse s s1 lv1 hI _ hlv hJ hX hs1 hl1 hJ1 _ =>
    orb_node hnb hA hD hlenm lv worse s s1 lv1 hI hlv hJ hX hs1 hl1 hJ1
  refine := fun lv s w op' sc' hc hl hage hsk htl hJ h hr _ => by
    obtain ⟨gh, t, v, hd, ha⟩ := h
    obtain ⟨q1, q2⟩ := dfs_refine_v hnb hsz hm hrf hA hD lv s w op' sc' _ hc hl hage hsk htl hJ gh t v hd hr
    obtain ⟨a1, a2⟩ := orb_refine hnb hsz hm hrf hA hD gh t v lv s w op' sc' _ hc hl hage hsk htl hJ hd ha hr
    cases w with
    | true => exact ⟨gh, q1 rfl, a1 rfl⟩
    | false => exact ⟨_, q2 rfl, a2 rfl⟩

end

/-- D-layer and A-layer hold when the main loop is entered -/
theorem orb_init {n m : Nat} {nb : Nbrs} {rf : Nat} (hnb : NbOK nb n) (hrf : 3 * n + 3 ≤ rf) {opts : Options}
    {op0 : OP} {s0 : LS} {si : IR.St} (hp : PartInv n op0) (ha : AgeInv op0) (hm0 : Match n op0 si) (hb0 : BtcInv op0)
    (hbs : BinsSorted op0) (hage0 : op0.age = 0) (hi : InitSt n m nb opts op0 s0) :
    CertM n m nb [] false s0 ∧ EM n nb rf (IR.refine (irG n nb) rf si) [] false s0 := by
  obtain ⟨hI, hC, hcnt, hng, hpth, hch, hbl, hfl, sc, op1, sc1, w2, hsc, htl, href, hexp⟩ := hi
  refine ⟨⟨hC.g, hC.va, hC.vn, ⟨hI.phase1, hI.found⟩⟩, ?_⟩
  obtain ⟨r1, r2, r3, _⟩ := refine_inv stablePerm hp ha hsc href
  obtain ⟨hm', hbt'⟩ := refineMatch hp ha hsc htl hb0 hnb hm0 href rf hrf
  obtain ⟨f1, f2, f3, f4, f5, f6⟩ := expandValue_frame hexp
  have hlv1 : LvOK n op1 0 (IR.refine (irG n nb) rf si) := LvOK.ofMatch hm' r1 r2 (by omega) hbt'
  have hlv2 : LvOK n s0.op 0 (IR.refine (irG n nb) rf si) := hlv1.frame f1 f2 f3
  have hbs2 : BinsSorted s0.op := (refine_binsSorted stablePerm hp ha hsc hbs href).of_frame f1 f2
  have hpos : ¬ 0 < s0.count := by omega
  have hage2 : s0.op.age = 0 := by rw [f5, r3, hage0]
  unfold EM
  rw [if_neg (by simp)]
  refine ⟨⟨[], [], [], [], []⟩, ⟨?_, ?_, ?_, ?_, ?_⟩, ⟨?_, ?_, ?_⟩⟩
  · refine ⟨trivial, by rw [hage2]; rfl, by rw [hpth], ?_, by rw [hpth, hch]; trivial, hbs2, by rw [f4]; exact hbt'⟩
    intro L hL
    have : L = 0 := by simpa using hL
    subst this
    simpa [nodeL, IR.nodeAt] using hlv2
  · exact ⟨fun h => absurd h hpos, fun h => absurd h hpos, fun γ hγ => by simp at hγ, fun _ => hng,
      fun h => absurd h hpos, hbl, hfl⟩
  · rw [hpth, hch]; trivial
  · rw [hpth, hch]; trivial
  · exact fun h => absurd h hpos
  · exact ⟨fun h => absurd h hpos, fun h => absurd h hpos, fun γ hγ => by simp at hγ,
      fun k hk => by rw [hng] at hk; exact absurd hk (Nat.not_lt_zero _)⟩
  · rw [hpth, hch]; trivial
  · rw [hpth, hch]; trivial

theorem isAutL_of_isAutG (g : GraphSpec.G) (hg : g.WF) (γ : List Nat) (h : IsAutG g γ) : IsAutL (nbrsOf g) g.n γ := by
  refine ⟨h.1, ?_⟩
  intro x y hx hy
  rw [mem_nbrsOf g hg, mem_nbrsOf g hg, h.2 x y hx hy]

open GraphSpec in
/-- orbit completeness (general search): every automorphism that preserves the class colouring maps every vertex into
its class of the returned `firstLeafOrbits` -/
theorem canonF_orbits_complete_gen (fuel : Nat) (g : G) (hg : g.WF) (vc : Classes) (hvc : ClassesOK g.n vc) (hn : g.n ≠ 0)
    (r : Res) (h : canonicalIsomorphFull fuel g vc = .ok r) :
    ∃ op0, newOrderedPartition g.n (((nbrsOf g).toList.map List.length).sum / 2) vc = .ok (some op0) ∧
      (¬ (((nbrsOf g).toList.map List.length).sum / 2 = 0 ∧ op0.binDividers.len = 1) →
        ∃ ds, r.orbits = some ds ∧ ∀ γ, IsAutL (nbrsOf g) g.n γ →
          (∀ v, v < g.n → cellOf op0 (γ.getD v 0) = cellOf op0 v) →
          ∀ u, u < g.n → Disjoint.rep ds.toArray u = Disjoint.rep ds.toArray (γ.getD u 0)) := by
  obtain ⟨op, opR, stR, hnew, hpi, ha, hage, hspl, hval, hal⟩ := full_unfold fuel g vc hvc hn r h
  refine ⟨op, hnew, fun hsc => ?_⟩
  obtain ⟨hnbok, hsz⟩ := nbOK_nbrsOf g hg
  have hn0 : 0 < g.n := Nat.pos_of_ne_zero hn
  obtain ⟨hm0, hb0⟩ := init_match hn0 hvc hnew (nbrsOf g)
  have hbs := new_binsSorted hn0 hvc hnew
  have hw : (IR.initSt (irG g.n (nbrsOf g)) op.binDividers.len (cellOf op)).work ≠ [] := by
    show List.range op.binDividers.len ≠ []
    have := hpi.bdLen_pos
    intro e
    have := congrArg List.length e
    simp at this
    omega
  have hinv := IR.refine_inv' (g := irG g.n (nbrsOf g)) (fuel := g.n * g.n + 10) (by omega) hw
  have hlenm : ∀ o : List Nat, o.Perm (List.range g.n) →
      (certPos (nbrsOf g) o g.n).length = ((nbrsOf g).toList.map List.length).sum / 2 :=
    fun o ho => certPos_length hnbok hsz ho
  obtain ⟨r0, hr0⟩ : ∃ r0, r0 = IR.refine (irG g.n (nbrsOf g)) (g.n * g.n + 10)
      (IR.initSt (irG g.n (nbrsOf g)) op.binDividers.len (cellOf op)) := ⟨_, rfl⟩
  rw [← hr0] at hinv
  have hJ := (certMainJ expandValue_cert hnbok hlenm).extend
    (orbMainJX (rf := g.n * g.n + 10) (r := r0) hnbok hsz rfl (rfuel_ge g.n) hinv.1 hinv.2 hlenm)
  obtain ⟨s, ⟨hcA, gh, ⟨hwA, hG, _, _, hfin⟩, ⟨hGA, _, _, hfinA⟩⟩, _, horb, _⟩ :=
    allocated_mainJ stablePerm expandValue_cert hJ hn
      (fun hm h1 => hsc ⟨hm, h1⟩) rfl hpi ha hage hspl hval
      (fun s0 hi => by rw [hr0]; exact orb_init hnbok (rfuel_ge g.n) hpi ha hm0 hb0 hbs hage hi) hal
  refine ⟨_, horb, ?_⟩
  have hpe : s.path = [] := by
    have := hwA.2.2.2.2.1
    cases hpth : s.path with
    | nil => rfl
    | cons a t => rw [hpth] at this; cases hcc : s.choices <;> simp [FramesOK, hcc] at this
  obtain ⟨hpos, _⟩ := hfin hpe
  have hroot := hfinA hpe
  have hF := hG.first hpos
  intro γ hγ hcls u hu
  have hcolr : ∀ v, v < g.n → IR.col r0.c (γ.getD v 0) = IR.col r0.c v := by
    obtain ⟨τ, Rl⟩ := relabel_of_isAutL hnbok hγ
    have h0 : IR.SRel (irG g.n (nbrsOf g)) (fun v => γ.getD v 0)
        (IR.initSt (irG g.n (nbrsOf g)) op.binDividers.len (cellOf op))
        (IR.initSt (irG g.n (nbrsOf g)) op.binDividers.len (cellOf op)) :=
      IR.initSt_rel Rl _ (fun v hv => hcls v hv)
    have h1 := IR.refine_rel Rl (g.n * g.n + 10) h0
    rw [← hr0] at h1
    exact fun v hv => h1.1 v hv
  have hc' : ACov g.n (nbrsOf g) (g.n * g.n + 10) (IR.tab g.n (fun v => gh.oF.idxOf v)) (certPos (nbrsOf g) gh.oF g.n)
      (ORel s) r0 := by
    have := hroot
    rw [hF.cert] at this
    exact this
  have := acov_root_aut hnbok hF.path hF.leaf hF.col hF.perm hc' hγ hcolr u hu
  show Disjoint.rep s.flOrbits.toList.toArray u = Disjoint.rep s.flOrbits.toList.toArray (γ.getD u 0)
  have e : s.flOrbits.toList.toArray = s.flOrbits := by simp
  rw [e]
  exact this

open GraphSpec in
/-- `canonF_orbits_complete` for every input (general search and `m == 0` shortcut) -/
theorem canonF_orbits_complete_all (fuel : Nat) (g : G) (hg : g.WF) (vc : Classes) (hvc : ClassesOK g.n vc) (hn : g.n ≠ 0)
    (r : Res) (h : canonicalIsomorphFull fuel g vc = .ok r) :
    ∃ op0 ds, newOrderedPartition g.n (((nbrsOf g).toList.map List.length).sum / 2) vc = .ok (some op0) ∧
      r.orbits = some ds ∧ ∀ γ, IsAutL (nbrsOf g) g.n γ →
        (∀ v, v < g.n → cellOf op0 (γ.getD v 0) = cellOf op0 v) →
        ∀ u, u < g.n → Disjoint.rep ds.toArray u = Disjoint.rep ds.toArray (γ.getD u 0) := by
  obtain ⟨op0, hnew, hgen⟩ := canonF_orbits_complete_gen fuel g hg vc hvc hn r h
  by_cases hsc : ((nbrsOf g).toList.map List.length).sum / 2 = 0 ∧ op0.binDividers.len = 1
  · obtain ⟨op, opR, stR, hnew', hp, _, _, _, _, hal⟩ := full_unfold fuel g vc hvc hn r h
    rw [hnew] at hnew'
    cases hnew'
    obtain ⟨st2, he⟩ := allocated_shortcut hn hsc.1 hsc.2 hal
    obtain ⟨ds, hds, _, hall⟩ := edgeless_orbits_all hn he
    refine ⟨op0, ds, hnew, hds, fun γ hγ _ u hu => hall u _ hu ?_⟩
    have hmem : γ.getD u 0 ∈ γ := by
      have hl : γ.length = g.n := by rw [hγ.1.length_eq]; simp
      rw [List.getD_eq_getElem?_getD, List.getElem?_eq_getElem (by omega)]
      simp
    exact List.mem_range.1 (hγ.1.mem_iff.1 hmem)
  · obtain ⟨ds, hds, hall⟩ := hgen hsc
    exact ⟨op0, ds, hnew, hds, hall⟩

open GraphSpec in
/-- without vertex classes: the classes of the returned union–find are exactly the orbits of `Aut(g)` -/
theorem canonF_orbits_exact_full (fuel : Nat) (g : G) (hg : g.WF) (hn : g.n ≠ 0)
    (r : Res) (h : canonicalIsomorphFull fuel g none = .ok r) :
    ∃ ds, r.orbits = some ds ∧ ds.length = g.n ∧ ∀ a b, a < g.n → b < g.n →
      (Disjoint.rep ds.toArray a = Disjoint.rep ds.toArray b ↔ SameOrbit g a b) := by
  obtain ⟨op0, ds, hnew, hds, hall⟩ := canonF_orbits_complete_all fuel g hg none trivial hn r h
  obtain ⟨hlen, hsound⟩ := (canonF_gens_full stablePerm expandValue_cert fuel g hg none trivial r h).2.1 ds hds
  refine ⟨ds, hds, hlen, fun a b ha hb => ⟨hsound a b ha hb, fun hab => ?_⟩⟩
  obtain ⟨op, hnew', hp, _, _, _, _, _, _, _, _, _, _, _, _, hbd⟩ :=
    newOrderedPartition_inv (n := g.n) (m := ((nbrsOf g).toList.map List.length).sum / 2) (vc := none)
      (Nat.pos_of_ne_zero hn) trivial
  rw [hnew] at hnew'
  cases hnew'
  simp only at hbd
  have hlen1 : op0.binDividers.len = 1 := by
    rw [← Sl.length_toList _ hp.wfBd, hbd]; rfl
  have h0 := inCell_single hp hlen1
  have hcell : ∀ v, v < g.n → cellOf op0 v = 0 := by
    intro v hv
    unfold cellOf
    rw [h0 v hv]; rfl
  have key : ∀ x y, x < g.n → (∃ γ, IsAutG g γ ∧ γ[x]? = some y) →
      y < g.n ∧ Disjoint.rep ds.toArray x = Disjoint.rep ds.toArray y := by
    rintro x y hx ⟨γ, hγ, hxy⟩
    have hL := isAutL_of_isAutG g hg γ hγ
    have hy : γ.getD x 0 = y := by rw [List.getD_eq_getElem?_getD, hxy]; rfl
    have hmem : y ∈ γ := List.mem_of_getElem? hxy
    have hyn : y < g.n := List.mem_range.1 (hγ.1.mem_iff.1 hmem)
    refine ⟨hyn, ?_⟩
    have := hall γ hL (fun v hv => by
      have hm : γ.getD v 0 ∈ γ := by
        have hl : γ.length = g.n := by rw [hγ.1.length_eq]; simp
        rw [List.getD_eq_getElem?_getD, List.getElem?_eq_getElem (by omega)]
        simp
      rw [hcell v hv, hcell _ (List.mem_range.1 (hγ.1.mem_iff.1 hm))]) x hx
    rw [hy] at this
    exact this
  have gen : ∀ a b, SameOrbit g a b → (a < g.n ↔ b < g.n) ∧ (a < g.n → Disjoint.rep ds.toArray a = Disjoint.rep ds.toArray b) := by
    intro a b hab
    induction hab with
    | rel x y hxy =>
      obtain ⟨γ, hγ, hxy'⟩ := hxy
      have hxn : x < g.n := by
        have : x < γ.length := (List.getElem?_eq_some_iff.1 hxy').1
        have hl : γ.length = g.n := by rw [hγ.1.length_eq]; simp
        omega
      obtain ⟨k1, k2⟩ := key x y hxn ⟨γ, hγ, hxy'⟩
      exact ⟨⟨fun _ => k1, fun _ => hxn⟩, fun _ => k2⟩
    | refl x => exact ⟨Iff.rfl, fun _ => rfl⟩
    | symm x y _ ih => exact ⟨ih.1.symm, fun hy => (ih.2 (ih.1.2 hy)).symm⟩
    | trans x y z _ _ ih1 ih2 => exact ⟨ih1.1.trans ih2.1, fun hx => (ih1.2 hx).trans (ih2.2 (ih1.1.1 hx))⟩
  exact (gen a b hab).2 ha
end CanonF
