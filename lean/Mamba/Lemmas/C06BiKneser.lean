import Mamba.Lemmas.C06Induced3
import Mathlib.Data.Nat.Choose.Basic
import Mathlib.Data.List.Perm.Subperm
/-! C06: `BipartiteKneserGraph` against the symmetric definition (2k ≤ n). -/
namespace Construct
open GraphSpec


/-! ### `colexUnrank` yields strictly increasing lists -/

theorem choose_eq (n k : Nat) : Families.choose n k = Nat.choose n k := by
  induction n generalizing k with
  | zero => cases k <;> simp [Families.choose]
  | succ n ih => cases k with
    | zero => simp [Families.choose]
    | succ k => simp [Families.choose, ih, Nat.choose_succ_succ]

theorem choose_ge (k r : Nat) : r + 1 ≤ Nat.choose (k + r + 1) (k + 1) := by
  induction r with
  | zero => simp
  | succ r ih =>
    rw [show k + (r + 1) + 1 = (k + r + 1) + 1 by omega, Nat.choose_succ_succ']
    have : 0 < Nat.choose (k + r + 1) k := Nat.choose_pos (by omega)
    omega

theorem largestBelow_spec (k r : Nat) : ∀ (fuel lo : Nat), Families.choose lo k ≤ r →
    let c := Families.largestBelow k r fuel lo
    lo ≤ c ∧ c ≤ lo + fuel ∧ Families.choose c k ≤ r ∧ (c < lo + fuel → r < Families.choose (c + 1) k)
  | 0, lo, h => by simp [Families.largestBelow, h]
  | fuel + 1, lo, h => by
    simp only [Families.largestBelow]
    by_cases hc : Families.choose (lo + 1) k ≤ r
    · simp only [hc, ↓reduceIte]
      obtain ⟨h1, h2, h3, h4⟩ := largestBelow_spec k r fuel (lo + 1) hc
      exact ⟨by omega, by omega, h3, fun hlt => h4 (by omega)⟩
    · simp only [hc, ↓reduceIte]
      exact ⟨Nat.le_refl _, by omega, h, fun _ => by omega⟩

theorem colexUnrank_sorted : ∀ (k r B : Nat), r < Nat.choose B k →
    (Families.colexUnrank r k).Pairwise (· < ·) ∧ ∀ x ∈ Families.colexUnrank r k, x < B
  | 0, r, B, _ => by simp [Families.colexUnrank]
  | k + 1, r, B, h => by
    simp only [Families.colexUnrank]
    have h0 : Families.choose k (k + 1) ≤ r := by rw [choose_eq, Nat.choose_succ_self]; omega
    obtain ⟨h1, h2, h3, h4⟩ := largestBelow_spec (k + 1) r r k h0
    set c := Families.largestBelow (k + 1) r r k with hc
    rw [choose_eq] at h3
    have hlt : r < Nat.choose (c + 1) (k + 1) := by
      by_cases hcl : c < k + r
      · have := h4 hcl; rwa [choose_eq] at this
      · have hce : c = k + r := by omega
        rw [hce]; have := choose_ge k r; omega
    have hcB : c < B := by
      by_contra hge
      have := Nat.choose_le_choose (k + 1) (show B ≤ c by omega)
      omega
    have hr' : r - Nat.choose c (k + 1) < Nat.choose c k := by
      rw [Nat.choose_succ_succ'] at hlt; omega
    obtain ⟨ih1, ih2⟩ := colexUnrank_sorted k (r - Nat.choose c (k + 1)) c hr'
    rw [choose_eq]
    refine ⟨?_, ?_⟩
    · rw [List.pairwise_append]
      exact ⟨ih1, by simp, fun a ha b hb => by simp at hb; subst hb; exact ih2 a ha⟩
    · intro x hx
      simp only [List.mem_append, List.mem_singleton] at hx
      rcases hx with hx | rfl
      · exact Nat.lt_trans (ih2 x hx) hcB
      · exact hcB

theorem colexUnrank_nodup (r k : Nat) : (Families.colexUnrank r k).Nodup := by
  cases k with
  | zero => simp [Families.colexUnrank]
  | succ k =>
    have h : r < Nat.choose (k + r + 1) (k + 1) := by have := choose_ge k r; omega
    exact (colexUnrank_sorted (k + 1) r _ h).1.imp (fun h => by omega)

theorem subset_symm_of_length (a b : List Nat) (hb : b.Nodup) (hlen : a.length ≤ b.length)
    (h : Families.subset b a = true) : Families.subset a b = true := by
  simp only [Families.subset, List.all_eq_true, List.contains_eq_mem, decide_eq_true_eq] at h ⊢
  have hsp : b.Subperm a := List.subperm_of_subset hb (fun x hx => h x hx)
  have hp : b.Perm a := hsp.perm_of_length_le hlen
  intro x hx
  exact hp.symm.subset hx


theorem intersectionSize_comm (a b : List Nat) (ha : a.Nodup) (hb : b.Nodup) :
    intersectionSize a b = intersectionSize b a := by
  simp only [intersectionSize, ← List.countP_eq_length_filter, List.contains_eq_mem]
  exact countP_mem_comm a b ha hb

theorem intersectionSize_min (a b : List Nat) (ha : a.Nodup) (hb : b.Nodup) :
    (intersectionSize a b == if b.length < a.length then b.length else a.length) =
      (Families.subset a b || Families.subset b a) := by
  by_cases hlt : b.length < a.length
  · simp only [hlt, ↓reduceIte]
    rw [intersectionSize_comm a b ha hb, intersectionSize_eq_length]
    cases hab : Families.subset a b
    · simp
    · have := subset_symm_of_length b a ha (by omega) hab
      simp [this]
  · simp only [hlt, ↓reduceIte]
    rw [intersectionSize_eq_length]
    cases hba : Families.subset b a
    · simp
    · have := subset_symm_of_length a b hb (by omega) hba
      simp [this]

theorem bipartiteKneserGraph_full (n k : Nat) :
    ∃ d, bipartiteKneserGraph n (k : Int) = .ok d ∧ d.WF ∧ d.abs = Families.bipartiteKneser n k := by
  obtain ⟨d, e, w, a⟩ := bipartiteKneserGraph_ok n k
  refine ⟨d, e, w, ?_⟩
  rw [a, Families.bipartiteKneser]
  refine G_ext (show _ = _ from rfl) ?_
  intro u v
  simp only [Families.symm, bikneserRel]
  have key : ∀ x y, (intersectionSize (Families.colexUnrank x k) (Families.colexUnrank y (n - k)) == bkSmaller n k) =
      (Families.subset (Families.colexUnrank x k) (Families.colexUnrank y (n - k)) ||
        Families.subset (Families.colexUnrank y (n - k)) (Families.colexUnrank x k)) := by
    intro x y
    have := intersectionSize_min _ _ (colexUnrank_nodup x k) (colexUnrank_nodup y (n - k))
    rwa [length_colexUnrank, length_colexUnrank] at this
  rw [key, key]

end Construct
