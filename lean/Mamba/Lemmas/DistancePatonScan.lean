import Mamba.Lemmas.DistancePatonInv
/-!
# Paton's phase: the fundamental cycle found at a back edge, and the neighbour scan
-/
namespace GDist
open GraphSpec Model

variable {a : G}

/-- the cycle closed by the edge `v – u` to a tree vertex `u` still on the stack -/
theorem fund_cycle (hsym : ∀ u v, a.adj u v = a.adj v u) {st : PatonSt} {v u k : Nat} (inv : PS a st v)
    (huX : u ∈ st.X) (hadj : a.adj v u = true) (hk1 : (par st.T)^[k] v = par st.T u)
    (hk2 : dep st.depth (par st.T u) + k = dep st.depth v) (hne : par st.T u ≠ v) :
    IsCycleSeq a (u :: upPath st.T k v) ∧
      cycCodes (u :: upPath st.T k v) = [edgeCode u (par st.T u), edgeCode u v] ++ backCodes st.T k v := by
  obtain ⟨hun, hut, hu0⟩ := inv.xin u huX
  obtain ⟨hvn, hvt⟩ := inv.cur
  have pdep' : ∀ x, x < a.n → inTree st.T x → x ≠ 0 → dep st.depth x = dep st.depth (par st.T x) + 1 :=
    fun x hx ht h0 => (inv.pdep x hx ht h0).1
  have hkd : dep st.depth ((par st.T)^[k] v) + k = dep st.depth v := by rw [hk1]; exact hk2
  obtain ⟨t, ht⟩ := upPath_head st.T k v
  have hlast : (u :: upPath st.T k v).getLastD 0 = par st.T u := by
    rw [List.getLastD_eq_getLast?, ht, List.getLast?_cons_cons, ← ht, upPath_getLast?, hk1]; rfl
  refine ⟨⟨?_, ?_, ?_, ?_, ?_⟩, ?_⟩
  · have hk : k ≠ 0 := by
      intro h0; subst h0
      exact hne hk1.symm
    simp [upPath_length]; omega
  · rw [List.nodup_cons]
    refine ⟨?_, upPath_nodup inv.root inv.ptree pdep' hvn hvt hkd⟩
    intro hm
    obtain ⟨i, _, hi⟩ := (mem_upPath st.T k v u).1 hm
    cases i with
    | zero =>
      have hvu : v = u := hi
      exact inv.vnx (hvu ▸ huX)
    | succ i =>
      rw [Function.iterate_succ_apply'] at hi
      obtain ⟨h1, h2⟩ := iter_in inv.root inv.ptree pdep' i v hvn hvt
      exact inv.leaf _ h1 h2 (hi ▸ huX)
  · intro x hx
    rcases List.mem_cons.1 hx with rfl | hx
    · exact hun
    · obtain ⟨i, _, hi⟩ := (mem_upPath st.T k v x).1 hx
      rw [← hi]; exact (iter_in inv.root inv.ptree pdep' i v hvn hvt).1
  · apply chainAdj_cons (chainAdj_upPath hsym inv.root inv.ptree inv.pdep k v hvn hvt hkd)
    intro y hy
    rw [ht] at hy; simp at hy; subst hy
    exact hadj
  · rw [hlast]
    exact (inv.pdep u hun hut hu0).2
  · unfold cycCodes
    rw [hlast]
    simp only [List.headD_cons]
    rw [ht, pathCodes, ← ht, pathCodes_upPath]
    rfl

theorem edgeRemoved_symm (rm : List (Nat × Nat)) (u v : Nat) : edgeRemoved rm u v = edgeRemoved rm v u := by
  simp [edgeRemoved, Bool.or_comm]

theorem patonScan_sound (hsym : ∀ u v, a.adj u v = a.adj v u) (hirr : ∀ v, a.adj v v = false) {v : Nat}
    (Skip : Prop) :
    ∀ (us : List Nat) (st : PatonSt), PS a st v → us.Nodup →
      (∀ u ∈ us, u < a.n ∧ a.adj v u = true ∧ edgeRemoved st.removed u v = false) →
      (∀ w, a.adj v w = true → w < a.n → Skip ∨ w ∈ us ∨ edgeRemoved st.removed w v = true) →
      (∀ x ∈ st.X, par st.T x = v → x ∉ us) →
      ∀ st', patonScan v us st = .ok st' → PS a st' v ∧
        (∀ w, a.adj v w = true → w < a.n → Skip ∨ edgeRemoved st'.removed w v = true) := by
  intro us
  induction us with
  | nil =>
    intro st inv _ _ hprog _ st' hres
    simp only [patonScan] at hres
    cases hres
    refine ⟨inv, fun w hw hwn => ?_⟩
    rcases hprog w hw hwn with h | h | h
    · exact .inl h
    · cases h
    · exact .inr h
  | cons u us ih =>
    intro st inv hnd hus hprog hfresh st' hres
    obtain ⟨hun, hadj, hnr⟩ := hus u List.mem_cons_self
    obtain ⟨hunot, hnd'⟩ := List.nodup_cons.1 hnd
    have huT : u < st.T.size := by rw [inv.tsz]; exact hun
    obtain ⟨hvn, hvt⟩ := inv.cur
    have hvD : v < st.depth.size := by rw [inv.dsz]; exact hvn
    have huD : u < st.depth.size := by rw [inv.dsz]; exact hun
    have hgetu : st.T.getD u (-1) = st.T[u] := by simp [Array.getD, huT]
    have huv : u ≠ v := by
      intro h0; subst h0; rw [hirr] at hadj; cases hadj
    have hus' : ∀ st1 : PatonSt, st1.removed = (u, v) :: st.removed →
        ∀ u' ∈ us, u' < a.n ∧ a.adj v u' = true ∧ edgeRemoved st1.removed u' v = false := by
      intro st1 hrm u' hu'
      obtain ⟨h1, h2, h3⟩ := hus u' (List.mem_cons_of_mem _ hu')
      refine ⟨h1, h2, ?_⟩
      rw [hrm]
      cases hh : edgeRemoved ((u, v) :: st.removed) u' v with
      | false => rfl
      | true =>
        rcases edgeRemoved_cons.1 hh with ⟨h4, _⟩ | ⟨h5, h4⟩ | h4
        · exact (hunot (by rw [h4]; exact hu')).elim
        · exact (hunot (by rw [h5, h4]; exact hu')).elim
        · rw [h3] at h4; cases h4
    have hprog' : ∀ st1 : PatonSt, st1.removed = (u, v) :: st.removed →
        ∀ w, a.adj v w = true → w < a.n → Skip ∨ w ∈ us ∨ edgeRemoved st1.removed w v = true := by
      intro st1 hrm w hw hwn
      rw [hrm]
      rcases hprog w hw hwn with h | h | h
      · exact .inl h
      · rcases List.mem_cons.1 h with rfl | h
        · exact .inr (.inr (edgeRemoved_cons.2 (.inl ⟨rfl, rfl⟩)))
        · exact .inr (.inl h)
      · exact .inr (.inr (edgeRemoved_cons.2 (.inr (.inr h))))
    unfold patonScan at hres
    simp only [huT, dif_pos] at hres
    by_cases htree : st.T[u] ≠ -1
    · -- a fundamental cycle
      simp only [htree, ne_eq, not_false_eq_true, if_true, hvD, dif_pos] at hres
      have hint : inTree st.T u := by unfold inTree; rw [hgetu]; exact htree
      obtain ⟨h0, hparn, hpart⟩ := inv.ptree u hun hint
      have hpar : st.T[u].toNat = par st.T u := by unfold par; rw [hgetu]
      rw [hpar] at hres
      have hpD : par st.T u < st.depth.size := by rw [inv.dsz]; exact hparn
      simp only [hpD, dif_pos] at hres
      have huX : u ∈ st.X := by
        by_contra huX
        have := inv.exam u hun hint huX huv v (by rw [hsym]; exact hadj) hvn
        rw [edgeRemoved_symm, this] at hnr
        cases hnr
      obtain ⟨k, hk1, hk2⟩ := inv.xanc u huX
      have hne : par st.T u ≠ v := fun h0 => hfresh u huX h0 List.mem_cons_self
      have hdv : st.depth[v] = dep st.depth v := by simp [dep, Array.getD, hvD]
      have hdp : st.depth[par st.T u] = dep st.depth (par st.T u) := by simp [dep, Array.getD, hpD]
      rw [hdv, hdp] at hres
      have hlen : ¬ ((dep st.depth v : Int) - (dep st.depth (par st.T u) : Int) + 2 < 2) := by omega
      simp only [hlen, if_false] at hres
      have hkk : ((dep st.depth v : Int) - (dep st.depth (par st.T u) : Int) + 2).toNat - 2 = k := by omega
      rw [hkk, patonBack_spec st.T a.n inv.tsz inv.ptree k v _ hvn hvt] at hres
      simp only at hres
      obtain ⟨hcyc, hcodes⟩ := fund_cycle hsym inv huX hadj hk1 hk2 hne
      have inv' : PS a { st with
          fund := st.fund ++ [sortInts ([edgeCode u (par st.T u), edgeCode u v] ++ backCodes st.T k v)]
          removed := (u, v) :: st.removed } v :=
        { tsz := inv.tsz, dsz := inv.dsz, root := inv.root, ptree := inv.ptree, pdep := inv.pdep, xin := inv.xin,
          xnd := inv.xnd, vnx := inv.vnx, cur := inv.cur, leaf := inv.leaf, xanc := inv.xanc, xpair := inv.xpair,
          exam := fun x hx ht hxX hxv w hw hwn =>
            edgeRemoved_cons.2 (.inr (.inr (inv.exam x hx ht hxX hxv w hw hwn))),
          fund := fun f hf => by
            rcases List.mem_append.1 hf with h1 | h1
            · exact inv.fund f h1
            · simp at h1; subst h1
              exact ⟨_, hcyc, by rw [hcodes]; rfl⟩ }
      exact ih _ inv' hnd' (hus' _ rfl) (hprog' _ rfl)
        (fun x hx hp hm => hfresh x hx hp (List.mem_cons_of_mem _ hm)) st' hres
    · -- `u` joins the tree
      have hTu : st.T[u] = -1 := by
        by_contra h; exact htree h
      simp only [htree, if_false, huD, dif_pos, hvD] at hres
      have hnotin : ¬ inTree st.T u := by unfold inTree; rw [hgetu, hTu]; simp
      have hu0 : u ≠ 0 := by
        intro h0; subst h0
        apply hnotin; unfold inTree; rw [inv.root]; omega
      have hparne : ∀ x, x < a.n → inTree st.T x → par st.T x ≠ u := by
        intro x hx ht hp
        exact hnotin (hp ▸ (inv.ptree x hx ht).2.2)
      have hT' : ∀ w, (st.T.set u (v : Int) huT).getD w (-1) = if w = u then (v : Int) else st.T.getD w (-1) :=
        fun w => getD_set_int huT w
      have hD' : ∀ w, dep (st.depth.set u (st.depth[v] + 1) huD) w
          = if w = u then st.depth[v] + 1 else dep st.depth w := fun w => getD_set_nat huD w
      have hdv : st.depth[v] = dep st.depth v := by simp [dep, Array.getD, hvD]
      have hin' : ∀ x, inTree (st.T.set u (v : Int) huT) x ↔ (x = u ∨ inTree st.T x) := by
        intro x
        unfold inTree
        rw [hT']
        by_cases hx : x = u
        · simp [hx]
        · simp [hx]
      have hpar' : ∀ x, x ≠ u → par (st.T.set u (v : Int) huT) x = par st.T x := by
        intro x hx; unfold par; rw [hT']; simp [hx]
      have hparu : par (st.T.set u (v : Int) huT) u = v := by
        unfold par; rw [hT']; simp
      have hne_u : ∀ x, inTree st.T x → x ≠ u := fun x hx h0 => hnotin (h0 ▸ hx)
      have hdep' : ∀ x, x ≠ u → dep (st.depth.set u (st.depth[v] + 1) huD) x = dep st.depth x := by
        intro x hx; rw [hD']; simp [hx]
      -- iterates from old tree vertices are unchanged
      have hiter : ∀ k x, x < a.n → inTree st.T x →
          (par (st.T.set u (v : Int) huT))^[k] x = (par st.T)^[k] x := by
        intro k
        induction k with
        | zero => intro x _ _; rfl
        | succ k ihk =>
          intro x hx ht
          rw [Function.iterate_succ_apply, Function.iterate_succ_apply, hpar' x (hne_u x ht)]
          exact ihk _ (inv.ptree x hx ht).2.1 (inv.ptree x hx ht).2.2
      have hanc : ∀ z x, x < a.n → inTree st.T x → z < a.n → inTree st.T z → AncD st.T st.depth z x →
          AncD (st.T.set u (v : Int) huT) (st.depth.set u (st.depth[v] + 1) huD) z x := by
        rintro z x hx ht hz htz ⟨k, h1, h2⟩
        refine ⟨k, by rw [hiter k x hx ht]; exact h1, ?_⟩
        rw [hdep' z (hne_u z htz), hdep' x (hne_u x ht)]; exact h2
      have inv' : PS a { st with
          T := st.T.set u (v : Int) huT
          X := u :: st.X
          depth := st.depth.set u (st.depth[v] + 1) huD
          removed := (u, v) :: st.removed } v := by
        refine { tsz := by simp [inv.tsz], dsz := by simp [inv.dsz], root := ?_, ptree := ?_, pdep := ?_,
                 xin := ?_, xnd := ?_, vnx := ?_, cur := ?_, leaf := ?_, xanc := ?_, xpair := ?_, exam := ?_,
                 fund := inv.fund }
        · show (st.T.set u (v : Int) huT).getD 0 (-1) = 0
          rw [hT']; simp [Ne.symm hu0, inv.root]
        · intro x hx ht
          have ht' := (hin' x).1 ht
          by_cases hxu : x = u
          · subst hxu
            refine ⟨by rw [hT']; simp, by rw [hparu]; exact hvn, ?_⟩
            rw [hparu]; exact (hin' v).2 (.inr hvt)
          · have htx : inTree st.T x := by
              rcases ht' with h | h
              · exact absurd h hxu
              · exact h
            obtain ⟨h0, h1, h2⟩ := inv.ptree x hx htx
            refine ⟨by rw [hT', if_neg hxu]; exact h0, by rw [hpar' x hxu]; exact h1, ?_⟩
            rw [hpar' x hxu]; exact (hin' _).2 (.inr h2)
        · intro x hx ht hx0
          show dep (st.depth.set u (st.depth[v] + 1) huD) x
              = dep (st.depth.set u (st.depth[v] + 1) huD) (par (st.T.set u (v : Int) huT) x) + 1 ∧
            a.adj x (par (st.T.set u (v : Int) huT) x) = true
          by_cases hxu : x = u
          · subst hxu
            rw [hparu, hD', hdep' v (Ne.symm huv)]
            simp only [if_true]
            exact ⟨by rw [hdv], by rw [hsym]; exact hadj⟩
          · have htx : inTree st.T x := by
              rcases (hin' x).1 ht with h | h
              · exact absurd h hxu
              · exact h
            rw [hpar' x hxu, hdep' x hxu, hdep' _ (hparne x hx htx)]
            exact inv.pdep x hx htx hx0
        · intro x hx
          have hx' : x ∈ u :: st.X := hx
          rcases List.mem_cons.1 hx' with rfl | hx'
          · exact ⟨hun, (hin' x).2 (.inl rfl), hu0⟩
          · obtain ⟨h1, h2, h3⟩ := inv.xin x hx'
            exact ⟨h1, (hin' x).2 (.inr h2), h3⟩
        · show (u :: st.X).Nodup
          rw [List.nodup_cons]
          exact ⟨fun hm => hnotin (inv.xin u hm).2.1, inv.xnd⟩
        · show v ∉ u :: st.X
          intro hm
          rcases List.mem_cons.1 hm with h | h
          · exact huv h.symm
          · exact inv.vnx h
        · exact ⟨hvn, (hin' v).2 (.inr hvt)⟩
        · intro x hx ht
          show par (st.T.set u (v : Int) huT) x ∉ u :: st.X
          by_cases hxu : x = u
          · subst hxu
            rw [hparu]
            intro hm
            rcases List.mem_cons.1 hm with h | h
            · exact huv h.symm
            · exact inv.vnx h
          · have htx : inTree st.T x := by
              rcases (hin' x).1 ht with h | h
              · exact absurd h hxu
              · exact h
            rw [hpar' x hxu]
            intro hm
            rcases List.mem_cons.1 hm with h | h
            · exact hparne x hx htx h
            · exact inv.leaf x hx htx h
        · intro x hx
          show AncD (st.T.set u (v : Int) huT) (st.depth.set u (st.depth[v] + 1) huD)
            (par (st.T.set u (v : Int) huT) x) v
          have hx' : x ∈ u :: st.X := hx
          rcases List.mem_cons.1 hx' with rfl | hx'
          · rw [hparu]; exact ⟨0, rfl, rfl⟩
          · obtain ⟨h1, h2, _⟩ := inv.xin x hx'
            rw [hpar' x (hne_u x h2)]
            exact hanc _ v hvn hvt (inv.ptree x h1 h2).2.1 (inv.ptree x h1 h2).2.2 (inv.xanc x hx')
        · show (u :: st.X).Pairwise fun up lo =>
            AncD (st.T.set u (v : Int) huT) (st.depth.set u (st.depth[v] + 1) huD)
              (par (st.T.set u (v : Int) huT) lo) (par (st.T.set u (v : Int) huT) up)
          rw [List.pairwise_cons]
          constructor
          · intro lo hlo
            obtain ⟨h1, h2, _⟩ := inv.xin lo hlo
            rw [hparu, hpar' lo (hne_u lo h2)]
            exact hanc _ v hvn hvt (inv.ptree lo h1 h2).2.1 (inv.ptree lo h1 h2).2.2 (inv.xanc lo hlo)
          · refine List.Pairwise.imp_of_mem ?_ inv.xpair
            intro up lo hup hlo hA
            obtain ⟨u1, u2, _⟩ := inv.xin up hup
            obtain ⟨l1, l2, _⟩ := inv.xin lo hlo
            rw [hpar' up (hne_u up u2), hpar' lo (hne_u lo l2)]
            exact hanc _ _ (inv.ptree up u1 u2).2.1 (inv.ptree up u1 u2).2.2 (inv.ptree lo l1 l2).2.1
              (inv.ptree lo l1 l2).2.2 hA
        · intro x hx ht hxX hxv w hw hwn
          have hxX' : x ∉ u :: st.X := hxX
          have hxu : x ≠ u := fun h => hxX' (by simp [h])
          have htx : inTree st.T x := by
            rcases (hin' x).1 ht with h | h
            · exact absurd h hxu
            · exact h
          exact edgeRemoved_cons.2 (.inr (.inr
            (inv.exam x hx htx (fun h => hxX' (List.mem_cons_of_mem _ h)) hxv w hw hwn)))
      refine ih _ inv' hnd' (hus' _ rfl) (hprog' _ rfl) ?_ st' hres
      intro x hx hp hm
      have hx' : x ∈ u :: st.X := hx
      rcases List.mem_cons.1 hx' with rfl | hx'
      · exact hunot hm
      · have h2 := (inv.xin x hx').2.1
        have hp' : par (st.T.set u (v : Int) huT) x = v := hp
        rw [hpar' x (hne_u x h2)] at hp'
        exact hfresh x hx' hp' (List.mem_cons_of_mem _ hm)

end GDist
