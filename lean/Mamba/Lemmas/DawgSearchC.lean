import Mamba.Lemmas.DawgSearchA
/-! # C13 helper lemmas, part C: the trie built from a strictly increasing word list -/
namespace DawgSearch

theorem chain_words : ∀ w : Word, (chain w).words = [w]
  | [] => rfl
  | c :: w => by simp [chain, Node.words, Links.words, chain_words w]

theorem chain_wf : ∀ w : Word, (chain w).WF
  | [] => by simp [chain, Node.WF, Links.WF, Links.words]
  | c :: w => by
    have := chain_wf w
    simp [chain, Node.WF, Links.WF, Links.words, chain_words w, this]

mutual
theorem Node.insert_spec : (t : Node) → (w : Word) → t.WF → (∀ v ∈ t.words, v < w) →
    (t.insert w).words = t.words ++ [w] ∧ (t.insert w).WF
  | .mk f n ls, [], hwf, hlt => by
    have hnil : (Node.mk f n ls).words = [] := by
      cases h : (Node.mk f n ls).words with
      | nil => rfl
      | cons v r => exact absurd (hlt v (by simp [h])) (List.not_lt_nil v)
    unfold Node.WF at hwf
    cases f
    · simp only [Node.words, Bool.false_eq_true, if_false, List.nil_append] at hnil
      simp [Node.insert, Node.words, Node.WF, hnil, hwf.2, hwf.1]
    · simp [Node.words] at hnil
  | .mk f n ls, c :: w, hwf, hlt => by
    unfold Node.WF at hwf
    have := Links.insert_spec ls c w hwf.2 (fun v hv => hlt v (by simp [Node.words, hv]))
    simp only [Node.insert, Node.words, this.1, Node.WF, this.2, and_true, List.append_assoc, true_and,
      List.length_append, List.length_cons, List.length_nil, hwf.1]
    omega
theorem Links.insert_spec : (ls : Links) → (c : UInt8) → (w : Word) → ls.WF → (∀ v ∈ ls.words, v < c :: w) →
    (ls.insert c w).words = ls.words ++ [c :: w] ∧ (ls.insert c w).WF
  | .nil, c, w, _, _ => by simp [Links.insert, Links.words, chain_words, Links.WF, chain_wf]
  | .cons l ch .nil, c, w, hwf, hlt => by
    unfold Links.WF at hwf
    by_cases hlc : l = c
    · subst hlc
      have := Node.insert_spec ch w hwf.1 (fun v hv => by
        have := hlt (l :: v) (by simp [Links.words, hv])
        simpa using this)
      simp [Links.insert, Links.words, this.1, Links.WF, this.2]
    · simp [Links.insert, hlc, Links.words, chain_words, Links.WF, chain_wf, hwf.1]
  | .cons l ch (.cons l' ch' r), c, w, hwf, hlt => by
    unfold Links.WF at hwf
    have := Links.insert_spec (.cons l' ch' r) c w hwf.2 (fun v hv => hlt v (by
      rw [Links.words]; exact List.mem_append_right _ hv))
    rw [Links.insert, Links.words, this.1, Links.WF]
    refine ⟨by simp [Links.words], hwf.1, this.2⟩
end

theorem foldl_insert_spec : ∀ (ws : List Word) (t : Node), t.WF →
    List.Pairwise (· < ·) (t.words ++ ws) →
    (ws.foldl Node.insert t).words = t.words ++ ws ∧ (ws.foldl Node.insert t).WF
  | [], t, hwf, _ => by simp [hwf]
  | w :: ws, t, hwf, hp => by
    have hlt : ∀ v ∈ t.words, v < w := by
      intro v hv
      exact (List.pairwise_append.1 hp).2.2 v hv w (by simp)
    have h1 := Node.insert_spec t w hwf hlt
    have := foldl_insert_spec ws (t.insert w) h1.2 (by simpa [h1.1] using hp)
    simpa [h1.1] using this

/-- the trie of a strictly increasing word list stores exactly these words, in this order -/
theorem build_words' (ws : List Word) (h : List.Pairwise (· < ·) ws) : (build ws).words = ws := by
  have := foldl_insert_spec ws (.mk false 0 .nil) (by simp [Node.WF, Links.WF, Links.words])
    (by simpa [Node.words, Links.words] using h)
  simpa [build, Node.words, Links.words] using this.1

theorem build_wf' (ws : List Word) (h : List.Pairwise (· < ·) ws) : (build ws).WF := by
  have := foldl_insert_spec ws (.mk false 0 .nil) (by simp [Node.WF, Links.WF, Links.words])
    (by simpa [Node.words, Links.words] using h)
  exact this.2

end DawgSearch
