import Mamba.Lemmas.CanonFTreeRefine
/-!
# The state in which the refinement aborts with "worse": `refineIter_worse_col`, `refineLoop_worse`, `refineLoop_worse_cnt`
-/
namespace CanonF

/-! ## the state in which the refinement aborts with "worse" -/

/-- `expandValue` reports "worse" only right after `worseTest` said so for the certificate it returns -/
theorem expandLoop_worse_test {nb : Nbrs} {cb fl : Sl Nat} : ∀ (k j : Nat) (op op' : OP),
    expandLoop nb cb fl k j op = .ok (true, op') → worseTest op'.value cb fl = .ok true := by
  intro k
  induction k with
  | zero => intro j op op' h; simp [expandLoop] at h
  | succ k ih =>
    intro j op op' h
    rw [expandLoop] at h
    osplit h
    · rename_i hw
      simp only [Outcome.ok.injEq, Prod.mk.injEq, true_and] at h
      subst h
      exact hw
    · exact ih _ _ _ h

theorem expandValue_worse_test {nb : Nbrs} {cb fl : Sl Nat} {op op' : OP}
    (h : expandValue nb cb fl op = .ok (true, op')) : worseTest op'.value cb fl = .ok true :=
  expandLoop_worse_test _ _ _ _ h

/-- the loop over the bins, for both results: with `false` the complete invariant, with `true` the state is coarser
than and order-compatible with the complete refinement, and `worseTest` holds for its certificate -/
theorem splitLoop_col2 (hst : StablePerm) {nb : Nbrs} {n : Nat} {cb fl : Sl Nat} {opts : Options}
    (hv : opts.checkViability = false) {op0 : OP}
    {k : Nat} {op1 op' : OP} {sc1 sc' : Scratch} {r : Bool}
    (hp : PartInv n op1) (ha : AgeInv op1)
    (hcc : ∀ j, j < k → CellCount op1 sc1.timesSeen sc1.maxCell sc1.numberOfMax j)
    (hc : ColInv n sc1.timesSeen op0 k op1)
    (h : forDown (splitCell nb n cb fl opts) k (false, op1, sc1) = .ok (r, op', sc')) :
    (r = false → ColInv n sc1.timesSeen op0 0 op') ∧
    (r = true → (∀ u v, u < n → v < n → cellOf op' u < cellOf op' v →
        (cellOf op0 u < cellOf op0 v ∨ (cellOf op0 u = cellOf op0 v ∧ rfTv sc1.timesSeen u < rfTv sc1.timesSeen v))) ∧
      worseTest op'.value cb fl = .ok true) := by
  have := forDown_inv (splitCell nb n cb fl opts)
    (fun i (st : Bool × OP × Scratch) =>
      (st.1 = false →
        (PartInv n st.2.1 ∧ AgeInv st.2.1 ∧ ScrRel sc1 st.2.2 ∧
          (∀ j, j < i → CellCount st.2.1 sc1.timesSeen sc1.maxCell sc1.numberOfMax j) ∧
          ColInv n sc1.timesSeen op0 i st.2.1)) ∧
      (st.1 = true → (∀ u v, u < n → v < n → cellOf st.2.1 u < cellOf st.2.1 v →
          (cellOf op0 u < cellOf op0 v ∨ (cellOf op0 u = cellOf op0 v ∧ rfTv sc1.timesSeen u < rfTv sc1.timesSeen v))) ∧
        worseTest st.2.1.value cb fl = .ok true))
    k (false, op1, sc1) (r, op', sc') ⟨(fun _ => ⟨hp, ha, ScrRel.refl _, hcc, hc⟩), (fun h => by cases h)⟩
    (by
      rintro i ⟨ret, opA, scA⟩ ⟨r2, opB, scB⟩ _ ⟨hP, hF⟩ hf
      simp only at hP hF
      cases ret with
      | true =>
        rw [splitCell_true] at hf
        simp only [Outcome.ok.injEq, Prod.mk.injEq] at hf
        obtain ⟨rfl, rfl, rfl⟩ := hf
        exact ⟨(fun h => by cases h), hF⟩
      | false =>
        obtain ⟨pA, aA, sA, cA, iA⟩ := hP rfl
        have sA' := sA
        obtain ⟨e1, e2, e3, _, _, _⟩ := sA'
        have hcc1 : CellCount opA scA.timesSeen scA.maxCell scA.numberOfMax i := by
          rw [e1, e2, e3]; exact cA i (Nat.lt_succ_self i)
        obtain ⟨g1, g2, g3⟩ := splitCell_step hst pA aA hcc1 hf
        obtain ⟨bs, dj, hbs, hdj, hcase⟩ := splitCell_splitX hst pA iA.btc hcc1 hf
        rw [e1] at hcase
        constructor
        · intro hr2
          simp only at hr2
          refine ⟨g1.1, g1.2.1, sA.trans g2, ?_, ?_⟩
          · intro j hj
            have := g3 j hj (by rw [e1, e2, e3]; exact cA j (by omega))
            rw [e1, e2, e3] at this; exact this
          · rcases hcase with ⟨_, rfl, _, hall⟩ | ⟨K, nbsL, op2, sc2, hrel, hx, _, ht⟩
            · exact iA.step_skip pA hbs hdj hall
            · obtain ⟨_, _, f2, _, f4, _, f6⟩ := scTail_frame ht
              exact (iA.step_split pA hrel hx).of_frame f6 f4 f2
        · intro hr2
          simp only at hr2
          subst hr2
          rcases hcase with ⟨hfalse, _⟩ | ⟨K, nbsL, op2, sc2, hrel, hx, _, ht⟩
          · cases hfalse
          · obtain ⟨_, _, _, _, _, _, f6⟩ := scTail_frame ht
            obtain ⟨_, w, hex, _, hrw⟩ := scTail_ok ht
            have hw : w = true := (hrw hv).symm
            subst hw
            have hc2 := iA.step_split pA hrel hx
            have hcell : ∀ x, cellOf opB x = cellOf op2 x := fun x => by unfold cellOf; rw [f6]
            refine ⟨?_, ?_⟩
            · intro u v hu hvn hlt
              rw [hcell, hcell] at hlt
              rcases (hc2.ord u v hu hvn).1 hlt with h1 | ⟨h1, _, h3⟩
              · exact Or.inl h1
              · exact Or.inr ⟨h1, h3⟩
            · by_cases hj : i = op2.spl
              · rw [if_pos hj] at hex
                exact expandValue_worse_test hex
              · rw [if_neg hj] at hex
                simp at hex)
    h
  exact ⟨fun hr => (this.1 hr).2.2.2.2, this.2⟩

/-- the part of `refineIter` before the loop over the bins: pop, counting, the invariant at the start of the loop -/
theorem refineIter_setup (hcs : CountSem)
    {n : Nat} {nb : Nbrs} {cb fl : Sl Nat} {opts : Options} {op : OP} {sc : Scratch} {R : Bool × OP × Scratch}
    (hp : PartInv n op) (hs : ScrInv n sc) (htw : sc.timesSeen.WF) (htl : sc.timesSeen.len = n)
    (ha : AgeInv op) (hb : BtcInv op) (hpos : 0 < op.binsToCheck.len) (hnb : NbOK nb n)
    (h : refineIter nb n cb fl opts op sc = .ok R) :
    ∃ (i : Nat) (btc : Sl Int) (ts2 mc2 nm2 : Sl Nat),
      i < op.binDividers.len ∧ (i : Int) ∈ op.binsToCheck.toList ∧ (∀ x ∈ op.binsToCheck.toList, x ≤ (i : Int)) ∧
      (∀ v, v < n → rfTv ts2 v = cntIn nb op i v) ∧ ts2.WF ∧ ts2.len = n ∧
      PartInv n { op with binsToCheck := btc } ∧ AgeInv { op with binsToCheck := btc } ∧
      (∀ j, j < op.binDividers.len → CellCount { op with binsToCheck := btc } ts2 mc2 nm2 j) ∧
      ColInv n ts2 { op with binsToCheck := btc } op.binDividers.len { op with binsToCheck := btc } ∧
      forDown (splitCell nb n cb fl opts) op.binDividers.len
        (false, { op with binsToCheck := btc }, { sc with timesSeen := ts2, maxCell := mc2, numberOfMax := nm2 }) = .ok R := by
  obtain ⟨mc1, nm1, i, btc, a, b, ts2, mc2, nm2, h1, h2, h3, h4, hi0, h5, h6, hcnt, hfd⟩ := refineIter_ok h
  obtain ⟨p1, p2, p3, p4, p5⟩ := tr_pop_facts hb.wf hb.sorted hpos h3 h4
  have hir := hb.range i p1
  have hiN : ((i.toNat : Nat) : Int) = i := by omega
  have hil : i.toNat < op.binDividers.len := by omega
  have hbs : (0 :: op.binDividers.toList)[i.toNat]? = some a := rf_binStart_eq h5
  have hdj : op.binDividers.toList[i.toNat]? = some b := Sl.get_eq_toList.1 h6
  have hzero : ∀ v, v < n → sc.timesSeen.fill0.toList[v]? = some 0 := by
    intro v hv
    rw [Sl.getElem?_toList, rf_fill0_len, if_pos (by omega), rf_fill0_data, if_pos (by omega),
      if_pos (by have := htw; unfold Sl.WF at this; omega)]
  obtain ⟨t1, t2, t3⟩ := hcs hp hnb hbs hdj (rf_fill0_wf htw) (by rw [rf_fill0_len]; exact htl) hzero hcnt
  have hT : ∀ v, v < n → rfTv ts2 v = cntIn nb op i.toNat v := by
    intro v hv; unfold rfTv; rw [t3 v hv]; rfl
  obtain ⟨m1, m2, _⟩ := Sl.reslice_len h1
  have hz1 := rfDv_fill0_reslice hs.capM hs.zeroM h1
  have hbn : op.binDividers.len ≤ n := hp.bdLen_le
  have hI0 : CountInv n op.inCell sc.timesSeen.fill0 mc1 nm1 :=
    countInv_zero (fun v => rfTv_fill0 _ v) (fun c hc => by unfold rfDv; rw [hz1 c (by omega)]; rfl)
  obtain ⟨hI, f1, f2, f3⟩ := countLoop_st (n := n) (Nat.le_of_eq hp.lenInCell) nb op.order _ _ _ hI0 hcnt
  simp only at hI f1 f2 f3
  have hp1 : PartInv n { op with binsToCheck := btc } := hp.of_btc btc
  have ha1 : AgeInv { op with binsToCheck := btc } := AgeInv.of_frame ha rfl rfl
  have hcc : ∀ j, j < op.binDividers.len → CellCount { op with binsToCheck := btc } ts2 mc2 nm2 j := by
    intro j hj
    exact cellCount_of_countInv hp1 hI (by rw [f2.1, m1]; exact hj)
  have hc0 : ColInv n ts2 { op with binsToCheck := btc } op.binDividers.len { op with binsToCheck := btc } := by
    have hlt : ∀ v, v < n → cellOf { op with binsToCheck := btc } v < op.binDividers.len :=
      fun v hv => tr_cellOf_lt hp1 hv
    refine ⟨?_, ?_, ?_, ⟨p3, p4, fun x hx => hb.range x ((p5 x).1 hx).1⟩⟩
    · intro u v hu hv
      have := hlt u hu
      constructor
      · intro h'; exact Or.inl h'
      · rintro (h' | ⟨_, h', _⟩)
        · exact h'
        · omega
    · intro v hv
      have := hlt v hv
      exact ⟨fun _ => rfl, fun h' => by omega⟩
    · intro v hv
      have := hlt v hv
      constructor
      · intro h'; exact Or.inl ⟨this, h'⟩
      · rintro (⟨_, h'⟩ | ⟨h', _⟩)
        · exact h'
        · omega
  exact ⟨i.toNat, btc, ts2, mc2, nm2, hil, by rw [hiN]; exact p1, by rw [hiN]; exact p2, hT, t2, t1, hp1, ha1, hcc,
    hc0, hfd⟩

/-- the state in which one iteration aborts with "worse" is coarser than, and order-compatible with, the result of the
complete iteration; `worseTest` holds for its certificate -/
theorem refineIter_worse_col (hst : StablePerm) (hcs : CountSem)
    {n : Nat} {nb : Nbrs} {cb fl : Sl Nat} {opts : Options} {op op' : OP} {sc sc' : Scratch}
    (hp : PartInv n op) (ha : AgeInv op) (hs : ScrInv n sc) (htw : sc.timesSeen.WF) (htl : sc.timesSeen.len = n)
    (hb : BtcInv op) (hpos : 0 < op.binsToCheck.len) (hnb : NbOK nb n) (hv : opts.checkViability = false)
    (h : refineIter nb n cb fl opts op sc = .ok (true, op', sc')) :
    ∃ i : Nat, i < op.binDividers.len ∧ (i : Int) ∈ op.binsToCheck.toList ∧
      (∀ x ∈ op.binsToCheck.toList, x ≤ (i : Int)) ∧
      (∀ u v, u < n → v < n → cellOf op' u < cellOf op' v →
        (cellOf op u < cellOf op v ∨ (cellOf op u = cellOf op v ∧ cntIn nb op i u < cntIn nb op i v))) ∧
      worseTest op'.value cb fl = .ok true := by
  obtain ⟨i, btc, ts2, mc2, nm2, q1, q2, q3, hT, _, _, hp1, ha1, hcc, hc0, hfd⟩ :=
    refineIter_setup hcs hp hs htw htl ha hb hpos hnb h
  obtain ⟨_, g2⟩ := splitLoop_col2 hst hv (op0 := { op with binsToCheck := btc }) hp1 ha1 hcc hc0 hfd
  obtain ⟨g3, g4⟩ := g2 rfl
  refine ⟨i, q1, q2, q3, ?_, g4⟩
  intro u v hu hvn hlt
  have := g3 u v hu hvn hlt
  rw [hT u hu, hT v hvn] at this
  exact this


/-- the main loop aborting with "worse": some number of complete iterations (each related by `R`), then an aborting one -/
theorem refineLoop_worse (hst : StablePerm) (hcs : CountSem)
    {n : Nat} {nb : Nbrs} {cb fl : Sl Nat} {opts : Options} (hnb : NbOK nb n) (hv : opts.checkViability = false)
    (R : OP → OP → Prop) (hrefl : ∀ a, R a a) (htrans : ∀ a b c, R a b → R b c → R a c)
    (hstep : ∀ (a b : OP) (sca scb : Scratch), PartInv n a → AgeInv a → ScrInv n sca → sca.timesSeen.WF →
      sca.timesSeen.len = n → BtcInv a → 0 < a.binsToCheck.len →
      refineIter nb n cb fl opts a sca = .ok (false, b, scb) → R a b) :
    ∀ (f : Nat) (op op' : OP) (sc sc' : Scratch),
      PartInv n op → AgeInv op → ScrInv n sc → sc.timesSeen.WF → sc.timesSeen.len = n → BtcInv op →
      refineLoop nb n cb fl opts f op sc = .ok (true, op', sc') →
      ∃ (opk : OP) (sck : Scratch), R op opk ∧ PartInv n opk ∧ AgeInv opk ∧ BtcInv opk ∧ ScrInv n sck ∧
        sck.timesSeen.WF ∧ sck.timesSeen.len = n ∧ 0 < opk.binsToCheck.len ∧
        refineIter nb n cb fl opts opk sck = .ok (true, op', sc') ∧
        ∃ i : Nat, i < opk.binDividers.len ∧ (i : Int) ∈ opk.binsToCheck.toList ∧
          (∀ x ∈ opk.binsToCheck.toList, x ≤ (i : Int)) ∧
          (∀ u v, u < n → v < n → cellOf op' u < cellOf op' v →
            (cellOf opk u < cellOf opk v ∨ (cellOf opk u = cellOf opk v ∧ cntIn nb opk i u < cntIn nb opk i v))) ∧
          worseTest op'.value cb fl = .ok true := by
  intro f
  induction f with
  | zero => intro op op' sc sc' _ _ _ _ _ _ h; simp [refineLoop] at h
  | succ f ih =>
    intro op op' sc sc' hp ha hs htw htl hb h
    rw [refineLoop] at h
    by_cases hpos : op.binsToCheck.len > 0
    · rw [if_pos hpos] at h
      cases hit : refineIter nb n cb fl opts op sc with
      | ok Rr =>
        obtain ⟨r, op1, sc1⟩ := Rr
        rw [hit] at h
        cases r with
        | true =>
          simp only [Outcome.ok.injEq, Prod.mk.injEq, true_and] at h
          obtain ⟨rfl, rfl⟩ := h
          exact ⟨op, sc, hrefl op, hp, ha, hb, hs, htw, htl, hpos, hit,
            refineIter_worse_col hst hcs hp ha hs htw htl hb hpos hnb hv hit⟩
        | false =>
          simp only at h
          obtain ⟨_, _, _, _, _, _, c7, c8, c9, c10⟩ := refineIter_col hst hcs hp ha hs htw htl hb hpos hnb hit
          obtain ⟨g1, _, _, _⟩ := refineIter_inv hst (carried_true nb n cb fl opts) hp ha trivial hs hit
          obtain ⟨opk, sck, r1, r2⟩ := ih op1 op' sc1 sc' g1.1 g1.2.1 c10 c8 c9 c7 h
          exact ⟨opk, sck, htrans _ _ _ (hstep op op1 sc sc1 hp ha hs htw htl hb hpos hit) r1, r2⟩
      | panic => rw [hit] at h; simp at h
      | outOfFuel => rw [hit] at h; simp at h
    · rw [if_neg hpos] at h
      simp at h


/-- `refineLoop_worse` with a relation that counts the complete iterations; their number is below the fuel -/
theorem refineLoop_worse_cnt (hst : StablePerm) (hcs : CountSem)
    {n : Nat} {nb : Nbrs} {cb fl : Sl Nat} {opts : Options} (hnb : NbOK nb n) (hv : opts.checkViability = false)
    (R : Nat → OP → OP → Prop) (hrefl : ∀ a, R 0 a a)
    (htrans : ∀ j k a b c, R j a b → R k b c → R (j + k) a c)
    (hstep : ∀ (a b : OP) (sca scb : Scratch), PartInv n a → AgeInv a → ScrInv n sca → sca.timesSeen.WF →
      sca.timesSeen.len = n → BtcInv a → 0 < a.binsToCheck.len →
      refineIter nb n cb fl opts a sca = .ok (false, b, scb) → R 1 a b) :
    ∀ (f : Nat) (op op' : OP) (sc sc' : Scratch),
      PartInv n op → AgeInv op → ScrInv n sc → sc.timesSeen.WF → sc.timesSeen.len = n → BtcInv op →
      refineLoop nb n cb fl opts f op sc = .ok (true, op', sc') →
      ∃ (j : Nat) (opk : OP) (sck : Scratch), j < f ∧ R j op opk ∧ PartInv n opk ∧ AgeInv opk ∧ BtcInv opk ∧
        ScrInv n sck ∧ sck.timesSeen.WF ∧ sck.timesSeen.len = n ∧ 0 < opk.binsToCheck.len ∧
        refineIter nb n cb fl opts opk sck = .ok (true, op', sc') ∧
        ∃ i : Nat, i < opk.binDividers.len ∧ (i : Int) ∈ opk.binsToCheck.toList ∧
          (∀ x ∈ opk.binsToCheck.toList, x ≤ (i : Int)) ∧
          (∀ u v, u < n → v < n → cellOf op' u < cellOf op' v →
            (cellOf opk u < cellOf opk v ∨ (cellOf opk u = cellOf opk v ∧ cntIn nb opk i u < cntIn nb opk i v))) ∧
          worseTest op'.value cb fl = .ok true := by
  intro f
  induction f with
  | zero => intro op op' sc sc' _ _ _ _ _ _ h; simp [refineLoop] at h
  | succ f ih =>
    intro op op' sc sc' hp ha hs htw htl hb h
    rw [refineLoop] at h
    by_cases hpos : op.binsToCheck.len > 0
    · rw [if_pos hpos] at h
      cases hit : refineIter nb n cb fl opts op sc with
      | ok Rr =>
        obtain ⟨r, op1, sc1⟩ := Rr
        rw [hit] at h
        cases r with
        | true =>
          simp only [Outcome.ok.injEq, Prod.mk.injEq, true_and] at h
          obtain ⟨rfl, rfl⟩ := h
          exact ⟨0, op, sc, Nat.succ_pos f, hrefl op, hp, ha, hb, hs, htw, htl, hpos, hit,
            refineIter_worse_col hst hcs hp ha hs htw htl hb hpos hnb hv hit⟩
        | false =>
          simp only at h
          obtain ⟨_, _, _, _, _, _, c7, c8, c9, c10⟩ := refineIter_col hst hcs hp ha hs htw htl hb hpos hnb hit
          obtain ⟨g1, _, _, _⟩ := refineIter_inv hst (carried_true nb n cb fl opts) hp ha trivial hs hit
          obtain ⟨j, opk, sck, hj, r1, r2⟩ := ih op1 op' sc1 sc' g1.1 g1.2.1 c10 c8 c9 c7 h
          exact ⟨1 + j, opk, sck, by omega,
            htrans 1 j _ _ _ (hstep op op1 sc sc1 hp ha hs htw htl hb hpos hit) r1, r2⟩
      | panic => rw [hit] at h; simp at h
      | outOfFuel => rw [hit] at h; simp at h
    · rw [if_neg hpos] at h
      simp at h

end CanonF
